#!/bin/bash
# setup_cmd: warms the Go build cache for every check from files on disk (offline).
set -u
cd "$(dirname "$0")/harness" || exit 1
export GOFLAGS=-mod=mod GOPROXY=off GOSUMDB=off GOTOOLCHAIN=local
mkdir -p ../.build/setup
rc=0
for d in props/*/; do
  p=$(basename "$d")
  race=""
  if [ -f "$d/check.json" ] && grep -q '"race": *true' "$d/check.json"; then race="-race"; fi
  go test -c -tags verif $race -o ../.build/setup/$p.test ./props/$p >/dev/null 2>../.build/setup/$p.log || { echo "setup: build of $p failed"; cat ../.build/setup/$p.log; rc=1; }
done
rm -rf ../.build/setup
exit $rc
