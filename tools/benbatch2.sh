#!/bin/bash
# benbatch2.sh <ID> : second benign round: take /tmp/benout2-<id>/{1,2,3} as <ID>-b{4,5,6} and run the quick check (expected: SILENT)
ID=$1; id=${ID,,}
for i in 1 2 3; do [ -f /tmp/benout2-$id/$i/patch.diff ] && [ -f /tmp/benout2-$id/$i/meta.json ] && /verif/tools/benign.py take /tmp/benout2-$id/$i $ID-b$((i+3)) 2>&1 | tail -1; done
for i in 4 5 6; do [ -d /verif/benign/$ID-b$i ] && /verif/tools/benign.py run $ID-b$i quick 2>&1 | tail -1; done
