#!/usr/bin/env python3
"""Sensitivity probe runner: applies one textual breakage to a scratch worktree of the repo,
confirms the touched package still builds, runs a check against it, reverts.
usage: probe.py <worktree> <ID> <tier> <file> <old> <new> [label]"""
import subprocess, sys, os
wt, pid, tier, f, old, new = sys.argv[1:7]
label = sys.argv[7] if len(sys.argv) > 7 else old[:40]
p = os.path.join(wt, f)
s = open(p).read()
if old not in s:
    print("PROBE %s: pattern not found" % label); sys.exit(3)
open(p, "w").write(s.replace(old, new, 1))
env = dict(os.environ, GOFLAGS="-mod=mod", GOPROXY="off", GOSUMDB="off", GOTOOLCHAIN="local", VERIF_REPO=wt)
try:
    b = subprocess.run(["go", "build", "./..."], cwd=wt, env=env, capture_output=True, text=True)
    if b.returncode != 0:
        print("PROBE %s: does not compile\n%s" % (label, b.stderr[-500:])); sys.exit(3)
    r = subprocess.run([os.path.join(os.path.dirname(os.path.dirname(os.path.abspath(__file__))), "check"), pid, tier], env=env, capture_output=True, text=True)
    lines = [l for l in r.stdout.splitlines() if l.startswith("VIOLATION") or "failed after" in l or "panic after" in l]
    print("PROBE %-45s exit=%d %s" % (label, r.returncode, "CAUGHT" if r.returncode == 1 else "MISSED" if r.returncode == 0 else "INFRA"))
    for l in lines[:2]: print("     ", l.strip()[:220])
    if r.returncode == 2: print(r.stdout[-1500:])
finally:
    open(p, "w").write(s)
