#!/bin/bash
# benbatch.sh <ID> : take candidates /tmp/benout-<id>/{1,2,3} as <ID>-b<i> and run the quick check against each (expected: SILENT)
ID=$1; id=${ID,,}
for i in 1 2 3; do [ -f /tmp/benout-$id/$i/patch.diff ] && /verif/tools/benign.py take /tmp/benout-$id/$i $ID-b$i 2>&1 | tail -1; done
for i in 1 2 3; do [ -d /verif/benign/$ID-b$i ] && /verif/tools/benign.py run $ID-b$i quick 2>&1 | tail -1; done
