#!/usr/bin/env python3
"""Prints the markdown table of seeded defects and which check tier detects them (from seeded/*/meta.json + result.json)."""
import json, os, glob
V = os.path.dirname(os.path.dirname(os.path.abspath(__file__)))
tot = {"total": 0, "own_quick": 0, "own_thorough_only": 0, "sibling_only": 0, "ruled_out": 0, "missed": 0}
print("| seeded change | property | what it does | needs, to manifest | detected by |")
print("|---|---|---|---|---|")
for d in sorted(glob.glob(os.path.join(V, "seeded", "*"))):
    mp = os.path.join(d, "meta.json")
    if not os.path.exists(mp):
        continue
    m = json.load(open(mp))
    rp = os.path.join(d, "result.json")
    r = json.load(open(rp)) if os.path.exists(rp) else {}
    det = []
    for tier in ("quick", "thorough"):
        if tier in r:
            det.append("%s: %s" % (tier, "yes" if r[tier]["detected"] else "NO"))
    for k in sorted(r):
        if "-by-" in k:
            det.append("%s: %s" % (k, "yes" if r[k]["detected"] else "NO"))
    tot["total"] += 1
    if r.get("quick", {}).get("detected"):
        tot["own_quick"] += 1
    elif r.get("thorough", {}).get("detected"):
        tot["own_thorough_only"] += 1
    elif any(("-by-" in k) and r[k]["detected"] for k in r):
        tot["sibling_only"] += 1
    elif "by ruling" in m.get("coordinator_note", "") or "neutralised by the later repair" in m.get("coordinator_note", ""):
        tot["ruled_out"] += 1
    else:
        tot["missed"] += 1
    note = m.get("coordinator_note", "")
    def clean(s):
        return " ".join(str(s).replace("|", "\\|").split())[:260]
    print("| %s | %s | %s | %s | %s%s |" % (os.path.basename(d), m["property"], clean(m.get("summary", "")), clean(m.get("needs_to_manifest", "")), ", ".join(det), (" — " + note) if note else ""))

print()
print("Totals: %(total)d seeded changes; %(own_quick)d detected by the quick tier of their own property's check; %(own_thorough_only)d only by its thorough tier; %(sibling_only)d only by another property's check (recorded as quick-by-<ID>); %(ruled_out)d not reported because, by ruling, they do not (or no longer) break the property (see their note); %(missed)d not detected." % tot)
