#!/usr/bin/env python3
"""Prints the markdown table of seeded defects and which check tier detects them (from seeded/*/meta.json + result.json)."""
import json, os, glob
V = os.path.dirname(os.path.dirname(os.path.abspath(__file__)))
print("| seeded change | property | what it does | needs, to manifest | detected by |")
print("|---|---|---|---|---|")
for d in sorted(glob.glob(os.path.join(V, "seeded", "*"))):
    mp = os.path.join(d, "meta.json")
    if not os.path.exists(mp):
        continue
    m = json.load(open(mp))
    rp = os.path.join(d, "result.json")
    r = json.load(open(rp)) if os.path.exists(rp) else {}
    det = []
    for tier in ("quick", "thorough"):
        if tier in r:
            det.append("%s: %s" % (tier, "yes" if r[tier]["detected"] else "NO"))
    note = m.get("coordinator_note", "")
    def clean(s):
        return " ".join(str(s).replace("|", "\\|").split())[:260]
    print("| %s | %s | %s | %s | %s%s |" % (os.path.basename(d), m["property"], clean(m.get("summary", "")), clean(m.get("needs_to_manifest", "")), ", ".join(det), (" — " + note) if note else ""))
