#!/bin/bash
# seedbatch.sh <ID> : confirm candidates /tmp/mutout-<id>/{1,2,3} as <ID>-m<i> and run the quick check against each
ID=$1; id=${ID,,}
for i in 1 2 3 4 5; do [ -d /tmp/mutout-$id/$i ] && /verif/tools/seeded.py confirm /tmp/mutout-$id/$i $ID-m$i 2>&1 | tail -1; done
for i in 1 2 3 4 5; do [ -d /verif/seeded/$ID-m$i ] && /verif/tools/seeded.py run $ID-m$i quick 2>&1 | tail -1; done
