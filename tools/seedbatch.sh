#!/bin/bash
# seedbatch.sh <ID> [round] : confirm candidates /tmp/mutout[round]-<id>/{1,2,3} as <ID>-m<3*(round-1)+i> and run the quick check against each
ID=$1; id=${ID,,}; R=${2:-1}
dir=/tmp/mutout-$id; [ "$R" != "1" ] && dir=/tmp/mutout$R-$id
off=$(( (R-1)*3 ))
for i in 1 2 3; do [ -d $dir/$i ] && /verif/tools/seeded.py confirm $dir/$i $ID-m$((off+i)) 2>&1 | tail -1; done
for i in 1 2 3; do [ -d /verif/seeded/$ID-m$((off+i)) ] && /verif/tools/seeded.py run $ID-m$((off+i)) quick 2>&1 | tail -1; done
