#!/usr/bin/env python3
"""Regenerates /verif/MANIFEST.json from harness/props/*/check.json (one stanza per property)."""
import json, os, glob, subprocess
V = os.path.dirname(os.path.dirname(os.path.abspath(__file__)))
props = [json.loads(l) for l in open(os.path.join(V, "properties.jsonl")) if l.strip()]
checks, na = [], []
# only properties the coordinator has verified to run clean on the unchanged tree are claimed
claimed_ids = set(l.split()[0] for l in open(os.path.join(V, "CLAIMED.txt")) if l.strip() and not l.startswith("#"))
for p in props:
    pid = p["id"]
    cj = os.path.join(V, "harness", "props", pid.lower(), "check.json")
    conf = json.load(open(cj)) if os.path.exists(cj) else {}
    m = conf.get("manifest")
    if not m or not conf.get("claimed") or pid not in claimed_ids:
        na.append({"property_id": pid, "reason": conf.get("not_claimed_reason", "check under construction in this framework; not claimed until it runs clean on the unchanged tree")})
        continue
    checks.append({
        "property_id": pid,
        "quick_cmd": "./check %s quick" % pid,
        "thorough_cmd": "./check %s thorough" % pid,
        "evidence_file": "/verif/evidence/%s.json" % pid,
        "replay_cmd_template": "./check %s --replay {path}" % pid,
        "engine": "rapid+gofuzz",
        "level_claimed": {"category": "exploration", "text": m["text"], "design_ref": m.get("design_ref", "DESIGN.md section 3, " + pid)},
        "level_note": m["note"],
        "technique": m["technique"],
    })
hooks_commits = []
hf = os.path.join(V, "HOOK_COMMITS.txt")
if os.path.exists(hf):
    hooks_commits = [l.split()[0] for l in open(hf) if l.strip() and not l.startswith("#")]
man = {
    "version": 1,
    "setup_cmd": "./setup.sh",
    "hooks": {
        "guard": "verif",
        "enable": "Go build tag: every check builds with `go test -c -tags verif` (and `go build -tags verif` for the ffsigner binary) from /repo's working tree via a replace directive",
        "baseline_off_cmd": "cd /repo && go test -mod=mod -vet=off -count=1 -timeout 25m ./...",
        "source_commits": hooks_commits,
        "add_only": True,
    },
    "engines": [
        {"name": "rapid+gofuzz", "path": "/verif/harness", "serves_properties": [c["property_id"] for c in checks],
         "kind_free_text": "property-based testing (pgregory.net/rapid v1.3.0: structured/stateful generators, shrinking) and Go native coverage-guided fuzzing, each against independent reference models in harness/ref; driver ./check"},
    ],
    "checks": checks,
    "notes": "One Go module (harness/) with a replace => /repo; ./check <ID> quick|thorough rebuilds the test binary from /repo's working tree, runs corpus + known-finding probes + rapid exploration (+ sharded runs and bounded native fuzzing in the thorough tier), merges shard evidence into evidence/<ID>.json. Exit 2 = infrastructure trouble, never a violation. Known findings: KNOWN_FINDINGS.txt.",
    "not_applicable": na,
}
json.dump(man, open(os.path.join(V, "MANIFEST.json"), "w"), indent=1)
print("claimed:", [c["property_id"] for c in checks])
