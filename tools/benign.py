#!/usr/bin/env python3
"""False-alarm round: property-PRESERVING changes written by sub-agents (notes/BENIGN_BRIEF.md).

  benign.py take <candidate_dir> <name>        confirm (applies, builds, whole unedited suite green) and store as /verif/benign/<name>/
  benign.py cross <name> <OTHER_ID> [tier]     another property's check against the change (recorded as <tier>-by-<OTHER_ID>)
  benign.py run <name>|all [quick|thorough] [seed]   run the property's check against the changed tree; the expected outcome is exit 0.
        The outcome is recorded in /verif/benign/<name>/result.json; a VIOLATION here is either a false alarm of the check
        (to be corrected) or a change that does break the property after all (recorded in meta.json: coordinator_note).
"""
import json, os, shutil, subprocess, sys, time

V = os.path.dirname(os.path.dirname(os.path.abspath(__file__)))
ENV = dict(os.environ, GOFLAGS="-mod=mod", GOPROXY="off", GOSUMDB="off", GOTOOLCHAIN="local")


def sh(cmd, cwd=None, env=None, timeout=3600):
    r = subprocess.run(cmd, cwd=cwd, env=env or ENV, stdout=subprocess.PIPE, stderr=subprocess.STDOUT, text=True, timeout=timeout)
    return r.returncode, r.stdout


def worktree(tag):
    wt = "/tmp/benign-%s-%d" % (tag, os.getpid())
    sh(["git", "-C", "/repo", "worktree", "add", "-q", "--detach", wt, "HEAD"])
    return wt


def drop(wt):
    sh(["git", "-C", "/repo", "worktree", "remove", "--force", wt])
    shutil.rmtree(wt, ignore_errors=True)


def apply(wt, patch):
    rc, out = sh(["git", "apply", patch], cwd=wt)
    if rc != 0:
        rc, out = sh(["git", "apply", "--3way", patch], cwd=wt)
        sh(["git", "reset", "-q"], cwd=wt)
    return rc, out


def take(cand, name):
    meta = json.load(open(os.path.join(cand, "meta.json")))
    patch = os.path.join(cand, "patch.diff")
    wt = worktree(name)
    try:
        rc, out = apply(wt, patch)
        if rc != 0:
            print("REJECT %s: patch does not apply\n%s" % (name, out[-600:]))
            return False
        rc, out = sh(["go", "build", "./..."], cwd=wt)
        if rc != 0:
            print("REJECT %s: does not build\n%s" % (name, out[-600:]))
            return False
        rc, out = sh(["go", "test", "-mod=mod", "-vet=off", "-count=1", "-timeout", "25m", "./..."], cwd=wt, timeout=2400)
        if rc != 0:
            print("REJECT %s: existing suite fails: %s" % (name, [l for l in out.splitlines() if l.startswith(("--- FAIL", "FAIL"))][:6]))
            return False
    finally:
        drop(wt)
    dst = os.path.join(V, "benign", name)
    os.makedirs(dst, exist_ok=True)
    shutil.copy(patch, os.path.join(dst, "patch.diff"))
    if os.path.exists(os.path.join(cand, "demo_test.go")):
        shutil.copy(os.path.join(cand, "demo_test.go"), os.path.join(dst, "demo_test.go"))
    meta["confirmed"] = {"repo_head": sh(["git", "-C", "/repo", "rev-parse", "--short", "HEAD"])[1].strip(), "ran": ["git apply", "go build ./...", "go test ./... (whole unedited suite): green"]}
    json.dump(meta, open(os.path.join(dst, "meta.json"), "w"), indent=1)
    print("TAKEN %s" % name)
    return True


def run(name, tier, seed, other=None):
    d = os.path.join(V, "benign", name)
    meta = json.load(open(os.path.join(d, "meta.json")))
    pid = other or meta["property"]
    wt = worktree(name)
    try:
        rc, out = apply(wt, os.path.join(d, "patch.diff"))
        if rc != 0:
            print("%s: patch no longer applies" % name)
            return None
        t0 = time.time()
        env = dict(ENV, VERIF_REPO=wt)
        if seed is not None:
            env["VERIF_SEED"] = seed
        rc, out = sh([os.path.join(V, "check"), pid, tier], env=env, timeout=7200)
        viol = [l for l in out.splitlines() if l.startswith("VIOLATION")]
        first = [l.strip() for l in out.splitlines() if "failed after" in l or "panic after" in l or "_test.go" in l][:3]
        res = {"property": pid, "tier": tier, "seed": seed, "exit": rc, "silent": rc == 0, "wall_s": round(time.time() - t0, 1), "violation_lines": viol[:4], "first_failure": first,
               "repo_head": sh(["git", "-C", "/repo", "rev-parse", "--short", "HEAD"])[1].strip()}
        if rc == 1:
            res["output_tail"] = out[-8000:]
            for v in viol[:2]:  # keep the replay: the next run of the check clears replays/
                rpth = v.split("replay=")[-1].strip()
                if os.path.exists(rpth):
                    shutil.copy(rpth, os.path.join(d, "alarm-" + os.path.basename(rpth)))
        rp = os.path.join(d, "result.json")
        allres = json.load(open(rp)) if os.path.exists(rp) else {}
        allres[tier + ("" if seed is None else "-seed" + seed) + ("" if other is None else "-by-" + other)] = res
        json.dump(allres, open(rp, "w"), indent=1)
        print("%-12s %s %-8s exit=%d %s %.0fs %s" % (name, pid, tier, rc, "SILENT" if rc == 0 else ("ALARM" if rc == 1 else "INFRA"), res["wall_s"], (first[0][:200] if first else "")))
        if rc == 2:
            print(out[-1200:])
        return rc == 0
    finally:
        drop(wt)


def main():
    a = sys.argv[1:]
    if a[0] == "take":
        sys.exit(0 if take(a[1], a[2]) else 1)
    if a[0] == "cross":  # benign.py cross <name> <OTHER_ID> [tier]: another property's check against this change
        run(a[1], a[3] if len(a) > 3 else "quick", None, a[2])
        return
    if a[0] == "run":
        tier = a[2] if len(a) > 2 else "quick"
        seed = a[3] if len(a) > 3 else None
        names = sorted(os.listdir(os.path.join(V, "benign"))) if a[1] == "all" else [a[1]]
        for n in names:
            if os.path.exists(os.path.join(V, "benign", n, "meta.json")):
                run(n, tier, seed)


if __name__ == "__main__":
    main()
