#!/bin/bash
# applyfix.sh <name> <go packages to test...> : applies /verif/fixes/<name>.diff to /repo as one "fix:" commit after the touched packages' unedited tests pass
set -e
export GOFLAGS=-mod=mod GOPROXY=off GOSUMDB=off GOTOOLCHAIN=local
name=$1; shift
cd /repo
git diff --quiet || { echo "repo dirty"; exit 1; }
git apply --3way /verif/fixes/$name.diff || { echo "APPLY FAILED $name"; git checkout -- . ; exit 1; }
git reset -q
gofmt -l pkg internal cmd | grep . && { echo "gofmt"; git checkout -- .; exit 1; }
if ! go test -mod=mod -vet=off -count=1 "$@" > /tmp/applyfix.log 2>&1; then tail -30 /tmp/applyfix.log; echo "TESTS FAILED $name"; git checkout -- .; exit 1; fi
head -1 /verif/fixes/$name.msg | grep -q '^fix: ' || { echo "message does not start with fix:"; git checkout -- .; exit 1; }
git add -A && git commit -q -F /verif/fixes/$name.msg && echo "APPLIED $name as $(git log --format=%h -1)"
