#!/usr/bin/env python3
"""Prints the markdown table of the benign (property-preserving) changes and what each check said (benign/*/meta.json + result.json)."""
import json, os, glob
V = os.path.dirname(os.path.dirname(os.path.abspath(__file__)))
def clean(s, n=300):
    return " ".join(str(s).replace("|", "\\|").split())[:n]
print("| change | property | family | what it changes | own check | other checks | note |")
print("|---|---|---|---|---|---|---|")
tot = own_silent = cross = cross_alarm = 0
for d in sorted(glob.glob(os.path.join(V, "benign", "*"))):
    mp = os.path.join(d, "meta.json")
    if not os.path.exists(mp):
        continue
    m = json.load(open(mp))
    r = json.load(open(os.path.join(d, "result.json"))) if os.path.exists(os.path.join(d, "result.json")) else {}
    own = [k for k in r if "-by-" not in k]
    oth = [k for k in r if "-by-" in k]
    tot += 1
    if own and all(r[k]["silent"] for k in own):
        own_silent += 1
    cross += len(oth)
    cross_alarm += sum(1 for k in oth if not r[k]["silent"])
    print("| %s | %s | %s | %s | %s | %s | %s |" % (os.path.basename(d), m["property"], m.get("family", ""), clean(m.get("summary", "")),
          ", ".join("%s: %s" % (k, "silent" if r[k]["silent"] else "ALARM") for k in sorted(own)),
          ", ".join("%s: %s" % (k.split("-by-")[1], "silent" if r[k]["silent"] else "ALARM") for k in sorted(oth)),
          clean(m.get("coordinator_note", ""), 600)))
print()
print("Totals: %d changes; %d silent under their own property's check (latest run per tier); %d runs of neighbouring checks, %d of them with an alarm (each explained in the note column)." % (tot, own_silent, cross, cross_alarm))
