#!/usr/bin/env python3
"""Confirms and evaluates seeded defects.

  seeded.py confirm <candidate_dir> <seeded_name>   confirm a sub-agent's candidate (patch.diff, demo_test.go, meta.json):
        in a scratch worktree of /repo HEAD: demo passes without the patch, patch applies and builds, the repository's whole
        unedited suite is green with it, demo fails with it. On success the candidate is copied to /verif/seeded/<seeded_name>/.
  seeded.py run <seeded_name>|all [quick|thorough]   run the property's check against the patched tree and record the outcome
        in /verif/seeded/<name>/result.json (detected: true/false, tier, violation lines).

Scratch worktrees live under /tmp and are removed again.
"""
import json, os, shutil, subprocess, sys, time, glob

V = os.path.dirname(os.path.dirname(os.path.abspath(__file__)))
ENV = dict(os.environ, GOFLAGS="-mod=mod", GOPROXY="off", GOSUMDB="off", GOTOOLCHAIN="local")


def sh(cmd, cwd=None, env=None, timeout=3600):
    r = subprocess.run(cmd, cwd=cwd, env=env or ENV, shell=isinstance(cmd, str), stdout=subprocess.PIPE, stderr=subprocess.STDOUT, text=True, timeout=timeout)
    return r.returncode, r.stdout


def worktree(tag):
    wt = "/tmp/seed-%s-%d" % (tag, os.getpid())
    sh(["git", "-C", "/repo", "worktree", "add", "-q", "--detach", wt, "HEAD"])
    return wt


def drop(wt):
    sh(["git", "-C", "/repo", "worktree", "remove", "--force", wt])
    shutil.rmtree(wt, ignore_errors=True)


def run_demo(wt, meta, src):
    d = os.path.join(wt, meta["demo_package_dir"])
    dst = os.path.join(d, "zz_seeded_demo_test.go")
    shutil.copy(src, dst)
    try:
        extra = []
        if meta.get("demo_needs_race") or "-race" in meta.get("demo_run_cmd", ""):
            extra.append("-race")
        if "-tags verif" in meta.get("demo_run_cmd", "") or "-tags=verif" in meta.get("demo_run_cmd", ""):
            extra += ["-tags", "verif"]
        rc, out = sh(["go", "test", "-mod=mod", "-vet=off", "-count=1"] + extra + ["-run", meta.get("demo_run_regex", "."), "./" + meta["demo_package_dir"] + "/"], cwd=wt, timeout=1200)
    finally:
        os.remove(dst)
    return rc, out


def confirm(cand, name):
    meta = json.load(open(os.path.join(cand, "meta.json")))
    demo = os.path.join(cand, "demo_test.go")
    patch = os.path.join(cand, "patch.diff")
    wt = worktree(name)
    log = {}
    try:
        # run only the demo's own test functions
        import re
        fns = re.findall(r"^func (Test\w+)\(", open(demo).read(), re.M)
        meta["demo_run_regex"] = "^(" + "|".join(fns) + ")$" if fns else "."
        rc, out = run_demo(wt, meta, demo)
        log["demo_without_patch_rc"] = rc
        if rc != 0:
            print("REJECT %s: demo fails WITHOUT the patch\n%s" % (name, out[-1500:]))
            return False
        rc, out = sh(["git", "apply", patch], cwd=wt)
        if rc != 0:
            rc, out = sh(["git", "apply", "--3way", patch], cwd=wt)
            sh(["git", "reset", "-q"], cwd=wt)
            if rc == 0:
                # /repo HEAD moved since the candidate was written: keep the patch as it applies now
                rc2, newdiff = sh(["git", "diff"], cwd=wt)
                open(patch, "w").write(newdiff)
        if rc != 0:
            print("REJECT %s: patch does not apply\n%s" % (name, out[-800:]))
            return False
        rc, out = sh(["go", "build", "./..."], cwd=wt)
        if rc != 0:
            print("REJECT %s: does not build\n%s" % (name, out[-800:]))
            return False
        rc, out = sh(["go", "test", "-mod=mod", "-vet=off", "-count=1", "-timeout", "25m", "./..."], cwd=wt, timeout=2400)
        log["suite_with_patch_rc"] = rc
        if rc != 0:
            fails = [l for l in out.splitlines() if l.startswith("--- FAIL") or l.startswith("FAIL")]
            print("REJECT %s: existing suite fails with the patch: %s" % (name, fails[:6]))
            return False
        rc, out = run_demo(wt, meta, demo)
        log["demo_with_patch_rc"] = rc
        if rc == 0:
            print("REJECT %s: demo passes WITH the patch" % name)
            return False
        log["demo_with_patch_tail"] = out[-1200:]
    finally:
        drop(wt)
    dst = os.path.join(V, "seeded", name)
    os.makedirs(dst, exist_ok=True)
    shutil.copy(patch, os.path.join(dst, "patch.diff"))
    shutil.copy(demo, os.path.join(dst, "demo_test.go"))
    meta["confirmed"] = {"repo_head": sh(["git", "-C", "/repo", "rev-parse", "--short", "HEAD"])[1].strip(),
                         "ran": ["demo on clean worktree: pass", "git apply patch.diff; go build ./...: ok",
                                 "go test -mod=mod -vet=off -count=1 ./... with patch: all green", "demo with patch: FAIL"],
                         "demo_failure_tail": log.get("demo_with_patch_tail", "")[-600:]}
    json.dump(meta, open(os.path.join(dst, "meta.json"), "w"), indent=1)
    print("CONFIRMED %s -> %s" % (name, dst))
    return True


def run(name, tier, pid_override=None):
    d = os.path.join(V, "seeded", name)
    meta = json.load(open(os.path.join(d, "meta.json")))
    pid = pid_override or meta["property"]
    wt = worktree(name)
    try:
        rc, out = sh(["git", "apply", os.path.join(d, "patch.diff")], cwd=wt)
        if rc != 0:
            # /repo HEAD moved since the change was stored: 3-way re-apply and keep the patch as it applies now
            rc, out = sh(["git", "apply", "--3way", os.path.join(d, "patch.diff")], cwd=wt)
            sh(["git", "reset", "-q"], cwd=wt)
            if rc == 0:
                b = sh(["go", "build", "./..."], cwd=wt)
                if b[0] == 0:
                    open(os.path.join(d, "patch.diff"), "w").write(sh(["git", "diff"], cwd=wt)[1])
                else:
                    rc, out = b
        if rc != 0:
            print("%s: patch no longer applies to /repo HEAD\n%s" % (name, out[-500:]))
            return None
        t0 = time.time()
        env = dict(ENV, VERIF_REPO=wt)
        rc, out = sh([os.path.join(V, "check"), pid, tier], env=env, timeout=7200)
        viol = [l for l in out.splitlines() if l.startswith("VIOLATION")]
        first = [l.strip() for l in out.splitlines() if "failed after" in l or "panic after" in l or "_test.go" in l][:3]
        res = {"property": pid, "tier": tier, "exit": rc, "detected": rc == 1, "wall_s": round(time.time() - t0, 1), "violation_lines": viol[:4], "first_failure": first,
               "repo_head": sh(["git", "-C", "/repo", "rev-parse", "--short", "HEAD"])[1].strip()}
        # keep the history of runs per tier
        rp = os.path.join(d, "result.json")
        allres = json.load(open(rp)) if os.path.exists(rp) else {}
        allres[tier if not pid_override else "%s-by-%s" % (tier, pid)] = res
        json.dump(allres, open(rp, "w"), indent=1)
        print("%-28s %s %-8s exit=%d %s  %.0fs %s" % (name, pid, tier, rc, "DETECTED" if rc == 1 else ("MISSED" if rc == 0 else "INFRA"), res["wall_s"], (first[0][:160] if first else "")))
        if rc == 2:
            print(out[-1500:])
        return rc == 1
    finally:
        drop(wt)


def main():
    a = sys.argv[1:]
    if a[0] == "confirm":
        sys.exit(0 if confirm(a[1], a[2]) else 1)
    if a[0] == "run":
        tier = a[2] if len(a) > 2 else "quick"
        override = a[3] if len(a) > 3 else None
        names = sorted(os.listdir(os.path.join(V, "seeded"))) if a[1] == "all" else [a[1]]
        bad = 0
        for n in names:
            if not os.path.exists(os.path.join(V, "seeded", n, "meta.json")):
                continue
            if run(n, tier, override) is False:
                bad += 1
        sys.exit(1 if bad else 0)


if __name__ == "__main__":
    main()
