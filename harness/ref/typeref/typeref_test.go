package typeref

import (
	"fmt"
	"testing"
)

func p(t string, comps ...Param) Param { return Param{Type: t, Components: comps} }

func TestValidAndCanonical(t *testing.T) {
	// spellings and canonical forms taken from the Solidity ABI specification
	// (sections "Types", "Function Selector and Argument Encoding" examples, "Handling tuple types")
	cases := []struct {
		in   Param
		want string
	}{
		{p("uint256"), "uint256"},
		{p("uint"), "uint256"},
		{p("int"), "int256"},
		{p("uint8"), "uint8"},
		{p("int248"), "int248"},
		{p("uint32[]"), "uint32[]"},
		{p("bytes10"), "bytes10"},
		{p("bytes1"), "bytes1"},
		{p("bytes32"), "bytes32"},
		{p("bytes"), "bytes"},
		{p("bytes3[2]"), "bytes3[2]"},
		{p("bool"), "bool"},
		{p("address"), "address"},
		{p("address[]"), "address[]"},
		{p("string"), "string"},
		{p("function"), "function"},
		{p("fixed"), "fixed128x18"},
		{p("ufixed"), "ufixed128x18"},
		{p("fixed128x18"), "fixed128x18"},
		{p("ufixed256x80"), "ufixed256x80"},
		{p("fixed8x1"), "fixed8x1"},
		{p("uint256[][]"), "uint256[][]"},
		{p("uint[3]"), "uint256[3]"},
		{p("uint256[0]"), "uint256[0]"},
		{p("uint256[2147483647]"), "uint256[2147483647]"},
		{p("string[2][]"), "string[2][]"},
		{p("uint256[8][][16]"), "uint256[8][][16]"},
		{p("tuple", p("uint256"), p("uint256")), "(uint256,uint256)"},
		{p("tuple[]", p("uint"), p("bytes")), "(uint256,bytes)[]"},
		// f(S memory, T memory, uint) with S{uint a; uint[] b; T[] c}, T{uint x; uint y}
		{p("tuple", p("uint256"), p("uint256[]"), p("tuple[]", p("uint256"), p("uint256"))), "(uint256,uint256[],(uint256,uint256)[])"},
		{p("tuple[2][]", p("tuple", p("fixed")), p("string[1]")), "((fixed128x18),string[1])[2][]"},
	}
	for _, c := range cases {
		v, n, why := Recognise(c.in)
		if v != Valid {
			t.Errorf("%v: verdict %v (%s), want valid", c.in, v, why)
			continue
		}
		if got := n.Canonical(); got != c.want {
			t.Errorf("%v: canonical %q want %q", c.in, got, c.want)
		}
		// the canonical parameter form is a fixed point
		cp := n.CanonicalParam()
		v2, n2, _ := Recognise(cp)
		if v2 != Valid || n2.Canonical() != c.want || fmt.Sprint(n2.CanonicalParam()) != fmt.Sprint(cp) {
			t.Errorf("%v: canonical param form %v is not a fixed point", c.in, cp)
		}
	}
}

func TestTreeShape(t *testing.T) {
	_, n, _ := Recognise(p("tuple[3][]", p("uint"), p("bytes7[2]")))
	if n.Kind != DynamicArray || n.Child.Kind != FixedArray || n.Child.Len != 3 || n.Child.Child.Kind != Tuple {
		t.Fatalf("outer shape wrong: %+v", n)
	}
	tu := n.Child.Child
	if len(tu.Members) != 2 || tu.Members[0].Base != "uint" || tu.Members[0].M != 256 || !tu.Members[0].Alias {
		t.Fatalf("member 0 wrong: %+v", tu.Members[0])
	}
	m1 := tu.Members[1]
	if m1.Kind != FixedArray || m1.Len != 2 || m1.Child.Base != "bytes" || m1.Child.M != 7 || m1.Child.SizeSuffix() != "7" {
		t.Fatalf("member 1 wrong: %+v", m1)
	}
	arrays, alias, tuple, depth := n.Stats()
	if arrays != 3 || !alias || !tuple || depth != 1 {
		t.Fatalf("stats %d %v %v %d", arrays, alias, tuple, depth)
	}
}

func TestInvalid(t *testing.T) {
	bad := []Param{
		p(""), p(" "), p("uint256 "), p(" uint256"), p("uint 256"), p("uint256\n"), p("Uint256"), p("UINT256"), p("uint256[] "),
		p("uint0"), p("uint7"), p("uint9"), p("uint257"), p("uint264"), p("uint512"), p("uint65536"), p("uint65544"), p("uint4294967304"),
		p("uint18446744073709551624"), p("uint99999999999999999999999999999999999999"),
		p("uint08"), p("uint0256"), p("int0256"), p("uint00"), p("uint+8"), p("uint-8"), p("uint-1"), p("uint8x8"), p("uint0a"), p("uint{}"),
		p("bytes0"), p("bytes33"), p("bytes032"), p("bytes01"), p("bytes256"), p("bytes1x1"), p("byte"), p("byte1"), p("bytess"),
		p("fixed128"), p("fixed128x"), p("fixedx18"), p("fixed128x0"), p("fixed128x81"), p("fixed0x18"), p("fixed7x18"), p("fixed264x18"),
		p("fixed0128x18"), p("fixed128x018"), p("fixed0128x018"), p("fixed128X18"), p("fixed128x18x18"), p("fixed128x-1"), p("ufixed128x8f"), p("fixed0fx1"),
		p("address160"), p("address256"), p("bool8"), p("string32"), p("function24"), p("address payable"),
		p("uint256["), p("uint256]"), p("uint256[]]"), p("uint256[[]"), p("uint256[1"), p("uint256[-1]"), p("uint256[+1]"), p("uint256[x]"),
		p("uint256[0f]"), p("uint256[0x1]"), p("uint256[1e1]"), p("uint256[ ]"), p("uint256[1 ]"), p("uint256[1.0]"), p("uint256[][", p("uint256")),
		p("uint256[١]"), p("uint２５６"), p("uint256[]x"), p("[]"), p("256"), p("[1]uint256"), p("lobster"), p("wrong"), p("uint256,uint256"), p("(uint256)"),
		p("tuple256", p("uint256")), p("tuple(uint256)", p("uint256")), p("tuple x", p("uint256")), p("tuple x[]", p("uint256")), p("tuple ", p("uint256")),
		p("tuple[", p("uint256")), p("tuples", p("uint256")), p("tuple", p("uint7")), p("tuple[]", p("uint256"), p("tuple", p("bytes33"))),
		p("tuple", p("uint256[01]"), p("uint7")), // invalid dominates unspecified
		p("tuple256"),                            // invalid suffix dominates the zero-component question
		p("uint7[01]"), p("bytes0[4294967296]"),  // invalid base dominates an unspecified dimension
		p("\x00"), p("uint\x00"), p("uint256\xff"), p("üint256"),
	}
	for _, c := range bad {
		if v, _, why := Recognise(c); v != Invalid {
			t.Errorf("%q: verdict %v (%s), want invalid", c.Type, v, why)
		}
	}
}

func TestUnspecified(t *testing.T) {
	open := []Param{
		p("uint256[01]"), p("uint256[00]"), p("uint256[007][]"), p("uint256[2147483648]"), p("uint256[4294967295]"), p("uint256[4294967296]"),
		p("uint256[99999999999999999999999999]"), p("uint256[][02147483648]"),
		p("tuple"), p("tuple[]"), p("tuple", p("tuple")), p("tuple", p("uint256"), p("uint8[01]")),
		p("uint256", p("uint256")), p("string[]", p("uint7")),
	}
	for _, c := range open {
		if v, n, why := Recognise(c); v != Unspecified || n != nil || why == "" {
			t.Errorf("%v: verdict %v (%s), want unspecified", c, v, why)
		}
	}
}

func TestExhaustiveWidths(t *testing.T) {
	// every decimal 0..70000 as a size of uint / int / bytes, and every M x N pair on a grid:
	// validity must coincide with the arithmetic definition (independent of the regexp path)
	for m := 0; m <= 70000; m++ {
		wantInt := m >= 8 && m <= 256 && m%8 == 0
		wantBytes := m >= 1 && m <= 32
		for _, b := range []string{"uint", "int"} {
			if v, n, _ := Recognise(p(fmt.Sprintf("%s%d", b, m))); (v == Valid) != wantInt || (v == Valid && n.M != m) {
				t.Fatalf("%s%d: %v", b, m, v)
			}
		}
		if v, n, _ := Recognise(p(fmt.Sprintf("bytes%d", m))); (v == Valid) != wantBytes || (v == Valid && n.M != m) {
			t.Fatalf("bytes%d: %v", m, v)
		}
		if v, _, _ := Recognise(p(fmt.Sprintf("uint0%d", m))); v != Invalid {
			t.Fatalf("uint0%d accepted", m)
		}
	}
	for m := 0; m <= 300; m++ {
		for n := 0; n <= 100; n++ {
			want := m >= 8 && m <= 256 && m%8 == 0 && n >= 1 && n <= 80
			for _, b := range []string{"fixed", "ufixed"} {
				v, node, _ := Recognise(p(fmt.Sprintf("%s%dx%d", b, m, n)))
				if (v == Valid) != want || (v == Valid && (node.M != m || node.N != n)) {
					t.Fatalf("%s%dx%d: %v", b, m, n, v)
				}
			}
		}
	}
}

func TestSharesKeywordPrefix(t *testing.T) {
	for s, want := range map[string]bool{"uin": true, "uint7": true, "int": true, "in": false, "boo": true, "tup(": true, "xuint": false, "": false, "strong": true, "fun": true} {
		if SharesKeywordPrefix(s) != want {
			t.Errorf("%q: %v", s, !want)
		}
	}
}
