// Package typeref is an independent recogniser for the Solidity ABI type grammar
// as it appears in the JSON ABI ("type" string plus "components" for tuples).
//
// It is written from the Solidity "Contract ABI Specification" (sections "Types"
// and "JSON"), not from the library it judges, and deliberately works in a
// different way: a whole-string match against a white-list grammar followed by
// arithmetic checks, instead of the library's left-to-right scanner.
//
//	type   := base array*
//	base   := "uint" M? | "int" M? | "address" | "bool" | "fixed" (M "x" N)? | "ufixed" (M "x" N)?
//	        | "bytes" B? | "bytes" | "function" | "string" | "tuple"            (tuple: members in "components")
//	M      := canonical decimal, 8 <= M <= 256, M % 8 == 0
//	N      := canonical decimal, 0 <  N <= 80
//	B      := canonical decimal, 0 <  B <= 32
//	array  := "[" "]" | "[" K "]"          K := canonical decimal, K >= 0
//	aliases: uint = uint256, int = int256, fixed = fixed128x18, ufixed = ufixed128x18
//
// "canonical decimal" = ASCII digits, no sign, no leading zero (except the number 0).
//
// Three verdicts.  Valid and Invalid are what the specification decides.
// Unspecified marks the regions deliberately left open (DESIGN.md C13 "Not
// asserted"): array dimensions written with leading zeros or >= 2^31, a tuple
// with zero components, and components supplied for a non-tuple type.  A string
// that is Invalid for any reason is Invalid even if it also touches an
// unspecified region (an implementation must reject it either way).
package typeref

import (
	"regexp"
	"strconv"
	"strings"
)

// Verdict is the three-valued answer of the recogniser.
type Verdict int

const (
	Invalid Verdict = iota
	Valid
	Unspecified
)

func (v Verdict) String() string {
	switch v {
	case Valid:
		return "valid"
	case Invalid:
		return "invalid"
	default:
		return "unspecified"
	}
}

// Param is the JSON-ABI form of a type: the type string and, for tuples, the members.
type Param struct {
	Type       string  `json:"type"`
	Components []Param `json:"components,omitempty"`
}

// Kind classifies a node of the type tree.
type Kind int

const (
	Elementary Kind = iota
	FixedArray
	DynamicArray
	Tuple
)

func (k Kind) String() string {
	return [...]string{"elementary", "fixed-array", "dynamic-array", "tuple"}[k]
}

// Node is the reference type tree of a Valid type (outermost array first, like
// the order in which a value of the type is laid out).
type Node struct {
	Kind    Kind
	Base    string  // Elementary: uint int address bool fixed ufixed bytes function string
	M, N    int     // Elementary: size parameters after alias expansion (0 when the base has none; bytes: 0 = dynamic)
	Alias   bool    // Elementary: the spelling was an alias (uint, int, fixed, ufixed)
	Len     int     // FixedArray
	Child   *Node   // arrays
	Members []*Node // Tuple
}

// Keywords are the base names of the grammar.
var Keywords = []string{"uint", "int", "address", "bool", "fixed", "ufixed", "bytes", "function", "string", "tuple"}

// MaxSpecifiedDim is the largest array dimension with a specified verdict.
const MaxSpecifiedDim = 1<<31 - 1

// shape is the white-list: a keyword, an optional digits[xdigits] suffix, any number of [digits?] groups.
var shape = regexp.MustCompile(`^(uint|int|address|bool|fixed|ufixed|bytes|function|string|tuple)(?:([0-9]+)(?:(x)([0-9]+))?)?((?:\[[0-9]*\])*)$`)

var dimRe = regexp.MustCompile(`\[([0-9]*)\]`)

// canonical reports whether s is a decimal number without sign or leading zeros
// and returns its value when it fits comfortably (ok=false on overflow > 10 digits).
func canonical(s string) (val int64, isCanonical bool, fits bool) {
	if s == "" {
		return 0, false, false
	}
	for i := 0; i < len(s); i++ {
		if s[i] < '0' || s[i] > '9' {
			return 0, false, false
		}
	}
	isCanonical = len(s) == 1 || s[0] != '0'
	trimmed := strings.TrimLeft(s, "0")
	if len(trimmed) > 12 {
		return 0, isCanonical, false
	}
	if trimmed == "" {
		return 0, isCanonical, true
	}
	v, err := strconv.ParseInt(trimmed, 10, 64)
	if err != nil {
		return 0, isCanonical, false
	}
	return v, isCanonical, true
}

// Recognise decides p.  node is non-nil only for Valid; reason explains Invalid / Unspecified.
func Recognise(p Param) (v Verdict, node *Node, reason string) {
	return recognise(p, 0)
}

const maxDepth = 64

func recognise(p Param, depth int) (Verdict, *Node, string) {
	if depth > maxDepth {
		return Unspecified, nil, "nesting deeper than the reference explores"
	}
	m := shape.FindStringSubmatch(p.Type)
	if m == nil {
		return Invalid, nil, "does not match <keyword><size?><[k?]>*"
	}
	base, s1, x, s2, arrays := m[1], m[2], m[3], m[4], m[5]
	unspecified := ""
	elem := &Node{Kind: Elementary, Base: base}

	intSize := func(s string) (int, string) {
		val, canon, fits := canonical(s)
		switch {
		case !canon:
			return 0, "size " + s + " is not in canonical decimal form"
		case !fits || val < 8 || val > 256 || val%8 != 0:
			return 0, "size " + s + " outside 8..256 step 8"
		}
		return int(val), ""
	}

	switch base {
	case "uint", "int":
		if x != "" {
			return Invalid, nil, base + " takes a single size"
		}
		if s1 == "" {
			elem.M, elem.Alias = 256, true
		} else {
			mv, why := intSize(s1)
			if why != "" {
				return Invalid, nil, why
			}
			elem.M = mv
		}
	case "fixed", "ufixed":
		switch {
		case s1 == "" && x == "":
			elem.M, elem.N, elem.Alias = 128, 18, true
		case x == "":
			return Invalid, nil, base + " needs <M>x<N>"
		default:
			mv, why := intSize(s1)
			if why != "" {
				return Invalid, nil, why
			}
			nv, canon, fits := canonical(s2)
			if !canon {
				return Invalid, nil, "precision " + s2 + " is not in canonical decimal form"
			}
			if !fits || nv < 1 || nv > 80 {
				return Invalid, nil, "precision " + s2 + " outside 1..80"
			}
			elem.M, elem.N = mv, int(nv)
		}
	case "bytes":
		if x != "" {
			return Invalid, nil, "bytes takes a single size"
		}
		if s1 != "" {
			bv, canon, fits := canonical(s1)
			if !canon {
				return Invalid, nil, "size " + s1 + " is not in canonical decimal form"
			}
			if !fits || bv < 1 || bv > 32 {
				return Invalid, nil, "size " + s1 + " outside 1..32"
			}
			elem.M = int(bv)
		}
	default: // address bool function string tuple
		if s1 != "" {
			return Invalid, nil, base + " takes no size suffix"
		}
	}

	// array dimensions (innermost first in the spelling)
	type dim struct {
		dynamic bool
		n       int
	}
	var dims []dim
	for _, g := range dimRe.FindAllStringSubmatch(arrays, -1) {
		if g[1] == "" {
			dims = append(dims, dim{dynamic: true})
			continue
		}
		val, canon, fits := canonical(g[1])
		switch {
		case !canon:
			unspecified = "array dimension " + g[1] + " written with leading zeros"
		case !fits || val > MaxSpecifiedDim:
			unspecified = "array dimension " + g[1] + " >= 2^31"
		}
		dims = append(dims, dim{n: int(val)})
	}

	inner := elem
	if base == "tuple" {
		inner = &Node{Kind: Tuple}
		if len(p.Components) == 0 {
			unspecified = "tuple with zero components"
		}
		for i, c := range p.Components {
			cv, cn, why := recognise(c, depth+1)
			switch cv {
			case Invalid:
				return Invalid, nil, "component " + strconv.Itoa(i) + ": " + why
			case Unspecified:
				unspecified = "component " + strconv.Itoa(i) + ": " + why
			}
			inner.Members = append(inner.Members, cn)
		}
	} else if len(p.Components) > 0 {
		unspecified = "components supplied for the non-tuple type " + base
	}
	if unspecified != "" {
		return Unspecified, nil, unspecified
	}
	n := inner
	for _, d := range dims {
		if d.dynamic {
			n = &Node{Kind: DynamicArray, Child: n}
		} else {
			n = &Node{Kind: FixedArray, Len: d.n, Child: n}
		}
	}
	return Valid, n, ""
}

// ElemSpelling is the canonical spelling of an elementary node (aliases expanded).
func (n *Node) ElemSpelling() string {
	switch n.Base {
	case "uint", "int":
		return n.Base + strconv.Itoa(n.M)
	case "fixed", "ufixed":
		return n.Base + strconv.Itoa(n.M) + "x" + strconv.Itoa(n.N)
	case "bytes":
		if n.M > 0 {
			return "bytes" + strconv.Itoa(n.M)
		}
		return "bytes"
	default:
		return n.Base
	}
}

// SizeSuffix is the canonical size suffix of an elementary node ("" when the base has none).
func (n *Node) SizeSuffix() string {
	return strings.TrimPrefix(n.ElemSpelling(), n.Base)
}

// Canonical is the canonical signature spelling of the type: aliases expanded,
// tuples as parenthesised member lists, dimensions in canonical decimal.
func (n *Node) Canonical() string {
	switch n.Kind {
	case Elementary:
		return n.ElemSpelling()
	case FixedArray:
		return n.Child.Canonical() + "[" + strconv.Itoa(n.Len) + "]"
	case DynamicArray:
		return n.Child.Canonical() + "[]"
	default:
		parts := make([]string, len(n.Members))
		for i, m := range n.Members {
			parts[i] = m.Canonical()
		}
		return "(" + strings.Join(parts, ",") + ")"
	}
}

// CanonicalParam is the canonical JSON-ABI form of the type: the same type
// spelled with explicit sizes, "tuple" + dimensions with canonical members.
func (n *Node) CanonicalParam() Param {
	suffix := ""
	cur := n
	for cur.Kind == FixedArray || cur.Kind == DynamicArray {
		if cur.Kind == FixedArray {
			suffix = "[" + strconv.Itoa(cur.Len) + "]" + suffix
		} else {
			suffix = "[]" + suffix
		}
		cur = cur.Child
	}
	if cur.Kind == Tuple {
		p := Param{Type: "tuple" + suffix}
		for _, m := range cur.Members {
			p.Components = append(p.Components, m.CanonicalParam())
		}
		return p
	}
	return Param{Type: cur.ElemSpelling() + suffix}
}

// Stats summarises a Valid tree for class labels.
func (n *Node) Stats() (arrays int, hasAlias bool, hasTuple bool, depth int) {
	switch n.Kind {
	case Elementary:
		return 0, n.Alias, false, 0
	case FixedArray, DynamicArray:
		a, al, t, d := n.Child.Stats()
		return a + 1, al, t, d
	default:
		maxd := 0
		for _, m := range n.Members {
			a, al, _, d := m.Stats()
			arrays += a
			hasAlias = hasAlias || al
			if d > maxd {
				maxd = d
			}
		}
		return arrays, hasAlias, true, maxd + 1
	}
}

// SharesKeywordPrefix reports whether s starts with at least the first three
// characters of some keyword (the "near miss" region of the non-trivial rule).
func SharesKeywordPrefix(s string) bool {
	for _, k := range Keywords {
		if len(s) >= 3 && strings.HasPrefix(s, k[:3]) {
			return true
		}
	}
	return false
}
