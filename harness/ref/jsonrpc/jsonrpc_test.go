package jsonrpc

import "testing"

func TestNumEqual(t *testing.T) {
	eq := [][2]string{{"1", "1.0"}, {"1", "1e0"}, {"100", "1e2"}, {"100", "1E+2"}, {"0.5", "5e-1"}, {"-0", "0"}, {"0.0", "0e10"},
		{"18446744073709551617", "18446744073709551617.000"}, {"1e400", "10e399"}, {"-1.50", "-15e-1"}}
	for _, p := range eq {
		if !NumEqual(p[0], p[1]) {
			t.Errorf("%s should equal %s", p[0], p[1])
		}
	}
	ne := [][2]string{{"1", "2"}, {"18446744073709551617", "18446744073709551616"}, {"9007199254740993", "9007199254740992"}, {"1", "-1"}, {"1e400", "1e401"}, {"0.1", "0.10000000000000001"}}
	for _, p := range ne {
		if NumEqual(p[0], p[1]) {
			t.Errorf("%s should differ from %s", p[0], p[1])
		}
	}
}

func TestParse(t *testing.T) {
	for _, bad := range []string{"", " ", "{", "[1,]", "{} x", "1 2", "nul", "\v[]", "[] ]"} {
		if _, err := Parse([]byte(bad)); err == nil {
			t.Errorf("Parse(%q) accepted", bad)
		}
	}
	for _, good := range []string{"null", " [ ] \n", "{\"a\":1}", "1e5", "\"x\""} {
		if _, err := Parse([]byte(good)); err != nil {
			t.Errorf("Parse(%q): %v", good, err)
		}
	}
	ok, err := EqualRaw([]byte(`{"a":[1,2.0,{"b":null}],"c":"<"}`), []byte(`{"c":"<","a":[1.0,2,{"b":null}]}`))
	if err != nil || !ok {
		t.Errorf("EqualRaw: %v %v", ok, err)
	}
	ok, _ = EqualRaw([]byte(`[18446744073709551617]`), []byte(`[18446744073709551616]`))
	if ok {
		t.Errorf("big numbers compared lossy")
	}
}

func TestCheckResponse(t *testing.T) {
	good := []string{
		`{"jsonrpc":"2.0","id":1,"result":null}`,
		`{"jsonrpc":"2.0","id":"a","result":{"x":1}}`,
		`{"jsonrpc":"2.0","id":null,"error":{"code":-32600,"message":"bad"}}`,
		`{"jsonrpc":"2.0","id":1.5,"error":{"code":0,"message":"","data":[1]}}`,
	}
	for _, g := range good {
		v, err := Parse([]byte(g))
		if err != nil {
			t.Fatal(err)
		}
		if _, err := CheckResponse(v); err != nil {
			t.Errorf("%s: %v", g, err)
		}
	}
	bad := []string{
		`null`, `[]`, `"x"`, `{}`,
		`{"jsonrpc":"","id":1}`,
		`{"jsonrpc":"2.0","id":1}`,
		`{"jsonrpc":"","id":1,"result":1}`,
		`{"id":1,"result":1}`,
		`{"jsonrpc":"2.0","result":1}`,
		`{"jsonrpc":"2.0","id":1,"result":1,"error":{"code":1,"message":"x"}}`,
		`{"jsonrpc":"2.0","id":1,"error":"x"}`,
		`{"jsonrpc":"2.0","id":1,"error":{"code":"1","message":"x"}}`,
		`{"jsonrpc":"2.0","id":1,"error":{"code":1.5,"message":"x"}}`,
		`{"jsonrpc":"2.0","id":1,"error":{"code":1}}`,
		`{"jsonrpc":"2.0","id":1,"error":{"code":1,"message":5}}`,
		`{"jsonrpc":"2.0","id":{},"result":1}`,
	}
	for _, b := range bad {
		v, err := Parse([]byte(b))
		if err != nil {
			t.Fatal(err)
		}
		if _, err := CheckResponse(v); err == nil {
			t.Errorf("%s accepted", b)
		}
	}
	v, _ := Parse([]byte(`[{"jsonrpc":"2.0","id":1,"result":1},{"jsonrpc":"2.0","id":2,"error":{"code":1,"message":"m"}}]`))
	if rs, err := CheckBatch(v, 2); err != nil || len(rs) != 2 || !rs[1].IsError || rs[1].CodeInt.Int64() != 1 {
		t.Errorf("CheckBatch: %v", err)
	}
	if _, err := CheckBatch(v, 3); err == nil {
		t.Errorf("length mismatch accepted")
	}
	v, _ = Parse([]byte(`[null]`))
	if _, err := CheckBatch(v, 1); err == nil {
		t.Errorf("null element accepted")
	}
}
