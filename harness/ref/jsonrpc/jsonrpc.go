// Package jsonrpc is the harness's reference for the JSON-RPC 2.0 wire shapes the
// proxy properties (C09, C16) talk about.  It is written from the JSON-RPC 2.0
// specification (https://www.jsonrpc.org/specification) and does not import any
// package of the code under test.
//
// It offers
//
//   - Parse: decode exactly one JSON text, number-preserving (json.Decoder.UseNumber),
//     rejecting empty input and trailing garbage;
//   - Equal / EqualRaw: a number-preserving deep comparison of JSON values in which
//     two number literals are equal exactly when they denote the same rational
//     number (so 1, 1.0 and 1e0 are equal, 2^64+1 and 2^64 are not);
//   - CheckResponse / CheckBatch: the response validator ("jsonrpc":"2.0", exactly
//     one of result / error, error = object with integer code and string message,
//     id present and a string, number or null; array form for batches).
//
// Trusted base: encoding/json's tokenizer.
package jsonrpc

import (
	"bytes"
	"encoding/json"
	"fmt"
	"io"
	"math/big"
	"sort"
	"strings"
)

// Parse decodes exactly one JSON value from b.  Numbers are kept as json.Number.
func Parse(b []byte) (interface{}, error) {
	dec := json.NewDecoder(bytes.NewReader(b))
	dec.UseNumber()
	var v interface{}
	if err := dec.Decode(&v); err != nil {
		if err == io.EOF {
			return nil, fmt.Errorf("empty JSON text")
		}
		return nil, err
	}
	// only whitespace may follow
	if _, err := dec.Token(); err != io.EOF {
		if err == nil {
			return nil, fmt.Errorf("trailing data after the JSON value")
		}
		return nil, fmt.Errorf("trailing data after the JSON value: %v", err)
	}
	return v, nil
}

// decimal is a normalised number literal: value = (-1)^neg * digits * 10^exp with
// digits carrying no leading or trailing zeros ("" denotes zero).
type decimal struct {
	neg    bool
	digits string
	exp    *big.Int
}

func parseDecimal(s string) (decimal, bool) {
	d := decimal{exp: new(big.Int)}
	if s == "" {
		return d, false
	}
	i := 0
	if s[i] == '-' {
		d.neg = true
		i++
	} else if s[i] == '+' {
		i++
	}
	start := i
	for i < len(s) && s[i] >= '0' && s[i] <= '9' {
		i++
	}
	intPart := s[start:i]
	frac := ""
	if i < len(s) && s[i] == '.' {
		i++
		fs := i
		for i < len(s) && s[i] >= '0' && s[i] <= '9' {
			i++
		}
		frac = s[fs:i]
	}
	if intPart == "" && frac == "" {
		return d, false
	}
	if i < len(s) {
		if s[i] != 'e' && s[i] != 'E' {
			return d, false
		}
		e, ok := new(big.Int).SetString(strings.TrimPrefix(s[i+1:], "+"), 10)
		if !ok {
			return d, false
		}
		d.exp = e
	}
	digits := intPart + frac
	d.exp.Sub(d.exp, big.NewInt(int64(len(frac))))
	// strip trailing zeros into the exponent, then leading zeros
	t := len(digits)
	for t > 0 && digits[t-1] == '0' {
		t--
	}
	d.exp.Add(d.exp, big.NewInt(int64(len(digits)-t)))
	digits = strings.TrimLeft(digits[:t], "0")
	d.digits = digits
	if digits == "" {
		d.neg = false
		d.exp = new(big.Int)
	}
	return d, true
}

// NumEqual reports whether two JSON number literals denote the same number.
func NumEqual(a, b string) bool {
	da, oka := parseDecimal(a)
	db, okb := parseDecimal(b)
	if !oka || !okb {
		return a == b
	}
	return da.neg == db.neg && da.digits == db.digits && da.exp.Cmp(db.exp) == 0
}

// IsInteger reports whether the number literal denotes an integer, and returns it
// when it is one of moderate size (|exponent| small enough to expand).
func IsInteger(lit string) (*big.Int, bool) {
	d, ok := parseDecimal(lit)
	if !ok {
		return nil, false
	}
	if d.digits == "" {
		return new(big.Int), true
	}
	if d.exp.Sign() < 0 {
		return nil, false
	}
	if !d.exp.IsInt64() || d.exp.Int64() > 4096 {
		return nil, true // an integer, but too large to expand; callers only need the predicate
	}
	v, _ := new(big.Int).SetString(d.digits+strings.Repeat("0", int(d.exp.Int64())), 10)
	if d.neg {
		v.Neg(v)
	}
	return v, true
}

// Equal compares two values produced by Parse.
func Equal(a, b interface{}) bool {
	switch av := a.(type) {
	case nil:
		return b == nil
	case bool:
		bv, ok := b.(bool)
		return ok && av == bv
	case string:
		bv, ok := b.(string)
		return ok && av == bv
	case json.Number:
		bv, ok := b.(json.Number)
		return ok && NumEqual(string(av), string(bv))
	case []interface{}:
		bv, ok := b.([]interface{})
		if !ok || len(av) != len(bv) {
			return false
		}
		for i := range av {
			if !Equal(av[i], bv[i]) {
				return false
			}
		}
		return true
	case map[string]interface{}:
		bv, ok := b.(map[string]interface{})
		if !ok || len(av) != len(bv) {
			return false
		}
		for k, x := range av {
			y, ok := bv[k]
			if !ok || !Equal(x, y) {
				return false
			}
		}
		return true
	default:
		return false
	}
}

// EqualRaw parses both texts and compares them.
func EqualRaw(a, b []byte) (bool, error) {
	av, err := Parse(a)
	if err != nil {
		return false, fmt.Errorf("left: %v", err)
	}
	bv, err := Parse(b)
	if err != nil {
		return false, fmt.Errorf("right: %v", err)
	}
	return Equal(av, bv), nil
}

// Render prints a parsed value compactly with sorted keys (for messages only).
func Render(v interface{}) string {
	var sb strings.Builder
	render(&sb, v)
	s := sb.String()
	if len(s) > 300 {
		s = s[:300] + "…"
	}
	return s
}

func render(sb *strings.Builder, v interface{}) {
	switch x := v.(type) {
	case nil:
		sb.WriteString("null")
	case bool:
		fmt.Fprintf(sb, "%v", x)
	case string:
		b, _ := json.Marshal(x)
		sb.Write(b)
	case json.Number:
		sb.WriteString(string(x))
	case []interface{}:
		sb.WriteByte('[')
		for i, e := range x {
			if i > 0 {
				sb.WriteByte(',')
			}
			if sb.Len() > 400 {
				sb.WriteString("…")
				break
			}
			render(sb, e)
		}
		sb.WriteByte(']')
	case map[string]interface{}:
		keys := make([]string, 0, len(x))
		for k := range x {
			keys = append(keys, k)
		}
		sort.Strings(keys)
		sb.WriteByte('{')
		for i, k := range keys {
			if i > 0 {
				sb.WriteByte(',')
			}
			if sb.Len() > 400 {
				sb.WriteString("…")
				break
			}
			b, _ := json.Marshal(k)
			sb.Write(b)
			sb.WriteByte(':')
			render(sb, x[k])
		}
		sb.WriteByte('}')
	default:
		fmt.Fprintf(sb, "?%T", v)
	}
}

// Response is a validated JSON-RPC 2.0 response object.
type Response struct {
	ID        interface{} // string, json.Number or nil
	IsError   bool
	Result    interface{} // when !IsError
	Code      string      // number literal of error.code, when IsError
	CodeInt   *big.Int    // its value (nil only for absurdly large exponents)
	Message   string      // error.message, when IsError
	HasData   bool
	ErrorData interface{}
}

// CheckResponse validates that v (from Parse) is a JSON-RPC 2.0 response object.
func CheckResponse(v interface{}) (*Response, error) { return checkResponse(v, false) }

// CheckResponseAnyID is CheckResponse without the restriction of the id member to
// string / number / null (for properties that say nothing about the id).
func CheckResponseAnyID(v interface{}) (*Response, error) { return checkResponse(v, true) }

func checkResponse(v interface{}, anyID bool) (*Response, error) {
	obj, ok := v.(map[string]interface{})
	if !ok {
		return nil, fmt.Errorf("response is %s, not a JSON object", kindOf(v))
	}
	ver, ok := obj["jsonrpc"]
	if !ok {
		return nil, fmt.Errorf(`response has no "jsonrpc" member`)
	}
	if s, isStr := ver.(string); !isStr || s != "2.0" {
		return nil, fmt.Errorf(`"jsonrpc" member is %s, want "2.0"`, Render(ver))
	}
	res, hasRes := obj["result"]
	errv, hasErr := obj["error"]
	switch {
	case hasRes && hasErr:
		return nil, fmt.Errorf(`response carries both "result" and "error"`)
	case !hasRes && !hasErr:
		return nil, fmt.Errorf(`response carries neither "result" nor "error"`)
	}
	id, hasID := obj["id"]
	if !hasID {
		return nil, fmt.Errorf(`response has no "id" member`)
	}
	switch id.(type) {
	case nil, string, json.Number:
	default:
		if !anyID {
			return nil, fmt.Errorf(`"id" is %s, want string, number or null`, kindOf(id))
		}
	}
	r := &Response{ID: id}
	if hasRes {
		r.Result = res
		return r, nil
	}
	r.IsError = true
	eo, ok := errv.(map[string]interface{})
	if !ok {
		return nil, fmt.Errorf(`"error" is %s, not an object`, kindOf(errv))
	}
	code, ok := eo["code"]
	if !ok {
		return nil, fmt.Errorf(`error object has no "code"`)
	}
	cn, ok := code.(json.Number)
	if !ok {
		return nil, fmt.Errorf(`error "code" is %s, not a number`, kindOf(code))
	}
	ci, isInt := IsInteger(string(cn))
	if !isInt {
		return nil, fmt.Errorf(`error "code" %s is not an integer`, cn)
	}
	r.Code, r.CodeInt = string(cn), ci
	msg, ok := eo["message"]
	if !ok {
		return nil, fmt.Errorf(`error object has no "message"`)
	}
	ms, ok := msg.(string)
	if !ok {
		return nil, fmt.Errorf(`error "message" is %s, not a string`, kindOf(msg))
	}
	r.Message = ms
	r.ErrorData, r.HasData = eo["data"]
	return r, nil
}

// CheckBatch validates that v is an array of exactly n response objects.
func CheckBatch(v interface{}, n int) ([]*Response, error) {
	arr, ok := v.([]interface{})
	if !ok {
		return nil, fmt.Errorf("batch reply is %s, not a JSON array", kindOf(v))
	}
	if len(arr) != n {
		return nil, fmt.Errorf("batch reply has %d elements, the request had %d", len(arr), n)
	}
	out := make([]*Response, n)
	for i, e := range arr {
		r, err := CheckResponse(e)
		if err != nil {
			return nil, fmt.Errorf("batch reply element %d: %v", i, err)
		}
		out[i] = r
	}
	return out, nil
}

func kindOf(v interface{}) string {
	switch v.(type) {
	case nil:
		return "null"
	case bool:
		return "a boolean"
	case string:
		return "a string"
	case json.Number:
		return "a number"
	case []interface{}:
		return "an array"
	case map[string]interface{}:
		return "an object"
	default:
		return fmt.Sprintf("%T", v)
	}
}

// KindOf names the JSON kind of a parsed value.
func KindOf(v interface{}) string { return kindOf(v) }
