package abiref

import (
	"encoding/hex"
	"math/big"
	"strings"
	"testing"
)

func hx(parts ...string) string { return strings.Join(parts, "") }

func w(h string) string { return strings.Repeat("0", 64-len(h)) + h }

func rpad(h string) string { return h + strings.Repeat("0", 64-len(h)) }

func u(i int64) Value { return Int64V(i) }

// Examples from https://docs.soliditylang.org/en/latest/abi-spec.html#examples
func TestSpecExamples(t *testing.T) {
	cases := []struct {
		name   string
		params string
		args   Value
		want   string
	}{
		{"baz", "(uint32 x,bool y)", ListV(u(69), BoolV(true)),
			hx("cdcd77c0", w("45"), w("1"))},
		{"bar", "(bytes3[2])", ListV(ListV(BytesV([]byte("abc")), BytesV([]byte("def")))),
			hx("fce353f6", rpad("616263"), rpad("646566"))},
		{"sam", "(bytes,bool,uint[])", ListV(BytesV([]byte("dave")), BoolV(true), ListV(u(1), u(2), u(3))),
			hx("a5643bf2", w("60"), w("1"), w("a0"), w("4"), rpad("64617665"), w("3"), w("1"), w("2"), w("3"))},
		{"f", "(uint256,uint32[],bytes10,bytes)", ListV(u(0x123), ListV(u(0x456), u(0x789)), BytesV([]byte("1234567890")), BytesV([]byte("Hello, world!"))),
			hx("8be65246", w("123"), w("80"), rpad("31323334353637383930"), w("e0"), w("2"), w("456"), w("789"), w("d"), rpad("48656c6c6f2c20776f726c6421"))},
		{"g", "(uint256[][],string[])", ListV(ListV(ListV(u(1), u(2)), ListV(u(3))), ListV(StrV("one"), StrV("two"), StrV("three"))),
			hx("2289b18c", w("40"), w("140"),
				w("2"), w("40"), w("a0"), w("2"), w("1"), w("2"), w("1"), w("3"),
				w("3"), w("60"), w("a0"), w("e0"), w("3"), rpad("6f6e65"), w("3"), rpad("74776f"), w("5"), rpad("7468726565"))},
	}
	for _, c := range cases {
		pt := MustParseDecl(c.params)
		got, err := EncodeCall(c.name, pt, c.args)
		if err != nil {
			t.Fatalf("%s: %v", c.name, err)
		}
		if hex.EncodeToString(got) != c.want {
			t.Errorf("%s%s:\n got %x\nwant %s", c.name, pt.Canonical(), got, c.want)
		}
	}
}

func TestSelectorsAndTopics(t *testing.T) {
	if got := hex.EncodeToString(Selector("baz(uint32,bool)")); got != "cdcd77c0" {
		t.Errorf("baz selector %s", got)
	}
	if got := hex.EncodeToString(Selector(Signature("transfer", MustParseDecl("(address to,uint256 amount)")))); got != "a9059cbb" {
		t.Errorf("transfer selector %s", got)
	}
	ev := MustParseDecl("(address indexed from,address indexed to,uint value)")
	sig := Signature("Transfer", ev)
	if sig != "Transfer(address,address,uint256)" {
		t.Errorf("signature %s", sig)
	}
	if got := hex.EncodeToString(Topic(sig)); got != "ddf252ad1be2c89b69c2b068fc378daa952ba7f163c4a11628f55a4df523b3ef" {
		t.Errorf("Transfer topic %s", got)
	}
	from := HexV("0x00000000000000000000000000000000000000aa")
	to := HexV("0x11000000000000000000000000000000000000bb")
	topics, data, err := EventLog("Transfer", ev, ListV(from, to, u(1000)), false)
	if err != nil {
		t.Fatal(err)
	}
	if len(topics) != 3 || hex.EncodeToString(topics[1]) != w("aa") || hex.EncodeToString(topics[2]) != w("11000000000000000000000000000000000000bb") {
		t.Errorf("topics %x", topics)
	}
	if hex.EncodeToString(data) != w("3e8") {
		t.Errorf("data %x", data)
	}
	// indexed string: topic is the hash of the bare contents
	ev2 := MustParseDecl("(string indexed s,uint8 x)")
	topics, data, _ = EventLog("E", ev2, ListV(StrV("abc"), u(7)), true)
	if len(topics) != 1 || hex.EncodeToString(topics[0]) != hex.EncodeToString(Hash([]byte("abc"))) || hex.EncodeToString(data) != w("7") {
		t.Errorf("anonymous indexed string: %x %x", topics, data)
	}
	// indexed string[]: elements padded to 32 bytes, no lengths
	ev3 := MustParseDecl("(string[] indexed s)")
	topics, _, _ = EventLog("E", ev3, ListV(ListV(StrV("a"), StrV("bc"))), true)
	want, _ := hex.DecodeString(rpad("61") + rpad("6263"))
	if hex.EncodeToString(topics[0]) != hex.EncodeToString(Hash(want)) {
		t.Errorf("indexed string[] topic %x", topics[0])
	}
}

func TestDeclRoundTripAndSpellings(t *testing.T) {
	for _, s := range []string{
		"()",
		"(uint8 a,(string,bytes3 indexed tag)[2] b,uint)",
		"(fixed128x18,ufixed,int,function f,address[][3][] x)",
		"((),(uint256)[],((bool b)) nested)",
		"uint256[2][]",
	} {
		ty, err := ParseDecl(s)
		if err != nil {
			t.Fatalf("%s: %v", s, err)
		}
		if ty.Decl() != s {
			t.Errorf("decl round trip %q -> %q", s, ty.Decl())
		}
	}
	ty := MustParseDecl("(uint8 a,(string,bytes3 indexed tag)[2] b,uint,ufixed[])")
	if got := ty.Canonical(); got != "(uint8,(string,bytes3)[2],uint256,ufixed128x18[])" {
		t.Errorf("canonical %s", got)
	}
	if got := ty.Members[1].Type.ABIType(); got != "tuple[2]" {
		t.Errorf("abi type %s", got)
	}
	if got := ty.Members[3].Type.ABIType(); got != "ufixed[]" {
		t.Errorf("abi type %s", got)
	}
	if got := MustParseDecl("uint256[2][]"); got.Kind != Slice || got.Elem.Kind != Array || got.Elem.Len != 2 {
		t.Errorf("array nesting order wrong: %+v", got)
	}
	for _, bad := range []string{"uint7", "uint0256", "bytes33", "bytes0", "fixed128x0", "fixed128x81", "uint264", "(uint256", "uint256[", "tuple", "uint256 ", "(uint8 a b)"} {
		if _, err := ParseDecl(bad); err == nil {
			t.Errorf("%q accepted", bad)
		}
	}
}

func TestClassification(t *testing.T) {
	for s, want := range map[string]struct {
		dyn  bool
		head int
	}{
		"uint8":                  {false, 32},
		"bytes":                  {true, 32},
		"string[2]":              {true, 32},
		"uint8[3]":               {false, 96},
		"(uint8,bytes2)[2]":      {false, 128},
		"(uint8,string)[2]":      {true, 32},
		"uint8[]":                {true, 32},
		"()":                     {false, 0},
		"((),uint8[2][2])":       {false, 128},
		"(uint8,(bool,(bytes)))": {true, 32},
	} {
		ty := MustParseDecl(s)
		if ty.IsDynamic() != want.dyn || ty.HeadSize() != want.head {
			t.Errorf("%s: dynamic=%v head=%d, want %v %d", s, ty.IsDynamic(), ty.HeadSize(), want.dyn, want.head)
		}
	}
	if !MustParseDecl("(())[]").HasZeroSizeArrayElem() || MustParseDecl("((),uint8[1])").HasZeroSizeArrayElem() || !MustParseDecl("uint8[0]").HasZeroSizeArrayElem() {
		t.Errorf("HasZeroSizeArrayElem")
	}
}

func TestIntegersAndWords(t *testing.T) {
	e := MustEnc(MustParseDecl("(int8,int256,uint256,fixed8x1,bool,address,function)"), ListV(u(-1), IntV(new(big.Int).Neg(pow2(255))), IntV(new(big.Int).Sub(pow2(256), one)), u(-128), BoolV(false),
		HexV("ffffffffffffffffffffffffffffffffffffffff"), HexV("0102030405060708090a0b0c0d0e0f101112131415161718")))
	want := hx(strings.Repeat("f", 64), "8"+strings.Repeat("0", 63), strings.Repeat("f", 64), strings.Repeat("f", 62)+"80", w("0"), w("ffffffffffffffffffffffffffffffffffffffff"), rpad("0102030405060708090a0b0c0d0e0f101112131415161718"))
	if hex.EncodeToString(e) != want {
		t.Errorf("got %x\nwant %s", e, want)
	}
	for _, bad := range []struct {
		t string
		v Value
	}{
		{"(uint8)", ListV(u(256))}, {"(uint8)", ListV(u(-1))}, {"(int8)", ListV(u(128))}, {"(int8)", ListV(u(-129))},
		{"(bytes3)", ListV(BytesV([]byte("ab")))}, {"(uint8[2])", ListV(ListV(u(1)))}, {"(uint8,uint8)", ListV(u(1))},
		{"(address)", ListV(BytesV(make([]byte, 19)))}, {"(ufixed8x1)", ListV(u(-1))},
	} {
		if _, _, err := Enc(MustParseDecl(bad.t), bad.v); err == nil {
			t.Errorf("%s %s accepted", bad.t, ValueJSON(MustParseDecl(bad.t), bad.v))
		}
	}

	// word positions: g(uint256[][],string[]) example
	ty := MustParseDecl("(uint256[][],string[])")
	v := ListV(ListV(ListV(u(1), u(2)), ListV(u(3))), ListV(StrV("one"), StrV("two"), StrV("three")))
	data, words, err := Enc(ty, v)
	if err != nil {
		t.Fatal(err)
	}
	nOff, nArr, nBytes := 0, 0, 0
	for _, wd := range words {
		got := new(big.Int).SetBytes(data[wd.Pos : wd.Pos+32])
		if got.Int64() != int64(wd.Val) {
			t.Errorf("word at %d (%s %s): recorded %d, found %d", wd.Pos, wd.Kind, wd.Path, wd.Val, got)
		}
		switch wd.Kind {
		case OffsetWord:
			nOff++
			// the target of an offset is a length word here (all dynamic members are arrays/strings)
			target := wd.Base + wd.Val
			found := false
			for _, o := range words {
				if o.Pos == target && o.Kind != OffsetWord && o.Path == wd.Path {
					found = true
				}
			}
			if !found {
				t.Errorf("offset word at %d (%s) base %d val %d does not land on the length word of the same path", wd.Pos, wd.Path, wd.Base, wd.Val)
			}
		case ArrayLenWord:
			nArr++
		case BytesLenWord:
			nBytes++
		}
	}
	if nOff != 7 || nArr != 4 || nBytes != 3 {
		t.Errorf("word census offsets=%d arraylens=%d byteslens=%d, want 7 4 3", nOff, nArr, nBytes)
	}
}

func TestValueJSONRoundTrip(t *testing.T) {
	ty := MustParseDecl("(uint8 a,(string,bytes3)[2] b,int[],bool,fixed16x2,())")
	v := ListV(u(255), ListV(ListV(StrV("é\"\\\n"), BytesV([]byte{1, 2, 3})), ListV(StrV(""), BytesV([]byte{0, 0, 0}))), ListV(u(-5), IntV(pow2(200))), BoolV(true), u(-12345), ListV())
	raw := ValueJSON(ty, v)
	back, err := ValueFromJSON(ty, raw)
	if err != nil {
		t.Fatal(err)
	}
	if !Equal(ty, v, back) || string(ValueJSON(ty, back)) != string(raw) {
		t.Errorf("round trip: %s", raw)
	}
	if s := DecimalString(ty.Members[4].Type, u(-12345)); s != "-123.45" {
		t.Errorf("decimal %s", s)
	}
	if s := ScaledDecimal(big.NewInt(1500), 3, 0); s != "1.5" {
		t.Errorf("decimal %s", s)
	}
	if s := ScaledDecimal(big.NewInt(-2000), 3, 0); s != "-2" {
		t.Errorf("decimal %s", s)
	}
	if s := ScaledDecimal(big.NewInt(5), 3, 0); s != "0.005" {
		t.Errorf("decimal %s", s)
	}
}
