// Package abiref is an independent reference model of the Solidity contract ABI
// (v2) written from the specification
// (https://docs.soliditylang.org/en/latest/abi-spec.html).  It never imports the
// package it judges (github.com/hyperledger/firefly-signer/pkg/abi).
//
// Public API (kept small and stable; other property packages build on it):
//
//	Type / Member / Kind      own type model: uint<M>, int<M>, address, bool, bytes<M>, bytes, string,
//	                          function, fixed/ufixed<M>x<N>, T[k], T[], tuples with optional member names
//	ParseDecl(s) / t.Decl()   text form of a type *with* member names, aliases and indexed flags, e.g.
//	                          "(uint8 a,(string,bytes3 indexed tag)[2] b,uint)" — used to carry types inside
//	                          JSON cases.  Decl and ParseDecl are inverse.
//	t.Canonical()             signature spelling: aliases expanded, tuples as "(a,b)", arrays suffixed
//	t.ABIType()               the "type" field of the JSON ABI ("tuple[2][]", "uint" when the alias is kept)
//	t.IsDynamic() / HeadSize() / ZeroSize() / Base() / Range()
//	Value                     values in the harness's own representation (big.Int, []byte, string, bool, lists);
//	                          fixed-point values are carried as the scaled integer value*10^N (exact)
//	ValueJSON / ValueFromJSON canonical JSON form of a value (type directed) for cases and corpus files
//	Equal(t, a, b)            structural equality of two values of type t
//	Check(t, v)               is v a well-formed in-range value of t
//	Enc(t, v)                 the head/tail encoding enc(v) of the specification PLUS the position of every
//	                          offset word and every length word that was written (Word)
//	Signature / Selector / Topic / EncodeCall / EventLog
//	                          canonical signature, keccak selector (first 4 bytes), full topic hash,
//	                          call data, and the topics+data of an event log (indexed parameter rules)
//	DecimalString(t, v)       decimal literal of a fixed-point value
//
// Trusted primitives: math/big and Keccak-256 (verifharness/ref/secp.Keccak256,
// which wraps golang.org/x/crypto/sha3).
package abiref

import (
	"bytes"
	"encoding/hex"
	"encoding/json"
	"fmt"
	"math/big"
	"strconv"
	"strings"
	"unicode/utf8"

	"verifharness/ref/secp"
)

// Kind enumerates the type constructors of the ABI.
type Kind uint8

const (
	Uint       Kind = iota + 1 // uint<M>
	Int                        // int<M>
	Address                    // address (as uint160)
	Bool                       // bool (as uint8 restricted to 0/1)
	FixedBytes                 // bytes<M>, 1 <= M <= 32
	Bytes                      // bytes (dynamic)
	String                     // string (dynamic, UTF-8)
	Function                   // function (as bytes24)
	Fixed                      // fixed<M>x<N>
	Ufixed                     // ufixed<M>x<N>
	Array                      // T[k]
	Slice                      // T[]
	Tuple                      // (T1,...,Tn)
)

func (k Kind) String() string {
	switch k {
	case Uint:
		return "uint"
	case Int:
		return "int"
	case Address:
		return "address"
	case Bool:
		return "bool"
	case FixedBytes:
		return "bytesM"
	case Bytes:
		return "bytes"
	case String:
		return "string"
	case Function:
		return "function"
	case Fixed:
		return "fixed"
	case Ufixed:
		return "ufixed"
	case Array:
		return "T[k]"
	case Slice:
		return "T[]"
	case Tuple:
		return "tuple"
	}
	return "?"
}

// Type is a node of a type tree.
type Type struct {
	Kind    Kind
	M       int      // Uint/Int/Fixed/Ufixed: bits (8..256 step 8); FixedBytes: bytes (1..32)
	N       int      // Fixed/Ufixed: decimal digits (1..80)
	Alias   bool     // source spelling omits the suffix: "uint", "int", "fixed", "ufixed" (M, N hold the defaults)
	Len     int      // Array: k
	Elem    *Type    // Array, Slice: element type
	Members []Member // Tuple
}

// Member is one member of a tuple (or one parameter of a parameter list).
type Member struct {
	Name    string // "" = unnamed
	Indexed bool   // events only
	Type    *Type
}

// Constructors.
func UintT(m int) *Type           { return &Type{Kind: Uint, M: m} }
func IntT(m int) *Type            { return &Type{Kind: Int, M: m} }
func AddressT() *Type             { return &Type{Kind: Address} }
func BoolT() *Type                { return &Type{Kind: Bool} }
func FixedBytesT(m int) *Type     { return &Type{Kind: FixedBytes, M: m} }
func BytesT() *Type               { return &Type{Kind: Bytes} }
func StringT() *Type              { return &Type{Kind: String} }
func FunctionT() *Type            { return &Type{Kind: Function} }
func FixedT(m, n int) *Type       { return &Type{Kind: Fixed, M: m, N: n} }
func UfixedT(m, n int) *Type      { return &Type{Kind: Ufixed, M: m, N: n} }
func ArrayT(e *Type, k int) *Type { return &Type{Kind: Array, Elem: e, Len: k} }
func SliceT(e *Type) *Type        { return &Type{Kind: Slice, Elem: e} }

// TupleT builds an unnamed tuple.
func TupleT(ts ...*Type) *Type {
	t := &Type{Kind: Tuple}
	for _, c := range ts {
		t.Members = append(t.Members, Member{Type: c})
	}
	return t
}

// TupleOf builds a tuple from members.
func TupleOf(ms ...Member) *Type { return &Type{Kind: Tuple, Members: ms} }

// IsElementary reports whether t is not an array, slice or tuple.
func (t *Type) IsElementary() bool { return t.Kind != Array && t.Kind != Slice && t.Kind != Tuple }

// IsInteger reports uint<M> / int<M>.
func (t *Type) IsInteger() bool { return t.Kind == Uint || t.Kind == Int }

// IsFixedPoint reports fixed / ufixed.
func (t *Type) IsFixedPoint() bool { return t.Kind == Fixed || t.Kind == Ufixed }

// Base returns the innermost non-array type of t (t itself when t is not an array).
func (t *Type) Base() *Type {
	for t.Kind == Array || t.Kind == Slice {
		t = t.Elem
	}
	return t
}

func (t *Type) elemName(expandAlias bool) string {
	switch t.Kind {
	case Uint, Int:
		if t.Alias && !expandAlias {
			return t.Kind.String()
		}
		return t.Kind.String() + strconv.Itoa(t.M)
	case Fixed, Ufixed:
		if t.Alias && !expandAlias {
			return t.Kind.String()
		}
		return fmt.Sprintf("%s%dx%d", t.Kind, t.M, t.N)
	case FixedBytes:
		return "bytes" + strconv.Itoa(t.M)
	case Address, Bool, Bytes, String, Function:
		return t.Kind.String()
	}
	return "?"
}

func (t *Type) arraySuffix() string {
	// suffixes are written innermost first: T[2][] is a slice of T[2]
	var parts []string
	for t.Kind == Array || t.Kind == Slice {
		if t.Kind == Array {
			parts = append([]string{"[" + strconv.Itoa(t.Len) + "]"}, parts...)
		} else {
			parts = append([]string{"[]"}, parts...)
		}
		t = t.Elem
	}
	return strings.Join(parts, "")
}

// Canonical is the spelling used in signatures: aliases expanded, tuples in parentheses.
func (t *Type) Canonical() string {
	switch t.Kind {
	case Array, Slice:
		return t.Base().Canonical() + t.arraySuffix()
	case Tuple:
		var sb strings.Builder
		sb.WriteByte('(')
		for i, m := range t.Members {
			if i > 0 {
				sb.WriteByte(',')
			}
			sb.WriteString(m.Type.Canonical())
		}
		sb.WriteByte(')')
		return sb.String()
	default:
		return t.elemName(true)
	}
}

// ABIType is the "type" string of a JSON ABI parameter for t ("tuple" for tuples, the
// alias spelling when t.Alias is set).
func (t *Type) ABIType() string {
	b := t.Base()
	s := ""
	if b.Kind == Tuple {
		s = "tuple"
	} else {
		s = b.elemName(false)
	}
	return s + t.arraySuffix()
}

// Decl renders t with member names, indexed flags and alias spellings; ParseDecl inverts it.
func (t *Type) Decl() string {
	switch t.Kind {
	case Array, Slice:
		return t.Base().Decl() + t.arraySuffix()
	case Tuple:
		var sb strings.Builder
		sb.WriteByte('(')
		for i, m := range t.Members {
			if i > 0 {
				sb.WriteByte(',')
			}
			sb.WriteString(m.Type.Decl())
			if m.Indexed {
				sb.WriteString(" indexed")
			}
			if m.Name != "" {
				sb.WriteByte(' ')
				sb.WriteString(m.Name)
			}
		}
		sb.WriteByte(')')
		return sb.String()
	default:
		return t.elemName(false)
	}
}

func (t *Type) String() string { return t.Decl() }

// ---- Decl parser

type declParser struct {
	s   string
	pos int
}

// ParseDecl parses the text form produced by Decl.
func ParseDecl(s string) (*Type, error) {
	p := &declParser{s: s}
	t, err := p.parseType()
	if err != nil {
		return nil, err
	}
	if p.pos != len(s) {
		return nil, fmt.Errorf("abiref: trailing input at %d in %q", p.pos, s)
	}
	return t, nil
}

// MustParseDecl is ParseDecl that panics (tests, constants).
func MustParseDecl(s string) *Type {
	t, err := ParseDecl(s)
	if err != nil {
		panic(err)
	}
	return t
}

func (p *declParser) peek() byte {
	if p.pos < len(p.s) {
		return p.s[p.pos]
	}
	return 0
}

func isIdentStart(c byte) bool {
	return c == '_' || c == '$' || (c >= 'a' && c <= 'z') || (c >= 'A' && c <= 'Z')
}
func isIdentChar(c byte) bool { return isIdentStart(c) || (c >= '0' && c <= '9') }

func (p *declParser) ident() string {
	start := p.pos
	if !isIdentStart(p.peek()) {
		return ""
	}
	for p.pos < len(p.s) && isIdentChar(p.s[p.pos]) {
		p.pos++
	}
	return p.s[start:p.pos]
}

func (p *declParser) parseType() (*Type, error) {
	var t *Type
	if p.peek() == '(' {
		p.pos++
		t = &Type{Kind: Tuple}
		if p.peek() == ')' {
			p.pos++
		} else {
			for {
				mt, err := p.parseType()
				if err != nil {
					return nil, err
				}
				m := Member{Type: mt}
				for p.peek() == ' ' {
					p.pos++
					w := p.ident()
					if w == "" {
						return nil, fmt.Errorf("abiref: expected identifier at %d in %q", p.pos, p.s)
					}
					if w == "indexed" && !m.Indexed && m.Name == "" {
						m.Indexed = true
						continue
					}
					if m.Name != "" {
						return nil, fmt.Errorf("abiref: two names at %d in %q", p.pos, p.s)
					}
					m.Name = w
				}
				t.Members = append(t.Members, m)
				if p.peek() == ',' {
					p.pos++
					continue
				}
				if p.peek() == ')' {
					p.pos++
					break
				}
				return nil, fmt.Errorf("abiref: expected , or ) at %d in %q", p.pos, p.s)
			}
		}
	} else {
		start := p.pos
		for p.pos < len(p.s) && ((p.s[p.pos] >= 'a' && p.s[p.pos] <= 'z') || (p.s[p.pos] >= '0' && p.s[p.pos] <= '9')) {
			p.pos++
		}
		var err error
		t, err = parseElementary(p.s[start:p.pos])
		if err != nil {
			return nil, err
		}
	}
	for p.peek() == '[' {
		p.pos++
		start := p.pos
		for p.peek() >= '0' && p.peek() <= '9' {
			p.pos++
		}
		ds := p.s[start:p.pos]
		if p.peek() != ']' {
			return nil, fmt.Errorf("abiref: expected ] at %d in %q", p.pos, p.s)
		}
		p.pos++
		if ds == "" {
			t = SliceT(t)
		} else {
			k, err := strconv.Atoi(ds)
			if err != nil {
				return nil, err
			}
			t = ArrayT(t, k)
		}
	}
	return t, nil
}

func canonInt(s string) (int, bool) {
	if s == "" || (len(s) > 1 && s[0] == '0') {
		return 0, false
	}
	n, err := strconv.Atoi(s)
	return n, err == nil
}

func parseElementary(s string) (*Type, error) {
	bad := fmt.Errorf("abiref: bad elementary type %q", s)
	switch s {
	case "address":
		return AddressT(), nil
	case "bool":
		return BoolT(), nil
	case "bytes":
		return BytesT(), nil
	case "string":
		return StringT(), nil
	case "function":
		return FunctionT(), nil
	case "uint":
		return &Type{Kind: Uint, M: 256, Alias: true}, nil
	case "int":
		return &Type{Kind: Int, M: 256, Alias: true}, nil
	case "fixed":
		return &Type{Kind: Fixed, M: 128, N: 18, Alias: true}, nil
	case "ufixed":
		return &Type{Kind: Ufixed, M: 128, N: 18, Alias: true}, nil
	}
	intLike := func(prefix string, k Kind) (*Type, error) {
		m, ok := canonInt(strings.TrimPrefix(s, prefix))
		if !ok || m < 8 || m > 256 || m%8 != 0 {
			return nil, bad
		}
		return &Type{Kind: k, M: m}, nil
	}
	fixedLike := func(prefix string, k Kind) (*Type, error) {
		mn := strings.SplitN(strings.TrimPrefix(s, prefix), "x", 2)
		if len(mn) != 2 {
			return nil, bad
		}
		m, ok1 := canonInt(mn[0])
		n, ok2 := canonInt(mn[1])
		if !ok1 || !ok2 || m < 8 || m > 256 || m%8 != 0 || n < 1 || n > 80 {
			return nil, bad
		}
		return &Type{Kind: k, M: m, N: n}, nil
	}
	switch {
	case strings.HasPrefix(s, "ufixed"):
		return fixedLike("ufixed", Ufixed)
	case strings.HasPrefix(s, "fixed"):
		return fixedLike("fixed", Fixed)
	case strings.HasPrefix(s, "uint"):
		return intLike("uint", Uint)
	case strings.HasPrefix(s, "int"):
		return intLike("int", Int)
	case strings.HasPrefix(s, "bytes"):
		m, ok := canonInt(strings.TrimPrefix(s, "bytes"))
		if !ok || m < 1 || m > 32 {
			return nil, bad
		}
		return FixedBytesT(m), nil
	}
	return nil, bad
}

// ---- classification

// IsDynamic is the type-driven classification of the specification: bytes, string, T[]
// for any T, T[k] for any dynamic T (any k >= 0), and tuples with a dynamic member.
func (t *Type) IsDynamic() bool {
	switch t.Kind {
	case Bytes, String, Slice:
		return true
	case Array:
		return t.Elem.IsDynamic()
	case Tuple:
		for _, m := range t.Members {
			if m.Type.IsDynamic() {
				return true
			}
		}
	}
	return false
}

// HeadSize is the number of bytes a value of t occupies in the head of its enclosing
// tuple/array: 32 for dynamic types (the offset word), the full in-place size otherwise.
func (t *Type) HeadSize() int {
	if t.IsDynamic() {
		return 32
	}
	switch t.Kind {
	case Array:
		return t.Len * t.Elem.HeadSize()
	case Tuple:
		n := 0
		for _, m := range t.Members {
			n += m.Type.HeadSize()
		}
		return n
	}
	return 32
}

// ZeroSize reports a static type whose encoding is empty (empty tuples, T[0] of static T, …).
func (t *Type) ZeroSize() bool { return !t.IsDynamic() && t.HeadSize() == 0 }

// HasZeroSizeArrayElem reports whether some array/slice inside t has an element type of zero
// encoded size, or a fixed array has length zero (both are outside the quantifiers of C02/C03/C11).
func (t *Type) HasZeroSizeArrayElem() bool {
	switch t.Kind {
	case Array:
		return t.Len == 0 || t.Elem.ZeroSize() || t.Elem.HasZeroSizeArrayElem()
	case Slice:
		return t.Elem.ZeroSize() || t.Elem.HasZeroSizeArrayElem()
	case Tuple:
		for _, m := range t.Members {
			if m.Type.HasZeroSizeArrayElem() {
				return true
			}
		}
	}
	return false
}

// Walk calls f for t and every type below it (pre-order) with its nesting depth.
func (t *Type) Walk(f func(t *Type, depth int)) { t.walk(f, 0) }

func (t *Type) walk(f func(t *Type, depth int), d int) {
	f(t, d)
	switch t.Kind {
	case Array, Slice:
		t.Elem.walk(f, d+1)
	case Tuple:
		for _, m := range t.Members {
			m.Type.walk(f, d+1)
		}
	}
}

var one = big.NewInt(1)

func pow2(n int) *big.Int { return new(big.Int).Lsh(one, uint(n)) }

// Pow10 returns 10^n.
func Pow10(n int) *big.Int { return new(big.Int).Exp(big.NewInt(10), big.NewInt(int64(n)), nil) }

// Range returns the inclusive range of the integer carried by a value of t:
// uint<M>/ufixed: [0, 2^M-1]; int<M>/fixed: [-2^(M-1), 2^(M-1)-1] (for fixed-point the
// range of the scaled integer); address: [0, 2^160-1]; bool: [0, 1].
func (t *Type) Range() (min, max *big.Int) {
	switch t.Kind {
	case Uint, Ufixed:
		return new(big.Int), new(big.Int).Sub(pow2(t.M), one)
	case Int, Fixed:
		return new(big.Int).Neg(pow2(t.M - 1)), new(big.Int).Sub(pow2(t.M-1), one)
	case Address:
		return new(big.Int), new(big.Int).Sub(pow2(160), one)
	case Bool:
		return new(big.Int), big.NewInt(1)
	}
	return nil, nil
}

// ---- values

// Value is a value of some Type in the harness's own representation. Which field is
// meaningful is decided by the type:
//
//	Uint, Int       Int
//	Fixed, Ufixed   Int = the scaled integer value * 10^N (exact decimal rational)
//	Bool            Bool
//	Address         Bytes (20), FixedBytes Bytes (M), Function Bytes (24), Bytes Bytes (any length)
//	String          Str
//	Array, Slice, Tuple   Elems
type Value struct {
	Int   *big.Int
	Bool  bool
	Bytes []byte
	Str   string
	Elems []Value
}

// Convenience constructors.
func IntV(i *big.Int) Value   { return Value{Int: i} }
func Int64V(i int64) Value    { return Value{Int: big.NewInt(i)} }
func BoolV(b bool) Value      { return Value{Bool: b} }
func BytesV(b []byte) Value   { return Value{Bytes: b} }
func StrV(s string) Value     { return Value{Str: s} }
func ListV(vs ...Value) Value { return Value{Elems: append([]Value{}, vs...)} }
func HexV(h string) Value {
	b, err := hex.DecodeString(strings.TrimPrefix(h, "0x"))
	if err != nil {
		panic(err)
	}
	return Value{Bytes: b}
}

// Check reports why v is not a well-formed, in-range value of t (nil when it is).
func Check(t *Type, v Value) error {
	switch t.Kind {
	case Uint, Int, Fixed, Ufixed:
		if v.Int == nil {
			return fmt.Errorf("%s: missing integer", t.Canonical())
		}
		lo, hi := t.Range()
		if v.Int.Cmp(lo) < 0 || v.Int.Cmp(hi) > 0 {
			return fmt.Errorf("%s: %s out of range", t.Canonical(), v.Int)
		}
	case Address:
		if len(v.Bytes) != 20 {
			return fmt.Errorf("address: %d bytes", len(v.Bytes))
		}
	case FixedBytes:
		if len(v.Bytes) != t.M {
			return fmt.Errorf("%s: %d bytes", t.Canonical(), len(v.Bytes))
		}
	case Function:
		if len(v.Bytes) != 24 {
			return fmt.Errorf("function: %d bytes", len(v.Bytes))
		}
	case Bool, Bytes, String:
	case Array:
		if len(v.Elems) != t.Len {
			return fmt.Errorf("%s: %d elements", t.Canonical(), len(v.Elems))
		}
		for i := range v.Elems {
			if err := Check(t.Elem, v.Elems[i]); err != nil {
				return err
			}
		}
	case Slice:
		for i := range v.Elems {
			if err := Check(t.Elem, v.Elems[i]); err != nil {
				return err
			}
		}
	case Tuple:
		if len(v.Elems) != len(t.Members) {
			return fmt.Errorf("%s: %d members given", t.Canonical(), len(v.Elems))
		}
		for i := range v.Elems {
			if err := Check(t.Members[i].Type, v.Elems[i]); err != nil {
				return err
			}
		}
	default:
		return fmt.Errorf("unknown kind %d", t.Kind)
	}
	return nil
}

// Equal compares two values of type t structurally.
func Equal(t *Type, a, b Value) bool {
	switch t.Kind {
	case Uint, Int, Fixed, Ufixed:
		return a.Int != nil && b.Int != nil && a.Int.Cmp(b.Int) == 0
	case Bool:
		return a.Bool == b.Bool
	case Address, FixedBytes, Function, Bytes:
		return bytes.Equal(a.Bytes, b.Bytes)
	case String:
		return a.Str == b.Str
	case Array, Slice:
		if len(a.Elems) != len(b.Elems) {
			return false
		}
		for i := range a.Elems {
			if !Equal(t.Elem, a.Elems[i], b.Elems[i]) {
				return false
			}
		}
		return true
	case Tuple:
		if len(a.Elems) != len(b.Elems) || len(a.Elems) != len(t.Members) {
			return false
		}
		for i := range a.Elems {
			if !Equal(t.Members[i].Type, a.Elems[i], b.Elems[i]) {
				return false
			}
		}
		return true
	}
	return false
}

// DecimalString prints the decimal literal of a fixed-point value (scaled integer / 10^N)
// with exactly N fractional digits.
func DecimalString(t *Type, v Value) string {
	return ScaledDecimal(v.Int, t.N, t.N)
}

// ScaledDecimal prints scaled/10^n keeping at least minFrac and at most n fractional digits
// (trailing zeros beyond minFrac are dropped; no "." when no fractional digit remains).
func ScaledDecimal(scaled *big.Int, n, minFrac int) string {
	abs := new(big.Int).Abs(scaled)
	q, r := new(big.Int).QuoRem(abs, Pow10(n), new(big.Int))
	frac := r.String()
	frac = strings.Repeat("0", n-len(frac)) + frac
	for len(frac) > minFrac && strings.HasSuffix(frac, "0") {
		frac = frac[:len(frac)-1]
	}
	s := q.String()
	if frac != "" {
		s += "." + frac
	}
	if scaled.Sign() < 0 {
		s = "-" + s
	}
	return s
}

// ValueJSON is the canonical JSON form of v (type directed): integers and scaled
// fixed-point integers as decimal strings, byte strings as lower-case hex without prefix,
// strings as JSON strings, bool as JSON bool, arrays and tuples as JSON arrays.
func ValueJSON(t *Type, v Value) json.RawMessage {
	var buf bytes.Buffer
	writeValueJSON(&buf, t, v)
	return json.RawMessage(buf.Bytes())
}

func writeValueJSON(buf *bytes.Buffer, t *Type, v Value) {
	switch t.Kind {
	case Uint, Int, Fixed, Ufixed:
		buf.WriteByte('"')
		if v.Int != nil {
			buf.WriteString(v.Int.String())
		}
		buf.WriteByte('"')
	case Bool:
		if v.Bool {
			buf.WriteString("true")
		} else {
			buf.WriteString("false")
		}
	case Address, FixedBytes, Function, Bytes:
		buf.WriteByte('"')
		buf.WriteString(hex.EncodeToString(v.Bytes))
		buf.WriteByte('"')
	case String:
		b, _ := json.Marshal(v.Str)
		buf.Write(b)
	case Array, Slice:
		buf.WriteByte('[')
		for i := range v.Elems {
			if i > 0 {
				buf.WriteByte(',')
			}
			writeValueJSON(buf, t.Elem, v.Elems[i])
		}
		buf.WriteByte(']')
	case Tuple:
		buf.WriteByte('[')
		for i := range v.Elems {
			if i > 0 {
				buf.WriteByte(',')
			}
			if i < len(t.Members) {
				writeValueJSON(buf, t.Members[i].Type, v.Elems[i])
			} else {
				buf.WriteString("null")
			}
		}
		buf.WriteByte(']')
	}
}

// ValueFromJSON parses the canonical JSON form.
func ValueFromJSON(t *Type, raw json.RawMessage) (Value, error) {
	switch t.Kind {
	case Uint, Int, Fixed, Ufixed:
		var s string
		if err := json.Unmarshal(raw, &s); err != nil {
			return Value{}, err
		}
		i, ok := new(big.Int).SetString(s, 10)
		if !ok {
			return Value{}, fmt.Errorf("abiref: bad integer %q", s)
		}
		return Value{Int: i}, nil
	case Bool:
		var b bool
		err := json.Unmarshal(raw, &b)
		return Value{Bool: b}, err
	case Address, FixedBytes, Function, Bytes:
		var s string
		if err := json.Unmarshal(raw, &s); err != nil {
			return Value{}, err
		}
		b, err := hex.DecodeString(s)
		if err != nil {
			return Value{}, err
		}
		return Value{Bytes: b}, nil
	case String:
		var s string
		err := json.Unmarshal(raw, &s)
		return Value{Str: s}, err
	case Array, Slice, Tuple:
		var items []json.RawMessage
		if err := json.Unmarshal(raw, &items); err != nil {
			return Value{}, err
		}
		out := Value{Elems: make([]Value, len(items))}
		for i, it := range items {
			et := t.Elem
			if t.Kind == Tuple {
				if i >= len(t.Members) {
					return Value{}, fmt.Errorf("abiref: too many tuple members")
				}
				et = t.Members[i].Type
			}
			var err error
			if out.Elems[i], err = ValueFromJSON(et, it); err != nil {
				return Value{}, err
			}
		}
		return out, nil
	}
	return Value{}, fmt.Errorf("abiref: unknown kind")
}

// ---- encoder

// WordKind classifies the bookkeeping words of an encoding.
type WordKind uint8

const (
	OffsetWord   WordKind = iota + 1 // head slot of a dynamic member: offset of its tail, relative to Base
	ArrayLenWord                     // element count of a T[]
	BytesLenWord                     // byte length of a bytes/string
)

func (k WordKind) String() string {
	switch k {
	case OffsetWord:
		return "offset"
	case ArrayLenWord:
		return "array-len"
	case BytesLenWord:
		return "bytes-len"
	}
	return "?"
}

// Word locates one bookkeeping word (32 bytes at Pos) of an encoding produced by Enc.
type Word struct {
	Pos  int      // byte position of the word in the encoding
	Kind WordKind //
	Base int      // OffsetWord: the position the offset is relative to (start of the enclosing head)
	Val  int      // the value that was written
	Path string   // where in the value tree, e.g. ".1[2].0"
}

func word(i *big.Int) []byte {
	b := make([]byte, 32)
	if i.Sign() < 0 {
		i = new(big.Int).Add(pow2(256), i) // two's complement
	}
	i.FillBytes(b)
	return b
}

func padRight(b []byte) []byte {
	n := (len(b) + 31) / 32 * 32
	out := make([]byte, n)
	copy(out, b)
	return out
}

// Enc returns enc(v) as defined by the specification for a value v of type t, and the
// positions of all offset and length words in it.  For a parameter list pass the tuple of
// the parameters: enc of the top-level tuple is the argument encoding (no leading offset).
// It fails when v is not a well-formed in-range value of t.
func Enc(t *Type, v Value) ([]byte, []Word, error) {
	if err := Check(t, v); err != nil {
		return nil, nil, err
	}
	out, words := enc(t, v, "")
	return out, words, nil
}

// MustEnc is Enc that panics on a malformed value.
func MustEnc(t *Type, v Value) []byte {
	b, _, err := Enc(t, v)
	if err != nil {
		panic(err)
	}
	return b
}

func shift(ws []Word, by int) []Word {
	for i := range ws {
		ws[i].Pos += by
		if ws[i].Kind == OffsetWord {
			ws[i].Base += by
		}
	}
	return ws
}

func enc(t *Type, v Value, path string) ([]byte, []Word) {
	switch t.Kind {
	case Uint, Int, Fixed, Ufixed:
		return word(v.Int), nil
	case Address:
		return word(new(big.Int).SetBytes(v.Bytes)), nil
	case Bool:
		if v.Bool {
			return word(one), nil
		}
		return word(new(big.Int)), nil
	case FixedBytes, Function:
		return padRight(v.Bytes), nil
	case Bytes:
		out := append(word(big.NewInt(int64(len(v.Bytes)))), padRight(v.Bytes)...)
		return out, []Word{{Pos: 0, Kind: BytesLenWord, Val: len(v.Bytes), Path: path}}
	case String:
		b := []byte(v.Str)
		out := append(word(big.NewInt(int64(len(b)))), padRight(b)...)
		return out, []Word{{Pos: 0, Kind: BytesLenWord, Val: len(b), Path: path}}
	case Array:
		ts := make([]*Type, len(v.Elems))
		ps := make([]string, len(v.Elems))
		for i := range ts {
			ts[i] = t.Elem
			ps[i] = fmt.Sprintf("%s[%d]", path, i)
		}
		return encSeq(ts, v.Elems, ps)
	case Slice:
		ts := make([]*Type, len(v.Elems))
		ps := make([]string, len(v.Elems))
		for i := range ts {
			ts[i] = t.Elem
			ps[i] = fmt.Sprintf("%s[%d]", path, i)
		}
		body, ws := encSeq(ts, v.Elems, ps)
		out := append(word(big.NewInt(int64(len(v.Elems)))), body...)
		ws = shift(ws, 32)
		return out, append([]Word{{Pos: 0, Kind: ArrayLenWord, Val: len(v.Elems), Path: path}}, ws...)
	case Tuple:
		ts := make([]*Type, len(t.Members))
		ps := make([]string, len(t.Members))
		for i := range ts {
			ts[i] = t.Members[i].Type
			ps[i] = fmt.Sprintf("%s.%d", path, i)
		}
		return encSeq(ts, v.Elems, ps)
	}
	panic("abiref: unknown kind")
}

// encSeq is enc((X1..Xk)): head(X1)…head(Xk) tail(X1)…tail(Xk).
func encSeq(ts []*Type, vs []Value, paths []string) ([]byte, []Word) {
	headLen := 0
	for _, t := range ts {
		headLen += t.HeadSize()
	}
	head := make([]byte, 0, headLen)
	var tail []byte
	var words []Word
	for i, t := range ts {
		e, ws := enc(t, vs[i], paths[i])
		if t.IsDynamic() {
			off := headLen + len(tail)
			words = append(words, Word{Pos: len(head), Kind: OffsetWord, Base: 0, Val: off, Path: paths[i]})
			head = append(head, word(big.NewInt(int64(off)))...)
			words = append(words, shift(ws, off)...)
			tail = append(tail, e...)
		} else {
			words = append(words, shift(ws, len(head))...)
			head = append(head, e...)
		}
	}
	return append(head, tail...), words
}

// ---- signatures, selectors, topics

// Signature is name(T1,...,Tn) with canonical type spellings; params must be a tuple.
func Signature(name string, params *Type) string {
	return name + params.Canonical()
}

// Hash is Keccak-256.
func Hash(b []byte) []byte { return secp.Keccak256(b) }

// Selector is the first four bytes of the Keccak-256 hash of the signature.
func Selector(sig string) []byte { return secp.Keccak256([]byte(sig))[:4] }

// Topic is the full Keccak-256 hash of the signature (topic 0 of a non-anonymous event).
func Topic(sig string) []byte { return secp.Keccak256([]byte(sig)) }

// EncodeCall is selector ‖ enc(args).
func EncodeCall(name string, params *Type, args Value) ([]byte, error) {
	data, _, err := Enc(params, args)
	if err != nil {
		return nil, err
	}
	return append(Selector(Signature(name, params)), data...), nil
}

// encIndexed is the special in-place encoding used when hashing indexed event
// parameters of reference type: no offsets and no length prefixes; bytes and strings are
// padded to a multiple of 32 bytes when nested inside an array or struct.
func encIndexed(t *Type, v Value, top bool) []byte {
	switch t.Kind {
	case Bytes:
		if top {
			return v.Bytes
		}
		return padRight(v.Bytes)
	case String:
		if top {
			return []byte(v.Str)
		}
		return padRight([]byte(v.Str))
	case Array, Slice:
		var out []byte
		for i := range v.Elems {
			out = append(out, encIndexed(t.Elem, v.Elems[i], false)...)
		}
		return out
	case Tuple:
		var out []byte
		for i := range v.Elems {
			out = append(out, encIndexed(t.Members[i].Type, v.Elems[i], false)...)
		}
		return out
	default:
		e, _ := enc(t, v, "")
		return e
	}
}

// IndexedTopic is the topic word of one indexed event argument: the 32-byte encoding for
// value types, the Keccak-256 hash of the in-place encoding for bytes, string, arrays and tuples.
func IndexedTopic(t *Type, v Value) []byte {
	switch t.Kind {
	case Bytes, String, Array, Slice, Tuple:
		return secp.Keccak256(encIndexed(t, v, true))
	}
	e, _ := enc(t, v, "")
	return e
}

// EventLog builds the topics and data of a log for event name(params) emitted with args:
// topic 0 is the signature hash unless anonymous; one topic per Indexed member in order;
// data is enc of the tuple of the non-indexed members in order.
func EventLog(name string, params *Type, args Value, anonymous bool) (topics [][]byte, data []byte, err error) {
	if err := Check(params, args); err != nil {
		return nil, nil, err
	}
	if !anonymous {
		topics = append(topics, Topic(Signature(name, params)))
	}
	dt := &Type{Kind: Tuple}
	var dv Value
	for i, m := range params.Members {
		if m.Indexed {
			topics = append(topics, IndexedTopic(m.Type, args.Elems[i]))
		} else {
			dt.Members = append(dt.Members, m)
			dv.Elems = append(dv.Elems, args.Elems[i])
		}
	}
	data, _ = enc(dt, dv, "")
	return topics, data, nil
}

// ValidUTF8 reports whether every string inside v is valid UTF-8 (JSON can carry only those).
func ValidUTF8(t *Type, v Value) bool {
	switch t.Kind {
	case String:
		return utf8.ValidString(v.Str)
	case Array, Slice:
		for i := range v.Elems {
			if !ValidUTF8(t.Elem, v.Elems[i]) {
				return false
			}
		}
	case Tuple:
		for i := range v.Elems {
			if i < len(t.Members) && !ValidUTF8(t.Members[i].Type, v.Elems[i]) {
				return false
			}
		}
	}
	return true
}
