package secp

import (
	"encoding/hex"
	"math/big"
	"testing"
)

func TestVectors(t *testing.T) {
	a := AddressOfKey(big.NewInt(1))
	if hex.EncodeToString(a[:]) != "7e5f4552091a69125d5dfcb7b8c2659029395bdf" {
		t.Fatalf("addr(1) = %x", a)
	}
	d, _ := new(big.Int).SetString("4646464646464646464646464646464646464646464646464646464646464646", 16)
	a = AddressOfKey(d)
	if hex.EncodeToString(a[:]) != "9d8a62f656a8d1615c1294fd71e9cfb3e4855a4f" { // EIP-155 example key
		t.Fatalf("addr(4646..) = %x", a)
	}
	if hex.EncodeToString(Keccak256(nil)) != "c5d2460186f7233c927e7db2dcc703c0e500b653ca82273b7bfad8045d85a470" {
		t.Fatal("keccak")
	}
	// EIP-155 example: signing hash and signature
	h, _ := hex.DecodeString("daf5a779ae972f972197303d7b574746c7ef83eadac0f2791ad23db92e4c8e53")
	r, _ := new(big.Int).SetString("18515461264373351373200002665853028612451056578545711640558177340181847433846", 10)
	s, _ := new(big.Int).SetString("46948507304638947509940763649030358759909902576025900602547168820602576006531", 10)
	x, y := PubKey(d)
	if !Verify(h, r, s, x, y) {
		t.Fatal("verify EIP-155 example")
	}
	// v = 37 => parity 0
	ra, ok := RecoverAddress(h, r, s, 0)
	if !ok || ra != a {
		t.Fatalf("recover: %x", ra)
	}
	rb, ok := RecoverAddress(h, r, s, 1)
	if ok && rb == a {
		t.Fatal("other parity recovered the same address")
	}
	// own signer round trip
	for i := int64(1); i < 40; i++ {
		k := new(big.Int).Mul(big.NewInt(i), big.NewInt(7919))
		r, s, par, ok := Sign(d, h, k)
		if !ok || !LowS(s) || !Verify(h, r, s, x, y) {
			t.Fatal("sign/verify")
		}
		ra, ok := RecoverAddress(h, r, s, par)
		if !ok || ra != a {
			t.Fatal("sign/recover")
		}
	}
	nm1 := new(big.Int).Sub(N, big.NewInt(1))
	x1, y1 := PubKey(nm1)
	if x1.Cmp(Gx) != 0 || new(big.Int).Add(y1, Gy).Cmp(P) != 0 {
		t.Fatal("(n-1)G != -G")
	}
}
