// Package secp is an independent secp256k1 / ECDSA / Ethereum-address reference
// over math/big (Jacobian coordinates).  It shares nothing with btcec/dcrd,
// which the library under test uses.  Not constant time; test use only.
package secp

import (
	"math/big"

	"golang.org/x/crypto/sha3"
)

var (
	P, _  = new(big.Int).SetString("FFFFFFFFFFFFFFFFFFFFFFFFFFFFFFFFFFFFFFFFFFFFFFFFFFFFFFFEFFFFFC2F", 16)
	N, _  = new(big.Int).SetString("FFFFFFFFFFFFFFFFFFFFFFFFFFFFFFFEBAAEDCE6AF48A03BBFD25E8CD0364141", 16)
	Gx, _ = new(big.Int).SetString("79BE667EF9DCBBAC55A06295CE870B07029BFCDB2DCE28D959F2815B16F81798", 16)
	Gy, _ = new(big.Int).SetString("483ADA7726A3C4655DA4FBFC0E1108A8FD17B448A68554199C47D08FFB10D4B8", 16)
	HalfN = new(big.Int).Rsh(N, 1)
	seven = big.NewInt(7)
	zero  = big.NewInt(0)
)

// Keccak256 is the legacy (pre-NIST) Keccak-256 used by Ethereum.
func Keccak256(parts ...[]byte) []byte {
	h := sha3.NewLegacyKeccak256()
	for _, p := range parts {
		h.Write(p)
	}
	return h.Sum(nil)
}

type jac struct{ x, y, z *big.Int } // z == 0: infinity

func inf() jac { return jac{new(big.Int), new(big.Int).SetInt64(1), new(big.Int)} }

func mod(a *big.Int) *big.Int { return a.Mod(a, P) }

func double(p jac) jac {
	if p.z.Sign() == 0 || p.y.Sign() == 0 {
		return inf()
	}
	// a = 0 curve
	ysq := mod(new(big.Int).Mul(p.y, p.y))
	s := mod(new(big.Int).Mul(big.NewInt(4), new(big.Int).Mul(p.x, ysq)))
	m := mod(new(big.Int).Mul(big.NewInt(3), new(big.Int).Mul(p.x, p.x)))
	nx := mod(new(big.Int).Sub(new(big.Int).Mul(m, m), new(big.Int).Mul(big.NewInt(2), s)))
	ny := mod(new(big.Int).Sub(new(big.Int).Mul(m, new(big.Int).Sub(s, nx)), new(big.Int).Mul(big.NewInt(8), new(big.Int).Mul(ysq, ysq))))
	nz := mod(new(big.Int).Mul(big.NewInt(2), new(big.Int).Mul(p.y, p.z)))
	return jac{nx, ny, nz}
}

func add(p, q jac) jac {
	if p.z.Sign() == 0 {
		return q
	}
	if q.z.Sign() == 0 {
		return p
	}
	z1z1 := mod(new(big.Int).Mul(p.z, p.z))
	z2z2 := mod(new(big.Int).Mul(q.z, q.z))
	u1 := mod(new(big.Int).Mul(p.x, z2z2))
	u2 := mod(new(big.Int).Mul(q.x, z1z1))
	s1 := mod(new(big.Int).Mul(p.y, new(big.Int).Mul(q.z, z2z2)))
	s2 := mod(new(big.Int).Mul(q.y, new(big.Int).Mul(p.z, z1z1)))
	if u1.Cmp(u2) == 0 {
		if s1.Cmp(s2) != 0 {
			return inf()
		}
		return double(p)
	}
	h := mod(new(big.Int).Sub(u2, u1))
	r := mod(new(big.Int).Sub(s2, s1))
	h2 := mod(new(big.Int).Mul(h, h))
	h3 := mod(new(big.Int).Mul(h2, h))
	u1h2 := mod(new(big.Int).Mul(u1, h2))
	nx := mod(new(big.Int).Sub(new(big.Int).Sub(new(big.Int).Mul(r, r), h3), new(big.Int).Mul(big.NewInt(2), u1h2)))
	ny := mod(new(big.Int).Sub(new(big.Int).Mul(r, new(big.Int).Sub(u1h2, nx)), new(big.Int).Mul(s1, h3)))
	nz := mod(new(big.Int).Mul(h, new(big.Int).Mul(p.z, q.z)))
	return jac{nx, ny, nz}
}

func mul(k *big.Int, p jac) jac {
	r := inf()
	for i := k.BitLen() - 1; i >= 0; i-- {
		r = double(r)
		if k.Bit(i) == 1 {
			r = add(r, p)
		}
	}
	return r
}

func affine(p jac) (x, y *big.Int, ok bool) {
	if p.z.Sign() == 0 {
		return nil, nil, false
	}
	zi := new(big.Int).ModInverse(p.z, P)
	zi2 := mod(new(big.Int).Mul(zi, zi))
	x = mod(new(big.Int).Mul(p.x, zi2))
	y = mod(new(big.Int).Mul(p.y, new(big.Int).Mul(zi2, zi)))
	return x, y, true
}

func fromAffine(x, y *big.Int) jac { return jac{new(big.Int).Set(x), new(big.Int).Set(y), big.NewInt(1)} }

// OnCurve reports whether (x,y) satisfies y^2 = x^3 + 7 over F_P.
func OnCurve(x, y *big.Int) bool {
	if x.Sign() < 0 || y.Sign() < 0 || x.Cmp(P) >= 0 || y.Cmp(P) >= 0 {
		return false
	}
	l := mod(new(big.Int).Mul(y, y))
	r := mod(new(big.Int).Add(new(big.Int).Mul(new(big.Int).Mul(x, x), x), seven))
	return l.Cmp(r) == 0
}

// ValidScalar reports 1 <= d <= n-1.
func ValidScalar(d *big.Int) bool { return d.Sign() > 0 && d.Cmp(N) < 0 }

// PubKey returns d*G.
func PubKey(d *big.Int) (x, y *big.Int) {
	x, y, _ = affine(mul(d, fromAffine(Gx, Gy)))
	return
}

func pad32(i *big.Int) []byte {
	b := i.Bytes()
	if len(b) >= 32 {
		return b[len(b)-32:]
	}
	out := make([]byte, 32)
	copy(out[32-len(b):], b)
	return out
}

// Address is the last 20 bytes of keccak256(X || Y) of the uncompressed public key.
func Address(x, y *big.Int) [20]byte {
	var a [20]byte
	copy(a[:], Keccak256(pad32(x), pad32(y))[12:])
	return a
}

// AddressOfKey derives the Ethereum address of private scalar d.
func AddressOfKey(d *big.Int) [20]byte {
	x, y := PubKey(d)
	return Address(x, y)
}

func hashToInt(hash []byte) *big.Int {
	e := new(big.Int).SetBytes(hash)
	if len(hash) > 32 {
		e.Rsh(e, uint(len(hash)-32)*8)
	}
	return e
}

// Verify checks an ECDSA signature (r,s) over the 32-byte digest for public key (x,y).
func Verify(hash []byte, r, s, x, y *big.Int) bool {
	if !ValidScalar(r) || !ValidScalar(s) || !OnCurve(x, y) {
		return false
	}
	e := hashToInt(hash)
	w := new(big.Int).ModInverse(s, N)
	u1 := new(big.Int).Mod(new(big.Int).Mul(e, w), N)
	u2 := new(big.Int).Mod(new(big.Int).Mul(r, w), N)
	px, _, ok := affine(add(mul(u1, fromAffine(Gx, Gy)), mul(u2, fromAffine(x, y))))
	if !ok {
		return false
	}
	return new(big.Int).Mod(px, N).Cmp(r) == 0
}

// Recover returns the public key that produced (r,s) over hash, given the parity
// (0/1) of the y coordinate of the nonce point. Only the x = r candidate is
// considered (x = r + n has probability ~2^-128 and is never produced by signers).
func Recover(hash []byte, r, s *big.Int, parity uint) (x, y *big.Int, ok bool) {
	if !ValidScalar(r) || !ValidScalar(s) || parity > 1 {
		return nil, nil, false
	}
	if r.Cmp(P) >= 0 {
		return nil, nil, false
	}
	// y^2 = x^3 + 7 ; P % 4 == 3 so sqrt = a^((P+1)/4)
	a := mod(new(big.Int).Add(new(big.Int).Mul(new(big.Int).Mul(r, r), r), seven))
	ry := new(big.Int).Exp(a, new(big.Int).Rsh(new(big.Int).Add(P, big.NewInt(1)), 2), P)
	if mod(new(big.Int).Mul(ry, ry)).Cmp(a) != 0 {
		return nil, nil, false
	}
	if ry.Bit(0) != parity {
		ry.Sub(P, ry)
	}
	e := hashToInt(hash)
	ri := new(big.Int).ModInverse(r, N)
	// Q = r^-1 (s*R - e*G)
	sR := mul(s, fromAffine(r, ry))
	negE := new(big.Int).Mod(new(big.Int).Neg(e), N)
	eG := mul(negE, fromAffine(Gx, Gy))
	q := mul(ri, add(sR, eG))
	x, y, ok = affine(q)
	return
}

// RecoverAddress is Recover followed by Address.
func RecoverAddress(hash []byte, r, s *big.Int, parity uint) (addr [20]byte, ok bool) {
	x, y, ok := Recover(hash, r, s, parity)
	if !ok {
		return addr, false
	}
	return Address(x, y), true
}

// Sign produces a low-S ECDSA signature with the caller-supplied nonce k
// (1 <= k < n).  It returns ok=false if k yields r == 0 or s == 0.
func Sign(d *big.Int, hash []byte, k *big.Int) (r, s *big.Int, parity uint, ok bool) {
	if !ValidScalar(k) || !ValidScalar(d) {
		return nil, nil, 0, false
	}
	kx, ky, _ := affine(mul(k, fromAffine(Gx, Gy)))
	r = new(big.Int).Mod(kx, N)
	if r.Sign() == 0 || kx.Cmp(N) >= 0 {
		return nil, nil, 0, false
	}
	e := hashToInt(hash)
	ki := new(big.Int).ModInverse(k, N)
	s = new(big.Int).Mod(new(big.Int).Mul(ki, new(big.Int).Add(e, new(big.Int).Mul(r, d))), N)
	if s.Sign() == 0 {
		return nil, nil, 0, false
	}
	parity = ky.Bit(0)
	if s.Cmp(HalfN) > 0 {
		s.Sub(N, s)
		parity ^= 1
	}
	return r, s, parity, true
}

// LowS reports s <= n/2.
func LowS(s *big.Int) bool { return s.Cmp(HalfN) <= 0 }
