package eip712ref

import (
	"encoding/hex"
	"encoding/json"
	"fmt"
	"math/big"
	"sort"
	"strings"
	"unicode/utf8"
)

// Status is the reference's opinion of a JSON document offered as typed data.
type Status int

const (
	// OK: the document is well-formed typed data; Result holds its hashes.
	OK Status = iota
	// Invalid: the document has no EIP-712 digest (a value does not have the
	// shape or range its declared type demands, a type is undefined, …).
	Invalid
	// Unspecified: the document uses something the specification does not pin
	// down or where the library is deliberately lenient (see the notes in
	// classify below); nothing but totality may be demanded of it.
	Unspecified
)

func (s Status) String() string {
	return [...]string{"ok", "invalid", "unspecified"}[s]
}

// Verdict is the result of reading a JSON document.
type Verdict struct {
	Status Status
	// MustReject is set for Invalid documents whose defect is the one class C14
	// names: an integer outside the range of its uint<M>/int<M> type must be
	// rejected rather than hashed. Shape mismatches (a non-object for a struct,
	// a non-array for an array, a wrong element count for a fixed dimension)
	// used to be in this set as well; C14 only demands "a digest or an error"
	// for them, so a lenient library is not a violation and they are plain
	// Invalid (either outcome, no panic).
	MustReject bool
	Notes      []string // every condition met, "invalid:<class>" / "unspecified:<class>"
	Reason     string   // first note with detail
	Result     *Result
	Doc        *Document
}

type reader struct {
	types       Types
	unspecified []string
	invalid     []string
	must        bool
	first       string
}

func (r *reader) unspec(class, format string, a ...interface{}) {
	r.unspecified = append(r.unspecified, class)
	if r.first == "" {
		r.first = "unspecified:" + class + ": " + fmt.Sprintf(format, a...)
	}
}

func (r *reader) inval(class string, must bool, format string, a ...interface{}) {
	r.invalid = append(r.invalid, class)
	if must {
		r.must = true
	}
	if r.first == "" {
		r.first = "invalid:" + class + ": " + fmt.Sprintf(format, a...)
	}
}

// FromJSON reads a JSON text.
func FromJSON(text []byte) Verdict {
	if !json.Valid(text) || !utf8.Valid(text) {
		return Verdict{Status: Invalid, Notes: []string{"invalid:json"}, Reason: "invalid:json: not a valid UTF-8 JSON text"}
	}
	root, err := ParseJSON(text)
	if err != nil {
		return Verdict{Status: Invalid, Notes: []string{"invalid:json"}, Reason: "invalid:json: " + err.Error()}
	}
	return FromTree(root)
}

var topKeys = []string{"types", "primaryType", "domain", "message"}

// foldedVariant reports a key that is not exactly one of want but that a
// case-insensitive matcher (encoding/json) would take for one of them.
func foldedVariant(k string, want []string) bool {
	for _, w := range want {
		if k != w && strings.EqualFold(k, w) {
			return true
		}
	}
	return false
}

// FromTree reads a parsed document.
func FromTree(root *JNode) Verdict {
	r := &reader{}
	doc := r.readDocument(root)
	v := Verdict{Doc: doc}
	for _, c := range r.unspecified {
		v.Notes = append(v.Notes, "unspecified:"+c)
	}
	for _, c := range r.invalid {
		v.Notes = append(v.Notes, "invalid:"+c)
	}
	v.Reason = r.first
	switch {
	case len(r.unspecified) > 0:
		v.Status = Unspecified
	case len(r.invalid) > 0:
		v.Status = Invalid
		v.MustReject = r.must
	default:
		res, err := Digest(doc)
		if err != nil {
			// the reader accepted something the core rejects: report as unspecified
			// so that no verdict is built on an inconsistent reference
			v.Status = Unspecified
			v.Notes = append(v.Notes, "unspecified:reference-inconsistent")
			v.Reason = "reference reader/core disagree: " + err.Error()
			return v
		}
		v.Status = OK
		v.Result = res
	}
	return v
}

func (r *reader) readDocument(root *JNode) *Document {
	doc := &Document{Types: Types{}}
	if root.HasDuplicateKeys() {
		r.unspec("duplicate-keys", "an object repeats a key")
	}
	if root.Kind != 'o' {
		r.inval("top-level-kind", false, "document is not an object")
		return doc
	}
	for _, k := range root.Keys {
		if foldedVariant(k, topKeys) {
			r.unspec("key-case", "key %q differs from the documented spelling only by case", k)
		}
	}
	// ---- types
	tn := root.Get("types")
	switch {
	case tn == nil || tn.Kind == 'n':
		r.unspec("types-absent", "no types object")
	case tn.Kind != 'o':
		r.inval("types-kind", false, "types is not an object")
	default:
		for i, name := range tn.Keys {
			ms, ok := r.readTypeDef(name, tn.Vals[i])
			if ok {
				doc.Types[name] = ms
			}
		}
	}
	r.types = withDomain(doc.Types)
	// ---- primaryType
	pn := root.Get("primaryType")
	switch {
	case pn == nil || pn.Kind == 'n':
		r.inval("primary-missing", false, "primaryType missing")
	case pn.Kind != 's':
		r.inval("primary-kind", false, "primaryType is not a string")
	case pn.Str == "":
		r.inval("primary-missing", false, "primaryType empty")
	default:
		doc.PrimaryType = pn.Str
		if _, def := r.types[pn.Str]; !def {
			r.inval("primary-undefined", false, "primaryType %q is not defined", pn.Str)
		}
	}
	// the struct types that take part in the digest must be cleanly declared
	roots := []string{DomainType}
	if _, def := r.types[doc.PrimaryType]; def {
		roots = append(roots, doc.PrimaryType)
	}
	r.checkReachable(roots)
	// ---- domain
	dn := root.Get("domain")
	switch {
	case dn == nil || dn.Kind == 'n':
		doc.Domain = map[string]Value{}
		if len(r.types[DomainType]) > 0 {
			r.inval("domain-missing", false, "domain object missing although EIP712Domain has members")
		}
	case dn.Kind != 'o':
		r.inval("domain-kind", false, "domain is not an object")
	default:
		if v := r.readStruct(DomainType, dn, "domain", 0); v != nil {
			doc.Domain = v
		}
	}
	// ---- message
	if doc.PrimaryType != DomainType {
		mn := root.Get("message")
		switch {
		case mn == nil || mn.Kind == 'n':
			r.unspec("message-absent", "absent primary message")
		case mn.Kind != 'o':
			r.inval("message-kind", false, "message is not an object")
		default:
			if _, def := r.types[doc.PrimaryType]; def {
				doc.Message = r.readStruct(doc.PrimaryType, mn, "", 0)
			}
		}
	} else if mn := root.Get("message"); mn != nil && mn.Kind != 'n' && mn.Kind != 'o' {
		r.inval("message-kind", false, "message is not an object")
	}
	return doc
}

var memberKeys = []string{"name", "type"}

func (r *reader) readTypeDef(name string, n *JNode) ([]Member, bool) {
	if n.Kind == 'n' {
		r.unspec("typedef-null", "type %q is null", name)
		return nil, false
	}
	if n.Kind != 'a' {
		r.inval("typedef-kind", false, "type %q is not an array", name)
		return nil, false
	}
	ms := make([]Member, 0, len(n.Vals))
	ok := true
	for i, mn := range n.Vals {
		if mn.Kind != 'o' {
			r.inval("member-kind", false, "member %d of %q is not an object", i, name)
			ok = false
			continue
		}
		for _, k := range mn.Keys {
			if foldedVariant(k, memberKeys) {
				r.unspec("key-case", "member key %q", k)
			}
		}
		nn, tn := mn.Get("name"), mn.Get("type")
		if nn == nil || tn == nil || nn.Kind != 's' || tn.Kind != 's' {
			r.inval("member-shape", false, "member %d of %q lacks a string name/type", i, name)
			ok = false
			continue
		}
		ms = append(ms, Member{Name: nn.Str, Type: tn.Str})
	}
	if !ok {
		// keep the name defined so that later lookups do not misreport it as undefined
		return nil, false
	}
	return ms, true
}

// checkReachable demands clean declarations of every struct type that takes
// part in the digest (the closure of the roots).  Anything odd there is a
// region where encodeType has no agreed meaning.
func (r *reader) checkReachable(roots []string) {
	seen := map[string]bool{}
	var walk func(name string)
	walk = func(name string) {
		if seen[name] {
			return
		}
		seen[name] = true
		if name != DomainType {
			if !IsIdentifier(name) {
				r.unspec("struct-name", "struct name %q is not an identifier", name)
			}
			if LooksAtomic(name) {
				r.unspec("struct-shadows-atomic", "struct name %q looks like an elementary type", name)
			}
		}
		names := map[string]bool{}
		for _, m := range r.types[name] {
			if !IsIdentifier(m.Name) {
				r.unspec("member-name", "member name %q of %s is not an identifier", m.Name, name)
			}
			if names[m.Name] {
				r.unspec("member-duplicate", "member %q of %s declared twice", m.Name, name)
			}
			names[m.Name] = true
			base, _, ok := SplitType(m.Type)
			if !ok {
				r.unspec("member-type-syntax", "member type %q of %s.%s", m.Type, name, m.Name)
				if i := strings.IndexByte(m.Type, '['); i >= 0 {
					base = m.Type[:i]
				} else {
					base = m.Type
				}
			}
			if _, def := r.types[base]; def {
				walk(base)
				continue
			}
			if k, _ := Atomic(base); k == NotAtomic && ok {
				if LooksAtomic(base) {
					r.unspec("abi-only-type", "type %q of %s.%s is not an EIP-712 type but an ABI parser may know it", base, name, m.Name)
				} else {
					r.inval("undefined-type", false, "type %q of %s.%s is neither atomic nor defined", base, name, m.Name)
				}
			}
		}
	}
	sort.Strings(roots)
	for _, n := range roots {
		walk(n)
	}
}

const maxValueDepth = 2000

func (r *reader) readStruct(name string, n *JNode, path string, depth int) map[string]Value {
	out := map[string]Value{}
	for _, m := range r.types[name] {
		p := m.Name
		if path != "" {
			p = path + "." + m.Name
		}
		out[m.Name] = r.readField(m.Type, n.Get(m.Name), p, depth+1)
	}
	return out
}

func (r *reader) readField(t string, n *JNode, path string, depth int) Value {
	base, dims, ok := SplitType(t)
	if !ok {
		return nil // already noted by checkReachable
	}
	return r.readDims(base, dims, n, path, depth)
}

func kindName(n *JNode) string {
	if n == nil {
		return "missing"
	}
	switch n.Kind {
	case 'n':
		return "null"
	case 'b':
		return "bool"
	case '#':
		return "number"
	case 's':
		return "string"
	case 'o':
		return "object"
	case 'a':
		return "array"
	}
	return "?"
}

func (r *reader) readDims(base string, dims []int, n *JNode, path string, depth int) Value {
	if depth > maxValueDepth {
		r.unspec("too-deep", "%s: value nesting beyond %d", path, maxValueDepth)
		return nil
	}
	if len(dims) > 0 {
		outer := dims[len(dims)-1]
		switch {
		case n == nil || n.Kind == 'n':
			r.inval("array-absent", false, "%s: no value for an array type", path)
			return nil
		case n.Kind != 'a':
			r.inval("array-not-array", false, "%s: %s given for an array type", path, kindName(n))
			return nil
		}
		if outer >= 0 && len(n.Vals) != outer {
			r.inval("fixed-length", false, "%s: %d elements for a fixed array of %d", path, len(n.Vals), outer)
		}
		arr := make([]Value, len(n.Vals))
		for i, e := range n.Vals {
			arr[i] = r.readDims(base, dims[:len(dims)-1], e, fmt.Sprintf("%s[%d]", path, i), depth+1)
		}
		return arr
	}
	if _, isStruct := r.types[base]; isStruct {
		switch {
		case n == nil || n.Kind == 'n':
			return nil // absent reference
		case n.Kind != 'o':
			r.inval("struct-not-object", false, "%s: %s given for struct type %s", path, kindName(n), base)
			return nil
		}
		return r.readStruct(base, n, path, depth)
	}
	kind, size := Atomic(base)
	if kind == NotAtomic {
		return nil // noted by checkReachable
	}
	if n == nil || n.Kind == 'n' {
		r.inval("atomic-absent", false, "%s: no value for %s", path, base)
		return nil
	}
	return r.readAtomic(kind, size, n, path)
}

// maxIntegerText bounds the integer spellings the reference is willing to read.
const maxIntegerText = 70000

func isPlainDecimal(s string) bool {
	if strings.HasPrefix(s, "-") {
		s = s[1:]
	}
	if s == "" || (len(s) > 1 && s[0] == '0') {
		return false
	}
	for _, c := range s {
		if c < '0' || c > '9' {
			return false
		}
	}
	return true
}

func isHexDigits(s string) bool {
	for _, c := range s {
		if !(c >= '0' && c <= '9' || c >= 'a' && c <= 'f' || c >= 'A' && c <= 'F') {
			return false
		}
	}
	return true
}

// IntegerOf gives the integer denoted by the spellings the reference accepts:
// a JSON number that is a plain integer literal, a JSON string holding a
// canonical decimal (optional '-', no leading zeros) or "0x" + hex digits.
// ok is false for everything else (which is then unspecified or invalid).
func IntegerOf(n *JNode) (v *big.Int, ok bool) {
	var s string
	switch n.Kind {
	case '#':
		s = n.Num
		if !isPlainDecimal(s) {
			return nil, false
		}
	case 's':
		s = n.Str
		if len(s) > maxIntegerText {
			return nil, false
		}
		if strings.HasPrefix(s, "0x") && len(s) > 2 && isHexDigits(s[2:]) {
			v, ok = new(big.Int).SetString(s[2:], 16)
			return v, ok
		}
		if !isPlainDecimal(s) {
			return nil, false
		}
	default:
		return nil, false
	}
	if len(s) > maxIntegerText {
		return nil, false
	}
	v, ok = new(big.Int).SetString(s, 10)
	return v, ok
}

func (r *reader) readAtomic(kind AtomicKind, size int, n *JNode, path string) Value {
	switch kind {
	case KUint, KInt:
		v, ok := IntegerOf(n)
		if !ok {
			switch n.Kind {
			case '#':
				r.unspec("number-with-fraction-or-exponent", "%s: JSON number %s", path, clip(n.Num))
			case 's':
				r.unspec("integer-string-spelling", "%s: string %q for an integer", path, clip(n.Str))
			default:
				r.inval("atomic-kind", false, "%s: %s given for an integer", path, kindName(n))
			}
			return nil
		}
		if !InRange(v, kind == KInt, size) {
			r.inval("int-range", true, "%s: integer outside the range of its %d-bit type", path, size)
			return nil
		}
		return v
	case KBool:
		if n.Kind == 'b' {
			return n.Bool
		}
		if n.Kind == 's' {
			r.unspec("bool-as-string", "%s: string for bool", path)
		} else {
			r.inval("atomic-kind", false, "%s: %s given for bool", path, kindName(n))
		}
		return nil
	case KString:
		if n.Kind == 's' {
			return n.Str
		}
		r.inval("atomic-kind", false, "%s: %s given for string", path, kindName(n))
		return nil
	case KAddress, KBytesN, KBytes:
		if n.Kind != 's' {
			r.inval("atomic-kind", false, "%s: %s given for a byte type", path, kindName(n))
			return nil
		}
		s := n.Str
		if !strings.HasPrefix(s, "0x") || !isHexDigits(s[2:]) || len(s)%2 != 0 {
			r.unspec("hex-spelling", "%s: %q is not 0x-prefixed even-length hex", path, clip(s))
			return nil
		}
		b, _ := hex.DecodeString(s[2:])
		want := -1
		if kind == KAddress {
			want = 20
		} else if kind == KBytesN {
			want = size
		}
		if want >= 0 && len(b) != want {
			r.unspec("byte-length", "%s: %d bytes for a %d-byte type", path, len(b), want)
			return nil
		}
		return b
	}
	return nil
}

func clip(s string) string {
	if len(s) > 60 {
		return s[:60] + "…"
	}
	return s
}
