package eip712ref

import (
	"bytes"
	"encoding/json"
	"fmt"
	"io"
	"strings"
)

// JNode is an order-preserving JSON tree.  The harness needs one because the
// properties quantify over JSON *texts* (key order, number spelling), which
// map[string]interface{} forgets.
type JNode struct {
	Kind byte     // 'n' null, 'b' bool, '#' number, 's' string, 'o' object, 'a' array
	Bool bool     // 'b'
	Num  string   // '#': the literal as written
	Str  string   // 's': the decoded string
	Keys []string // 'o': keys in document order (parallel to Vals)
	Vals []*JNode // 'o' and 'a'
}

func JNull() *JNode           { return &JNode{Kind: 'n'} }
func JBool(b bool) *JNode     { return &JNode{Kind: 'b', Bool: b} }
func JNum(lit string) *JNode  { return &JNode{Kind: '#', Num: lit} }
func JStr(s string) *JNode    { return &JNode{Kind: 's', Str: s} }
func JArr(v ...*JNode) *JNode { return &JNode{Kind: 'a', Vals: v} }
func JObj() *JNode            { return &JNode{Kind: 'o'} }

// Set appends (or replaces) a key of an object node and returns the node.
func (n *JNode) Set(key string, v *JNode) *JNode {
	for i, k := range n.Keys {
		if k == key {
			n.Vals[i] = v
			return n
		}
	}
	n.Keys = append(n.Keys, key)
	n.Vals = append(n.Vals, v)
	return n
}

// Get returns the value of the LAST occurrence of key (what encoding/json keeps).
func (n *JNode) Get(key string) *JNode {
	if n == nil || n.Kind != 'o' {
		return nil
	}
	for i := len(n.Keys) - 1; i >= 0; i-- {
		if n.Keys[i] == key {
			return n.Vals[i]
		}
	}
	return nil
}

// Del removes every occurrence of key.
func (n *JNode) Del(key string) {
	var ks []string
	var vs []*JNode
	for i, k := range n.Keys {
		if k != key {
			ks = append(ks, k)
			vs = append(vs, n.Vals[i])
		}
	}
	n.Keys, n.Vals = ks, vs
}

// Clone is a deep copy.
func (n *JNode) Clone() *JNode {
	if n == nil {
		return nil
	}
	c := *n
	c.Keys = append([]string(nil), n.Keys...)
	c.Vals = make([]*JNode, len(n.Vals))
	for i, v := range n.Vals {
		c.Vals[i] = v.Clone()
	}
	return &c
}

// HasDuplicateKeys reports whether any object in the tree repeats a key.
func (n *JNode) HasDuplicateKeys() bool {
	if n == nil {
		return false
	}
	if n.Kind == 'o' {
		seen := map[string]bool{}
		for _, k := range n.Keys {
			if seen[k] {
				return true
			}
			seen[k] = true
		}
	}
	for _, v := range n.Vals {
		if v.HasDuplicateKeys() {
			return true
		}
	}
	return false
}

// Text renders the tree as compact JSON in the tree's own key order.
func (n *JNode) Text() string {
	var sb strings.Builder
	n.write(&sb)
	return sb.String()
}

func (n *JNode) write(sb *strings.Builder) {
	switch n.Kind {
	case 'n':
		sb.WriteString("null")
	case 'b':
		if n.Bool {
			sb.WriteString("true")
		} else {
			sb.WriteString("false")
		}
	case '#':
		sb.WriteString(n.Num)
	case 's':
		writeJSONString(sb, n.Str)
	case 'a':
		sb.WriteByte('[')
		for i, v := range n.Vals {
			if i > 0 {
				sb.WriteByte(',')
			}
			v.write(sb)
		}
		sb.WriteByte(']')
	case 'o':
		sb.WriteByte('{')
		for i, v := range n.Vals {
			if i > 0 {
				sb.WriteByte(',')
			}
			writeJSONString(sb, n.Keys[i])
			sb.WriteByte(':')
			v.write(sb)
		}
		sb.WriteByte('}')
	default:
		sb.WriteString("null")
	}
}

func writeJSONString(sb *strings.Builder, s string) {
	var buf bytes.Buffer
	enc := json.NewEncoder(&buf)
	enc.SetEscapeHTML(false)
	_ = enc.Encode(s)
	sb.WriteString(strings.TrimRight(buf.String(), "\n"))
}

// ParseJSON reads exactly one JSON value (RFC 8259 as implemented by
// encoding/json's tokenizer, numbers kept as written).
func ParseJSON(text []byte) (*JNode, error) {
	dec := json.NewDecoder(bytes.NewReader(text))
	dec.UseNumber()
	n, err := parseValue(dec, 0)
	if err != nil {
		return nil, err
	}
	if _, err := dec.Token(); err != io.EOF {
		return nil, fmt.Errorf("trailing data after the JSON value")
	}
	return n, nil
}

const maxParseDepth = 10000

func parseValue(dec *json.Decoder, depth int) (*JNode, error) {
	tok, err := dec.Token()
	if err != nil {
		if err == io.EOF {
			return nil, io.ErrUnexpectedEOF
		}
		return nil, err
	}
	return parseFrom(dec, tok, depth)
}

func parseFrom(dec *json.Decoder, tok json.Token, depth int) (*JNode, error) {
	if depth > maxParseDepth {
		return nil, fmt.Errorf("nesting too deep")
	}
	switch t := tok.(type) {
	case nil:
		return JNull(), nil
	case bool:
		return JBool(t), nil
	case json.Number:
		return JNum(t.String()), nil
	case string:
		return JStr(t), nil
	case json.Delim:
		switch t {
		case '[':
			n := &JNode{Kind: 'a'}
			for dec.More() {
				v, err := parseValue(dec, depth+1)
				if err != nil {
					return nil, err
				}
				n.Vals = append(n.Vals, v)
			}
			if _, err := dec.Token(); err != nil {
				return nil, err
			}
			return n, nil
		case '{':
			n := &JNode{Kind: 'o'}
			for dec.More() {
				kt, err := dec.Token()
				if err != nil {
					return nil, err
				}
				k, ok := kt.(string)
				if !ok {
					return nil, fmt.Errorf("object key is not a string")
				}
				v, err := parseValue(dec, depth+1)
				if err != nil {
					return nil, err
				}
				n.Keys = append(n.Keys, k)
				n.Vals = append(n.Vals, v)
			}
			if _, err := dec.Token(); err != nil {
				return nil, err
			}
			return n, nil
		}
	}
	return nil, fmt.Errorf("unexpected token %v", tok)
}
