package eip712ref

import (
	"encoding/hex"
	"math/big"
	"strings"
	"testing"

	"verifharness/ref/secp"
)

func hx(b []byte) string { return "0x" + hex.EncodeToString(b) }

// The example of the EIP itself (Example.js / Example.sol in the EIP assets).
const mailDoc = `{
  "types": {
    "EIP712Domain": [
      {"name": "name", "type": "string"},
      {"name": "version", "type": "string"},
      {"name": "chainId", "type": "uint256"},
      {"name": "verifyingContract", "type": "address"}
    ],
    "Person": [{"name": "name", "type": "string"}, {"name": "wallet", "type": "address"}],
    "Mail": [{"name": "from", "type": "Person"}, {"name": "to", "type": "Person"}, {"name": "contents", "type": "string"}]
  },
  "primaryType": "Mail",
  "domain": {"name": "Ether Mail", "version": "1", "chainId": 1, "verifyingContract": "0xCcCCccccCCCCcCCCCCCcCcCccCcCCCcCcccccccC"},
  "message": {
    "from": {"name": "Cow", "wallet": "0xCD2a3d9F938E13CD947Ec05AbC7FE734Df8DD826"},
    "to": {"name": "Bob", "wallet": "0xbBbBBBBbbBBBbbbBbbBbbbbBBbBbbbbBbBbbBBbB"},
    "contents": "Hello, Bob!"
  }
}`

func TestMailExample(t *testing.T) {
	v := FromJSON([]byte(mailDoc))
	if v.Status != OK {
		t.Fatalf("status %v: %s", v.Status, v.Reason)
	}
	et, _ := EncodeType("Mail", v.Doc.Types)
	if et != "Mail(Person from,Person to,string contents)Person(string name,address wallet)" {
		t.Errorf("encodeType = %s", et)
	}
	th, _ := TypeHash("Mail", v.Doc.Types)
	if hx(th) != "0xa0cedeb2dc280ba39b857546d74f5549c3a1d7bdc2dd96bf881f76108e23dac2" {
		t.Errorf("typeHash = %s", hx(th))
	}
	if hx(v.Result.DomainSeparator) != "0xf2cee375fa42b42143804025fc449deafd50cc031ca257e0b194a650a912090f" {
		t.Errorf("domainSeparator = %s", hx(v.Result.DomainSeparator))
	}
	if hx(v.Result.MessageHash) != "0xc52c0ee5d84264471806290a3f2c4cecfc5490626bf912d01f240d7a274b371e" {
		t.Errorf("hashStruct(message) = %s", hx(v.Result.MessageHash))
	}
	if hx(v.Result.Digest) != "0xbe609aee343fb3c4b28e1df9e632fca64fcfaede20f02e86244efddf30957bd2" {
		t.Errorf("digest = %s", hx(v.Result.Digest))
	}
	// the EIP's signature by the key keccak256("cow") recovers to the "from" wallet over this digest
	r, _ := new(big.Int).SetString("4355c47d63924e8a72e509b65029052eb6c299d53a04e167c5775fd466751c9d", 16)
	s, _ := new(big.Int).SetString("07299936d304c153f6443dfa05f40ff007d72911b6f72307f996231605b91562", 16)
	addr, ok := secp.RecoverAddress(v.Result.Digest, r, s, 28-27)
	if !ok || !strings.EqualFold(hex.EncodeToString(addr[:]), "CD2a3d9F938E13CD947Ec05AbC7FE734Df8DD826") {
		t.Errorf("EIP example signature recovers to %x (ok=%v)", addr, ok)
	}
	d := new(big.Int).SetBytes(secp.Keccak256([]byte("cow")))
	a := secp.AddressOfKey(d)
	if !strings.EqualFold(hex.EncodeToString(a[:]), "CD2a3d9F938E13CD947Ec05AbC7FE734Df8DD826") {
		t.Errorf("address of keccak(cow) = %x", a)
	}
}

// The v4 example with arrays used by MetaMask's eth-sig-util test-suite.
const mailV4Doc = `{
  "types": {
    "EIP712Domain": [
      {"name": "name", "type": "string"},
      {"name": "version", "type": "string"},
      {"name": "chainId", "type": "uint256"},
      {"name": "verifyingContract", "type": "address"}
    ],
    "Person": [{"name": "name", "type": "string"}, {"name": "wallets", "type": "address[]"}],
    "Mail": [{"name": "from", "type": "Person"}, {"name": "to", "type": "Person[]"}, {"name": "contents", "type": "string"}],
    "Group": [{"name": "name", "type": "string"}, {"name": "members", "type": "Person[]"}]
  },
  "domain": {"name": "Ether Mail", "version": "1", "chainId": 1, "verifyingContract": "0xCcCCccccCCCCcCCCCCCcCcCccCcCCCcCcccccccC"},
  "primaryType": "Mail",
  "message": {
    "from": {"name": "Cow", "wallets": ["0xCD2a3d9F938E13CD947Ec05AbC7FE734Df8DD826", "0xDeaDbeefdEAdbeefdEadbEEFdeadbeEFdEaDbeeF"]},
    "to": [{"name": "Bob", "wallets": ["0xbBbBBBBbbBBBbbbBbbBbbbbBBbBbbbbBbBbbBBbB", "0xB0BdaBea57B0BDABeA57b0bdABEA57b0BDabEa57", "0xB0B0b0b0b0b0B000000000000000000000000000"]}],
    "contents": "Hello, Bob!"
  }
}`

func TestMailV4Arrays(t *testing.T) {
	v := FromJSON([]byte(mailV4Doc))
	if v.Status != OK {
		t.Fatalf("status %v: %s", v.Status, v.Reason)
	}
	et, _ := EncodeType("Mail", v.Doc.Types)
	if et != "Mail(Person from,Person[] to,string contents)Person(string name,address[] wallets)" {
		t.Errorf("encodeType = %s", et)
	}
	th, _ := TypeHash("Person", v.Doc.Types)
	if hx(th) != "0xfabfe1ed996349fc6027709802be19d047da1aa5d6894ff5f6486d92db2e6860" {
		t.Errorf("typeHash(Person) = %s", hx(th))
	}
	th, _ = TypeHash("Mail", v.Doc.Types)
	if hx(th) != "0x4bd8a9a2b93427bb184aca81e24beb30ffa3c747e2a33d4225ec08bf12e2e753" {
		t.Errorf("typeHash(Mail) = %s", hx(th))
	}
	from, _ := HashStruct("Person", v.Doc.Message["from"], v.Doc.Types, "from")
	if hx(from) != "0x9b4846dd48b866f0ac54d61b9b21a9e746f921cefa4ee94c4c0a1c49c774f67f" {
		t.Errorf("hashStruct(from) = %s", hx(from))
	}
	to0, _ := HashStruct("Person", v.Doc.Message["to"].([]Value)[0], v.Doc.Types, "to[0]")
	if hx(to0) != "0xefa62530c7ae3a290f8a13a5fc20450bdb3a6af19d9d9d2542b5a94e631a9168" {
		t.Errorf("hashStruct(to[0]) = %s", hx(to0))
	}
	if hx(v.Result.MessageHash) != "0xeb4221181ff3f1a83ea7313993ca9218496e424604ba9492bb4052c03d5c3df8" {
		t.Errorf("hashStruct(message) = %s", hx(v.Result.MessageHash))
	}
	if hx(v.Result.Digest) != "0xa85c2e2b118698e88db68a8105b794a8cc7cec074e89ef991cb4f5f533819cc2" {
		t.Errorf("digest = %s", hx(v.Result.Digest))
	}
	// eth-sig-util's signature for this document with the key keccak256("cow")
	sig, _ := hex.DecodeString("65cbd956f2fae28a601bebc9b906cea0191744bd4c4247bcd27cd08f8eb6b71c78efdf7a31dc9abee78f492292721f362d296cf86b4538e07b51303b67f749061b")
	r := new(big.Int).SetBytes(sig[:32])
	s := new(big.Int).SetBytes(sig[32:64])
	addr, ok := secp.RecoverAddress(v.Result.Digest, r, s, uint(sig[64]-27))
	if !ok || !strings.EqualFold(hex.EncodeToString(addr[:]), "CD2a3d9F938E13CD947Ec05AbC7FE734Df8DD826") {
		t.Errorf("eth-sig-util signature recovers to %x (ok=%v)", addr, ok)
	}
}

func TestVerdicts(t *testing.T) {
	cases := []struct {
		name, doc string
		status    Status
		must      bool
		note      string
	}{
		{"domain-only", `{"types":{},"primaryType":"EIP712Domain"}`, OK, false, ""},
		{"absent struct refs", `{"types":{"A":[{"name":"a","type":"A"},{"name":"b","type":"A[]"},{"name":"c","type":"A[2]"}]},"primaryType":"A","message":{"a":null,"b":[],"c":[null,{"b":[null],"c":[null,null]}]}}`, OK, false, ""},
		{"struct not object", `{"types":{"A":[{"name":"a","type":"A"}]},"primaryType":"A","message":{"a":"x"}}`, Invalid, false, "invalid:struct-not-object"},
		{"array not array", `{"types":{"A":[{"name":"a","type":"uint8[]"}]},"primaryType":"A","message":{"a":{}}}`, Invalid, false, "invalid:array-not-array"},
		{"fixed length", `{"types":{"A":[{"name":"a","type":"uint8[2]"}]},"primaryType":"A","message":{"a":[1]}}`, Invalid, false, "invalid:fixed-length"},
		{"range", `{"types":{"A":[{"name":"a","type":"uint8"}]},"primaryType":"A","message":{"a":256}}`, Invalid, true, "invalid:int-range"},
		{"range neg", `{"types":{"A":[{"name":"a","type":"int8"}]},"primaryType":"A","message":{"a":"-129"}}`, Invalid, true, "invalid:int-range"},
		{"in range", `{"types":{"A":[{"name":"a","type":"int8"}]},"primaryType":"A","message":{"a":"-128"}}`, OK, false, ""},
		{"exponent", `{"types":{"A":[{"name":"a","type":"uint8"}]},"primaryType":"A","message":{"a":1e1}}`, Unspecified, false, "unspecified:number-with-fraction-or-exponent"},
		{"octal-looking", `{"types":{"A":[{"name":"a","type":"uint8"}]},"primaryType":"A","message":{"a":"010"}}`, Unspecified, false, "unspecified:integer-string-spelling"},
		{"null member", `{"types":{"EIP712Domain":[null]},"primaryType":"EIP712Domain"}`, Invalid, false, "invalid:member-kind"},
		{"dup keys", `{"types":{},"types":{},"primaryType":"EIP712Domain"}`, Unspecified, false, "unspecified:duplicate-keys"},
		{"key case", `{"Types":{},"primaryType":"EIP712Domain"}`, Unspecified, false, "unspecified:key-case"},
		{"undefined type", `{"types":{"A":[{"name":"a","type":"B"}]},"primaryType":"A","message":{"a":1}}`, Invalid, false, "invalid:undefined-type"},
		{"bad suffix", `{"types":{"A":[{"name":"a","type":"uint8[x]"}]},"primaryType":"A","message":{"a":[]}}`, Unspecified, false, "unspecified:member-type-syntax"},
		{"short address", `{"types":{"A":[{"name":"a","type":"address"}]},"primaryType":"A","message":{"a":"0x01"}}`, Unspecified, false, "unspecified:byte-length"},
		{"extra fields and unreferenced types", `{"types":{"A":[{"name":"a","type":"bool"}],"Z":[{"name":"q","type":"A[]"}]},"primaryType":"A","message":{"a":true,"zz":[1,{}]},"other":1}`, OK, false, ""},
		{"not json", `{"types":`, Invalid, false, "invalid:json"},
	}
	for _, c := range cases {
		v := FromJSON([]byte(c.doc))
		if v.Status != c.status || v.MustReject != c.must {
			t.Errorf("%s: status %v must %v (%s), want %v %v", c.name, v.Status, v.MustReject, v.Reason, c.status, c.must)
			continue
		}
		if c.note != "" {
			found := false
			for _, n := range v.Notes {
				found = found || n == c.note
			}
			if !found {
				t.Errorf("%s: notes %v lack %s", c.name, v.Notes, c.note)
			}
		}
	}
}

// Unreferenced types, extra fields and key order do not change the digest;
// bytes<M> is left-aligned; negative integers are two's complement.
func TestEncodingDetails(t *testing.T) {
	a := FromJSON([]byte(`{"types":{"A":[{"name":"b","type":"bytes3"},{"name":"i","type":"int16"},{"name":"s","type":"B"}],"B":[{"name":"x","type":"uint8"}]},"primaryType":"A","message":{"b":"0x010203","i":-2,"s":{"x":"0x7"}}}`))
	b := FromJSON([]byte(`{"message":{"zz":null,"s":{"x":7,"y":1},"i":"-2","b":"0x010203"},"primaryType":"A","types":{"Q":[],"B":[{"type":"uint8","name":"x"}],"A":[{"name":"b","type":"bytes3"},{"name":"i","type":"int16"},{"name":"s","type":"B"}]}}`))
	if a.Status != OK || b.Status != OK {
		t.Fatalf("%v %s / %v %s", a.Status, a.Reason, b.Status, b.Reason)
	}
	if hx(a.Result.Digest) != hx(b.Result.Digest) {
		t.Errorf("digests differ")
	}
	enc, err := EncodeData("A", a.Doc.Message, a.Doc.Types, "")
	if err != nil {
		t.Fatal(err)
	}
	th, _ := TypeHash("A", a.Doc.Types)
	bh, _ := HashStruct("B", map[string]Value{"x": big.NewInt(7)}, a.Doc.Types, "")
	want := hex.EncodeToString(th) +
		"0102030000000000000000000000000000000000000000000000000000000000" +
		"fffffffffffffffffffffffffffffffffffffffffffffffffffffffffffffffe" +
		hex.EncodeToString(bh)
	if hex.EncodeToString(enc) != want {
		t.Errorf("encodeData = %x\nwant %s", enc, want)
	}
	// round trip of the ordered JSON tree
	n, err := ParseJSON([]byte(mailDoc))
	if err != nil {
		t.Fatal(err)
	}
	n2, err := ParseJSON([]byte(n.Text()))
	if err != nil || n2.Text() != n.Text() {
		t.Errorf("JNode text round trip failed: %v", err)
	}
}
