// Package eip712ref is an independent reference for EIP-712 typed structured data
// hashing with the "v4" conventions of eth_signTypedData_v4 (MetaMask
// eth-sig-util): arrays are supported and hashed as keccak256 of the
// concatenated element encodings; an absent (null / missing) struct reference
// is encoded as 32 zero bytes; a document without an EIP712Domain type is
// treated as having the empty domain type `EIP712Domain()`.
//
// It is written from the EIP-712 text and shares no code with the library's
// pkg/eip712 or pkg/abi (atomic encodings are re-implemented here).  Keccak-256
// comes from ref/secp (x/crypto primitive).
//
// Two layers:
//
//   - the core works on typed values (Value) and a Types map;
//   - FromJSON (json.go) reads a JSON document strictly, guided by the declared
//     types, and gives a three-valued verdict: OK (a digest exists), Invalid
//     (the document has no digest: shape/range error) or Unspecified (a region
//     where the specification is silent or the library is deliberately lenient).
package eip712ref

import (
	"fmt"
	"math/big"
	"sort"
	"strconv"
	"strings"

	"verifharness/ref/secp"
)

// DomainType is the reserved struct name of the domain separator.
const DomainType = "EIP712Domain"

// Member is one member of a struct type.
type Member struct {
	Name string
	Type string
}

// Types maps struct names to their member lists.  A name that is present with
// zero members is an empty struct; a name that is absent is undefined.
type Types map[string][]Member

// Value is a typed-data value:
//
//	nil                 absent struct reference
//	map[string]Value    struct
//	[]Value             array
//	*big.Int            uint<M> / int<M>
//	bool                bool
//	[]byte              address (20 bytes), bytes<M> (M bytes), bytes
//	string              string
type Value interface{}

// AtomicKind classifies atomic type names.
type AtomicKind int

const (
	NotAtomic AtomicKind = iota
	KUint
	KInt
	KBool
	KAddress
	KBytesN
	KBytes
	KString
)

// Atomic recognises the atomic types of EIP-712: uint8..uint256 and int8..int256
// in steps of 8, bool, address, bytes1..bytes32, bytes, string.  size is the bit
// width for integers and the byte count for bytes<M>.
func Atomic(name string) (kind AtomicKind, size int) {
	switch name {
	case "bool":
		return KBool, 8
	case "address":
		return KAddress, 160
	case "bytes":
		return KBytes, 0
	case "string":
		return KString, 0
	}
	num := func(s string) (int, bool) {
		if s == "" || s[0] == '0' || len(s) > 3 {
			return 0, false
		}
		n := 0
		for _, c := range s {
			if c < '0' || c > '9' {
				return 0, false
			}
			n = n*10 + int(c-'0')
		}
		return n, true
	}
	switch {
	case strings.HasPrefix(name, "uint"):
		if n, ok := num(name[4:]); ok && n >= 8 && n <= 256 && n%8 == 0 {
			return KUint, n
		}
	case strings.HasPrefix(name, "int"):
		if n, ok := num(name[3:]); ok && n >= 8 && n <= 256 && n%8 == 0 {
			return KInt, n
		}
	case strings.HasPrefix(name, "bytes"):
		if n, ok := num(name[5:]); ok && n >= 1 && n <= 32 {
			return KBytesN, n
		}
	}
	return NotAtomic, 0
}

// LooksAtomic reports names that an ABI-oriented parser could take for an
// elementary type even though EIP-712 does not define them (aliases, other
// families).  Struct types with such names are a "not asserted" region.
func LooksAtomic(name string) bool {
	if k, _ := Atomic(name); k != NotAtomic {
		return true
	}
	switch name {
	case "uint", "int", "byte", "function", "tuple", "fixed", "ufixed":
		return true
	}
	for _, p := range []string{"uint", "int", "bytes", "ufixed", "fixed"} {
		if strings.HasPrefix(name, p) {
			rest := name[len(p):]
			ok := rest != ""
			for _, c := range rest {
				if !(c >= '0' && c <= '9') && c != 'x' {
					ok = false
				}
			}
			if ok {
				return true
			}
		}
	}
	return false
}

// IsIdentifier reports an ASCII identifier [A-Za-z_$][A-Za-z0-9_$]*.
func IsIdentifier(s string) bool {
	if s == "" {
		return false
	}
	for i, c := range s {
		switch {
		case c >= 'a' && c <= 'z', c >= 'A' && c <= 'Z', c == '_', c == '$':
		case c >= '0' && c <= '9':
			if i == 0 {
				return false
			}
		default:
			return false
		}
	}
	return true
}

// SplitType splits "Base[2][]" into base "Base" and dims [2, -1] (in written
// order, i.e. the LAST entry is the outermost array; -1 = dynamic).  ok is
// false unless the string is exactly an identifier followed by zero or more
// "[]" / "[n]" groups with n a canonical positive decimal.
func SplitType(t string) (base string, dims []int, ok bool) {
	i := strings.IndexByte(t, '[')
	if i < 0 {
		return t, nil, IsIdentifier(t)
	}
	base = t[:i]
	if !IsIdentifier(base) {
		return base, nil, false
	}
	rest := t[i:]
	for rest != "" {
		if rest[0] != '[' {
			return base, nil, false
		}
		j := strings.IndexByte(rest, ']')
		if j < 0 {
			return base, nil, false
		}
		d := rest[1:j]
		if d == "" {
			dims = append(dims, -1)
		} else {
			if d[0] == '0' || len(d) > 9 {
				return base, nil, false
			}
			n, err := strconv.Atoi(d)
			if err != nil || n <= 0 || strconv.Itoa(n) != d {
				return base, nil, false
			}
			dims = append(dims, n)
		}
		rest = rest[j+1:]
	}
	return base, dims, true
}

// Dependencies returns the struct types reachable from primary through member
// types (array suffixes stripped), excluding primary itself, sorted by name.
func Dependencies(primary string, types Types) []string {
	seen := map[string]bool{primary: true}
	var walk func(name string)
	walk = func(name string) {
		for _, m := range types[name] {
			base := m.Type
			if i := strings.IndexByte(base, '['); i >= 0 {
				base = base[:i]
			}
			if _, def := types[base]; def && !seen[base] {
				seen[base] = true
				walk(base)
			}
		}
	}
	walk(primary)
	var out []string
	for n := range seen {
		if n != primary {
			out = append(out, n)
		}
	}
	sort.Strings(out)
	return out
}

func encodeOne(name string, ms []Member) string {
	var sb strings.Builder
	sb.WriteString(name)
	sb.WriteByte('(')
	for i, m := range ms {
		if i > 0 {
			sb.WriteByte(',')
		}
		sb.WriteString(m.Type)
		sb.WriteByte(' ')
		sb.WriteString(m.Name)
	}
	sb.WriteByte(')')
	return sb.String()
}

// EncodeType is encodeType of the EIP: the primary type first, then the
// referenced struct types sorted by name.
func EncodeType(primary string, types Types) (string, error) {
	ms, ok := types[primary]
	if !ok {
		return "", fmt.Errorf("type %q is not defined", primary)
	}
	var sb strings.Builder
	sb.WriteString(encodeOne(primary, ms))
	for _, d := range Dependencies(primary, types) {
		sb.WriteString(encodeOne(d, types[d]))
	}
	return sb.String(), nil
}

// TypeHash is keccak256(encodeType(primary)).
func TypeHash(primary string, types Types) ([]byte, error) {
	s, err := EncodeType(primary, types)
	if err != nil {
		return nil, err
	}
	return secp.Keccak256([]byte(s)), nil
}

var one = big.NewInt(1)

func word(i *big.Int) []byte {
	// two's complement in 256 bits
	v := new(big.Int).Set(i)
	if v.Sign() < 0 {
		v.Add(v, new(big.Int).Lsh(one, 256))
	}
	out := make([]byte, 32)
	v.FillBytes(out)
	return out
}

// InRange reports whether v is a value of uint<bits> / int<bits>.
func InRange(v *big.Int, signed bool, bits int) bool {
	if !signed {
		return v.Sign() >= 0 && v.BitLen() <= bits
	}
	lim := new(big.Int).Lsh(one, uint(bits-1))
	return v.Cmp(new(big.Int).Neg(lim)) >= 0 && v.Cmp(lim) < 0
}

// encodeAtomic returns the 32-byte encoding of an atomic member value.
func encodeAtomic(kind AtomicKind, size int, v Value, path string) ([]byte, error) {
	switch kind {
	case KUint, KInt:
		i, ok := v.(*big.Int)
		if !ok || i == nil {
			return nil, fmt.Errorf("%s: integer expected, got %T", path, v)
		}
		if !InRange(i, kind == KInt, size) {
			return nil, fmt.Errorf("%s: %s out of range of %d bits", path, i, size)
		}
		return word(i), nil
	case KBool:
		b, ok := v.(bool)
		if !ok {
			return nil, fmt.Errorf("%s: bool expected, got %T", path, v)
		}
		out := make([]byte, 32)
		if b {
			out[31] = 1
		}
		return out, nil
	case KAddress:
		b, ok := v.([]byte)
		if !ok || len(b) != 20 {
			return nil, fmt.Errorf("%s: 20-byte address expected", path)
		}
		out := make([]byte, 32)
		copy(out[12:], b)
		return out, nil
	case KBytesN:
		b, ok := v.([]byte)
		if !ok || len(b) != size {
			return nil, fmt.Errorf("%s: %d bytes expected", path, size)
		}
		out := make([]byte, 32)
		copy(out, b) // left-aligned, zero padded on the right
		return out, nil
	case KBytes:
		b, ok := v.([]byte)
		if !ok {
			return nil, fmt.Errorf("%s: bytes expected, got %T", path, v)
		}
		return secp.Keccak256(b), nil
	case KString:
		s, ok := v.(string)
		if !ok {
			return nil, fmt.Errorf("%s: string expected, got %T", path, v)
		}
		return secp.Keccak256([]byte(s)), nil
	}
	return nil, fmt.Errorf("%s: not an atomic kind", path)
}

// hasher carries the type set of one computation and memoises type hashes
// (a pure function of the type set), so that documents with many struct
// instances cost one encodeType per struct type instead of one per instance.
type hasher struct {
	types Types
	th    map[string][]byte
}

func newHasher(types Types) *hasher { return &hasher{types: types, th: map[string][]byte{}} }

func (h *hasher) typeHash(name string) ([]byte, error) {
	if b, ok := h.th[name]; ok {
		return b, nil
	}
	b, err := TypeHash(name, h.types)
	if err != nil {
		return nil, err
	}
	h.th[name] = b
	return b, nil
}

// EncodeField returns the 32-byte contribution of one value of type t to its
// parent's encodeData.
func EncodeField(t string, v Value, types Types, path string) ([]byte, error) {
	return newHasher(types).encodeField(t, v, path)
}

func (h *hasher) encodeField(t string, v Value, path string) ([]byte, error) {
	base, dims, ok := SplitType(t)
	if !ok {
		return nil, fmt.Errorf("%s: malformed type %q", path, t)
	}
	return h.encodeDims(base, dims, v, path)
}

func (h *hasher) encodeDims(base string, dims []int, v Value, path string) ([]byte, error) {
	types := h.types
	if len(dims) > 0 {
		outer := dims[len(dims)-1]
		arr, ok := v.([]Value)
		if !ok {
			return nil, fmt.Errorf("%s: array expected, got %T", path, v)
		}
		if outer >= 0 && len(arr) != outer {
			return nil, fmt.Errorf("%s: %d elements for a fixed array of %d", path, len(arr), outer)
		}
		var cat []byte
		for i, e := range arr {
			b, err := h.encodeDims(base, dims[:len(dims)-1], e, fmt.Sprintf("%s[%d]", path, i))
			if err != nil {
				return nil, err
			}
			cat = append(cat, b...)
		}
		return secp.Keccak256(cat), nil
	}
	if _, isStruct := types[base]; isStruct {
		if v == nil {
			return make([]byte, 32), nil // v4: absent struct reference
		}
		if m, ok := v.(map[string]Value); ok && m == nil {
			return make([]byte, 32), nil
		}
		return h.hashStruct(base, v, path)
	}
	kind, size := Atomic(base)
	if kind == NotAtomic {
		return nil, fmt.Errorf("%s: type %q is neither atomic nor defined", path, base)
	}
	return encodeAtomic(kind, size, v, path)
}

// EncodeData is encodeData of the EIP: typeHash ‖ enc(member 1) ‖ … ‖ enc(member n).
// Keys of v that are not members of the type are ignored.
func EncodeData(name string, v Value, types Types, path string) ([]byte, error) {
	return newHasher(types).encodeData(name, v, path)
}

func (h *hasher) encodeData(name string, v Value, path string) ([]byte, error) {
	m, ok := v.(map[string]Value)
	if !ok || m == nil {
		return nil, fmt.Errorf("%s: struct value expected for %s, got %T", path, name, v)
	}
	th, err := h.typeHash(name)
	if err != nil {
		return nil, err
	}
	out := append([]byte{}, th...)
	for _, mem := range h.types[name] {
		p := mem.Name
		if path != "" {
			p = path + "." + mem.Name
		}
		b, err := h.encodeField(mem.Type, m[mem.Name], p)
		if err != nil {
			return nil, err
		}
		out = append(out, b...)
	}
	return out, nil
}

// HashStruct is keccak256(encodeData(name, v)).  v must be present.
func HashStruct(name string, v Value, types Types, path string) ([]byte, error) {
	return newHasher(types).hashStruct(name, v, path)
}

func (h *hasher) hashStruct(name string, v Value, path string) ([]byte, error) {
	enc, err := h.encodeData(name, v, path)
	if err != nil {
		return nil, err
	}
	return secp.Keccak256(enc), nil
}

// Document is a typed-data document with typed values.
type Document struct {
	Types       Types
	PrimaryType string
	Domain      map[string]Value // nil is the empty object
	Message     map[string]Value
}

// Result carries the three hashes of a document.
type Result struct {
	Digest          []byte
	DomainSeparator []byte
	MessageHash     []byte // nil for a domain-only document
}

// withDomain returns types with an empty EIP712Domain added when undefined.
func withDomain(types Types) Types {
	if _, ok := types[DomainType]; ok {
		return types
	}
	out := Types{DomainType: nil}
	for k, v := range types {
		out[k] = v
	}
	return out
}

// Digest computes keccak256(0x19 0x01 ‖ domainSeparator ‖ hashStruct(message));
// for primaryType == EIP712Domain the message part is omitted.
func Digest(d *Document) (*Result, error) {
	if d.PrimaryType == "" {
		return nil, fmt.Errorf("primaryType is required")
	}
	types := withDomain(d.Types)
	dom := d.Domain
	if dom == nil {
		dom = map[string]Value{}
	}
	h := newHasher(types)
	ds, err := h.hashStruct(DomainType, dom, "domain")
	if err != nil {
		return nil, err
	}
	r := &Result{DomainSeparator: ds}
	if d.PrimaryType == DomainType {
		r.Digest = secp.Keccak256([]byte{0x19, 0x01}, ds)
		return r, nil
	}
	if d.Message == nil {
		return nil, fmt.Errorf("message is absent")
	}
	mh, err := h.hashStruct(d.PrimaryType, d.Message, "")
	if err != nil {
		return nil, err
	}
	r.MessageHash = mh
	r.Digest = secp.Keccak256([]byte{0x19, 0x01}, ds, mh)
	return r, nil
}
