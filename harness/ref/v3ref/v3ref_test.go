package v3ref

import (
	"bytes"
	"crypto/sha256"
	"encoding/hex"
	"encoding/json"
	"errors"
	"math/big"
	"os"
	"strings"
	"testing"

	"golang.org/x/crypto/pbkdf2"

	"verifharness/ref/secp"
)

func unhex(t *testing.T, s string) []byte {
	t.Helper()
	b, err := hex.DecodeString(s)
	if err != nil {
		t.Fatal(err)
	}
	return b
}

// Web3 Secret Storage Definition, test vectors (password "testpassword").
const specSecret = "7a28b5ba57c53603b0b07b56bba752f7784bf506fa95edc395f5cf6c7514fe9d"

const specPBKDF2 = `{
    "crypto" : {
        "cipher" : "aes-128-ctr",
        "cipherparams" : { "iv" : "6087dab2f9fdbbfaddc31a909735c1e6" },
        "ciphertext" : "5318b4d5bcd28de64ee5559e671353e16f075ecae9f99c7a79a38af5f869aa46",
        "kdf" : "pbkdf2",
        "kdfparams" : {
            "c" : 262144,
            "dklen" : 32,
            "prf" : "hmac-sha256",
            "salt" : "ae3cd4e7013836a3df6bd7241b12db061dbe2c6785853cce422d148a624ce0bd"
        },
        "mac" : "517ead924a9d0dc3124507e3393d175ce3ff7c1e96529c6c555ce9e51205e9b2"
    },
    "id" : "3198bc9c-6672-5ab3-d995-4942343ae5b6",
    "version" : 3
}`

const specScrypt = `{
    "crypto" : {
        "cipher" : "aes-128-ctr",
        "cipherparams" : { "iv" : "83dbcc02d8ccb40e466191a123791e0e" },
        "ciphertext" : "d172bf743a674da9cdad04534d56926ef8358534d458fffccd4e6ad2fbde479c",
        "kdf" : "scrypt",
        "kdfparams" : {
            "dklen" : 32,
            "n" : 262144,
            "p" : 8,
            "r" : 1,
            "salt" : "ab0c7876052600dd703518d6fc3fe8984592145b591fc8fb5c6d43190334ba19"
        },
        "mac" : "2103ac29920d71da29f15d75b4a16dbe95cfd7ff8faea1056c33131d846e3097"
    },
    "id" : "3198bc9c-6672-5ab3-d995-4942343ae5b6",
    "version" : 3
}`

func TestSpecVectors(t *testing.T) {
	for name, doc := range map[string]string{"pbkdf2": specPBKDF2, "scrypt": specScrypt} {
		k, err := Read([]byte(doc), []byte("testpassword"))
		if err != nil {
			t.Fatalf("%s: %v", name, err)
		}
		if hex.EncodeToString(k.Secret) != specSecret {
			t.Fatalf("%s: secret %x", name, k.Secret)
		}
		if !k.HasID || k.ID != "3198bc9c-6672-5ab3-d995-4942343ae5b6" || !IsCanonicalUUID(k.ID) {
			t.Fatalf("%s: id %q", name, k.ID)
		}
		if _, err := Read([]byte(doc), []byte("testpassword ")); !errors.Is(err, ErrMAC) {
			t.Fatalf("%s: wrong password: %v", name, err)
		}
	}
	// the intermediate values published with the vectors
	dk := PBKDF2SHA256([]byte("testpassword"), unhex(t, "ae3cd4e7013836a3df6bd7241b12db061dbe2c6785853cce422d148a624ce0bd"), 262144, 32)
	if hex.EncodeToString(dk) != "f06d69cdc7da0faffb1008270bca38f5e31891a3a773950e6d0fea48a7188551" {
		t.Fatalf("pbkdf2 derived key %x", dk)
	}
	dk, err := DeriveScrypt([]byte("testpassword"), unhex(t, "ab0c7876052600dd703518d6fc3fe8984592145b591fc8fb5c6d43190334ba19"), 262144, 1, 8, 32, nil)
	if err != nil || hex.EncodeToString(dk) != "fac192ceb5fd772906bea3e118a69e8bbb5cc24229e20d8766fd298291bba6bd" {
		t.Fatalf("scrypt derived key %x %v", dk, err)
	}
}

func TestPrimitiveVectors(t *testing.T) {
	// RFC 7914 section 11 (PBKDF2-HMAC-SHA-256) and section 12 (scrypt)
	got := PBKDF2SHA256([]byte("passwd"), []byte("salt"), 1, 64)
	if hex.EncodeToString(got) != "55ac046e56e3089fec1691c22544b605f94185216dde0465e68b9d57c20dacbc49ca9cccf179b645991664b39d77ef317c71b845b1e30bd509112041d3a19783" {
		t.Fatalf("pbkdf2 vector 1: %x", got)
	}
	got = PBKDF2SHA256([]byte("Password"), []byte("NaCl"), 80000, 64)
	if hex.EncodeToString(got) != "4ddcd8f60b98be21830cee5ef22701f9641a4418d04c0414aeff08876b34ab56a1d425a1225833549adb841b51c9b3176a272bdebba1d078478f62b397f33c8d" {
		t.Fatalf("pbkdf2 vector 2: %x", got)
	}
	dk, err := DeriveScrypt([]byte(""), []byte(""), 16, 1, 1, 64, nil)
	if err != nil || hex.EncodeToString(dk) != "77d6576238657b203b19ca42c18a0497f16b4844e3074ae8dfdffa3fede21442fcd0069ded0948f8326a753a0fc81f17e8d3e0fb2e0d3628cf35e20c38d18906" {
		t.Fatalf("scrypt vector 1: %x %v", dk, err)
	}
	dk, err = DeriveScrypt([]byte("password"), []byte("NaCl"), 1024, 8, 16, 64, nil)
	if err != nil || hex.EncodeToString(dk) != "fdbabe1c9d3472007856e7190d01e9fe7c6ad7cbc8237830e77376634b3731622eaf30d92e22a3886ff109279d9830dac727afb94a83ee6d8360cbdfa2cc0640" {
		t.Fatalf("scrypt vector 2: %x %v", dk, err)
	}
	// differential against x/crypto's PBKDF2 on odd lengths
	for _, c := range []int{1, 2, 3, 17} {
		for _, l := range []int{0, 1, 31, 32, 33, 64, 65, 100} {
			a := PBKDF2SHA256([]byte("pw"), []byte("na"), c, l)
			b := pbkdf2.Key([]byte("pw"), []byte("na"), c, l, sha256.New)
			if !bytes.Equal(a, b) {
				t.Fatalf("pbkdf2 c=%d l=%d: %x vs %x", c, l, a, b)
			}
		}
	}
}

// Samples from the repository's own tests (pkg/keystorev3/wallet_test.go).
const repoScrypt = `{
	"address": "5d093e9b41911be5f5c4cf91b108bac5d130fa83",
	"crypto": {
	  "cipher": "aes-128-ctr",
	  "ciphertext": "a28e5f6fd3189ef220f658392af0e967f17931530ac5b79376ed5be7d8adfb5a",
	  "cipherparams": { "iv": "7babf856e25f812d9dbc133e3122a1fc" },
	  "kdf": "scrypt",
	  "kdfparams": { "dklen": 32, "n": 262144, "p": 1, "r": 8,
		"salt": "2844947e39e03785cad3ccda776279dbf5a86a5df9cb6d0ab5773bfcb7cbe3b7" },
	  "mac": "69ed15cbb03a29ec194bdbd2c2d8084c62be620d5b3b0f668ed9aa1f45dbaf99"
	},
	"id": "307cc063-2344-426a-b992-3b72d5d5be0b",
	"version": 3
  }`

// NB the repository's PBKDF2 sample declares the cipher "es-128-ctr" (sic).
const repoPBKDF2 = `{
    "address": "08327c2085530f3a90db40174beff14f1fc96b22",
    "id": "174d997a-d737-4cf4-b8ff-d26eaf1b9201",
    "version": 3,
    "crypto": {
        "cipher": "es-128-ctr",
        "ciphertext": "ff36c3ad1dfda68ef4f65f62b6101638b6ed8fcb61954ae058a690d4ed8c4563",
        "cipherparams": { "iv": "169c176944db19d27b2e297c4e3f0f1c" },
        "kdf": "pbkdf2",
        "mac": "5b403923bc4945264dad3043da1a90adef979f97c2c353f1ba8cdb0123831fd0",
        "kdfparams": { "dklen": 32, "c": 4096, "prf": "hmac-sha256",
            "salt": "3f395aa93f6dc374081d19931dc3d98b61f935d2e8dd54df60f27685716dd1f9" }
    }
}`

func addrOf(secret []byte) string {
	a := secp.AddressOfKey(new(big.Int).SetBytes(secret))
	return hex.EncodeToString(a[:])
}

func TestRepoSamples(t *testing.T) {
	k, err := Read([]byte(repoScrypt), []byte("correcthorsebatterystaple"))
	if err != nil {
		t.Fatal(err)
	}
	if hex.EncodeToString(k.Secret) != "f6d5b8eb66ac39a39004209b7da586e3f95ecd1265172850b15e305c5d1fe424" {
		t.Fatalf("secret %x", k.Secret)
	}
	if addrOf(k.Secret) != "5d093e9b41911be5f5c4cf91b108bac5d130fa83" {
		t.Fatalf("address %s", addrOf(k.Secret))
	}
	// strict reader: the misspelt cipher name is rejected
	if _, err := Read([]byte(repoPBKDF2), []byte("myPrecious")); err == nil || !strings.Contains(err.Error(), "unsupported cipher") {
		t.Fatalf("es-128-ctr accepted: %v", err)
	}
	k, err = ReadOpts([]byte(repoPBKDF2), []byte("myPrecious"), Options{IgnoreCipherName: true})
	if err != nil {
		t.Fatal(err)
	}
	if addrOf(k.Secret) != "08327c2085530f3a90db40174beff14f1fc96b22" {
		t.Fatalf("address %s", addrOf(k.Secret))
	}
	// test/keystore_toml sample, read from the repository tree when it is there
	repo := os.Getenv("VERIF_REPO")
	if repo == "" {
		repo = "/repo"
	}
	b, err := os.ReadFile(repo + "/test/keystore_toml/1f185718734552d08278aa70f804580bab5fd2b4.key.json")
	if err != nil {
		t.Skipf("repository sample not available: %v", err)
	}
	pw, err := os.ReadFile(repo + "/test/keystore_toml/1f185718734552d08278aa70f804580bab5fd2b4.pwd")
	if err != nil {
		t.Fatal(err)
	}
	k, err = Read(b, pw)
	if err != nil {
		t.Fatal(err)
	}
	if addrOf(k.Secret) != "1f185718734552d08278aa70f804580bab5fd2b4" {
		t.Fatalf("address %s", addrOf(k.Secret))
	}
}

func TestWriteReadRoundTrip(t *testing.T) {
	secret := unhex(t, specSecret)
	for _, s := range []Spec{
		{KDF: KDFScrypt, N: 2, R: 1, P: 1},
		{KDF: KDFScrypt, N: 16, R: 8, P: 2},
		{KDF: KDFScrypt, N: 1 << 14, R: 8, P: 1},
		{KDF: KDFScrypt, N: 4, R: 1, P: 1, DKLen: 64},
		{KDF: KDFPBKDF2, C: 1},
		{KDF: KDFPBKDF2, C: 4096},
		{KDF: KDFPBKDF2, C: 3, DKLen: 33},
	} {
		s.Salt = bytes.Repeat([]byte{0xa5}, 32)
		s.IV = bytes.Repeat([]byte{0x5a}, 16)
		s.Secret = secret
		s.Password = []byte("pässwörd ")
		s.ID = "3198bc9c-6672-5ab3-d995-4942343ae5b6"
		s.Extra = map[string]interface{}{"x": map[string]interface{}{"y": 1.0}, "id": "ignored", "crypto": "ignored"}
		f, err := Write(s)
		if err != nil {
			t.Fatalf("%+v: %v", s, err)
		}
		k, err := Read(f, s.Password)
		if err != nil || !bytes.Equal(k.Secret, secret) || k.ID != s.ID {
			t.Fatalf("%+v: %v", s, err)
		}
		if _, err := Read(f, []byte("pässwörd")); !errors.Is(err, ErrMAC) {
			t.Fatalf("wrong password: %v", err)
		}
	}
}

func mutated(t *testing.T, path []string, v interface{}, del bool) []byte {
	t.Helper()
	doc, err := Build(Spec{KDF: KDFScrypt, N: 4, R: 1, P: 1, Salt: []byte("salt"), IV: make([]byte, 16), Secret: []byte("secret"), Password: []byte("pw"), ID: "x"})
	if err != nil {
		t.Fatal(err)
	}
	m := doc
	for _, p := range path[:len(path)-1] {
		m = m[p].(map[string]interface{})
	}
	if del {
		delete(m, path[len(path)-1])
	} else {
		m[path[len(path)-1]] = v
	}
	b, _ := json.Marshal(doc)
	return b
}

func TestStrictness(t *testing.T) {
	ok := mutated(t, []string{"address"}, "zz", false)
	if _, err := Read(ok, []byte("pw")); err != nil {
		t.Fatal(err)
	}
	type mut struct {
		path []string
		v    interface{}
		del  bool
		want string
	}
	for _, m := range []mut{
		{[]string{"version"}, 4, false, "version"},
		{[]string{"version"}, "3", false, "version"},
		{[]string{"version"}, nil, true, "version"},
		{[]string{"crypto"}, nil, true, "cipher"},
		{[]string{"crypto"}, []interface{}{}, false, "V3 shape"},
		{[]string{"crypto", "cipher"}, "aes-256-cbc", false, "cipher"},
		{[]string{"crypto", "cipher"}, "AES-128-CTR", false, "cipher"},
		{[]string{"crypto", "cipher"}, nil, true, "cipher"},
		{[]string{"crypto", "cipherparams", "iv"}, "00", false, "iv"},
		{[]string{"crypto", "cipherparams", "iv"}, strings.Repeat("00", 17), false, "iv"},
		{[]string{"crypto", "cipherparams", "iv"}, nil, true, "iv"},
		{[]string{"crypto", "cipherparams"}, nil, true, "iv"},
		{[]string{"crypto", "cipherparams"}, "x", false, "V3 shape"},
		{[]string{"crypto", "kdfparams"}, nil, true, "dklen"},
		{[]string{"crypto", "kdf"}, "bcrypt", false, "kdf"},
		{[]string{"crypto", "kdf"}, "pbkdf2", false, "prf"},
		{[]string{"crypto", "kdfparams", "n"}, 3, false, "power of two"},
		{[]string{"crypto", "kdfparams", "n"}, 1, false, "power of two"},
		{[]string{"crypto", "kdfparams", "n"}, 0, false, "power of two"},
		{[]string{"crypto", "kdfparams", "n"}, -4, false, "power of two"},
		{[]string{"crypto", "kdfparams", "n"}, "4", false, "not a number"},
		{[]string{"crypto", "kdfparams", "r"}, 0, false, "r=0"},
		{[]string{"crypto", "kdfparams", "p"}, 0, false, "p=0"},
		{[]string{"crypto", "kdfparams", "p"}, -1, false, "p=-1"},
		{[]string{"crypto", "kdfparams", "r"}, 1 << 15, false, "MAC"},
		{[]string{"crypto", "kdfparams", "dklen"}, 31, false, "dklen"},
		{[]string{"crypto", "kdfparams", "dklen"}, -1, false, "dklen"},
		{[]string{"crypto", "kdfparams", "dklen"}, 0, false, "dklen"},
		{[]string{"crypto", "kdfparams", "dklen"}, 1 << 31, false, "limits"},
		{[]string{"crypto", "kdfparams", "n"}, 1 << 40, false, "limits"},
		{[]string{"crypto", "mac"}, "00", false, "MAC"},
		{[]string{"crypto", "mac"}, nil, true, "MAC"},
		{[]string{"crypto", "ciphertext"}, "zz", false, "bad hex"},
		{[]string{"crypto", "ciphertext"}, "abc", false, "bad hex"},
		{[]string{"crypto", "ciphertext"}, "00", false, "MAC"},
	} {
		f := mutated(t, m.path, m.v, m.del)
		_, err := Read(f, []byte("pw"))
		if err == nil || !strings.Contains(err.Error(), m.want) {
			t.Errorf("%v=%v del=%v: got %v, want error containing %q", m.path, m.v, m.del, err, m.want)
		}
	}
	// dklen 64 with the original MAC is fine (the first 32 bytes of the derived key do not depend on dklen)
	if k, err := Read(mutated(t, []string{"crypto", "kdfparams", "dklen"}, 64, false), []byte("pw")); err != nil || string(k.Secret) != "secret" {
		t.Errorf("dklen 64: %v", err)
	}
	// lenient syntax
	if _, err := Read(mutated(t, []string{"crypto", "kdfparams", "n"}, json.RawMessage("4.0"), false), []byte("pw")); err != nil {
		t.Errorf("n=4.0: %v", err)
	}
	if _, err := Read(mutated(t, []string{"crypto", "kdfparams", "salt"}, "0x73616C74", false), []byte("pw")); err != nil {
		t.Errorf("0x/upper-case salt: %v", err)
	}
	// pbkdf2 c <= 0 is unspecified
	doc, _ := Build(Spec{KDF: KDFPBKDF2, C: 1, Salt: []byte("salt"), IV: make([]byte, 16), Secret: []byte("secret"), Password: []byte("pw"), ID: "x"})
	doc["crypto"].(map[string]interface{})["kdfparams"].(map[string]interface{})["c"] = 0
	b, _ := json.Marshal(doc)
	if _, err := Read(b, []byte("pw")); !errors.Is(err, ErrUnspecified) {
		t.Errorf("c=0: %v", err)
	}
	// duplicate members merge as in encoding/json: the second crypto object only replaces the members it names
	f := mutated(t, []string{"address"}, "zz", false)
	dup := append(append([]byte{}, f[:len(f)-1]...), []byte(`,"crypto":{"cipher":"aes-128-ctr"},"CRYPTO":{}}`)...)
	if k, err := Read(dup, []byte("pw")); err != nil || string(k.Secret) != "secret" {
		t.Errorf("duplicate crypto member: %v", err)
	}
	for _, junk := range []string{"", "null", "[]", "3", `"x"`, "{", "{}x"} {
		if _, err := Read([]byte(junk), nil); err == nil {
			t.Errorf("junk %q accepted", junk)
		}
	}
}

func TestPlainProfile(t *testing.T) {
	base := Spec{Salt: bytes.Repeat([]byte{0xa5}, 32), IV: bytes.Repeat([]byte{0x5a}, 16), Secret: []byte("secret"), Password: []byte("pw"),
		ID: "3198bc9c-6672-5ab3-d995-4942343ae5b6", Address: "00"}
	for _, s := range []Spec{{KDF: KDFScrypt, N: 2, R: 1, P: 1}, {KDF: KDFScrypt, N: 1024, R: 8, P: 2}, {KDF: KDFPBKDF2, C: 1}, {KDF: KDFPBKDF2, C: 4096}} {
		s.Salt, s.IV, s.Secret, s.Password, s.ID, s.Address = base.Salt, base.IV, base.Secret, base.Password, base.ID, base.Address
		f, err := Write(s)
		if err != nil {
			t.Fatal(err)
		}
		if !PlainProfile(f) {
			t.Fatalf("writer output is not in the plain profile: %s", f)
		}
		for _, edit := range [][2]string{
			{`"dklen":32`, `"dklen":33`}, {`"dklen":32`, `"dklen":32.0`}, {`"version":3`, `"version":3.0`}, {`"version":3`, `"version":4`},
			{`"n":`, `"N":`}, {`"c":`, `"c":0`}, {`"n":2,`, `"n":3,`}, {`"r":`, `"r":0`}, {`"a5a5`, `"A5a5`}, {`"a5a5`, `"0xa5a5`}, {`"5a5a5a`, `"5a`},
			{`aes-128-ctr`, `aes-128-cbc`}, {`"kdf":"`, `"kdf":"x`}, {`hmac-sha256`, `hmac-sha1`}, {`"id":"3198bc9c`, `"id":"3198BC9C`},
			{`"version":3`, `"version":3,"Version":3`}, {`"crypto":{`, `"crypto":{"mac":"00",`}, {`"mac":"`, `"mac":"00`},
		} {
			if !strings.Contains(string(f), edit[0]) {
				continue
			}
			g := strings.Replace(string(f), edit[0], edit[1], 1)
			if PlainProfile([]byte(g)) {
				t.Fatalf("edit %q -> %q still in the plain profile: %s", edit[0], edit[1], g)
			}
		}
		if PlainProfile(append(append([]byte{}, f...), f...)) || PlainProfile(f[:len(f)-1]) || PlainProfile([]byte("null")) {
			t.Fatal("trailing / truncated content accepted")
		}
	}
	s := base
	s.KDF, s.N, s.R, s.P, s.DKLen = KDFScrypt, 4, 1, 1, 64
	if f, _ := Write(s); PlainProfile(f) {
		t.Fatal("dklen 64 is not the plain profile")
	}
}
