// Package v3ref is an independent implementation of the Web3 Secret Storage
// Definition, version 3 ("keystore V3"), written from the specification:
//
//	DK        = KDF(password, kdfparams)              scrypt | PBKDF2-HMAC-SHA256, dklen bytes
//	cipherkey = DK[0:16]                              AES-128-CTR with cipherparams.iv (16 bytes)
//	mac       = keccak256(DK[16:32] || ciphertext)
//
// It has a strict reader (full structural validation, MAC check, decrypt) and a
// writer.  It does not import the package it judges (pkg/keystorev3).  Trusted
// primitives: crypto/aes, crypto/cipher, crypto/hmac, crypto/sha256,
// encoding/json (JSON syntax and Go's key matching), golang.org/x/crypto/scrypt
// (the scrypt core, called with the file's own dklen) and legacy Keccak-256 via
// ref/secp.  PBKDF2 (RFC 8018 section 5.2) is implemented here.
//
// Where the specification is silent the reader is lenient so that it never
// rejects a file another conforming implementation could accept for a reason
// that is mere syntax: hex strings may carry a 0x prefix and upper-case digits,
// integers may be written as 32, 32.0 or 3.2e1, salt and ciphertext may be
// empty, dklen may exceed 32 (only the first 32 bytes are used), the id is
// reported but not validated (see IsCanonicalUUID), and the RFC 7914 bound
// N < 2^(128r/8) is not enforced (no deployed implementation does).  It is
// strict about everything the specification fixes: version 3, cipher name
// "aes-128-ctr", 16-byte IV, kdf in {scrypt, pbkdf2}, prf "hmac-sha256", scrypt
// N a power of two > 1, r >= 1, p >= 1, r*p < 2^30, dklen >= 32, PBKDF2 c >= 1
// (c <= 0 is reported as ErrUnspecified), dklen <= (2^32-1)*32, and the MAC.
package v3ref

import (
	"bytes"
	"crypto/aes"
	"crypto/cipher"
	"crypto/hmac"
	"crypto/sha256"
	"encoding/binary"
	"encoding/hex"
	"encoding/json"
	"errors"
	"fmt"
	"math"
	"strconv"
	"strings"

	"golang.org/x/crypto/scrypt"

	"verifharness/ref/secp"
)

const (
	CipherName = "aes-128-ctr"
	KDFScrypt  = "scrypt"
	KDFPBKDF2  = "pbkdf2"
	PRFName    = "hmac-sha256"
)

var (
	// ErrMAC: the structure is valid but the MAC does not match (wrong password or altered file).
	ErrMAC = errors.New("v3ref: MAC mismatch")
	// ErrUnspecified: the file is in a region where the reference gives no verdict (PBKDF2 c <= 0).
	ErrUnspecified = errors.New("v3ref: unspecified region")
	// ErrCost: the cost parameters are valid but beyond what the reference is willing to compute.
	ErrCost = errors.New("v3ref: cost parameters beyond the reference's limits")
)

// Limits bound the work the reference will do for one derivation.
type Limits struct {
	ScryptMem  int64 // 128*N*r bytes
	ScryptOps  int64 // N*r*p
	PBKDF2Work int64 // c * ceil(dklen/32)
	DKLen      int64
}

// DefaultLimits admit the published test vectors (scrypt N=2^18 r=8 p=1; PBKDF2 c=2^18).
var DefaultLimits = Limits{ScryptMem: 512 << 20, ScryptOps: 1 << 22, PBKDF2Work: 1 << 20, DKLen: 1 << 16}

// Options of the reader.
type Options struct {
	// IgnoreCipherName skips the check of crypto.cipher (everything else stays strict).
	IgnoreCipherName bool
	Limits           *Limits
}

// Key is the result of reading a file.
type Key struct {
	Secret     []byte
	HasID      bool
	ID         string // value of "id" when it is a JSON string
	Version    int64
	Cipher     string
	KDF        string
	PRF        string
	N, R, P, C int64
	DKLen      int64
	Salt       []byte
	IV         []byte
	CipherText []byte
	MAC        []byte
}

// ---- primitives -------------------------------------------------------------------------

// PBKDF2SHA256 is PBKDF2 (RFC 8018, 5.2) with HMAC-SHA-256.  c >= 1, dklen >= 0.
func PBKDF2SHA256(password, salt []byte, c, dklen int) []byte {
	const hLen = sha256.Size
	blocks := (dklen + hLen - 1) / hLen
	out := make([]byte, 0, blocks*hLen)
	mac := hmac.New(sha256.New, password)
	var idx [4]byte
	for i := 1; i <= blocks; i++ {
		binary.BigEndian.PutUint32(idx[:], uint32(i))
		mac.Reset()
		mac.Write(salt)
		mac.Write(idx[:])
		u := mac.Sum(nil)
		t := append([]byte{}, u...)
		for j := 2; j <= c; j++ {
			mac.Reset()
			mac.Write(u)
			u = mac.Sum(u[:0])
			for k := range t {
				t[k] ^= u[k]
			}
		}
		out = append(out, t...)
	}
	res := make([]byte, dklen) // exact length and capacity: nothing beyond dklen is reachable
	copy(res, out)
	return res
}

// CheckScrypt validates scrypt parameters against the specification (RFC 7914 as deployed).
func CheckScrypt(n, r, p, dklen int64) error {
	if n <= 1 || n&(n-1) != 0 {
		return fmt.Errorf("scrypt n=%d is not a power of two greater than 1", n)
	}
	if r < 1 {
		return fmt.Errorf("scrypt r=%d < 1", r)
	}
	if p < 1 {
		return fmt.Errorf("scrypt p=%d < 1", p)
	}
	if r >= 1<<30 || p >= 1<<30 || r*p >= 1<<30 {
		return fmt.Errorf("scrypt r*p = %d*%d >= 2^30", r, p)
	}
	if dklen < 32 {
		return fmt.Errorf("dklen=%d < 32: the derived key cannot supply a cipher key and a MAC key", dklen)
	}
	if dklen > (1<<32-1)*32 {
		return fmt.Errorf("dklen=%d too large for PBKDF2-HMAC-SHA256", dklen)
	}
	return nil
}

// CheckPBKDF2 validates PBKDF2 parameters. c <= 0 yields ErrUnspecified.
func CheckPBKDF2(c, dklen int64) error {
	if dklen < 32 {
		return fmt.Errorf("dklen=%d < 32: the derived key cannot supply a cipher key and a MAC key", dklen)
	}
	if dklen > (1<<32-1)*32 {
		return fmt.Errorf("dklen=%d too large for PBKDF2-HMAC-SHA256", dklen)
	}
	if c <= 0 {
		return fmt.Errorf("%w: pbkdf2 c=%d", ErrUnspecified, c)
	}
	return nil
}

func (l *Limits) scryptOK(n, r, p, dklen int64) bool {
	if dklen > l.DKLen {
		return false
	}
	// all factors are >= 1 and bounded (n power of two <= 2^62, r*p < 2^30): use float for the products
	mem := 128 * float64(n) * float64(r)
	ops := float64(n) * float64(r) * float64(p)
	return mem <= float64(l.ScryptMem) && ops <= float64(l.ScryptOps) && 128*float64(r)*float64(p) <= float64(l.ScryptMem)
}

func (l *Limits) pbkdf2OK(c, dklen int64) bool {
	if dklen > l.DKLen {
		return false
	}
	return float64(c)*math.Ceil(float64(dklen)/32) <= float64(l.PBKDF2Work)
}

// DeriveScrypt validates and derives. The scrypt core is x/crypto's, called with dklen as given.
func DeriveScrypt(password, salt []byte, n, r, p, dklen int64, lim *Limits) ([]byte, error) {
	if err := CheckScrypt(n, r, p, dklen); err != nil {
		return nil, err
	}
	if lim == nil {
		lim = &DefaultLimits
	}
	if !lim.scryptOK(n, r, p, dklen) {
		return nil, fmt.Errorf("%w: scrypt n=%d r=%d p=%d dklen=%d", ErrCost, n, r, p, dklen)
	}
	dk, err := scrypt.Key(password, salt, int(n), int(r), int(p), int(dklen))
	if err != nil {
		return nil, fmt.Errorf("scrypt primitive: %v", err)
	}
	if int64(len(dk)) != dklen {
		return nil, fmt.Errorf("scrypt primitive returned %d bytes, want %d", len(dk), dklen)
	}
	return append(make([]byte, 0, len(dk)), dk...), nil
}

// DerivePBKDF2 validates and derives with the package's own PBKDF2.
func DerivePBKDF2(password, salt []byte, c, dklen int64, lim *Limits) ([]byte, error) {
	if err := CheckPBKDF2(c, dklen); err != nil {
		return nil, err
	}
	if lim == nil {
		lim = &DefaultLimits
	}
	if !lim.pbkdf2OK(c, dklen) {
		return nil, fmt.Errorf("%w: pbkdf2 c=%d dklen=%d", ErrCost, c, dklen)
	}
	return PBKDF2SHA256(password, salt, int(c), int(dklen)), nil
}

// MAC is keccak256(DK[16:32] || ciphertext). dk must hold at least 32 bytes.
func MAC(dk, ciphertext []byte) []byte {
	return secp.Keccak256(dk[16:32], ciphertext)
}

// CTR applies AES-128-CTR (encryption and decryption are the same operation).
func CTR(key, iv, in []byte) ([]byte, error) {
	if len(key) != 16 {
		return nil, fmt.Errorf("AES-128 key of %d bytes", len(key))
	}
	if len(iv) != aes.BlockSize {
		return nil, fmt.Errorf("iv of %d bytes, want 16", len(iv))
	}
	block, err := aes.NewCipher(key)
	if err != nil {
		return nil, err
	}
	out := make([]byte, len(in))
	cipher.NewCTR(block, iv).XORKeyStream(out, in)
	return out, nil
}

// DecodeHex decodes a hex string, tolerating a 0x/0X prefix and upper-case digits.
func DecodeHex(s string) ([]byte, error) {
	if strings.HasPrefix(s, "0x") || strings.HasPrefix(s, "0X") {
		s = s[2:]
	}
	return hex.DecodeString(s)
}

// IsCanonicalUUID reports whether s has the 8-4-4-4-12 lower-case hex form.
func IsCanonicalUUID(s string) bool {
	if len(s) != 36 {
		return false
	}
	for i := 0; i < 36; i++ {
		c := s[i]
		switch i {
		case 8, 13, 18, 23:
			if c != '-' {
				return false
			}
		default:
			if !(c >= '0' && c <= '9' || c >= 'a' && c <= 'f') {
				return false
			}
		}
	}
	return true
}

// ---- reader -----------------------------------------------------------------------------

// The document is decoded into nested structs (leaves kept as raw JSON and typed
// by this package), so that key matching, duplicate members and null members follow
// encoding/json exactly: the trusted JSON layer is the one every Go implementation
// shares, and a document with duplicate or differently-cased members denotes the
// same thing here as there.
type rawDoc struct {
	ID      scalar    `json:"id"`
	Version scalar    `json:"version"`
	Crypto  rawCrypto `json:"crypto"`
}

type rawCrypto struct {
	Cipher       scalar          `json:"cipher"`
	CipherText   hexLeaf         `json:"ciphertext"`
	CipherParams rawCipherParams `json:"cipherparams"`
	KDF          scalar          `json:"kdf"`
	KDFParams    rawKDFParams    `json:"kdfparams"`
	MAC          hexLeaf         `json:"mac"`
}

type rawCipherParams struct {
	IV hexLeaf `json:"iv"`
}

type rawKDFParams struct {
	DKLen scalar  `json:"dklen"`
	N     scalar  `json:"n"`
	R     scalar  `json:"r"`
	P     scalar  `json:"p"`
	C     scalar  `json:"c"`
	PRF   scalar  `json:"prf"`
	Salt  hexLeaf `json:"salt"`
}

// scalar keeps the raw JSON of a number/string member. As for a Go int or string, a
// null leaves an earlier value (of a duplicate member) in place.
type scalar struct{ raw json.RawMessage }

func (l *scalar) UnmarshalJSON(b []byte) error {
	if string(bytes.TrimSpace(b)) != "null" {
		l.raw = append(json.RawMessage{}, b...)
	}
	return nil
}

// hexLeaf keeps the raw JSON of a byte-string member. As for a Go byte slice, a null
// denotes the empty string.
type hexLeaf struct{ raw json.RawMessage }

func (l *hexLeaf) UnmarshalJSON(b []byte) error {
	l.raw = append(json.RawMessage{}, b...)
	return nil
}

func absent(raw json.RawMessage) bool {
	t := bytes.TrimSpace(raw)
	return len(t) == 0 || string(t) == "null"
}

func asString(name string, raw json.RawMessage) (string, error) {
	if absent(raw) {
		return "", fmt.Errorf("%s is missing", name)
	}
	if t := bytes.TrimSpace(raw); t[0] != '"' {
		return "", fmt.Errorf("%s is not a string", name)
	}
	var s string
	if err := json.Unmarshal(raw, &s); err != nil {
		return "", fmt.Errorf("%s: %v", name, err)
	}
	return s, nil
}

// asHex: a missing/null value denotes the empty byte string (then rejected by the
// length or MAC checks where that matters).
func asHex(name string, raw json.RawMessage) ([]byte, error) {
	if absent(raw) {
		return []byte{}, nil
	}
	s, err := asString(name, raw)
	if err != nil {
		return nil, err
	}
	b, err := DecodeHex(s)
	if err != nil {
		return nil, fmt.Errorf("%s: bad hex: %v", name, err)
	}
	return b, nil
}

// asInt accepts a JSON number whose value is an integer representable in int64.
func asInt(name string, raw json.RawMessage) (int64, error) {
	if absent(raw) {
		return 0, fmt.Errorf("%s is missing", name)
	}
	t := string(bytes.TrimSpace(raw))
	if !(t[0] == '-' || t[0] >= '0' && t[0] <= '9') {
		return 0, fmt.Errorf("%s is not a number", name)
	}
	if !strings.ContainsAny(t, ".eE") {
		v, err := strconv.ParseInt(t, 10, 64)
		if err != nil {
			return 0, fmt.Errorf("%s: %v", name, err)
		}
		return v, nil
	}
	f, err := strconv.ParseFloat(t, 64)
	if err != nil || math.IsInf(f, 0) || math.IsNaN(f) {
		return 0, fmt.Errorf("%s: not a usable number %q", name, t)
	}
	if f != math.Trunc(f) || math.Abs(f) > 1<<53 {
		return 0, fmt.Errorf("%s: %q is not an exactly representable integer", name, t)
	}
	return int64(f), nil
}

// Read is ReadOpts with default options (fully strict).
func Read(file, password []byte) (*Key, error) { return ReadOpts(file, password, Options{}) }

// ReadOpts parses, validates, checks the MAC of and decrypts a V3 document.
func ReadOpts(file, password []byte, o Options) (*Key, error) {
	k, err := parse(file, o)
	if err != nil {
		return nil, err
	}
	lim := o.Limits
	if lim == nil {
		lim = &DefaultLimits
	}
	var dk []byte
	switch k.KDF {
	case KDFScrypt:
		dk, err = DeriveScrypt(password, k.Salt, k.N, k.R, k.P, k.DKLen, lim)
	case KDFPBKDF2:
		dk, err = DerivePBKDF2(password, k.Salt, k.C, k.DKLen, lim)
	}
	if err != nil {
		return nil, err
	}
	if !hmac.Equal(MAC(dk, k.CipherText), k.MAC) {
		return nil, ErrMAC
	}
	k.Secret, err = CTR(dk[0:16], k.IV, k.CipherText)
	if err != nil {
		return nil, err
	}
	return k, nil
}

// Inspect parses and validates the structure without deriving anything.
func Inspect(file []byte, o Options) (*Key, error) { return parse(file, o) }

func parse(file []byte, o Options) (*Key, error) {
	var d rawDoc
	if err := json.Unmarshal(file, &d); err != nil {
		return nil, fmt.Errorf("not a JSON document of the V3 shape: %v", err)
	}
	k := &Key{}
	var err error
	if k.Version, err = asInt("version", d.Version.raw); err != nil {
		return nil, err
	}
	if k.Version != 3 {
		return nil, fmt.Errorf("version %d, want 3", k.Version)
	}
	if !absent(d.ID.raw) {
		if s, err := asString("id", d.ID.raw); err == nil {
			k.HasID, k.ID = true, s
		}
	}
	c, cp, kp := d.Crypto, d.Crypto.CipherParams, d.Crypto.KDFParams
	if k.Cipher, err = asString("crypto.cipher", c.Cipher.raw); err != nil && !o.IgnoreCipherName {
		return nil, err
	}
	if k.Cipher != CipherName && !o.IgnoreCipherName {
		return nil, fmt.Errorf("unsupported cipher %q (want %q)", k.Cipher, CipherName)
	}
	if k.IV, err = asHex("crypto.cipherparams.iv", cp.IV.raw); err != nil {
		return nil, err
	}
	if len(k.IV) != 16 {
		return nil, fmt.Errorf("iv of %d bytes, want 16", len(k.IV))
	}
	if k.CipherText, err = asHex("crypto.ciphertext", c.CipherText.raw); err != nil {
		return nil, err
	}
	if k.MAC, err = asHex("crypto.mac", c.MAC.raw); err != nil {
		return nil, err
	}
	if k.KDF, err = asString("crypto.kdf", c.KDF.raw); err != nil {
		return nil, err
	}
	if k.KDF != KDFScrypt && k.KDF != KDFPBKDF2 {
		return nil, fmt.Errorf("unsupported kdf %q", k.KDF)
	}
	if k.Salt, err = asHex("kdfparams.salt", kp.Salt.raw); err != nil {
		return nil, err
	}
	if k.DKLen, err = asInt("kdfparams.dklen", kp.DKLen.raw); err != nil {
		return nil, err
	}
	switch k.KDF {
	case KDFScrypt:
		if k.N, err = asInt("kdfparams.n", kp.N.raw); err != nil {
			return nil, err
		}
		if k.R, err = asInt("kdfparams.r", kp.R.raw); err != nil {
			return nil, err
		}
		if k.P, err = asInt("kdfparams.p", kp.P.raw); err != nil {
			return nil, err
		}
		if err = CheckScrypt(k.N, k.R, k.P, k.DKLen); err != nil {
			return nil, err
		}
	case KDFPBKDF2:
		if k.PRF, err = asString("kdfparams.prf", kp.PRF.raw); err != nil {
			return nil, err
		}
		if k.PRF != PRFName {
			return nil, fmt.Errorf("unsupported prf %q", k.PRF)
		}
		// a missing c is what every decoder into a plain integer reads as 0: the unspecified region
		if !absent(kp.C.raw) {
			if k.C, err = asInt("kdfparams.c", kp.C.raw); err != nil {
				return nil, err
			}
		}
		if err = CheckPBKDF2(k.C, k.DKLen); err != nil {
			return nil, err
		}
	}
	if len(k.MAC) != 32 {
		return nil, fmt.Errorf("%w: mac of %d bytes", ErrMAC, len(k.MAC))
	}
	return k, nil
}

// ---- writer -----------------------------------------------------------------------------

// Spec describes a file to write.
type Spec struct {
	KDF      string // "scrypt" or "pbkdf2"
	N, R, P  int    // scrypt
	C        int    // pbkdf2
	DKLen    int    // 0 means 32
	Salt     []byte
	IV       []byte // 16 bytes
	Secret   []byte
	Password []byte
	ID       string
	Address  string                 // optional "address" member ("" = omitted)
	Extra    map[string]interface{} // further top-level members; id/version/crypto/address are ignored here
}

// Build produces the document as a generic JSON tree (so that a harness can mutate it).
func Build(s Spec) (map[string]interface{}, error) {
	dklen := int64(s.DKLen)
	if dklen == 0 {
		dklen = 32
	}
	var dk []byte
	var err error
	kdfparams := map[string]interface{}{"dklen": dklen, "salt": hex.EncodeToString(s.Salt)}
	switch s.KDF {
	case KDFScrypt:
		dk, err = DeriveScrypt(s.Password, s.Salt, int64(s.N), int64(s.R), int64(s.P), dklen, nil)
		kdfparams["n"], kdfparams["r"], kdfparams["p"] = int64(s.N), int64(s.R), int64(s.P)
	case KDFPBKDF2:
		dk, err = DerivePBKDF2(s.Password, s.Salt, int64(s.C), dklen, nil)
		kdfparams["c"], kdfparams["prf"] = int64(s.C), PRFName
	default:
		return nil, fmt.Errorf("unsupported kdf %q", s.KDF)
	}
	if err != nil {
		return nil, err
	}
	ct, err := CTR(dk[0:16], s.IV, s.Secret)
	if err != nil {
		return nil, err
	}
	doc := map[string]interface{}{}
	for k, v := range s.Extra {
		doc[k] = v
	}
	if s.Address != "" {
		doc["address"] = s.Address
	}
	doc["id"] = s.ID
	doc["version"] = int64(3)
	doc["crypto"] = map[string]interface{}{
		"cipher":       CipherName,
		"ciphertext":   hex.EncodeToString(ct),
		"cipherparams": map[string]interface{}{"iv": hex.EncodeToString(s.IV)},
		"kdf":          s.KDF,
		"kdfparams":    kdfparams,
		"mac":          hex.EncodeToString(MAC(dk, ct)),
	}
	return doc, nil
}

// Write produces the JSON text of the document.
func Write(s Spec) ([]byte, error) {
	doc, err := Build(s)
	if err != nil {
		return nil, err
	}
	return json.Marshal(doc)
}

// ---- the plain profile --------------------------------------------------------------------

// PlainProfile reports whether file is a V3 document in the plain form every writer emits
// and therefore every conforming reader has to accept (given the right password): one JSON
// object without duplicate or case-variant members at the levels a reader looks at, version
// the literal 3, a canonical UUID id, cipher aes-128-ctr with a 16-byte IV, a 32-byte MAC, a
// non-empty ciphertext and salt, every byte string in lower-case hex without prefix, kdf
// scrypt (n a power of two > 1, r and p >= 1 as plain decimal literals) or pbkdf2 (c >= 1,
// prf hmac-sha256), dklen the literal 32.  It is deliberately narrower than what Read
// accepts: the lenient regions of the reader are places where the specification is silent,
// so no other implementation is obliged to accept them.
func PlainProfile(file []byte) bool {
	top, ok := plainObject(file, "id", "version", "crypto", "address")
	if !ok {
		return false
	}
	var id string
	if string(bytes.TrimSpace(top["version"])) != "3" || json.Unmarshal(top["id"], &id) != nil || !IsCanonicalUUID(id) {
		return false
	}
	crypto, ok := plainObject(top["crypto"], "cipher", "ciphertext", "cipherparams", "kdf", "kdfparams", "mac")
	if !ok || string(crypto["cipher"]) != `"`+CipherName+`"` {
		return false
	}
	cp, ok := plainObject(crypto["cipherparams"], "iv")
	if !ok || plainHexLen(cp["iv"]) != 16 || plainHexLen(crypto["mac"]) != 32 || plainHexLen(crypto["ciphertext"]) < 1 {
		return false
	}
	kp, ok := plainObject(crypto["kdfparams"], "dklen", "salt", "n", "r", "p", "c", "prf")
	if !ok || string(kp["dklen"]) != "32" || plainHexLen(kp["salt"]) < 1 {
		return false
	}
	switch string(crypto["kdf"]) {
	case `"` + KDFScrypt + `"`:
		n, ok1 := plainInt(kp["n"])
		r, ok2 := plainInt(kp["r"])
		p, ok3 := plainInt(kp["p"])
		return ok1 && ok2 && ok3 && CheckScrypt(n, r, p, 32) == nil
	case `"` + KDFPBKDF2 + `"`:
		c, ok1 := plainInt(kp["c"])
		return ok1 && c >= 1 && string(kp["prf"]) == `"`+PRFName+`"`
	}
	return false
}

// plainObject decodes raw as a JSON object and returns its members; ok is false when raw is
// not an object, a member name occurs twice, or a member name differs from one of the
// names a reader looks for only by letter case.
func plainObject(raw []byte, names ...string) (map[string]json.RawMessage, bool) {
	dec := json.NewDecoder(bytes.NewReader(raw))
	if t, err := dec.Token(); err != nil || t != json.Delim('{') {
		return nil, false
	}
	out := map[string]json.RawMessage{}
	for dec.More() {
		t, err := dec.Token()
		key, isKey := t.(string)
		if err != nil || !isKey {
			return nil, false
		}
		if _, dup := out[key]; dup {
			return nil, false
		}
		for _, n := range names {
			if key != n && strings.EqualFold(key, n) {
				return nil, false
			}
		}
		var v json.RawMessage
		if err := dec.Decode(&v); err != nil {
			return nil, false
		}
		out[key] = v
	}
	if t, err := dec.Token(); err != nil || t != json.Delim('}') {
		return nil, false
	}
	if _, err := dec.Token(); err == nil { // trailing content
		return nil, false
	}
	return out, true
}

// plainHexLen is the byte length denoted by a JSON string of lower-case hex digits without
// prefix or escapes, -1 for anything else.
func plainHexLen(raw json.RawMessage) int {
	if len(raw) < 2 || raw[0] != '"' || raw[len(raw)-1] != '"' || len(raw)%2 != 0 {
		return -1
	}
	for _, c := range raw[1 : len(raw)-1] {
		if !(c >= '0' && c <= '9' || c >= 'a' && c <= 'f') {
			return -1
		}
	}
	return (len(raw) - 2) / 2
}

// plainInt reads a decimal integer literal without sign, fraction, exponent or leading zeros.
func plainInt(raw json.RawMessage) (int64, bool) {
	s := string(raw)
	if s == "" || len(s) > 18 || (len(s) > 1 && s[0] == '0') {
		return 0, false
	}
	for i := 0; i < len(s); i++ {
		if s[i] < '0' || s[i] > '9' {
			return 0, false
		}
	}
	v, err := strconv.ParseInt(s, 10, 64)
	return v, err == nil
}
