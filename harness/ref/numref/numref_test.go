package numref

import (
	"encoding/hex"
	"fmt"
	"math/big"
	"strings"
	"testing"

	"pgregory.net/rapid"
)

func TestClassifyTable(t *testing.T) {
	two256 := new(big.Int).Lsh(big.NewInt(1), 256)
	type row struct {
		text  string
		class Class
		form  Form
		value string // decimal, for Integer
	}
	rows := []row{
		{"0", Integer, FormDecimal, "0"},
		{"-0", Integer, FormDecimal, "0"},
		{"7", Integer, FormDecimal, "7"},
		{"12345", Integer, FormDecimal, "12345"},
		{"-12345", Integer, FormDecimal, "-12345"},
		{"18446744073709551616", Integer, FormDecimal, "18446744073709551616"},
		{two256.String(), Integer, FormDecimal, two256.String()},
		{"0x0", Integer, FormHex, "0"},
		{"0X0", Integer, FormHex, "0"},
		{"0xabcd1234", Integer, FormHex, "2882343476"},
		{"0XaBcD1234", Integer, FormHex, "2882343476"},
		{"0x000000ff", Integer, FormHex, "255"},
		{"-0x10", Integer, FormHex, "-16"},
		{"0xfff", Integer, FormHex, "4095"},
		{"1e18", Integer, FormFloat, "1000000000000000000"},
		{"1E18", Integer, FormFloat, "1000000000000000000"},
		{"1e+18", Integer, FormFloat, "1000000000000000000"},
		{"1.5e3", Integer, FormFloat, "1500"},
		{"-1.5e3", Integer, FormFloat, "-1500"},
		{"12.0", Integer, FormFloat, "12"},
		{"12.000", Integer, FormFloat, "12"},
		{"0.0", Integer, FormFloat, "0"},
		{"-0.0", Integer, FormFloat, "0"},
		{"0e0", Integer, FormFloat, "0"},
		{"0e999999999999999999999999", Integer, FormFloat, "0"},
		{"0.000e-7", Integer, FormFloat, "0"},
		{"100e-2", Integer, FormFloat, "1"},
		{"1200e-2", Integer, FormFloat, "12"},
		{"0.5e1", Integer, FormFloat, "5"},
		{"0.00012e5", Integer, FormFloat, "12"},
		{"1.0000000000000000000000001e+25", Integer, FormFloat, "10000000000000000000000001"},
		{"1.0e0", Integer, FormFloat, "1"},
		{"1e-1", NotInteger, FormFloat, ""},
		{"1.5", NotInteger, FormFloat, ""},
		{"0.1", NotInteger, FormFloat, ""},
		{"-0.1", NotInteger, FormFloat, ""},
		{"1.5e0", NotInteger, FormFloat, ""},
		{"15e-2", NotInteger, FormFloat, ""},
		{"3.0000000000000000000000000000003", NotInteger, FormFloat, ""},
		{"1." + strings.Repeat("0", 100) + "1", NotInteger, FormFloat, ""},
		{"1e-99999999999999999999", NotInteger, FormFloat, ""},
		{"57896044618658097711785492504343953926634992332820282019728792003956564819968.5", NotInteger, FormFloat, ""},
		// Go base-0 / float-literal oddities
		{"010", Unspecified, FormNone, ""},
		{"00", Unspecified, FormNone, ""},
		{"-007", Unspecified, FormNone, ""},
		{"0b101", Unspecified, FormNone, ""},
		{"0B101", Unspecified, FormNone, ""},
		{"0o17", Unspecified, FormNone, ""},
		{"0O17", Unspecified, FormNone, ""},
		{"1_000", Unspecified, FormNone, ""},
		{"0x_ff", Unspecified, FormNone, ""},
		{"0xf_f", Unspecified, FormNone, ""},
		{"+5", Unspecified, FormNone, ""},
		{"+0x10", Unspecified, FormNone, ""},
		{"+1e3", Unspecified, FormNone, ""},
		{" 5", Unspecified, FormNone, ""},
		{"5 ", Unspecified, FormNone, ""},
		{"\t5\n", Unspecified, FormNone, ""},
		{" 5", Unspecified, FormNone, ""},
		{"5.", Unspecified, FormNone, ""},
		{".5", Unspecified, FormNone, ""},
		{".5e1", Unspecified, FormNone, ""},
		{"01.5", Unspecified, FormNone, ""},
		{"01e2", Unspecified, FormNone, ""},
		{"1p4", Unspecified, FormNone, ""},
		{"1.5P+2", Unspecified, FormNone, ""},
		{"0x1p4", Unspecified, FormNone, ""},
		{"0x1.8p1", Unspecified, FormNone, ""},
		{"0x1.8", Unspecified, FormNone, ""},
		{"1e1_0", Unspecified, FormNone, ""},
		// malformed
		{"", Malformed, FormNone, ""},
		{" ", Malformed, FormNone, ""},
		{"\t\n", Malformed, FormNone, ""},
		{"-", Malformed, FormNone, ""},
		{"+", Malformed, FormNone, ""},
		{"--1", Malformed, FormNone, ""},
		{"+-1", Malformed, FormNone, ""},
		{"-+1", Malformed, FormNone, ""},
		{"- 1", Malformed, FormNone, ""},
		{"0x", Malformed, FormNone, ""},
		{"0X", Malformed, FormNone, ""},
		{"0xGG", Malformed, FormNone, ""},
		{"0x-1", Malformed, FormNone, ""},
		{"x10", Malformed, FormNone, ""},
		{"abc", Malformed, FormNone, ""},
		{"ff", Malformed, FormNone, ""},
		{"1e", Malformed, FormNone, ""},
		{"1e+", Malformed, FormNone, ""},
		{"e5", Malformed, FormNone, ""},
		{".", Malformed, FormNone, ""},
		{"._", Malformed, FormNone, ""},
		{"1.2.3", Malformed, FormNone, ""},
		{"1 2", Malformed, FormNone, ""},
		{" 1 2 ", Malformed, FormNone, ""},
		{"1,000", Malformed, FormNone, ""},
		{"1/2", Malformed, FormNone, ""},
		{"6/2", Malformed, FormNone, ""},
		{"Inf", Malformed, FormNone, ""},
		{"+Inf", Malformed, FormNone, ""},
		{"-inf", Malformed, FormNone, ""},
		{"NaN", Malformed, FormNone, ""},
		{"null", Malformed, FormNone, ""},
		{"true", Malformed, FormNone, ""},
		{"١٢٣", Malformed, FormNone, ""},
		{"１２", Malformed, FormNone, ""},
		{"12\x00", Malformed, FormNone, ""},
		{"1e5e5", Malformed, FormNone, ""},
		{"1.5.e3", Malformed, FormNone, ""},
		{"0x1p", Malformed, FormNone, ""},
	}
	for _, r := range rows {
		d := Classify(r.text)
		if d.Class != r.class || d.Form != r.form {
			t.Errorf("Classify(%q) = %v/%v (%s), want %v/%v", r.text, d.Class, d.Form, d.Reason, r.class, r.form)
			continue
		}
		if r.class == Integer {
			if d.Value == nil || d.Value.String() != r.value {
				t.Errorf("Classify(%q).Value = %v, want %s", r.text, d.Value, r.value)
			}
		} else if d.Value != nil {
			t.Errorf("Classify(%q): value %v for class %v", r.text, d.Value, d.Class)
		}
	}
}

func TestNegFlagAndMagnitude(t *testing.T) {
	if d := Classify("-0.0"); !d.Neg || d.Value.Sign() != 0 {
		t.Errorf("-0.0: %+v", d)
	}
	if d := Classify("1e100001"); d.Class != Integer || !d.Huge || d.Value != nil || d.AbsBelowPow2(256) {
		t.Errorf("1e100001: %+v", d)
	}
	if d := Classify("1e100000"); d.Class != Integer || d.Huge || d.Value == nil || d.Value.BitLen() < 332000 {
		t.Errorf("1e100000 not materialised")
	}
	if d := Classify("1e-100000"); d.Class != NotInteger || !d.Tiny || !d.AbsBelowPow2(256) {
		t.Errorf("1e-100000: %+v", d)
	}
	two256 := new(big.Int).Lsh(big.NewInt(1), 256)
	m1 := new(big.Int).Sub(two256, big.NewInt(1))
	if d := Classify(m1.String() + ".5"); d.Class != NotInteger || !d.AbsBelowPow2(256) {
		t.Errorf("2^256-1+.5: %+v", d)
	}
	if d := Classify(two256.String() + ".5"); d.Class != NotInteger || d.AbsBelowPow2(256) {
		t.Errorf("2^256+.5: %+v", d)
	}
	if d := Classify(two256.String()); d.AbsBelowPow2(256) || !d.AbsBelowPow2(257) {
		t.Errorf("2^256 magnitude")
	}
	if d := Classify("-" + m1.String()); !d.AbsBelowPow2(256) {
		t.Errorf("-(2^256-1) magnitude")
	}
	if d := Classify("000.5"); d.Class != Unspecified {
		t.Errorf("000.5: %+v", d)
	}
	if d := Classify("1.230e2"); d.Digits != 4 || !d.HasFrac || !d.HasExp || d.Exp.Int64() != 2 || d.Value.Int64() != 123 {
		t.Errorf("1.230e2: %+v", d)
	}
	if d := Classify("0.00120"); d.Digits != 3 {
		t.Errorf("0.00120 digits: %+v", d)
	}
	if !Classify("12").IsJSONNumber() || !Classify("-1.5e3").IsJSONNumber() || Classify("0x12").IsJSONNumber() || Classify("012").IsJSONNumber() {
		t.Errorf("IsJSONNumber")
	}
}

// The strict float grammar is a subset of what big.Rat.SetString reads with the same
// meaning; use it as an anchor for the exact evaluation.
func TestStrictFloatAgainstBigRat(t *testing.T) {
	rapid.Check(t, func(rt *rapid.T) {
		intPart := rapid.OneOf(rapid.Just("0"), rapid.StringMatching(`[1-9][0-9]{0,90}`)).Draw(rt, "int")
		frac := rapid.OneOf(rapid.Just(""), rapid.StringMatching(`\.[0-9]{1,90}`), rapid.StringMatching(`\.0{1,80}[0-9]{0,3}`)).Draw(rt, "frac")
		exp := rapid.OneOf(rapid.Just(""), rapid.StringMatching(`[eE][+-]?[0-9]{1,2}`), rapid.StringMatching(`[eE][+-]?0{0,3}[0-9]{1,3}`)).Draw(rt, "exp")
		sign := rapid.SampledFrom([]string{"", "-"}).Draw(rt, "sign")
		text := sign + intPart + frac + exp
		d := Classify(text)
		r, ok := new(big.Rat).SetString(text)
		if !ok {
			rt.Fatalf("big.Rat rejects %q", text)
		}
		if frac == "" && exp == "" {
			if d.Class != Integer || d.Form != FormDecimal || d.Value.Cmp(r.Num()) != 0 || !r.IsInt() {
				rt.Fatalf("%q: %+v vs %v", text, d, r)
			}
			return
		}
		if d.Form != FormFloat {
			rt.Fatalf("%q: form %v", text, d.Form)
		}
		if r.IsInt() != (d.Class == Integer) {
			rt.Fatalf("%q: class %v but big.Rat says IsInt=%v", text, d.Class, r.IsInt())
		}
		if d.Class == Integer && !d.Huge && d.Value.Cmp(r.Num()) != 0 {
			rt.Fatalf("%q: value %v want %v", text, d.Value, r.Num())
		}
		if d.Huge || d.Tiny {
			return // rational deliberately not materialised (documented); class was compared above
		}
		if d.Num == nil || d.Num.Cmp(r.Num()) != 0 || d.Den.Cmp(r.Denom()) != 0 {
			rt.Fatalf("%q: rational %v/%v want %v", text, d.Num, d.Den, r)
		}
		if d.Neg != (sign == "-") {
			rt.Fatalf("%q: Neg", text)
		}
	})
}

func TestDecHexConversion(t *testing.T) {
	rapid.Check(t, func(rt *rapid.T) {
		b := rapid.SliceOfN(rapid.Byte(), 0, 70).Draw(rt, "b")
		v := new(big.Int).SetBytes(b)
		if got := decToInt(v.String()); got.Cmp(v) != 0 {
			rt.Fatalf("decToInt(%s) = %s", v, got)
		}
		if got := decToInt("000" + v.String()); got.Cmp(v) != 0 {
			rt.Fatalf("decToInt leading zeros")
		}
		hx := fmt.Sprintf("%x", v)
		if got := hexToInt(hx); got.Cmp(v) != 0 {
			rt.Fatalf("hexToInt(%s) = %s", hx, got)
		}
		if got := hexToInt(strings.ToUpper("0" + hx)); got.Cmp(v) != 0 {
			rt.Fatalf("hexToInt upper")
		}
		if got, want := Hex0x(v), "0x"+hx; got != want {
			rt.Fatalf("Hex0x = %s want %s", got, want)
		}
		if d := Classify(Hex0x(v)); d.Class != Integer || d.Value.Cmp(v) != 0 {
			rt.Fatalf("Classify(Hex0x) round trip")
		}
	})
	if Hex0x(big.NewInt(0)) != "0x0" || Hex0x(big.NewInt(255)) != "0xff" || Hex0x(big.NewInt(256)) != "0x100" || Hex0x(big.NewInt(-16)) != "-0x10" {
		t.Errorf("Hex0x literals")
	}
}

// Vectors from EIP-55 (https://eips.ethereum.org/EIPS/eip-55) plus the addresses the
// repository's own tests spell out.
func TestEIP55Vectors(t *testing.T) {
	vectors := []string{
		// all caps
		"0x52908400098527886E0F7030069857D2E4169EE7",
		"0x8617E340B3D01FA5F11F306F4090FD50E238070D",
		// all lower
		"0xde709f2102306220921060314715629080e2fb77",
		"0x27b1fdb04752bbc536007a920d24acb045561c26",
		// normal
		"0x5aAeb6053F3E94C9b9A09f33669435E7Ef1BeAed",
		"0xfB6916095ca1df60bB79Ce92cE3Ea74c37c5d359",
		"0xdbF03B407c01E7cD3CBea99509d93f8DDDC8C6FB",
		"0xD1220A0cf47c7B9Be7A2E6BA89F429762e7b9aDb",
		// from pkg/ethtypes/address_test.go
		"0x3CCb85578722B5B9250C1a76b4967166a6Ff7B8b",
		"0x162534E1aE19712499CE4CB05263D074D7F7aF90",
		"0x497EEdc4299Dea2f2A364Be10025d0aD0f702De3",
	}
	for _, v := range vectors {
		b, err := hex.DecodeString(strings.ToLower(v[2:]))
		if err != nil {
			t.Fatal(err)
		}
		if got := EIP55(b); got != v {
			t.Errorf("EIP55(%x) = %s, want %s", b, got, v)
		}
		pb, prefixed, class := ParseHexBytes(v)
		if class != HexValid || !prefixed || hex.EncodeToString(pb) != strings.ToLower(v[2:]) {
			t.Errorf("ParseHexBytes(%s)", v)
		}
	}
}

func TestParseHexBytes(t *testing.T) {
	type row struct {
		text     string
		class    HexClass
		hex      string
		prefixed bool
	}
	for _, r := range []row{
		{"", HexValid, "", false},
		{"0x", HexValid, "", true},
		{"00", HexValid, "00", false},
		{"0x00", HexValid, "00", true},
		{"0xFEEDbeef", HexValid, "feedbeef", true},
		{"FEEDbeef", HexValid, "feedbeef", false},
		{"0XFEEDbeef", HexUnspecified, "feedbeef", true},
		{"0X", HexUnspecified, "", true},
		{"0", HexInvalid, "", false},
		{"0x0", HexInvalid, "", true},
		{"abc", HexInvalid, "", false},
		{"0xabc", HexInvalid, "", true},
		{"0x0x12", HexInvalid, "", true},
		{"wrong", HexInvalid, "", false},
		{"0xzz", HexInvalid, "", true},
		{" 00", HexInvalid, "", false},
		{"00 ", HexInvalid, "", false},
		{"x0", HexInvalid, "", false},
		{"0X0g", HexInvalid, "", true},
		{"é0", HexInvalid, "", false},
	} {
		b, prefixed, class := ParseHexBytes(r.text)
		if class != r.class || prefixed != r.prefixed || (class != HexInvalid && hex.EncodeToString(b) != r.hex) {
			t.Errorf("ParseHexBytes(%q) = %x, %v, %v", r.text, b, prefixed, class)
		}
	}
	if LowerHex([]byte{0x00, 0xAB, 0xff}) != "00abff" {
		t.Errorf("LowerHex")
	}
}
