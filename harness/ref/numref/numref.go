// Package numref is the independent reference for property C19 (and the numeric
// inputs of C02/C14): what integer, if any, a piece of numeric text denotes.
//
// It is written from an explicit grammar with exact integer arithmetic and does
// not import the library's ethtypes package.  Trusted primitives: math/big
// (integer arithmetic only - no big.Float, no big.Int.SetString with base 0) and
// legacy Keccak-256 via verifharness/ref/secp.
//
// # Strict grammar (texts with exactly one denotation)
//
//	text     = [ "-" ] ( decimal | hex | float )
//	decimal  = "0" | nzdigit { digit }                       ; no leading zeros
//	hex      = "0" ( "x" | "X" ) hexdigit { hexdigit }        ; any letter case, leading zeros allowed
//	float    = decimal [ "." digit { digit } ] [ ( "e" | "E" ) [ "+" | "-" ] digit { digit } ]
//	           with a fraction and/or an exponent present     ; i.e. the JSON number grammar (RFC 8259)
//
// A strict text denotes the rational  mantissa * 10^(exponent - #fraction digits);
// it is classified Integer when that rational is an integer, NotInteger otherwise.
//
// # Unspecified texts
//
// The library documents "Go's default base-0 parsing" for its integer types, so
// spellings that only Go's literal syntax gives a meaning to have no single
// denotation that the property could pin (e.g. "010" is 8 in Go and 10 to a
// human): decimals with leading zeros, the 0b/0o prefixes, '_' digit separators,
// a leading '+', a leading or trailing '.', a binary 'p' exponent, hexadecimal
// floats, and surrounding white space.  They are classified Unspecified and
// nothing is asserted about them.
//
// Everything else (empty text, "0x", "abc", "1e", "1/2", "Inf", "NaN", embedded
// blanks, non-ASCII digits, ...) is Malformed: it denotes no number.
package numref

import (
	"math/big"
	"strings"
	"unicode"

	"verifharness/ref/secp"
)

// Class is the verdict on a text.
type Class int

const (
	// Malformed: the text denotes no number under any documented grammar; a parser must reject it.
	Malformed Class = iota
	// NotInteger: strict grammar, denotes a rational that is not an integer; a parser must reject it.
	NotInteger
	// Integer: strict grammar, denotes exactly one integer.
	Integer
	// Unspecified: Go base-0 / Go float-literal oddity or surrounding white space; nothing asserted.
	Unspecified
)

func (c Class) String() string {
	switch c {
	case Malformed:
		return "malformed"
	case NotInteger:
		return "not-integer"
	case Integer:
		return "integer"
	default:
		return "unspecified"
	}
}

// Form is the spelling of a strict text.
type Form int

const (
	FormNone    Form = iota
	FormDecimal      // [-] decimal
	FormHex          // [-] 0x hex
	FormFloat        // [-] JSON number with a fraction and/or an exponent
)

func (f Form) String() string {
	switch f {
	case FormDecimal:
		return "decimal"
	case FormHex:
		return "hex"
	case FormFloat:
		return "float"
	default:
		return "none"
	}
}

// MaxExp10 bounds the decimal exponent up to which an integer is materialised.
const MaxExp10 = 100000

// Denotation is the result of Classify.
type Denotation struct {
	Class Class
	Form  Form
	// Neg: the text starts with '-' (also for the spellings of negative zero).
	Neg bool
	// Value is the denoted integer (Class Integer, unless Huge).
	Value *big.Int
	// Num/Den: the denoted rational in lowest terms (Integer and NotInteger unless Huge/Tiny).
	Num, Den *big.Int
	// Huge: an integer of magnitude >= 10^MaxExp10 (exponent spelling) that is not materialised.
	Huge bool
	// Tiny: a non-integer of magnitude < 1 whose denominator is not materialised.
	Tiny bool
	// Digits: FormFloat - mantissa digits (integer and fraction part together) after removing
	// leading zeros, trailing zeros included; FormDecimal/FormHex - digits after sign and prefix.
	Digits int
	// Exp is the written exponent (FormFloat; 0 when absent).
	Exp *big.Int
	// HasFrac / HasExp: the float spelling has a '.' / an exponent part.
	HasFrac, HasExp bool
	// Reason says why a text is Malformed or Unspecified.
	Reason string
}

// IsJSONNumber reports whether the (strict) text is also a JSON number token:
// decimal and float spellings are, hex is not.
func (d Denotation) IsJSONNumber() bool {
	return (d.Class == Integer || d.Class == NotInteger) && (d.Form == FormDecimal || d.Form == FormFloat)
}

// AbsBelowPow2 reports whether the denoted rational has magnitude < 2^bits.
// Only meaningful for Integer / NotInteger.
func (d Denotation) AbsBelowPow2(bits uint) bool {
	if d.Huge {
		return false
	}
	if d.Tiny {
		return true
	}
	if d.Num == nil {
		return false
	}
	lim := new(big.Int).Lsh(big.NewInt(1), bits)
	lim.Mul(lim, d.Den)
	return new(big.Int).Abs(d.Num).Cmp(lim) < 0
}

func isDigit(c byte) bool { return c >= '0' && c <= '9' }
func isHex(c byte) bool {
	return isDigit(c) || (c >= 'a' && c <= 'f') || (c >= 'A' && c <= 'F')
}

func hexVal(c byte) int {
	switch {
	case c >= '0' && c <= '9':
		return int(c - '0')
	case c >= 'a' && c <= 'f':
		return int(c-'a') + 10
	case c >= 'A' && c <= 'F':
		return int(c-'A') + 10
	}
	return -1
}

func allDigits(s string) bool {
	if s == "" {
		return false
	}
	for i := 0; i < len(s); i++ {
		if !isDigit(s[i]) {
			return false
		}
	}
	return true
}

// decToInt converts a string of decimal digits (leading zeros allowed) exactly.
// Own conversion by chunks of 18 digits; no SetString.
func decToInt(digits string) *big.Int {
	v := new(big.Int)
	chunkMul := new(big.Int)
	for len(digits) > 0 {
		n := len(digits)
		if n > 18 {
			n = 18
		}
		var c, m uint64 = 0, 1
		for i := 0; i < n; i++ {
			c = c*10 + uint64(digits[i]-'0')
			m *= 10
		}
		v.Mul(v, chunkMul.SetUint64(m))
		v.Add(v, new(big.Int).SetUint64(c))
		digits = digits[n:]
	}
	return v
}

// hexToInt converts a string of hex digits exactly (4 bits per digit).
func hexToInt(digits string) *big.Int {
	if len(digits)%2 == 1 {
		digits = "0" + digits
	}
	b := make([]byte, len(digits)/2)
	for i := range b {
		b[i] = byte(hexVal(digits[2*i])<<4 | hexVal(digits[2*i+1]))
	}
	return new(big.Int).SetBytes(b)
}

func pow10(n int) *big.Int {
	return new(big.Int).Exp(big.NewInt(10), big.NewInt(int64(n)), nil)
}

// Classify decides what text denotes.
func Classify(text string) Denotation {
	if text == "" {
		return Denotation{Class: Malformed, Reason: "empty"}
	}
	trimmed := strings.TrimFunc(text, unicode.IsSpace)
	if trimmed != text {
		if trimmed == "" {
			return Denotation{Class: Malformed, Reason: "white space only"}
		}
		if d := classifyToken(trimmed); d.Class == Malformed {
			d.Reason = "surrounding white space; " + d.Reason
			return d
		}
		return Denotation{Class: Unspecified, Reason: "surrounding white space"}
	}
	return classifyToken(text)
}

func classifyToken(t string) Denotation {
	neg, plus := false, false
	body := t
	switch t[0] {
	case '-':
		neg, body = true, t[1:]
	case '+':
		plus, body = true, t[1:]
	}
	if body == "" {
		return Denotation{Class: Malformed, Reason: "sign only"}
	}
	d := classifyBody(body)
	if d.Class == Malformed || d.Class == Unspecified {
		return d
	}
	if plus {
		return Denotation{Class: Unspecified, Reason: "leading +"}
	}
	if neg {
		d.Neg = true
		if d.Value != nil {
			d.Value.Neg(d.Value)
		}
		if d.Num != nil {
			d.Num.Neg(d.Num)
		}
	}
	return d
}

func integerDenotation(form Form, v *big.Int, digits int) Denotation {
	return Denotation{Class: Integer, Form: form, Value: v, Num: new(big.Int).Set(v), Den: big.NewInt(1), Digits: digits, Exp: new(big.Int)}
}

// classifyBody handles the text after the optional sign.
func classifyBody(b string) Denotation {
	// strict decimal
	if allDigits(b) {
		if len(b) > 1 && b[0] == '0' {
			return Denotation{Class: Unspecified, Reason: "decimal with leading zero (Go base-0 octal)"}
		}
		return integerDenotation(FormDecimal, decToInt(b), len(b))
	}
	// prefixed forms
	if len(b) >= 2 && b[0] == '0' && strings.IndexByte("xXbBoO", b[1]) >= 0 {
		rest := b[2:]
		if b[1] == 'x' || b[1] == 'X' {
			ok := rest != ""
			for i := 0; i < len(rest) && ok; i++ {
				ok = isHex(rest[i])
			}
			if ok {
				return integerDenotation(FormHex, hexToInt(rest), len(rest))
			}
		}
		if (b[1] == 'b' || b[1] == 'B' || b[1] == 'o' || b[1] == 'O') && looseBinOct(rest) {
			// e.g. "0B0e+0": Go's rational syntax reads a binary/octal mantissa with a DECIMAL 'e' exponent
			// (e is not a binary digit). 0b/0o literals are outside the grammar the property names.
			return Denotation{Class: Unspecified, Reason: "Go 0b/0o literal (with '_' separators, fraction or e/p exponent)"}
		}
		if loosePrefixed(rest) {
			return Denotation{Class: Unspecified, Reason: "Go base-prefixed literal (0b/0o, '_' separators or hexadecimal float)"}
		}
		return Denotation{Class: Malformed, Reason: "bad digits after base prefix"}
	}
	// strict float (JSON number with fraction and/or exponent)
	if d, ok := strictFloat(b); ok {
		return d
	}
	if looseDecimal(b) {
		return Denotation{Class: Unspecified, Reason: "Go literal oddity (leading zeros, '_', bare '.', 'p' exponent)"}
	}
	return Denotation{Class: Malformed, Reason: "not numeric"}
}

// strictFloat parses  decimal [ "." digits ] [ (e|E) [+|-] digits ]  with at least one of
// the optional parts present, and evaluates it exactly.
func strictFloat(b string) (Denotation, bool) {
	i := 0
	for i < len(b) && isDigit(b[i]) {
		i++
	}
	intPart := b[:i]
	if intPart == "" || (len(intPart) > 1 && intPart[0] == '0') {
		return Denotation{}, false
	}
	frac := ""
	hasFrac, hasExp := false, false
	if i < len(b) && b[i] == '.' {
		j := i + 1
		for j < len(b) && isDigit(b[j]) {
			j++
		}
		frac = b[i+1 : j]
		if frac == "" {
			return Denotation{}, false
		}
		hasFrac = true
		i = j
	}
	expNeg := false
	expDigits := ""
	if i < len(b) && (b[i] == 'e' || b[i] == 'E') {
		j := i + 1
		if j < len(b) && (b[j] == '+' || b[j] == '-') {
			expNeg = b[j] == '-'
			j++
		}
		k := j
		for k < len(b) && isDigit(b[k]) {
			k++
		}
		expDigits = b[j:k]
		if expDigits == "" {
			return Denotation{}, false
		}
		hasExp = true
		i = k
	}
	if i != len(b) || (!hasFrac && !hasExp) {
		return Denotation{}, false
	}
	exp := new(big.Int)
	if hasExp {
		exp = decToInt(expDigits)
		if expNeg {
			exp.Neg(exp)
		}
	}
	d := Denotation{Form: FormFloat, HasFrac: hasFrac, HasExp: hasExp, Exp: exp}
	mant := strings.TrimLeft(intPart+frac, "0")
	d.Digits = len(mant)
	if mant == "" {
		d.Class = Integer
		d.Value = new(big.Int)
		d.Num, d.Den = new(big.Int), big.NewInt(1)
		return d, true
	}
	// value = mant * 10^k, k = exp - len(frac); normalise so that 10 does not divide the mantissa
	k := new(big.Int).Sub(exp, big.NewInt(int64(len(frac))))
	norm := strings.TrimRight(mant, "0")
	k.Add(k, big.NewInt(int64(len(mant)-len(norm))))
	m := decToInt(norm)
	if k.Sign() >= 0 {
		d.Class = Integer
		if !k.IsInt64() || k.Int64() > MaxExp10 {
			d.Huge = true
			return d, true
		}
		d.Value = new(big.Int).Mul(m, pow10(int(k.Int64())))
		d.Num, d.Den = new(big.Int).Set(d.Value), big.NewInt(1)
		return d, true
	}
	// 10 does not divide m and k < 0: m * 10^k is not an integer
	d.Class = NotInteger
	nk := new(big.Int).Neg(k)
	if !nk.IsInt64() || nk.Int64() > int64(len(norm))+400 {
		d.Tiny = true
		return d, true
	}
	num, den := m, pow10(int(nk.Int64()))
	g := new(big.Int).GCD(nil, nil, num, den)
	d.Num, d.Den = new(big.Int).Quo(num, g), new(big.Int).Quo(den, g)
	return d, true
}

// looseDecimal recognises the decimal-looking texts that Go's literal syntax may
// give a meaning to:  [0-9_]* [ "." [0-9_]* ] [ (e|E|p|P) [+|-] [0-9_]+ ]  with at
// least one digit in the mantissa.
func looseDecimal(b string) bool {
	i, digits := 0, 0
	for i < len(b) && (isDigit(b[i]) || b[i] == '_') {
		if b[i] != '_' {
			digits++
		}
		i++
	}
	if i < len(b) && b[i] == '.' {
		i++
		for i < len(b) && (isDigit(b[i]) || b[i] == '_') {
			if b[i] != '_' {
				digits++
			}
			i++
		}
	}
	if digits == 0 {
		return false
	}
	return looseExponent(b[i:], "eEpP")
}

func looseExponent(s string, markers string) bool {
	if s == "" {
		return true
	}
	if strings.IndexByte(markers, s[0]) < 0 {
		return false
	}
	i := 1
	if i < len(s) && (s[i] == '+' || s[i] == '-') {
		i++
	}
	digits := 0
	for i < len(s) && (isDigit(s[i]) || s[i] == '_') {
		if s[i] != '_' {
			digits++
		}
		i++
	}
	return digits > 0 && i == len(s)
}

// loosePrefixed recognises what may follow a 0b/0o/0x prefix in Go's literal syntax:
// hex digits, '_' and at most one '.', at least one digit, then an optional p exponent.
// looseBinOct: digits/underscores/one dot, then an optional e/E/p/P exponent.
func looseBinOct(rest string) bool {
	i, digits, dots := 0, 0, 0
	for i < len(rest) && ((rest[i] >= '0' && rest[i] <= '9') || rest[i] == '_' || rest[i] == '.') {
		if rest[i] >= '0' && rest[i] <= '9' {
			digits++
		}
		if rest[i] == '.' {
			dots++
		}
		i++
	}
	if digits == 0 || dots > 1 {
		return false
	}
	return looseExponent(rest[i:], "eEpP")
}

func loosePrefixed(rest string) bool {
	i, digits, dots := 0, 0, 0
	for i < len(rest) && (isHex(rest[i]) || rest[i] == '_' || rest[i] == '.') {
		if isHex(rest[i]) {
			digits++
		}
		if rest[i] == '.' {
			dots++
		}
		i++
	}
	if digits == 0 || dots > 1 {
		return false
	}
	return looseExponent(rest[i:], "pP")
}

const lowerHex = "0123456789abcdef"

// Hex0x is the canonical JSON form of a non-negative integer: "0x" + lower-case hex
// without leading zeros ("0x0" for zero).  A negative value is rendered "-0x…"
// (outside the domain of the library's types).
func Hex0x(v *big.Int) string {
	var sb strings.Builder
	if v.Sign() < 0 {
		sb.WriteByte('-')
	}
	sb.WriteString("0x")
	b := new(big.Int).Abs(v).Bytes() // big-endian, no leading zero bytes
	if len(b) == 0 {
		sb.WriteByte('0')
		return sb.String()
	}
	for i, c := range b {
		if i > 0 || c>>4 != 0 {
			sb.WriteByte(lowerHex[c>>4])
		}
		sb.WriteByte(lowerHex[c&0xf])
	}
	return sb.String()
}

// LowerHex renders bytes as lower-case hex without prefix.
func LowerHex(b []byte) string {
	out := make([]byte, 2*len(b))
	for i, c := range b {
		out[2*i] = lowerHex[c>>4]
		out[2*i+1] = lowerHex[c&0xf]
	}
	return string(out)
}

// EIP55 renders a 20-byte address in the EIP-55 mixed-case checksum form:
// the i-th hex digit of the address is upper-cased iff it is a letter and the i-th
// nibble of keccak256(lower-case hex address, as ASCII, without 0x) is >= 8.
func EIP55(addr []byte) string {
	lower := LowerHex(addr)
	h := secp.Keccak256([]byte(lower))
	out := []byte("0x" + lower)
	for i := 0; i < len(lower); i++ {
		nib := h[i/2] >> 4
		if i%2 == 1 {
			nib = h[i/2] & 0xf
		}
		c := lower[i]
		if c >= 'a' && c <= 'f' && nib >= 8 {
			out[2+i] = c - 'a' + 'A'
		}
	}
	return string(out)
}

// HexClass is the verdict on a hex byte-string text.
type HexClass int

const (
	// HexInvalid: not hex (odd length, non-hex character, misplaced prefix); must be rejected.
	HexInvalid HexClass = iota
	// HexValid: optional "0x" then an even number of hex digits in any letter case.
	HexValid
	// HexUnspecified: an upper-case "0X" prefix followed by valid hex (the library documents "0x" only).
	HexUnspecified
)

// ParseHexBytes decides which bytes a hex text denotes: an optional "0x" prefix
// followed by an even number of hex digits in any letter case (the empty string
// and "0x" denote the empty byte string).
func ParseHexBytes(text string) (b []byte, prefixed bool, class HexClass) {
	body := text
	class = HexValid
	if strings.HasPrefix(text, "0x") {
		body, prefixed = text[2:], true
	} else if strings.HasPrefix(text, "0X") {
		body, prefixed, class = text[2:], true, HexUnspecified
	}
	if len(body)%2 != 0 {
		return nil, prefixed, HexInvalid
	}
	out := make([]byte, len(body)/2)
	for i := range out {
		hi, lo := hexVal(body[2*i]), hexVal(body[2*i+1])
		if hi < 0 || lo < 0 {
			return nil, prefixed, HexInvalid
		}
		out[i] = byte(hi<<4 | lo)
	}
	return out, prefixed, class
}
