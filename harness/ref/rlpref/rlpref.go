// Package rlpref is an independent implementation of Recursive Length Prefix
// encoding written from the Ethereum Yellow Paper (Appendix B).  It does not
// import the package it judges.
package rlpref

import (
	"encoding/hex"
	"encoding/json"
	"errors"
	"fmt"
	"math/big"
)

// Item is an RLP tree: a byte string or a list of items.
type Item struct {
	IsList bool
	Str    []byte
	List   []Item
}

// S makes a string item.
func S(b []byte) Item {
	if b == nil {
		b = []byte{}
	}
	return Item{Str: b}
}

// L makes a list item.
func L(items ...Item) Item {
	if items == nil {
		items = []Item{}
	}
	return Item{IsList: true, List: items}
}

// Int makes the minimal big-endian string item for a non-negative integer.
func Int(i *big.Int) Item {
	if i == nil {
		return S(nil)
	}
	return S(i.Bytes())
}

// MarshalJSON renders strings as hex text and lists as JSON arrays.
func (it Item) MarshalJSON() ([]byte, error) {
	if it.IsList {
		if it.List == nil {
			return []byte("[]"), nil
		}
		return json.Marshal(it.List)
	}
	return json.Marshal(hex.EncodeToString(it.Str))
}

// UnmarshalJSON is the inverse of MarshalJSON.
func (it *Item) UnmarshalJSON(b []byte) error {
	if len(b) > 0 && b[0] == '[' {
		var l []Item
		if err := json.Unmarshal(b, &l); err != nil {
			return err
		}
		if l == nil {
			l = []Item{}
		}
		*it = Item{IsList: true, List: l}
		return nil
	}
	var s string
	if err := json.Unmarshal(b, &s); err != nil {
		return err
	}
	d, err := hex.DecodeString(s)
	if err != nil {
		return err
	}
	*it = Item{Str: d}
	return nil
}

// Equal compares two trees.
func Equal(a, b Item) bool {
	if a.IsList != b.IsList {
		return false
	}
	if !a.IsList {
		return string(a.Str) == string(b.Str)
	}
	if len(a.List) != len(b.List) {
		return false
	}
	for i := range a.List {
		if !Equal(a.List[i], b.List[i]) {
			return false
		}
	}
	return true
}

// Depth returns the list nesting depth (a string has depth 0).
func Depth(a Item) int {
	if !a.IsList {
		return 0
	}
	d := 0
	for _, c := range a.List {
		if x := Depth(c); x > d {
			d = x
		}
	}
	return d + 1
}

func beLen(n int) []byte {
	var out []byte
	for n > 0 {
		out = append([]byte{byte(n & 0xff)}, out...)
		n >>= 8
	}
	return out
}

func prefix(base byte, n int) []byte {
	if n <= 55 {
		return []byte{base + byte(n)}
	}
	l := beLen(n)
	return append([]byte{base + 55 + byte(len(l))}, l...)
}

// Encode returns the canonical RLP of the tree.
func Encode(it Item) []byte {
	if !it.IsList {
		if len(it.Str) == 1 && it.Str[0] < 0x80 {
			return []byte{it.Str[0]}
		}
		return append(prefix(0x80, len(it.Str)), it.Str...)
	}
	var payload []byte
	for _, c := range it.List {
		payload = append(payload, Encode(c)...)
	}
	return append(prefix(0xc0, len(payload)), payload...)
}

// EncodedLen returns len(Encode(it)) without building it.
func EncodedLen(it Item) int {
	if !it.IsList {
		if len(it.Str) == 1 && it.Str[0] < 0x80 {
			return 1
		}
		return len(prefix(0x80, len(it.Str))) + len(it.Str)
	}
	n := 0
	for _, c := range it.List {
		n += EncodedLen(c)
	}
	return len(prefix(0xc0, n)) + n
}

// ErrNonCanonical marks inputs that a length-prefix reader can follow but that
// are not the canonical encoding of anything.
var ErrNonCanonical = errors.New("non-canonical RLP")

// ErrTruncated marks inputs that end before the announced length.
var ErrTruncated = errors.New("truncated RLP")

// Decode reads the first item from b. With strict=true only the canonical
// encoding is accepted (minimal length-of-length, no leading zero in lengths,
// lengths <= 55 in short form, single bytes < 0x80 as themselves).  It returns
// the item and the number of bytes consumed.
func Decode(b []byte, strict bool) (Item, int, error) {
	if len(b) == 0 {
		return Item{}, 0, ErrTruncated
	}
	p := b[0]
	switch {
	case p < 0x80:
		return S([]byte{p}), 1, nil
	case p <= 0xb7:
		n := int(p - 0x80)
		if len(b)-1 < n {
			return Item{}, 0, ErrTruncated
		}
		if strict && n == 1 && b[1] < 0x80 {
			return Item{}, 0, fmt.Errorf("%w: single byte %#x encoded with prefix", ErrNonCanonical, b[1])
		}
		return S(append([]byte{}, b[1:1+n]...)), 1 + n, nil
	case p <= 0xbf:
		n, hdr, err := longLen(b, int(p-0xb7), strict)
		if err != nil {
			return Item{}, 0, err
		}
		return S(append([]byte{}, b[hdr:hdr+n]...)), hdr + n, nil
	case p <= 0xf7:
		n := int(p - 0xc0)
		if len(b)-1 < n {
			return Item{}, 0, ErrTruncated
		}
		l, err := decodeList(b[1:1+n], strict)
		if err != nil {
			return Item{}, 0, err
		}
		return l, 1 + n, nil
	default:
		n, hdr, err := longLen(b, int(p-0xf7), strict)
		if err != nil {
			return Item{}, 0, err
		}
		l, err := decodeList(b[hdr:hdr+n], strict)
		if err != nil {
			return Item{}, 0, err
		}
		return l, hdr + n, nil
	}
}

func longLen(b []byte, lol int, strict bool) (n, hdr int, err error) {
	if len(b)-1 < lol {
		return 0, 0, ErrTruncated
	}
	lb := b[1 : 1+lol]
	if strict && lb[0] == 0 {
		return 0, 0, fmt.Errorf("%w: leading zero in length", ErrNonCanonical)
	}
	v := new(big.Int).SetBytes(lb)
	if !v.IsInt64() || v.Int64() > int64(len(b)) {
		return 0, 0, ErrTruncated
	}
	n = int(v.Int64())
	if strict && n <= 55 {
		return 0, 0, fmt.Errorf("%w: long form for length %d", ErrNonCanonical, n)
	}
	hdr = 1 + lol
	if len(b)-hdr < n {
		return 0, 0, ErrTruncated
	}
	return n, hdr, nil
}

func decodeList(payload []byte, strict bool) (Item, error) {
	out := L()
	for len(payload) > 0 {
		it, n, err := Decode(payload, strict)
		if err != nil {
			return Item{}, err
		}
		out.List = append(out.List, it)
		payload = payload[n:]
	}
	return out, nil
}
