package rlpref

import (
	"encoding/hex"
	"math/big"
	"testing"
)

// Anchors: the examples of the Ethereum RLP specification (ethereum.org / Yellow Paper appendix B).
func TestSpecExamples(t *testing.T) {
	lorem := "Lorem ipsum dolor sit amet, consectetur adipisicing elit"
	cases := []struct {
		it   Item
		want string
	}{
		{S([]byte("dog")), "83646f67"},
		{L(S([]byte("cat")), S([]byte("dog"))), "c88363617483646f67"},
		{S(nil), "80"},
		{L(), "c0"},
		{Int(big.NewInt(0)), "80"},
		{S([]byte{0}), "00"},
		{Int(big.NewInt(15)), "0f"},
		{Int(big.NewInt(1024)), "820400"},
		{L(L(), L(L()), L(L(), L(L()))), "c7c0c1c0c3c0c1c0"},
		{S([]byte(lorem)), "b838" + hex.EncodeToString([]byte(lorem))},
		{S([]byte{0x7f}), "7f"},
		{S([]byte{0x80}), "8180"},
	}
	for _, c := range cases {
		got := hex.EncodeToString(Encode(c.it))
		if got != c.want {
			t.Errorf("Encode: got %s want %s", got, c.want)
		}
		if EncodedLen(c.it) != len(c.want)/2 {
			t.Errorf("EncodedLen %d want %d", EncodedLen(c.it), len(c.want)/2)
		}
		b, _ := hex.DecodeString(c.want)
		for _, strict := range []bool{true, false} {
			it, n, err := Decode(append(b, 0xff), strict)
			if err != nil || n != len(b) || !Equal(it, c.it) {
				t.Errorf("Decode(strict=%v) of %s: n=%d err=%v", strict, c.want, n, err)
			}
		}
	}
	// non-canonical forms: accepted leniently, refused strictly
	for _, h := range []string{"8100", "817f", "b80100", "b90001" + "00", "f800", "b8" + "37" + hex.EncodeToString(make([]byte, 55))} {
		b, _ := hex.DecodeString(h)
		if _, _, err := Decode(b, true); err == nil {
			t.Errorf("strict decoder accepts non-canonical %s", h)
		}
		if _, _, err := Decode(b, false); err != nil {
			t.Errorf("lenient decoder rejects %s: %v", h, err)
		}
	}
	// truncated
	for _, h := range []string{"", "81", "b8", "b838", "c1", "f8", "bf00", "c2c1"} {
		b, _ := hex.DecodeString(h)
		if _, _, err := Decode(b, false); err == nil {
			t.Errorf("lenient decoder accepts truncated %q", h)
		}
	}
}
