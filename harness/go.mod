module verifharness

go 1.23

toolchain go1.23.5

require (
	github.com/aidarkhanov/nanoid v1.0.8
	github.com/beorn7/perks v1.0.1
	github.com/btcsuite/btcd/btcec/v2 v2.3.2
	github.com/cespare/xxhash/v2 v2.2.0
	github.com/davecgh/go-spew v1.1.2-0.20180830191138-d8f796af33cc
	github.com/decred/dcrd/dcrec/secp256k1/v4 v4.2.0
	github.com/docker/go-units v0.5.0
	github.com/fsnotify/fsnotify v1.7.0
	github.com/getkin/kin-openapi v0.122.0
	github.com/ghodss/yaml v1.0.0
	github.com/go-openapi/jsonpointer v0.20.2
	github.com/go-openapi/swag v0.22.7
	github.com/go-resty/resty/v2 v2.11.0
	github.com/google/uuid v1.5.0
	github.com/gorilla/mux v1.8.1
	github.com/gorilla/websocket v1.5.1
	github.com/hashicorp/hcl v1.0.0
	github.com/hyperledger/firefly-common v1.4.11
	github.com/hyperledger/firefly-signer v0.0.0
	github.com/inconshreveable/mousetrap v1.1.0
	github.com/invopop/yaml v0.2.0
	github.com/josharian/intern v1.0.0
	github.com/karlseguin/ccache v2.0.3+incompatible
	github.com/magiconair/properties v1.8.7
	github.com/mailru/easyjson v0.7.7
	github.com/mattn/go-colorable v0.1.13
	github.com/mattn/go-isatty v0.0.20
	github.com/matttproud/golang_protobuf_extensions/v2 v2.0.0
	github.com/mgutz/ansi v0.0.0-20200706080929-d51e80ef957d
	github.com/mitchellh/mapstructure v1.5.0
	github.com/mohae/deepcopy v0.0.0-20170929034955-c48cc78d4826
	github.com/nxadm/tail v1.4.8
	github.com/pelletier/go-toml v1.9.5
	github.com/pelletier/go-toml/v2 v2.1.1
	github.com/perimeterx/marshmallow v1.1.5
	github.com/pkg/errors v0.9.1
	github.com/pmezard/go-difflib v1.0.1-0.20181226105442-5d4384ee4fb2
	github.com/prometheus/client_golang v1.18.0
	github.com/prometheus/client_model v0.5.0
	github.com/prometheus/common v0.45.0
	github.com/prometheus/procfs v0.12.0
	github.com/rs/cors v1.10.1
	github.com/sagikazarmark/locafero v0.4.0
	github.com/sagikazarmark/slog-shim v0.1.0
	github.com/santhosh-tekuri/jsonschema/v5 v5.3.1
	github.com/sirupsen/logrus v1.9.3
	github.com/sourcegraph/conc v0.3.0
	github.com/spf13/afero v1.11.0
	github.com/spf13/cast v1.6.0
	github.com/spf13/cobra v1.8.0
	github.com/spf13/pflag v1.0.5
	github.com/spf13/viper v1.18.2
	github.com/stretchr/objx v0.5.1
	github.com/stretchr/testify v1.8.4
	github.com/subosito/gotenv v1.6.0
	github.com/wsxiaoys/terminal v0.0.0-20160513160801-0940f3fc43a0
	github.com/x-cray/logrus-prefixed-formatter v0.5.2
	gitlab.com/hfuss/mux-prometheus v0.0.5
	go.uber.org/multierr v1.11.0
	golang.org/x/crypto v0.31.0
	golang.org/x/exp v0.0.0-20240110193028-0dcbfd608b1e
	golang.org/x/net v0.21.0
	golang.org/x/sys v0.28.0
	golang.org/x/term v0.27.0
	golang.org/x/text v0.21.0
	golang.org/x/time v0.5.0
	google.golang.org/protobuf v1.32.0
	gopkg.in/ini.v1 v1.67.0
	gopkg.in/natefinch/lumberjack.v2 v2.2.1
	gopkg.in/yaml.v2 v2.4.0
	gopkg.in/yaml.v3 v3.0.1
	pgregory.net/rapid v1.3.0
)

replace github.com/hyperledger/firefly-signer => /repo

replace github.com/hyperledger/firefly-common => github.com/kaleido-io/firefly-common v0.0.0-20240827134901-edb07289f156
