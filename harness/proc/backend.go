package proc

import (
	"bytes"
	"encoding/hex"
	"encoding/json"
	"fmt"
	"io"
	"net"
	"net/http"
	"regexp"
	"sort"
	"strconv"
	"strings"
	"sync"
	"time"
)

// Token is the correlation token format: exactly 20 ASCII bytes, so that it also
// fits a transaction's `to` address.  The generator plants it in a parameter, in a
// method name, in transaction data or in `to`; the backend finds it again in the
// forwarded call (the proxy rewrites request ids, so ids cannot correlate).
func Token(n uint64) string { return fmt.Sprintf("VTK%016xZ", n) }

var tokenRe = regexp.MustCompile(`VTK[0-9a-f]{16}Z`)

// Reply is one scripted answer of the backend.
type Reply struct {
	// Kind: "result" (HTTP 200, JSON-RPC result), "rpcerror" (JSON-RPC error object, HTTP
	// Status or 200), "httperror" (HTTP Status with a body that is not JSON-RPC),
	// "close" (the connection is closed without an answer), "echo" (result names the method).
	Kind     string          `json:"kind"`
	Result   json.RawMessage `json:"result,omitempty"`
	Code     int64           `json:"code,omitempty"`
	Message  string          `json:"message,omitempty"`
	Data     json.RawMessage `json:"data,omitempty"`
	Status   int             `json:"status,omitempty"`
	BodyKind string          `json:"body_kind,omitempty"` // httperror: "empty" | "text" | "json"
	Body     string          `json:"body,omitempty"`
}

// ResultReply is a convenience constructor.
func ResultReply(raw string) Reply { return Reply{Kind: "result", Result: json.RawMessage(raw)} }

// Script is what the backend does during one exchange.
type Script struct {
	// ByToken answers the calls that carry a correlation token.
	ByToken map[string]Reply
	// Rank: tokens that take part in the release barrier, with their release rank
	// (lower ranks are answered first).  The barrier holds these calls until all of
	// them have arrived (bounded by BarrierWait) and then answers them one by one.
	Rank map[string]int
	// Nonce answers token-less eth_getTransactionCount(addr, "pending") calls, keyed by
	// the 40 lower-case hex digits of addr.
	Nonce map[string]Reply
	// NonceDefault answers eth_getTransactionCount(addr, "pending") for other addresses,
	// NonceOther the same method with any other block tag.
	NonceDefault Reply
	NonceOther   Reply
	// Default answers every other call.
	Default Reply
	// BarrierWait bounds the barrier (default 5 s).  It never decides a verdict.
	BarrierWait time.Duration
}

// Call is one request the backend received.
type Call struct {
	Seq         int
	HTTPMethod  string
	Path        string
	ContentType string
	Raw         []byte
	Malformed   string // non-empty when the body is not a JSON-RPC request object
	Version     string
	ID          json.RawMessage
	Method      string
	HasParams   bool
	Params      json.RawMessage
	Token       string
	ReplyKind   string
}

type waiter struct {
	rank, seq int
	release   chan struct{}
	done      chan struct{}
}

type barrier struct {
	mu       sync.Mutex
	expect   int
	wait     time.Duration
	waiters  []*waiter
	started  bool
	released bool
	timedOut bool
	allIn    chan struct{}
	abort    chan struct{}
	aborted  bool
}

func newBarrier(expect int, wait time.Duration) *barrier {
	if wait <= 0 {
		wait = 5 * time.Second
	}
	return &barrier{expect: expect, wait: wait, allIn: make(chan struct{}), abort: make(chan struct{})}
}

func (b *barrier) stop() {
	b.mu.Lock()
	if !b.aborted {
		b.aborted = true
		close(b.abort)
	}
	b.mu.Unlock()
}

// arrive registers a call; the returned waiter is nil when the call need not wait.
func (b *barrier) arrive(rank, seq int) *waiter {
	b.mu.Lock()
	defer b.mu.Unlock()
	if b.released || b.aborted {
		return nil
	}
	w := &waiter{rank: rank, seq: seq, release: make(chan struct{}), done: make(chan struct{})}
	b.waiters = append(b.waiters, w)
	if !b.started {
		b.started = true
		go b.run()
	}
	if len(b.waiters) == b.expect {
		close(b.allIn)
	}
	return w
}

func (b *barrier) run() {
	t := time.NewTimer(b.wait)
	defer t.Stop()
	select {
	case <-b.allIn:
	case <-t.C:
		b.mu.Lock()
		b.timedOut = true
		b.mu.Unlock()
	case <-b.abort:
	}
	b.mu.Lock()
	b.released = true
	ws := append([]*waiter(nil), b.waiters...)
	b.mu.Unlock()
	sort.SliceStable(ws, func(i, j int) bool {
		if ws[i].rank != ws[j].rank {
			return ws[i].rank < ws[j].rank
		}
		return ws[i].seq < ws[j].seq
	})
	for _, w := range ws {
		close(w.release)
		step := time.NewTimer(2 * time.Second)
		select {
		case <-w.done:
		case <-step.C:
		case <-b.abort:
		}
		step.Stop()
	}
}

// Backend is a scripted JSON-RPC server over HTTP.
type Backend struct {
	URL string

	ln  net.Listener
	srv *http.Server

	mu      sync.Mutex
	script  *Script
	bar     *barrier
	calls   []Call
	seq     int
	netVer  json.RawMessage
	started int // number of net_version calls answered (startup discovery)
}

// StartBackend listens on a free loopback port.  netVersion is the JSON result given
// to token-less net_version calls (the proxy's chain-id discovery at start-up).
func StartBackend(netVersion json.RawMessage) (*Backend, error) {
	ln, err := net.Listen("tcp", "127.0.0.1:0")
	if err != nil {
		return nil, err
	}
	if len(netVersion) == 0 {
		netVersion = json.RawMessage(`"1"`)
	}
	b := &Backend{ln: ln, URL: "http://" + ln.Addr().String(), netVer: netVersion}
	b.script = &Script{Default: Reply{Kind: "echo"}}
	b.srv = &http.Server{Handler: http.HandlerFunc(b.handle)}
	go func() { _ = b.srv.Serve(ln) }()
	return b, nil
}

// Close stops the server.
func (b *Backend) Close() {
	b.mu.Lock()
	if b.bar != nil {
		b.bar.stop()
	}
	b.mu.Unlock()
	_ = b.srv.Close()
}

// Install replaces the script and forgets the recorded calls.
func (b *Backend) Install(s *Script) {
	b.mu.Lock()
	defer b.mu.Unlock()
	if b.bar != nil {
		b.bar.stop()
	}
	b.script = s
	b.calls = nil
	b.seq = 0
	b.bar = nil
	if len(s.Rank) > 0 {
		b.bar = newBarrier(len(s.Rank), s.BarrierWait)
	}
}

// Finish ends the exchange: it releases anything still held and returns the calls
// received since Install, in arrival order, plus whether the barrier timed out.
func (b *Backend) Finish() (calls []Call, barrierTimedOut bool) {
	b.mu.Lock()
	defer b.mu.Unlock()
	if b.bar != nil {
		b.bar.stop()
		b.bar.mu.Lock()
		barrierTimedOut = b.bar.timedOut
		b.bar.mu.Unlock()
	}
	calls = append([]Call(nil), b.calls...)
	return calls, barrierTimedOut
}

// Calls returns a snapshot of the calls recorded so far.
func (b *Backend) Calls() []Call {
	b.mu.Lock()
	defer b.mu.Unlock()
	return append([]Call(nil), b.calls...)
}

// FindToken locates a correlation token in a forwarded request body: in the text
// itself, or inside a hex-encoded first parameter (a signed raw transaction).
func FindToken(raw []byte, method string, params json.RawMessage) string {
	if m := tokenRe.Find(raw); m != nil {
		return string(m)
	}
	if method == "eth_sendRawTransaction" && len(params) > 0 {
		var ps []json.RawMessage
		if json.Unmarshal(params, &ps) == nil && len(ps) > 0 {
			var s string
			if json.Unmarshal(ps[0], &s) == nil {
				if bin, err := hex.DecodeString(strings.TrimPrefix(s, "0x")); err == nil {
					if m := tokenRe.Find(bin); m != nil {
						return string(m)
					}
				}
			}
		}
	}
	return ""
}

func (b *Backend) handle(w http.ResponseWriter, r *http.Request) {
	raw, _ := io.ReadAll(r.Body)
	c := Call{HTTPMethod: r.Method, Path: r.URL.Path, ContentType: r.Header.Get("Content-Type"), Raw: raw}
	var req struct {
		Version *string          `json:"jsonrpc"`
		ID      json.RawMessage  `json:"id"`
		Method  *string          `json:"method"`
		Params  *json.RawMessage `json:"params"`
	}
	trim := bytes.TrimSpace(raw)
	if len(trim) == 0 || trim[0] != '{' {
		c.Malformed = "body is not a JSON object"
	} else if err := json.Unmarshal(raw, &req); err != nil {
		c.Malformed = "body does not parse as a JSON-RPC request: " + err.Error()
	} else {
		if req.Version != nil {
			c.Version = *req.Version
		}
		c.ID = req.ID
		if req.Method != nil {
			c.Method = *req.Method
		} else {
			c.Malformed = "no method member"
		}
		if req.Params != nil {
			c.HasParams = true
			c.Params = *req.Params
		}
	}
	c.Token = FindToken(raw, c.Method, c.Params)

	b.mu.Lock()
	b.seq++
	c.Seq = b.seq
	s := b.script
	bar := b.bar
	reply, held, rank := b.choose(s, &c)
	c.ReplyKind = reply.Kind
	b.calls = append(b.calls, c)
	b.mu.Unlock()

	var wt *waiter
	if held && bar != nil {
		wt = bar.arrive(rank, c.Seq)
	}
	if wt != nil {
		select {
		case <-wt.release:
		case <-r.Context().Done():
		}
		defer close(wt.done)
	}
	b.write(w, &c, reply)
}

// choose picks the reply for a call (b.mu held).
func (b *Backend) choose(s *Script, c *Call) (reply Reply, held bool, rank int) {
	if c.Token != "" {
		if rp, ok := s.ByToken[c.Token]; ok {
			rk, h := s.Rank[c.Token]
			return rp, h, rk
		}
		return s.Default, false, 0
	}
	switch c.Method {
	case "net_version":
		b.started++
		return Reply{Kind: "result", Result: b.netVer}, false, 0
	case "eth_getTransactionCount":
		var ps []json.RawMessage
		if json.Unmarshal(c.Params, &ps) == nil && len(ps) == 2 {
			var addr, tag string
			if json.Unmarshal(ps[0], &addr) == nil && json.Unmarshal(ps[1], &tag) == nil {
				if tag != "pending" {
					return s.NonceOther, false, 0
				}
				key := strings.ToLower(strings.TrimPrefix(strings.TrimPrefix(addr, "0x"), "0X"))
				if rp, ok := s.Nonce[key]; ok {
					return rp, false, 0
				}
				return s.NonceDefault, false, 0
			}
		}
		return s.NonceOther, false, 0
	}
	return s.Default, false, 0
}

func (b *Backend) write(w http.ResponseWriter, c *Call, reply Reply) {
	id := c.ID
	if len(id) == 0 {
		id = json.RawMessage("null")
	}
	status := reply.Status
	if status == 0 {
		status = 200
	}
	var body []byte
	ctype := "application/json"
	switch reply.Kind {
	case "close":
		if hj, ok := w.(http.Hijacker); ok {
			if conn, _, err := hj.Hijack(); err == nil {
				_ = conn.Close()
				return
			}
		}
		// cannot hijack: fall back to an abrupt handler exit, which also drops the connection
		panic(http.ErrAbortHandler)
	case "httperror":
		switch reply.BodyKind {
		case "text":
			ctype = "text/plain; charset=utf-8"
			body = []byte(reply.Body)
		case "json":
			body = []byte(reply.Body)
		default:
			ctype = ""
		}
	case "rpcerror":
		eo := map[string]interface{}{"code": reply.Code, "message": reply.Message}
		if len(reply.Data) > 0 {
			eo["data"] = reply.Data
		}
		body, _ = json.Marshal(map[string]interface{}{"jsonrpc": "2.0", "id": id, "error": eo})
	case "echo":
		res, _ := json.Marshal(map[string]interface{}{"echo": c.Method})
		if c.Method == "eth_getTransactionCount" {
			res = []byte(`"0x0"`)
		}
		body = envelope(id, res)
	default: // "result"
		res := reply.Result
		if len(res) == 0 {
			res = json.RawMessage("null")
		}
		body = envelope(id, res)
	}
	if ctype != "" {
		w.Header().Set("Content-Type", ctype)
	}
	w.Header().Set("Content-Length", strconv.Itoa(len(body)))
	w.WriteHeader(status)
	_, _ = w.Write(body)
	if f, ok := w.(http.Flusher); ok {
		f.Flush()
	}
}

// envelope builds the response text by hand so that the scripted result is sent
// byte for byte (number literals, escapes and member order untouched).
func envelope(id, result json.RawMessage) []byte {
	var sb bytes.Buffer
	sb.WriteString(`{"jsonrpc":"2.0","id":`)
	sb.Write(id)
	sb.WriteString(`,"result":`)
	sb.Write(result)
	sb.WriteString(`}`)
	return sb.Bytes()
}
