package proc

import (
	"encoding/json"
	"errors"
	"fmt"
	"os"
	"path/filepath"
	"sort"
	"sync"
)

// Instance is one ffsigner process together with its private scripted backend.
type Instance struct {
	Key     string
	Signer  *Signer
	Backend *Backend
	Keys    []WalletKey // the accounts that can sign (as written at start-up)
	Decoys  []Decoy     // listed by eth_accounts as well, but never able to sign (mis-filed / unreadable key files)
	// Listener: the process watches WalletDir; files added there (AddKey, AddDecoy, PlaceFile)
	// become part of its wallet.  Keys / Decoys keep describing the start-up content.
	Listener  bool
	WalletDir string
	lastUse   int64
}

// Listed returns every address eth_accounts has to report (40 lower-case hex digits each).
func (in *Instance) Listed() []string {
	out := make([]string, 0, len(in.Keys)+len(in.Decoys))
	for _, k := range in.Keys {
		out = append(out, k.AddrHex)
	}
	for _, d := range in.Decoys {
		out = append(out, d.AddrHex)
	}
	sort.Strings(out)
	return out
}

// Pool keeps long-lived instances, one per configuration key, below a base
// directory the caller owns (t.TempDir()).
type Pool struct {
	mu    sync.Mutex
	base  string
	inst  map[string]*Instance
	n     int
	fresh int
	tick  int64
	// limitHit: the last listening process could not get an inotify instance even after
	// waiting; until one succeeds again the next ones do not wait (a machine that is out of
	// instances for minutes must not cost every session the full pause)
	limitHit bool
	Max      int // live processes kept at most (least recently used is stopped); default 12
	Stats    struct{ Started, Crashed int }
}

// NewPool creates an empty pool below base.
func NewPool(base string) *Pool {
	return &Pool{base: base, inst: map[string]*Instance{}, Max: 12}
}

// Get returns the running instance for key, starting backend and process on first
// use.  chainID nil means "not configured": the proxy then discovers the chain id
// by asking the backend for net_version, which is answered with netVersion.
func (p *Pool) Get(key string, chainID *int64, netVersion json.RawMessage) (*Instance, error) {
	return p.get(key, chainID, netVersion, false)
}

func (p *Pool) get(key string, chainID *int64, netVersion json.RawMessage, listener bool) (*Instance, error) {
	p.mu.Lock()
	defer p.mu.Unlock()
	p.tick++
	if in, ok := p.inst[key]; ok {
		if in.Signer.Alive() {
			in.lastUse = p.tick
			return in, nil
		}
		p.dropLocked(in)
	}
	if len(p.inst) >= p.Max {
		all := make([]*Instance, 0, len(p.inst))
		for _, in := range p.inst {
			all = append(all, in)
		}
		sort.Slice(all, func(i, j int) bool { return all[i].lastUse < all[j].lastUse })
		p.dropLocked(all[0])
	}
	be, err := StartBackend(netVersion)
	if err != nil {
		return nil, err
	}
	p.n++
	dir := filepath.Join(p.base, fmt.Sprintf("signer-%d", p.n))
	if err := os.MkdirAll(dir, 0o700); err != nil {
		be.Close()
		return nil, err
	}
	keys := Keys(3)
	decoys := Decoys(keys)
	waits := 0
	if p.limitHit {
		waits = -1
	}
	sg, err := StartSigner(SignerOptions{Dir: dir, BackendURL: be.URL, ChainID: chainID, Keys: keys, Decoys: decoys, Listener: listener, ListenerWaits: waits})
	if listener {
		p.limitHit = errors.Is(err, ErrListenerLimit)
	}
	if err != nil {
		be.Close()
		_ = os.RemoveAll(dir)
		return nil, err
	}
	p.Stats.Started++
	in := &Instance{Key: key, Signer: sg, Backend: be, Keys: keys, Decoys: decoys, Listener: listener, WalletDir: sg.WalletDir, lastUse: p.tick}
	p.inst[key] = in
	return in, nil
}

// Fresh starts a process (and backend) that no earlier exchange has touched, for cases
// that are whole histories: replaying such a case starts from the same state.  The caller
// Drops the instance when the history is over.
func (p *Pool) Fresh(chainID *int64, netVersion json.RawMessage) (*Instance, error) {
	return p.FreshListener(chainID, netVersion, false)
}

// FreshListener is Fresh with the wallet's file-system listener switched on or off.  A
// listening process holds an inotify instance (a scarce per-user resource): only processes
// of this short-lived kind may listen, and the caller must Drop each before it asks for the
// next.  The error is ErrListenerLimit when the kernel has none to give.
func (p *Pool) FreshListener(chainID *int64, netVersion json.RawMessage, listener bool) (*Instance, error) {
	p.mu.Lock()
	p.fresh++
	key := fmt.Sprintf("fresh-%d", p.fresh)
	p.mu.Unlock()
	return p.get(key, chainID, netVersion, listener)
}

func (p *Pool) dropLocked(in *Instance) {
	// no graceful shutdown here: an instance is dropped because it crashed, misbehaved or is evicted
	in.Signer.Kill()
	in.Signer.Stop()
	in.Backend.Close()
	if p.inst[in.Key] == in {
		delete(p.inst, in.Key)
	}
}

// Drop stops an instance (after a crash, or to force a fresh process next time).
func (p *Pool) Drop(in *Instance) {
	p.mu.Lock()
	defer p.mu.Unlock()
	p.dropLocked(in)
}

// NoteCrash counts a crashed process (evidence only).
func (p *Pool) NoteCrash() {
	p.mu.Lock()
	p.Stats.Crashed++
	p.mu.Unlock()
}

// Close stops everything.
func (p *Pool) Close() {
	p.mu.Lock()
	defer p.mu.Unlock()
	for _, in := range p.inst {
		in.Signer.Stop()
		in.Backend.Close()
	}
	p.inst = map[string]*Instance{}
}

// Pids lists the process ids of the live instances.
func (p *Pool) Pids() []int {
	p.mu.Lock()
	defer p.mu.Unlock()
	var out []int
	for _, in := range p.inst {
		if in.Signer.Alive() {
			out = append(out, in.Signer.Pid)
		}
	}
	sort.Ints(out)
	return out
}
