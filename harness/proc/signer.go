package proc

import (
	"bytes"
	"context"
	"encoding/json"
	"errors"
	"fmt"
	"io"
	"net"
	"net/http"
	"os"
	"os/exec"
	"path/filepath"
	"runtime"
	"strings"
	"sync"
	"sync/atomic"
	"syscall"
	"time"
)

// logRing keeps the first headCap and the last tailCap bytes a process wrote.
type logRing struct {
	mu      sync.Mutex
	head    []byte
	tail    []byte
	dropped int64
}

const (
	headCap = 16 << 10
	tailCap = 48 << 10
)

func (l *logRing) Write(p []byte) (int, error) {
	l.mu.Lock()
	defer l.mu.Unlock()
	n := len(p)
	if room := headCap - len(l.head); room > 0 {
		k := room
		if k > len(p) {
			k = len(p)
		}
		l.head = append(l.head, p[:k]...)
		p = p[k:]
	}
	if len(p) == 0 {
		return n, nil
	}
	if len(p) >= tailCap {
		l.dropped += int64(len(l.tail) + len(p) - tailCap)
		l.tail = append(l.tail[:0], p[len(p)-tailCap:]...)
		return n, nil
	}
	if over := len(l.tail) + len(p) - tailCap; over > 0 {
		l.dropped += int64(over)
		l.tail = append(l.tail[:0], l.tail[over:]...)
	}
	l.tail = append(l.tail, p...)
	return n, nil
}

func (l *logRing) headString() string {
	l.mu.Lock()
	defer l.mu.Unlock()
	return string(l.head)
}

// Tail returns up to n bytes from the end of the output.
func (l *logRing) Tail(n int) string {
	l.mu.Lock()
	defer l.mu.Unlock()
	all := append(append([]byte{}, l.head...), l.tail...)
	if l.dropped > 0 {
		all = l.tail
	}
	if len(all) > n {
		all = all[len(all)-n:]
	}
	return string(all)
}

// SignerOptions configures one ffsigner process.
type SignerOptions struct {
	Binary     string // default: env VERIF_FFSIGNER
	Dir        string // private directory for config and wallet (created; removed by Stop)
	BackendURL string
	ChainID    *int64 // nil: not configured, the proxy discovers it with net_version
	Keys       []WalletKey
	Decoys     []Decoy       // further wallet entries that are listed but must never sign (see Decoy)
	LogLevel   string        // default "info" (the start-up confirmation reads the listening line)
	StartWait  time.Duration // default 60 s
	// Listener starts the wallet's file-system listener (fileWallet.disableListener: false): key
	// files that appear in the wallet directory while the process runs become part of the wallet.
	// Every such process holds one inotify instance (fs.inotify.max_user_instances is small, 128
	// here, and shared with everything else the user runs): use it for short-lived processes only
	// and stop each before the next is started.
	Listener bool
	// ListenerWaits: how often a start that failed for want of an inotify instance is tried
	// again after a pause of 1.5 s (0 = default 3; negative = not at all).
	ListenerWaits int
}

// Signer is a running ffsigner process.
type Signer struct {
	URL       string
	Port      int
	Dir       string
	WalletDir string
	Pid       int

	cmd     *exec.Cmd
	log     *logRing
	exited  chan struct{}
	exitErr error
	client  *http.Client
	stopped bool
}

var portCounter atomic.Uint64

// FreePort picks a currently unused loopback TCP port BELOW the kernel's ephemeral range
// (32768-60999 here). A port handed out by "listen on :0" comes from the ephemeral range,
// where the many short-lived outgoing connections of the harness itself (to the scripted
// backends and to the proxies) can take it again before the child process binds it; with
// hundreds of processes in the thorough tier that race was lost six times in a row.
// The choice does not influence any verdict, so it need not come from rapid.
func FreePort() (int, error) {
	const lo, span = 10240, 22000
	base := uint64(os.Getpid())*2654435761 + uint64(time.Now().UnixNano())
	var lastErr error
	for i := 0; i < 200; i++ {
		n := portCounter.Add(1)
		port := lo + int((base+n*7919)%span)
		ln, err := net.Listen("tcp", fmt.Sprintf("127.0.0.1:%d", port))
		if err != nil {
			lastErr = err
			continue
		}
		ln.Close()
		return port, nil
	}
	return 0, fmt.Errorf("no free loopback port found: %v", lastErr)
}

func yamlQuote(s string) string {
	b, _ := json.Marshal(s) // a JSON string is a valid YAML double-quoted scalar
	return string(b)
}

// ConfigYAML renders the configuration file of one process whose wallet is fixed (no
// file-system listener).
func ConfigYAML(walletDir string, port int, backendURL string, chainID *int64, logLevel string) string {
	return ConfigYAMLListener(walletDir, port, backendURL, chainID, logLevel, false)
}

// ConfigYAMLListener renders the configuration file of one process, with the wallet's
// file-system listener switched on or off.
func ConfigYAMLListener(walletDir string, port int, backendURL string, chainID *int64, logLevel string, listener bool) string {
	var sb strings.Builder
	sb.WriteString("fileWallet:\n")
	sb.WriteString("  path: " + yamlQuote(walletDir) + "\n")
	sb.WriteString(fmt.Sprintf("  disableListener: %v\n", !listener))
	sb.WriteString("  filenames:\n")
	sb.WriteString("    primaryExt: \".key.json\"\n")
	sb.WriteString("    passwordExt: \".pwd\"\n")
	sb.WriteString("server:\n")
	sb.WriteString("  address: \"127.0.0.1\"\n")
	sb.WriteString(fmt.Sprintf("  port: %d\n", port))
	// generous: the scripted backend may hold the members of a batch for a while
	sb.WriteString("  readTimeout: 120s\n")
	sb.WriteString("  writeTimeout: 120s\n")
	sb.WriteString("backend:\n")
	sb.WriteString("  url: " + yamlQuote(backendURL) + "\n")
	if chainID != nil {
		sb.WriteString(fmt.Sprintf("  chainId: %d\n", *chainID))
	}
	sb.WriteString("log:\n")
	sb.WriteString("  level: " + logLevel + "\n")
	return sb.String()
}

// Pdeathsig is delivered when the *thread* that forked the child exits.  All children
// are therefore started from one goroutine that is locked to its OS thread and lives
// as long as the test binary, so the signal means exactly "the harness is gone".
var (
	spawnOnce sync.Once
	spawnReq  chan func()
)

func startOnSpawner(cmd *exec.Cmd) error {
	spawnOnce.Do(func() {
		spawnReq = make(chan func())
		go func() {
			runtime.LockOSThread()
			for f := range spawnReq {
				f()
			}
		}()
	})
	done := make(chan error, 1)
	spawnReq <- func() { done <- cmd.Start() }
	return <-done
}

// ErrBinary marks a missing or unusable ffsigner binary (infrastructure, not a verdict).
var ErrBinary = errors.New("ffsigner binary not available")

// ErrListenerLimit marks a process that could not start its file-system listener because the
// kernel refused another inotify instance or watch (EMFILE "too many open files" at
// fs.inotify.max_user_instances, ENOSPC "no space left on device" at max_user_watches): the
// machine is out of a per-user resource, which is no verdict about the code under test.
var ErrListenerLimit = errors.New("no inotify instance/watch available for the wallet's file-system listener")

func listenerLimitHit(log string) bool {
	i := strings.Index(log, "Failed to start filesystem listener")
	if i < 0 {
		return false
	}
	rest := log[i:]
	if nl := strings.IndexByte(rest, '\n'); nl >= 0 {
		rest = rest[:nl]
	}
	return strings.Contains(rest, "too many open files") || strings.Contains(rest, "no space left on device")
}

// BinaryPath resolves the binary under test.
func BinaryPath() (string, error) {
	p := os.Getenv("VERIF_FFSIGNER")
	if p == "" {
		return "", fmt.Errorf("%w: VERIF_FFSIGNER is not set (check.json needs \"needs_ffsigner\": true)", ErrBinary)
	}
	st, err := os.Stat(p)
	if err != nil || st.IsDir() || st.Mode()&0o111 == 0 {
		return "", fmt.Errorf("%w: %s", ErrBinary, p)
	}
	return p, nil
}

// StartSigner writes wallet and config into o.Dir, starts the process on a free port
// and waits until it serves.  A lost race for the port is retried on another port.
func StartSigner(o SignerOptions) (*Signer, error) {
	bin := o.Binary
	if bin == "" {
		var err error
		if bin, err = BinaryPath(); err != nil {
			return nil, err
		}
	}
	if o.LogLevel == "" {
		o.LogLevel = "info"
	}
	if o.StartWait <= 0 {
		o.StartWait = 60 * time.Second
	}
	walletDir := filepath.Join(o.Dir, "wallet")
	if err := WriteWallet(walletDir, o.Keys, ".key.json", ".pwd"); err != nil {
		return nil, err
	}
	if err := WriteDecoys(walletDir, o.Keys, o.Decoys, ".key.json", ".pwd"); err != nil {
		return nil, err
	}
	var lastErr error
	limitRetries := 0
	for attempt := 0; attempt < 20; attempt++ {
		port, err := FreePort()
		if err != nil {
			return nil, err
		}
		cfgPath := filepath.Join(o.Dir, "ffsigner.yaml")
		if err := os.WriteFile(cfgPath, []byte(ConfigYAMLListener(walletDir, port, o.BackendURL, o.ChainID, o.LogLevel, o.Listener)), 0o600); err != nil {
			return nil, err
		}
		s := &Signer{
			URL: fmt.Sprintf("http://127.0.0.1:%d/", port), Port: port, Dir: o.Dir, WalletDir: walletDir,
			log: &logRing{}, exited: make(chan struct{}),
			client: &http.Client{Transport: &http.Transport{
				MaxIdleConns: 4, MaxIdleConnsPerHost: 4, IdleConnTimeout: 30 * time.Second,
				DisableCompression: true,
			}},
		}
		cmd := exec.Command(bin, "-f", cfgPath)
		cmd.Dir = o.Dir
		cmd.Env = []string{"PATH=/usr/local/bin:/usr/bin:/bin", "HOME=" + o.Dir, "TMPDIR=" + o.Dir}
		cmd.Stdout, cmd.Stderr = s.log, s.log
		cmd.SysProcAttr = &syscall.SysProcAttr{Pdeathsig: syscall.SIGKILL}
		if err := startOnSpawner(cmd); err != nil {
			return nil, fmt.Errorf("%w: %v", ErrBinary, err)
		}
		s.cmd, s.Pid = cmd, cmd.Process.Pid
		go func() {
			s.exitErr = cmd.Wait()
			close(s.exited)
		}()
		err = s.waitServing(o.StartWait)
		if err == nil {
			return s, nil
		}
		lastErr = err
		s.Kill()
		out := s.log.headString() + s.log.Tail(4096)
		if o.Listener && listenerLimitHit(out) {
			// other short-lived processes of this user hold the inotify instances: wait for some to go
			lastErr = fmt.Errorf("%w: %v", ErrListenerLimit, err)
			waits := o.ListenerWaits
			if waits == 0 {
				waits = 3
			}
			if limitRetries++; limitRetries > waits {
				break
			}
			time.Sleep(1500 * time.Millisecond)
			continue
		}
		if !strings.Contains(out, "address already in use") {
			break
		}
	}
	return nil, lastErr
}

func (s *Signer) waitServing(limit time.Duration) error {
	deadline := time.Now().Add(limit)
	marker := fmt.Sprintf("listening on HTTP 127.0.0.1:%d", s.Port)
	started := time.Now()
	confirmed := false
	for {
		select {
		case <-s.exited:
			return fmt.Errorf("ffsigner exited during start-up (%v); output:\n%s", s.exitErr, s.log.Tail(3000))
		default:
		}
		if time.Now().After(deadline) {
			return fmt.Errorf("ffsigner did not serve within %s; output:\n%s", limit, s.log.Tail(3000))
		}
		if !confirmed {
			// the line proves that *this* process owns the port; if the log format ever
			// changes, fall back to "still running after 3 s" (a failed bind exits at once)
			if strings.Contains(s.log.headString(), marker) || time.Since(started) > 3*time.Second {
				confirmed = true
			} else {
				time.Sleep(5 * time.Millisecond)
				continue
			}
		}
		res, err := s.Post([]byte(`{"jsonrpc":"2.0","id":"verif-start","method":"eth_accounts","params":[]}`), 5*time.Second)
		if err == nil && res.Status == 200 && bytes.Contains(res.Body, []byte(`"result"`)) {
			return nil
		}
		time.Sleep(10 * time.Millisecond)
	}
}

// Alive reports whether the process is still running.
func (s *Signer) Alive() bool {
	select {
	case <-s.exited:
		return false
	default:
		return true
	}
}

// WaitExit waits up to d for the process to exit and reports whether it did.
func (s *Signer) WaitExit(d time.Duration) bool {
	t := time.NewTimer(d)
	defer t.Stop()
	select {
	case <-s.exited:
		return true
	case <-t.C:
		return false
	}
}

// ExitInfo describes how the process ended, with the end of its output.
func (s *Signer) ExitInfo(tail int) string {
	if s.Alive() {
		return "still running"
	}
	return fmt.Sprintf("%v; last output:\n%s", s.exitErr, s.log.Tail(tail))
}

// LogTail returns the end of the process output.
func (s *Signer) LogTail(n int) string { return s.log.Tail(n) }

// HTTPResult is one answer of the proxy.
type HTTPResult struct {
	Status int
	Header http.Header
	Body   []byte
}

// Post sends body as a JSON-RPC POST and reads the whole answer.
func (s *Signer) Post(body []byte, timeout time.Duration) (*HTTPResult, error) {
	ctx, cancel := context.WithTimeout(context.Background(), timeout)
	defer cancel()
	req, err := http.NewRequestWithContext(ctx, http.MethodPost, s.URL, bytes.NewReader(body))
	if err != nil {
		return nil, err
	}
	req.Header.Set("Content-Type", "application/json")
	res, err := s.client.Do(req)
	if err != nil {
		return nil, err
	}
	defer res.Body.Close()
	b, err := io.ReadAll(res.Body)
	if err != nil {
		return &HTTPResult{Status: res.StatusCode, Header: res.Header, Body: b}, fmt.Errorf("reading the response body: %w", err)
	}
	return &HTTPResult{Status: res.StatusCode, Header: res.Header, Body: b}, nil
}

// Kill terminates the process at once (by pid) and reaps it.
func (s *Signer) Kill() {
	if s.cmd != nil && s.cmd.Process != nil && s.Alive() {
		_ = s.cmd.Process.Kill()
	}
	<-s.exited
	s.client.CloseIdleConnections()
}

// Stop shuts the process down (SIGTERM, then SIGKILL after 3 s) and removes its directory.
func (s *Signer) Stop() {
	if s.stopped {
		return
	}
	s.stopped = true
	if s.Alive() {
		_ = s.cmd.Process.Signal(syscall.SIGTERM)
		if !s.WaitExit(3 * time.Second) {
			_ = s.cmd.Process.Kill()
		}
	}
	<-s.exited
	s.client.CloseIdleConnections()
	_ = os.RemoveAll(s.Dir)
}
