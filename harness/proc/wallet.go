// Package proc is the process harness of the verification suite: it starts the
// real ffsigner binary against a scripted JSON-RPC backend and a wallet directory
// of cheap-KDF Keystore-V3 files, and takes care of ports, liveness, shutdown and
// temporary directories.
//
// Nothing in this package draws random numbers; every choice that matters for a
// verdict comes from the caller.
package proc

import (
	"crypto/aes"
	"crypto/cipher"
	"encoding/hex"
	"encoding/json"
	"fmt"
	"math/big"
	"os"
	"path/filepath"

	"golang.org/x/crypto/scrypt"

	"verifharness/ref/secp"
)

// WalletKey is one signing key of the test wallet.
type WalletKey struct {
	Priv     *big.Int
	Address  [20]byte
	AddrHex  string // 40 lower-case hex digits, no prefix
	Password string
}

// Addr0x returns the lower-case 0x-prefixed address.
func (k WalletKey) Addr0x() string { return "0x" + k.AddrHex }

// Keys returns n deterministic wallet keys (derived from a fixed label, so the
// addresses are the same in every run and every shard).
func Keys(n int) []WalletKey {
	out := make([]WalletKey, 0, n)
	for i := 0; len(out) < n; i++ {
		d := new(big.Int).SetBytes(secp.Keccak256([]byte(fmt.Sprintf("verifharness wallet key #%d", i))))
		d.Mod(d, secp.N)
		if !secp.ValidScalar(d) {
			continue
		}
		a := secp.AddressOfKey(d)
		out = append(out, WalletKey{Priv: d, Address: a, AddrHex: hex.EncodeToString(a[:]), Password: fmt.Sprintf("correct horse %d staple", i)})
	}
	return out
}

// KeystoreV3 renders a Web3 Secret Storage V3 document for priv with the cheapest
// scrypt parameters the format allows (N=2, r=1, p=1, dklen=32), AES-128-CTR and
// MAC = keccak256(DK[16:32] ‖ ciphertext).  salt is 32 bytes, iv 16 bytes.
func KeystoreV3(priv []byte, addrHex, password string, salt, iv []byte, uuid string) ([]byte, error) {
	dk, err := scrypt.Key([]byte(password), salt, 2, 1, 1, 32)
	if err != nil {
		return nil, err
	}
	blk, err := aes.NewCipher(dk[:16])
	if err != nil {
		return nil, err
	}
	ct := make([]byte, len(priv))
	cipher.NewCTR(blk, iv).XORKeyStream(ct, priv)
	mac := secp.Keccak256(dk[16:32], ct)
	doc := map[string]interface{}{
		"address": addrHex,
		"id":      uuid,
		"version": 3,
		"crypto": map[string]interface{}{
			"cipher":       "aes-128-ctr",
			"ciphertext":   hex.EncodeToString(ct),
			"cipherparams": map[string]interface{}{"iv": hex.EncodeToString(iv)},
			"kdf":          "scrypt",
			"kdfparams":    map[string]interface{}{"dklen": 32, "n": 2, "r": 1, "p": 1, "salt": hex.EncodeToString(salt)},
			"mac":          hex.EncodeToString(mac),
		},
	}
	return json.MarshalIndent(doc, "", "  ")
}

// WriteWallet writes one key file `<40 hex address><primaryExt>` and one password
// file `<40 hex address><passwordExt>` per key into dir.
func WriteWallet(dir string, keys []WalletKey, primaryExt, passwordExt string) error {
	if err := os.MkdirAll(dir, 0o700); err != nil {
		return err
	}
	for i, k := range keys {
		priv := make([]byte, 32)
		k.Priv.FillBytes(priv)
		salt := secp.Keccak256([]byte(fmt.Sprintf("verifharness salt #%d", i)))
		iv := secp.Keccak256([]byte(fmt.Sprintf("verifharness iv #%d", i)))[:16]
		uuid := fmt.Sprintf("00000000-0000-4000-8000-%012x", i+1)
		doc, err := KeystoreV3(priv, k.AddrHex, k.Password, salt, iv, uuid)
		if err != nil {
			return err
		}
		if err := os.WriteFile(filepath.Join(dir, k.AddrHex+primaryExt), doc, 0o600); err != nil {
			return err
		}
		// trailing newline: the wallet trims password whitespace by default
		if err := os.WriteFile(filepath.Join(dir, k.AddrHex+passwordExt), []byte(k.Password+"\n"), 0o600); err != nil {
			return err
		}
	}
	return nil
}
