// Package proc is the process harness of the verification suite: it starts the
// real ffsigner binary against a scripted JSON-RPC backend and a wallet directory
// of cheap-KDF Keystore-V3 files, and takes care of ports, liveness, shutdown and
// temporary directories.
//
// Nothing in this package draws random numbers; every choice that matters for a
// verdict comes from the caller.
package proc

import (
	"crypto/aes"
	"crypto/cipher"
	"encoding/hex"
	"encoding/json"
	"fmt"
	"math/big"
	"os"
	"path/filepath"

	"golang.org/x/crypto/scrypt"

	"verifharness/ref/secp"
)

// WalletKey is one signing key of the test wallet.
type WalletKey struct {
	Priv     *big.Int
	Address  [20]byte
	AddrHex  string // 40 lower-case hex digits, no prefix
	Password string
}

// Addr0x returns the lower-case 0x-prefixed address.
func (k WalletKey) Addr0x() string { return "0x" + k.AddrHex }

// Keys returns n deterministic wallet keys (derived from a fixed label, so the
// addresses are the same in every run and every shard).
func Keys(n int) []WalletKey {
	out := make([]WalletKey, 0, n)
	for i := 0; len(out) < n; i++ {
		d := new(big.Int).SetBytes(secp.Keccak256([]byte(fmt.Sprintf("verifharness wallet key #%d", i))))
		d.Mod(d, secp.N)
		if !secp.ValidScalar(d) {
			continue
		}
		a := secp.AddressOfKey(d)
		out = append(out, WalletKey{Priv: d, Address: a, AddrHex: hex.EncodeToString(a[:]), Password: fmt.Sprintf("correct horse %d staple", i)})
	}
	return out
}

// Decoy is an entry of the wallet directory whose file NAME matches the naming rule for an
// address - so the address is listed by eth_accounts - but whose content must never lead
// to a signature for that address: the key file holds ANOTHER account's key (a mis-filed
// or renamed key file), is not a key file at all, or has no usable password.
type Decoy struct {
	Kind    string   // misfiled-wallet-key | misfiled-foreign-key | garbage | wrong-password | no-password
	Address [20]byte // the address the file is named for
	AddrHex string   // 40 lower-case hex digits, no prefix
	Holds   string   // 40 hex digits of the address whose key the file really holds ("" = none usable)
	label   string   // derives the address (and, for wrong-password / no-password, the key the file holds)
	serial  int      // derives salt, IV and id of the file
}

// Addr0x returns the lower-case 0x-prefixed address the decoy is filed under.
func (d Decoy) Addr0x() string { return "0x" + d.AddrHex }

func labelKey(label string) (*big.Int, [20]byte) {
	for i := 0; ; i++ {
		d := new(big.Int).SetBytes(secp.Keccak256([]byte(fmt.Sprintf("%s/%d", label, i))))
		d.Mod(d, secp.N)
		if secp.ValidScalar(d) {
			return d, secp.AddressOfKey(d)
		}
	}
}

// DecoyKinds lists the kinds of decoy entries every test wallet contains, in order.
var DecoyKinds = []string{"misfiled-wallet-key", "misfiled-foreign-key", "garbage", "wrong-password", "no-password"}

// Decoys returns the deterministic decoy entries of the test wallet (same in every run).
func Decoys(keys []WalletKey) []Decoy {
	out := make([]Decoy, 0, len(DecoyKinds))
	for i, kind := range DecoyKinds {
		out = append(out, newDecoy(kind, "verifharness decoy "+kind, i, keys))
	}
	return out
}

func newDecoy(kind, label string, serial int, keys []WalletKey) Decoy {
	_, a := labelKey(label)
	d := Decoy{Kind: kind, Address: a, AddrHex: hex.EncodeToString(a[:]), label: label, serial: serial}
	switch kind {
	case "misfiled-wallet-key":
		d.Holds = keys[len(keys)-1].AddrHex
	case "misfiled-foreign-key":
		_, f := labelKey("verifharness foreign key")
		d.Holds = hex.EncodeToString(f[:])
	}
	return d
}

// ExtraDecoy returns the n-th decoy entry of a kind (one of DecoyKinds) that can be ADDED to a
// wallet directory while the process runs (AddDecoy); deterministic, distinct from the
// start-up entries and from one another.  keys are the start-up keys of the wallet
// (misfiled-wallet-key copies the last one).
func ExtraDecoy(kind string, n int, keys []WalletKey) (Decoy, error) {
	for ki, k := range DecoyKinds {
		if k == kind {
			return newDecoy(kind, fmt.Sprintf("verifharness added decoy %s #%d", kind, n), 1000+n*len(DecoyKinds)+ki, keys), nil
		}
	}
	return Decoy{}, fmt.Errorf("unknown decoy kind %q", kind)
}

// ExtraKey returns the n-th signing key that can be ADDED to a wallet directory while the
// process runs (AddKey); deterministic and distinct from Keys(..).
func ExtraKey(n int) WalletKey {
	d, a := labelKey(fmt.Sprintf("verifharness added wallet key #%d", n))
	return WalletKey{Priv: d, Address: a, AddrHex: hex.EncodeToString(a[:]), Password: fmt.Sprintf("added battery %d staple", n)}
}

// Ways a file can reach its name in the wallet directory (PlaceFile).
const (
	PlaceRename  = "rename"   // written under a temporary name that no naming rule matches, then renamed
	PlaceInPlace = "in-place" // created under its final name and written there
)

// PlaceFile puts one file into dir.  It returns after the content is completely written and
// the file closed, so whoever reads the file after that sees all of it.
func PlaceFile(dir, name string, content []byte, how string) error {
	final := filepath.Join(dir, name)
	switch how {
	case "", PlaceRename:
		tmp := filepath.Join(dir, ".incoming-"+name+".part")
		if err := os.WriteFile(tmp, content, 0o600); err != nil {
			return err
		}
		return os.Rename(tmp, final)
	case PlaceInPlace:
		return os.WriteFile(final, content, 0o600)
	}
	return fmt.Errorf("unknown way to place a file: %q", how)
}

func keyFileOf(k WalletKey, serial int) ([]byte, error) {
	priv := make([]byte, 32)
	k.Priv.FillBytes(priv)
	salt := secp.Keccak256([]byte(fmt.Sprintf("verifharness salt #%d", serial)))
	iv := secp.Keccak256([]byte(fmt.Sprintf("verifharness iv #%d", serial)))[:16]
	uuid := fmt.Sprintf("00000000-0000-4000-8000-%012x", serial+1)
	return KeystoreV3(priv, k.AddrHex, k.Password, salt, iv, uuid)
}

// AddKey adds the key file and the password file of k to a wallet directory.  passwordFirst
// says which of the two is placed first; both are complete when AddKey returns.
func AddKey(dir string, k WalletKey, serial int, how string, passwordFirst bool, primaryExt, passwordExt string) error {
	doc, err := keyFileOf(k, 5000+serial)
	if err != nil {
		return err
	}
	key := func() error { return PlaceFile(dir, k.AddrHex+primaryExt, doc, how) }
	pwd := func() error { return PlaceFile(dir, k.AddrHex+passwordExt, []byte(k.Password+"\n"), how) }
	if passwordFirst {
		if err := pwd(); err != nil {
			return err
		}
		return key()
	}
	if err := key(); err != nil {
		return err
	}
	return pwd()
}

// AddDecoy adds the file(s) of one decoy entry (ExtraDecoy) to a wallet directory.
func AddDecoy(dir string, keys []WalletKey, d Decoy, how string, passwordFirst bool, primaryExt, passwordExt string) error {
	doc, filePassword, err := decoyFiles(d, keys)
	if err != nil {
		return err
	}
	key := func() error { return PlaceFile(dir, d.AddrHex+primaryExt, doc, how) }
	pwd := func() error {
		if filePassword == "" {
			return nil
		}
		return PlaceFile(dir, d.AddrHex+passwordExt, []byte(filePassword), how)
	}
	if passwordFirst {
		if err := pwd(); err != nil {
			return err
		}
		return key()
	}
	if err := key(); err != nil {
		return err
	}
	return pwd()
}

// decoyFiles renders the key file of a decoy entry and the content of its password file
// ("" = no password file).
func decoyFiles(d Decoy, keys []WalletKey) (doc []byte, filePassword string, err error) {
	i := d.serial
	salt := secp.Keccak256([]byte(fmt.Sprintf("verifharness decoy salt #%d", i)))
	iv := secp.Keccak256([]byte(fmt.Sprintf("verifharness decoy iv #%d", i)))[:16]
	uuid := fmt.Sprintf("00000000-0000-4000-9000-%012x", i+1)
	own, _ := labelKey(d.label)
	priv := make([]byte, 32)
	password := "decoy password"
	filePassword = "decoy password\n"
	switch d.Kind {
	case "misfiled-wallet-key":
		// a faithful copy of another account's key file (its informational address member
		// included) and of its password file, stored under this address's name
		k := keys[len(keys)-1]
		k.Priv.FillBytes(priv)
		password, filePassword = k.Password, k.Password+"\n"
		doc, err = KeystoreV3(priv, k.AddrHex, password, salt, iv, uuid)
	case "misfiled-foreign-key":
		// a key that belongs to no account of the wallet; the address member claims the file name's address
		f, _ := labelKey("verifharness foreign key")
		f.FillBytes(priv)
		doc, err = KeystoreV3(priv, d.AddrHex, password, salt, iv, uuid)
	case "garbage":
		doc = []byte("this is not a key file\n")
	case "wrong-password":
		own.FillBytes(priv)
		doc, err = KeystoreV3(priv, d.AddrHex, password, salt, iv, uuid)
		filePassword = "not the " + password + "\n"
	default: // no-password: the right key, but no password file (and the process has no default password file)
		own.FillBytes(priv)
		doc, err = KeystoreV3(priv, d.AddrHex, password, salt, iv, uuid)
		filePassword = ""
	}
	return doc, filePassword, err
}

// WriteDecoys adds the decoy entries to a wallet directory written by WriteWallet.
func WriteDecoys(dir string, keys []WalletKey, decoys []Decoy, primaryExt, passwordExt string) error {
	for _, d := range decoys {
		doc, filePassword, err := decoyFiles(d, keys)
		if err != nil {
			return err
		}
		if err := os.WriteFile(filepath.Join(dir, d.AddrHex+primaryExt), doc, 0o600); err != nil {
			return err
		}
		if filePassword != "" {
			if err := os.WriteFile(filepath.Join(dir, d.AddrHex+passwordExt), []byte(filePassword), 0o600); err != nil {
				return err
			}
		}
	}
	return nil
}

// KeystoreV3 renders a Web3 Secret Storage V3 document for priv with the cheapest
// scrypt parameters the format allows (N=2, r=1, p=1, dklen=32), AES-128-CTR and
// MAC = keccak256(DK[16:32] ‖ ciphertext).  salt is 32 bytes, iv 16 bytes.
func KeystoreV3(priv []byte, addrHex, password string, salt, iv []byte, uuid string) ([]byte, error) {
	dk, err := scrypt.Key([]byte(password), salt, 2, 1, 1, 32)
	if err != nil {
		return nil, err
	}
	blk, err := aes.NewCipher(dk[:16])
	if err != nil {
		return nil, err
	}
	ct := make([]byte, len(priv))
	cipher.NewCTR(blk, iv).XORKeyStream(ct, priv)
	mac := secp.Keccak256(dk[16:32], ct)
	doc := map[string]interface{}{
		"address": addrHex,
		"id":      uuid,
		"version": 3,
		"crypto": map[string]interface{}{
			"cipher":       "aes-128-ctr",
			"ciphertext":   hex.EncodeToString(ct),
			"cipherparams": map[string]interface{}{"iv": hex.EncodeToString(iv)},
			"kdf":          "scrypt",
			"kdfparams":    map[string]interface{}{"dklen": 32, "n": 2, "r": 1, "p": 1, "salt": hex.EncodeToString(salt)},
			"mac":          hex.EncodeToString(mac),
		},
	}
	return json.MarshalIndent(doc, "", "  ")
}

// WriteWallet writes one key file `<40 hex address><primaryExt>` and one password
// file `<40 hex address><passwordExt>` per key into dir.
func WriteWallet(dir string, keys []WalletKey, primaryExt, passwordExt string) error {
	if err := os.MkdirAll(dir, 0o700); err != nil {
		return err
	}
	for i, k := range keys {
		priv := make([]byte, 32)
		k.Priv.FillBytes(priv)
		salt := secp.Keccak256([]byte(fmt.Sprintf("verifharness salt #%d", i)))
		iv := secp.Keccak256([]byte(fmt.Sprintf("verifharness iv #%d", i)))[:16]
		uuid := fmt.Sprintf("00000000-0000-4000-8000-%012x", i+1)
		doc, err := KeystoreV3(priv, k.AddrHex, k.Password, salt, iv, uuid)
		if err != nil {
			return err
		}
		if err := os.WriteFile(filepath.Join(dir, k.AddrHex+primaryExt), doc, 0o600); err != nil {
			return err
		}
		// trailing newline: the wallet trims password whitespace by default
		if err := os.WriteFile(filepath.Join(dir, k.AddrHex+passwordExt), []byte(k.Password+"\n"), 0o600); err != nil {
			return err
		}
	}
	return nil
}
