package proc

import (
	"encoding/json"
	"errors"
	"os"
	"strings"
	"testing"
	"time"
)

// TestHarnessSmoke exercises the harness itself against the real binary when one is
// available (VERIF_FFSIGNER); it is a sanity anchor, not a property check.
func TestHarnessSmoke(t *testing.T) {
	if os.Getenv("VERIF_FFSIGNER") == "" {
		t.Skip("VERIF_FFSIGNER not set")
	}
	pool := NewPool(t.TempDir())
	defer pool.Close()
	chain := int64(1337)
	in, err := pool.Get("cfg-1337", &chain, nil)
	if err != nil {
		t.Fatal(err)
	}
	tok := Token(1)
	in.Backend.Install(&Script{
		ByToken: map[string]Reply{tok: ResultReply(`{"big":18446744073709551617}`)},
		Rank:    map[string]int{tok: 0},
		Default: ResultReply(`null`),
	})
	res, err := in.Signer.Post([]byte(`{"jsonrpc":"2.0","id":7,"method":"eth_call","params":["`+tok+`"]}`), 10*time.Second)
	if err != nil {
		t.Fatal(err)
	}
	calls, timedOut := in.Backend.Finish()
	if timedOut || len(calls) != 1 || calls[0].Token != tok || calls[0].Method != "eth_call" {
		t.Fatalf("calls: %+v timedOut=%v", calls, timedOut)
	}
	if !strings.Contains(string(res.Body), "18446744073709551617") {
		t.Fatalf("body: %s", res.Body)
	}
	// discovery
	in2, err := pool.Get("disc", nil, json.RawMessage(`"0x539"`))
	if err != nil {
		t.Fatal(err)
	}
	res, err = in2.Signer.Post([]byte(`{"jsonrpc":"2.0","id":1,"method":"eth_accounts"}`), 10*time.Second)
	if err != nil || !strings.Contains(string(res.Body), in2.Keys[0].AddrHex) {
		t.Fatalf("accounts: %v %s", err, res.Body)
	}
	// every decoy entry is listed next to the real keys
	for _, a := range in2.Listed() {
		if !strings.Contains(string(res.Body), a) {
			t.Fatalf("accounts: %s lacks %s", res.Body, a)
		}
	}
	if len(in2.Listed()) != len(in2.Keys)+len(DecoyKinds) {
		t.Fatalf("listed: %v", in2.Listed())
	}
	t1 := time.Now()
	in3, err := pool.Fresh(&chain, nil)
	if err != nil {
		t.Fatal(err)
	}
	t.Logf("starting a fresh process took %s", time.Since(t1))
	pool.Drop(in3)
	if in3.Signer.Alive() {
		t.Fatal("dropped instance still alive")
	}
	if !in.Signer.Alive() || !in2.Signer.Alive() {
		t.Fatal("not alive")
	}
	// a process that listens to its wallet directory takes in a key file added while it runs
	in4, err := pool.FreshListener(&chain, nil, true)
	if errors.Is(err, ErrListenerLimit) {
		t.Logf("no inotify instance available: %v", err)
	} else if err != nil {
		t.Fatal(err)
	} else {
		extra := ExtraKey(0)
		if strings.Contains(strings.Join(in4.Listed(), ","), extra.AddrHex) {
			t.Fatal("the extra key is part of the start-up wallet")
		}
		if err := AddKey(in4.WalletDir, extra, 0, PlaceRename, true, ".key.json", ".pwd"); err != nil {
			t.Fatal(err)
		}
		deadline := time.Now().Add(30 * time.Second)
		for {
			res, err := in4.Signer.Post([]byte(`{"jsonrpc":"2.0","id":1,"method":"eth_accounts"}`), 10*time.Second)
			if err == nil && strings.Contains(string(res.Body), extra.AddrHex) {
				break
			}
			if time.Now().After(deadline) {
				t.Fatalf("the added key is not listed within 30 s: %v %s", err, res.Body)
			}
			time.Sleep(20 * time.Millisecond)
		}
		pool.Drop(in4)
		if in4.Signer.Alive() {
			t.Fatal("dropped listening instance still alive")
		}
	}
	if len(pool.Pids()) != 2 {
		t.Fatalf("pids: %v", pool.Pids())
	}
	t0 := time.Now()
	pool.Close()
	t.Logf("graceful shutdown of 2 processes took %s", time.Since(t0))
	if in.Signer.Alive() || in2.Signer.Alive() {
		t.Fatal("still alive after Close")
	}
}
