package abilib

import (
	"encoding/json"
	"sync"
	"testing"

	"pgregory.net/rapid"

	"verifharness/gen/abigen"
)

// Morph must spell exactly the target definition and keep the objects that exist in both.
func TestMorph(t *testing.T) {
	rapid.Check(t, func(rt *rapid.T) {
		a := abigen.Params(rt, "a", 3, abigen.Opts{Aliases: true})
		b := abigen.Params(rt, "b", 3, abigen.Opts{Aliases: true})
		internal := rapid.Bool().Draw(rt, "internal")
		pa, err := ParamsOf(a, internal)
		if err != nil {
			rt.Fatal(err)
		}
		var firstObj interface{}
		if len(pa) > 0 {
			firstObj = pa[0]
		}
		if err := Morph(&pa, b, internal); err != nil {
			rt.Fatal(err)
		}
		got, _ := json.Marshal(pa)
		want, _ := ParamsOf(b, internal)
		wantJSON, _ := json.Marshal(want)
		if string(got) != string(wantJSON) {
			rt.Fatalf("morphed definition %s, want %s", got, wantJSON)
		}
		if firstObj != nil && len(pa) > 0 && interface{}(pa[0]) != firstObj {
			rt.Fatalf("the first parameter object was replaced instead of edited")
		}
	})
}

func TestOwnedAndBarrier(t *testing.T) {
	o := NewOwned([]byte{1, 2, 3})
	b := o.Bytes()
	if len(b) != 3 || cap(b) <= 3 || !o.Unchanged() {
		t.Fatal("owned buffer layout")
	}
	_ = append(b, 9) // writes into the spare capacity
	if o.Unchanged() {
		t.Fatal("a write beyond len() was not noticed")
	}
	o.Refill([]byte{7})
	if !o.Unchanged() || len(o.Bytes()) != 1 {
		t.Fatal("refill")
	}
	o.Bytes()[0] = 8
	if o.Unchanged() {
		t.Fatal("a write into the data was not noticed")
	}
	bar := NewBarrier(4)
	var wg sync.WaitGroup
	for i := 0; i < 4; i++ {
		wg.Add(1)
		go func() { defer wg.Done(); bar.Wait() }()
	}
	wg.Wait()
}
