// Package abilib holds the helpers the ABI property packages (C02, C03, C11, C12) share that
// need the library under test itself: building a library definition from a reference type,
// morphing ONE library definition in place into another (the "modify, then call Validate()
// again" flow the library documents), a start barrier for goroutines that must hit one shared
// definition at the same instant, and caller-owned buffers with spare capacity.
//
// (gen/abigen itself imports neither the library nor anything that does.)
package abilib

import (
	"encoding/json"
	"runtime"
	"sync/atomic"

	"github.com/hyperledger/firefly-signer/pkg/abi"

	"verifharness/gen/abigen"
	"verifharness/ref/abiref"
)

// ParamsOf builds a fresh library parameter array (nothing parsed or cached yet) for the
// parameter-list tuple t, through the library's own JSON form.
func ParamsOf(t *abiref.Type, internalTypes bool) (abi.ParameterArray, error) {
	var pa abi.ParameterArray
	if err := json.Unmarshal(abigen.ParamsJSON(t, internalTypes), &pa); err != nil {
		return nil, err
	}
	return pa, nil
}

// Morph edits the library definition *pa IN PLACE so that it spells the parameter list `to`:
// every *abi.Parameter object that exists at the same position in both definitions is kept
// (with whatever the library cached on it) and only its exported fields are assigned - what a
// caller does who changes `abi[0].Inputs[0].Components[1].Type = "string"`. Positions that
// only exist in `to` get new objects, surplus ones are cut off. The caller is expected to call
// Validate() afterwards, as the library documents.
func Morph(pa *abi.ParameterArray, to *abiref.Type, internalTypes bool) error {
	fresh, err := ParamsOf(to, internalTypes)
	if err != nil {
		return err
	}
	morphArray(pa, fresh)
	return nil
}

func morphArray(cur *abi.ParameterArray, fresh abi.ParameterArray) {
	n := len(*cur)
	if len(fresh) < n {
		n = len(fresh)
	}
	for i := 0; i < n; i++ {
		p, f := (*cur)[i], fresh[i]
		p.Name, p.Type, p.InternalType, p.Indexed = f.Name, f.Type, f.InternalType, f.Indexed
		if len(f.Components) == 0 {
			p.Components = f.Components
		} else {
			morphArray(&p.Components, f.Components)
		}
	}
	if len(fresh) > n {
		*cur = append((*cur)[:n:n], fresh[n:]...)
	} else {
		*cur = (*cur)[:n]
	}
}

// Barrier releases n goroutines at (as nearly as possible) the same instant: each calls Wait
// and spins until all have arrived. A channel close wakes goroutines microseconds apart; races
// on the FIRST use of a shared object need them nanoseconds apart.
type Barrier struct {
	n int32
	c atomic.Int32
}

func NewBarrier(n int) *Barrier { return &Barrier{n: int32(n)} }

func (b *Barrier) Wait() {
	b.c.Add(1)
	for spins := 0; b.c.Load() < b.n; spins++ {
		if spins&1023 == 1023 {
			runtime.Gosched() // fewer processors than goroutines
		}
	}
}

// Owned is a caller-owned buffer: the bytes handed to the library are a sub-slice in the
// middle of a larger allocation, with guard bytes before it and spare capacity after it.
// Unchanged reports whether the library left every byte of the allocation alone.
type Owned struct {
	all  []byte
	snap []byte
	off  int
	n    int
}

const guard = 48

// NewOwned places b inside a fresh allocation.
func NewOwned(b []byte) *Owned {
	o := &Owned{all: make([]byte, guard+len(b)+guard), off: guard, n: len(b)}
	for i := range o.all {
		o.all[i] = 0xC3
	}
	copy(o.all[o.off:], b)
	o.snap = append([]byte{}, o.all...)
	return o
}

// Bytes is the slice to hand to the library: len = the data, cap runs on into the guard.
func (o *Owned) Bytes() []byte { return o.all[o.off : o.off+o.n] }

// Unchanged reports whether the allocation (data, guards, spare capacity) is as it was when it
// was filled last.
func (o *Owned) Unchanged() bool { return string(o.all) == string(o.snap) }

// Refill overwrites the data area with b (which must not be longer than the allocation allows;
// longer input is cut) followed by the scribble pattern, and takes a new snapshot: what a
// caller does who re-uses its receive buffer for the next message.
func (o *Owned) Refill(b []byte) []byte {
	for i := o.off; i < len(o.all); i++ {
		o.all[i] = 0x5A
	}
	n := copy(o.all[o.off:], b)
	o.n = n
	o.snap = append(o.snap[:0], o.all...)
	return o.Bytes()
}

// Scribble overwrites the whole allocation with a pattern.
func (o *Owned) Scribble() {
	for i := range o.all {
		o.all[i] = 0xA5 ^ byte(i)
	}
	o.snap = append(o.snap[:0], o.all...)
}
