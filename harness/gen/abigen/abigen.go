// Package abigen holds the rapid generators for ABI type trees and values (in the
// representation of verifharness/ref/abiref) and the renderers that turn a value into
// every external representation the library under test accepts.  It imports neither the
// library nor anything that does, so it can be shared by the property packages
// C02, C03, C11 and C12.
//
// Public API:
//
//	Type(rt, label, depth, opts)    one type tree (any kind), nesting depth <= depth
//	Params(rt, label, depth, opts)  a parameter list = top-level tuple with 0..MaxMembers members
//	                                (all named / unnamed / partially named, distinct identifier names)
//	Value(rt, label, t)             a value of t: integers biased to every range boundary, to 2^53/2^63/2^64
//	                                and to float64-representable magnitudes; empty and > 32-byte dynamic data;
//	                                multi-byte UTF-8 strings; arrays of length 0..4
//	Opts                            generation switches (NoFixedPoint, Aliases, NoEmptyTuple, Indexed, ...)
//
//	Ext                             a JSON-serialisable tree describing ONE external rendering of a value:
//	                                JSON kinds (str, num, bool, list, obj) and Go-only kinds (bigint, int8..uint,
//	                                float64, bigfloat, bytes, typed slices).  e.JSON() gives the JSON text handed
//	                                to EncodeABIDataJSON / ParseJSON; e.Go() gives the Go value handed to
//	                                EncodeABIDataValues / ParseExternalData.
//	DrawJSON(rt, label, t, v)       a randomly chosen JSON rendering of v (decimal string / 0x hex string incl.
//	                                "-0x…" / JSON number / integral fraction+exponent forms; tuples as arrays or objects)
//	DrawGo(rt, label, t, v)         a randomly chosen Go rendering (*big.Int, sized ints that fit, float64 only when
//	                                exactly representable, []byte or hex string, map vs slice, json.Number, strings)
//	Canon(t, v)                     the plain default rendering (decimal strings, 0x hex, arrays) — valid in both modes
//	DrawInt(rt, label, i, goMode)   rendering of an arbitrary integer (used for out-of-range mutants)
//	ParamsJSON(t, internalTypes)    the library's abi.ParameterArray JSON (name/type/components/internalType/indexed)
//	                                for a parameter-list tuple
//	EntryJSON(kind, name, t, anon)  one ABI entry (function / event / error) as JSON
//
// Every random choice is drawn from rapid.
package abigen

import (
	"bytes"
	"encoding/hex"
	"encoding/json"
	"fmt"
	"math"
	"math/big"
	"strconv"
	"strings"

	"pgregory.net/rapid"

	"verifharness/gen"
	"verifharness/ref/abiref"
)

// Opts are the switches of the type generator.
type Opts struct {
	NoFixedPoint bool // never produce fixed/ufixed<M>x<N>
	NoFunction   bool // never produce the function type
	Aliases      bool // sometimes spell uint256/int256/fixed128x18/ufixed128x18 as uint/int/fixed/ufixed (Type.Alias)
	NoEmptyTuple bool // never produce zero-member tuples (they are never produced inside arrays anyway)
	Indexed      bool // Params: mark up to 3 (4 when anonymous is intended: see MaxIndexed) members as indexed
	MaxIndexed   int  // Params with Indexed: maximum number of indexed members (default 3)
	MaxArrayLen  int  // k of T[k] is drawn from 1..MaxArrayLen (default 4)
	MaxMembers   int  // tuples have 0..MaxMembers members (default 5)
	Budget       int  // approximate bound on the number of type nodes (default 24)
}

func (o Opts) maxArrayLen() int {
	if o.MaxArrayLen > 0 {
		return o.MaxArrayLen
	}
	return 4
}
func (o Opts) maxMembers() int {
	if o.MaxMembers > 0 {
		return o.MaxMembers
	}
	return 5
}
func (o Opts) budget() int {
	if o.Budget > 0 {
		return o.Budget
	}
	return 24
}

var widths = func() []int {
	var w []int
	for m := 8; m <= 256; m += 8 {
		w = append(w, m)
	}
	return w
}()

// popular widths get extra weight, but every width is reachable
var hotWidths = []int{8, 16, 32, 64, 72, 128, 160, 248, 256}

func drawWidth(rt *rapid.T, label string) int {
	if rapid.IntRange(0, 2).Draw(rt, label+".hot") == 0 {
		return rapid.SampledFrom(hotWidths).Draw(rt, label+".m")
	}
	return rapid.SampledFrom(widths).Draw(rt, label+".m")
}

// Elementary draws one elementary type.
func Elementary(rt *rapid.T, label string, o Opts) *abiref.Type {
	for {
		switch rapid.IntRange(0, 15).Draw(rt, label+".el") {
		case 0, 1, 2:
			t := abiref.UintT(drawWidth(rt, label))
			if o.Aliases && t.M == 256 && rapid.Bool().Draw(rt, label+".alias") {
				t.Alias = true
			}
			return t
		case 3, 4, 5:
			t := abiref.IntT(drawWidth(rt, label))
			if o.Aliases && t.M == 256 && rapid.Bool().Draw(rt, label+".alias") {
				t.Alias = true
			}
			return t
		case 6:
			return abiref.AddressT()
		case 7:
			return abiref.BoolT()
		case 8, 9:
			return abiref.FixedBytesT(rapid.IntRange(1, 32).Draw(rt, label+".bm"))
		case 10, 11:
			return abiref.BytesT()
		case 12, 13:
			return abiref.StringT()
		case 14:
			if o.NoFunction {
				continue
			}
			return abiref.FunctionT()
		default:
			if o.NoFixedPoint {
				continue
			}
			k := abiref.Fixed
			if rapid.Bool().Draw(rt, label+".unsigned") {
				k = abiref.Ufixed
			}
			if o.Aliases && rapid.IntRange(0, 3).Draw(rt, label+".alias") == 0 {
				return &abiref.Type{Kind: k, M: 128, N: 18, Alias: true}
			}
			n := rapid.SampledFrom([]int{1, 2, 4, 10, 18, 19, 20, 38, 77, 80}).Draw(rt, label+".n")
			return &abiref.Type{Kind: k, M: drawWidth(rt, label), N: n}
		}
	}
}

// Type draws a type tree of nesting depth <= depth. Shapes the repository's own suite
// lacks get extra weight: dynamic tuples inside fixed arrays inside tuples, arrays of
// arrays of dynamic types, static tuples inside static arrays.
func Type(rt *rapid.T, label string, depth int, o Opts) *abiref.Type {
	b := o.budget()
	return genType(rt, label, depth, o, &b, false)
}

func dynamicLeaf(rt *rapid.T, label string) *abiref.Type {
	if rapid.Bool().Draw(rt, label+".str") {
		return abiref.StringT()
	}
	return abiref.BytesT()
}

func genType(rt *rapid.T, label string, depth int, o Opts, budget *int, inArray bool) *abiref.Type {
	*budget--
	if depth <= 0 || *budget <= 0 {
		return Elementary(rt, label, o)
	}
	k := rapid.IntRange(0, 21).Draw(rt, label+".kind")
	var t *abiref.Type
	switch {
	case k < 8:
		t = Elementary(rt, label, o)
	case k < 11:
		t = abiref.SliceT(genType(rt, label+"[]", depth-1, o, budget, true))
	case k < 14:
		n := rapid.IntRange(1, o.maxArrayLen()).Draw(rt, label+".k")
		t = abiref.ArrayT(genType(rt, label+"[k]", depth-1, o, budget, true), n)
	case k < 19 || (k == 19 && depth < 3) || (k >= 20 && depth < 2):
		t = genTuple(rt, label, depth, o, budget, inArray)
	case k == 19:
		// (…, (dynamic tuple)[k], …) : dynamic tuple inside fixed array inside tuple
		inner := abiref.TupleT(Elementary(rt, label+".s0", o), dynamicLeaf(rt, label+".s1"))
		if depth > 3 && rapid.Bool().Draw(rt, label+".deeper") {
			inner.Members = append(inner.Members, abiref.Member{Type: genType(rt, label+".s2", depth-3, o, budget, false)})
		}
		arr := abiref.ArrayT(inner, rapid.IntRange(1, o.maxArrayLen()).Draw(rt, label+".k"))
		t = abiref.TupleT(Elementary(rt, label+".s3", o), arr, Elementary(rt, label+".s4", o))
		nameMembers(rt, label+".n", inner, o)
		nameMembers(rt, label+".m", t, o)
		*budget -= 5
	case k == 20:
		// arrays of arrays of dynamic types
		var e *abiref.Type = dynamicLeaf(rt, label+".d")
		if depth >= 3 && rapid.IntRange(0, 2).Draw(rt, label+".dt") == 0 {
			e = abiref.TupleT(dynamicLeaf(rt, label+".d2"), Elementary(rt, label+".d3", o))
			nameMembers(rt, label+".dn", e, o)
		}
		for i := 0; i < 2; i++ {
			if rapid.Bool().Draw(rt, fmt.Sprintf("%s.fix%d", label, i)) {
				e = abiref.ArrayT(e, rapid.IntRange(1, 3).Draw(rt, fmt.Sprintf("%s.k%d", label, i)))
			} else {
				e = abiref.SliceT(e)
			}
		}
		t = e
		*budget -= 3
	default:
		// static tuple inside static array (in-place layout, no offsets)
		inner := abiref.TupleT(Elementary(rt, label+".p0", Opts{NoFixedPoint: o.NoFixedPoint, NoFunction: o.NoFunction}), abiref.FixedBytesT(rapid.IntRange(1, 32).Draw(rt, label+".p1")))
		if inner.Members[0].Type.IsDynamic() {
			inner.Members[0].Type = abiref.IntT(drawWidth(rt, label+".p2"))
		}
		nameMembers(rt, label+".pn", inner, o)
		t = abiref.ArrayT(inner, rapid.IntRange(1, o.maxArrayLen()).Draw(rt, label+".k"))
		*budget -= 3
	}
	if inArray && t.ZeroSize() {
		// elements of zero encoded size inside arrays are outside every quantifier
		t = abiref.UintT(256)
	}
	return t
}

var namePool = []string{"a", "b", "c", "x", "y", "to", "from", "amount", "value", "data", "_id", "$v", "tokenId", "Owner", "is_ok", "n1", "name", "type"}

func nameMembers(rt *rapid.T, label string, t *abiref.Type, o Opts) {
	if len(t.Members) == 0 {
		return
	}
	mode := rapid.IntRange(0, 3).Draw(rt, label+".naming") // 0,1 all named; 2 none; 3 partial
	used := map[string]bool{}
	anyNamed, anyUnnamed := false, false
	for i := range t.Members {
		named := mode <= 1 || (mode == 3 && rapid.Bool().Draw(rt, fmt.Sprintf("%s.named%d", label, i)))
		if mode == 3 && len(t.Members) >= 2 && i == len(t.Members)-1 {
			// make "partial" really partial when possible
			if !anyNamed {
				named = true
			} else if !anyUnnamed {
				named = false
			}
		}
		if !named {
			t.Members[i].Name = ""
			anyUnnamed = true
			continue
		}
		anyNamed = true
		n := rapid.SampledFrom(namePool).Draw(rt, fmt.Sprintf("%s.name%d", label, i))
		for used[n] {
			n = n + strconv.Itoa(i)
		}
		used[n] = true
		t.Members[i].Name = n
	}
}

func genTuple(rt *rapid.T, label string, depth int, o Opts, budget *int, inArray bool) *abiref.Type {
	min := 0
	if o.NoEmptyTuple || inArray {
		min = 1
	}
	n := rapid.IntRange(min, o.maxMembers()).Draw(rt, label+".members")
	t := &abiref.Type{Kind: abiref.Tuple}
	for i := 0; i < n; i++ {
		t.Members = append(t.Members, abiref.Member{Type: genType(rt, fmt.Sprintf("%s.%d", label, i), depth-1, o, budget, false)})
	}
	nameMembers(rt, label, t, o)
	return t
}

// Params draws a parameter list: a top-level tuple with 0..MaxMembers members whose
// member types have nesting depth <= depth.
func Params(rt *rapid.T, label string, depth int, o Opts) *abiref.Type {
	b := o.budget()
	n := rapid.IntRange(0, o.maxMembers()).Draw(rt, label+".params")
	if n == 0 && rapid.IntRange(0, 3).Draw(rt, label+".reallyEmpty") != 0 {
		n = 1 // keep empty parameter lists rare
	}
	t := &abiref.Type{Kind: abiref.Tuple}
	for i := 0; i < n; i++ {
		t.Members = append(t.Members, abiref.Member{Type: genType(rt, fmt.Sprintf("%s.%d", label, i), depth, o, &b, false)})
	}
	nameMembers(rt, label, t, o)
	if o.Indexed {
		max := o.MaxIndexed
		if max <= 0 {
			max = 3
		}
		cnt := 0
		for i := range t.Members {
			if cnt < max && rapid.IntRange(0, 2).Draw(rt, fmt.Sprintf("%s.indexed%d", label, i)) == 0 {
				t.Members[i].Indexed = true
				cnt++
			}
		}
	}
	return t
}

// ---- values

var one = big.NewInt(1)

func pow2(n int) *big.Int { return new(big.Int).Lsh(one, uint(n)) }

// IntInRange draws an integer of [lo, hi] with a strong bias to the boundaries
// (lo, lo+1, -1, 0, 1, hi-1, hi), to 2^53-1 … 2^53+1, 2^63-1, 2^63, 2^64-1, 2^64 and their
// negatives when they lie in the range, to sparse values (few significant bits, exactly
// representable as float64) and to values of every byte length.
func IntInRange(rt *rapid.T, label string, lo, hi *big.Int) *big.Int {
	in := func(v *big.Int) bool { return v.Cmp(lo) >= 0 && v.Cmp(hi) <= 0 }
	mode := rapid.IntRange(0, 11).Draw(rt, label+".mode")
	var v *big.Int
	switch {
	case mode < 3:
		c := []*big.Int{lo, hi, new(big.Int).Add(lo, one), new(big.Int).Sub(hi, one), big.NewInt(0), big.NewInt(1), big.NewInt(-1)}
		v = rapid.SampledFrom(c).Draw(rt, label+".edge")
	case mode < 5:
		var c []*big.Int
		for _, e := range []int{53, 63, 64} {
			p := pow2(e)
			for _, d := range []int64{-2, -1, 0, 1, 2} {
				x := new(big.Int).Add(p, big.NewInt(d))
				c = append(c, x, new(big.Int).Neg(x))
			}
		}
		v = rapid.SampledFrom(c).Draw(rt, label+".js")
	case mode < 7:
		v = big.NewInt(int64(rapid.IntRange(-300, 300).Draw(rt, label+".small")))
	case mode < 9:
		// sparse: up to 53 significant bits shifted left
		mant := new(big.Int).SetUint64(rapid.Uint64Range(1, 1<<53-1).Draw(rt, label+".mant"))
		sh := rapid.IntRange(0, 255).Draw(rt, label+".shift")
		v = mant.Lsh(mant, uint(sh))
		if rapid.Bool().Draw(rt, label+".neg") {
			v.Neg(v)
		}
		// bring into range by shifting right
		for !in(v) && v.Sign() != 0 {
			v.Quo(v, big.NewInt(256))
		}
	default:
		nb := rapid.IntRange(0, 33).Draw(rt, label+".nbytes")
		b := rapid.SliceOfN(gen.ByteBiased(), nb, nb).Draw(rt, label+".bytes")
		v = new(big.Int).SetBytes(b)
		if rapid.Bool().Draw(rt, label+".neg") {
			v.Neg(v)
		}
	}
	if !in(v) {
		// fold into the range deterministically
		span := new(big.Int).Sub(hi, lo)
		span.Add(span, one)
		v = new(big.Int).Mod(v, span)
		v.Add(v, lo)
	}
	return v
}

var runeSets = [][]rune{
	[]rune("abcXYZ019 _-"),
	[]rune("\"\\/<>&'\n\t\x00\x1f\x7f"),
	[]rune("\u00e9\u00f1\u00fc\u00df\u03a9\u0416"),
	[]rune("\u65e5\u672c\u8a9e\u4e2d\u6587\ud55c"),
	[]rune("\U0001F600\U0001F680\U0001D518\U0010FFFF"),
	[]rune("\u00a0\u2003\ufeff\ufffd\u2028"),
}

// String draws a valid UTF-8 string: empty, short, multi-byte, with JSON-special
// characters, and with byte lengths on and beyond the 31/32/33 boundary.
func String(rt *rapid.T, label string) string {
	mode := rapid.IntRange(0, 9).Draw(rt, label+".mode")
	switch {
	case mode == 0:
		return ""
	case mode < 6:
		n := rapid.IntRange(1, 12).Draw(rt, label+".n")
		var sb strings.Builder
		for i := 0; i < n; i++ {
			set := rapid.SampledFrom(runeSets).Draw(rt, fmt.Sprintf("%s.set%d", label, i))
			sb.WriteRune(rapid.SampledFrom(set).Draw(rt, fmt.Sprintf("%s.r%d", label, i)))
		}
		return sb.String()
	case mode < 9:
		// exact byte length around a word boundary, ASCII with one optional multi-byte rune
		n := rapid.SampledFrom([]int{31, 32, 33, 63, 64, 65, 96}).Draw(rt, label+".blen")
		s := strings.Repeat("abcdefghij", 10)[:n]
		if rapid.Bool().Draw(rt, label+".mb") {
			s = "\u00e9" + s[2:]
		}
		return s
	default:
		n := rapid.IntRange(34, 300).Draw(rt, label+".long")
		unit := rapid.SampledFrom([]string{"x", "ab", "\u65e5", "\U0001F600", "\u00e9-"}).Draw(rt, label+".unit")
		return strings.Repeat(unit, n/len(unit)+1)
	}
}

// DynBytes draws the contents of a dynamic bytes value (empty, short, on and beyond 32 bytes).
func DynBytes(rt *rapid.T, label string) []byte {
	n := gen.Len(rt, label+".len", 300)
	return gen.Bytes(rt, label, n)
}

// FixedScaled draws the scaled integer (value * 10^N) of a fixed-point type: any in-range
// integer with boundary bias, or an integral value (multiple of 10^N, so that it can also be
// given as a Go integer), or a dyadic fraction k/2^j with j <= N (exactly representable as a
// binary float, so that it can also be given as float64 / *big.Float).
func FixedScaled(rt *rapid.T, label string, t *abiref.Type) *big.Int {
	lo, hi := t.Range()
	mode := rapid.IntRange(0, 9).Draw(rt, label+".fpmode")
	unit := abiref.Pow10(t.N) // scaled value of 1
	if mode >= 8 {
		j := rapid.IntRange(1, 12).Draw(rt, label+".j")
		if j > t.N {
			j = t.N
		}
		unit = new(big.Int).Quo(unit, pow2(j)) // 10^N / 2^j = 5^j * 10^(N-j), exact
	} else if mode < 6 {
		return IntInRange(rt, label, lo, hi)
	}
	klo, khi := new(big.Int).Quo(lo, unit), new(big.Int).Quo(hi, unit) // Quo truncates towards zero: stays in range
	return new(big.Int).Mul(IntInRange(rt, label+".k", klo, khi), unit)
}

// Value draws a value of t.
func Value(rt *rapid.T, label string, t *abiref.Type) abiref.Value {
	b := 160
	return genValue(rt, label, t, &b)
}

func genValue(rt *rapid.T, label string, t *abiref.Type, budget *int) abiref.Value {
	*budget--
	switch t.Kind {
	case abiref.Uint, abiref.Int:
		lo, hi := t.Range()
		return abiref.IntV(IntInRange(rt, label, lo, hi))
	case abiref.Fixed, abiref.Ufixed:
		return abiref.IntV(FixedScaled(rt, label, t))
	case abiref.Bool:
		return abiref.BoolV(rapid.Bool().Draw(rt, label))
	case abiref.Address:
		return abiref.BytesV(fixedLen(rt, label, 20))
	case abiref.FixedBytes:
		return abiref.BytesV(fixedLen(rt, label, t.M))
	case abiref.Function:
		return abiref.BytesV(fixedLen(rt, label, 24))
	case abiref.Bytes:
		return abiref.BytesV(DynBytes(rt, label))
	case abiref.String:
		return abiref.StrV(String(rt, label))
	case abiref.Array:
		v := abiref.Value{Elems: make([]abiref.Value, t.Len)}
		for i := range v.Elems {
			v.Elems[i] = genValue(rt, fmt.Sprintf("%s[%d]", label, i), t.Elem, budget)
		}
		return v
	case abiref.Slice:
		max := 4
		if *budget < 40 {
			max = 2
		}
		if *budget <= 0 {
			max = 0
		}
		n := rapid.IntRange(0, max).Draw(rt, label+".len")
		v := abiref.Value{Elems: make([]abiref.Value, n)}
		for i := range v.Elems {
			v.Elems[i] = genValue(rt, fmt.Sprintf("%s[%d]", label, i), t.Elem, budget)
		}
		return v
	case abiref.Tuple:
		v := abiref.Value{Elems: make([]abiref.Value, len(t.Members))}
		for i := range v.Elems {
			v.Elems[i] = genValue(rt, fmt.Sprintf("%s.%d", label, i), t.Members[i].Type, budget)
		}
		return v
	}
	panic("abigen: unknown kind")
}

func fixedLen(rt *rapid.T, label string, n int) []byte {
	switch rapid.IntRange(0, 7).Draw(rt, label+".fl") {
	case 0:
		return make([]byte, n) // all zero
	case 1:
		return bytes.Repeat([]byte{0xff}, n)
	case 2:
		b := make([]byte, n) // leading zeros, last byte set
		b[n-1] = 1
		return b
	case 3:
		b := make([]byte, n) // trailing zeros, first byte set
		b[0] = 0x80
		return b
	}
	return gen.Bytes(rt, label, n)
}

// ---- Ext: one external rendering of a value

// Ext is a JSON-serialisable description of an external representation.
//
//	K       meaning of S / L                                   JSON()                  Go()
//	str     S = string contents                                JSON string             string
//	num     S = JSON number literal                            JSON number             json.Number
//	bool    S = "true" | "false"                               JSON bool               bool
//	list    L = items                                          JSON array              []interface{}
//	obj     Keys[i] -> L[i]                                     JSON object             map[string]interface{}
//	bigint  S = decimal                                        —                       *big.Int
//	int8 int16 int32 int64 int uint8 uint16 uint32 uint64 uint S = decimal     —       that Go type
//	float64 S = strconv 'g' -1 formatting                      —                       float64
//	bigfloat S = decimal literal, exactly representable in binary —                    *big.Float (exact)
//	bytes   S = hex                                            —                       []byte
//	strs    L = items of kind str                              —                       []string
//	bigints L = items of kind bigint                           —                       []*big.Int
type Ext struct {
	K    string   `json:"k"`
	S    string   `json:"s,omitempty"`
	L    []Ext    `json:"l,omitempty"`
	Keys []string `json:"keys,omitempty"`
}

func Str(s string) Ext       { return Ext{K: "str", S: s} }
func Num(s string) Ext       { return Ext{K: "num", S: s} }
func List(l []Ext) Ext       { return Ext{K: "list", L: l} }
func Scalar(k, s string) Ext { return Ext{K: k, S: s} }

// JSONable reports whether e uses JSON kinds only.
func (e Ext) JSONable() bool {
	switch e.K {
	case "str", "num", "bool":
		return true
	case "list", "obj":
		for _, c := range e.L {
			if !c.JSONable() {
				return false
			}
		}
		return true
	}
	return false
}

// JSON renders e as JSON text. It fails for Go-only kinds.
func (e Ext) JSON() ([]byte, error) {
	var buf bytes.Buffer
	if err := e.writeJSON(&buf); err != nil {
		return nil, err
	}
	return buf.Bytes(), nil
}

func (e Ext) writeJSON(buf *bytes.Buffer) error {
	switch e.K {
	case "str":
		b, err := json.Marshal(e.S)
		if err != nil {
			return err
		}
		buf.Write(b)
	case "num":
		buf.WriteString(e.S)
	case "bool":
		buf.WriteString(e.S)
	case "list":
		buf.WriteByte('[')
		for i, c := range e.L {
			if i > 0 {
				buf.WriteByte(',')
			}
			if err := c.writeJSON(buf); err != nil {
				return err
			}
		}
		buf.WriteByte(']')
	case "obj":
		buf.WriteByte('{')
		for i, c := range e.L {
			if i > 0 {
				buf.WriteByte(',')
			}
			k, _ := json.Marshal(e.Keys[i])
			buf.Write(k)
			buf.WriteByte(':')
			if err := c.writeJSON(buf); err != nil {
				return err
			}
		}
		buf.WriteByte('}')
	default:
		return fmt.Errorf("abigen: kind %q has no JSON form", e.K)
	}
	return nil
}

// Go materialises e as the Go value handed to the library.
func (e Ext) Go() interface{} {
	// Every []byte of one materialisation is a sub-slice of ONE shared buffer, laid out in
	// order, each with the following values inside its spare capacity - the way a caller
	// that slices fields out of a received message passes them. A library that writes
	// beyond len() of an input slice (e.g. pads in place with append) corrupts the siblings.
	total := e.bytesTotal()
	arena := make([]byte, 0, total+64)
	v := e.goArena(&arena)
	return v
}

func (e Ext) bytesTotal() int {
	n := 0
	if e.K == "bytes" {
		n += len(e.S) / 2
	}
	for _, c := range e.L {
		n += c.bytesTotal()
	}
	return n
}

func (e Ext) goArena(arena *[]byte) interface{} {
	bi := func() *big.Int {
		i, ok := new(big.Int).SetString(e.S, 10)
		if !ok {
			panic("abigen: bad integer in Ext: " + e.S)
		}
		return i
	}
	switch e.K {
	case "str":
		return e.S
	case "num":
		return json.Number(e.S)
	case "bool":
		return e.S == "true"
	case "list":
		out := make([]interface{}, len(e.L))
		for i, c := range e.L {
			out[i] = c.goArena(arena)
		}
		return out
	case "obj":
		out := make(map[string]interface{}, len(e.L))
		for i, c := range e.L {
			out[e.Keys[i]] = c.goArena(arena)
		}
		return out
	case "bigint":
		return bi()
	case "int8":
		return int8(bi().Int64())
	case "int16":
		return int16(bi().Int64())
	case "int32":
		return int32(bi().Int64())
	case "int64":
		return bi().Int64()
	case "int":
		return int(bi().Int64())
	case "uint8":
		return uint8(bi().Uint64())
	case "uint16":
		return uint16(bi().Uint64())
	case "uint32":
		return uint32(bi().Uint64())
	case "uint64":
		return bi().Uint64()
	case "uint":
		return uint(bi().Uint64())
	case "float64":
		f, err := strconv.ParseFloat(e.S, 64)
		if err != nil {
			panic("abigen: bad float64 in Ext: " + e.S)
		}
		return f
	case "bigfloat":
		r, ok := new(big.Rat).SetString(e.S)
		if !ok {
			panic("abigen: bad bigfloat in Ext: " + e.S)
		}
		f := new(big.Float).SetPrec(uint(r.Num().BitLen() + r.Denom().BitLen() + 64))
		f.SetRat(r)
		return f
	case "bytes":
		b, err := hex.DecodeString(e.S)
		if err != nil {
			panic("abigen: bad hex in Ext: " + e.S)
		}
		off := len(*arena)
		*arena = append(*arena, b...)
		return (*arena)[off : off+len(b)] // capacity runs on into the values that follow
	case "strs":
		out := make([]string, len(e.L))
		for i, c := range e.L {
			out[i] = c.S
		}
		return out
	case "bigints":
		out := make([]*big.Int, len(e.L))
		for i, c := range e.L {
			out[i] = c.goArena(arena).(*big.Int)
		}
		return out
	}
	panic("abigen: unknown Ext kind " + e.K)
}

// GoIntRange gives the range of a sized Go integer kind.
func GoIntRange(kind string) (lo, hi *big.Int, ok bool) {
	u := func(bits int) (*big.Int, *big.Int, bool) {
		return new(big.Int), new(big.Int).Sub(pow2(bits), one), true
	}
	s := func(bits int) (*big.Int, *big.Int, bool) {
		return new(big.Int).Neg(pow2(bits - 1)), new(big.Int).Sub(pow2(bits-1), one), true
	}
	switch kind {
	case "int8":
		return s(8)
	case "int16":
		return s(16)
	case "int32":
		return s(32)
	case "int64", "int":
		return s(64)
	case "uint8":
		return u(8)
	case "uint16":
		return u(16)
	case "uint32":
		return u(32)
	case "uint64", "uint":
		return u(64)
	}
	return nil, nil, false
}

// GoIntKinds lists the sized Go integer kinds an Ext can carry.
var GoIntKinds = []string{"int8", "int16", "int32", "int64", "int", "uint8", "uint16", "uint32", "uint64", "uint"}

// FitsFloat64 reports whether the integer i is exactly representable as a float64.
func FitsFloat64(i *big.Int) bool {
	if i.Sign() == 0 {
		return true
	}
	a := new(big.Int).Abs(i)
	return a.BitLen()-int(a.TrailingZeroBits()) <= 53 && a.BitLen() <= 1023
}

// Float64Text formats an exactly representable integer as the S of a float64 Ext.
func Float64Text(i *big.Int) string {
	f, _ := new(big.Float).SetInt(i).Float64()
	return strconv.FormatFloat(f, 'g', -1, 64)
}

// HexText renders i as [-]0x<hex> (lower case, no leading zeros).
func HexText(i *big.Int) string {
	s := "0x" + new(big.Int).Abs(i).Text(16)
	if i.Sign() < 0 {
		s = "-" + s
	}
	return s
}

// ExpForms returns integral fraction/exponent spellings of i: "i.0", "i.000", and a
// mantissa-exponent form ("12e3", "1.2e4", "1.2E+4") when i has enough digits.
func ExpForms(rt *rapid.T, label string, i *big.Int) string {
	dec := new(big.Int).Abs(i).String()
	sign := ""
	if i.Sign() < 0 {
		sign = "-"
	}
	switch rapid.IntRange(0, 3).Draw(rt, label+".form") {
	case 0:
		return sign + dec + ".0"
	case 1:
		return sign + dec + "." + strings.Repeat("0", rapid.IntRange(2, 30).Draw(rt, label+".zeros"))
	}
	// strip z trailing zeros, then move the point d places to the left
	digits := strings.TrimRight(dec, "0")
	if digits == "" {
		return sign + "0e0"
	}
	z := len(dec) - len(digits)
	d := 0
	if len(digits) > 1 {
		d = rapid.IntRange(0, len(digits)-1).Draw(rt, label+".point")
	}
	m := digits
	if d > 0 {
		m = digits[:len(digits)-d] + "." + digits[len(digits)-d:]
	}
	e := rapid.SampledFrom([]string{"e", "E", "e+"}).Draw(rt, label+".e")
	return sign + m + e + strconv.Itoa(z+d)
}

// DrawInt renders the integer i in a randomly chosen representation: JSON mode (goMode
// false): decimal string, 0x hex string (negative as "-0x…"), JSON number, integral
// fraction/exponent spelling as string or number; Go mode additionally *big.Int, every
// sized Go integer type that can hold i, float64 when exactly representable, json.Number.
func DrawInt(rt *rapid.T, label string, i *big.Int, goMode bool) Ext {
	type choice struct {
		w int
		f func() Ext
	}
	cs := []choice{
		{4, func() Ext { return Str(i.String()) }},
		{3, func() Ext {
			s := HexText(i)
			switch rapid.IntRange(0, 5).Draw(rt, label+".hexstyle") {
			case 0:
				s = strings.Replace(strings.ToUpper(s), "0X", "0x", 1)
			case 1:
				s = strings.Replace(s, "0x", "0x00", 1)
			}
			return Str(s)
		}},
		{3, func() Ext { return Num(i.String()) }},
		{1, func() Ext { return Str(ExpForms(rt, label, i)) }},
		{1, func() Ext { return Num(ExpForms(rt, label, i)) }},
	}
	if goMode {
		cs = append(cs, choice{4, func() Ext { return Scalar("bigint", i.String()) }})
		var fit []string
		for _, k := range GoIntKinds {
			lo, hi, _ := GoIntRange(k)
			if i.Cmp(lo) >= 0 && i.Cmp(hi) <= 0 {
				fit = append(fit, k)
			}
		}
		if len(fit) > 0 {
			cs = append(cs, choice{5, func() Ext {
				return Scalar(rapid.SampledFrom(fit).Draw(rt, label+".gokind"), i.String())
			}})
		}
		if FitsFloat64(i) {
			cs = append(cs, choice{4, func() Ext { return Scalar("float64", Float64Text(i)) }})
		}
	}
	total := 0
	for _, c := range cs {
		total += c.w
	}
	pick := rapid.IntRange(0, total-1).Draw(rt, label+".rep")
	for _, c := range cs {
		if pick < c.w {
			return c.f()
		}
		pick -= c.w
	}
	panic("unreachable")
}

func drawHexBytes(rt *rapid.T, label string, b []byte, goMode bool) Ext {
	h := hex.EncodeToString(b)
	switch rapid.IntRange(0, 5).Draw(rt, label+".bytesrep") {
	case 0:
		return Str(h)
	case 1:
		return Str("0x" + strings.ToUpper(h))
	case 2:
		// mixed case
		r := []byte(h)
		for i := range r {
			if i%3 == 0 && r[i] >= 'a' && r[i] <= 'f' {
				r[i] -= 32
			}
		}
		return Str("0x" + string(r))
	case 3:
		if goMode {
			return Scalar("bytes", h)
		}
	}
	return Str("0x" + h)
}

// DrawDecimal renders the fixed-point value scaled/10^n as a decimal literal with at most n
// fractional digits: JSON string or JSON number; in Go mode also string, json.Number,
// *big.Float / float64 when the value is exactly representable in binary, and
// *big.Int / sized ints when it is integral.
func DrawDecimal(rt *rapid.T, label string, scaled *big.Int, n int, goMode bool) Ext {
	minFrac := 0
	if rapid.Bool().Draw(rt, label+".keepzeros") {
		minFrac = rapid.IntRange(0, n).Draw(rt, label+".minfrac")
	}
	lit := abiref.ScaledDecimal(scaled, n, minFrac)
	type choice struct {
		w int
		f func() Ext
	}
	cs := []choice{
		{4, func() Ext { return Str(lit) }},
		{3, func() Ext { return Num(lit) }},
	}
	if goMode {
		r := new(big.Rat).SetFrac(scaled, abiref.Pow10(n))
		den := r.Denom()
		dyadic := den.BitLen() > 0 && new(big.Int).And(den, new(big.Int).Sub(den, one)).Sign() == 0
		if dyadic {
			cs = append(cs, choice{3, func() Ext { return Scalar("bigfloat", abiref.ScaledDecimal(scaled, n, 0)) }})
			if f, exact := r.Float64(); exact && !math.IsInf(f, 0) {
				cs = append(cs, choice{3, func() Ext { return Scalar("float64", strconv.FormatFloat(f, 'g', -1, 64)) }})
			}
		}
		if r.IsInt() {
			i := r.Num()
			cs = append(cs, choice{2, func() Ext { return Scalar("bigint", i.String()) }})
			var fit []string
			for _, k := range GoIntKinds {
				lo, hi, _ := GoIntRange(k)
				if i.Cmp(lo) >= 0 && i.Cmp(hi) <= 0 {
					fit = append(fit, k)
				}
			}
			if len(fit) > 0 {
				cs = append(cs, choice{2, func() Ext { return Scalar(rapid.SampledFrom(fit).Draw(rt, label+".gokind"), i.String()) }})
			}
		}
	}
	total := 0
	for _, c := range cs {
		total += c.w
	}
	pick := rapid.IntRange(0, total-1).Draw(rt, label+".rep")
	for _, c := range cs {
		if pick < c.w {
			return c.f()
		}
		pick -= c.w
	}
	panic("unreachable")
}

// MemberKey is the key under which member i of tuple t is looked up / emitted in object
// form: its name, or the decimal index when it is unnamed.
func MemberKey(t *abiref.Type, i int) string {
	if t.Members[i].Name != "" {
		return t.Members[i].Name
	}
	return strconv.Itoa(i)
}

func draw(rt *rapid.T, label string, t *abiref.Type, v abiref.Value, goMode bool) Ext {
	switch t.Kind {
	case abiref.Uint, abiref.Int:
		return DrawInt(rt, label, v.Int, goMode)
	case abiref.Fixed, abiref.Ufixed:
		return DrawDecimal(rt, label, v.Int, t.N, goMode)
	case abiref.Bool:
		s := strconv.FormatBool(v.Bool)
		if rapid.IntRange(0, 3).Draw(rt, label+".boolstr") == 0 {
			return Str(s)
		}
		return Scalar("bool", s)
	case abiref.Address, abiref.FixedBytes, abiref.Function, abiref.Bytes:
		return drawHexBytes(rt, label, v.Bytes, goMode)
	case abiref.String:
		return Str(v.Str)
	case abiref.Array, abiref.Slice:
		l := make([]Ext, len(v.Elems))
		for i := range v.Elems {
			l[i] = draw(rt, fmt.Sprintf("%s[%d]", label, i), t.Elem, v.Elems[i], goMode)
		}
		if goMode && len(l) > 0 {
			// typed Go slices when every element came out with the same suitable kind
			all := func(k string) bool {
				for _, c := range l {
					if c.K != k {
						return false
					}
				}
				return true
			}
			if all("str") && rapid.Bool().Draw(rt, label+".typed") {
				return Ext{K: "strs", L: l}
			}
			if all("bigint") && rapid.Bool().Draw(rt, label+".typed") {
				return Ext{K: "bigints", L: l}
			}
		}
		return List(l)
	case abiref.Tuple:
		l := make([]Ext, len(v.Elems))
		for i := range v.Elems {
			l[i] = draw(rt, fmt.Sprintf("%s.%d", label, i), t.Members[i].Type, v.Elems[i], goMode)
		}
		if rapid.IntRange(0, 2).Draw(rt, label+".asobj") == 0 {
			keys := make([]string, len(l))
			for i := range keys {
				keys[i] = MemberKey(t, i)
			}
			// the order of keys in the text is irrelevant; rotate it so that it is not always the ABI order
			if len(l) > 1 {
				r := rapid.IntRange(0, len(l)-1).Draw(rt, label+".rot")
				keys = append(keys[r:], keys[:r]...)
				l = append(l[r:], l[:r]...)
			}
			return Ext{K: "obj", L: l, Keys: keys}
		}
		return List(l)
	}
	panic("abigen: unknown kind")
}

// DrawJSON draws a JSON rendering of v (a value of t).
func DrawJSON(rt *rapid.T, label string, t *abiref.Type, v abiref.Value) Ext {
	return draw(rt, label, t, v, false)
}

// DrawGo draws a Go-value rendering of v (a value of t).
func DrawGo(rt *rapid.T, label string, t *abiref.Type, v abiref.Value) Ext {
	return draw(rt, label, t, v, true)
}

// Canon is the plain rendering: decimal strings, decimal literals with N digits, 0x hex,
// JSON bool, arrays for tuples.  It is valid in JSON and in Go mode.
func Canon(t *abiref.Type, v abiref.Value) Ext {
	switch t.Kind {
	case abiref.Uint, abiref.Int:
		return Str(v.Int.String())
	case abiref.Fixed, abiref.Ufixed:
		return Str(abiref.DecimalString(t, v))
	case abiref.Bool:
		return Scalar("bool", strconv.FormatBool(v.Bool))
	case abiref.Address, abiref.FixedBytes, abiref.Function, abiref.Bytes:
		return Str("0x" + hex.EncodeToString(v.Bytes))
	case abiref.String:
		return Str(v.Str)
	case abiref.Array, abiref.Slice:
		l := make([]Ext, len(v.Elems))
		for i := range v.Elems {
			l[i] = Canon(t.Elem, v.Elems[i])
		}
		return List(l)
	case abiref.Tuple:
		l := make([]Ext, len(v.Elems))
		for i := range v.Elems {
			l[i] = Canon(t.Members[i].Type, v.Elems[i])
		}
		return List(l)
	}
	panic("abigen: unknown kind")
}

// ---- ABI JSON for the library

type paramJSON struct {
	Name         string      `json:"name"`
	Type         string      `json:"type"`
	InternalType string      `json:"internalType,omitempty"`
	Components   []paramJSON `json:"components,omitempty"`
	Indexed      bool        `json:"indexed,omitempty"`
}

func param(m abiref.Member, internalTypes bool, idx int) paramJSON {
	p := paramJSON{Name: m.Name, Type: m.Type.ABIType(), Indexed: m.Indexed}
	base := m.Type.Base()
	if base.Kind == abiref.Tuple {
		for i, c := range base.Members {
			p.Components = append(p.Components, param(c, internalTypes, i))
		}
		if p.Components == nil {
			p.Components = []paramJSON{}
		}
	}
	if internalTypes {
		if base.Kind == abiref.Tuple {
			p.InternalType = fmt.Sprintf("struct C.S%d%s", idx, strings.TrimPrefix(m.Type.ABIType(), "tuple"))
		} else {
			p.InternalType = m.Type.Canonical()
		}
	}
	return p
}

// ParamsJSON renders a parameter-list tuple as the JSON of the library's
// abi.ParameterArray: [{"name":…,"type":…,"components":[…],"internalType":…,"indexed":…}].
func ParamsJSON(params *abiref.Type, internalTypes bool) []byte {
	ps := make([]paramJSON, 0, len(params.Members))
	for i, m := range params.Members {
		ps = append(ps, param(m, internalTypes, i))
	}
	b, err := json.Marshal(ps)
	if err != nil {
		panic(err)
	}
	return b
}

// EntryJSON renders one ABI entry. kind is "function", "event" or "error".
func EntryJSON(kind, name string, inputs *abiref.Type, anonymous bool) []byte {
	e := map[string]interface{}{
		"type":   kind,
		"name":   name,
		"inputs": json.RawMessage(ParamsJSON(inputs, false)),
	}
	if kind == "event" && anonymous {
		e["anonymous"] = true
	}
	if kind == "function" {
		e["outputs"] = []interface{}{}
		e["stateMutability"] = "nonpayable"
	}
	b, err := json.Marshal(e)
	if err != nil {
		panic(err)
	}
	return b
}
