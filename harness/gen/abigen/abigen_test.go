package abigen

import (
	"encoding/json"
	"flag"
	"math/big"
	"testing"

	"pgregory.net/rapid"

	"verifharness/ref/abiref"
)

func TestGeneratorsInvariants(t *testing.T) {
	_ = flag.Set("rapid.nofailfile", "true")
	kinds := map[abiref.Kind]int{}
	reps := map[string]int{}
	var count func(e Ext)
	count = func(e Ext) {
		reps[e.K]++
		for _, c := range e.L {
			count(c)
		}
	}
	rapid.Check(t, func(rt *rapid.T) {
		o := Opts{Aliases: rapid.Bool().Draw(rt, "aliases"), Indexed: rapid.Bool().Draw(rt, "indexed"), NoFixedPoint: rapid.Bool().Draw(rt, "nofp")}
		ty := Params(rt, "t", 4, o)
		ty.Walk(func(x *abiref.Type, d int) {
			kinds[x.Kind]++
			if d > 5 {
				rt.Fatalf("depth %d in %s", d, ty.Decl())
			}
			if o.NoFixedPoint && x.IsFixedPoint() {
				rt.Fatalf("fixed point generated: %s", ty.Decl())
			}
		})
		if ty.HasZeroSizeArrayElem() {
			rt.Fatalf("zero-size array element in %s", ty.Decl())
		}
		back, err := abiref.ParseDecl(ty.Decl())
		if err != nil || back.Decl() != ty.Decl() || back.Canonical() != ty.Canonical() {
			rt.Fatalf("decl round trip of %s: %v", ty.Decl(), err)
		}
		v := Value(rt, "v", ty)
		if err := abiref.Check(ty, v); err != nil {
			rt.Fatalf("value does not check: %v", err)
		}
		if !abiref.ValidUTF8(ty, v) {
			rt.Fatalf("invalid UTF-8 generated")
		}
		if _, _, err := abiref.Enc(ty, v); err != nil {
			rt.Fatalf("enc: %v", err)
		}
		vb, err := abiref.ValueFromJSON(ty, abiref.ValueJSON(ty, v))
		if err != nil || !abiref.Equal(ty, v, vb) {
			rt.Fatalf("value JSON round trip: %v", err)
		}
		ej := DrawJSON(rt, "j", ty, v)
		count(ej)
		txt, err := ej.JSON()
		if err != nil {
			rt.Fatalf("JSON rendering: %v", err)
		}
		var any interface{}
		if err := json.Unmarshal(txt, &any); err != nil {
			rt.Fatalf("rendered JSON does not parse: %v\n%s", err, txt)
		}
		eg := DrawGo(rt, "g", ty, v)
		count(eg)
		_ = eg.Go()
		// Ext survives its own JSON form
		raw, _ := json.Marshal(eg)
		var eg2 Ext
		if err := json.Unmarshal(raw, &eg2); err != nil {
			rt.Fatalf("ext json: %v", err)
		}
		raw2, _ := json.Marshal(eg2)
		if string(raw) != string(raw2) {
			rt.Fatalf("ext json round trip")
		}
		c := Canon(ty, v)
		if !c.JSONable() {
			rt.Fatalf("canon not JSONable")
		}
		var ps []map[string]interface{}
		if err := json.Unmarshal(ParamsJSON(ty, rapid.Bool().Draw(rt, "it")), &ps); err != nil || len(ps) != len(ty.Members) {
			rt.Fatalf("ParamsJSON: %v", err)
		}
		if err := json.Unmarshal(EntryJSON("event", "E", ty, true), &any); err != nil {
			rt.Fatalf("EntryJSON: %v", err)
		}
	})
	for k := abiref.Uint; k <= abiref.Tuple; k++ {
		if kinds[k] == 0 {
			t.Errorf("kind %s never generated", k)
		}
	}
	for _, k := range []string{"str", "num", "bool", "list", "obj", "bigint", "float64", "bytes"} {
		if reps[k] == 0 {
			t.Errorf("representation %s never drawn", k)
		}
	}
	sized := 0
	for _, k := range GoIntKinds {
		sized += reps[k]
	}
	if sized == 0 {
		t.Errorf("no sized Go integer drawn")
	}
}

func TestExtMaterialisation(t *testing.T) {
	e := Ext{K: "obj", Keys: []string{"a", "1"}, L: []Ext{Str("x\"y"), List([]Ext{Num("-1.5e3"), Scalar("bool", "true")})}}
	b, err := e.JSON()
	if err != nil || string(b) != `{"a":"x\"y","1":[-1.5e3,true]}` {
		t.Errorf("%s %v", b, err)
	}
	if _, err := Scalar("bigint", "5").JSON(); err == nil {
		t.Errorf("bigint rendered as JSON")
	}
	if v := Scalar("int8", "-128").Go().(int8); v != -128 {
		t.Errorf("int8 %d", v)
	}
	if v := Scalar("uint64", "18446744073709551615").Go().(uint64); v != 1<<64-1 {
		t.Errorf("uint64 %d", v)
	}
	big1 := new(big.Int).Lsh(big.NewInt(1), 100)
	if !FitsFloat64(big1) || FitsFloat64(new(big.Int).Add(big1, big.NewInt(1))) {
		t.Errorf("FitsFloat64")
	}
	if f := Scalar("float64", Float64Text(big1)).Go().(float64); f != 1267650600228229401496703205376 {
		t.Errorf("float64 %v", f)
	}
	f := Scalar("bigfloat", "-0.375").Go().(*big.Float)
	if r, acc := f.Rat(nil); acc != big.Exact || r.Cmp(big.NewRat(-3, 8)) != 0 {
		t.Errorf("bigfloat %v", f)
	}
	if HexText(big.NewInt(-255)) != "-0xff" {
		t.Errorf("HexText")
	}
	ty := abiref.MustParseDecl("(uint8 a,(string,bytes3 tag)[2] b,uint,(),ufixed8x2 indexed f)")
	want := `[{"name":"a","type":"uint8"},{"name":"b","type":"tuple[2]","components":[{"name":"","type":"string"},{"name":"tag","type":"bytes3"}]},{"name":"","type":"uint"},{"name":"","type":"tuple"},{"name":"f","type":"ufixed8x2","indexed":true}]`
	if got := string(ParamsJSON(ty, false)); got != want {
		t.Errorf("ParamsJSON\n got %s\nwant %s", got, want)
	}
}
