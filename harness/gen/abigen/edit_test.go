package abigen

import (
	"testing"

	"pgregory.net/rapid"

	"verifharness/ref/abiref"
)

func TestEditMemberChangesTheSignature(t *testing.T) {
	rapid.Check(t, func(rt *rapid.T) {
		ty := Params(rt, "t", 3, Opts{NoEmptyTuple: true})
		if ty.HasZeroSizeArrayElem() {
			rt.Skip()
		}
		before := ty.Decl()
		ed, depth, _, ok := EditMember(rt, "e", ty, Opts{})
		if ty.Decl() != before {
			rt.Fatalf("EditMember modified its argument")
		}
		if !ok {
			return
		}
		if depth < 1 || abiref.Signature("f", ed) == abiref.Signature("f", ty) {
			rt.Fatalf("edit at depth %d left the signature unchanged: %s", depth, ed.Decl())
		}
		if ed.HasZeroSizeArrayElem() {
			rt.Fatalf("edit left the quantifier: %s", ed.Decl())
		}
	})
}

func TestWideAndPatternValue(t *testing.T) {
	rapid.Check(t, func(rt *rapid.T) {
		ty := Wide(rt, "w", 100, 400)
		if !ty.IsDynamic() || ty.HasZeroSizeArrayElem() {
			rt.Fatalf("wide type must be dynamic and inside the quantifier: %s", ty.Decl())
		}
		leaves := 0
		ty.Walk(func(x *abiref.Type, _ int) {
			if x.IsElementary() {
				leaves++
			}
		})
		if leaves < 100 {
			rt.Fatalf("only %d leaves", leaves)
		}
		v := PatternValue(ty, rapid.Uint64().Draw(rt, "salt"))
		if err := abiref.Check(ty, v); err != nil {
			rt.Fatalf("pattern value: %v", err)
		}
		if _, _, err := abiref.Enc(ty, v); err != nil {
			rt.Fatalf("pattern value does not encode: %v", err)
		}
		if Clone(ty).Decl() != ty.Decl() {
			rt.Fatalf("clone differs")
		}
		// any generated type as well
		ty2 := Params(rt, "t", 3, Opts{})
		if err := abiref.Check(ty2, PatternValue(ty2, 7)); err != nil {
			rt.Fatalf("pattern value of %s: %v", ty2.Decl(), err)
		}
	})
}
