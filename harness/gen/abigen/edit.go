package abigen

// Generators for SEQUENCES of related definitions (in-place edits of one definition that is
// then validated again) and for the large "late dynamic" shapes that keep a decoder busy
// inside one type walk (used by the shared-definition concurrency kinds).

import (
	"fmt"
	"math/big"

	"pgregory.net/rapid"

	"verifharness/ref/abiref"
)

// Clone copies a type tree (names, alias spellings and indexed flags included).
func Clone(t *abiref.Type) *abiref.Type {
	c, err := abiref.ParseDecl(t.Decl())
	if err != nil {
		panic("abigen: Decl/ParseDecl round trip: " + err.Error())
	}
	return c
}

// Slot is one member position of a tuple inside a type tree: the place where the ABI JSON
// carries a "type" string. Depth counts tuple levels from the root parameter list: 1 = a
// top-level parameter, 2 = a component of a tuple parameter (below any array dimensions), …
type Slot struct {
	Parent *abiref.Type
	Index  int
	Depth  int
	Path   []int // member indices from the root, one per tuple level
}

// Type is the type currently in the slot.
func (s Slot) Type() *abiref.Type { return s.Parent.Members[s.Index].Type }

// Slots lists every slot of the parameter list t (pre-order).
func Slots(t *abiref.Type) []Slot {
	var out []Slot
	var walk func(tu *abiref.Type, depth int, path []int)
	walk = func(tu *abiref.Type, depth int, path []int) {
		for i := range tu.Members {
			p := append(append([]int{}, path...), i)
			out = append(out, Slot{Parent: tu, Index: i, Depth: depth, Path: p})
			if b := tu.Members[i].Type.Base(); b.Kind == abiref.Tuple {
				walk(b, depth+1, p)
			}
		}
	}
	if t.Kind == abiref.Tuple {
		walk(t, 1, nil)
	}
	return out
}

// EditMember returns a copy of the parameter list t in which the type of ONE slot was replaced
// by another type (a different canonical type): the edit a caller makes to a definition before
// calling Validate() again. Nested slots (Depth >= 2) are preferred when there are any. ok is
// false when t has no slot or the result would leave the quantifiers (zero-size array element).
func EditMember(rt *rapid.T, label string, t *abiref.Type, o Opts) (edited *abiref.Type, depth int, what string, ok bool) {
	c := Clone(t)
	slots := Slots(c)
	if len(slots) == 0 {
		return nil, 0, "", false
	}
	var nested []Slot
	for _, s := range slots {
		if s.Depth >= 2 {
			nested = append(nested, s)
		}
	}
	pool := slots
	if len(nested) > 0 && rapid.IntRange(0, 9).Draw(rt, label+".nested") < 8 {
		pool = nested
	}
	s := pool[rapid.IntRange(0, len(pool)-1).Draw(rt, label+".slot")]
	old := s.Type()
	ro := o
	ro.NoEmptyTuple = true
	ro.Indexed = false
	var nt *abiref.Type
	for try := 0; try < 6; try++ {
		l := fmt.Sprintf("%s.new%d", label, try)
		switch rapid.IntRange(0, 9).Draw(rt, l+".how") {
		case 0, 1, 2, 3:
			nt = Elementary(rt, l, ro)
		case 4, 5:
			// the classic pairs: static <-> dynamic of a similar look, width changes
			switch {
			case old.Kind == abiref.FixedBytes:
				nt = dynamicLeaf(rt, l)
			case old.Kind == abiref.Bytes || old.Kind == abiref.String:
				nt = abiref.FixedBytesT(rapid.IntRange(1, 32).Draw(rt, l+".bm"))
			case old.IsInteger():
				nt = &abiref.Type{Kind: old.Kind, M: drawWidth(rt, l)}
				if rapid.Bool().Draw(rt, l+".flipsign") {
					if nt.Kind == abiref.Uint {
						nt.Kind = abiref.Int
					} else {
						nt.Kind = abiref.Uint
					}
				}
			case old.Kind == abiref.Slice:
				nt = abiref.ArrayT(Clone(old.Elem), rapid.IntRange(1, 3).Draw(rt, l+".k"))
			case old.Kind == abiref.Array:
				nt = abiref.SliceT(Clone(old.Elem))
			default:
				nt = Elementary(rt, l, ro)
			}
		default:
			b := 8
			nt = genType(rt, l, rapid.IntRange(1, 2).Draw(rt, l+".depth"), ro, &b, false)
		}
		if nt.Canonical() != old.Canonical() {
			break
		}
		nt = nil
	}
	if nt == nil {
		return nil, 0, "", false
	}
	comp := func(t *abiref.Type) string {
		if t.IsElementary() {
			return "elementary"
		}
		return "composite"
	}
	what = comp(old) + "->" + comp(nt)
	if old.Kind == nt.Kind && old.IsElementary() {
		what = "same-base-other-size"
	}
	if old.IsDynamic() != nt.IsDynamic() {
		what += ",dynamic-ness-changes"
	}
	s.Parent.Members[s.Index].Type = nt
	if c.HasZeroSizeArrayElem() {
		return nil, 0, "", false
	}
	return c, s.Depth, what, true
}

// ---- wide shapes

var wideLeaves = []func() *abiref.Type{
	func() *abiref.Type { return abiref.UintT(64) },
	func() *abiref.Type { return abiref.UintT(8) },
	func() *abiref.Type { return abiref.IntT(32) },
	func() *abiref.Type { return abiref.UintT(256) },
	func() *abiref.Type { return abiref.BoolT() },
	func() *abiref.Type { return abiref.AddressT() },
	func() *abiref.Type { return abiref.FixedBytesT(4) },
	func() *abiref.Type { return abiref.FixedBytesT(32) },
	func() *abiref.Type { return abiref.IntT(256) },
}

// Wide draws a parameter list whose dynamic-ness is only discovered after walking MANY
// static components: one or two top-level parameters of the form
//
//	( S1, S2, …, Sg, D [, S…] )     or   ( … )[k]
//
// where every Si is a static struct of w elementary members (or a static struct in a fixed
// array) and D is a dynamic leaf (string / bytes / T[]), optionally one struct level deeper.
// g*w is between minLeaves and maxLeaves. A decoder or encoder that asks "is this type
// dynamic?" spends microseconds, not nanoseconds, inside that question for the outer struct,
// which is what makes overlapping FIRST uses of one shared definition likely.
func Wide(rt *rapid.T, label string, minLeaves, maxLeaves int) *abiref.Type {
	w := rapid.IntRange(8, 40).Draw(rt, label+".width")
	total := rapid.IntRange(minLeaves, maxLeaves).Draw(rt, label+".leaves")
	g := total/w + 1
	outer := &abiref.Type{Kind: abiref.Tuple}
	for i := 0; i < g; i++ {
		leaf := wideLeaves[rapid.IntRange(0, len(wideLeaves)-1).Draw(rt, fmt.Sprintf("%s.leaf%d", label, i))]
		st := &abiref.Type{Kind: abiref.Tuple}
		for j := 0; j < w; j++ {
			st.Members = append(st.Members, abiref.Member{Name: fmt.Sprintf("f%d", j), Type: leaf()})
		}
		var m *abiref.Type = st
		if rapid.IntRange(0, 5).Draw(rt, fmt.Sprintf("%s.arr%d", label, i)) == 0 {
			m = abiref.ArrayT(st, rapid.IntRange(1, 2).Draw(rt, fmt.Sprintf("%s.arrk%d", label, i)))
		}
		outer.Members = append(outer.Members, abiref.Member{Name: fmt.Sprintf("s%d", i), Type: m})
	}
	var d *abiref.Type
	switch rapid.IntRange(0, 3).Draw(rt, label+".dyn") {
	case 0:
		d = abiref.StringT()
	case 1:
		d = abiref.BytesT()
	case 2:
		d = abiref.SliceT(abiref.UintT(64))
	default:
		d = abiref.TupleOf(abiref.Member{Name: "k", Type: abiref.UintT(16)}, abiref.Member{Name: "note", Type: abiref.StringT()})
	}
	outer.Members = append(outer.Members, abiref.Member{Name: "tail", Type: d})
	if rapid.Bool().Draw(rt, label+".after") {
		outer.Members = append(outer.Members, abiref.Member{Name: "last", Type: abiref.UintT(256)})
	}
	var top *abiref.Type = outer
	switch rapid.IntRange(0, 5).Draw(rt, label+".wrap") {
	case 0:
		top = abiref.ArrayT(outer, rapid.IntRange(1, 2).Draw(rt, label+".wrapk"))
	case 1:
		top = abiref.TupleOf(abiref.Member{Name: "inner", Type: outer}, abiref.Member{Name: "n", Type: abiref.UintT(8)})
	}
	params := &abiref.Type{Kind: abiref.Tuple}
	if rapid.IntRange(0, 2).Draw(rt, label+".lead") == 0 {
		params.Members = append(params.Members, abiref.Member{Name: "id", Type: abiref.UintT(256)})
	}
	params.Members = append(params.Members, abiref.Member{Name: "rec", Type: top})
	return params
}

// PatternValue fills t with a deterministic pattern derived from salt (which the caller draws
// from rapid): cheap to generate for thousands of leaves, every leaf different from its
// neighbours, every value inside its type's range. Slices get 0..3 elements.
func PatternValue(t *abiref.Type, salt uint64) abiref.Value {
	x := salt | 1
	next := func() uint64 {
		x ^= x << 13
		x ^= x >> 7
		x ^= x << 17
		return x
	}
	var fill func(t *abiref.Type) abiref.Value
	bytesOf := func(n int) []byte {
		b := make([]byte, n)
		for i := range b {
			b[i] = byte(next())
		}
		return b
	}
	fill = func(t *abiref.Type) abiref.Value {
		switch t.Kind {
		case abiref.Uint, abiref.Int, abiref.Fixed, abiref.Ufixed:
			lo, hi := t.Range()
			span := new(big.Int).Sub(hi, lo)
			span.Add(span, one)
			v := new(big.Int).SetUint64(next())
			if next()%4 == 0 {
				v.Lsh(v, uint(next()%200))
			}
			v.Mod(v, span)
			return abiref.IntV(v.Add(v, lo))
		case abiref.Bool:
			return abiref.BoolV(next()%2 == 0)
		case abiref.Address:
			return abiref.BytesV(bytesOf(20))
		case abiref.FixedBytes:
			return abiref.BytesV(bytesOf(t.M))
		case abiref.Function:
			return abiref.BytesV(bytesOf(24))
		case abiref.Bytes:
			return abiref.BytesV(bytesOf(int(next() % 70)))
		case abiref.String:
			n := int(next() % 70)
			s := make([]byte, n)
			for i := range s {
				s[i] = 'a' + byte(next()%26)
			}
			return abiref.StrV(string(s))
		case abiref.Array:
			v := abiref.Value{Elems: make([]abiref.Value, t.Len)}
			for i := range v.Elems {
				v.Elems[i] = fill(t.Elem)
			}
			return v
		case abiref.Slice:
			v := abiref.Value{Elems: make([]abiref.Value, int(next()%4))}
			for i := range v.Elems {
				v.Elems[i] = fill(t.Elem)
			}
			return v
		case abiref.Tuple:
			v := abiref.Value{Elems: make([]abiref.Value, len(t.Members))}
			for i := range v.Elems {
				v.Elems[i] = fill(t.Members[i].Type)
			}
			return v
		}
		panic("abigen: unknown kind")
	}
	return fill(t)
}
