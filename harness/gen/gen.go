// Package gen holds rapid generators shared by the property packages.  Every
// random choice is drawn from rapid so that shrinking and seeding work.
package gen

import (
	"encoding/hex"
	"math/big"

	"pgregory.net/rapid"
)

// ThresholdLens are the RLP / ABI length boundaries the properties name.
var ThresholdLens = []int{0, 1, 2, 19, 20, 21, 31, 32, 33, 54, 55, 56, 57, 63, 64, 65, 127, 128, 255, 256, 257}

// BigThresholdLens are the expensive boundaries (used with lower probability).
var BigThresholdLens = []int{1023, 1024, 65535, 65536, 65537}

// Len draws a length: mostly small, often exactly on a boundary, sometimes big (<= max).
func Len(rt *rapid.T, label string, max int) int {
	mode := rapid.IntRange(0, 9).Draw(rt, label+".mode")
	var n int
	switch {
	case mode < 4:
		n = rapid.IntRange(0, 40).Draw(rt, label+".small")
	case mode < 8:
		n = rapid.SampledFrom(ThresholdLens).Draw(rt, label+".thr")
	case mode < 9:
		n = rapid.IntRange(0, 600).Draw(rt, label+".mid")
	default:
		n = rapid.SampledFrom(BigThresholdLens).Draw(rt, label+".big")
	}
	if n > max {
		n = max
	}
	return n
}

// Bytes draws a byte string of exactly n bytes. Short ones are drawn byte by byte
// (so they shrink well and hit 0x00/0x7f/0x80/0xff); long ones are a drawn head
// followed by a deterministic fill.
func Bytes(rt *rapid.T, label string, n int) []byte {
	if n <= 48 {
		return rapid.SliceOfN(ByteBiased(), n, n).Draw(rt, label)
	}
	head := rapid.SliceOfN(ByteBiased(), 8, 8).Draw(rt, label+".head")
	seed := rapid.Uint32().Draw(rt, label+".fill")
	out := make([]byte, n)
	copy(out, head)
	x := seed | 1
	for i := 8; i < n; i++ {
		x ^= x << 13
		x ^= x >> 17
		x ^= x << 5
		out[i] = byte(x)
	}
	return out
}

// ByteBiased draws a byte with extra weight on the RLP-relevant values.
func ByteBiased() *rapid.Generator[byte] {
	return rapid.OneOf(
		rapid.Byte(),
		rapid.SampledFrom([]byte{0x00, 0x01, 0x7f, 0x80, 0x81, 0xb7, 0xb8, 0xbf, 0xc0, 0xf7, 0xf8, 0xff}),
	)
}

// HexBytes draws Bytes and returns lower-case hex.
func HexBytes(rt *rapid.T, label string, n int) string {
	return hex.EncodeToString(Bytes(rt, label, n))
}

var one = big.NewInt(1)

// Pow2 returns 2^n.
func Pow2(n uint) *big.Int { return new(big.Int).Lsh(one, n) }

// Uint draws an unsigned integer < 2^maxBits, biased to byte-length boundaries
// and to the specials 0, 1, 0x7f, 0x80, 0xff, 0x100, 2^64-1, 2^64, 2^255, 2^maxBits-1.
func Uint(rt *rapid.T, label string, maxBits uint) *big.Int {
	mode := rapid.IntRange(0, 9).Draw(rt, label+".mode")
	var v *big.Int
	switch {
	case mode < 3:
		specials := []*big.Int{
			big.NewInt(0), big.NewInt(1), big.NewInt(0x7f), big.NewInt(0x80), big.NewInt(0xff), big.NewInt(0x100),
			new(big.Int).Sub(Pow2(53), one), Pow2(53), new(big.Int).Add(Pow2(53), one),
			new(big.Int).Sub(Pow2(63), one), Pow2(63),
			new(big.Int).Sub(Pow2(64), one), Pow2(64), Pow2(255), new(big.Int).Sub(Pow2(maxBits), one),
			new(big.Int).Sub(Pow2(maxBits-1), one), Pow2(maxBits - 1),
		}
		v = rapid.SampledFrom(specials).Draw(rt, label+".special")
	case mode < 5:
		v = big.NewInt(int64(rapid.IntRange(0, 1000).Draw(rt, label+".small")))
	default:
		// choose the byte length first, then the content
		nb := rapid.IntRange(0, int((maxBits+7)/8)).Draw(rt, label+".nbytes")
		b := rapid.SliceOfN(ByteBiased(), nb, nb).Draw(rt, label+".bytes")
		v = new(big.Int).SetBytes(b)
	}
	if v.BitLen() > int(maxBits) {
		v = new(big.Int).And(v, new(big.Int).Sub(Pow2(maxBits), one))
	}
	return v
}
