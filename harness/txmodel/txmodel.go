// Package txmodel is the harness's own model of an Ethereum transaction: JSON-clean
// inputs, conversion to the library's struct, and the *specification* signing
// preimages / signed wire forms built with the independent RLP reference.
package txmodel

import (
	"encoding/hex"
	"fmt"
	"math/big"

	"github.com/hyperledger/firefly-signer/pkg/ethsigner"
	"github.com/hyperledger/firefly-signer/pkg/ethtypes"

	"verifharness/ref/rlpref"
	"verifharness/ref/secp"
)

// Tx holds inputs only. Integers are decimal strings; nil means the field is absent.
type Tx struct {
	Nonce    *string `json:"nonce"`
	GasPrice *string `json:"gasPrice"`
	Tip      *string `json:"maxPriorityFeePerGas"`
	FeeCap   *string `json:"maxFeePerGas"`
	Gas      *string `json:"gas"`
	Value    *string `json:"value"`
	To       *string `json:"to"`   // 40 hex digits, nil = contract creation
	Data     *string `json:"data"` // hex, nil = nil slice
}

// Modes of signing.
const (
	ModeLegacy  = "legacy-original"
	ModeEIP155  = "eip155"
	ModeEIP1559 = "eip1559"
	ModeAuto    = "auto"
)

func bi(s *string) *big.Int {
	if s == nil {
		return new(big.Int)
	}
	v, ok := new(big.Int).SetString(*s, 10)
	if !ok {
		panic(fmt.Sprintf("txmodel: bad integer %q", *s))
	}
	return v
}

func hexInt(s *string) *ethtypes.HexInteger {
	if s == nil {
		return nil
	}
	return ethtypes.NewHexInteger(bi(s))
}

// DataBytes returns the data bytes (nil for absent).
func (t Tx) DataBytes() []byte {
	if t.Data == nil {
		return nil
	}
	b, err := hex.DecodeString(*t.Data)
	if err != nil {
		panic(err)
	}
	return b
}

// ToBytes returns the 20 address bytes or nil.
func (t Tx) ToBytes() []byte {
	if t.To == nil {
		return nil
	}
	b, err := hex.DecodeString(*t.To)
	if err != nil || len(b) != 20 {
		panic("txmodel: bad to")
	}
	return b
}

// Lib builds a fresh library transaction.
func (t Tx) Lib() *ethsigner.Transaction {
	tx := &ethsigner.Transaction{
		Nonce:                hexInt(t.Nonce),
		GasPrice:             hexInt(t.GasPrice),
		MaxPriorityFeePerGas: hexInt(t.Tip),
		MaxFeePerGas:         hexInt(t.FeeCap),
		GasLimit:             hexInt(t.Gas),
		Value:                hexInt(t.Value),
	}
	if t.To != nil {
		var a ethtypes.Address0xHex
		copy(a[:], t.ToBytes())
		tx.To = &a
	}
	if t.Data != nil {
		tx.Data = ethtypes.HexBytes0xPrefix(t.DataBytes())
		if tx.Data == nil {
			tx.Data = ethtypes.HexBytes0xPrefix{}
		}
	}
	return tx
}

// Is1559 is the documented rule of the automatic mode: EIP-1559 iff a fee cap field is > 0.
func (t Tx) Is1559() bool {
	return bi(t.Tip).Sign() > 0 || bi(t.FeeCap).Sign() > 0
}

func (t Tx) legacyFields() []rlpref.Item {
	return []rlpref.Item{
		rlpref.Int(bi(t.Nonce)), rlpref.Int(bi(t.GasPrice)), rlpref.Int(bi(t.Gas)),
		rlpref.S(t.ToBytes()), rlpref.Int(bi(t.Value)), rlpref.S(t.DataBytes()),
	}
}

func (t Tx) fields1559(chainID int64) []rlpref.Item {
	return []rlpref.Item{
		rlpref.Int(big.NewInt(chainID)), rlpref.Int(bi(t.Nonce)), rlpref.Int(bi(t.Tip)), rlpref.Int(bi(t.FeeCap)),
		rlpref.Int(bi(t.Gas)), rlpref.S(t.ToBytes()), rlpref.Int(bi(t.Value)), rlpref.S(t.DataBytes()), rlpref.L(),
	}
}

// ResolveMode maps auto to the mode the documentation prescribes.
func (t Tx) ResolveMode(mode string) string {
	if mode == ModeAuto {
		if t.Is1559() {
			return ModeEIP1559
		}
		return ModeEIP155
	}
	return mode
}

// Preimage returns the specification signing preimage for the (resolved) mode.
func (t Tx) Preimage(mode string, chainID int64) []byte {
	switch t.ResolveMode(mode) {
	case ModeLegacy:
		return rlpref.Encode(rlpref.L(t.legacyFields()...))
	case ModeEIP155:
		f := append(t.legacyFields(), rlpref.Int(big.NewInt(chainID)), rlpref.S(nil), rlpref.S(nil))
		return rlpref.Encode(rlpref.L(f...))
	case ModeEIP1559:
		return append([]byte{0x02}, rlpref.Encode(rlpref.L(t.fields1559(chainID)...))...)
	}
	panic("bad mode")
}

// V returns the specification V for the (resolved) mode, chain id and y parity.
func V(mode string, chainID int64, parity uint) *big.Int {
	switch mode {
	case ModeLegacy:
		return big.NewInt(27 + int64(parity))
	case ModeEIP155:
		v := new(big.Int).Mul(big.NewInt(chainID), big.NewInt(2))
		return v.Add(v, big.NewInt(35+int64(parity)))
	case ModeEIP1559:
		return big.NewInt(int64(parity))
	}
	panic("bad mode")
}

// Wire returns the specification wire bytes for the (resolved) mode with signature (v, r, s).
func (t Tx) Wire(mode string, chainID int64, v, r, s *big.Int) []byte {
	sig := []rlpref.Item{rlpref.Int(v), rlpref.Int(r), rlpref.Int(s)}
	switch t.ResolveMode(mode) {
	case ModeLegacy, ModeEIP155:
		return rlpref.Encode(rlpref.L(append(t.legacyFields(), sig...)...))
	case ModeEIP1559:
		return append([]byte{0x02}, rlpref.Encode(rlpref.L(append(t.fields1559(chainID), sig...)...))...)
	}
	panic("bad mode")
}

// WireItems returns the list elements of the wire form (without the type byte).
func (t Tx) WireItems(mode string, chainID int64, v, r, s *big.Int) []rlpref.Item {
	sig := []rlpref.Item{rlpref.Int(v), rlpref.Int(r), rlpref.Int(s)}
	if t.ResolveMode(mode) == ModeEIP1559 {
		return append(t.fields1559(chainID), sig...)
	}
	return append(t.legacyFields(), sig...)
}

// RefSign signs the transaction entirely with the reference (nonce k supplied by
// the caller) and returns the wire bytes plus the signature parts.
func (t Tx) RefSign(mode string, chainID int64, d, k *big.Int) (wire []byte, v, r, s *big.Int, ok bool) {
	m := t.ResolveMode(mode)
	h := secp.Keccak256(t.Preimage(m, chainID))
	r, s, parity, ok := secp.Sign(d, h, k)
	if !ok {
		return nil, nil, nil, nil, false
	}
	v = V(m, chainID, parity)
	return t.Wire(m, chainID, v, r, s), v, r, s, true
}
