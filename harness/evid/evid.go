// Package evid is the shared case recorder of the verification harness.
//
// A property package registers one or more *kinds* of case (a JSON-serialisable
// struct of inputs plus a pure judge function).  Every evaluation goes through
// Kind.Eval, which runs the judge under recover(), counts the evaluation,
// classifies it, maintains the set of distinct non-trivial case hashes, keeps
// samples, remembers the most recent failing case (rapid re-runs the shrunk case
// last, so that is the minimal one) and, when the process ends, writes
//
//   - a partial evidence file (merged by the driver into /verif/evidence/<ID>.json)
//   - a replay file per failing kind (path printed in a VIOLATION line)
//
// Nothing here draws random numbers or reads the clock for a verdict.
package evid

import (
	"bytes"
	"encoding/binary"
	"encoding/json"
	"flag"
	"fmt"
	"hash/fnv"
	"os"
	"path/filepath"
	"runtime/debug"
	"sort"
	"strconv"
	"strings"
	"sync"
	"sync/atomic"
	"testing"
	"time"

	"pgregory.net/rapid"
)

// Violation is one broken clause of a property on one case.
type Violation struct {
	Clause string `json:"clause"`
	Detail string `json:"detail"`
}

// V builds a violation.
func V(clause, format string, args ...interface{}) Violation {
	return Violation{Clause: clause, Detail: fmt.Sprintf(format, args...)}
}

// ReplayFile is the on-disk form of a failing (or corpus) case.
type ReplayFile struct {
	Property   string          `json:"property"`
	Kind       string          `json:"kind"`
	Case       json.RawMessage `json:"case"`
	Violations []Violation     `json:"violations,omitempty"`
	Note       string          `json:"note,omitempty"`
}

type kindState struct {
	name        string
	evals       int64
	nontrivial  int64
	violations  int64
	lastFail    json.RawMessage
	lastFailV   []Violation
	replayJudge func(raw json.RawMessage) ([]Violation, error)
	exhaustive  bool
}

// Recorder collects the evidence of one process for one property.
type Recorder struct {
	mu         sync.Mutex
	ID         string
	Rule       string
	Tier       string
	Seed       uint64
	Shard      int
	Shards     int
	Scale      float64
	start      time.Time
	kinds      map[string]*kindState
	kindOrder  []string
	classes    map[string]int64
	hashes     map[uint64]struct{}
	samples    []sample
	classSeen  map[string]bool
	excluded   map[string]int64
	known      map[string]string // open keys -> text
	knownHit   map[string]string // keys whose probe still fails -> what
	notes      []string
	assume     []string
	extra      map[string]interface{}
	sampleTick int64
	outDir     string
	verifDir   string
	finished   bool
	replayed   []string
	curFile    *os.File

	extraBulkNontrivial int64
}

type sample struct {
	Kind    string          `json:"kind"`
	Classes []string        `json:"classes,omitempty"`
	Case    json.RawMessage `json:"case"`
}

const maxSamples = 12
const maxSampleBytes = 6000

// VerifDir returns the root of the verification tree (env VERIF_DIR, default /verif).
func VerifDir() string {
	if d := os.Getenv("VERIF_DIR"); d != "" {
		return d
	}
	return "/verif"
}

func envInt(name string, def int) int {
	if s := os.Getenv(name); s != "" {
		if n, err := strconv.Atoi(s); err == nil {
			return n
		}
	}
	return def
}

// Start creates the recorder for property id. rule is the stated non-trivial rule.
func Start(id, rule string) *Recorder {
	r := &Recorder{
		ID: id, Rule: rule,
		Tier:      os.Getenv("VERIF_TIER"),
		Shard:     envInt("VERIF_SHARD", 0),
		Shards:    envInt("VERIF_SHARDS", 1),
		Scale:     1,
		start:     time.Now(),
		kinds:     map[string]*kindState{},
		classes:   map[string]int64{},
		hashes:    map[uint64]struct{}{},
		classSeen: map[string]bool{},
		excluded:  map[string]int64{},
		known:     map[string]string{},
		knownHit:  map[string]string{},
		extra:     map[string]interface{}{},
		verifDir:  VerifDir(),
	}
	if r.Tier == "" {
		r.Tier = "quick"
	}
	if s := os.Getenv("VERIF_SCALE"); s != "" {
		if f, err := strconv.ParseFloat(s, 64); err == nil && f > 0 {
			r.Scale = f
		}
	}
	seed, _ := strconv.ParseUint(os.Getenv("VERIF_SEED"), 10, 64)
	r.Seed = seed
	r.outDir = os.Getenv("VERIF_OUT")
	if r.outDir == "" {
		r.outDir = filepath.Join(r.verifDir, ".build", id)
	}
	_ = os.MkdirAll(r.outDir, 0o755)
	r.loadKnown()
	return r
}

// Thorough reports whether the thorough tier is running.
func (r *Recorder) Thorough() bool { return r.Tier == "thorough" }

// N picks the case count for the tier, scaled by VERIF_SCALE.
func (r *Recorder) N(quick, thorough int) int {
	n := quick
	if r.Thorough() {
		n = thorough
	}
	n = int(float64(n) * r.Scale)
	if n < 1 {
		n = 1
	}
	return n
}

// RapidSeed derives the (non-zero) PRNG value handed to rapid for this process.
func (r *Recorder) RapidSeed(salt uint64) uint64 {
	s := (r.Seed+1)*0x9E3779B97F4A7C15 ^ (uint64(r.Shard)+1)*0xC2B2AE3D27D4EB4F ^ (salt+1)*0x165667B19E3779F9
	s &= (1 << 62) - 1
	if s == 0 {
		s = 0x5EED
	}
	return s
}

// Rapid runs prop under rapid with n checks and a seed derived from VERIF_SEED,
// the shard and name. Failures are reported through the recorder (the replay
// file is ours, not rapid's).
func (r *Recorder) Rapid(t *testing.T, name string, n int, prop func(rt *rapid.T)) {
	t.Helper()
	h := fnv.New64a()
	_, _ = h.Write([]byte(name))
	_ = flag.Set("rapid.checks", strconv.Itoa(n))
	_ = flag.Set("rapid.seed", strconv.FormatUint(r.RapidSeed(h.Sum64()), 10))
	_ = flag.Set("rapid.nofailfile", "true")
	if flag.Lookup("rapid.shrinktime") != nil && os.Getenv("VERIF_SHRINKTIME") != "" {
		_ = flag.Set("rapid.shrinktime", os.Getenv("VERIF_SHRINKTIME"))
	}
	t.Run(name, func(t *testing.T) {
		rapid.Check(t, prop)
	})
}

// Assume records an assumption / trusted-base line for the evidence file.
func (r *Recorder) Assume(s string) {
	r.mu.Lock()
	defer r.mu.Unlock()
	for _, a := range r.assume {
		if a == s {
			return
		}
	}
	r.assume = append(r.assume, s)
}

// Extra stores an additional coverage key.
func (r *Recorder) Extra(key string, v interface{}) {
	r.mu.Lock()
	defer r.mu.Unlock()
	r.extra[key] = v
}

// AddExtraCount adds n to an integer coverage key.
func (r *Recorder) AddExtraCount(key string, n int64) {
	r.mu.Lock()
	defer r.mu.Unlock()
	cur, _ := r.extra[key].(int64)
	r.extra[key] = cur + n
}

// Excluded counts a case that was skipped by construction because it lies in
// the region of an open known finding.
func (r *Recorder) Excluded(key string) {
	r.mu.Lock()
	defer r.mu.Unlock()
	r.excluded[key]++
}

// Class counts a label without an evaluation (e.g. from inside a judge).
func (r *Recorder) Class(label string) {
	r.mu.Lock()
	defer r.mu.Unlock()
	r.classes[label]++
}

func (r *Recorder) loadKnown() {
	b, err := os.ReadFile(filepath.Join(r.verifDir, "KNOWN_FINDINGS.txt"))
	if err != nil {
		return
	}
	for _, line := range strings.Split(string(b), "\n") {
		line = strings.TrimSpace(line)
		if !strings.HasPrefix(line, "open:") {
			continue
		}
		rest := strings.TrimSpace(strings.TrimPrefix(line, "open:"))
		var prop, key string
		fields := strings.Fields(rest)
		textStart := 0
		for i, f := range fields {
			if strings.HasPrefix(f, "property=") {
				prop = strings.TrimPrefix(f, "property=")
				textStart = i + 1
			} else if strings.HasPrefix(f, "key=") {
				key = strings.TrimPrefix(f, "key=")
				textStart = i + 1
			}
		}
		if prop != r.ID || key == "" {
			continue
		}
		r.known[key] = strings.Join(fields[textStart:], " ")
	}
}

// KnownOpen reports whether key is listed as an open finding for this property.
func (r *Recorder) KnownOpen(key string) bool {
	_, ok := r.known[key]
	return ok
}

// Kind is a typed case kind.
type Kind[C any] struct {
	r       *Recorder
	st      *kindState
	judge   func(C) []Violation
	declare bool
}

// DeclareEach makes every evaluation of this kind write its case to the run's
// current-case file before the judge runs (and clear it afterwards), so that a
// death of the whole process that recover() cannot stop (fatal stack overflow,
// out of memory, a panic on another goroutine) is attributed to the case by the
// driver and reported as a violation with that file as replay.
func (k *Kind[C]) DeclareEach() *Kind[C] {
	k.declare = true
	return k
}

func (r *Recorder) declareCurrent(kind string, c interface{}) {
	raw, err := json.Marshal(c)
	if err != nil {
		return
	}
	b, _ := json.Marshal(ReplayFile{Property: r.ID, Kind: kind, Case: raw, Note: "the worker process died while judging this case"})
	r.mu.Lock()
	defer r.mu.Unlock()
	// through a held descriptor (two cheap system calls per case). Packages that also write this file
	// themselves for cases they know to be risky (C11, C15) truncate it afterwards, never remove it.
	if r.curFile == nil {
		f, err := os.OpenFile(filepath.Join(r.outDir, fmt.Sprintf("current-%d.json", r.Shard)), os.O_RDWR|os.O_CREATE|os.O_TRUNC, 0o644)
		if err != nil {
			return
		}
		r.curFile = f
	}
	_ = r.curFile.Truncate(0)
	_, _ = r.curFile.WriteAt(b, 0)
}

func (r *Recorder) clearCurrent() {
	r.mu.Lock()
	defer r.mu.Unlock()
	if r.curFile != nil {
		_ = r.curFile.Truncate(0)
	}
}

// NewKind registers a kind of case with its judge.
func NewKind[C any](r *Recorder, name string, judge func(C) []Violation) *Kind[C] {
	st := &kindState{name: name}
	st.replayJudge = func(raw json.RawMessage) ([]Violation, error) {
		var c C
		dec := json.NewDecoder(bytes.NewReader(raw))
		if err := dec.Decode(&c); err != nil {
			return nil, err
		}
		return safeJudge(judge, c), nil
	}
	r.mu.Lock()
	r.kinds[name] = st
	r.kindOrder = append(r.kindOrder, name)
	r.mu.Unlock()
	// every case is declared before it is judged (see DeclareEach) unless the kind opts out
	return &Kind[C]{r: r, st: st, judge: judge, declare: true}
}

// NoDeclare switches the per-case declaration off (for kinds with millions of tiny cases).
func (k *Kind[C]) NoDeclare() *Kind[C] {
	k.declare = false
	return k
}

// InfraClause marks a "violation" that is really the harness failing to set the case up for a
// reason unrelated to the code under test (e.g. every retry lost the race for a TCP port). Such
// cases are not judged: they are counted (coverage key infra_skipped), printed once, and never
// become a VIOLATION. Use it only for causes that cannot be the property's fault.
const InfraClause = "INFRA"

// Infra builds such a marker.
func Infra(format string, args ...interface{}) Violation {
	return Violation{Clause: InfraClause, Detail: fmt.Sprintf(format, args...)}
}

var infraSkipped atomic.Int64
var infraPrinted atomic.Bool

func safeJudge[C any](judge func(C) []Violation, c C) (vs []Violation) {
	defer func() {
		if p := recover(); p != nil {
			vs = append(vs, Violation{Clause: "no-panic", Detail: fmt.Sprintf("panic: %v\n%s", p, trimStack(debug.Stack()))})
		}
		for _, v := range vs {
			if v.Clause == InfraClause {
				infraSkipped.Add(1)
				if !infraPrinted.Swap(true) {
					fmt.Printf("INFRA-SKIP (case not judged): %s\n", firstLine(v.Detail))
				}
				vs = nil
				return
			}
		}
	}()
	return judge(c)
}

func trimStack(b []byte) string {
	s := string(b)
	if len(s) > 4000 {
		s = s[:4000] + "…"
	}
	return s
}

// Guard runs f and converts a panic into a violation of clause.
func Guard(clause string, f func()) (v *Violation) {
	defer func() {
		if p := recover(); p != nil {
			v = &Violation{Clause: clause, Detail: fmt.Sprintf("panic: %v\n%s", p, trimStack(debug.Stack()))}
		}
	}()
	f()
	return nil
}

// Eval judges c, records it and returns the violations found.
func (k *Kind[C]) Eval(c C, nontrivial bool, classes ...string) []Violation {
	if k.declare {
		k.r.declareCurrent(k.st.name, c)
		defer k.r.clearCurrent()
	}
	vs := safeJudge(k.judge, c)
	k.record(c, nontrivial, classes, vs)
	return vs
}

// EvalLazy is Eval for judges whose classification is only known after judging
// (the judge leaves it in package state; classify reads it). Avoids judging twice.
func (k *Kind[C]) EvalLazy(c C, classify func() (bool, []string)) []Violation {
	if k.declare {
		k.r.declareCurrent(k.st.name, c)
		defer k.r.clearCurrent()
	}
	vs := safeJudge(k.judge, c)
	nt, cl := classify()
	k.record(c, nt, cl, vs)
	return vs
}

// CheckLazy is EvalLazy inside a rapid property.
func (k *Kind[C]) CheckLazy(rt *rapid.T, c C, classify func() (bool, []string)) {
	vs := k.EvalLazy(c, classify)
	if len(vs) > 0 {
		rt.Fatalf("%s/%s: %s: %s", k.r.ID, k.st.name, vs[0].Clause, firstLine(vs[0].Detail))
	}
}

// Check is Eval for use inside a rapid property: it fails the rapid case on violation.
func (k *Kind[C]) Check(rt *rapid.T, c C, nontrivial bool, classes ...string) {
	vs := k.Eval(c, nontrivial, classes...)
	if len(vs) > 0 {
		rt.Fatalf("%s/%s: %s: %s", k.r.ID, k.st.name, vs[0].Clause, firstLine(vs[0].Detail))
	}
}

// Must is Eval for plain loops (corpus, exhaustive sweeps): it fails t on violation
// but lets the loop continue so that every distinct failure is seen once.
func (k *Kind[C]) Must(t testing.TB, c C, nontrivial bool, classes ...string) bool {
	vs := k.Eval(c, nontrivial, classes...)
	if len(vs) > 0 {
		t.Errorf("%s/%s: %s: %s", k.r.ID, k.st.name, vs[0].Clause, firstLine(vs[0].Detail))
		return false
	}
	return true
}

// Bulk records n evaluations of an enumerated sub-space that were judged by the
// caller in a tight loop (no per-case JSON).  nontrivial of them satisfied the
// rule and were distinct by construction (an enumeration never repeats); one
// representative case may be supplied as a sample.
func (k *Kind[C]) Bulk(n, nontrivial int64, exhaustive bool, class string, sampleCase *C) {
	r := k.r
	r.mu.Lock()
	defer r.mu.Unlock()
	k.st.evals += n
	k.st.nontrivial += nontrivial
	if exhaustive {
		k.st.exhaustive = true
	}
	if class != "" {
		r.classes[class] += n
	}
	r.extraBulkNontrivial += nontrivial
	if sampleCase != nil && !r.classSeen["bulk:"+k.st.name+class] {
		r.classSeen["bulk:"+k.st.name+class] = true
		if raw, err := json.Marshal(sampleCase); err == nil && len(raw) <= maxSampleBytes {
			r.samples = append(r.samples, sample{Kind: k.st.name, Classes: []string{class}, Case: raw})
		}
	}
}

// Fail records a violation found by a caller-side loop (used with Bulk).
func (k *Kind[C]) Fail(t testing.TB, c C, vs []Violation) {
	k.record(c, true, nil, vs)
	if t != nil {
		t.Errorf("%s/%s: %s: %s", k.r.ID, k.st.name, vs[0].Clause, firstLine(vs[0].Detail))
	}
}

func firstLine(s string) string {
	if i := strings.IndexByte(s, '\n'); i >= 0 {
		s = s[:i]
	}
	if len(s) > 600 {
		s = s[:600] + "…"
	}
	return s
}

func (k *Kind[C]) record(c C, nontrivial bool, classes []string, vs []Violation) {
	r := k.r
	var raw json.RawMessage
	needJSON := nontrivial || len(vs) > 0
	r.mu.Lock()
	k.st.evals++
	r.sampleTick++
	tick := r.sampleTick
	newClass := false
	for _, cl := range classes {
		r.classes[cl]++
		if !r.classSeen[cl] {
			newClass = true
		}
	}
	// sampling schedule: first case, any case introducing a new class, and a thinning stream
	wantSample := len(r.samples) < maxSamples && (tick == 1 || newClass || (tick&(tick-1)) == 0)
	r.mu.Unlock()
	if needJSON || wantSample {
		b, err := json.Marshal(c)
		if err != nil {
			b = []byte(fmt.Sprintf("%q", "unserialisable case: "+err.Error()))
		}
		raw = b
	}
	r.mu.Lock()
	defer r.mu.Unlock()
	if nontrivial {
		h := fnv.New64a()
		_, _ = h.Write([]byte(k.st.name))
		_, _ = h.Write(raw)
		hv := h.Sum64()
		if _, ok := r.hashes[hv]; !ok {
			r.hashes[hv] = struct{}{}
			k.st.nontrivial++
		}
	}
	if wantSample && len(r.samples) < maxSamples && len(raw) <= maxSampleBytes {
		for _, cl := range classes {
			r.classSeen[cl] = true
		}
		r.samples = append(r.samples, sample{Kind: k.st.name, Classes: classes, Case: raw})
	}
	if len(vs) > 0 {
		k.st.violations++
		k.st.lastFail = raw
		k.st.lastFailV = vs
		// written eagerly as well: a fuzz worker or a crashing process never reaches Finish
		r.writeReplayLocked(k.st)
	}
}

// Probe judges the concrete probe case of an open known finding.  It returns true
// (exclude the region, and print KNOWN-FINDING at Finish) only when key is listed
// as open AND the probe still fails.  If the key is not open, or the probe passes,
// it returns false and the region must be explored like any other.
func (k *Kind[C]) Probe(key string, c C, what string) bool {
	r := k.r
	if !r.KnownOpen(key) {
		return false
	}
	vs := safeJudge(k.judge, c)
	r.mu.Lock()
	defer r.mu.Unlock()
	r.classes["known-finding-probe"]++
	if len(vs) == 0 {
		r.notes = append(r.notes, fmt.Sprintf("open finding %s: probe no longer fails (region not excluded)", key))
		return false
	}
	if _, ok := r.knownHit[key]; !ok {
		r.knownHit[key] = what
		fmt.Printf("KNOWN-FINDING: property=%s key=%s %s\n", r.ID, key, what)
	}
	return true
}

func (r *Recorder) replayPath(kind string, raw []byte) string {
	h := fnv.New64a()
	_, _ = h.Write(raw)
	return filepath.Join(r.verifDir, "replays", fmt.Sprintf("%s-%s-s%d-%016x.json", r.ID, kind, r.Shard, h.Sum64()))
}

func (r *Recorder) writeReplayLocked(st *kindState) string {
	if st.lastFail == nil {
		return ""
	}
	_ = os.MkdirAll(filepath.Join(r.verifDir, "replays"), 0o755)
	// one "latest" file per kind and shard, overwritten while shrinking proceeds
	p := filepath.Join(r.verifDir, "replays", fmt.Sprintf("%s-%s-s%d-latest.json", r.ID, st.name, r.Shard))
	rf := ReplayFile{Property: r.ID, Kind: st.name, Case: st.lastFail, Violations: st.lastFailV}
	b, _ := json.MarshalIndent(rf, "", " ")
	_ = os.WriteFile(p, b, 0o644)
	return p
}

// ReplayFileJudge loads a replay/corpus file and judges it with the registered kind.
func (r *Recorder) ReplayFileJudge(path string) ([]Violation, error) {
	b, err := os.ReadFile(path)
	if err != nil {
		return nil, err
	}
	var rf ReplayFile
	if err := json.Unmarshal(b, &rf); err != nil {
		return nil, fmt.Errorf("%s: %v", path, err)
	}
	r.mu.Lock()
	st, ok := r.kinds[rf.Kind]
	r.mu.Unlock()
	if !ok {
		return nil, fmt.Errorf("%s: unknown kind %q for %s", path, rf.Kind, r.ID)
	}
	r.declareCurrent(rf.Kind, rf.Case) // a replayed case that kills the process is attributed by the driver
	vs, err := st.replayJudge(rf.Case)
	r.clearCurrent()
	if err != nil {
		return nil, fmt.Errorf("%s: %v", path, err)
	}
	r.mu.Lock()
	st.evals++
	r.classes["corpus"]++
	if len(vs) > 0 {
		st.violations++
		st.lastFail = rf.Case
		st.lastFailV = vs
		r.replayed = append(r.replayed, path)
	}
	r.mu.Unlock()
	return vs, nil
}

// Corpus judges every committed regression input for the property
// (/verif/corpus/<ID>/*.json).  All of them must pass.
func (r *Recorder) Corpus(t *testing.T) {
	files, _ := filepath.Glob(filepath.Join(r.verifDir, "corpus", r.ID, "*.json"))
	sort.Strings(files)
	for _, f := range files {
		vs, err := r.ReplayFileJudge(f)
		if err != nil {
			t.Errorf("corpus: %v", err)
			continue
		}
		if len(vs) > 0 {
			t.Errorf("corpus %s: %s: %s", filepath.Base(f), vs[0].Clause, firstLine(vs[0].Detail))
			fmt.Printf("VIOLATION property=%s replay=%s\n", r.ID, f)
		}
	}
	r.Extra("corpus_files", len(files))
}

// Replay runs one replay file (env VERIF_REPLAY) and reports the verdict.
func (r *Recorder) Replay(t *testing.T) {
	p := os.Getenv("VERIF_REPLAY")
	if p == "" {
		t.Skip("VERIF_REPLAY not set")
	}
	vs, err := r.ReplayFileJudge(p)
	if err != nil {
		t.Fatalf("replay: %v", err)
	}
	if len(vs) == 0 {
		fmt.Printf("REPLAY-OK property=%s file=%s\n", r.ID, p)
		return
	}
	for _, v := range vs {
		fmt.Printf("REPLAY-VIOLATION property=%s clause=%s detail=%s\n", r.ID, v.Clause, firstLine(v.Detail))
	}
	fmt.Printf("VIOLATION property=%s replay=%s\n", r.ID, p)
	t.Fail()
}

type partial struct {
	Property    string                 `json:"property_id"`
	Tier        string                 `json:"tier"`
	Seed        uint64                 `json:"seed"`
	Shard       int                    `json:"shard"`
	Rule        string                 `json:"rule"`
	Evaluations int64                  `json:"evaluations"`
	Distinct    int64                  `json:"distinct_nontrivial_hashed"`
	BulkNT      int64                  `json:"bulk_nontrivial"`
	Kinds       map[string]interface{} `json:"kinds"`
	Classes     map[string]int64       `json:"classes"`
	Excluded    map[string]int64       `json:"excluded_known"`
	KnownHit    map[string]string      `json:"known_findings_reproduced"`
	Samples     []sample               `json:"samples"`
	Assumptions []string               `json:"assumptions"`
	Notes       []string               `json:"notes"`
	Extra       map[string]interface{} `json:"extra"`
	Violations  int64                  `json:"violations"`
	Replays     []string               `json:"replays"`
	WallS       float64                `json:"wall_s"`
	Exhaustive  []string               `json:"exhaustive_kinds"`
}

// Finish writes the partial evidence and the replay files and prints VIOLATION
// lines.  Call it with defer from the test entry point.
func (r *Recorder) Finish() {
	r.mu.Lock()
	defer r.mu.Unlock()
	if r.finished {
		return
	}
	r.finished = true
	p := partial{
		Property: r.ID, Tier: r.Tier, Seed: r.Seed, Shard: r.Shard, Rule: r.Rule,
		Kinds: map[string]interface{}{}, Classes: r.classes, Excluded: r.excluded,
		KnownHit: r.knownHit, Samples: r.samples, Assumptions: r.assume, Notes: r.notes,
		Extra: r.extra, WallS: time.Since(r.start).Seconds(), BulkNT: r.extraBulkNontrivial,
	}
	p.Distinct = int64(len(r.hashes))
	if n := infraSkipped.Load(); n > 0 {
		p.Extra["infra_skipped"] = n
	}
	for _, name := range r.kindOrder {
		st := r.kinds[name]
		p.Evaluations += st.evals
		p.Violations += st.violations
		p.Kinds[name] = map[string]interface{}{"evaluations": st.evals, "distinct_nontrivial": st.nontrivial, "violations": st.violations, "exhaustive": st.exhaustive}
		if st.exhaustive {
			p.Exhaustive = append(p.Exhaustive, name)
		}
		if st.lastFail != nil {
			latest := r.writeReplayLocked(st)
			final := r.replayPath(st.name, st.lastFail)
			if latest != "" {
				if err := os.Rename(latest, final); err != nil {
					final = latest
				}
			}
			p.Replays = append(p.Replays, final)
			fmt.Printf("VIOLATION property=%s replay=%s\n", r.ID, final)
		}
	}
	b, _ := json.MarshalIndent(p, "", " ")
	_ = os.WriteFile(filepath.Join(r.outDir, fmt.Sprintf("part-%d.json", r.Shard)), b, 0o644)
	// distinct hashes, for an exact union across shards
	hb := make([]byte, 0, 8*len(r.hashes))
	for h := range r.hashes {
		hb = binary.LittleEndian.AppendUint64(hb, h)
	}
	_ = os.WriteFile(filepath.Join(r.outDir, fmt.Sprintf("part-%d.hashes", r.Shard)), hb, 0o644)
}

// Batch is a set of cases judged concurrently: the case kind for "calling the
// code under test from several goroutines at once gives the same verdicts as
// calling it sequentially" (exposes state shared between calls).
type Batch[C any] struct {
	Cases   []C `json:"cases"`
	Workers int `json:"workers"`
	Rounds  int `json:"rounds"`
}

// ParallelJudge lifts a pure per-case judge to a Batch judge: every case must
// pass sequentially, and must still pass when the batch is judged from
// Workers goroutines at the same time, Rounds times.
func ParallelJudge[C any](judge func(C) []Violation) func(Batch[C]) []Violation {
	return func(b Batch[C]) []Violation {
		for i, c := range b.Cases {
			if vs := safeJudge(judge, c); len(vs) > 0 {
				return []Violation{V("sequential:"+vs[0].Clause, "case %d fails on its own: %s", i, vs[0].Detail)}
			}
		}
		workers := b.Workers
		if workers < 2 {
			workers = 2
		}
		var mu sync.Mutex
		var out []Violation
		for round := 0; round < b.Rounds && len(out) == 0; round++ {
			var wg sync.WaitGroup
			start := make(chan struct{})
			for w := 0; w < workers; w++ {
				wg.Add(1)
				go func(w int) {
					defer wg.Done()
					<-start
					for i := w; i < len(b.Cases); i += workers {
						if vs := safeJudge(judge, b.Cases[i]); len(vs) > 0 {
							mu.Lock()
							out = append(out, V("concurrent-calls:"+vs[0].Clause, "case %d passes sequentially but fails when %d goroutines call concurrently (round %d): %s", i, workers, round, vs[0].Detail))
							mu.Unlock()
							return
						}
					}
				}(w)
			}
			close(start)
			wg.Wait()
		}
		return out
	}
}

// Pool collects generated cases and later judges them in concurrent batches (kind
// "<name>" = ParallelJudge of the per-case judge).  It keeps the HEAVIEST cases it is
// offered (by size of their JSON form, among the first few thousand offers): large,
// nested, dynamic cases spend longest inside the code under test, which is what makes
// overlapping calls likely.
type Pool[C any] struct {
	k      *Kind[Batch[C]]
	cases  []C
	sizes  []int
	max    int
	offers int
}

// NewPool registers the concurrent kind. Call it in TestReplay as well (max 0).
func NewPool[C any](r *Recorder, name string, judge func(C) []Violation, max int) *Pool[C] {
	return &Pool[C]{k: NewKind(r, name, ParallelJudge(judge)), max: max}
}

// DeclareEach makes the concurrent kind declare every batch before judging it (see Kind.DeclareEach).
func (p *Pool[C]) DeclareEach() *Pool[C] {
	p.k.DeclareEach()
	return p
}

// Offer keeps the case for the concurrent phase if it is among the heaviest seen.
func (p *Pool[C]) Offer(c C) {
	if p.max == 0 || p.offers > 4000 {
		return
	}
	p.offers++
	b, err := json.Marshal(c)
	if err != nil {
		return
	}
	if len(p.cases) < p.max {
		p.cases = append(p.cases, c)
		p.sizes = append(p.sizes, len(b))
		return
	}
	// replace the lightest kept case if this one is heavier
	mi := 0
	for i, s := range p.sizes {
		if s < p.sizes[mi] {
			mi = i
		}
	}
	if len(b) > p.sizes[mi] {
		p.cases[mi], p.sizes[mi] = c, len(b)
	}
}

// Run judges the collected cases in batches of `batch` from `workers` goroutines, `rounds` times each.
func (p *Pool[C]) Run(t *testing.T, workers, rounds, batch int) {
	t.Run("concurrent", func(t *testing.T) {
		for lo := 0; lo < len(p.cases); lo += batch {
			hi := lo + batch
			if hi > len(p.cases) {
				hi = len(p.cases)
			}
			if hi-lo < 2 {
				break
			}
			p.k.Must(t, Batch[C]{Cases: p.cases[lo:hi], Workers: workers, Rounds: rounds}, true, "concurrent-batch")
		}
	})
}
