package c13

// Kind "revalidate" (F4): the library documents "if you have modified the structure since
// Validate was last called, call Validate again" (Parameter.SignatureString /
// TypeComponentTree; exercised for a top-level parameter by the repository's
// TestABIModifyReParse).  A case is a SEQUENCE of definitions; ONE library parameter object is
// used for the first one and then edited in place into each following one (only exported
// fields are assigned, every *abi.Parameter that exists in both keeps its identity and
// whatever the library cached on it), Validate is called again at the parameter, entry or ABI
// level, and verdict, signature and type tree must be those of the edited definition: judged
// against the independent recogniser ref/typeref, and compared with a fresh library object
// built from the same definition.

import (
	"fmt"

	"github.com/hyperledger/firefly-signer/pkg/abi"
	"pgregory.net/rapid"

	"verifharness/evid"
	"verifharness/ref/typeref"
)

// RevalCase is one history of a definition.
type RevalCase struct {
	Steps []P    `json:"steps"` // the definition after each edit; Steps[0] is the initial one
	First string `json:"first"` // how the object is used before the first edit: validate | signature | tree | entry-signature | abi-validate | all-nodes | none
	Level string `json:"level"` // where Validate is called again after each edit: param | entry | abi
}

// morph edits lp in place into the definition p.
func morph(lp *abi.Parameter, p typeref.Param) {
	lp.Type = p.Type
	n := len(lp.Components)
	if len(p.Components) < n {
		n = len(p.Components)
	}
	for i := 0; i < n; i++ {
		morph(lp.Components[i], p.Components[i])
	}
	if len(p.Components) > n {
		keep := lp.Components[:n:n]
		for i := n; i < len(p.Components); i++ {
			keep = append(keep, toLib(p.Components[i], fmt.Sprintf("m%d", i)))
		}
		lp.Components = keep
	} else {
		lp.Components = lp.Components[:n]
	}
	if len(p.Components) == 0 {
		lp.Components = nil
	}
}

func touchAll(lp *abi.Parameter) {
	_, _ = lp.SignatureString()
	for _, c := range lp.Components {
		touchAll(c)
	}
}

func judgeReval(c RevalCase) (vs []evid.Violation) {
	if len(c.Steps) == 0 {
		return []evid.Violation{evid.V("harness", "no steps")}
	}
	lp := toLib(c.Steps[0].ref(), "a")
	entry := &abi.Entry{Type: abi.Function, Name: "f", Inputs: abi.ParameterArray{lp}}
	theABI := abi.ABI{entry}
	if pv := evid.Guard("validate-no-panic", func() {
		switch c.First {
		case "validate":
			_ = lp.Validate()
		case "signature":
			_, _ = lp.SignatureString()
		case "tree":
			_, _ = lp.TypeComponentTree()
		case "entry-signature":
			_, _ = entry.Signature()
		case "abi-validate":
			_ = theABI.Validate()
		case "all-nodes":
			touchAll(lp)
		}
	}); pv != nil {
		return append(vs, *pv)
	}
	for i := 0; i < len(c.Steps); i++ {
		p := c.Steps[i].ref()
		what := fmt.Sprintf("step %d of %d (first use: %s, Validate at %s level): %s", i, len(c.Steps)-1, c.First, c.Level, show(p))
		if i > 0 {
			morph(lp, p)
		} else if c.First == "none" {
			continue // nothing observed before the first edit
		}
		// the documented flow: Validate again ...
		var errValidate error
		if pv := evid.Guard("validate-no-panic", func() {
			switch c.Level {
			case "entry":
				errValidate = entry.Validate()
			case "abi":
				errValidate = theABI.Validate()
			default:
				errValidate = lp.Validate()
			}
		}); pv != nil {
			pv.Detail = what + ": " + pv.Detail
			return append(vs, *pv)
		}
		// ... then observe the SAME object
		var tc abi.TypeComponent
		var sig, entrySig string
		var errTree, errSig, errEntrySig error
		// and a fresh object built from the same definition
		var ftc abi.TypeComponent
		var fsig string
		var ferrValidate, ferrTree, ferrSig error
		if pv := evid.Guard("validate-no-panic", func() {
			tc, errTree = lp.TypeComponentTree()
			sig, errSig = lp.SignatureString()
			entrySig, errEntrySig = entry.Signature()
			ferrValidate = toLib(p, "a").Validate()
			fl := toLib(p, "a")
			ftc, ferrTree = fl.TypeComponentTree()
			fsig, ferrSig = fl.SignatureString()
		}); pv != nil {
			pv.Detail = what + ": " + pv.Detail
			return append(vs, *pv)
		}
		accepted := errValidate == nil
		verdict, node, why := typeref.Recognise(p)
		switch {
		case verdict == typeref.Valid && !accepted:
			vs = append(vs, evid.V("revalidate-accepts-valid", "%s: the edited definition is valid (canonical %s) but Validate returned %v", what, node.Canonical(), errValidate))
		case verdict == typeref.Invalid && accepted:
			vs = append(vs, evid.V("revalidate-rejects-invalid", "%s: the edited definition is outside the grammar (%s) but Validate accepted it; signature now %q", what, why, sig))
		}
		if accepted != (ferrValidate == nil) {
			vs = append(vs, evid.V("revalidate-equals-fresh-parse", "%s: Validate after the edit error=%v, a fresh object of the same definition error=%v", what, errValidate, ferrValidate))
		}
		for _, ob := range []struct {
			name string
			err  error
		}{{"TypeComponentTree", errTree}, {"SignatureString", errSig}, {"Entry.Signature", errEntrySig}} {
			if (ob.err == nil) != accepted {
				vs = append(vs, evid.V("revalidate-verdict-consistent", "%s: Validate error=%v but afterwards %s error=%v", what, errValidate, ob.name, ob.err))
			}
		}
		if !accepted && (sig != "" || entrySig != "") {
			vs = append(vs, evid.V("revalidate-verdict-consistent", "%s: rejected, yet a signature %q / %q is still returned", what, sig, entrySig))
		}
		if len(vs) > 0 {
			return vs
		}
		if !accepted {
			continue
		}
		if verdict == typeref.Valid {
			want := node.Canonical()
			if sig != want {
				vs = append(vs, evid.V("revalidate-signature", "%s: SignatureString %q after Validate, canonical spelling of the edited definition is %q", what, sig, want))
			}
			if entrySig != "f("+want+")" {
				vs = append(vs, evid.V("revalidate-signature", "%s: Entry.Signature %q after Validate, want %q", what, entrySig, "f("+want+")"))
			}
			if d := refDiff(tc, node, "$"); d != "" {
				vs = append(vs, evid.V("revalidate-type-tree", "%s: tree after Validate differs from the reference tree of the edited definition at %s", what, d))
			}
		}
		if ferrTree == nil && ferrSig == nil {
			if sig != fsig {
				vs = append(vs, evid.V("revalidate-equals-fresh-parse", "%s: SignatureString %q, a fresh object of the same definition gives %q", what, sig, fsig))
			} else if d := sameTree(tc, ftc, "$"); d != "" {
				vs = append(vs, evid.V("revalidate-equals-fresh-parse", "%s: tree differs from the tree of a fresh object at %s", what, d))
			}
		}
		if len(vs) > 0 {
			return vs
		}
	}
	return vs
}

// ---- generation

func copyParam(p typeref.Param) typeref.Param {
	out := typeref.Param{Type: p.Type}
	for _, c := range p.Components {
		out.Components = append(out.Components, copyParam(c))
	}
	return out
}

func nodeAt(p *typeref.Param, path []int) *typeref.Param {
	cur := p
	for _, i := range path {
		cur = &cur.Components[i]
	}
	return cur
}

// genRoot draws a valid definition that is a tuple (with array suffixes or not) most of the time.
func genRoot(rt *rapid.T, b *built) typeref.Param {
	if rapid.IntRange(0, 9).Draw(rt, "root.elementary") == 0 {
		return genValid(rt, "t", 0, nil, b)
	}
	sp := spelled{base: "tuple"}
	var p typeref.Param
	n := rapid.IntRange(1, 4).Draw(rt, "root.members")
	for i := 0; i < n; i++ {
		p.Components = append(p.Components, genValid(rt, fmt.Sprintf("t.%d", i), 2, []int{i}, b))
	}
	sp.dims = genDims(rt, "root")
	p.Type = sp.String()
	b.sites = append(b.sites, site{path: nil, sp: sp})
	return p
}

type revalInfo struct {
	nested, toInvalid, toValid, shape bool
	labels                            []string
}

func genReval(rt *rapid.T) (RevalCase, revalInfo) {
	b := &built{}
	cur := genRoot(rt, b)
	c := RevalCase{
		First: rapid.SampledFrom([]string{"validate", "validate", "signature", "tree", "entry-signature", "abi-validate", "all-nodes", "none"}).Draw(rt, "first"),
		Level: rapid.SampledFrom([]string{"param", "param", "entry", "abi"}).Draw(rt, "level"),
	}
	var info revalInfo
	steps := []typeref.Param{copyParam(cur)}
	nEdits := rapid.IntRange(1, 3).Draw(rt, "edits")
	for e := 0; e < nEdits; e++ {
		l := fmt.Sprintf("e%d", e)
		// prefer nested sites
		var nested []int
		for i, s := range b.sites {
			if len(s.path) > 0 {
				nested = append(nested, i)
			}
		}
		si := rapid.IntRange(0, len(b.sites)-1).Draw(rt, l+".site")
		if len(nested) > 0 && rapid.IntRange(0, 9).Draw(rt, l+".nested") < 8 {
			si = nested[rapid.IntRange(0, len(nested)-1).Draw(rt, l+".nsite")]
		}
		st := b.sites[si]
		node := nodeAt(&cur, st.path)
		verdictBefore, _, _ := typeref.Recognise(cur)
		how := rapid.IntRange(0, 9).Draw(rt, l+".how")
		switch {
		case how < 4:
			// another valid spelling
			var sp spelled
			if st.sp.base == "tuple" {
				sp = spelled{base: "tuple", dims: genDims(rt, l)}
			} else {
				sp = genElem(rt, l)
				sp.dims = genDims(rt, l)
			}
			node.Type = sp.String()
			b.sites[si].sp = sp
			info.labels = append(info.labels, "edit:other-valid-spelling")
		case how < 8:
			ms, op := mutate(rt, st.sp)
			node.Type = ms
			info.labels = append(info.labels, "edit:mutant", "edit-mutant:"+op)
		case how == 8 && st.sp.base == "tuple":
			// add or drop a component
			if len(node.Components) > 1 && rapid.Bool().Draw(rt, l+".drop") {
				node.Components = node.Components[:len(node.Components)-1]
				info.labels = append(info.labels, "edit:drop-component")
			} else {
				sp := genElem(rt, l+".add")
				node.Components = append(node.Components, typeref.Param{Type: sp.String()})
				info.labels = append(info.labels, "edit:add-component")
			}
			info.shape = true
			// the remembered sites below this node may be stale: rebuild the list from scratch is not needed,
			// dropped components are simply never chosen again
			var keep []site
			for _, s := range b.sites {
				ok := true
				cp := &cur
				for _, i := range s.path {
					if i >= len(cp.Components) {
						ok = false
						break
					}
					cp = &cp.Components[i]
				}
				if ok {
					keep = append(keep, s)
				}
			}
			b.sites = keep
		default:
			// back to the spelling the site was generated with (valid)
			node.Type = st.sp.String()
			info.labels = append(info.labels, "edit:restore-valid-spelling")
		}
		verdictAfter, _, _ := typeref.Recognise(cur)
		if len(st.path) > 0 {
			info.nested = true
			info.labels = append(info.labels, fmt.Sprintf("edit:depth=%d", len(st.path)))
		} else {
			info.labels = append(info.labels, "edit:depth=0")
		}
		if verdictBefore == typeref.Valid && verdictAfter == typeref.Invalid {
			info.toInvalid = true
			info.labels = append(info.labels, "edit:valid->invalid")
		}
		if verdictBefore == typeref.Invalid && verdictAfter == typeref.Valid {
			info.toValid = true
			info.labels = append(info.labels, "edit:invalid->valid")
		}
		if verdictBefore == typeref.Valid && verdictAfter == typeref.Valid {
			info.labels = append(info.labels, "edit:valid->valid")
		}
		steps = append(steps, copyParam(cur))
	}
	if rapid.IntRange(0, 4).Draw(rt, "reverse") == 0 {
		// the same history backwards: e.g. first invalid, then valid
		for i, j := 0, len(steps)-1; i < j; i, j = i+1, j-1 {
			steps[i], steps[j] = steps[j], steps[i]
		}
		info.labels = append(info.labels, "history:reversed")
	}
	for _, s := range steps {
		c.Steps = append(c.Steps, fromRef(s))
	}
	info.labels = append(info.labels, "first:"+c.First, "level:"+c.Level, "gen:revalidate")
	return c, info
}

func revalProp(k *evid.Kind[RevalCase]) func(rt *rapid.T) {
	return func(rt *rapid.T) {
		c, info := genReval(rt)
		seen := map[string]bool{}
		var cl []string
		for _, l := range info.labels {
			if !seen[l] {
				seen[l] = true
				cl = append(cl, l)
			}
		}
		// non-trivial: an edit below the top level of an object that had been parsed before
		k.Check(rt, c, info.nested && c.First != "none", cl...)
	}
}
