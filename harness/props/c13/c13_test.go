// Package c13 decides property C13 (ABI type strings are accepted exactly when
// valid, and normalise idempotently) by generated-input search against the
// independent grammar recogniser in ref/typeref.
package c13

import (
	"encoding/hex"
	"fmt"
	"strings"
	"testing"
	"unicode/utf8"

	"github.com/hyperledger/firefly-signer/pkg/abi"
	"pgregory.net/rapid"

	"verifharness/evid"
	"verifharness/ref/typeref"
)

const rule = "a type string whose reference verdict is INVALID but which shares a >= 3-character prefix with a grammar keyword (near miss), " +
	"or a VALID type that has at least one array suffix or uses an alias spelling (uint, int, fixed, ufixed); distinct by hash of the case " +
	"(exhaustively enumerated strings are distinct by construction)"

// ---------------------------------------------------------------------------
// case

// P is the JSON form of a parameter definition. Type strings that are not valid
// UTF-8 (native fuzzing) are stored as "hex:<hex>" so that a replay is exact.
type P struct {
	Type       string `json:"type"`
	Components []P    `json:"components,omitempty"`
}

type TypeCase struct {
	Param P `json:"param"`
}

func encStr(s string) string {
	if utf8.ValidString(s) && !strings.HasPrefix(s, "hex:") {
		return s
	}
	return "hex:" + hex.EncodeToString([]byte(s))
}

func decStr(s string) string {
	if strings.HasPrefix(s, "hex:") {
		if b, err := hex.DecodeString(s[4:]); err == nil {
			return string(b)
		}
	}
	return s
}

func fromRef(p typeref.Param) P {
	out := P{Type: encStr(p.Type)}
	for _, c := range p.Components {
		out.Components = append(out.Components, fromRef(c))
	}
	return out
}

func (p P) ref() typeref.Param {
	out := typeref.Param{Type: decStr(p.Type)}
	for _, c := range p.Components {
		out.Components = append(out.Components, c.ref())
	}
	return out
}

// toLib builds a fresh library parameter (nothing cached) for the definition.
func toLib(p typeref.Param, name string) *abi.Parameter {
	lp := &abi.Parameter{Name: name, Type: p.Type}
	for i, c := range p.Components {
		lp.Components = append(lp.Components, toLib(c, fmt.Sprintf("m%d", i)))
	}
	return lp
}

// ---------------------------------------------------------------------------
// oracle

type outcome struct {
	vs       []evid.Violation
	verdict  typeref.Verdict
	node     *typeref.Node
	accepted bool
}

func q(s string) string {
	if len(s) > 120 {
		return fmt.Sprintf("%q…(%d bytes)", s[:120], len(s))
	}
	return fmt.Sprintf("%q", s)
}

func show(p typeref.Param) string {
	if len(p.Components) == 0 {
		return q(p.Type)
	}
	parts := make([]string, len(p.Components))
	for i, c := range p.Components {
		parts[i] = show(c)
	}
	return q(p.Type) + "{" + strings.Join(parts, ",") + "}"
}

// refDiff walks the library's type tree against the reference tree.
func refDiff(tc abi.TypeComponent, n *typeref.Node, path string) string {
	if tc == nil {
		return path + ": nil component"
	}
	switch n.Kind {
	case typeref.Elementary:
		if tc.ComponentType() != abi.ElementaryComponent {
			return fmt.Sprintf("%s: component type %d, want elementary %s", path, tc.ComponentType(), n.Canonical())
		}
		et := tc.ElementaryType()
		if et == nil {
			return path + ": elementary component without ElementaryType"
		}
		if string(et.BaseType()) != n.Base {
			return fmt.Sprintf("%s: base type %q, want %q", path, et.BaseType(), n.Base)
		}
		if tc.ElementarySuffix() != n.SizeSuffix() {
			return fmt.Sprintf("%s: suffix %q, want %q", path, tc.ElementarySuffix(), n.SizeSuffix())
		}
		switch n.Base {
		case "uint", "int":
			if int(tc.ElementaryM()) != n.M {
				return fmt.Sprintf("%s: M=%d, want %d", path, tc.ElementaryM(), n.M)
			}
		case "fixed", "ufixed":
			if int(tc.ElementaryM()) != n.M || int(tc.ElementaryN()) != n.N {
				return fmt.Sprintf("%s: MxN=%dx%d, want %dx%d", path, tc.ElementaryM(), tc.ElementaryN(), n.M, n.N)
			}
		case "bytes":
			if n.M > 0 && int(tc.ElementaryM()) != n.M {
				return fmt.Sprintf("%s: M=%d, want %d", path, tc.ElementaryM(), n.M)
			}
		}
		if tc.ArrayChild() != nil && !isNilTC(tc.ArrayChild()) || len(tc.TupleChildren()) != 0 {
			return path + ": elementary component with children"
		}
	case typeref.FixedArray, typeref.DynamicArray:
		want := abi.FixedArrayComponent
		if n.Kind == typeref.DynamicArray {
			want = abi.DynamicArrayComponent
		}
		if tc.ComponentType() != want {
			return fmt.Sprintf("%s: component type %d, want %s", path, tc.ComponentType(), n.Kind)
		}
		if n.Kind == typeref.FixedArray && tc.FixedArrayLen() != n.Len {
			return fmt.Sprintf("%s: fixed array length %d, want %d", path, tc.FixedArrayLen(), n.Len)
		}
		if tc.ArrayChild() == nil || isNilTC(tc.ArrayChild()) {
			return path + ": array without child"
		}
		return refDiff(tc.ArrayChild(), n.Child, path+"[]")
	case typeref.Tuple:
		if tc.ComponentType() != abi.TupleComponent {
			return fmt.Sprintf("%s: component type %d, want tuple", path, tc.ComponentType())
		}
		ch := tc.TupleChildren()
		if len(ch) != len(n.Members) {
			return fmt.Sprintf("%s: %d tuple members, want %d", path, len(ch), len(n.Members))
		}
		for i := range ch {
			if d := refDiff(ch[i], n.Members[i], fmt.Sprintf("%s.%d", path, i)); d != "" {
				return d
			}
		}
	}
	return ""
}

func isNilTC(tc abi.TypeComponent) (isNil bool) {
	defer func() {
		if recover() != nil {
			isNil = true
		}
	}()
	_ = tc.ComponentType()
	return false
}

// sameTree compares two library trees structurally.
func sameTree(a, b abi.TypeComponent, path string) string {
	if a.ComponentType() != b.ComponentType() {
		return fmt.Sprintf("%s: component type %d vs %d", path, a.ComponentType(), b.ComponentType())
	}
	switch a.ComponentType() {
	case abi.ElementaryComponent:
		if a.ElementaryType().BaseType() != b.ElementaryType().BaseType() || a.ElementarySuffix() != b.ElementarySuffix() ||
			a.ElementaryM() != b.ElementaryM() || a.ElementaryN() != b.ElementaryN() || a.ElementaryFixed() != b.ElementaryFixed() {
			return fmt.Sprintf("%s: %s%s (M=%d N=%d) vs %s%s (M=%d N=%d)", path,
				a.ElementaryType().BaseType(), a.ElementarySuffix(), a.ElementaryM(), a.ElementaryN(),
				b.ElementaryType().BaseType(), b.ElementarySuffix(), b.ElementaryM(), b.ElementaryN())
		}
	case abi.FixedArrayComponent, abi.DynamicArrayComponent:
		if a.FixedArrayLen() != b.FixedArrayLen() {
			return fmt.Sprintf("%s: array length %d vs %d", path, a.FixedArrayLen(), b.FixedArrayLen())
		}
		return sameTree(a.ArrayChild(), b.ArrayChild(), path+"[]")
	case abi.TupleComponent:
		ac, bc := a.TupleChildren(), b.TupleChildren()
		if len(ac) != len(bc) {
			return fmt.Sprintf("%s: %d vs %d tuple members", path, len(ac), len(bc))
		}
		for i := range ac {
			if d := sameTree(ac[i], bc[i], fmt.Sprintf("%s.%d", path, i)); d != "" {
				return d
			}
		}
	}
	return ""
}

// respell turns the library's own tree back into a parameter definition whose
// type strings are the spellings the library rendered ("tuple" + dimensions for
// tuples, because a parenthesised list is not a JSON-ABI type string).
func respell(tc abi.TypeComponent) typeref.Param {
	suffix := ""
	cur := tc
	for cur.ComponentType() == abi.FixedArrayComponent || cur.ComponentType() == abi.DynamicArrayComponent {
		if cur.ComponentType() == abi.FixedArrayComponent {
			suffix = fmt.Sprintf("[%d]", cur.FixedArrayLen()) + suffix
		} else {
			suffix = "[]" + suffix
		}
		cur = cur.ArrayChild()
	}
	if cur.ComponentType() == abi.TupleComponent {
		p := typeref.Param{Type: "tuple" + suffix}
		for _, c := range cur.TupleChildren() {
			p.Components = append(p.Components, respell(c))
		}
		return p
	}
	return typeref.Param{Type: cur.String() + suffix}
}

func judgeParam(p typeref.Param) outcome { return judgeParamMode(p, true) }

// judgeParamMode: with deep=false (bulk sweeps) a definition that Parameter.Validate
// rejects is not also pushed through the other four observation points.
func judgeParamMode(p typeref.Param, deep bool) (o outcome) {
	var why string
	o.verdict, o.node, why = typeref.Recognise(p)

	// observation point 1: Parameter.Validate
	var errValidate error
	if pv := evid.Guard("validate-no-panic", func() { errValidate = toLib(p, "a").Validate() }); pv != nil {
		pv.Detail = show(p) + ": " + pv.Detail
		o.vs = append(o.vs, *pv)
		return o
	}
	o.accepted = errValidate == nil
	if !deep && !o.accepted {
		if o.verdict == typeref.Valid {
			o.vs = append(o.vs, evid.V("accept-valid", "%s is a valid ABI type (canonical %s) but is rejected: %v", show(p), o.node.Canonical(), errValidate))
		}
		return o
	}

	// observation points 2-5 on fresh definitions: they must tell the same story
	var tc abi.TypeComponent
	var errTree, errSig, errABI, errEntrySig error
	var sig, entrySig string
	if pv := evid.Guard("validate-no-panic", func() {
		tc, errTree = toLib(p, "a").TypeComponentTree()
		sig, errSig = toLib(p, "a").SignatureString()
		e := &abi.Entry{Type: abi.Function, Name: "f", Inputs: abi.ParameterArray{toLib(p, "a")}}
		errABI = abi.ABI{e}.Validate()
		entrySig, errEntrySig = e.Signature()
	}); pv != nil {
		pv.Detail = show(p) + ": " + pv.Detail
		o.vs = append(o.vs, *pv)
		return o
	}
	for _, ob := range []struct {
		name string
		err  error
	}{{"TypeComponentTree", errTree}, {"SignatureString", errSig}, {"ABI.Validate", errABI}, {"Entry.Signature", errEntrySig}} {
		if (ob.err == nil) != o.accepted {
			o.vs = append(o.vs, evid.V("verdict-consistent", "%s: Parameter.Validate error=%v but %s error=%v", show(p), errValidate, ob.name, ob.err))
		}
	}
	if !o.accepted && (sig != "" || entrySig != "") {
		o.vs = append(o.vs, evid.V("verdict-consistent", "%s: rejected, yet a signature %q / %q is returned", show(p), sig, entrySig))
	}

	switch o.verdict {
	case typeref.Invalid:
		if o.accepted {
			o.vs = append(o.vs, evid.V("reject-invalid", "%s is outside the ABI type grammar (%s) but is accepted and rendered as %q", show(p), why, sig))
		}
		return o
	case typeref.Unspecified:
		return o // deliberately not asserted beyond totality and self-consistency
	}
	if !o.accepted {
		o.vs = append(o.vs, evid.V("accept-valid", "%s is a valid ABI type (canonical %s) but is rejected: %v", show(p), o.node.Canonical(), errValidate))
		return o
	}
	if len(o.vs) > 0 {
		return o
	}
	want := o.node.Canonical()
	if sig != want {
		o.vs = append(o.vs, evid.V("canonical-signature", "%s: SignatureString %q, canonical spelling is %q", show(p), sig, want))
	}
	if entrySig != "f("+want+")" {
		o.vs = append(o.vs, evid.V("canonical-signature", "%s: Entry.Signature %q, want %q", show(p), entrySig, "f("+want+")"))
	}
	if tc.String() != sig {
		o.vs = append(o.vs, evid.V("canonical-signature", "%s: tree String() %q differs from SignatureString %q", show(p), tc.String(), sig))
	}
	if d := refDiff(tc, o.node, "$"); d != "" {
		o.vs = append(o.vs, evid.V("type-tree", "%s: tree differs from the reference tree at %s", show(p), d))
		return o
	}
	// idempotence: parse the spelling the library itself rendered
	again := respell(tc)
	var tc2 abi.TypeComponent
	var sig2 string
	var err2, err3 error
	if pv := evid.Guard("reparse-no-panic", func() {
		tc2, err2 = toLib(again, "a").TypeComponentTree()
		sig2, err3 = toLib(again, "a").SignatureString()
	}); pv != nil {
		o.vs = append(o.vs, *pv)
		return o
	}
	if err2 != nil || err3 != nil {
		o.vs = append(o.vs, evid.V("reparse-accepted", "%s: rendered spelling %s is rejected when parsed again: %v", show(p), show(again), err2))
		return o
	}
	if sig2 != sig {
		o.vs = append(o.vs, evid.V("reparse-same-string", "%s: rendered %q, re-parsed spelling renders %q", show(p), sig, sig2))
	}
	if d := sameTree(tc, tc2, "$"); d != "" {
		o.vs = append(o.vs, evid.V("reparse-same-tree", "%s: re-parsing %s gives a different tree at %s", show(p), show(again), d))
	}
	if ap := fromRef(again); fmt.Sprint(ap) != fmt.Sprint(fromRef(o.node.CanonicalParam())) {
		o.vs = append(o.vs, evid.V("canonical-signature", "%s: library spelling %s differs from canonical parameter form %s", show(p), show(again), show(o.node.CanonicalParam())))
	}
	return o
}

func judgeType(c TypeCase) []evid.Violation {
	return judgeParam(c.Param.ref()).vs
}

func nonTrivial(p typeref.Param, o outcome) bool {
	switch o.verdict {
	case typeref.Invalid:
		return typeref.SharesKeywordPrefix(p.Type)
	case typeref.Valid:
		arrays, alias, _, _ := o.node.Stats()
		return arrays > 0 || alias
	}
	return false
}

func classes(o outcome, extra ...string) []string {
	cl := append([]string{}, extra...)
	cl = append(cl, "ref:"+o.verdict.String())
	if o.accepted {
		cl = append(cl, "lib:accepted")
	} else {
		cl = append(cl, "lib:rejected")
	}
	if o.verdict == typeref.Valid {
		arrays, alias, tuple, depth := o.node.Stats()
		if arrays > 0 {
			cl = append(cl, fmt.Sprintf("valid:arrays=%d", min(arrays, 4)))
		}
		if alias {
			cl = append(cl, "valid:alias")
		}
		if tuple {
			cl = append(cl, fmt.Sprintf("valid:tuple-depth=%d", min(depth, 3)))
		}
	}
	return cl
}

// ---------------------------------------------------------------------------
// generators

// spelled is a type string in parts, so that mutations can aim at a part.
type spelled struct {
	base string
	size string   // "" | M | MxN
	dims []string // contents of the brackets
}

func (s spelled) String() string {
	var b strings.Builder
	b.WriteString(s.base)
	b.WriteString(s.size)
	for _, d := range s.dims {
		b.WriteString("[" + d + "]")
	}
	return b.String()
}

var dimValues = []string{"", "", "", "0", "1", "2", "3", "7", "10", "16", "32", "255", "256", "1000", "65535", "65536", "2147483647"}

func genDims(rt *rapid.T, label string) []string {
	k := rapid.SampledFrom([]int{0, 0, 0, 1, 1, 1, 2, 2, 3}).Draw(rt, label+".ndims")
	dims := make([]string, k)
	for i := range dims {
		dims[i] = rapid.SampledFrom(dimValues).Draw(rt, fmt.Sprintf("%s.dim%d", label, i))
	}
	return dims
}

func genElem(rt *rapid.T, label string) spelled {
	s := spelled{}
	switch rapid.IntRange(0, 13).Draw(rt, label+".base") {
	case 0, 1:
		s.base = "uint"
		s.size = fmt.Sprint(8 * rapid.IntRange(1, 32).Draw(rt, label+".w"))
	case 2:
		s.base = "int"
		s.size = fmt.Sprint(8 * rapid.IntRange(1, 32).Draw(rt, label+".w"))
	case 3:
		s.base = rapid.SampledFrom([]string{"uint", "int", "fixed", "ufixed"}).Draw(rt, label+".alias")
	case 4, 5:
		s.base = "bytes"
		s.size = fmt.Sprint(rapid.IntRange(1, 32).Draw(rt, label+".b"))
	case 6:
		s.base = "bytes"
	case 7:
		s.base = "address"
	case 8:
		s.base = "bool"
	case 9:
		s.base = "string"
	case 10:
		s.base = "function"
	default:
		s.base = rapid.SampledFrom([]string{"fixed", "ufixed"}).Draw(rt, label+".fx")
		m := 8 * rapid.IntRange(1, 32).Draw(rt, label+".m")
		n := rapid.OneOf(rapid.IntRange(1, 80), rapid.SampledFrom([]int{1, 18, 79, 80})).Draw(rt, label+".n")
		s.size = fmt.Sprintf("%dx%d", m, n)
	}
	return s
}

// site is one type string inside a definition tree (for mutation).
type site struct {
	path []int
	sp   spelled
}

type built struct {
	param typeref.Param
	sites []site
}

// genValid draws a valid definition and remembers how every type string in it was spelled.
func genValid(rt *rapid.T, label string, depth int, path []int, b *built) typeref.Param {
	var sp spelled
	var p typeref.Param
	if depth > 0 && rapid.IntRange(0, 9).Draw(rt, label+".tuple") < 3 {
		sp = spelled{base: "tuple"}
		n := rapid.IntRange(1, 3).Draw(rt, label+".members")
		for i := 0; i < n; i++ {
			p.Components = append(p.Components, genValid(rt, fmt.Sprintf("%s.%d", label, i), depth-1, append(append([]int{}, path...), i), b))
		}
	} else {
		sp = genElem(rt, label)
	}
	sp.dims = genDims(rt, label)
	p.Type = sp.String()
	b.sites = append(b.sites, site{path: append([]int{}, path...), sp: sp})
	return p
}

func setAt(p *typeref.Param, path []int, s string) {
	cur := p
	for _, i := range path {
		cur = &cur.Components[i]
	}
	cur.Type = s
}

var uintSizes = []string{"0", "7", "8", "256", "264", "65536", "1", "9", "16", "255", "257", "248", "512", "65535", "65544", "4294967304", "18446744073709551624", "99999999999999999999999999999999"}
var bytesSizes = []string{"0", "33", "1", "32", "31", "64", "256", "264", "65536", "65537", "4294967297", "18446744073709551617"}
var fixedM = []string{"0", "7", "8", "128", "256", "264", "65536", "65544", "9", "512"}
var fixedN = []string{"0", "1", "18", "80", "81", "256", "65536", "65554", "79", "100"}
var bareSizes = []string{"8", "160", "256", "24", "32", "0", "1", "128x18", "256x1"}
var tupleSuffixes = []string{"256", "8", "0", "(uint256)", "()", "(", ")", " x", " ", "x", "8x1", "s", "_", ",", ".", "-", "\t", "tuple", "\u00a0"}
var badDims = []string{"-1", "+1", "-0", "2147483648", "4294967295", "4294967296", "18446744073709551616", "99999999999999999999999999",
	"x", "1x", "x1", "0x1", "0b1", "0o1", "1e1", "1_0", " ", "1 ", " 1", "1.0", "1,2", "١", "１", "a", "[", "]", "[]", "1][", "\n", "1\n", "*", "n"}
var insertables = []string{" ", "\t", "\n", "\r", "\u00a0", "\u2003", "\ufeff", "\u200b", "\x00"}
var alphabet = []rune("abcdefghijklmnopqrstuvwxyz0123456789[]x(), -+_ABCXUINT")

func numericRuns(s string) [][2]int {
	var out [][2]int
	i := 0
	for i < len(s) {
		if s[i] >= '0' && s[i] <= '9' {
			j := i
			for j < len(s) && s[j] >= '0' && s[j] <= '9' {
				j++
			}
			out = append(out, [2]int{i, j})
			i = j
		} else {
			i++
		}
	}
	return out
}

// mutate applies one edit of the kinds named in the property's quantifier.
func mutate(rt *rapid.T, sp spelled) (string, string) {
	s := sp.String()
	op := rapid.IntRange(0, 13).Draw(rt, "op")
	ensureDim := func() spelled {
		c := sp
		c.dims = append([]string{}, sp.dims...)
		if len(c.dims) == 0 {
			c.dims = []string{rapid.SampledFrom([]string{"", "1", "3"}).Draw(rt, "newdim")}
		}
		return c
	}
	switch op {
	case 0: // width / size replaced
		c := sp
		switch sp.base {
		case "uint", "int":
			c.size = rapid.SampledFrom(uintSizes).Draw(rt, "size")
		case "bytes":
			c.size = rapid.SampledFrom(bytesSizes).Draw(rt, "size")
		case "fixed", "ufixed":
			switch rapid.IntRange(0, 3).Draw(rt, "fxmode") {
			case 0:
				c.size = rapid.SampledFrom(fixedM).Draw(rt, "m") + "x" + rapid.SampledFrom(fixedN).Draw(rt, "n")
			case 1:
				c.size = "128x" + rapid.SampledFrom(fixedN).Draw(rt, "n")
			case 2:
				c.size = rapid.SampledFrom(fixedM).Draw(rt, "m") + "x18"
			default:
				c.size = rapid.SampledFrom([]string{"128", "128x", "x18", "x", "128X18", "128x18x18", "128x18x", "128xx18", "128*18", "18x128", "128x-1", "128 x18"}).Draw(rt, "fxbroken")
			}
		case "tuple":
			c.size = rapid.SampledFrom(tupleSuffixes).Draw(rt, "tsuffix")
		default:
			c.size = rapid.SampledFrom(bareSizes).Draw(rt, "size")
		}
		return c.String(), "size:" + sp.base
	case 1, 2: // leading zeros / signs on a numeric run
		c := sp
		if c.size == "" && len(numericRuns(s)) == 0 {
			c = ensureDim()
			c.dims[0] = "2"
		}
		s = c.String()
		runs := numericRuns(s)
		if len(runs) == 0 {
			return "0" + s, "leading-zero"
		}
		r := runs[rapid.IntRange(0, len(runs)-1).Draw(rt, "run")]
		if op == 1 {
			z := rapid.SampledFrom([]string{"0", "00", "000000000000000000000000000"}).Draw(rt, "zeros")
			return s[:r[0]] + z + s[r[0]:], "leading-zero"
		}
		sign := rapid.SampledFrom([]string{"+", "-"}).Draw(rt, "sign")
		return s[:r[0]] + sign + s[r[0]:], "sign"
	case 3: // whitespace, inner or outer
		at := rapid.IntRange(0, len(s)).Draw(rt, "at")
		return s[:at] + rapid.SampledFrom(insertables).Draw(rt, "ws") + s[at:], "whitespace"
	case 4: // upper case
		if rapid.Bool().Draw(rt, "all") {
			return strings.ToUpper(s), "upper-case"
		}
		at := rapid.IntRange(0, len(s)-1).Draw(rt, "at")
		return s[:at] + strings.ToUpper(s[at:at+1]) + s[at+1:], "upper-case"
	case 5: // unbalanced brackets
		c := ensureDim()
		s = c.String()
		switch rapid.IntRange(0, 3).Draw(rt, "how") {
		case 0: // drop one bracket
			var idx []int
			for i := range s {
				if s[i] == '[' || s[i] == ']' {
					idx = append(idx, i)
				}
			}
			at := rapid.SampledFrom(idx).Draw(rt, "drop")
			return s[:at] + s[at+1:], "unbalanced"
		case 1: // extra bracket anywhere
			at := rapid.IntRange(0, len(s)).Draw(rt, "at")
			return s[:at] + rapid.SampledFrom([]string{"[", "]"}).Draw(rt, "br") + s[at:], "unbalanced"
		case 2:
			return s + rapid.SampledFrom([]string{"[", "]", "][", "[[]", "[]]", "[1", "1]", "[[1]]"}).Draw(rt, "tail"), "unbalanced"
		default: // brackets before the base
			return "[]" + s, "unbalanced"
		}
	case 6, 7: // negative, huge, non-numeric dimension
		c := ensureDim()
		i := rapid.IntRange(0, len(c.dims)-1).Draw(rt, "dimidx")
		c.dims[i] = rapid.SampledFrom(badDims).Draw(rt, "baddim")
		return c.String(), "dimension"
	case 8: // suffix on a suffix-less type, or a letter glued to the keyword
		c := sp
		switch sp.base {
		case "address", "bool", "string", "function":
			c.size = rapid.SampledFrom(bareSizes).Draw(rt, "size")
		case "tuple":
			c.size = rapid.SampledFrom(tupleSuffixes).Draw(rt, "tsuffix")
		default:
			c.base = sp.base + rapid.SampledFrom([]string{"s", "x", "t", "_", "e"}).Draw(rt, "glue")
		}
		return c.String(), "suffix:" + sp.base
	case 9: // delete one character
		at := rapid.IntRange(0, len(s)-1).Draw(rt, "at")
		return s[:at] + s[at+1:], "delete-char"
	case 10: // insert one character
		at := rapid.IntRange(0, len(s)).Draw(rt, "at")
		return s[:at] + string(rapid.SampledFrom(alphabet).Draw(rt, "ch")) + s[at:], "insert-char"
	case 11: // replace one character
		at := rapid.IntRange(0, len(s)-1).Draw(rt, "at")
		return s[:at] + string(rapid.SampledFrom(alphabet).Draw(rt, "ch")) + s[at+1:], "replace-char"
	case 12: // transpose neighbours / truncate
		if len(s) >= 2 && rapid.Bool().Draw(rt, "swap") {
			at := rapid.IntRange(0, len(s)-2).Draw(rt, "at")
			return s[:at] + s[at+1:at+2] + s[at:at+1] + s[at+2:], "transpose"
		}
		return s[:rapid.IntRange(0, len(s)-1).Draw(rt, "cut")], "truncate"
	default: // two types glued together
		other := genElem(rt, "other").String()
		return s + rapid.SampledFrom([]string{",", "", " ", "x", ")(", "|"}).Draw(rt, "glue") + other, "glued"
	}
}

var unicodeExtras = []rune("\uff10\uff11\uff12\uff15\uff16\uff18\u0660\u0661\u0662\u0665\u0666\u0668\uff55\uff49\uff4e\uff54\u0131\u017f\u212a\u00b5\u00a0\u200b\u2003\ufeff\u0000\u0130\u00e9\u5b57\U0001d7d6\U0001d7d0\U0001d7d3\U0001d7d4\U0001F600[]x(),")

func genUnicode(rt *rapid.T) string {
	switch rapid.IntRange(0, 3).Draw(rt, "umode") {
	case 0:
		return rapid.String().Draw(rt, "any")
	case 1:
		kw := rapid.SampledFrom(typeref.Keywords).Draw(rt, "kw")
		return kw + rapid.StringOfN(rapid.OneOf(rapid.SampledFrom(unicodeExtras), rapid.Rune()), 0, 6, -1).Draw(rt, "tail")
	case 2:
		kw := rapid.SampledFrom(typeref.Keywords).Draw(rt, "kw")
		return rapid.StringOfN(rapid.OneOf(rapid.SampledFrom(unicodeExtras), rapid.Rune()), 1, 3, -1).Draw(rt, "head") + kw +
			rapid.SampledFrom([]string{"", "8", "256", "[]", "128x18"}).Draw(rt, "tail")
	default:
		// a valid spelling with one rune replaced by a look-alike or arbitrary rune
		s := []rune(genElem(rt, "e").String() + rapid.SampledFrom([]string{"", "[]", "[2]"}).Draw(rt, "arr"))
		at := rapid.IntRange(0, len(s)-1).Draw(rt, "at")
		s[at] = rapid.OneOf(rapid.SampledFrom(unicodeExtras), rapid.Rune()).Draw(rt, "r")
		return string(s)
	}
}

// ---------------------------------------------------------------------------
// bounded exhaustive enumeration around the keywords

var sweepAlphabet = []byte("01235 68x[]-") // digits able to spell 8 16 32 128 256 and their zero-padded forms, x, brackets, blank, sign

func sweepParam(kw, s string) typeref.Param {
	p := typeref.Param{Type: s}
	if strings.HasPrefix(s, "tuple") || kw == "tuple" {
		p.Components = []typeref.Param{{Type: "uint256"}}
	}
	return p
}

// ---------------------------------------------------------------------------

func TestCheck(t *testing.T) {
	rec := evid.Start("C13", rule)
	defer rec.Finish()
	rec.Assume("reference: ref/typeref (Solidity ABI specification type grammar; whole-string white-list match + arithmetic range checks, written independently of pkg/abi)")
	rec.Assume("not asserted (reference verdict 'unspecified'): array dimensions written with leading zeros or >= 2^31, tuple with zero components, components supplied for a non-tuple type")
	rec.Assume("idempotence is checked on the spelling the library itself renders, re-packed as a parameter definition (tuple + dimensions + components) because a parenthesised list is not a JSON-ABI type string")
	k := evid.NewKind(rec, "type", judgeType)
	kReval := evid.NewKind(rec, "revalidate", judgeReval)
	rec.Corpus(t)

	t.Run("exhaustive", func(t *testing.T) {
		maxLen := 4
		if rec.Thorough() {
			maxLen = 6
			if rec.Scale < 1 {
				maxLen = 5
			}
		}
		var n, nt, fails, idx int64
		counts := map[string]int64{}
		visit := func(kw, s string) {
			idx++
			if rec.Shards > 1 && int(idx%int64(rec.Shards)) != rec.Shard {
				return
			}
			p := sweepParam(kw, s)
			o := judgeParamMode(p, false)
			n++
			if nonTrivial(p, o) {
				nt++
			}
			counts["sweep:ref:"+o.verdict.String()]++
			if o.accepted {
				counts["sweep:lib:accepted"]++
			}
			if len(o.vs) > 0 {
				fails++
				if fails <= 3 {
					k.Fail(t, TypeCase{Param: fromRef(p)}, o.vs)
				}
			}
		}
		buf := make([]byte, 0, 8)
		var rec2 func(kw string, remaining int)
		rec2 = func(kw string, remaining int) {
			visit(kw, kw+string(buf))
			if remaining == 0 {
				return
			}
			for _, ch := range sweepAlphabet {
				buf = append(buf, ch)
				rec2(kw, remaining-1)
				buf = buf[:len(buf)-1]
			}
		}
		for _, kw := range typeref.Keywords {
			rec2(kw, maxLen)
		}
		// every printable-ASCII string of <= 2 characters before a keyword (one character: with typical tails)
		for _, kw := range typeref.Keywords {
			for a := 0x20; a < 0x7f; a++ {
				for _, tail := range []string{"", "8", "256", "[]", "128x18"} {
					visit(kw, string(rune(a))+kw+tail)
				}
				for b := 0x20; b < 0x7f; b++ {
					visit(kw, string(rune(a))+string(rune(b))+kw)
				}
			}
			// one printable character inserted at every position inside the keyword
			for at := 1; at < len(kw); at++ {
				for a := 0x20; a < 0x7f; a++ {
					visit(kw, kw[:at]+string(rune(a))+kw[at:])
					visit(kw, kw[:at]+string(rune(a))+kw[at:]+"8")
				}
			}
		}
		// every decimal size 0..70000 (and zero-padded) on the sized bases
		for m := 0; m <= 70000; m++ {
			for _, kw := range []string{"uint", "int", "bytes"} {
				visit(kw, fmt.Sprintf("%s%d", kw, m))
				if m <= 300 {
					visit(kw, fmt.Sprintf("%s0%d", kw, m))
					visit(kw, fmt.Sprintf("%s%d[%d]", kw, m, m))
				}
			}
		}
		for m := 0; m <= 272; m++ {
			for nn := 0; nn <= 90; nn++ {
				for _, kw := range []string{"fixed", "ufixed"} {
					visit(kw, fmt.Sprintf("%s%dx%d", kw, m, nn))
					if m%8 == 0 {
						visit(kw, fmt.Sprintf("%s0%dx%d", kw, m, nn))
						visit(kw, fmt.Sprintf("%s%dx0%d", kw, m, nn))
					}
				}
			}
		}
		for cl, c := range counts {
			rec.AddExtraCount(cl, c)
		}
		sample := TypeCase{Param: P{Type: "uint0256"}}
		k.Bulk(n, nt, true, fmt.Sprintf("exhaustive:keyword+<=%d", maxLen), &sample)
	})

	rec.Rapid(t, "grammar", rec.N(4000, 60000), func(rt *rapid.T) {
		b := &built{}
		p := genValid(rt, "t", 3, nil, b)
		oc := judgeParam(p)
		k.Check(rt, TypeCase{Param: fromRef(p)}, nonTrivial(p, oc), classes(oc, "gen:grammar")...)
	})

	rec.Rapid(t, "mutants", rec.N(10000, 160000), func(rt *rapid.T) {
		b := &built{}
		p := genValid(rt, "t", 2, nil, b)
		st := b.sites[rapid.IntRange(0, len(b.sites)-1).Draw(rt, "site")]
		ms, op := mutate(rt, st.sp)
		setAt(&p, st.path, ms)
		oc := judgeParam(p)
		cl := []string{"gen:mutant", "mutant:" + op}
		if len(st.path) > 0 {
			cl = append(cl, "mutant:in-component")
		}
		k.Check(rt, TypeCase{Param: fromRef(p)}, nonTrivial(p, oc), classes(oc, cl...)...)
	})

	rec.Rapid(t, "unicode", rec.N(4000, 50000), func(rt *rapid.T) {
		s := genUnicode(rt)
		p := typeref.Param{Type: s}
		if rapid.IntRange(0, 4).Draw(rt, "wrap") == 0 {
			p = typeref.Param{Type: "tuple", Components: []typeref.Param{{Type: "bool"}, {Type: s}}}
		}
		oc := judgeParam(p)
		k.Check(rt, TypeCase{Param: fromRef(p)}, nonTrivial(p, oc), classes(oc, "gen:unicode")...)
	})

	rec.Rapid(t, "revalidate", rec.N(4000, 40000), revalProp(kReval))

	rec.Rapid(t, "alphabet", rec.N(3000, 40000), func(rt *rapid.T) {
		// free strings over the type alphabet, usually started by a keyword
		s := rapid.StringOfN(rapid.SampledFrom(alphabet), 0, 24, -1).Draw(rt, "s")
		if rapid.IntRange(0, 3).Draw(rt, "kw?") > 0 {
			s = rapid.SampledFrom(typeref.Keywords).Draw(rt, "kw") + s
			if len(s) > 24 {
				s = s[:24]
			}
		}
		p := sweepParam("", s)
		oc := judgeParam(p)
		k.Check(rt, TypeCase{Param: fromRef(p)}, nonTrivial(p, oc), classes(oc, "gen:alphabet")...)
	})
}

func TestReplay(t *testing.T) {
	rec := evid.Start("C13", rule)
	evid.NewKind(rec, "type", judgeType)
	evid.NewKind(rec, "revalidate", judgeReval)
	rec.Replay(t)
}

// FuzzType is the coverage-guided target (thorough tier only): two raw strings,
// the type and (when non-empty) the type of a single component.
func FuzzType(f *testing.F) {
	for _, s := range []string{"uint256", "uint", "int8", "bytes32", "bytes", "fixed128x18", "ufixed", "address", "bool", "string", "function",
		"uint256[8][][16]", "string[2]", "uint0256", "bytes032", "fixed0128x018", "uint256[", "uint256[]]", "uint256[0f]", "uint-1", "uint{}",
		"fixed128x", "fixed0fx1", "address256", "lobster", "", " ", "uint256[4294967296]", "uint256[01]", "UINT256", "uint256\n"} {
		f.Add(s, "")
	}
	for _, s := range []string{"tuple", "tuple[]", "tuple[2][]", "tuple256", "tuple(uint256)", "tuple x[]", "tuple["} {
		f.Add(s, "uint256")
		f.Add(s, "tuple")
		f.Add("tuple", s)
	}
	rec := evid.Start("C13", rule)
	k := evid.NewKind(rec, "type", judgeType)
	f.Fuzz(func(t *testing.T, typ string, comp string) {
		if len(typ) > 4096 || len(comp) > 4096 {
			return
		}
		p := typeref.Param{Type: typ}
		if comp != "" {
			p.Components = []typeref.Param{{Type: comp}}
			if strings.HasPrefix(comp, "tuple") {
				p.Components[0].Components = []typeref.Param{{Type: "bytes3"}}
			}
		}
		if o := judgeParam(p); len(o.vs) > 0 {
			k.Fail(t, TypeCase{Param: fromRef(p)}, o.vs)
		}
	})
}
