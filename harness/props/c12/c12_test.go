// Package c12 decides property C12: signature strings, function/error selectors and event
// topics identify exactly the right ABI entry.
//
// A case is one ABI entry (function, event incl. anonymous, or error) with 0..8 parameters of
// any type tree — aliases uint/int/fixed/ufixed, nested tuples and arrays, indexed flags — its
// argument values, a second entry (independent or a near miss of the first) and, for errors,
// the other definitions of the ABI.  Everything the library is compared with is computed by
// the independent reference ref/abiref: canonical signature, Keccak selector / topic, call
// data, event topics and data.
//
//	signature        Entry.Signature() == name(canonical types): aliases expanded, tuples parenthesised
//	selector / topic FunctionSelectorBytes == keccak256(sig)[:4]; SignatureHashBytes == keccak256(sig)
//	call-encode      EncodeCallDataJSON(args) == selector ‖ reference encoding
//	call-decode      DecodeCallData(own call data) returns the arguments; data under any other selector is refused
//	event-decode     indexed integer/address/bool values come from their topics, every other indexed value is the raw
//	                 32-byte topic, the rest comes from data at the original positions
//	event-refuse     a foreign signature topic or too few topics is refused
//	error-lookup     ParseError returns the definition (or built-in Error(string)) whose selector the data carries,
//	                 with the decoded arguments; unknown selectors and selectors of non-error entries are not found;
//	                 ErrorString names the error
package c12

import (
	"bytes"
	"encoding/hex"
	"encoding/json"
	"fmt"
	"math/big"
	"strings"
	"testing"

	"github.com/hyperledger/firefly-signer/pkg/abi"
	"github.com/hyperledger/firefly-signer/pkg/ethtypes"
	"github.com/sirupsen/logrus"
	"pgregory.net/rapid"

	"verifharness/evid"
	"verifharness/gen/abigen"
	"verifharness/gen/abigen/abilib"
	"verifharness/ref/abiref"
)

const rule = "a case is non-trivial when its entry has a tuple or array parameter or an alias spelling (uint, int, fixed, ufixed), or is an event mixing indexed and " +
	"non-indexed parameters, or is an error looked up in an ABI with at least two error definitions; distinct by hash of the case"

// Def is one ABI entry.
type Def struct {
	Kind      string `json:"kind"`                // function | event | error
	Name      string `json:"name"`                //
	Decl      string `json:"decl"`                // abiref declaration of the parameters incl. names, alias spellings and indexed flags
	Anonymous bool   `json:"anonymous,omitempty"` // events
}

// Case is one entry with its arguments and its surroundings.
type Case struct {
	Def           Def             `json:"def"`
	Args          json.RawMessage `json:"args"`                    // abiref.ValueJSON of the argument tuple
	InternalTypes bool            `json:"internalTypes,omitempty"` // emit internalType in the ABI JSON
	Other         *Def            `json:"other,omitempty"`         // a second entry (cross-rejection; for errors: also placed in the ABI)
	OtherArgs     json.RawMessage `json:"otherArgs,omitempty"`     //
	Errors        []Def           `json:"errors,omitempty"`        // error cases: the other error definitions of the ABI
	Index         int             `json:"index,omitempty"`         // error cases: position of Def among Errors
	Reason        string          `json:"reason,omitempty"`        // error cases: message for the built-in Error(string) clause
}

type entry struct {
	def  Def
	ty   *abiref.Type
	e    *abi.Entry
	sig  string
	args abiref.Value
}

func entryJSON(d Def, ty *abiref.Type, internalTypes bool) []byte {
	m := map[string]interface{}{
		"type":   d.Kind,
		"name":   d.Name,
		"inputs": json.RawMessage(abigen.ParamsJSON(ty, internalTypes)),
	}
	if d.Kind == "event" && d.Anonymous {
		m["anonymous"] = true
	}
	if d.Kind == "function" {
		m["outputs"] = []interface{}{}
		m["stateMutability"] = "nonpayable"
	}
	b, err := json.Marshal(m)
	if err != nil {
		panic(err)
	}
	return b
}

func load(d Def, args json.RawMessage, internalTypes bool) (*entry, error) {
	ty, err := abiref.ParseDecl(d.Decl)
	if err != nil {
		return nil, err
	}
	if ty.Kind != abiref.Tuple {
		return nil, fmt.Errorf("the parameter list must be a tuple")
	}
	switch d.Kind {
	case "function", "event", "error":
	default:
		return nil, fmt.Errorf("unknown entry kind %q", d.Kind)
	}
	en := &entry{def: d, ty: ty, sig: abiref.Signature(d.Name, ty)}
	var e abi.Entry
	if err := json.Unmarshal(entryJSON(d, ty, internalTypes), &e); err != nil {
		return nil, err
	}
	en.e = &e
	if args != nil {
		if en.args, err = abiref.ValueFromJSON(ty, args); err != nil {
			return nil, err
		}
		if err := abiref.Check(ty, en.args); err != nil {
			return nil, err
		}
	}
	return en, nil
}

// matchValue compares a value tree returned by the library with the reference value.
func matchValue(t *abiref.Type, v abiref.Value, cv *abi.ComponentValue, path string) error {
	if cv == nil {
		return fmt.Errorf("%s: missing", path)
	}
	bad := func(want interface{}) error {
		s := fmt.Sprintf("%v", cv.Value)
		if b, ok := cv.Value.([]byte); ok {
			s = "0x" + hex.EncodeToString(b)
		}
		if len(s) > 200 {
			s = s[:200] + "…"
		}
		return fmt.Errorf("%s (%s): got %s (%T), want %v", path, t.Canonical(), s, cv.Value, want)
	}
	switch t.Kind {
	case abiref.Uint, abiref.Int:
		i, ok := cv.Value.(*big.Int)
		if !ok || i.Cmp(v.Int) != 0 {
			return bad(v.Int)
		}
	case abiref.Address:
		i, ok := cv.Value.(*big.Int)
		if !ok || i.Cmp(new(big.Int).SetBytes(v.Bytes)) != 0 {
			return bad("0x" + hex.EncodeToString(v.Bytes))
		}
	case abiref.Bool:
		i, ok := cv.Value.(*big.Int)
		want := int64(0)
		if v.Bool {
			want = 1
		}
		if !ok || i.Cmp(big.NewInt(want)) != 0 {
			return bad(v.Bool)
		}
	case abiref.Fixed, abiref.Ufixed:
		f, ok := cv.Value.(*big.Float)
		if !ok {
			return bad(v.Int)
		}
		r, _ := f.Rat(nil)
		if r == nil || r.Mul(r, new(big.Rat).SetInt(abiref.Pow10(t.N))).Cmp(new(big.Rat).SetInt(v.Int)) != 0 {
			return bad(abiref.DecimalString(t, v))
		}
	case abiref.FixedBytes, abiref.Function, abiref.Bytes:
		b, ok := cv.Value.([]byte)
		if !ok || !bytes.Equal(b, v.Bytes) {
			return bad("0x" + hex.EncodeToString(v.Bytes))
		}
	case abiref.String:
		s, ok := cv.Value.(string)
		if !ok || s != v.Str {
			return bad(fmt.Sprintf("%q", v.Str))
		}
	case abiref.Array, abiref.Slice:
		if len(cv.Children) != len(v.Elems) {
			return fmt.Errorf("%s (%s): %d elements, want %d", path, t.Canonical(), len(cv.Children), len(v.Elems))
		}
		for i := range v.Elems {
			if err := matchValue(t.Elem, v.Elems[i], cv.Children[i], fmt.Sprintf("%s[%d]", path, i)); err != nil {
				return err
			}
		}
	case abiref.Tuple:
		if len(cv.Children) != len(t.Members) {
			return fmt.Errorf("%s (%s): %d members, want %d", path, t.Canonical(), len(cv.Children), len(t.Members))
		}
		for i := range t.Members {
			if err := matchValue(t.Members[i].Type, v.Elems[i], cv.Children[i], fmt.Sprintf("%s.%d", path, i)); err != nil {
				return err
			}
		}
	}
	return nil
}

func flip(b []byte, i int) []byte {
	out := append([]byte{}, b...)
	out[i] ^= 0x01
	return out
}

func clip(s string) string {
	if len(s) > 300 {
		return s[:300] + "…"
	}
	return s
}

// judgeIdentity: signature string, selector and topic hash.
func judgeIdentity(en *entry) (vs []evid.Violation) {
	sig, err := en.e.Signature()
	if err != nil {
		return append(vs, evid.V("signature", "%s %s: Signature() failed: %v", en.def.Kind, en.def.Decl, err))
	}
	if sig != en.sig {
		vs = append(vs, evid.V("signature", "%s %s%s: Signature() = %q, canonical form is %q", en.def.Kind, en.def.Name, en.def.Decl, sig, en.sig))
	}
	h := abiref.Hash([]byte(en.sig))
	if got := en.e.FunctionSelectorBytes(); !bytes.Equal(got, h[:4]) {
		vs = append(vs, evid.V("selector", "%s: FunctionSelectorBytes = %x, first four bytes of keccak256 are %x", en.sig, []byte(got), h[:4]))
	}
	if got, err := en.e.GenerateFunctionSelector(); err != nil || !bytes.Equal(got, h[:4]) {
		vs = append(vs, evid.V("selector", "%s: GenerateFunctionSelector = %x (%v), first four bytes of keccak256 are %x", en.sig, got, err, h[:4]))
	}
	if got := en.e.SignatureHashBytes(); !bytes.Equal(got, h) {
		vs = append(vs, evid.V("topic", "%s: SignatureHashBytes = %x, keccak256 is %x", en.sig, []byte(got), h))
	}
	if got, err := en.e.SignatureHash(); err != nil || !bytes.Equal(got, h) {
		vs = append(vs, evid.V("topic", "%s: SignatureHash = %x (%v), keccak256 is %x", en.sig, []byte(got), err, h))
	}
	if len(vs) > 0 {
		return vs
	}
	// F1: the returned slices are the caller's: writing into them must not change later answers
	scribble(en.e.FunctionSelectorBytes())
	sel2, _ := en.e.GenerateFunctionSelector()
	scribble(sel2)
	scribble(en.e.SignatureHashBytes())
	h2, _ := en.e.SignatureHash()
	scribble(h2)
	if got := en.e.FunctionSelectorBytes(); !bytes.Equal(got, h[:4]) {
		vs = append(vs, evid.V("result-not-shared", "%s: after the caller wrote into previously returned selector/hash slices, FunctionSelectorBytes = %x, want %x", en.sig, []byte(got), h[:4]))
	}
	if got := en.e.SignatureHashBytes(); !bytes.Equal(got, h) {
		vs = append(vs, evid.V("result-not-shared", "%s: after the caller wrote into previously returned selector/hash slices, SignatureHashBytes = %x, want %x", en.sig, []byte(got), h))
	}
	if sig2, err := en.e.Signature(); err != nil || sig2 != en.sig {
		vs = append(vs, evid.V("result-not-shared", "%s: a second Signature() gives %q (%v)", en.sig, sig2, err))
	}
	return vs
}

func scribble(b []byte) {
	for i := range b {
		b[i] ^= 0xFF
	}
	_ = append(b, 0xEE, 0xEE)
}

// scribbleTree writes into everything mutable a decoded value tree hands out.
func scribbleTree(cv *abi.ComponentValue) {
	if cv == nil {
		return
	}
	switch x := cv.Value.(type) {
	case []byte:
		scribble(x)
	case *big.Int:
		if x != nil {
			x.SetInt64(-7)
		}
	case *big.Float:
		if x != nil {
			x.SetInt64(-7)
		}
	}
	for _, ch := range cv.Children {
		scribbleTree(ch)
	}
}

// ownedDecode runs one decode call on caller-owned buffers (F2). The call must not write to any
// of them (bufs and views). Not asserted: that the returned tree is independent of the buffers of
// the same call - a decoder handing out views of its input (as it does by design for the raw
// topics of indexed reference types) returns the right value, which is what C12 states; see
// DESIGN.md 7.4. The plain mismatch is returned to the caller as mismatch.
func ownedDecode(api string, bufs, views []*abilib.Owned, dec func() (*abi.ComponentValue, error), match func(*abi.ComponentValue) error) (err error, mismatch error, vs []evid.Violation) {
	var cv *abi.ComponentValue
	cv, err = dec()
	for _, o := range append(append([]*abilib.Owned{}, bufs...), views...) {
		if !o.Unchanged() {
			vs = append(vs, evid.V("input-not-written", "%s wrote to a caller-owned input buffer (or to the memory around it)", api))
			return
		}
	}
	if err != nil {
		return
	}
	if mismatch = match(cv); mismatch != nil {
		return
	}
	return
}

// judgeCall: call data of a function or error entry.
func judgeCall(en *entry, other *entry) (vs []evid.Violation) {
	enc, _, err := abiref.Enc(en.ty, en.args)
	if err != nil {
		return append(vs, evid.V("harness", "%v", err))
	}
	sel := abiref.Selector(en.sig)
	want := append(append([]byte{}, sel...), enc...)
	in, err := abigen.Canon(en.ty, en.args).JSON()
	if err != nil {
		return append(vs, evid.V("harness", "%v", err))
	}
	inOwned := abilib.NewOwned(in)
	got, err := en.e.EncodeCallDataJSON(inOwned.Bytes())
	if !inOwned.Unchanged() {
		vs = append(vs, evid.V("input-not-written", "%s: EncodeCallDataJSON wrote to the caller's JSON text buffer", en.sig))
	}
	if err != nil {
		vs = append(vs, evid.V("call-encode", "%s: EncodeCallDataJSON(%s) failed: %v", en.sig, clip(string(in)), err))
	} else if !bytes.Equal(got, want) {
		vs = append(vs, evid.V("call-encode", "%s: EncodeCallDataJSON(%s) = %s, selector ‖ reference encoding is %s", en.sig, clip(string(in)), clip(hex.EncodeToString(got)), clip(hex.EncodeToString(want))))
	}
	if got, err := en.e.EncodeCallDataValues(abigen.Canon(en.ty, en.args).Go()); err != nil {
		vs = append(vs, evid.V("call-encode", "%s: EncodeCallDataValues(%s) failed: %v", en.sig, clip(string(in)), err))
	} else if !bytes.Equal(got, want) {
		vs = append(vs, evid.V("call-encode", "%s: EncodeCallDataValues(%s) = %s, selector ‖ reference encoding is %s", en.sig, clip(string(in)), clip(hex.EncodeToString(got)), clip(hex.EncodeToString(want))))
	}
	own := abilib.NewOwned(want)
	err, mismatch, extra := ownedDecode("DecodeCallData", []*abilib.Owned{own}, nil,
		func() (*abi.ComponentValue, error) { return en.e.DecodeCallData(own.Bytes()) },
		func(cv *abi.ComponentValue) error { return matchValue(en.ty, en.args, cv, "") })
	if err != nil {
		vs = append(vs, evid.V("call-decode", "%s: DecodeCallData of its own call data %s failed: %v", en.sig, clip(hex.EncodeToString(want)), err))
	} else if mismatch != nil {
		vs = append(vs, evid.V("call-decode", "%s: DecodeCallData of %s returned other arguments: %v", en.sig, clip(hex.EncodeToString(want)), mismatch))
	}
	vs = append(vs, extra...)
	// the same arguments under a selector that differs in one bit (first and last byte)
	for _, i := range []int{0, 3} {
		foreign := append(flip(sel, i), enc...)
		if _, err := en.e.DecodeCallData(foreign); err == nil {
			vs = append(vs, evid.V("call-foreign-selector", "%s (selector %x): DecodeCallData accepted data that starts with %x", en.sig, sel, foreign[:4]))
		}
	}
	for _, short := range [][]byte{nil, sel[:3]} {
		if _, err := en.e.DecodeCallData(short); err == nil {
			vs = append(vs, evid.V("call-foreign-selector", "%s: DecodeCallData accepted %d bytes", en.sig, len(short)))
		}
	}
	// the call data of any other distinct entry
	if other != nil && other.def.Kind != "event" {
		osel := abiref.Selector(other.sig)
		if !bytes.Equal(osel, sel) {
			oenc, _, err := abiref.Enc(other.ty, other.args)
			if err != nil {
				return append(vs, evid.V("harness", "%v", err))
			}
			if _, err := en.e.DecodeCallData(append(append([]byte{}, osel...), oenc...)); err == nil {
				vs = append(vs, evid.V("call-foreign-selector", "%s (selector %x) decoded the call data of %s (selector %x)", en.sig, sel, other.sig, osel))
			}
			if _, err := other.e.DecodeCallData(append([]byte{}, want...)); err == nil {
				vs = append(vs, evid.V("call-foreign-selector", "%s (selector %x) decoded the call data of %s (selector %x)", other.sig, osel, en.sig, sel))
			}
			// the other selector in front of this entry's own arguments
			if _, err := en.e.DecodeCallData(append(append([]byte{}, osel...), enc...)); err == nil {
				vs = append(vs, evid.V("call-foreign-selector", "%s (selector %x) decoded its arguments under the selector %x of %s", en.sig, sel, osel, other.sig))
			}
		} else if other.sig != en.sig {
			vs = append(vs, evid.V("harness", "selector collision between %s and %s", en.sig, other.sig))
		}
	}
	return vs
}

func isValueIndexed(t *abiref.Type) bool {
	switch t.Kind {
	case abiref.Uint, abiref.Int, abiref.Address, abiref.Bool:
		return true
	}
	return false
}

// notAssertedIndexed: indexed function / fixed / ufixed parameters are decoded from the topic by the
// library instead of being surfaced raw; the design leaves that unasserted.
func notAssertedIndexed(t *abiref.Type) bool {
	switch t.Kind {
	case abiref.Function, abiref.Fixed, abiref.Ufixed:
		return true
	}
	return false
}

func toTopics(ts [][]byte) []ethtypes.HexBytes0xPrefix {
	out := make([]ethtypes.HexBytes0xPrefix, len(ts))
	for i := range ts {
		out[i] = append(ethtypes.HexBytes0xPrefix{}, ts[i]...)
	}
	return out
}

func topicsString(ts [][]byte) string {
	var parts []string
	for _, t := range ts {
		parts = append(parts, hex.EncodeToString(t))
	}
	return "[" + strings.Join(parts, ",") + "]"
}

// judgeEvent: decoding of a log built by the reference, and refusal of foreign / short topic lists.
func judgeEvent(en *entry, other *entry) (vs []evid.Violation) {
	topics, data, err := abiref.EventLog(en.def.Name, en.ty, en.args, en.def.Anonymous)
	if err != nil {
		return append(vs, evid.V("harness", "%v", err))
	}
	nIndexed := 0
	for _, m := range en.ty.Members {
		if m.Indexed {
			nIndexed++
			if notAssertedIndexed(m.Type) {
				return append(vs, evid.V("harness", "indexed %s parameters are outside the asserted domain", m.Type.Canonical()))
			}
		}
	}
	what := fmt.Sprintf("event %s%s anonymous=%v topics=%s data=%s", en.def.Name, en.def.Decl, en.def.Anonymous, topicsString(topics), clip(hex.EncodeToString(data)))
	matchEvent := func(cv *abi.ComponentValue) (vs []evid.Violation) {
		if len(cv.Children) != len(en.ty.Members) {
			return append(vs, evid.V("event-decode", "%s: %d values returned for %d parameters", what, len(cv.Children), len(en.ty.Members)))
		}
		ti := 0
		if !en.def.Anonymous {
			ti = 1
		}
		for i, m := range en.ty.Members {
			ch := cv.Children[i]
			path := fmt.Sprintf("parameter %d", i)
			switch {
			case !m.Indexed:
				if err := matchValue(m.Type, en.args.Elems[i], ch, path); err != nil {
					vs = append(vs, evid.V("event-data-position", "%s: non-indexed %v", what, err))
				}
			case isValueIndexed(m.Type):
				if err := matchValue(m.Type, en.args.Elems[i], ch, path); err != nil {
					vs = append(vs, evid.V("event-indexed-value", "%s: indexed %v (topic %d)", what, err, ti))
				}
				ti++
			default:
				if ch == nil {
					vs = append(vs, evid.V("event-indexed-raw", "%s: %s missing", what, path))
				} else if b, ok := ch.Value.([]byte); !ok || !bytes.Equal(b, topics[ti]) || len(ch.Children) != 0 {
					vs = append(vs, evid.V("event-indexed-raw", "%s: indexed %s (%s) must be surfaced as the raw topic %x, got %v (%T)", what, path, m.Type.Canonical(), topics[ti], ch.Value, ch.Value))
				}
				ti++
			}
		}
		return vs
	}
	// the log is handed over in caller-owned buffers: every topic and the data
	// (the value surfaced for an indexed reference type may be a view of the caller's topic: by design, not asserted)
	ownedData := abilib.NewOwned(data)
	var views []*abilib.Owned
	ownedTopics := make([]ethtypes.HexBytes0xPrefix, len(topics))
	for i := range topics {
		o := abilib.NewOwned(topics[i])
		views = append(views, o)
		ownedTopics[i] = o.Bytes()
	}
	var plain []evid.Violation
	err, mismatch, extra := ownedDecode("DecodeEventData", []*abilib.Owned{ownedData}, views,
		func() (*abi.ComponentValue, error) { return en.e.DecodeEventData(ownedTopics, ownedData.Bytes()) },
		func(cv *abi.ComponentValue) error {
			if mv := matchEvent(cv); len(mv) > 0 {
				if plain == nil {
					plain = mv
				}
				return fmt.Errorf("%s: %s", mv[0].Clause, mv[0].Detail)
			}
			return nil
		})
	if err != nil {
		vs = append(vs, evid.V("event-decode", "%s: DecodeEventData failed: %v", what, err))
	} else if mismatch != nil {
		vs = append(vs, plain...)
	}
	vs = append(vs, extra...)
	// foreign signature topic
	if !en.def.Anonymous {
		var foreign [][]byte
		foreign = append(foreign, flip(topics[0], 0), flip(topics[0], 31))
		if other != nil && other.sig != en.sig {
			foreign = append(foreign, abiref.Topic(other.sig))
		}
		for _, f := range foreign {
			ts := append([][]byte{f}, topics[1:]...)
			if _, err := en.e.DecodeEventData(toTopics(ts), append([]byte{}, data...)); err == nil {
				vs = append(vs, evid.V("event-foreign-topic", "%s: accepted the signature topic %x (own: %x)", what, f, topics[0]))
			}
		}
	}
	// too few topics: every proper prefix of the topic list when at least one parameter is indexed
	if nIndexed > 0 {
		for n := 0; n < len(topics); n++ {
			if _, err := en.e.DecodeEventData(toTopics(topics[:n]), append([]byte{}, data...)); err == nil {
				vs = append(vs, evid.V("event-too-few-topics", "%s: accepted with only the first %d of %d topics", what, n, len(topics)))
			}
		}
	}
	// the log of another (distinct, non-anonymous) event definition
	if other != nil && other.def.Kind == "event" && !other.def.Anonymous && !en.def.Anonymous && other.sig != en.sig {
		ot, od, err := abiref.EventLog(other.def.Name, other.ty, other.args, false)
		if err != nil {
			return append(vs, evid.V("harness", "%v", err))
		}
		if _, err := en.e.DecodeEventData(toTopics(ot), od); err == nil {
			vs = append(vs, evid.V("event-foreign-topic", "%s decoded the log of %s", en.sig, other.sig))
		}
		if _, err := other.e.DecodeEventData(toTopics(topics), append([]byte{}, data...)); err == nil {
			vs = append(vs, evid.V("event-foreign-topic", "%s decoded the log of %s", other.sig, en.sig))
		}
	}
	return vs
}

var builtinErrorSelector = []byte{0x08, 0xc3, 0x79, 0xa0}

// judgeErrors: ParseError / ErrorString over an ABI with several definitions.
func judgeErrors(c *Case, en *entry, other *entry) (vs []evid.Violation) {
	var a abi.ABI
	sels := map[string]string{} // selector -> signature of the error definitions
	idx := c.Index
	if idx < 0 || idx > len(c.Errors) {
		return append(vs, evid.V("harness", "index out of range"))
	}
	var defs []*entry
	for i := 0; i <= len(c.Errors); i++ {
		if i == idx {
			defs = append(defs, en)
		}
		if i < len(c.Errors) {
			if c.Errors[i].Kind != "error" {
				return append(vs, evid.V("harness", "errors must be error definitions"))
			}
			o, err := load(c.Errors[i], nil, c.InternalTypes)
			if err != nil {
				return append(vs, evid.V("harness", "%v", err))
			}
			defs = append(defs, o)
		}
	}
	for _, d := range defs {
		s := string(abiref.Selector(d.sig))
		if prev, dup := sels[s]; dup && prev != d.sig {
			return append(vs, evid.V("harness", "selector collision"))
		}
		sels[s] = d.sig
		a = append(a, d.e)
	}
	if other != nil && other.def.Kind != "error" {
		// a function or event with its own selector sits in the same ABI: it is not an error definition
		a = append(abi.ABI{other.e}, a...)
	}
	// the ABI handed over is a SUB-SLICE of a longer array the caller owns (spare capacity holding two
	// more entries): a lookup must not write behind the end of the slice it was given
	sentinel := &abi.Entry{Type: abi.Function, Name: "verifSentinelBehindTheSlice"}
	backing := append(append(abi.ABI{}, a...), sentinel, sentinel)
	n := len(a)
	a = backing[:n]
	defer func() {
		if backing[n] != sentinel || backing[n+1] != sentinel {
			vs = append(vs, evid.V("caller-memory-unmodified", "a lookup on abi[:%d] overwrote the caller's entries behind the slice (entry %d is now %v)", n, n, backing[n]))
		}
	}()
	enc, _, err := abiref.Enc(en.ty, en.args)
	if err != nil {
		return append(vs, evid.V("harness", "%v", err))
	}
	sel := abiref.Selector(en.sig)
	revert := append(append([]byte{}, sel...), enc...)
	what := fmt.Sprintf("ABI with %d error definitions, revert data %s", len(defs), clip(hex.EncodeToString(revert)))
	builtinSig := "Error(string)"
	isBuiltin := bytes.Equal(sel, builtinErrorSelector)

	ownRevert := abilib.NewOwned(revert)
	var e *abi.Entry
	var ok bool
	perr, mismatch, extra := ownedDecode("ParseError", []*abilib.Owned{ownRevert}, nil,
		func() (*abi.ComponentValue, error) {
			var cv *abi.ComponentValue
			e, cv, ok = a.ParseError(ownRevert.Bytes())
			if !ok || e == nil {
				return nil, fmt.Errorf("not found")
			}
			if gotSig, _ := e.Signature(); gotSig != en.sig || e.Type != abi.Error {
				return nil, fmt.Errorf("attributed the data to %s %s", e.Type, gotSig)
			}
			return cv, nil
		},
		func(cv *abi.ComponentValue) error { return matchValue(en.ty, en.args, cv, "") })
	switch {
	case !ok || e == nil:
		vs = append(vs, evid.V("error-lookup", "%s: ParseError did not find %s (selector %x)", what, en.sig, sel))
	case perr != nil:
		vs = append(vs, evid.V("error-lookup", "%s: ParseError %v, the selector %x belongs to %s", what, perr, sel, en.sig))
	case mismatch != nil:
		vs = append(vs, evid.V("error-arguments", "%s: ParseError(%s) returned other arguments: %v", what, en.sig, mismatch))
	}
	vs = append(vs, extra...)
	s, sok := a.ErrorString(append([]byte{}, revert...))
	if !sok || !strings.HasPrefix(s, en.def.Name+"(") || !strings.HasSuffix(s, ")") {
		vs = append(vs, evid.V("error-string", "%s: ErrorString = %q, %v; want %s(…)", what, clip(s), sok, en.def.Name))
	}

	// unknown selectors: one bit away from the right one (unless that happens to be a defined one)
	for _, i := range []int{0, 3} {
		fs := flip(sel, i)
		if _, defined := sels[string(fs)]; defined || bytes.Equal(fs, builtinErrorSelector) {
			continue
		}
		data := append(fs, enc...)
		if e, _, ok := a.ParseError(data); ok {
			gotSig, _ := e.Signature()
			vs = append(vs, evid.V("error-unknown-selector", "%s: data with the undefined selector %x was attributed to %s", what, fs, gotSig))
		}
		if s, ok := a.ErrorString(data); ok {
			vs = append(vs, evid.V("error-unknown-selector", "%s: ErrorString for the undefined selector %x = %q", what, fs, clip(s)))
		}
	}
	for _, short := range [][]byte{nil, sel[:3]} {
		if _, _, ok := a.ParseError(short); ok {
			vs = append(vs, evid.V("error-unknown-selector", "%s: ParseError found an error in %d bytes", what, len(short)))
		}
	}
	// the selector of a function/event entry of the same ABI is not an error selector
	if other != nil && other.def.Kind != "error" {
		osel := abiref.Selector(other.sig)
		if _, defined := sels[string(osel)]; !defined && !bytes.Equal(osel, builtinErrorSelector) {
			oenc, _, err := abiref.Enc(other.ty, other.args)
			if err != nil {
				return append(vs, evid.V("harness", "%v", err))
			}
			if e, _, ok := a.ParseError(append(append([]byte{}, osel...), oenc...)); ok {
				gotSig, _ := e.Signature()
				vs = append(vs, evid.V("error-lookup", "%s: data carrying the selector of the %s %s was attributed to %s %s", what, other.def.Kind, other.sig, e.Type, gotSig))
			}
		}
	}
	// every other definition of the ABI is found by its own selector (arguments: zero values are enough here)
	for _, d := range defs {
		if d == en {
			continue
		}
		zv := zeroValue(d.ty)
		denc, _, err := abiref.Enc(d.ty, zv)
		if err != nil {
			return append(vs, evid.V("harness", "%v", err))
		}
		e, cv, ok := a.ParseError(append(append([]byte{}, abiref.Selector(d.sig)...), denc...))
		if !ok {
			vs = append(vs, evid.V("error-lookup", "%s: ParseError did not find %s", what, d.sig))
			continue
		}
		gotSig, _ := e.Signature()
		if gotSig != d.sig {
			vs = append(vs, evid.V("error-lookup", "%s: data for %s attributed to %s", what, d.sig, gotSig))
		} else if err := matchValue(d.ty, zv, cv, ""); err != nil {
			vs = append(vs, evid.V("error-arguments", "%s: ParseError(%s) returned other arguments: %v", what, d.sig, err))
		}
	}
	// the built-in Error(string)
	if !isBuiltin {
		st := abiref.TupleT(abiref.StringT())
		benc, _, _ := abiref.Enc(st, abiref.ListV(abiref.StrV(c.Reason)))
		data := append(append([]byte{}, builtinErrorSelector...), benc...)
		e, cv, ok := a.ParseError(data)
		if !ok || e == nil {
			vs = append(vs, evid.V("error-builtin", "%s: revert data of the built-in Error(string) %s was not found", what, clip(hex.EncodeToString(data))))
		} else {
			gotSig, _ := e.Signature()
			if gotSig != builtinSig {
				vs = append(vs, evid.V("error-builtin", "%s: Error(string) data attributed to %s", what, gotSig))
			} else if err := matchValue(st, abiref.ListV(abiref.StrV(c.Reason)), cv, ""); err != nil {
				vs = append(vs, evid.V("error-builtin", "%s: Error(string) arguments: %v", what, err))
			}
		}
		if s, ok := a.ErrorString(data); !ok || !strings.HasPrefix(s, "Error(") {
			vs = append(vs, evid.V("error-builtin", "%s: ErrorString for Error(%q) = %q, %v", what, c.Reason, clip(s), ok))
		}
	}
	return vs
}

func zeroValue(t *abiref.Type) abiref.Value {
	switch t.Kind {
	case abiref.Uint, abiref.Int, abiref.Fixed, abiref.Ufixed:
		return abiref.Int64V(0)
	case abiref.Address:
		return abiref.BytesV(make([]byte, 20))
	case abiref.FixedBytes:
		return abiref.BytesV(make([]byte, t.M))
	case abiref.Function:
		return abiref.BytesV(make([]byte, 24))
	case abiref.Bytes:
		return abiref.BytesV([]byte{})
	case abiref.Array:
		v := abiref.Value{Elems: make([]abiref.Value, t.Len)}
		for i := range v.Elems {
			v.Elems[i] = zeroValue(t.Elem)
		}
		return v
	case abiref.Tuple:
		v := abiref.Value{Elems: make([]abiref.Value, len(t.Members))}
		for i := range v.Elems {
			v.Elems[i] = zeroValue(t.Members[i].Type)
		}
		return v
	}
	return abiref.Value{Elems: []abiref.Value{}}
}

func judge(c Case) (vs []evid.Violation) {
	en, other, vs := loadCase(c)
	if vs != nil {
		return vs
	}
	if err := en.e.Validate(); err != nil {
		return []evid.Violation{evid.V("valid-definition", "%s %s%s refused: %v", c.Def.Kind, c.Def.Name, c.Def.Decl, err)}
	}
	return judgeWith(&c, en, other)
}

// loadCase builds fresh library objects for the entries of a case.
func loadCase(c Case) (en, other *entry, vs []evid.Violation) {
	en, err := load(c.Def, c.Args, c.InternalTypes)
	if err != nil {
		return nil, nil, []evid.Violation{evid.V("harness", "bad case: %v", err)}
	}
	if en.ty.HasZeroSizeArrayElem() {
		return nil, nil, []evid.Violation{evid.V("harness", "array elements of zero encoded size are outside the quantifier")}
	}
	if c.Other != nil {
		if other, err = load(*c.Other, c.OtherArgs, c.InternalTypes); err != nil {
			return nil, nil, []evid.Violation{evid.V("harness", "bad other entry: %v", err)}
		}
	}
	return en, other, nil
}

// judgeWith judges the clauses of a case on the library objects it is given (fresh ones for the
// "entry" kind; long-lived, re-validated or shared ones for the sequence kinds).
func judgeWith(c *Case, en, other *entry) (vs []evid.Violation) {
	vs = append(vs, judgeIdentity(en)...)
	if other != nil {
		vs = append(vs, judgeIdentity(other)...)
	}
	switch c.Def.Kind {
	case "function":
		vs = append(vs, judgeCall(en, other)...)
	case "event":
		vs = append(vs, judgeEvent(en, other)...)
	case "error":
		vs = append(vs, judgeCall(en, other)...)
		vs = append(vs, judgeErrors(c, en, other)...)
	}
	return vs
}

// ---- generation

var names = []string{"f", "transfer", "Transfer", "approve", "safeTransferFrom", "E", "Panic", "InsufficientBalance", "$_x1", "a", "Error", "log"}

// tameFixedPoint replaces fixed-point leaves by k * 10^N (k in 0..3, in range): values that are
// exactly representable, so that C12 does not depend on the fixed-point arithmetic judged by C02.
func tameFixedPoint(rt *rapid.T, label string, t *abiref.Type, v *abiref.Value) {
	switch t.Kind {
	case abiref.Fixed, abiref.Ufixed:
		k := rapid.IntRange(0, 3).Draw(rt, label+".k")
		x := new(big.Int).Mul(big.NewInt(int64(k)), abiref.Pow10(t.N))
		_, hi := t.Range()
		if x.Cmp(hi) > 0 {
			x = new(big.Int)
		}
		v.Int = x
	case abiref.Array, abiref.Slice:
		for i := range v.Elems {
			tameFixedPoint(rt, fmt.Sprintf("%s[%d]", label, i), t.Elem, &v.Elems[i])
		}
	case abiref.Tuple:
		for i := range v.Elems {
			tameFixedPoint(rt, fmt.Sprintf("%s.%d", label, i), t.Members[i].Type, &v.Elems[i])
		}
	}
}

func genParams(rt *rapid.T, label string, kind string, anonymous bool) *abiref.Type {
	depth := rapid.SampledFrom([]int{0, 1, 1, 2, 2, 3}).Draw(rt, label+".depth")
	o := abigen.Opts{Aliases: true, MaxMembers: 8, NoEmptyTuple: false}
	if kind == "event" {
		o.Indexed = true
		o.MaxIndexed = 3
		if anonymous {
			o.MaxIndexed = 4
		}
	}
	ty := abigen.Params(rt, label, depth, o)
	for i := range ty.Members {
		if ty.Members[i].Indexed && notAssertedIndexed(ty.Members[i].Type) {
			ty.Members[i].Indexed = false // not asserted: by construction
		}
	}
	return ty
}

func genValue(rt *rapid.T, label string, ty *abiref.Type) abiref.Value {
	v := abigen.Value(rt, label, ty)
	tameFixedPoint(rt, label+".fx", ty, &v)
	return v
}

func copyType(t *abiref.Type) *abiref.Type {
	c, err := abiref.ParseDecl(t.Decl())
	if err != nil {
		panic(err)
	}
	return c
}

// nearMiss derives a second parameter list / name from the first: the realistic ways in which two
// entries differ by little.
func nearMiss(rt *rapid.T, d Def, ty *abiref.Type) (Def, *abiref.Type, string) {
	o := d
	t := copyType(ty)
	switch rapid.IntRange(0, 5).Draw(rt, "near.kind") {
	case 0: // other name, same parameters
		o.Name = d.Name + "2"
		return o, t, "near:name"
	case 1: // one more parameter
		t.Members = append(t.Members, abiref.Member{Type: abiref.UintT(256)})
		return o, t, "near:extra-parameter"
	case 2: // one parameter less
		if len(t.Members) > 0 {
			t.Members = t.Members[:len(t.Members)-1]
			return o, t, "near:missing-parameter"
		}
	case 3: // an integer width changed
		for i := range t.Members {
			b := t.Members[i].Type
			for b.Kind == abiref.Array || b.Kind == abiref.Slice {
				b = b.Elem
			}
			if b.IsInteger() {
				if b.M == 256 {
					b.M = 248
				} else {
					b.M += 8
				}
				b.Alias = false
				return o, t, "near:width"
			}
		}
	case 4: // the parameters wrapped into one tuple: f(a,b) vs f((a,b))
		if len(t.Members) > 0 {
			inner := &abiref.Type{Kind: abiref.Tuple}
			for _, m := range t.Members {
				m.Indexed = false
				inner.Members = append(inner.Members, m)
			}
			return o, &abiref.Type{Kind: abiref.Tuple, Members: []abiref.Member{{Type: inner}}}, "near:wrapped-in-tuple"
		}
	default: // a dynamic array made fixed or vice versa
		for i := range t.Members {
			m := t.Members[i].Type
			if m.Kind == abiref.Slice {
				m.Kind, m.Len = abiref.Array, 2
				return o, t, "near:T[]->T[2]"
			}
			if m.Kind == abiref.Array {
				m.Kind, m.Len = abiref.Slice, 0
				return o, t, "near:T[k]->T[]"
			}
		}
	}
	o.Name = d.Name + "_"
	return o, t, "near:name"
}

func classes(c *Case, ty *abiref.Type) (bool, []string) {
	var alias, tuple, array bool
	ty.Walk(func(t *abiref.Type, d int) {
		if d == 0 {
			return
		}
		if t.Alias {
			alias = true
		}
		switch t.Kind {
		case abiref.Tuple:
			tuple = true
		case abiref.Array, abiref.Slice:
			array = true
		}
	})
	cl := []string{"kind:" + c.Def.Kind, fmt.Sprintf("params:%d", len(ty.Members))}
	if alias {
		cl = append(cl, "type:alias")
	}
	if tuple {
		cl = append(cl, "type:tuple")
	}
	if array {
		cl = append(cl, "type:array")
	}
	nt := alias || tuple || array
	if c.Def.Kind == "event" {
		idx, val, raw := 0, 0, 0
		for _, m := range ty.Members {
			if m.Indexed {
				idx++
				if isValueIndexed(m.Type) {
					val++
				} else {
					raw++
				}
			}
		}
		cl = append(cl, fmt.Sprintf("event:indexed=%d", idx))
		if c.Def.Anonymous {
			cl = append(cl, "event:anonymous")
		}
		if val > 0 {
			cl = append(cl, "event:indexed-value-type")
		}
		if raw > 0 {
			cl = append(cl, "event:indexed-raw-topic")
		}
		if idx > 0 && idx < len(ty.Members) {
			cl = append(cl, "event:mixed-indexed-and-data")
			nt = true
		}
	}
	if c.Def.Kind == "error" {
		cl = append(cl, fmt.Sprintf("error:definitions=%d", len(c.Errors)+1))
		if len(c.Errors) >= 1 {
			nt = true
		}
	}
	if c.Other != nil {
		cl = append(cl, "other:"+c.Other.Kind)
	}
	return nt, cl
}

func genCase(rt *rapid.T) (Case, *abiref.Type, []string) {
	kind := rapid.SampledFrom([]string{"function", "function", "event", "event", "event", "error", "error"}).Draw(rt, "kind")
	d := Def{Kind: kind, Name: rapid.SampledFrom(names).Draw(rt, "name")}
	if kind == "event" {
		d.Anonymous = rapid.IntRange(0, 3).Draw(rt, "anonymous") == 0
	}
	ty := genParams(rt, "t", kind, d.Anonymous)
	if ty.HasZeroSizeArrayElem() {
		rt.Skip("zero-size array element")
	}
	d.Decl = ty.Decl()
	v := genValue(rt, "v", ty)
	c := Case{Def: d, Args: abiref.ValueJSON(ty, v), InternalTypes: rapid.Bool().Draw(rt, "internalTypes")}
	var extra []string
	// the second entry
	switch rapid.IntRange(0, 3).Draw(rt, "other") {
	case 0:
	case 1, 2:
		od, ot, lbl := nearMiss(rt, d, ty)
		if kind == "error" && rapid.Bool().Draw(rt, "other.fn") {
			od.Kind = "function"
		}
		if od.Kind == "event" {
			// keep the indexed flags within the topic limit and the asserted domain
			n, max := 0, 3
			if od.Anonymous {
				max = 4
			}
			for i := range ot.Members {
				if ot.Members[i].Indexed {
					n++
					if n > max || notAssertedIndexed(ot.Members[i].Type) {
						ot.Members[i].Indexed = false
					}
				}
			}
		} else {
			for i := range ot.Members {
				ot.Members[i].Indexed = false
			}
		}
		od.Decl = ot.Decl()
		if !ot.HasZeroSizeArrayElem() {
			c.Other = &od
			c.OtherArgs = abiref.ValueJSON(ot, genValue(rt, "ov", ot))
			extra = append(extra, lbl)
		}
	default:
		ok := rapid.SampledFrom([]string{"function", "event", "error"}).Draw(rt, "other.kind")
		if kind == "event" {
			ok = "event"
		} else if ok == "event" {
			ok = "function"
		}
		od := Def{Kind: ok, Name: rapid.SampledFrom(names).Draw(rt, "other.name")}
		ot := genParams(rt, "ot", ok, false)
		od.Decl = ot.Decl()
		if !ot.HasZeroSizeArrayElem() {
			c.Other = &od
			c.OtherArgs = abiref.ValueJSON(ot, genValue(rt, "ov", ot))
			extra = append(extra, "other:independent")
		}
	}
	if kind == "error" {
		n := rapid.IntRange(0, 3).Draw(rt, "errors")
		seen := map[string]bool{abiref.Signature(d.Name, ty): true}
		for i := 0; i < n; i++ {
			var ed Def
			var et *abiref.Type
			if rapid.Bool().Draw(rt, fmt.Sprintf("err%d.near", i)) {
				ed, et, _ = nearMiss(rt, d, ty)
				ed.Kind = "error"
				for j := range et.Members {
					et.Members[j].Indexed = false
				}
			} else {
				ed = Def{Kind: "error", Name: rapid.SampledFrom(names).Draw(rt, fmt.Sprintf("err%d.name", i))}
				et = genParams(rt, fmt.Sprintf("err%d", i), "error", false)
			}
			ed.Decl = et.Decl()
			sig := abiref.Signature(ed.Name, et)
			if seen[sig] || et.HasZeroSizeArrayElem() {
				continue
			}
			seen[sig] = true
			c.Errors = append(c.Errors, ed)
		}
		c.Index = rapid.IntRange(0, len(c.Errors)).Draw(rt, "index")
		c.Reason = abigen.String(rt, "reason")
		if c.Other != nil && c.Other.Kind == "error" {
			// an error "other" also lives in the ABI
			osig := abiref.Signature(c.Other.Name, abiref.MustParseDecl(c.Other.Decl))
			if !seen[osig] {
				c.Errors = append(c.Errors, *c.Other)
			}
		}
	}
	return c, ty, extra
}

func init() {
	logrus.SetLevel(logrus.PanicLevel)
}

// sweepSignatures enumerates every elementary spelling (all widths, aliases, bytes1..32, …) under a
// set of array/tuple wrappers and compares signature, selector and topic with the reference.
func sweepSignatures(t *testing.T, rec *evid.Recorder, k *evid.Kind[Case]) {
	var elems []string
	for m := 8; m <= 256; m += 8 {
		elems = append(elems, fmt.Sprintf("uint%d", m), fmt.Sprintf("int%d", m))
	}
	for m := 1; m <= 32; m++ {
		elems = append(elems, fmt.Sprintf("bytes%d", m))
	}
	elems = append(elems, "uint", "int", "fixed", "ufixed", "address", "bool", "bytes", "string", "function",
		"fixed128x18", "ufixed128x18", "fixed8x1", "ufixed256x80", "fixed256x80", "ufixed8x80")
	wrappers := []string{"(%s)", "(%s a,%s)", "(%s[])", "(%s[3] x)", "(%s[][2])", "(%s[2][])", "((%s) s)", "((%s,bool)[] s,%s)", "(((%s[] a)[2] b,uint) c)", "(uint,(int,(%s,fixed)[])[1] q)"}
	var n, nt int64
	var sample *Case
	for ei, el := range elems {
		if rec.Shards > 1 && ei%rec.Shards != rec.Shard {
			continue // the enumeration is partitioned over the shards
		}
		for _, w := range wrappers {
			decl := strings.ReplaceAll(w, "%s", el)
			for _, kind := range []string{"function", "event", "error"} {
				c := Case{Def: Def{Kind: kind, Name: "f", Decl: decl}}
				en, err := load(c.Def, nil, false)
				if err != nil {
					t.Fatalf("harness: %s: %v", decl, err)
				}
				var vs []evid.Violation
				if err := en.e.Validate(); err != nil {
					vs = append(vs, evid.V("valid-definition", "%s f%s refused: %v", kind, decl, err))
				} else {
					vs = judgeIdentity(en)
				}
				n++
				nt++
				if len(vs) > 0 {
					k.Fail(t, c, vs)
				}
				if sample == nil && kind == "event" {
					cc := c
					sample = &cc
				}
			}
		}
	}
	k.Bulk(n, nt, true, "exhaustive:elementary-spelling x wrapper x kind (identity clauses)", sample)
}

func TestCheck(t *testing.T) {
	rec := evid.Start("C12", rule)
	defer rec.Finish()
	rec.Assume("reference: ref/abiref (canonical signatures, Keccak-256 selector/topic, head/tail encoding, event topics and data incl. keccak of the in-place encoding for indexed reference types), written independently of pkg/abi")
	rec.Assume("not asserted: indexed parameters of type function/fixed/ufixed (decoded from the topic by the library instead of being surfaced raw); a non-anonymous event with zero indexed parameters given zero topics; fixed-point argument values other than small multiples of 1.0 (C02 judges the fixed-point arithmetic); four-byte selector collisions between distinct signatures (none occurs in the generated cases, checked)")
	k := evid.NewKind(rec, "entry", judge)
	cpool := evid.NewPool(rec, "concurrent", judge, 64)
	kReval := evid.NewKind(rec, "revalidate", judgeReval)
	kShared := evid.NewKind(rec, "shared", judgeShared).DeclareEach()
	rec.Assume("caller-owned memory: call data, revert data, topics, log data and JSON text are handed over inside larger caller-owned buffers; none may be written to; values decoded from call / revert / log data and the returned selector and hash slices must not refer to them or to each other. Not asserted: the raw topic surfaced for an indexed reference type may be a view of the caller's topic slice")
	rec.Assume("a definition edited in place is validated again before it is used (the documented contract)")
	rec.Corpus(t)
	t.Run("exhaustive-signatures", func(t *testing.T) { sweepSignatures(t, rec, k) })
	rec.Rapid(t, "entries", rec.N(8000, 20000), func(rt *rapid.T) {
		c, ty, extra := genCase(rt)
		nt, cl := classes(&c, ty)
		cpool.Offer(c)

		k.Check(rt, c, nt, append(cl, extra...)...)
	})
	cpool.Run(t, 8, 3, 16)
	rec.Rapid(t, "revalidate", rec.N(2500, 12000), func(rt *rapid.T) {
		c, nested, cl := genReval(rt)
		kReval.Check(rt, c, nested, cl...)
	})
	rec.Rapid(t, "shared", rec.N(40, 100), func(rt *rapid.T) {
		c, nt, cl := genShared(rt)
		kShared.Check(rt, c, nt, cl...)
	})
}

func TestReplay(t *testing.T) {
	rec := evid.Start("C12", rule)
	evid.NewKind(rec, "entry", judge)
	evid.NewPool(rec, "concurrent", judge, 0)
	evid.NewKind(rec, "revalidate", judgeReval)
	evid.NewKind(rec, "shared", judgeShared)
	rec.Replay(t)
}
