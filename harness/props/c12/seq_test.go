package c12

// Sequence kinds of C12.
//
//	revalidate (F4) ONE entry object is used (signature, selector, topic, encode, decode), then its
//	           definition is edited in place - the type of a parameter nested inside a tuple
//	           changes - and validated again as the library documents; identity, call data, event
//	           and error clauses must then be those of the edited definition: the entry's new
//	           selector / topic is honoured and data carrying the old one is foreign.
//	shared     (F3) several goroutines, released together, run all clauses of a case on ONE freshly
//	           validated entry (first use included); the verdict must be the sequential one.

import (
	"fmt"
	"strings"
	"sync"

	"github.com/hyperledger/firefly-signer/pkg/abi"
	"pgregory.net/rapid"

	"verifharness/evid"
	"verifharness/gen/abigen"
	"verifharness/gen/abigen/abilib"
	"verifharness/ref/abiref"
)

// RevalCase: Steps[i] is the whole case after the i-th in-place edit of the entry's inputs
// (same entry kind throughout; InternalTypes of Steps[0]).
type RevalCase struct {
	Steps []Case `json:"steps"`
	Level string `json:"level"` // where Validate() is called again: param | entry | abi
}

func judgeReval(c RevalCase) (vs []evid.Violation) {
	if len(c.Steps) == 0 {
		return []evid.Violation{evid.V("harness", "no steps")}
	}
	var persist *abi.Entry
	for i := range c.Steps {
		st := c.Steps[i]
		st.InternalTypes = c.Steps[0].InternalTypes
		if st.Def.Kind != c.Steps[0].Def.Kind {
			return []evid.Violation{evid.V("harness", "the entry kind must not change")}
		}
		en, other, bad := loadCase(st)
		if bad != nil {
			return bad
		}
		if i == 0 {
			persist = en.e
			if err := persist.Validate(); err != nil {
				return []evid.Violation{evid.V("valid-definition", "%s %s%s refused: %v", st.Def.Kind, st.Def.Name, st.Def.Decl, err)}
			}
		} else {
			var verr error
			if pv := evid.Guard("no-panic", func() {
				if verr = abilib.Morph(&persist.Inputs, en.ty, st.InternalTypes); verr != nil {
					return
				}
				persist.Name, persist.Anonymous = st.Def.Name, st.Def.Anonymous
				switch c.Level {
				case "entry":
					verr = persist.Validate()
				case "abi":
					verr = abi.ABI{persist}.Validate()
				default:
					for _, p := range persist.Inputs {
						if verr = p.Validate(); verr != nil {
							return
						}
					}
				}
			}); pv != nil {
				return append(vs, *pv)
			}
			if verr != nil {
				return append(vs, evid.V("revalidate-accepts-valid", "step %d: after editing the definition in place to %s%s, Validate (%s level) returned %v", i, st.Def.Name, st.Def.Decl, c.Level, verr))
			}
			en.e = persist
		}
		for _, v := range judgeWith(&st, en, other) {
			if i > 0 {
				v.Clause = "revalidated:" + v.Clause
				v.Detail = fmt.Sprintf("step %d: the %s %s%s was edited in place to %s%s and validated again (%s level); %s", i, st.Def.Kind,
					c.Steps[i-1].Def.Name, c.Steps[i-1].Def.Decl, st.Def.Name, st.Def.Decl, c.Level, v.Detail)
			}
			vs = append(vs, v)
		}
		if len(vs) > 0 {
			return vs
		}
	}
	return vs
}

// SharedCase: Workers goroutines judge Case on ONE validated entry, Rounds times (a fresh entry each round).
type SharedCase struct {
	Case    Case `json:"case"`
	Workers int  `json:"workers"`
	Rounds  int  `json:"rounds"`
}

func judgeShared(c SharedCase) (vs []evid.Violation) {
	if seq := judge(c.Case); len(seq) > 0 {
		return []evid.Violation{evid.V("sequential:"+seq[0].Clause, "the case fails on its own: %s", seq[0].Detail)}
	}
	workers := c.Workers
	if workers < 2 {
		workers = 2
	}
	var mu sync.Mutex
	for round := 0; round < c.Rounds && len(vs) == 0; round++ {
		en, other, bad := loadCase(c.Case)
		if bad != nil {
			return bad
		}
		if err := en.e.Validate(); err != nil {
			return []evid.Violation{evid.V("valid-definition", "refused: %v", err)}
		}
		if other != nil {
			if err := other.e.Validate(); err != nil {
				return []evid.Violation{evid.V("valid-definition", "other entry refused: %v", err)}
			}
		}
		bar := abilib.NewBarrier(workers)
		var wg sync.WaitGroup
		for w := 0; w < workers; w++ {
			wg.Add(1)
			go func() {
				defer wg.Done()
				var got []evid.Violation
				pv := evid.Guard("no-panic", func() {
					bar.Wait()
					got = judgeWith(&c.Case, en, other)
				})
				if pv != nil {
					got = append(got, *pv)
				}
				if len(got) > 0 {
					mu.Lock()
					vs = append(vs, evid.V("shared-definition:"+got[0].Clause, "round %d: %d goroutines use ONE validated entry; the case passes on its own but not here: %s", round, workers, got[0].Detail))
					mu.Unlock()
				}
			}()
		}
		wg.Wait()
	}
	if len(vs) > 1 {
		vs = vs[:1]
	}
	return vs
}

// ---- generation

func fixIndexed(ty *abiref.Type, anonymous bool) {
	n, max := 0, 3
	if anonymous {
		max = 4
	}
	for i := range ty.Members {
		if ty.Members[i].Indexed {
			n++
			if n > max || notAssertedIndexed(ty.Members[i].Type) {
				ty.Members[i].Indexed = false
			}
		}
	}
}

func genReval(rt *rapid.T) (RevalCase, bool, []string) {
	base, ty, _ := genCase(rt)
	hasNested := false
	for _, s := range abigen.Slots(ty) {
		if s.Depth >= 2 {
			hasNested = true
		}
	}
	if !hasNested && len(ty.Members) > 0 && rapid.IntRange(0, 3).Draw(rt, "wrap") > 0 {
		// make sure there is something below the top level: wrap one parameter into a struct
		i := rapid.IntRange(0, len(ty.Members)-1).Draw(rt, "wrap.i")
		inner := abiref.TupleOf(abiref.Member{Name: "k", Type: ty.Members[i].Type}, abiref.Member{Name: "w", Type: abigen.Elementary(rt, "wrap.e", abigen.Opts{Aliases: true})})
		var w *abiref.Type = inner
		switch rapid.IntRange(0, 3).Draw(rt, "wrap.arr") {
		case 0:
			w = abiref.SliceT(inner)
		case 1:
			w = abiref.ArrayT(inner, 2)
		}
		ty.Members[i].Type = w
		if ty.HasZeroSizeArrayElem() {
			rt.Skip("zero-size array element")
		}
		base.Def.Decl = ty.Decl()
		base.Args = abiref.ValueJSON(ty, genValue(rt, "wv", ty))
	}
	c := RevalCase{Level: rapid.SampledFrom([]string{"param", "entry", "entry", "abi"}).Draw(rt, "level"), Steps: []Case{base}}
	_, cl := classes(&base, ty)
	cl = append(cl, "level:"+c.Level)
	nested := false
	cur := ty
	n := rapid.IntRange(1, 2).Draw(rt, "edits")
	for i := 1; i <= n; i++ {
		var next *abiref.Type
		var d int
		var what string
		var ok bool
		if i == n && n >= 2 && rapid.IntRange(0, 3).Draw(rt, "back") == 0 {
			next, d, what, ok = abigen.Clone(ty), 0, "back-to-the-first-definition", true
		} else {
			next, d, what, ok = abigen.EditMember(rt, fmt.Sprintf("edit%d", i), cur, abigen.Opts{Aliases: true})
		}
		if !ok {
			rt.Skip("no edit possible")
		}
		fixIndexed(next, base.Def.Anonymous)
		cur = next
		if d >= 2 {
			nested = true
		}
		cl = append(cl, fmt.Sprintf("edit:depth=%d", d))
		for _, w := range strings.Split(what, ",") {
			cl = append(cl, "edit:"+w)
		}
		st := base
		st.Def.Decl = cur.Decl()
		if rapid.IntRange(0, 5).Draw(rt, fmt.Sprintf("rename%d", i)) == 0 {
			st.Def.Name = base.Def.Name + "V2"
			cl = append(cl, "edit:also-renamed")
		}
		st.Args = abiref.ValueJSON(cur, genValue(rt, fmt.Sprintf("v%d", i), cur))
		c.Steps = append(c.Steps, st)
	}
	return c, nested, cl
}

func genShared(rt *rapid.T) (SharedCase, bool, []string) {
	var c Case
	var cl []string
	nt := true
	if rapid.IntRange(0, 2).Draw(rt, "wide") == 0 {
		kind := rapid.SampledFrom([]string{"function", "event", "error"}).Draw(rt, "kind")
		ty := abigen.Wide(rt, "w", 100, 600)
		if kind == "event" && rapid.Bool().Draw(rt, "indexed") {
			ty.Members[0].Indexed = true
		}
		v := abigen.PatternValue(ty, rapid.Uint64().Draw(rt, "salt"))
		c = Case{Def: Def{Kind: kind, Name: rapid.SampledFrom(names).Draw(rt, "name"), Decl: ty.Decl()}, Args: abiref.ValueJSON(ty, v)}
		if kind == "error" {
			c.Reason = "r"
		}
		cl = []string{"kind:" + kind, "shape:wide-late-dynamic"}
	} else {
		var ty *abiref.Type
		var extra []string
		c, ty, extra = genCase(rt)
		nt, cl = classes(&c, ty)
		cl = append(cl, extra...)
	}
	sc := SharedCase{Case: c, Workers: rapid.SampledFrom([]int{4, 8, 8, 16}).Draw(rt, "workers"), Rounds: rapid.IntRange(3, 8).Draw(rt, "rounds")}
	return sc, nt, append(cl, fmt.Sprintf("workers:%d", sc.Workers))
}
