// Package c14 decides property C14: hashing/signing any JSON document offered as
// EIP-712 typed data is total (digest or error, never a panic) and an integer
// member is never read as a different number, whatever its JSON spelling.
package c14

import (
	"bytes"
	"context"
	"encoding/hex"
	"encoding/json"
	"fmt"
	"io"
	"math/big"
	"os"
	"path/filepath"
	"sort"
	"strings"
	"testing"
	"unicode/utf8"

	"github.com/hyperledger/firefly-signer/pkg/eip712"
	"github.com/hyperledger/firefly-signer/pkg/ethsigner"
	"github.com/hyperledger/firefly-signer/pkg/secp256k1"
	"github.com/sirupsen/logrus"
	"pgregory.net/rapid"

	"verifharness/evid"
	"verifharness/gen"
	"verifharness/props/c04/tdgen"
	"verifharness/ref/eip712ref"
)

const rule = "documents: a mutated (or arbitrary) text that is valid JSON, unmarshals into eip712.TypedData and therefore reaches EncodeTypedDataV4; " +
	"integers: a value with |v| >= 2^53 (in or out of the range of its type); histories: damaged documents decoded into / edited in one re-used TypedData, or an integer slot given a value with |v| >= 2^53; distinct by hash of the case"

func init() {
	logrus.SetOutput(io.Discard)
}

const maxDocBytes = 64 << 10

// ---- kind "doc": totality (+ agreement with the reference where it has an opinion)

// DocCase is one text offered as typed data.  Texts that are not valid UTF-8
// travel as hex.
type DocCase struct {
	Doc string `json:"doc,omitempty"`
	Hex string `json:"hex,omitempty"`
}

func (c DocCase) text() []byte {
	if c.Hex != "" {
		b, _ := hex.DecodeString(c.Hex)
		return b
	}
	return []byte(c.Doc)
}

func caseOf(text []byte) DocCase {
	if utf8.Valid(text) {
		return DocCase{Doc: string(text)}
	}
	return DocCase{Hex: hex.EncodeToString(text)}
}

var signKey, _ = hex.DecodeString("8d01666832be7eb2dbd57cd3d4410d0231a91533f895de76d0930c689618aefd")

// the signer (deriving the public key costs more than most documents take to judge; a
// KeyPair is read-only when signing)
var signer = secp256k1.KeyPairFromBytes(signKey)

// observation of the library on one text
type observation struct {
	unmarshalErr error
	encodeErr    error
	signErr      error
	digest       []byte
	signHash     []byte
	sigLen       int
	reached      bool // Unmarshal succeeded, the encoder ran
}

func observe(text []byte) (o observation, vs []evid.Violation) {
	ctx := context.Background()
	var td, td2 eip712.TypedData
	if pv := evid.Guard("no-panic:unmarshal", func() { o.unmarshalErr = json.Unmarshal(text, &td) }); pv != nil {
		return o, []evid.Violation{*pv}
	}
	if o.unmarshalErr != nil {
		return o, nil
	}
	o.reached = true
	if pv := evid.Guard("no-panic:encode", func() {
		d, err := eip712.EncodeTypedDataV4(ctx, &td)
		o.digest, o.encodeErr = d, err
	}); pv != nil {
		vs = append(vs, *pv)
	}
	_ = json.Unmarshal(text, &td2)
	if pv := evid.Guard("no-panic:sign", func() {
		res, err := ethsigner.SignTypedDataV4(ctx, signer, &td2)
		o.signErr = err
		if err == nil && res != nil {
			o.signHash = res.Hash
			o.sigLen = len(res.SignatureRSV)
		}
		if err == nil && res == nil {
			vs = append(vs, evid.V("digest-or-error", "SignTypedDataV4 returned neither a result nor an error"))
		}
	}); pv != nil {
		vs = append(vs, *pv)
	}
	// the exported struct-hashing entry point, on a fresh decode, for every type the document
	// defines (primary type first) with the message, the domain and nothing as value: total as well
	var td3 eip712.TypedData
	if json.Unmarshal(text, &td3) == nil && td3.Types != nil {
		names := make([]string, 0, len(td3.Types))
		for n := range td3.Types {
			names = append(names, n)
		}
		sort.Strings(names)
		if len(names) > 6 {
			names = names[:6]
		}
		names = append([]string{td3.PrimaryType, eip712.EIP712Domain}, names...)
		for _, n := range names {
			for vi, v := range []interface{}{td3.Message, td3.Domain, nil} {
				if pv := evid.Guard("no-panic:hashstruct", func() {
					h, err := eip712.HashStruct(ctx, n, v, td3.Types)
					if err == nil && len(h) != 32 && v != nil && len(h) != 0 {
						vs = append(vs, evid.V("digest-or-error", "HashStruct(%q, value %d) returned no error and %d bytes", n, vi, len(h)))
					}
				}); pv != nil {
					pv.Detail = fmt.Sprintf("HashStruct(%q, value #%d): %s", n, vi, pv.Detail)
					vs = append(vs, *pv)
				}
			}
		}
	}
	if len(vs) > 0 {
		return o, vs
	}
	if o.encodeErr == nil && len(o.digest) != 32 {
		vs = append(vs, evid.V("digest-or-error", "EncodeTypedDataV4 returned no error and a %d-byte digest", len(o.digest)))
	}
	if (o.encodeErr == nil) != (o.signErr == nil) {
		vs = append(vs, evid.V("sign-consistent", "EncodeTypedDataV4 error %v but SignTypedDataV4 error %v", o.encodeErr, o.signErr))
	}
	if o.signErr == nil && o.encodeErr == nil && (!bytes.Equal(o.signHash, o.digest) || o.sigLen != 65) {
		vs = append(vs, evid.V("sign-consistent", "SignTypedDataV4 hash %x (signature %d bytes), EncodeTypedDataV4 %x", o.signHash, o.sigLen, o.digest))
	}
	return o, vs
}

func (o observation) accepted() bool { return o.reached && o.encodeErr == nil }

func (o observation) rejection() error {
	if o.unmarshalErr != nil {
		return o.unmarshalErr
	}
	return o.encodeErr
}

func judgeText(text []byte) (vs []evid.Violation, o observation, ref eip712ref.Verdict) {
	o, vs = observe(text)
	if len(vs) > 0 {
		return vs, o, ref
	}
	ref = eip712ref.FromJSON(text)
	switch {
	case ref.Status == eip712ref.OK:
		if !o.accepted() {
			vs = append(vs, evid.V("well-formed-accepted", "reference: well-formed typed data (digest %x); library: %v", ref.Result.Digest, o.rejection()))
		} else if !bytes.Equal(o.digest, ref.Result.Digest) {
			vs = append(vs, evid.V("well-formed-digest", "library digest %x, EIP-712 reference %x", o.digest, ref.Result.Digest))
		}
	case ref.Status == eip712ref.Invalid && ref.MustReject:
		if o.accepted() {
			vs = append(vs, evid.V("mismatch-rejected", "library returned digest %x for a document whose value does not fit its declared type (%s)", o.digest, ref.Reason))
		}
	}
	return vs, o, ref
}

// lastObs/lastRef: what the most recent judgeDoc call observed (single-threaded use), so
// that the classification does not need a second, undeclared run of the code under test.
var lastObs observation
var lastRef eip712ref.Verdict

func judgeDoc(c DocCase) []evid.Violation {
	vs, o, ref := judgeText(c.text())
	lastObs, lastRef = o, ref
	return vs
}

// judgeDocPure is judgeDoc without the package-level leftovers: the judge of the
// concurrent kind (several goroutines at once).
func judgeDocPure(c DocCase) []evid.Violation {
	vs, _, _ := judgeText(c.text())
	return vs
}

// ---- kind "int": one integer, every spelling, several positions

type IntCase struct {
	Type   string `json:"type"`   // uint<M> / int<M>
	Value  string `json:"value"`  // the integer, canonical decimal
	Number string `json:"number"` // the JSON-number spelling to use (a literal denoting exactly Value); "" = Value itself
	Pos    string `json:"pos"`    // member | array | nested | domain
}

func intDoc(typ string, pos string, spelled *eip712ref.JNode) *eip712ref.JNode {
	S, N, O, A := eip712ref.JStr, eip712ref.JNum, eip712ref.JObj, eip712ref.JArr
	mem := func(name, t string) *eip712ref.JNode { return O().Set("name", S(name)).Set("type", S(t)) }
	root := O()
	switch pos {
	case "array":
		root.Set("types", O().Set("T", A(mem("pre", "string"), mem("v", typ+"[]"), mem("post", "bool"))))
		root.Set("primaryType", S("T"))
		root.Set("message", O().Set("pre", S("x")).Set("v", A(N("1"), spelled, S("0"))).Set("post", eip712ref.JBool(true)))
	case "nested":
		root.Set("types", O().Set("T", A(mem("inner", "U"), mem("post", "bool"))).Set("U", A(mem("v", typ))))
		root.Set("primaryType", S("T"))
		root.Set("message", O().Set("inner", O().Set("v", spelled)).Set("post", eip712ref.JBool(false)))
	case "domain":
		root.Set("types", O().Set("EIP712Domain", A(mem("name", "string"), mem("chainId", typ))))
		root.Set("primaryType", S("EIP712Domain"))
		root.Set("domain", O().Set("name", S("n")).Set("chainId", spelled))
	default:
		root.Set("types", O().Set("T", A(mem("pre", "string"), mem("v", typ), mem("post", "bool"))))
		root.Set("primaryType", S("T"))
		root.Set("message", O().Set("pre", S("x")).Set("v", spelled).Set("post", eip712ref.JBool(true)))
	}
	return root
}

// literalValue gives the exact value of a JSON number literal (bounded exponent).
func literalValue(lit string) (*big.Rat, bool) {
	if len(lit) > 400 {
		return nil, false
	}
	if i := strings.IndexAny(lit, "eE"); i >= 0 {
		exp := strings.TrimLeft(lit[i+1:], "+-")
		if len(exp) > 3 {
			return nil, false
		}
	}
	if !json.Valid([]byte(lit)) {
		return nil, false
	}
	return new(big.Rat).SetString(lit)
}

func judgeInt(c IntCase) (vs []evid.Violation) {
	kind, bits := eip712ref.Atomic(c.Type)
	if kind != eip712ref.KUint && kind != eip712ref.KInt {
		return []evid.Violation{evid.V("harness", "not an integer type: %q", c.Type)}
	}
	v, ok := new(big.Int).SetString(c.Value, 10)
	if !ok || v.String() != c.Value {
		return []evid.Violation{evid.V("harness", "bad value %q", c.Value)}
	}
	lit := c.Number
	if lit == "" {
		lit = c.Value
	}
	if r, ok := literalValue(lit); !ok || !r.IsInt() || r.Num().Cmp(v) != 0 {
		return []evid.Violation{evid.V("harness", "number literal %q does not denote %s", lit, c.Value)}
	}
	inRange := eip712ref.InRange(v, kind == eip712ref.KInt, bits)
	refV := eip712ref.FromTree(intDoc(c.Type, c.Pos, eip712ref.JStr(c.Value)))
	if inRange != (refV.Status == eip712ref.OK) || (!inRange && !refV.MustReject) {
		return []evid.Violation{evid.V("harness", "reference verdict %v/%v inconsistent with range check %v: %s", refV.Status, refV.MustReject, inRange, refV.Reason)}
	}
	type form struct {
		name string
		node *eip712ref.JNode
	}
	forms := []form{{"json-number", eip712ref.JNum(lit)}, {"decimal-string", eip712ref.JStr(c.Value)}}
	if v.Sign() >= 0 {
		forms = append(forms, form{"hex-string", eip712ref.JStr("0x" + v.Text(16))})
	}
	for _, f := range forms {
		text := []byte(intDoc(c.Type, c.Pos, f.node).Text())
		o, ov := observe(text)
		if len(ov) > 0 {
			return append(vs, ov...)
		}
		switch {
		case !inRange:
			if o.accepted() {
				vs = append(vs, evid.V("out-of-range-rejected", "%s %s as %s (%s): hashed (digest %x) although it is outside the type's range", c.Type, c.Value, f.name, clip(f.node.Text()), o.digest))
			}
		case f.name == "json-number":
			// either rejected, or read as exactly this integer
			if o.accepted() && !bytes.Equal(o.digest, refV.Result.Digest) {
				vs = append(vs, evid.V("number-read-exactly", "%s %s as JSON number %s: digest %x is not the digest of that integer (%x) — hashed as a different value", c.Type, c.Value, clip(lit), o.digest, refV.Result.Digest))
			}
		default:
			if !o.accepted() {
				vs = append(vs, evid.V("string-form-accepted", "%s %s as %s rejected: %v", c.Type, c.Value, f.name, o.rejection()))
			} else if !bytes.Equal(o.digest, refV.Result.Digest) {
				vs = append(vs, evid.V("string-form-digest", "%s %s as %s: digest %x, reference %x", c.Type, c.Value, f.name, o.digest, refV.Result.Digest))
			}
		}
	}
	return vs
}

func clip(s string) string {
	if len(s) > 90 {
		return s[:90] + "…"
	}
	return s
}

// ---- kind "history": one TypedData value (or a few) used again and again
//
// Decode a document, hash, decode the next document into the SAME variable (with and
// without clearing it), replace an integer of the domain / message in place by another
// spelling, another value, a value outside the range of its type, delete values, hash
// again.  tdgen.RunSession judges every hash by what the variable holds at that moment:
// no panic; where the reference calls the content well-formed, its digest; where a value
// cannot have its declared type (integer out of range, …), an error; and always the same
// verdict as a new TypedData with the same content gives.

func judgeHistory(c tdgen.Session) []evid.Violation {
	return tdgen.RunSession(c, tdgen.Options{Signer: signer})
}

func intPath(pos string) []string {
	switch pos {
	case "array":
		return []string{"message", "v", "1"}
	case "nested":
		return []string{"message", "inner", "v"}
	case "domain":
		return []string{"domain", "chainId"}
	}
	return []string{"message", "v"}
}

// spelledInt renders v in a drawn spelling.
func spelledInt(rt *rapid.T, label string, v *big.Int) (*eip712ref.JNode, string) {
	switch f := rapid.IntRange(0, 3).Draw(rt, label+".form"); {
	case f == 0:
		return eip712ref.JNum(v.String()), "number"
	case f == 1 && v.Sign() >= 0:
		return eip712ref.JStr("0x" + v.Text(16)), "hex-string"
	case f == 2:
		return eip712ref.JNum(exoticLiteral(rt, v)), "number-with-fraction/exponent"
	default:
		return eip712ref.JStr(v.String()), "decimal-string"
	}
}

func genHistory(rt *rapid.T) (tdgen.Session, []string, bool) {
	classes := map[string]bool{}
	var steps []tdgen.Step
	via := func(l string) string { return rapid.SampledFrom([]string{"", "", "sign"}).Draw(rt, l+".via") }
	how := func(l string, doc string) tdgen.Step {
		st := tdgen.Step{Var: rapid.IntRange(0, 1).Draw(rt, l+".var"), Op: "decode", Doc: doc, Via: via(l)}
		switch rapid.IntRange(0, 5).Draw(rt, l+".how") {
		case 0:
			st.Var = -1
		case 1, 2:
			st.Op = "reset-decode"
		}
		classes["hist:"+st.Op] = true
		return st
	}
	nt := false
	switch mode := rapid.IntRange(0, 2).Draw(rt, "mode"); mode {
	case 0:
		// one integer slot, many values and spellings
		classes["hist:integers"] = true
		first := genIntCase(rt)
		kind, bits := eip712ref.Atomic(first.Type)
		signed := kind == eip712ref.KInt
		value := func(l string) *big.Int {
			switch rapid.IntRange(0, 3).Draw(rt, l+".vmode") {
			case 0:
				return rapid.SampledFrom(boundaryValues(signed, bits)).Draw(rt, l+".boundary")
			case 1:
				lo, hi := typeRange(signed, bits)
				return new(big.Int).Add(rapid.SampledFrom([]*big.Int{lo, hi}).Draw(rt, l+".edge"), big.NewInt(int64(rapid.IntRange(-2, 2).Draw(rt, l+".delta"))))
			case 2:
				return big.NewInt(int64(rapid.IntRange(-300, 300).Draw(rt, l+".small")))
			}
			v := gen.Uint(rt, l+".v", 257)
			if rapid.Bool().Draw(rt, l+".neg") {
				v = new(big.Int).Neg(v)
			}
			return v
		}
		v0, _ := new(big.Int).SetString(first.Value, 10)
		if rapid.Bool().Draw(rt, "startInRange") && !eip712ref.InRange(v0, signed, bits) {
			// most histories start with a document that hashes
			v0 = big.NewInt(int64(rapid.IntRange(0, 100).Draw(rt, "v0")))
		}
		n0, _ := spelledInt(rt, "s0", v0)
		steps = append(steps, how("s0", intDoc(first.Type, first.Pos, n0).Text()))
		n := rapid.IntRange(2, 6).Draw(rt, "nSteps")
		for i := 1; i <= n; i++ {
			l := fmt.Sprintf("s%d", i)
			v := value(l)
			node, form := spelledInt(rt, l, v)
			classes["hist:int-form:"+form] = true
			if eip712ref.InRange(v, signed, bits) {
				classes["hist:int:in-range"] = true
			} else {
				classes["hist:int:out-of-range"] = true
			}
			if new(big.Int).Abs(v).Cmp(pow2(53)) >= 0 {
				nt = true
			}
			switch rapid.IntRange(0, 4).Draw(rt, l+".op") {
			case 0, 1:
				// the next document, same shape, into a variable
				pos := first.Pos
				if rapid.IntRange(0, 3).Draw(rt, l+".otherPos") == 0 {
					pos = rapid.SampledFrom([]string{"member", "array", "nested", "domain"}).Draw(rt, l+".pos")
				}
				steps = append(steps, how(l, intDoc(first.Type, pos, node).Text()))
			case 2:
				// the type of the slot changes in place (its value stays)
				t := first.Type
				if signed {
					t = fmt.Sprintf("int%d", 8*rapid.IntRange(1, 32).Draw(rt, l+".bits"))
				} else {
					t = fmt.Sprintf("uint%d", 8*rapid.IntRange(1, 32).Draw(rt, l+".bits"))
				}
				tn, mi := "T", "1"
				switch first.Pos {
				case "array":
					t += "[]"
				case "nested":
					tn, mi = "U", "0"
				case "domain":
					tn = eip712ref.DomainType
				}
				steps = append(steps, tdgen.Step{Var: rapid.IntRange(0, 1).Draw(rt, l+".var"), Op: "set-member", Path: []string{tn, mi, "type"}, Value: t, Via: via(l)})
				classes["hist:retype-in-place"] = true
			default:
				steps = append(steps, tdgen.Step{Var: rapid.IntRange(0, 1).Draw(rt, l+".var"), Op: "set", Path: intPath(first.Pos), Value: node.Text(), Via: via(l)})
				classes["hist:set-in-place:"+first.Pos] = true
			}
		}
	default:
		// related documents: a well-formed one and damaged copies of it (mode 1), or unrelated mutants (mode 2)
		classes[[]string{"", "hist:damaged-copies", "hist:mutants"}[mode]] = true
		nt = true
		base := tdgen.GenDoc(rt, 3, false).Root
		n := rapid.IntRange(2, 5).Draw(rt, "nDocs")
		for i := 0; i < n; i++ {
			l := fmt.Sprintf("d%d", i)
			var root *eip712ref.JNode
			switch {
			case mode == 2 && i > 0:
				root = tdgen.GenDoc(rt, 3, false).Root
				mutate(rt, root, 10*i, "")
			case i == 0 && rapid.Bool().Draw(rt, "startWellFormed"):
				root = base.Clone()
			default:
				root = base.Clone()
				for k := rapid.IntRange(1, 2).Draw(rt, l+".nmut"); k > 0; k-- {
					mutate(rt, root, 10*i+k, "")
				}
			}
			text := root.Text()
			if len(text) > maxDocBytes/4 {
				text = base.Text()
			}
			steps = append(steps, how(l, text))
			// now and then an edit in place at a position of this document
			if rapid.IntRange(0, 2).Draw(rt, l+".edit") == 0 {
				var slots []slot
				var paths [][]string
				for _, region := range []string{"domain", "message"} {
					if sub := root.Get(region); sub != nil {
						collectPaths(sub, []string{region}, &slots, &paths)
					}
				}
				if len(paths) > 0 {
					k := rapid.IntRange(0, len(paths)-1).Draw(rt, l+".slot")
					st := tdgen.Step{Var: rapid.IntRange(0, 1).Draw(rt, l+".evar"), Op: "set", Path: paths[k], Via: via(l + ".e")}
					switch rapid.IntRange(0, 3).Draw(rt, l+".eop") {
					case 0:
						st.Op = "del"
					case 1:
						st.Value = rapid.SampledFrom([]string{"-1", "1.5", "1e400", "9007199254740993", "18446744073709551616", "115792089237316195423570985008687907853269984665640564039457584007913129639936", `"115792089237316195423570985008687907853269984665640564039457584007913129639936"`, `"-1"`, `"0x10000000000000000000000000000000000000000000000000000000000000000"`, "null", "{}", "[]"}).Draw(rt, l+".evalue")
					default:
						st.Value = tdgen.JunkValue(rt, l+".junk", 2).Text()
					}
					classes["hist:"+st.Op+"-in-place"] = true
					steps = append(steps, st)
				}
			}
		}
	}
	var cl []string
	for c, on := range classes {
		if on && c != "" {
			cl = append(cl, c)
		}
	}
	cl = append(cl, fmt.Sprintf("hist:steps:%d", len(steps)))
	sort.Strings(cl)
	return tdgen.Session{Steps: steps}, cl, nt
}

// collectPaths lists the positions below n with their paths (object keys / array indexes).
func collectPaths(n *eip712ref.JNode, path []string, slots *[]slot, paths *[][]string) {
	for i, v := range n.Vals {
		key := fmt.Sprint(i)
		if n.Kind == 'o' {
			key = n.Keys[i]
		}
		p := append(append([]string(nil), path...), key)
		*slots = append(*slots, slot{n, i, len(p)})
		*paths = append(*paths, p)
		collectPaths(v, p, slots, paths)
	}
}

// ---- generators: integers

var two = big.NewInt(2)

func pow2(n int) *big.Int { return new(big.Int).Lsh(big.NewInt(1), uint(n)) }

func typeRange(signed bool, bits int) (lo, hi *big.Int) {
	if signed {
		return new(big.Int).Neg(pow2(bits - 1)), new(big.Int).Sub(pow2(bits-1), big.NewInt(1))
	}
	return big.NewInt(0), new(big.Int).Sub(pow2(bits), big.NewInt(1))
}

// boundaryValues lists the integers the property singles out for one type.
func boundaryValues(signed bool, bits int) []*big.Int {
	lo, hi := typeRange(signed, bits)
	set := map[string]*big.Int{}
	add := func(v *big.Int) { set[v.String()] = v }
	for _, d := range []int64{-1, 0, 1} {
		add(new(big.Int).Add(lo, big.NewInt(d)))
		add(new(big.Int).Add(hi, big.NewInt(d)))
	}
	for _, d := range []int64{-1, 0, 1, 127, 128, 255, 256} {
		add(big.NewInt(d))
	}
	for _, e := range []int{53, 63, 64} {
		for _, d := range []int64{-1, 0, 1} {
			p := new(big.Int).Add(pow2(e), big.NewInt(d))
			add(p)
			add(new(big.Int).Neg(p))
		}
	}
	add(new(big.Int).Neg(pow2(255)))
	add(new(big.Int).Sub(new(big.Int).Neg(pow2(255)), big.NewInt(1)))
	add(new(big.Int).Sub(pow2(256), big.NewInt(1)))
	add(pow2(256))
	out := make([]*big.Int, 0, len(set))
	for _, v := range set {
		out = append(out, v)
	}
	sort.Slice(out, func(i, j int) bool { return out[i].Cmp(out[j]) < 0 })
	return out
}

// exoticLiteral spells v as a JSON number with a fraction and/or exponent that
// still denotes exactly v.
func exoticLiteral(rt *rapid.T, v *big.Int) string {
	neg := v.Sign() < 0
	digits := new(big.Int).Abs(v).String()
	sign := ""
	if neg {
		sign = "-"
	}
	if v.Sign() == 0 {
		return rapid.SampledFrom([]string{"-0", "0e5", "0.0", "-0.0e-3", "0E+0", "0e-1", "0.000"}).Draw(rt, "lit.zero")
	}
	e := rapid.SampledFrom([]string{"e", "E"}).Draw(rt, "lit.e")
	switch rapid.IntRange(0, 5).Draw(rt, "lit.mode") {
	case 0: // d.ddddEn  (scientific, what a float printer would emit)
		if len(digits) == 1 {
			return sign + digits + ".0"
		}
		return fmt.Sprintf("%s%s.%s%s%s%d", sign, digits[:1], digits[1:], e, rapid.SampledFrom([]string{"", "+"}).Draw(rt, "lit.plus"), len(digits)-1)
	case 1: // trailing zeros moved into the exponent
		t := strings.TrimRight(digits, "0")
		if t == "" {
			return sign + "0" + e + "0"
		}
		return fmt.Sprintf("%s%s%s%d", sign, t, e, len(digits)-len(t))
	case 2: // .0 / .000
		return sign + digits + "." + strings.Repeat("0", rapid.IntRange(1, 3).Draw(rt, "lit.zeros"))
	case 3: // scaled up with a negative exponent
		k := rapid.IntRange(1, 25).Draw(rt, "lit.k")
		return fmt.Sprintf("%s%s%s%s-%d", sign, digits, strings.Repeat("0", k), e, k)
	case 4: // fraction part absorbed by the exponent
		if len(digits) < 2 {
			return sign + digits + e + "0"
		}
		cut := rapid.IntRange(1, len(digits)-1).Draw(rt, "lit.cut")
		return fmt.Sprintf("%s%s.%s%s%d", sign, digits[:cut], digits[cut:], e, len(digits)-cut)
	default:
		return sign + digits + e + "+0"
	}
}

func genIntCase(rt *rapid.T) IntCase {
	signed := rapid.Bool().Draw(rt, "signed")
	bits := 8 * rapid.IntRange(1, 32).Draw(rt, "width")
	if rapid.IntRange(0, 3).Draw(rt, "wide") == 0 {
		bits = rapid.SampledFrom([]int{56, 64, 72, 128, 248, 256}).Draw(rt, "wideBits")
	}
	var v *big.Int
	switch rapid.IntRange(0, 9).Draw(rt, "vmode") {
	case 0, 1, 2:
		v = rapid.SampledFrom(boundaryValues(signed, bits)).Draw(rt, "boundary")
	case 3, 4:
		// near a power of two between 2^50 and 2^256
		e := rapid.IntRange(50, 256).Draw(rt, "exp")
		v = new(big.Int).Add(pow2(e), big.NewInt(int64(rapid.IntRange(-3, 3).Draw(rt, "delta"))))
		if rapid.Bool().Draw(rt, "neg") {
			v.Neg(v)
		}
	case 5:
		// decimal round numbers: d * 10^k
		k := rapid.IntRange(15, 77).Draw(rt, "pow10")
		v = new(big.Int).Exp(big.NewInt(10), big.NewInt(int64(k)), nil)
		v.Mul(v, big.NewInt(int64(rapid.IntRange(1, 99).Draw(rt, "mant"))))
		if rapid.Bool().Draw(rt, "neg") {
			v.Neg(v)
		}
	default:
		v = gen.Uint(rt, "v", 257)
		if rapid.Bool().Draw(rt, "neg") {
			v = new(big.Int).Neg(v)
		}
	}
	c := IntCase{Value: v.String(), Pos: rapid.SampledFrom([]string{"member", "array", "nested", "domain"}).Draw(rt, "pos")}
	if signed {
		c.Type = fmt.Sprintf("int%d", bits)
	} else {
		c.Type = fmt.Sprintf("uint%d", bits)
	}
	if rapid.IntRange(0, 2).Draw(rt, "exotic") == 0 {
		c.Number = exoticLiteral(rt, v)
	}
	return c
}

func intClasses(c IntCase) (cl []string, nt bool) {
	v, _ := new(big.Int).SetString(c.Value, 10)
	kind, bits := eip712ref.Atomic(c.Type)
	in := eip712ref.InRange(v, kind == eip712ref.KInt, bits)
	abs := new(big.Int).Abs(v)
	switch {
	case abs.Cmp(pow2(53)) < 0:
		cl = append(cl, "int:|v|<2^53")
	case abs.Cmp(pow2(63)) < 0:
		cl = append(cl, "int:2^53<=|v|<2^63")
	case abs.Cmp(pow2(64)) < 0:
		cl = append(cl, "int:2^63<=|v|<2^64")
	default:
		cl = append(cl, "int:|v|>=2^64")
	}
	if in {
		cl = append(cl, "int:in-range")
	} else {
		cl = append(cl, "int:out-of-range")
	}
	if c.Number != "" {
		cl = append(cl, "int:number-with-fraction/exponent")
	}
	cl = append(cl, "int:pos:"+c.Pos)
	return cl, abs.Cmp(pow2(53)) >= 0
}

// ---- generators: mutants

type slot struct {
	parent *eip712ref.JNode
	idx    int
	depth  int
}

func collect(n *eip712ref.JNode, depth int, out *[]slot) {
	for i, v := range n.Vals {
		*out = append(*out, slot{n, i, depth})
		collect(v, depth+1, out)
	}
}

var badSuffixes = []string{"[", "[x]", "[-1]", "]", "[]]", "[[]", "[1", "[99999999999999999999]", "[ 1]", "[+1]", "[0x1]", "[1.0]", "[0]", "[01]", "[][", "[]x", "[1][", " []", "[9223372036854775807]", "[4294967296]"}
var oddTypes = []string{"Nope", "uint7", "uint264", "int0", "uint0", "bytes33", "bytes0", "uint", "int", "byte", "fixed128x18", "ufixed", "function", "tuple", "uint256 ", " uint256", "uint 256", "", "[]", "[", "]", "[1]", "()", "(uint256)", "tuple[]", "uint256[", "Uint256", "STRING", "bytes32x", "uint08", "uint0256", "int256x1", "address payable", "string[][][][][][][][][][]", "EIP712Domain", "EIP712Domain[]", "\u0000", "a,b", "a)b(", "é"}
var oddNames = []string{"", " ", "a b", "a,b", "x)", "(", "name", "type", "\u0000", "é", "0", "[]"}

func junkScalar(rt *rapid.T, label string) *eip712ref.JNode {
	return tdgen.JunkValue(rt, label, 0)
}

// mutate applies one generated mutation to the document tree and reports its label.
// focus (optional) names a struct type that mutations of type definitions prefer.
func mutate(rt *rapid.T, root *eip712ref.JNode, step int, focus string) string {
	L := func(s string) string { return fmt.Sprintf("m%d.%s", step, s) }
	types := root.Get("types")
	cat := rapid.IntRange(0, 99).Draw(rt, L("cat"))
	switch {
	case cat < 35:
		// positional: any node of a chosen region
		regions := []string{"top", "types", "types", "types", "domain", "domain", "message", "message", "message", "message"}
		region := rapid.SampledFrom(regions).Draw(rt, L("region"))
		var slots []slot
		if region == "top" {
			for i := range root.Vals {
				slots = append(slots, slot{root, i, 0})
			}
		} else if sub := root.Get(region); sub != nil {
			collect(sub, 1, &slots)
		}
		if len(slots) == 0 {
			root.Set(region, tdgen.JunkValue(rt, L("junk"), 2))
			return "pos:set-missing-" + region
		}
		// weight towards shallow nodes: draw two, keep the shallower half of the time
		s := slots[rapid.IntRange(0, len(slots)-1).Draw(rt, L("slot"))]
		if rapid.Bool().Draw(rt, L("shallow")) {
			s2 := slots[rapid.IntRange(0, len(slots)-1).Draw(rt, L("slot2"))]
			if s2.depth < s.depth {
				s = s2
			}
		}
		cur := s.parent.Vals[s.idx]
		switch op := rapid.IntRange(0, 11).Draw(rt, L("op")); op {
		case 0:
			s.parent.Vals[s.idx] = eip712ref.JNull()
			return "pos:null@" + region
		case 1, 2:
			s.parent.Vals[s.idx] = tdgen.JunkValue(rt, L("junk"), 2)
			return "pos:other-kind@" + region
		case 3, 4:
			// remove
			if s.parent.Kind == 'o' {
				s.parent.Keys = append(s.parent.Keys[:s.idx:s.idx], s.parent.Keys[s.idx+1:]...)
			}
			s.parent.Vals = append(s.parent.Vals[:s.idx:s.idx], s.parent.Vals[s.idx+1:]...)
			return "pos:remove@" + region
		case 5:
			// duplicate an array element (changes the length) / re-add a key under another name
			if s.parent.Kind == 'a' {
				s.parent.Vals = append(s.parent.Vals, cur.Clone())
				return "pos:array-grow@" + region
			}
			s.parent.Set(s.parent.Keys[s.idx]+"2", cur.Clone())
			return "pos:key-copy@" + region
		case 6:
			s.parent.Vals[s.idx] = eip712ref.JArr(cur)
			return "pos:wrap-in-array@" + region
		case 7:
			if (cur.Kind == 'a' || cur.Kind == 'o') && len(cur.Vals) > 0 {
				s.parent.Vals[s.idx] = cur.Vals[0]
				return "pos:unwrap@" + region
			}
			s.parent.Vals[s.idx] = eip712ref.JObj().Set("v", cur)
			return "pos:wrap-in-object@" + region
		case 8:
			if cur.Kind == 'o' {
				s.parent.Vals[s.idx] = &eip712ref.JNode{Kind: 'a', Vals: cur.Vals}
				return "pos:object-to-array@" + region
			}
			if cur.Kind == 'a' {
				o := eip712ref.JObj()
				for i, v := range cur.Vals {
					o.Set(fmt.Sprint(i), v)
				}
				s.parent.Vals[s.idx] = o
				return "pos:array-to-object@" + region
			}
			s.parent.Vals[s.idx] = eip712ref.JStr(cur.Text())
			return "pos:stringify@" + region
		case 9:
			// swap with another node of the region
			s2 := slots[rapid.IntRange(0, len(slots)-1).Draw(rt, L("swap"))]
			a, b := s.parent.Vals[s.idx].Clone(), s2.parent.Vals[s2.idx].Clone()
			s.parent.Vals[s.idx], s2.parent.Vals[s2.idx] = b, a
			return "pos:swap@" + region
		case 10:
			if s.parent.Kind == 'o' {
				k := s.parent.Keys[s.idx]
				s.parent.Keys[s.idx] = rapid.SampledFrom([]string{strings.ToUpper(k), strings.ToUpper(k[:min(1, len(k))]) + k[min(1, len(k)):], k + " ", "", k + k}).Draw(rt, L("rekey"))
				return "pos:rename-key@" + region
			}
			s.parent.Vals = append(s.parent.Vals[:s.idx:s.idx], s.parent.Vals[s.idx+1:]...)
			return "pos:array-shrink@" + region
		default:
			if rapid.IntRange(0, 2).Draw(rt, L("foreign")) == 0 {
				// the way OTHER libraries spell a big integer in JSON (ethers v5 BigNumber.toJSON, ethers
				// internal form, BSON extended JSON, protobuf/long.js, bn.js), complete and damaged
				S, N, O := eip712ref.JStr, eip712ref.JNum, eip712ref.JObj
				forms := []*eip712ref.JNode{
					O().Set("type", S("BigNumber")).Set("hex", S("0x01")),
					O().Set("type", S("BigNumber")),
					O().Set("type", S("BigNumber")).Set("hex", N("1")),
					O().Set("type", S("BigNumber")).Set("hex", eip712ref.JNull()),
					O().Set("type", S("BigNumber")).Set("hex", S("")),
					O().Set("type", S("BigNumber")).Set("hex", O()),
					O().Set("hex", S("0x01")).Set("type", N("1")),
					O().Set("_hex", S("0x01")).Set("_isBigNumber", eip712ref.JBool(true)),
					O().Set("_hex", N("1")),
					O().Set("$numberLong", S("5")),
					O().Set("$numberLong", N("5")),
					O().Set("$numberDecimal", S("5")),
					O().Set("low", N("1")).Set("high", N("0")).Set("unsigned", eip712ref.JBool(true)),
					O().Set("low", S("x")),
					O().Set("negative", N("0")).Set("words", eip712ref.JArr(N("1"))).Set("length", N("1")),
					O().Set("type", S("bigint")).Set("value", S("1")),
					O().Set("type", S("Buffer")).Set("data", eip712ref.JArr(N("1"))),
					O().Set("type", S("Buffer")).Set("data", S("x")),
				}
				s.parent.Vals[s.idx] = forms[rapid.IntRange(0, len(forms)-1).Draw(rt, L("form"))].Clone()
				return "pos:foreign-integer-encoding@" + region
			}
			// numeric trouble at this position
			s.parent.Vals[s.idx] = eip712ref.JNum(rapid.SampledFrom([]string{"1.5", "-1", "1e400", "-1e400", "1e-400", "9007199254740993", "9223372036854775808", "18446744073709551616", "115792089237316195423570985008687907853269984665640564039457584007913129639936", "-57896044618658097711785492504343953926634992332820282019728792003956564819969", "0.1", "-0", "1E2", "123456789012345678901234567890"}).Draw(rt, L("num")))
			return "pos:number@" + region
		}
	case cat < 62 && types != nil && types.Kind == 'o' && len(types.Vals) > 0:
		ti := rapid.IntRange(0, len(types.Vals)-1).Draw(rt, L("type"))
		if fi := indexOfKey(types, focus); focus != "" && fi < len(types.Keys) && types.Keys[fi] == focus && rapid.IntRange(0, 2).Draw(rt, L("focus")) != 0 {
			ti = fi
		}
		return mutateTypeDef(rt, L, types, ti)
	case cat < 67 && types != nil && types.Kind == 'o' && len(types.Vals) > 0:
		// give one struct type an odd name, consistently (key, primaryType, member types) …
		name, ok := renameOdd(rt, L("odd"), root, -1)
		if !ok {
			return "types:odd-name-none"
		}
		// … and half of the time damage the definition of that very type as well
		if rapid.Bool().Draw(rt, L("also")) {
			return "types:odd-struct-name+" + strings.TrimPrefix(mutateTypeDef(rt, L, types, indexOfKey(types, name)), "types:")
		}
		return "types:odd-struct-name"
	case cat < 73:
		switch rapid.IntRange(0, 7).Draw(rt, L("pt")) {
		case 0:
			root.Set("primaryType", eip712ref.JStr(rapid.SampledFrom(oddTypes).Draw(rt, L("odd"))))
			return "primary:odd"
		case 1:
			root.Set("primaryType", tdgen.JunkValue(rt, L("junk"), 1))
			return "primary:kind"
		case 2:
			root.Del("primaryType")
			return "primary:missing"
		case 3:
			root.Set("primaryType", eip712ref.JStr("EIP712Domain"))
			return "primary:domain"
		case 4:
			if types != nil && types.Kind == 'o' && len(types.Keys) > 0 {
				root.Set("primaryType", eip712ref.JStr(types.Keys[rapid.IntRange(0, len(types.Keys)-1).Draw(rt, L("other"))]))
				return "primary:other-struct"
			}
			root.Set("primaryType", eip712ref.JStr("T"))
			return "primary:undefined"
		case 5:
			if p := root.Get("primaryType"); p != nil && p.Kind == 's' {
				root.Set("primaryType", eip712ref.JStr(p.Str+rapid.SampledFrom([]string{"[]", "[1]", " ", "[", "]"}).Draw(rt, L("psuffix"))))
			}
			return "primary:suffix"
		case 6:
			root.Set(rapid.SampledFrom([]string{"message", "domain", "types"}).Draw(rt, L("which")), tdgen.JunkValue(rt, L("junk"), 2))
			return "top:section-kind"
		default:
			root.Del(rapid.SampledFrom([]string{"message", "domain", "types"}).Draw(rt, L("which")))
			return "top:section-missing"
		}
	default:
		// value-shape mutations inside message / domain
		var slots []slot
		for _, region := range []string{"message", "domain"} {
			if sub := root.Get(region); sub != nil {
				slots = append(slots, slot{root, indexOfKey(root, region), 0})
				collect(sub, 1, &slots)
			}
		}
		if len(slots) == 0 {
			root.Set("message", eip712ref.JArr())
			return "value:message-array"
		}
		s := slots[rapid.IntRange(0, len(slots)-1).Draw(rt, L("slot"))]
		// two more draws: prefer arrays, then objects (shape mutations are the rarer ones)
		for i := 0; i < 2 && s.parent.Vals[s.idx].Kind != 'a'; i++ {
			s2 := slots[rapid.IntRange(0, len(slots)-1).Draw(rt, L(fmt.Sprintf("slot%d", i+2)))]
			k2 := s2.parent.Vals[s2.idx].Kind
			if k2 == 'a' || (k2 == 'o' && s.parent.Vals[s.idx].Kind != 'o') {
				s = s2
			}
		}
		cur := s.parent.Vals[s.idx]
		switch cur.Kind {
		case 'a':
			switch rapid.IntRange(0, 3).Draw(rt, L("aop")) {
			case 0:
				if len(cur.Vals) > 0 {
					cur.Vals = append(cur.Vals, cur.Vals[len(cur.Vals)-1].Clone())
				} else {
					cur.Vals = append(cur.Vals, eip712ref.JNull())
				}
				return "value:array-grow"
			case 1:
				if len(cur.Vals) > 0 {
					cur.Vals = cur.Vals[:len(cur.Vals)-1]
					return "value:array-shrink"
				}
				s.parent.Vals[s.idx] = eip712ref.JNull()
				return "value:array-null"
			case 2:
				s.parent.Vals[s.idx] = junkScalar(rt, L("junk"))
				return "value:array-to-scalar"
			default:
				s.parent.Vals[s.idx] = eip712ref.JObj()
				return "value:array-to-object"
			}
		case 'o':
			switch rapid.IntRange(0, 2).Draw(rt, L("oop")) {
			case 0:
				s.parent.Vals[s.idx] = &eip712ref.JNode{Kind: 'a', Vals: cur.Vals}
				return "value:struct-to-array"
			case 1:
				s.parent.Vals[s.idx] = junkScalar(rt, L("junk"))
				return "value:struct-to-scalar"
			default:
				s.parent.Vals[s.idx] = eip712ref.JStr(cur.Text())
				return "value:struct-to-string"
			}
		case 'n':
			s.parent.Vals[s.idx] = rapid.SampledFrom([]*eip712ref.JNode{eip712ref.JStr(""), eip712ref.JNum("0"), {Kind: 'a'}, eip712ref.JBool(false)}).Draw(rt, L("nullto")).Clone()
			return "value:null-to-other"
		default:
			s.parent.Vals[s.idx] = rapid.SampledFrom([]*eip712ref.JNode{
				eip712ref.JNum("1.5"), eip712ref.JNum("-1"), eip712ref.JNum("1e400"), eip712ref.JNum("9007199254740993"), eip712ref.JNum("18446744073709551616"),
				eip712ref.JNum("115792089237316195423570985008687907853269984665640564039457584007913129639936"),
				eip712ref.JStr("115792089237316195423570985008687907853269984665640564039457584007913129639936"),
				eip712ref.JStr("0x10000000000000000000000000000000000000000000000000000000000000000"),
				eip712ref.JStr("-1"), eip712ref.JStr("0x"), eip712ref.JStr("0xzz"), eip712ref.JStr("0x012"), eip712ref.JStr(""), eip712ref.JStr("true"), eip712ref.JStr("1e3"), eip712ref.JStr("0b101"), eip712ref.JStr("1_000"), eip712ref.JStr(" 1"),
				eip712ref.JBool(true), eip712ref.JObj(), {Kind: 'a'},
				eip712ref.JStr("0x" + strings.Repeat("ab", 33)), eip712ref.JStr("0x" + strings.Repeat("ab", 19)),
			}).Draw(rt, L("atom")).Clone()
			return "value:atomic-to-other"
		}
	}
}

// mutateTypeDef applies one generated mutation to the definition of struct type number ti
// (the whole definition, or one of its members).
func mutateTypeDef(rt *rapid.T, L func(string) string, types *eip712ref.JNode, ti int) string {
	def := types.Vals[ti]
	op := rapid.IntRange(0, 15).Draw(rt, L("top"))
	if op >= 10 || def.Kind != 'a' || len(def.Vals) == 0 {
		// whole definition
		switch rapid.IntRange(0, 9).Draw(rt, L("defop")) {
		case 0:
			types.Vals[ti] = eip712ref.JNull()
			return "types:def-null"
		case 1:
			types.Vals[ti] = eip712ref.JArr(eip712ref.JNull())
			return "types:def-[null]"
		case 2:
			types.Vals[ti] = eip712ref.JArr(eip712ref.JObj())
			return "types:def-[{}]"
		case 3:
			types.Vals[ti] = eip712ref.JArr(&eip712ref.JNode{Kind: 'a'})
			return "types:def-[[]]"
		case 4:
			types.Vals[ti] = tdgen.JunkValue(rt, L("junk"), 1)
			return "types:def-junk"
		case 5:
			// rename: references to it become undefined
			types.Keys[ti] = rapid.SampledFrom([]string{"Renamed", "", "uint256", "string", "bool[]", "EIP712Domain", strings.ToLower(types.Keys[ti])}).Draw(rt, L("rename"))
			return "types:rename-def"
		case 6:
			if def.Kind == 'a' {
				def.Vals = append(def.Vals, eip712ref.JNull())
				return "types:append-null-member"
			}
			types.Vals[ti] = eip712ref.JArr(eip712ref.JNull(), eip712ref.JNull())
			return "types:def-[null,null]"
		case 7:
			if def.Kind == 'a' {
				pos := rapid.IntRange(0, len(def.Vals)).Draw(rt, L("ins"))
				m := eip712ref.JObj().Set("name", eip712ref.JStr(rapid.SampledFrom(oddNames).Draw(rt, L("n")))).Set("type", eip712ref.JStr(rapid.SampledFrom(oddTypes).Draw(rt, L("t"))))
				def.Vals = append(def.Vals[:pos:pos], append([]*eip712ref.JNode{m}, def.Vals[pos:]...)...)
				return "types:insert-odd-member"
			}
			types.Vals[ti] = &eip712ref.JNode{Kind: 'a'}
			return "types:def-empty"
		case 8:
			types.Vals[ti] = &eip712ref.JNode{Kind: 'a'}
			return "types:def-empty"
		default:
			types.Keys = append(types.Keys[:ti:ti], types.Keys[ti+1:]...)
			types.Vals = append(types.Vals[:ti:ti], types.Vals[ti+1:]...)
			return "types:remove-def"
		}
	}
	mi := rapid.IntRange(0, len(def.Vals)-1).Draw(rt, L("member"))
	m := def.Vals[mi]
	if m.Kind != 'o' {
		def.Vals[mi] = eip712ref.JObj().Set("name", eip712ref.JStr("x")).Set("type", eip712ref.JStr("uint256"))
		return "types:member-restore"
	}
	tnode := m.Get("type")
	cur := ""
	if tnode != nil && tnode.Kind == 's' {
		cur = tnode.Str
	}
	switch op {
	case 0, 1:
		m.Set("type", eip712ref.JStr(cur+rapid.SampledFrom(badSuffixes).Draw(rt, L("suffix"))))
		return "types:malformed-array-suffix"
	case 2:
		m.Set("type", eip712ref.JStr(rapid.SampledFrom(oddTypes).Draw(rt, L("odd"))))
		return "types:odd-member-type"
	case 3:
		// point at a struct (possibly itself): new cycles / shape mismatches with the value
		target := types.Keys[rapid.IntRange(0, len(types.Keys)-1).Draw(rt, L("target"))]
		m.Set("type", eip712ref.JStr(target+rapid.SampledFrom([]string{"", "", "[]", "[2]", "[][]"}).Draw(rt, L("tsuffix"))))
		return "types:retarget-to-struct"
	case 4:
		// add or change a well-formed array suffix: value no longer has the shape
		base := cur
		if i := strings.IndexByte(cur, '['); i >= 0 && rapid.Bool().Draw(rt, L("strip")) {
			base = cur[:i]
		}
		m.Set("type", eip712ref.JStr(base+rapid.SampledFrom([]string{"[]", "[1]", "[2]", "[3]", "[4]", "[][]", "[2][2]", ""}).Draw(rt, L("dims"))))
		return "types:change-dimensions"
	case 5:
		m.Set("type", eip712ref.JStr(tdgen.AtomicType(rt, L("atomic"))))
		return "types:other-atomic"
	case 6:
		m.Set("name", eip712ref.JStr(rapid.SampledFrom(oddNames).Draw(rt, L("oddname"))))
		return "types:odd-member-name"
	case 7:
		m.Set(rapid.SampledFrom([]string{"name", "type"}).Draw(rt, L("field")), tdgen.JunkValue(rt, L("junk"), 1))
		return "types:member-field-kind"
	case 8:
		m.Del(rapid.SampledFrom([]string{"name", "type"}).Draw(rt, L("field")))
		return "types:member-field-missing"
	default:
		def.Vals[mi] = rapid.SampledFrom([]*eip712ref.JNode{eip712ref.JNull(), eip712ref.JStr("uint256 x"), eip712ref.JNum("1"), {Kind: 'a'}, eip712ref.JBool(true)}).Draw(rt, L("memberkind")).Clone()
		return "types:member-kind"
	}
}

// oddStructNames are names no struct type should have: with brackets (the library strips
// member types at the first '[' when it collects dependencies and reads a trailing ']' as
// an array), with the separators of encodeType, blank, non-ASCII, shadowing atomic and
// ABI-only types, looking like arrays of something.
var oddStructNames = []string{
	"Foo[x", "Foo[]", "Foo[2]", "Foo[", "Foo]", "Foo[][]", "Foo[0]", "Foo[-1]", "Foo[]x", "[", "]", "[]", "[1]", "[x", "][", "a[b]c",
	"", " ", "a b", " Foo", "Foo ", "a,b", "a(b", "a)b", "(", ")", "()", "(uint256)", "Foo(uint256 x)", "Foo,uint256 x", "x)Foo(", ".", "a.b",
	"é", "漢字", "\u0000", "\u2028", "😀", "\"", "\\",
	"uint256", "uint8", "int256", "int8", "bytes32", "bytes1", "bytes", "string", "bool", "address",
	"uint", "int", "byte", "tuple", "function", "fixed", "ufixed128x18", "uint7", "bytes33",
	"uint256[]", "string[]", "bool[2]", "bytes1[", "tuple[]", "address[x",
	"EIP712Domain[]", "EIP712Domain[", "EIP712Domain ", "eip712domain", "EIP712Domain(",
}

// structRefBase is the part of a member type that selects the struct: everything before the
// array suffixes the generator itself wrote (the longest suffix of "[]" / "[n]" groups).
func splitGeneratedSuffix(t string) (base, suffix string) {
	end := len(t)
	for end > 0 && t[end-1] == ']' {
		i := strings.LastIndexByte(t[:end], '[')
		if i < 0 {
			break
		}
		ok := true
		for _, c := range t[i+1 : end-1] {
			if c < '0' || c > '9' {
				ok = false
			}
		}
		if !ok {
			break
		}
		end = i
	}
	return t[:end], t[end:]
}

// renameStruct renames struct type old to name everywhere it is used as a name: as key of
// types, as primaryType and as (base of a) member type.
func renameStruct(root *eip712ref.JNode, old, name string) {
	types := root.Get("types")
	if types == nil || types.Kind != 'o' {
		return
	}
	for i, k := range types.Keys {
		if k == old {
			types.Keys[i] = name
		}
	}
	if p := root.Get("primaryType"); p != nil && p.Kind == 's' && p.Str == old {
		p.Str = name
	}
	for _, def := range types.Vals {
		if def.Kind != 'a' {
			continue
		}
		for _, m := range def.Vals {
			if t := m.Get("type"); m.Kind == 'o' && t != nil && t.Kind == 's' {
				if base, suffix := splitGeneratedSuffix(t.Str); base == old {
					t.Str = name + suffix
				}
			}
		}
	}
}

// renameOdd gives one struct type of the document (number which, or a drawn one with a
// preference for the primary type) an odd name, consistently.  It reports the new name.
func renameOdd(rt *rapid.T, label string, root *eip712ref.JNode, which int) (string, bool) {
	types := root.Get("types")
	if types == nil || types.Kind != 'o' || len(types.Keys) == 0 {
		return "", false
	}
	if which < 0 {
		which = rapid.IntRange(0, len(types.Keys)-1).Draw(rt, label+".which")
		if p := root.Get("primaryType"); p != nil && p.Kind == 's' && rapid.Bool().Draw(rt, label+".primary") {
			if pi := indexOfKey(types, p.Str); types.Keys[pi] == p.Str {
				which = pi
			}
		}
	}
	old := types.Keys[which]
	var name string
	switch rapid.IntRange(0, 3).Draw(rt, label+".mode") {
	case 0:
		// the old name with something appended: prefixes of one another become frequent
		name = old + rapid.SampledFrom(append([]string{"[]", "[2]", "[x", " ", ",", "(", ")", "()", "[][]"}, badSuffixes...)).Draw(rt, label+".suffix")
	default:
		name = rapid.SampledFrom(oddStructNames).Draw(rt, label+".name")
	}
	for _, k := range types.Keys {
		if k == name {
			return "", false
		}
	}
	renameStruct(root, old, name)
	return name, true
}

func indexOfKey(n *eip712ref.JNode, key string) int {
	for i := len(n.Keys) - 1; i >= 0; i-- {
		if n.Keys[i] == key {
			return i
		}
	}
	return 0
}

// textMutation damages the JSON text itself.
func textMutation(rt *rapid.T, text []byte) ([]byte, string) {
	out := append([]byte{}, text...)
	switch rapid.IntRange(0, 8).Draw(rt, "tm.op") {
	case 0:
		if len(out) > 0 {
			out = out[:rapid.IntRange(0, len(out)-1).Draw(rt, "tm.cut")]
		}
		return out, "text:truncate"
	case 1:
		if len(out) > 0 {
			out[rapid.IntRange(0, len(out)-1).Draw(rt, "tm.i")] = rapid.Byte().Draw(rt, "tm.b")
		}
		return out, "text:byte"
	case 2:
		return append(out, []byte(rapid.SampledFrom([]string{" ", "\n", "x", "{}", ",", "\x00"}).Draw(rt, "tm.tail"))...), "text:trailing"
	case 3:
		return append([]byte("\xef\xbb\xbf"), out...), "text:bom"
	case 4:
		// duplicate a top-level section with other content
		s := string(out)
		if strings.HasSuffix(s, "}") {
			extra := rapid.SampledFrom([]string{`,"types":{}`, `,"message":null`, `,"domain":{"name":1}`, `,"primaryType":"EIP712Domain"`, `,"Types":{"EIP712Domain":[null]}`, `,"PRIMARYTYPE":"x"`}).Draw(rt, "tm.dup")
			return []byte(s[:len(s)-1] + extra + "}"), "text:duplicate-or-case-variant-key"
		}
		return out, "text:none"
	case 5:
		depth := rapid.SampledFrom([]int{100, 5000, 9999, 10001, 20000}).Draw(rt, "tm.depth")
		open := rapid.SampledFrom([]string{"[", `{"a":`}).Draw(rt, "tm.open")
		closeS := "]"
		if open != "[" {
			closeS = "}"
		}
		if depth*len(open) > maxDocBytes/2 {
			depth = maxDocBytes / 2 / len(open)
		}
		deep := strings.Repeat(open, depth) + "1" + strings.Repeat(closeS, depth)
		return []byte(`{"types":{"T":[{"name":"a","type":"uint8[]"}]},"primaryType":"T","message":{"a":` + deep + `}}`), "text:deep-nesting"
	case 6:
		n := rapid.SampledFrom([]int{1000, 5000, 15000}).Draw(rt, "tm.suffixes")
		return []byte(`{"types":{"T":[{"name":"a","type":"uint8` + strings.Repeat("[]", n) + `"}]},"primaryType":"T","message":{"a":[]}}`), "text:many-array-suffixes"
	case 7:
		lit := rapid.SampledFrom([]string{"1e999999999", "-1e999999999", "1e-999999999", "0." + strings.Repeat("0", 400) + "1", strings.Repeat("9", 5000), "1" + strings.Repeat("0", 400) + "e-400"}).Draw(rt, "tm.biglit")
		return []byte(`{"types":{"T":[{"name":"a","type":"uint256"}]},"primaryType":"T","message":{"a":` + lit + `}}`), "text:huge-number-literal"
	default:
		// a long chain of struct types
		n := rapid.IntRange(50, 400).Draw(rt, "tm.chain")
		var sb strings.Builder
		sb.WriteString(`{"types":{`)
		for i := 0; i < n; i++ {
			if i > 0 {
				sb.WriteByte(',')
			}
			fmt.Fprintf(&sb, `"S%d":[{"name":"n","type":"S%d"}]`, i, (i+1)%n)
		}
		sb.WriteString(`},"primaryType":"S0","message":{"n":{"n":{"n":null}}}}`)
		return []byte(sb.String()), "text:long-type-cycle"
	}
}

// arbitraryJSON draws JSON that has nothing to do with typed data.
func arbitraryJSON(rt *rapid.T) []byte {
	switch rapid.IntRange(0, 4).Draw(rt, "aj.mode") {
	case 0:
		return []byte(tdgen.JunkValue(rt, "aj", 4).Text())
	case 1:
		// an object with the right keys and junk underneath
		o := eip712ref.JObj()
		for _, k := range []string{"types", "primaryType", "domain", "message"} {
			if rapid.IntRange(0, 4).Draw(rt, "aj.has."+k) != 0 {
				o.Set(k, tdgen.JunkValue(rt, "aj."+k, 3))
			}
		}
		return []byte(o.Text())
	case 2:
		return []byte(rapid.SampledFrom([]string{"null", "[]", "{}", `""`, "0", "true", `{"types":null}`, `{"primaryType":"EIP712Domain"}`, `{"types":{"EIP712Domain":null},"primaryType":"EIP712Domain"}`, `{"types":{"":[]},"primaryType":""}`, `[{"types":{}}]`}).Draw(rt, "aj.const"))
	case 3:
		return []byte(rapid.StringN(0, 60, -1).Draw(rt, "aj.str"))
	default:
		return rapid.SliceOfN(rapid.Byte(), 0, 60).Draw(rt, "aj.bytes")
	}
}

// ---- bounded exhaustive: tiny documents around one (oddly) named struct type
//
// name x shape of its definition x how the name is used (primaryType, member type, element
// type, below EIP712Domain) x value offered for it.  The mutation generator reaches these
// combinations only with small probability each; the product is small enough to enumerate.

var tinyDefs = []string{
	`null`, `[]`, `[null]`, `[{}]`, `[[]]`, `"x"`, `{}`,
	`[{"name":"a","type":"uint256"}]`, `[{"name":"a","type":%N}]`, `[{"name":"a","type":%A}]`, `[{"name":"a","type":"Other"}]`,
	`[{"name":"a"}]`, `[{"type":"uint256"}]`, `[{"name":null,"type":null}]`,
	`[null,{"name":"a","type":"uint256"}]`, `[{"name":"a","type":"uint256"},null]`, `[{"name":"a","type":%N},null]`,
	`[{"name":"a","type":"string"},{"name":"a","type":"string"}]`,
}

var tinyValues = []string{`{}`, `null`, ``, `{"a":1}`, `{"a":"1"}`, `{"a":null}`, `{"a":{}}`, `{"a":{"a":{"a":null}}}`, `{"a":[null]}`, `{"a":[{}]}`, `[]`, `[{}]`, `"x"`, `1`}

var tinyUses = []string{"primary", "member", "element", "domain-member", "is-domain"}

func tinyNames() []string {
	return append([]string{"Foo", "EIP712Domain"}, oddStructNames...)
}

// tinyDoc renders one combination; ok is false for combinations that do not exist.
func tinyDoc(name, def, use, value string) (text string, ok bool) {
	q := func(s string) string { return eip712ref.JStr(s).Text() }
	def = strings.ReplaceAll(strings.ReplaceAll(def, "%N", q(name)), "%A", q(name+"[]"))
	field := func(key, v string) string {
		if v == "" {
			return ""
		}
		return `,"` + key + `":` + v
	}
	wrap := func(v string) string {
		if v == "" {
			return `{}`
		}
		return `{"m":` + v + `}`
	}
	other := `,"Other":[null]`
	if name == "Other" {
		other = ""
	}
	switch use {
	case "primary":
		return `{"types":{` + q(name) + `:` + def + other + `},"primaryType":` + q(name) + field("message", value) + `}`, true
	case "member":
		if name == "W" {
			return "", false
		}
		return `{"types":{"W":[{"name":"m","type":` + q(name) + `}],` + q(name) + `:` + def + other + `},"primaryType":"W","message":` + wrap(value) + `}`, true
	case "element":
		if name == "W" {
			return "", false
		}
		if value != "" {
			value = `[` + value + `]`
		}
		return `{"types":{"W":[{"name":"m","type":` + q(name+"[]") + `}],` + q(name) + `:` + def + other + `},"primaryType":"W","message":` + wrap(value) + `}`, true
	case "domain-member":
		if name == eip712ref.DomainType {
			return "", false
		}
		return `{"types":{"EIP712Domain":[{"name":"m","type":` + q(name) + `}],` + q(name) + `:` + def + other + `},"primaryType":"EIP712Domain","domain":` + wrap(value) + `}`, true
	default:
		// the definition is that of EIP712Domain itself, the name is what it refers to
		return `{"types":{"EIP712Domain":` + def + other + `},"primaryType":` + q(name) + field("domain", value) + `,"message":{}}`, true
	}
}

func docClasses(label string, text []byte, o observation, ref eip712ref.Verdict) (cl []string, nt bool) {
	cl = append(cl, label)
	valid := json.Valid(text)
	switch {
	case !valid:
		cl = append(cl, "lib:not-json")
	case !o.reached:
		cl = append(cl, "lib:unmarshal-error")
	case o.accepted():
		cl = append(cl, "lib:digest")
	default:
		cl = append(cl, "lib:encode-error")
	}
	switch {
	case ref.Status == eip712ref.OK:
		cl = append(cl, "ref:well-formed")
	case ref.Status == eip712ref.Invalid && ref.MustReject:
		cl = append(cl, "ref:must-reject")
	case ref.Status == eip712ref.Invalid:
		cl = append(cl, "ref:invalid-other")
	default:
		cl = append(cl, "ref:unspecified")
	}
	seen := map[string]bool{}
	for _, n := range ref.Notes {
		if !seen[n] {
			seen[n] = true
			cl = append(cl, "ref-note:"+n)
		}
	}
	return cl, valid && o.reached
}

func genMutant(rt *rapid.T) ([]byte, string) {
	d := tdgen.GenDoc(rt, 5, false)
	root := d.Root
	if rapid.IntRange(0, 9).Draw(rt, "textLevel") == 0 {
		return textMutation(rt, []byte(root.Text()))
	}
	// one document in five has oddly named struct types to begin with (one of them, or
	// every one), used consistently as key of types, as primaryType and as member type:
	// the mutations below then meet those names
	focus, odd := "", ""
	if rapid.IntRange(0, 4).Draw(rt, "oddNames") == 0 {
		if types := root.Get("types"); rapid.IntRange(0, 2).Draw(rt, "oddAll") == 0 && types != nil {
			for i := range types.Keys {
				if types.Keys[i] != eip712ref.DomainType || rapid.IntRange(0, 3).Draw(rt, fmt.Sprintf("oddDomain%d", i)) == 0 {
					if name, ok := renameOdd(rt, fmt.Sprintf("odd%d", i), root, i); ok && (focus == "" || rapid.Bool().Draw(rt, fmt.Sprintf("oddFocus%d", i))) {
						focus = name
					}
				}
			}
		} else if name, ok := renameOdd(rt, "odd", root, -1); ok {
			focus = name
		}
		if focus != "" {
			odd = "odd-names+"
		}
	}
	n := 1
	if rapid.IntRange(0, 3).Draw(rt, "multi") == 0 {
		n = rapid.IntRange(2, 3).Draw(rt, "nmut")
	}
	label := ""
	for i := 0; i < n; i++ {
		var l string
		if types := root.Get("types"); i == 0 && focus != "" && types != nil && types.Kind == 'o' && rapid.IntRange(0, 2).Draw(rt, "oddDef") == 0 {
			// the definition of an oddly named type is damaged
			if fi := indexOfKey(types, focus); types.Keys[fi] == focus {
				l = mutateTypeDef(rt, func(s string) string { return "m0." + s }, types, fi)
			}
		}
		if l == "" {
			l = mutate(rt, root, i, focus)
		}
		if i == 0 {
			label = l
		}
	}
	if n > 1 {
		label = "multi"
	}
	label = odd + label
	text := []byte(root.Text())
	if len(text) > maxDocBytes {
		text = text[:maxDocBytes]
	}
	return text, "mut:" + label
}

func TestCheck(t *testing.T) {
	rec := evid.Start("C14", rule)
	defer rec.Finish()
	rec.Assume("totality is judged on json.Unmarshal into eip712.TypedData + EncodeTypedDataV4 + SignTypedDataV4 (KeyPair signer), each under recover()")
	rec.Assume("reference: ref/eip712ref.FromJSON, three-valued. Where it says well-formed the library must return that digest; where it says a value cannot have its declared type (non-object for a struct, non-array for an array, wrong element count for a fixed array, integer outside its type's range) the library must return an error; everywhere else (undefined/odd types, odd spellings, lenient byte lengths, duplicate or case-variant keys, fractions/exponents) only totality is asserted")
	rec.Assume("integers: decimal-string and 0x-hex-string spellings must be accepted with the reference digest; the JSON-number spelling (plain, or with fraction/exponent denoting exactly the integer) must be rejected or give that digest; out of range is rejected in every spelling. Non-integral numbers, leading zeros, 0b/0o, '_' and sign-prefixed hex are not asserted")
	rec.Assume("histories (kind history): one or two TypedData variables are decoded into again and again (with and without clearing them; encoding/json merges into the existing maps) and edited in place (integer slots given other spellings / values / out-of-range values, the slot's type changed, values deleted or replaced by junk); every hash is judged by the content of the variable at that moment, rendered to JSON: no panic, reference digest where well-formed, error where a value cannot have its declared type, and the same verdict as a new TypedData with that content")
	rec.Assume("tiny-docs: name (odd struct names: brackets, array suffixes, separators of encodeType, blank, non-ASCII, names of atomic / ABI-only types, EIP712Domain variants) x shape of its definition (null, [null], [{}], null members before/after, self references, …) x use (primaryType, member type, element type, member of EIP712Domain, EIP712Domain itself) x value is enumerated (quick tier: a third of the values); the mutation generator gives one document in five oddly named struct types used consistently as key, primaryType and member type before the other mutations are applied")
	kDoc := evid.NewKind(rec, "doc", judgeDoc).DeclareEach()
	kInt := evid.NewKind(rec, "int", judgeInt)
	kHist := evid.NewKind(rec, "history", judgeHistory).DeclareEach()
	// the same judges from several goroutines at once (documents the library hashes, the heaviest kept)
	pDoc := evid.NewPool(rec, "concurrent-doc", judgeDocPure, 64).DeclareEach()
	pInt := evid.NewPool(rec, "concurrent-int", judgeInt, 64).DeclareEach()
	pHist := evid.NewPool(rec, "concurrent-history", judgeHistory, 32).DeclareEach()
	rec.Corpus(t)

	// bounded exhaustive: every integer type x boundary values x positions (all spellings inside the judge)
	t.Run("int-boundaries", func(t *testing.T) {
		positions := []string{"member", "array", "nested", "domain"}
		idx := 0
		for _, signed := range []bool{false, true} {
			for w := 1; w <= 32; w++ {
				bits := 8 * w
				typ := fmt.Sprintf("uint%d", bits)
				if signed {
					typ = fmt.Sprintf("int%d", bits)
				}
				for _, v := range boundaryValues(signed, bits) {
					idx++
					if idx%rec.Shards != rec.Shard {
						continue
					}
					// in the quick tier every value goes to one (rotating) position, thorough: all four
					ps := positions
					if !rec.Thorough() {
						ps = positions[idx%4 : idx%4+1]
					}
					for _, p := range ps {
						c := IntCase{Type: typ, Value: v.String(), Pos: p}
						cl, nt := intClasses(c)
						kInt.Must(t, c, nt, append(cl, "int:boundary-sweep")...)
					}
				}
			}
		}
	})

	// bounded exhaustive: tiny documents (quick tier: a third of the values for every name x definition x use)
	t.Run("tiny-docs", func(t *testing.T) {
		idx := 0
		for _, name := range tinyNames() {
			for _, def := range tinyDefs {
				for ui, use := range tinyUses {
					for vi, value := range tinyValues {
						idx++
						if idx%rec.Shards != rec.Shard {
							continue
						}
						if !rec.Thorough() && (vi+ui+int(rec.Seed))%3 != 0 {
							continue
						}
						text, ok := tinyDoc(name, def, use, value)
						if !ok {
							continue
						}
						vs := kDoc.EvalLazy(caseOf([]byte(text)), func() (bool, []string) {
							cl, nt := docClasses("tiny:"+use, []byte(text), lastObs, lastRef)
							return nt, cl
						})
						if len(vs) > 0 {
							t.Errorf("C14/doc: %s: %s (%s)", vs[0].Clause, strings.SplitN(vs[0].Detail, "\n", 2)[0], clip(text))
						}
					}
				}
			}
		}
	})

	rec.Rapid(t, "int", rec.N(2000, 20000), func(rt *rapid.T) {
		c := genIntCase(rt)
		cl, nt := intClasses(c)
		pInt.Offer(c)
		kInt.Check(rt, c, nt, cl...)
	})

	rec.Rapid(t, "mutants", rec.N(6000, 50000), func(rt *rapid.T) {
		text, label := genMutant(rt)
		kDoc.CheckLazy(rt, caseOf(text), func() (bool, []string) {
			cl, nt := docClasses(label, text, lastObs, lastRef)
			if lastObs.accepted() {
				pDoc.Offer(caseOf(text))
			}
			return nt, cl
		})
	})

	rec.Rapid(t, "history", rec.N(1200, 10000), func(rt *rapid.T) {
		c, cl, nt := genHistory(rt)
		pHist.Offer(c)
		kHist.Check(rt, c, nt, cl...)
	})

	rec.Rapid(t, "arbitrary", rec.N(1500, 10000), func(rt *rapid.T) {
		text := arbitraryJSON(rt)
		kDoc.CheckLazy(rt, caseOf(text), func() (bool, []string) {
			cl, nt := docClasses("arbitrary", text, lastObs, lastRef)
			return nt, cl
		})
	})

	pDoc.Run(t, 8, 3, 16)
	pInt.Run(t, 8, 3, 16)
	pHist.Run(t, 8, 2, 8)
}

func TestReplay(t *testing.T) {
	rec := evid.Start("C14", rule)
	evid.NewKind(rec, "doc", judgeDoc).DeclareEach()
	evid.NewKind(rec, "int", judgeInt)
	evid.NewKind(rec, "history", judgeHistory).DeclareEach()
	evid.NewPool(rec, "concurrent-doc", judgeDocPure, 0).DeclareEach()
	evid.NewPool(rec, "concurrent-int", judgeInt, 0).DeclareEach()
	evid.NewPool(rec, "concurrent-history", judgeHistory, 0).DeclareEach()
	rec.Replay(t)
}

// ---- native fuzzing

var fuzzSeeds = []string{
	`{"types":{"EIP712Domain":[{"name":"name","type":"string"},{"name":"version","type":"string"},{"name":"chainId","type":"uint256"},{"name":"verifyingContract","type":"address"}],"Person":[{"name":"name","type":"string"},{"name":"wallet","type":"address"}],"Mail":[{"name":"from","type":"Person"},{"name":"to","type":"Person"},{"name":"contents","type":"string"}]},"primaryType":"Mail","domain":{"name":"Ether Mail","version":"1","chainId":1,"verifyingContract":"0xCcCCccccCCCCcCCCCCCcCcCccCcCCCcCcccccccC"},"message":{"from":{"name":"Cow","wallet":"0xCD2a3d9F938E13CD947Ec05AbC7FE734Df8DD826"},"to":{"name":"Bob","wallet":"0xbBbBBBBbbBBBbbbBbbBbbbbBBbBbbbbBbBbbBBbB"},"contents":"Hello, Bob!"}}`,
	`{"types":{"Person":[{"name":"name","type":"string"},{"name":"wallets","type":"address[]"}],"Mail":[{"name":"from","type":"Person"},{"name":"to","type":"Person[]"},{"name":"contents","type":"string"}]},"primaryType":"Mail","message":{"from":null,"to":[{"name":"Bob","wallets":["0xbBbBBBBbbBBBbbbBbbBbbbbBBbBbbbbBbBbbBBbB"]},null],"contents":"x"}}`,
	`{"types":{"A":[{"name":"i32","type":"int32"},{"name":"u","type":"uint256"},{"name":"t","type":"bool"},{"name":"b16","type":"bytes16"},{"name":"b","type":"bytes"},{"name":"s","type":"string[2][]"},{"name":"r","type":"A[]"}]},"primaryType":"A","message":{"i32":-12345,"u":"0xffffffffffffffffffffffffffffffffffffffffffffffffffffffffffffffff","t":true,"b16":"0x000102030405060708090a0b0c0f0e0f","b":"0xfeedbeef","s":[["a","b"]],"r":[null]}}`,
	`{"types":{},"primaryType":"EIP712Domain"}`,
	`{"types":{"T":[{"name":"v","type":"uint64"}]},"primaryType":"T","message":{"v":18446744073709551615}}`,
	`{"types":{"T":[{"name":"v","type":"int8[1]"}]},"primaryType":"T","message":{"v":[1e2]}}`,
	`{"types":{"Foo[x":[{"name":"a","type":"Foo[x"},{"name":"b","type":"uint256[2]"},{"name":"c","type":"a b"}],"a b":[{"name":"x","type":"Foo[x[]"}],"uint8":[{"name":"","type":"uint8"}]},"primaryType":"Foo[x","message":{"a":null,"b":[1,"2"],"c":{"x":[]}}}`,
}

// FuzzTypedData feeds raw bytes to the same oracle as kind "doc".
func FuzzTypedData(f *testing.F) {
	for _, s := range fuzzSeeds {
		f.Add([]byte(s))
	}
	// the committed regression documents are seeds too
	files, _ := filepath.Glob(filepath.Join(evid.VerifDir(), "corpus", "C14", "*.json"))
	sort.Strings(files)
	for _, p := range files {
		var rf evid.ReplayFile
		var c DocCase
		if b, err := os.ReadFile(p); err == nil && json.Unmarshal(b, &rf) == nil && rf.Kind == "doc" && json.Unmarshal(rf.Case, &c) == nil {
			f.Add(c.text())
		}
	}
	rec := evid.Start("C14", rule)
	k := evid.NewKind(rec, "doc", judgeDoc)
	f.Fuzz(func(t *testing.T, in []byte) {
		if len(in) > maxDocBytes {
			return
		}
		vs, _, _ := judgeText(in)
		if len(vs) > 0 {
			k.Fail(t, caseOf(in), vs)
		}
	})
}

// ---- structure-aware native fuzzing: a compact byte program of tree mutations

var fuzzJunk = []string{`null`, `true`, `false`, `0`, `1`, `-1`, `1.5`, `1e400`, `-0`, `9007199254740993`, `18446744073709551616`,
	`115792089237316195423570985008687907853269984665640564039457584007913129639936`, `""`, `"x"`, `"0x"`, `"0x01"`, `"-1"`, `"true"`, `"uint256"`,
	`{}`, `[]`, `[null]`, `[[]]`, `[{}]`, `{"a":1}`, `[1,2,3]`, `"0x0000000000000000000000000000000000000001"`}

// byteMutate applies one mutation encoded in four bytes to the tree.
func byteMutate(root *eip712ref.JNode, op, a, b, c byte) {
	var slots []slot
	collect(root, 0, &slots)
	if len(slots) == 0 {
		return
	}
	s := slots[(int(a)<<8|int(b))%len(slots)]
	cur := s.parent.Vals[s.idx]
	junk := func() *eip712ref.JNode {
		n, _ := eip712ref.ParseJSON([]byte(fuzzJunk[int(c)%len(fuzzJunk)]))
		return n
	}
	switch op % 14 {
	case 0:
		s.parent.Vals[s.idx] = eip712ref.JNull()
	case 1:
		s.parent.Vals[s.idx] = junk()
	case 2:
		if s.parent.Kind == 'o' {
			s.parent.Keys = append(s.parent.Keys[:s.idx:s.idx], s.parent.Keys[s.idx+1:]...)
		}
		s.parent.Vals = append(s.parent.Vals[:s.idx:s.idx], s.parent.Vals[s.idx+1:]...)
	case 3:
		if s.parent.Kind == 'a' {
			s.parent.Vals = append(s.parent.Vals, cur.Clone())
		} else {
			s.parent.Set(s.parent.Keys[s.idx]+"2", cur.Clone())
		}
	case 4:
		s.parent.Vals[s.idx] = eip712ref.JArr(cur)
	case 5:
		if (cur.Kind == 'a' || cur.Kind == 'o') && len(cur.Vals) > 0 {
			s.parent.Vals[s.idx] = cur.Vals[int(c)%len(cur.Vals)]
		} else {
			s.parent.Vals[s.idx] = eip712ref.JObj().Set("v", cur)
		}
	case 6:
		if cur.Kind == 's' {
			cur.Str += badSuffixes[int(c)%len(badSuffixes)]
		} else {
			s.parent.Vals[s.idx] = eip712ref.JStr(cur.Text())
		}
	case 7:
		s.parent.Vals[s.idx] = eip712ref.JStr(oddTypes[int(c)%len(oddTypes)])
	case 8:
		s.parent.Vals[s.idx] = eip712ref.JStr(oddNames[int(c)%len(oddNames)])
	case 9:
		s2 := slots[int(c)%len(slots)]
		x, y := s.parent.Vals[s.idx].Clone(), s2.parent.Vals[s2.idx].Clone()
		s.parent.Vals[s.idx], s2.parent.Vals[s2.idx] = y, x
	case 10:
		switch cur.Kind {
		case 'o':
			s.parent.Vals[s.idx] = &eip712ref.JNode{Kind: 'a', Vals: cur.Vals}
		case 'a':
			o := eip712ref.JObj()
			for i, v := range cur.Vals {
				o.Set(fmt.Sprint(i), v)
			}
			s.parent.Vals[s.idx] = o
		default:
			s.parent.Vals[s.idx] = eip712ref.JArr(cur, cur.Clone())
		}
	case 11:
		if s.parent.Kind == 'o' {
			k := s.parent.Keys[s.idx]
			s.parent.Keys[s.idx] = []string{strings.ToUpper(k), k + " ", "", k + k, "types", "message", "name", "type"}[int(c)%8]
		}
	case 13:
		// give a struct type an odd name, consistently (key of types, primaryType, member types)
		if types := root.Get("types"); types != nil && types.Kind == 'o' && len(types.Keys) > 0 {
			old, name := types.Keys[(int(a)<<8|int(b))%len(types.Keys)], oddStructNames[int(c)%len(oddStructNames)]
			for _, k := range types.Keys {
				if k == name {
					return
				}
			}
			renameStruct(root, old, name)
		}
	default:
		// point a string (typically a member type or primaryType) at one of the document's own keys
		var keys []string
		for _, sl := range slots {
			if sl.parent.Kind == 'o' {
				keys = append(keys, sl.parent.Keys[sl.idx])
			}
		}
		if len(keys) > 0 {
			s.parent.Vals[s.idx] = eip712ref.JStr(keys[int(c)%len(keys)] + []string{"", "[]", "[2]"}[int(op/14)%3])
		}
	}
}

// FuzzMutants is the structure-aware target: a base document (one of the seeds /
// regression documents) plus a byte program of tree mutations (4 bytes each).
func FuzzMutants(f *testing.F) {
	bases := append([]string{}, fuzzSeeds...)
	files, _ := filepath.Glob(filepath.Join(evid.VerifDir(), "corpus", "C14", "*.json"))
	sort.Strings(files)
	for _, p := range files {
		var rf evid.ReplayFile
		var c DocCase
		if b, err := os.ReadFile(p); err == nil && json.Unmarshal(b, &rf) == nil && rf.Kind == "doc" && json.Unmarshal(rf.Case, &c) == nil && c.Doc != "" {
			bases = append(bases, c.Doc)
		}
	}
	var trees []*eip712ref.JNode
	for _, b := range bases {
		if n, err := eip712ref.ParseJSON([]byte(b)); err == nil {
			trees = append(trees, n)
		}
	}
	for i := range trees {
		f.Add(uint8(i), []byte{})
		f.Add(uint8(i), []byte{1, 0, 7, 3})
		f.Add(uint8(i), []byte{6, 0, 9, 2, 2, 0, 20, 0})
		f.Add(uint8(i), []byte{13, 0, 1, 0, 1, 0, 4, 3})
	}
	rec := evid.Start("C14", rule)
	k := evid.NewKind(rec, "doc", judgeDoc)
	f.Fuzz(func(t *testing.T, base uint8, prog []byte) {
		if len(prog) > 64 {
			prog = prog[:64]
		}
		root := trees[int(base)%len(trees)].Clone()
		for i := 0; i+4 <= len(prog); i += 4 {
			byteMutate(root, prog[i], prog[i+1], prog[i+2], prog[i+3])
		}
		text := []byte(root.Text())
		if len(text) > maxDocBytes {
			return
		}
		vs, _, _ := judgeText(text)
		if len(vs) > 0 {
			k.Fail(t, caseOf(text), vs)
		}
	})
}
