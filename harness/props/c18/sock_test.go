package c18

import (
	"context"
	"encoding/json"
	"fmt"
	"net/http"
	"net/http/httptest"
	"os"
	"strings"
	"sync"
	"sync/atomic"
	"time"

	"github.com/gorilla/websocket"
	"github.com/hyperledger/firefly-common/pkg/wsclient"
	"github.com/hyperledger/firefly-signer/pkg/rpcbackend"
	"pgregory.net/rapid"

	"verifharness/evid"
)

// SockCase drives the real client (real firefly-common wsclient, real sockets) against a
// gorilla/websocket server inside the harness.
//
//	Callers x CallsEach  concurrent goroutines issuing CallRPC one after the other
//	Subs                 subscriptions established before the calls start
//	DropAfter[k]         the k-th connection of the call phase is cut when it has received this many call requests (0 = never)
//	DropMode[k]          0 = cut instead of answering that request, 1 = answer everything held, then cut
//	Hold                 the server answers call requests in batches of up to Hold, newest first (flushing when idle)
//	Churn                a goroutine subscribes and unsubscribes while connections drop (every outcome allowed, it must return)
type SockCase struct {
	Callers   int   `json:"callers"`
	CallsEach int   `json:"calls_each"`
	Subs      int   `json:"subs"`
	DropAfter []int `json:"drop_after"`
	DropMode  []int `json:"drop_mode"`
	Hold      int   `json:"hold"`
	Churn     int   `json:"churn,omitempty"`
}

type sockConn struct {
	n         int
	subFrames map[string]int    // params token -> eth_subscribe frames seen on this connection
	subIDs    map[string]string // token -> server id (latest)
	idToken   map[string]string // server id -> token
	unsubs    []string          // server ids unsubscribed on this connection
	echoSeen  int
	dropped   bool
	cmd       chan string
	// ready: the client has answered a ping on this connection, i.e. its read loop runs, i.e. its
	// after-connect callback has returned. Connections are cut only then: the firefly-common transport
	// wedges for good when the socket fails while the callback is still sending (its Send has no
	// receiver once the send loop has exited) - a defect outside pkg/rpcbackend that would hide everything else.
	ready    atomic.Bool
	exited   bool
	assigned int            // ids handed to established subscriptions on this connection
	churned  int            // ids handed to churning subscriptions on this connection
	notified map[string]int // tag -> notifications written
	events   []string       // short trace for failure reports
}

type sockServer struct {
	mu       sync.Mutex
	c        SockCase
	path     string
	conns    []*sockConn
	phase    int // index of the first connection of the call phase; -1 before
	upgrader websocket.Upgrader
	raw      []*websocket.Conn
	foreign  int
	notifSeq int
}

type sockReq struct {
	ID     json.RawMessage   `json:"id"`
	Method string            `json:"method"`
	Params []json.RawMessage `json:"params"`
}

func (s *sockServer) ServeHTTP(w http.ResponseWriter, r *http.Request) {
	if r.URL.Path != s.path {
		s.mu.Lock()
		s.foreign++
		s.mu.Unlock()
		http.Error(w, "not this run", http.StatusNotFound)
		return
	}
	ws, err := s.upgrader.Upgrade(w, r, nil)
	if err != nil {
		return
	}
	s.mu.Lock()
	rec := &sockConn{n: len(s.conns), subFrames: map[string]int{}, subIDs: map[string]string{}, idToken: map[string]string{}, cmd: make(chan string, 8)}
	s.conns = append(s.conns, rec)
	s.raw = append(s.raw, ws)
	s.mu.Unlock()
	defer ws.Close()
	defer func() { s.mu.Lock(); rec.exited = true; s.mu.Unlock() }()
	ws.SetPongHandler(func(string) error { rec.ready.Store(true); return nil })
	_ = ws.WriteControl(websocket.PingMessage, []byte("verif"), time.Now().Add(10*time.Second))

	frames := make(chan []byte)
	done := make(chan struct{})
	defer close(done)
	go func() {
		defer close(frames)
		for {
			_, b, err := ws.ReadMessage()
			if err != nil {
				return
			}
			select {
			case frames <- b:
			case <-done:
				return
			}
		}
	}()
	var held []sockReq
	ev := func(format string, a ...interface{}) {
		s.mu.Lock()
		if len(rec.events) < 200 {
			rec.events = append(rec.events, fmt.Sprintf(format, a...))
		}
		s.mu.Unlock()
	}
	write := func(format string, a ...interface{}) bool {
		err := ws.WriteMessage(websocket.TextMessage, []byte(fmt.Sprintf(format, a...)))
		if err != nil {
			ev("write failed: %v", err)
		}
		return err == nil
	}
	notifyAll := func(tag string) {
		s.mu.Lock()
		type pair struct{ id, tok string }
		var l []pair
		for id, tok := range rec.idToken {
			if !strings.HasPrefix(tok, "churn") {
				// subscriptions that are unsubscribed concurrently get no events: what happens when an
				// Unsubscribe overtakes a notification inside the receive loop is deliberately not asserted
				l = append(l, pair{id, tok})
			}
		}
		s.mu.Unlock()
		for _, p := range l {
			s.mu.Lock()
			s.notifSeq++
			k := s.notifSeq
			s.mu.Unlock()
			ok := write(`{"jsonrpc":"2.0","method":"eth_subscription","params":{"subscription":%q,"result":{"conn":%d,"tok":%q,"k":%d,"tag":%q}}}`, p.id, rec.n, p.tok, k, tag)
			if ok {
				s.mu.Lock()
				if rec.notified == nil {
					rec.notified = map[string]int{}
				}
				rec.notified[tag]++
				s.mu.Unlock()
			}
		}
	}
	flush := func() {
		for i := len(held) - 1; i >= 0; i-- {
			var tok string
			if len(held[i].Params) == 1 {
				_ = json.Unmarshal(held[i].Params[0], &tok)
			}
			write(`{"jsonrpc":"2.0","id":%s,"result":"res-%s"}`, held[i].ID, tok)
		}
		if len(held) > 0 {
			notifyAll("tick")
		}
		held = nil
	}
	cut := func() {
		s.mu.Lock()
		rec.dropped = true
		s.mu.Unlock()
		_ = ws.UnderlyingConn().Close()
	}
	for {
		var idle <-chan time.Time
		if len(held) > 0 {
			idle = time.After(2 * time.Millisecond)
		}
		select {
		case b, ok := <-frames:
			if !ok {
				return
			}
			var req sockReq
			if json.Unmarshal(b, &req) != nil {
				continue
			}
			tok := ""
			if len(req.Params) == 1 {
				_ = json.Unmarshal(req.Params[0], &tok)
			}
			ev("%s %s", req.Method, tok)
			switch req.Method {
			case "eth_subscribe":
				s.mu.Lock()
				rec.subFrames[tok]++
				// Established subscriptions get the same small ids again on every connection (so that ids of a dead
				// connection collide with live ones). The churning subscriptions get ids that are unique across
				// connections: an Unsubscribe that was started before a drop may be sent on the next connection
				// with the old id (requests in limbo are not asserted) and must not hit somebody else's id there.
				var id string
				if strings.HasPrefix(tok, "churn") {
					rec.churned++
					id = fmt.Sprintf("0xc%dx%d", rec.n, rec.churned)
				} else {
					rec.assigned++
					id = fmt.Sprintf("0x%x", rec.assigned)
				}
				rec.subIDs[tok] = id
				rec.idToken[id] = tok
				s.mu.Unlock()
				write(`{"jsonrpc":"2.0","id":%s,"result":%q}`, req.ID, id)
				notifyAll("subscribed")
			case "eth_unsubscribe":
				s.mu.Lock()
				delete(rec.idToken, tok)
				rec.unsubs = append(rec.unsubs, tok)
				s.mu.Unlock()
				write(`{"jsonrpc":"2.0","id":%s,"result":true}`, req.ID)
			case "verif_sync":
				flush()
				write(`{"jsonrpc":"2.0","id":%s,"result":{"conn":%d}}`, req.ID, rec.n)
			case "verif_echo":
				s.mu.Lock()
				rec.echoSeen++
				seen := rec.echoSeen
				dropAt, mode := 0, 0
				if s.phase >= 0 && rec.n >= s.phase {
					k := rec.n - s.phase
					if k < len(s.c.DropAfter) {
						dropAt = s.c.DropAfter[k]
					}
					if k < len(s.c.DropMode) {
						mode = s.c.DropMode[k]
					}
				}
				s.mu.Unlock()
				if dropAt > 0 && seen >= dropAt && rec.ready.Load() {
					if mode == 1 {
						held = append(held, req)
						flush()
					}
					cut()
					return
				}
				held = append(held, req)
				if len(held) >= s.c.Hold {
					flush()
				}
			}
		case <-idle:
			flush()
		case tag := <-rec.cmd:
			ev("cmd %s", tag)
			flush()
			notifyAll(tag)
		}
	}
}

type sockSub struct {
	token  string
	handle rpcbackend.Subscription
	mu     sync.Mutex
	got    []sockNotif
	stop   chan struct{}
	done   chan struct{}
}

type sockNotif struct {
	SubID string
	Conn  int    `json:"conn"`
	Tok   string `json:"tok"`
	K     int    `json:"k"`
	Tag   string `json:"tag"`
}

func (ss *sockSub) consume() {
	defer close(ss.done)
	for {
		select {
		case n, ok := <-ss.handle.Notifications():
			if !ok {
				return
			}
			var sn sockNotif
			if n != nil && n.Result != nil {
				_ = json.Unmarshal(n.Result.Bytes(), &sn)
				sn.SubID = n.CurrentSubID
			}
			ss.mu.Lock()
			ss.got = append(ss.got, sn)
			ss.mu.Unlock()
		case <-ss.stop:
			return
		}
	}
}

func (ss *sockSub) snapshot() []sockNotif {
	ss.mu.Lock()
	defer ss.mu.Unlock()
	return append([]sockNotif{}, ss.got...)
}

var sockNonce atomic.Int64

type sockInfo struct {
	nt      bool
	classes []string
}

func runSock(c SockCase) (vs []evid.Violation, info sockInfo) {
	if c.Callers < 1 || c.Callers > 16 || c.CallsEach < 1 || c.CallsEach > 64 || c.Subs < 0 || c.Subs > 4 {
		return []evid.Violation{evid.V("harness", "bad case shape")}, info
	}
	if c.Hold < 1 {
		c.Hold = 1
	}
	fail := func(clause, format string, a ...interface{}) {
		if len(vs) < 6 {
			vs = append(vs, evid.V(clause, format, a...))
		}
	}
	srv := &sockServer{c: c, phase: -1, path: fmt.Sprintf("/verif/%d/%d", os.Getpid(), sockNonce.Add(1))}
	hs := httptest.NewServer(srv)
	defer func() {
		// the client is deliberately not closed (see TestCheck assumptions): cut the sockets, stop listening;
		// the client's reconnect loop then backs off exponentially (cap one hour) against a path nobody serves
		srv.mu.Lock()
		for _, ws := range srv.raw {
			_ = ws.UnderlyingConn().Close()
		}
		srv.mu.Unlock()
		hs.CloseClientConnections()
		hs.Close()
	}()
	ctx := context.Background()
	conf := &wsclient.WSConfig{
		WebSocketURL:           "ws" + strings.TrimPrefix(hs.URL, "http") + srv.path,
		InitialDelay:           time.Millisecond,
		MaximumDelay:           time.Hour,
		InitialConnectAttempts: 3,
	}
	rc := rpcbackend.NewWSRPCClient(conf)
	if err := rc.Connect(ctx); err != nil {
		return []evid.Violation{evid.V("harness", "Connect to the harness server failed: %v", err)}, info
	}
	timed := func(what string, f func()) bool {
		done := make(chan struct{})
		go func() { defer close(done); f() }()
		select {
		case <-done:
			return true
		case <-time.After(liveness):
			p := dumpGoroutines("stuck")
			fail("liveness", "%s did not return within %s\ngoroutine dump: %s", what, liveness, p)
			return false
		}
	}

	// ---- phase 1: subscriptions, quietly
	var subs []*sockSub
	var stopMu sync.Mutex
	var stops []chan struct{}
	addStop := func(ch chan struct{}) { stopMu.Lock(); stops = append(stops, ch); stopMu.Unlock() }
	defer func() {
		stopMu.Lock()
		for _, ch := range stops {
			close(ch)
		}
		stopMu.Unlock()
	}()
	for i := 0; i < c.Subs; i++ {
		ss := &sockSub{token: fmt.Sprintf("sub-%d", i), stop: make(chan struct{}), done: make(chan struct{})}
		var rpcErr *rpcbackend.RPCError
		if !timed("Subscribe", func() { ss.handle, rpcErr = rc.Subscribe(ctx, ss.token) }) {
			return vs, info
		}
		if rpcErr != nil || ss.handle == nil {
			fail("subscribe-pairing", "Subscribe on a healthy connection failed\n%s: %v", ss.token, rpcErr)
			return vs, info
		}
		subs = append(subs, ss)
		addStop(ss.stop)
		go ss.consume()
	}

	// ---- phase 2: concurrent calls while the server cuts connections
	srv.mu.Lock()
	srv.phase = len(srv.conns) - 1
	srv.mu.Unlock()
	type callRec struct {
		token  string
		result string
		rpcErr *rpcbackend.RPCError
	}
	recs := make([][]callRec, c.Callers)
	progress := make([]atomic.Int64, c.Callers+1)
	var wg sync.WaitGroup
	for g := 0; g < c.Callers; g++ {
		wg.Add(1)
		go func(g int) {
			defer wg.Done()
			for k := 0; k < c.CallsEach; k++ {
				cr := callRec{token: fmt.Sprintf("g%d-%d", g, k)}
				cr.rpcErr = rc.CallRPC(ctx, &cr.result, "verif_echo", cr.token)
				recs[g] = append(recs[g], cr)
				progress[g].Add(1)
			}
		}(g)
	}
	var churnSubs []*sockSub
	var churnErrs int
	if c.Churn > 0 {
		wg.Add(1)
		go func() {
			defer wg.Done()
			for k := 0; k < c.Churn; k++ {
				ss := &sockSub{token: fmt.Sprintf("churn-%d", k), stop: make(chan struct{}), done: make(chan struct{})}
				h, rpcErr := rc.Subscribe(ctx, ss.token)
				progress[c.Callers].Add(1)
				if rpcErr != nil || h == nil {
					churnErrs++
					if h != nil {
						_ = h.Unsubscribe(ctx) // a careful caller drops what it was handed together with an error
					}
					continue
				}
				ss.handle = h
				churnSubs = append(churnSubs, ss)
				addStop(ss.stop)
				go ss.consume()
				_ = h.Unsubscribe(ctx)
				progress[c.Callers].Add(1)
			}
		}()
	}
	allDone := make(chan struct{})
	go func() { wg.Wait(); close(allDone) }()
	{
		last, lastChange := int64(-1), time.Now()
		tick := time.NewTicker(100 * time.Millisecond)
	loop:
		for {
			select {
			case <-allDone:
				break loop
			case <-tick.C:
				var sum int64
				for i := range progress {
					sum += progress[i].Load()
				}
				if sum != last {
					last, lastChange = sum, time.Now()
				} else if time.Since(lastChange) > liveness {
					tick.Stop()
					p := dumpGoroutines("stuck")
					fail("liveness", "no call completed for %s although the server keeps accepting connections: a call outstanding on a dropped connection hangs\n%d of %d done; goroutine dump: %s", liveness, sum, c.Callers*c.CallsEach, p)
					return vs, info
				}
			}
		}
		tick.Stop()
	}
	okCalls, errCalls := 0, 0
	for g := range recs {
		for _, cr := range recs[g] {
			if cr.rpcErr == nil {
				okCalls++
				if cr.result != "res-"+cr.token {
					fail("reply-pairing", "a call returned a result that is not the reply to its own request\ncall %s returned %q", cr.token, cr.result)
				}
			} else {
				errCalls++
			}
		}
	}

	// ---- phase 3: quiet again; find the surviving connection (sync requests never trigger a cut)
	finalN := -1
	for attempt := 0; attempt < 2*len(c.DropAfter)+4 && finalN < 0; attempt++ {
		var res struct {
			Conn int `json:"conn"`
		}
		res.Conn = -1
		var rpcErr *rpcbackend.RPCError
		if !timed("CallRPC", func() { rpcErr = rc.CallRPC(ctx, &res, "verif_sync", fmt.Sprintf("sync-%d", attempt)) }) {
			return vs, info
		}
		if rpcErr == nil {
			finalN = res.Conn
		}
	}
	srv.mu.Lock()
	nConns := len(srv.conns)
	phase := srv.phase
	var final *sockConn
	if finalN >= 0 && finalN < nConns {
		final = srv.conns[finalN]
	}
	srv.mu.Unlock()
	if final == nil {
		fail("liveness", "no call succeeded on a healthy connection after the last cut")
		return vs, info
	}
	// The sync request may overtake the callback's re-subscribe requests on the wire (both compete for the
	// transport's sender), so wait until the server has seen them before it is told to notify.
	{
		deadline := time.Now().Add(liveness)
		for {
			srv.mu.Lock()
			missing := ""
			for _, ss := range subs {
				if final.subFrames[ss.token] == 0 {
					missing = ss.token
				}
			}
			srv.mu.Unlock()
			if missing == "" {
				break
			}
			if time.Now().After(deadline) {
				fail("resubscribe", "a configured subscription was not re-requested on the surviving connection within %s\n%s, connection %d", liveness, missing, final.n)
				return vs, info
			}
			time.Sleep(200 * time.Microsecond)
		}
	}
	final.cmd <- "final"
	for _, ss := range subs {
		ss := ss
		ok := false
		deadline := time.Now().Add(liveness)
		for !ok && time.Now().Before(deadline) {
			for _, n := range ss.snapshot() {
				if n.Tag == "final" && n.Conn == final.n {
					ok = true
				}
			}
			if !ok {
				time.Sleep(500 * time.Microsecond)
			}
		}
		if !ok {
			p := dumpGoroutines("stuck")
			srv.mu.Lock()
			fail("notification-routing", "a subscription did not receive the notification sent to it on the surviving connection\n%s, connection %d of %d (server ids there: %v, live ids: %v, re-subscribe frames: %v, unsubscribed: %v, notifications written: %v, handler exited: %v, cut: %v; received so far: %+v; server trace: %v); goroutine dump: %s",
				ss.token, final.n, len(srv.conns), final.subIDs, final.idToken, final.subFrames, final.unsubs, final.notified, final.exited, final.dropped, ss.snapshot(), final.events, p)
			srv.mu.Unlock()
		}
	}
	// unsubscribe one of them: the server must be asked to drop the id it owns on the surviving connection
	if len(subs) > 0 && len(vs) == 0 {
		var rpcErr *rpcbackend.RPCError
		if !timed("Unsubscribe", func() { rpcErr = subs[0].handle.Unsubscribe(ctx) }) {
			return vs, info
		}
		srv.mu.Lock()
		wantID := final.subIDs[subs[0].token]
		got := append([]string{}, final.unsubs...)
		srv.mu.Unlock()
		if rpcErr != nil {
			fail("unsubscribe", "Unsubscribe on a healthy connection failed\n%s: %v", subs[0].token, rpcErr)
		} else if len(got) == 0 || got[len(got)-1] != wantID {
			fail("unsubscribe", "Unsubscribe did not ask the server to drop the server id the subscription owns on the surviving connection\n%s (server id %s on connection %d): server was asked to drop %v", subs[0].token, wantID, final.n, got)
		}
	}

	// ---- oracle over what the server saw and what the subscriptions received
	srv.mu.Lock()
	defer srv.mu.Unlock()
	drops := 0
	for _, cn := range srv.conns {
		if cn.dropped {
			drops++
		}
		for _, ss := range subs {
			n := cn.subFrames[ss.token]
			if n > 1 {
				fail("resubscribe", "a configured subscription was requested more than once on one connection\n%s: %d times on connection %d", ss.token, n, cn.n)
			}
			if cn == final && n != 1 {
				fail("resubscribe", "a configured subscription was not re-requested exactly once on the surviving connection\n%s: %d times on connection %d (of %d)", ss.token, n, cn.n, nConns)
			}
		}
	}
	for _, ss := range append(append([]*sockSub{}, subs...), churnSubs...) {
		for _, n := range ss.snapshot() {
			if n.Tok != ss.token {
				fail("notification-routing", "a subscription received a notification addressed to another subscription\n%s received one for %s (server id %s, connection %d)", ss.token, n.Tok, n.SubID, n.Conn)
				continue
			}
			if n.Conn < 0 || n.Conn >= len(srv.conns) {
				fail("notification-routing", "a subscription received a notification from an unknown connection\n%s: connection %d", ss.token, n.Conn)
				continue
			}
			if want := srv.conns[n.Conn].subIDs[ss.token]; n.SubID != want && !strings.HasPrefix(ss.token, "churn") {
				fail("notification-routing", "a notification carried a CurrentSubID other than the server id assigned on its connection\n%s: connection %d, CurrentSubID %s, the server had assigned %s", ss.token, n.Conn, n.SubID, want)
			}
		}
	}
	info.nt = drops >= 1 && c.Subs >= 1
	info.classes = append(info.classes, fmt.Sprintf("sock:connections=%d", min(nConns-phase, 6)))
	if drops > 0 {
		info.classes = append(info.classes, "sock:dropped>=1")
	}
	if errCalls > 0 {
		info.classes = append(info.classes, "sock:some-calls-failed-by-reconnect")
	}
	if okCalls > 0 {
		info.classes = append(info.classes, "sock:some-calls-answered")
	}
	if c.Churn > 0 {
		info.classes = append(info.classes, "sock:subscribe-churn")
	}
	_ = churnErrs
	return vs, info
}

var sockMemo struct {
	key string
	vs  []evid.Violation
	ok  bool
}

func judgeSock(c SockCase) []evid.Violation {
	if sockMemo.ok && sockMemo.key == caseKey(c) {
		sockMemo.ok = false
		return sockMemo.vs
	}
	return withRaceWatch("sock", c, func() []evid.Violation { vs, _ := runSock(c); return vs })
}

func genSock(rt *rapid.T) SockCase {
	c := SockCase{
		Callers:   rapid.IntRange(1, 8).Draw(rt, "callers"),
		CallsEach: rapid.IntRange(1, 12).Draw(rt, "callsEach"),
		Subs:      rapid.IntRange(0, 3).Draw(rt, "subs"),
		Hold:      rapid.IntRange(1, 4).Draw(rt, "hold"),
		Churn:     rapid.SampledFrom([]int{0, 0, 2, 4}).Draw(rt, "churn"),
	}
	nd := rapid.IntRange(0, 5).Draw(rt, "drops")
	for i := 0; i < nd; i++ {
		c.DropAfter = append(c.DropAfter, rapid.IntRange(1, 6).Draw(rt, fmt.Sprintf("dropAfter%d", i)))
		c.DropMode = append(c.DropMode, rapid.IntRange(0, 1).Draw(rt, fmt.Sprintf("dropMode%d", i)))
	}
	return c
}

func classifySock(c SockCase) (bool, []string) {
	var info sockInfo
	vs := withRaceWatch("sock", c, func() (out []evid.Violation) {
		defer func() {
			if p := recover(); p != nil {
				out = append(out, evid.V("no-panic", "panic: %v", p))
			}
		}()
		out, info = runSock(c)
		return out
	})
	sockMemo.key, sockMemo.vs, sockMemo.ok = caseKey(c), vs, true
	return info.nt, info.classes
}
