package c18

import (
	"testing"

	"pgregory.net/rapid"
)

func TestSockLoop(t *testing.T) {
	setup()
	rapid.Check(t, func(rt *rapid.T) {
		c := genSock(rt)
		vs, _ := runSock(c)
		if len(vs) > 0 {
			rt.Fatalf("%s: %s", vs[0].Clause, vs[0].Detail)
		}
	})
}
