package c18

import (
	"context"
	"encoding/json"
	"errors"
	"fmt"
	"reflect"
	"runtime"
	"sort"
	"strings"
	"sync/atomic"
	"time"

	"github.com/hyperledger/firefly-common/pkg/wsclient"
	"github.com/hyperledger/firefly-signer/pkg/rpcbackend"
	"pgregory.net/rapid"

	"verifharness/evid"
)

// WSStep is one harness-owned event. A and B are small integers whose meaning depends
// on Op; they are reduced modulo whatever the model currently offers, and a step that
// has nothing to act on is skipped, so every list of steps is a valid case.
//
//	call        start CallRPC (own token)                      A: 1 = the transport fails the send
//	reply       answer outstanding call #A                     B: 0 result, 1 JSON-RPC error, 2 null result
//	stale       a reply nobody waits for                       A: which id (completed/cancelled/old-connection ids, never issued, numeric, absent, garbage)  B: payload kind
//	sub         start Subscribe (own params token)             A: 1 = the transport fails the send
//	confirm     answer pending subscribe #A with a server id   B: preferred server id
//	reject      answer pending subscribe #A                    B: 0 JSON-RPC error, 1 empty id, 2 non-string id
//	notify      eth_subscription for server id #A (live, stale or unknown), harness waits until it is consumed or dropped
//	            B: 0 = A indexes the fixed list of ids; 1 = A indexes the ids that have an owner now; 2 = A indexes the ids
//	            the server gave to subscriptions whose Subscribe had been cancelled (most recent first, see lateconfirm)
//	unsub       start Unsubscribe on subscription #A
//	unsubreply  answer outstanding eth_unsubscribe #A          B: 0 true, 1 false, 2 JSON-RPC error
//	cancelcall  cancel the context of outstanding call #A
//	cancelreply cancel the context of outstanding call #A AND hand the reply to its request to the receive loop, without
//	            waiting for the caller, so that both are pending at once      B%3: 0 = cancel first, then the reply; 1 = the reply
//	            first, then cancel; 2 = the reply, wait until the receive loop has put it into the caller's slot, then cancel at once;
//	            B/3: payload as for reply.  The call may return its own reply or the context error; whatever it did, the reply
//	            is used up: every later call must still get exactly the reply to its own request
//	unsubcancelreply  the same for outstanding eth_unsubscribe #A (Unsubscribe waits in CallRPC as well)    B%3 order, B/3 as for unsubreply
//	latereply   a reply for the id of one of the four calls that finished most recently (answered, cancelled, failed by a
//	            reconnect), shaped like a genuine reply                                   A: which, B: 0 result, 1 JSON-RPC error, 2 null result
//	cancelsub   cancel the context of pending (first-time) Subscribe #A          B: 1 = the one started most recently
//	lateconfirm the server's answer to the eth_subscribe of a Subscribe that was CANCELLED while it was pending (the server
//	            had processed the request all the same)     A: which (most recent first)
//	            B%4: 0..2 = a confirmation with a free server id (preferred: B/4), 3 = a JSON-RPC error.  After a confirmation
//	            the server sends notifications for an id no subscription of the client owns (its Subscribe did not return
//	            successfully): they must reach nobody, and the receive loop must go on taking frames
//	cancelsubconfirm  cancel the context of a pending (first-time) Subscribe AND hand the server's answer to its request to the
//	            receive loop, without waiting for the caller       A: which (most recent first)   B%3: order as for cancelreply
//	            (B/3)%4: 0..2 = confirmation with a free server id (preferred: B/12), 3 = JSON-RPC error.  The Subscribe may return
//	            its subscription (which then owns the id; since its context is dead, notifications for it may be dropped but
//	            must never go elsewhere) or the context error (then the id is nobody's, as after lateconfirm)
//	reconnect   drop the connection and run the after-connect callback   A: k>0 = the k-th send of the callback fails
//	            B (only after "down"): 0 = requests blocked in Send go out before the callback runs, 1 = after it
//	hold        like notify for a live server id, but the harness does not consume it yet: the receive loop stays
//	            blocked on the subscriber (slow consumer) while later steps run; anything that needs the loop consumes it first
//	consume     consume the held notification
//	down        the connection is lost and the transport knows: from now on Send blocks (as the real transport's does)
//	            until the next reconnect; calls / Subscribe / Unsubscribe started meanwhile are "in limbo"
type WSStep struct {
	Op string `json:"op"`
	A  int    `json:"a,omitempty"`
	B  int    `json:"b,omitempty"`
}

// WSCase: P > 0 runs the sequence under GOMAXPROCS(P).  With P = 1 the goroutine that was woken first does not
// run before the harness blocks, so "cancel, then hand over the reply" leaves both pending when the caller wakes up.
type WSCase struct {
	P     int      `json:"gomaxprocs,omitempty"`
	Steps []WSStep `json:"steps"`
}

// ---- the harness-owned transport

// fakeWS synchronizes with the client only where the real transport does. In particular
// Send performs nothing but atomic loads before it blocks or hands the frame over, so a
// sender blocked in Send has no happens-before edge towards the harness (the real
// transport's Send has none towards the goroutine that runs the after-connect callback).
type fakeWS struct {
	recv   chan []byte
	out    chan []byte
	closed chan struct{}
	failIn atomic.Int64
	gate   atomic.Pointer[chan struct{}] // closed channel = connection up; open channel = Send blocks
}

var openGate = func() *chan struct{} { c := make(chan struct{}); close(c); return &c }()

func newFakeWS() *fakeWS {
	f := &fakeWS{recv: make(chan []byte), out: make(chan []byte, 4096), closed: make(chan struct{})}
	f.gate.Store(openGate)
	return f
}

// down makes later Sends block.
func (f *fakeWS) down() {
	if f.gate.Load() == openGate {
		c := make(chan struct{})
		f.gate.Store(&c)
	}
}

// up lets new Sends pass and returns the gate the earlier ones are blocked on (nil if none).
func (f *fakeWS) up() chan struct{} {
	g := f.gate.Load()
	if g == openGate {
		return nil
	}
	f.gate.Store(openGate)
	return *g
}

func (f *fakeWS) Connect() error                         { return nil }
func (f *fakeWS) Receive() <-chan []byte                 { return f.recv }
func (f *fakeWS) ReceiveExt() <-chan *wsclient.WSPayload { return nil }
func (f *fakeWS) URL() string                            { return "ws://verif.invalid" }
func (f *fakeWS) SetURL(string)                          {}
func (f *fakeWS) SetHeader(string, string)               {}
func (f *fakeWS) Close()                                 {}
func (f *fakeWS) failNext(k int)                         { f.failIn.Store(int64(k)) }
func (f *fakeWS) Send(ctx context.Context, m []byte) error {
	if f.failIn.Load() > 0 && f.failIn.Add(-1) == 0 {
		return errors.New("verif transport: connection lost")
	}
	g := *f.gate.Load()
	select {
	case <-g:
	case <-ctx.Done():
		return ctx.Err()
	case <-f.closed:
		return errors.New("verif transport: closed")
	}
	cp := append([]byte{}, m...)
	select {
	case f.out <- cp:
		return nil
	case <-ctx.Done():
		return ctx.Err()
	case <-f.closed:
		return errors.New("verif transport: closed")
	}
}

// allStacks returns the dump of all goroutines. Looking at it does not synchronize with
// them (no happens-before edge is added), which is the point.
func allStacks() string {
	buf := make([]byte, 1<<18)
	for {
		n := runtime.Stack(buf, true)
		if n < len(buf) {
			return string(buf[:n])
		}
		buf = make([]byte, 2*len(buf))
	}
}

// blockedSenders counts goroutines that are parked in Send's select, i.e. that have read
// the gate of the dead connection and wait for it ("inside Send" would not be enough: a
// sender that has not read the gate yet would slip through a reconnect).
func blockedSenders() int {
	n := 0
	for _, g := range strings.Split(allStacks(), "\n\n") {
		if i := strings.IndexByte(g, '\n'); i > 0 && strings.Contains(g[:i], "[select") && strings.Contains(g, "c18.(*fakeWS).Send(") {
			n++
		}
	}
	return n
}

// ---- model

type callResult struct {
	rpcErr *rpcbackend.RPCError
	result string
	panicV interface{}
}

type wsCall struct {
	token  string
	id     string
	cancel context.CancelFunc
	done   chan callResult
}

type subResult struct {
	s      rpcbackend.Subscription
	rpcErr *rpcbackend.RPCError
	panicV interface{}
}

const (
	stPending1      = "pending(first)" // Subscribe has not returned; configured
	stActive        = "active"         // owns a server id on the current connection; configured
	stRepending     = "pending(again)" // re-requested after a reconnect, confirm outstanding; configured
	stInactive      = "inactive"       // configured, nothing outstanding (re-request rejected or not sent)
	stRejected      = "rejected"       // first request rejected: whether it stays configured is unspecified
	stUnsubscribing = "unsubscribing"  // eth_unsubscribe outstanding; not configured any more
	stLimbo         = "limbo"          // Subscribe started while the connection was down (blocked in Send); configured
	stLimboUnsub    = "limbo-unsub"    // Unsubscribe of an active subscription blocked in Send; not configured any more
	stGone          = "gone"
)

type heldNotif struct {
	s       *wsSub
	id      string
	payload string
}

type wsSub struct {
	n         int
	token     string
	state     string
	cancel    context.CancelFunc
	subDone   chan subResult
	handle    rpcbackend.Subscription
	chClosed  bool
	reqID     string
	serverID  string
	unsubID   string
	unsubDone chan *rpcbackend.RPCError
	limboID   string // server id whose eth_unsubscribe is waiting for a connection
	// the context handed to Subscribe was cancelled although Subscribe returned the subscription: the client stops
	// waiting for a slow reader of such a subscription at once, so a notification for it is delivered or dropped
	ctxDead bool
}

type frame struct {
	ID     string
	Method string
	Params []json.RawMessage
	Raw    string
}

type wsRun struct {
	vs         []evid.Violation
	tr         *fakeWS
	rc         rpcbackend.WebSocketRPCClient
	reconnect  wsclient.WSPostConnectHandler
	calls      []*wsCall // outstanding
	subs       []*wsSub
	owner      map[string]*wsSub
	serverLive map[string]bool
	stale      []string
	seq        int
	dead       bool
	trace      []string
	nt         bool
	classes    map[string]bool
	held       *heldNotif
	isDown     bool
	limbo      []*wsCall
	cancelled  []string // request ids of Subscribe calls cancelled while pending, not answered by the server yet
	orphans    []string // server ids confirmed for such requests: the server sends notifications, nobody owns them
}

// server-assigned subscription ids are opaque strings: two of them differ only in letter case,
// two only in a leading zero, one is not hex at all
var serverIDs = []string{"0xa1", "0xA1", "0xb2", "0x0b2", "sub-C3"}

func (r *wsRun) fail(clause, format string, a ...interface{}) {
	if len(r.vs) < 6 {
		r.vs = append(r.vs, evid.V(clause, format+"  [trace: %s]", append(a, strings.Join(tail(r.trace, 14), " | "))...))
	}
}

func tail(l []string, n int) []string {
	if len(l) > n {
		return l[len(l)-n:]
	}
	return l
}

func (r *wsRun) stuck(format string, a ...interface{}) {
	p := dumpGoroutines("stuck")
	r.fail("liveness", format+"; goroutine dump: %s", append(a, p)...)
	r.dead = true
}

func (r *wsRun) class(s string) { r.classes[s] = true }

// deliver hands one frame to the client's receive loop (unbuffered: returns once the loop has taken it).
func (r *wsRun) deliver(b string) bool {
	if r.held != nil && !r.consumeHeld() {
		return false
	}
	return r.deliverRaw(b)
}

func (r *wsRun) deliverRaw(b string) bool {
	select {
	case r.tr.recv <- []byte(b):
		return true
	case <-time.After(liveness):
		r.stuck("the receive loop did not take the next frame within %s", liveness)
		return false
	}
}

// barrier returns once the receive loop has finished everything delivered before:
// an inert frame (not JSON) is accepted only when the loop is back at its receive.
func (r *wsRun) barrier() bool { return r.deliver("#verif-barrier") }

func (r *wsRun) deliverSync(b string) bool { return r.deliver(b) && r.barrier() }

// consumeHeld reads the held notification from its subscriber and lets the loop go on.
func (r *wsRun) consumeHeld() bool {
	h := r.held
	r.held = nil
	select {
	case n, ok := <-h.s.handle.Notifications():
		if !ok || n == nil || n.CurrentSubID != h.id || n.Result == nil || !jsonEq(n.Result.String(), h.payload) {
			r.fail("notification-routing", "the notification for server id %s that %s was slow to consume arrived altered or its channel was closed: %+v", h.id, h.s.token, n)
		}
	case <-time.After(liveness):
		r.stuck("the notification for %s held back by a slow consumer was never handed over", h.id)
		return false
	}
	return r.deliverRaw("#verif-barrier")
}

// waitBlocked waits until n goroutines sit in the transport's Send (connection down).
func (r *wsRun) waitBlocked(n int, what string) bool {
	deadline := time.Now().Add(liveness)
	pause := 20 * time.Microsecond
	for blockedSenders() < n {
		if time.Now().After(deadline) {
			r.stuck("%s did not reach the transport within %s", what, liveness)
			return false
		}
		time.Sleep(pause)
		if pause < 2*time.Millisecond {
			pause *= 2
		}
	}
	return true
}

func (r *wsRun) limboCount() int {
	n := len(r.limbo)
	for _, s := range r.subs {
		if s.state == stLimbo || s.state == stLimboUnsub {
			n++
		}
	}
	return n
}

func parseFrame(b []byte) (frame, error) {
	var f struct {
		JSONRPC string            `json:"jsonrpc"`
		ID      json.RawMessage   `json:"id"`
		Method  string            `json:"method"`
		Params  []json.RawMessage `json:"params"`
	}
	if err := json.Unmarshal(b, &f); err != nil {
		return frame{}, err
	}
	var id string
	if err := json.Unmarshal(f.ID, &id); err != nil || id == "" {
		return frame{}, fmt.Errorf("request id is not a non-empty string: %s", f.ID)
	}
	if f.JSONRPC != "2.0" {
		return frame{}, fmt.Errorf("jsonrpc %q", f.JSONRPC)
	}
	return frame{ID: id, Method: f.Method, Params: f.Params, Raw: string(b)}, nil
}

func paramString(f frame) string {
	if len(f.Params) != 1 {
		return ""
	}
	var s string
	_ = json.Unmarshal(f.Params[0], &s)
	return s
}

func (r *wsRun) idInUse(id string) bool {
	for _, c := range r.calls {
		if c.id == id {
			return true
		}
	}
	for _, s := range r.subs {
		if (s.state == stPending1 || s.state == stRepending) && s.reqID == id {
			return true
		}
		if s.state == stUnsubscribing && s.unsubID == id {
			return true
		}
	}
	return false
}

func (r *wsRun) noStrayFrames(after string) {
	select {
	case b := <-r.tr.out:
		r.fail("no-stray-frames", "unexpected frame sent after %s: %s", after, firstLine(string(b)))
	default:
	}
}

// checkQuiet: nothing the model considers outstanding may have completed.
func (r *wsRun) checkQuiet() {
	for _, c := range r.calls {
		select {
		case res := <-c.done:
			r.fail("reply-pairing", "call %s (id %s) completed with result %q error %v although no reply to its request was delivered", c.token, c.id, res.result, res.rpcErr)
			c.done <- res
		default:
		}
	}
	for _, s := range r.subs {
		if s.state == stPending1 {
			select {
			case res := <-s.subDone:
				r.fail("subscribe-pairing", "Subscribe %s (request %s) returned (%v) although no reply to its request was delivered", s.token, s.reqID, res.rpcErr)
				s.subDone <- res
			default:
			}
		}
	}
	lo, hi := 0, 0
	for _, s := range r.subs {
		switch s.state {
		case stPending1, stActive, stRepending, stInactive, stLimbo:
			lo++
			hi++
		case stRejected:
			hi++
		}
	}
	for _, c := range r.limbo {
		select {
		case res := <-c.done:
			r.fail("reply-pairing", "call %s, whose request is still waiting for a connection, completed with result %q error %v", c.token, res.result, res.rpcErr)
			c.done <- res
		default:
		}
	}
	if n := len(r.rc.Subscriptions()); n < lo || n > hi {
		r.fail("configured-subscriptions", "Subscriptions() lists %d, the model has %d..%d configured", n, lo, hi)
	}
}

func (r *wsRun) waitCall(c *wsCall, why string) (callResult, bool) {
	select {
	case res := <-c.done:
		if res.panicV != nil {
			r.fail("no-panic", "CallRPC %s panicked: %v", c.token, res.panicV)
		}
		return res, true
	case <-time.After(liveness):
		r.stuck("call %s (id %s) did not complete within %s after %s", c.token, c.id, liveness, why)
		return callResult{}, false
	}
}

func (r *wsRun) removeCall(c *wsCall) {
	for i, x := range r.calls {
		if x == c {
			r.calls = append(r.calls[:i], r.calls[i+1:]...)
			return
		}
	}
}

func pickSub(subs []*wsSub, a int, states ...string) *wsSub {
	var l []*wsSub
	for _, s := range subs {
		for _, st := range states {
			if s.state == st {
				l = append(l, s)
			}
		}
	}
	if len(l) == 0 {
		return nil
	}
	if a < 0 {
		a = -a
	}
	return l[a%len(l)]
}

// ---- ops

func (r *wsRun) opCall(failSend bool) {
	r.seq++
	c := &wsCall{token: fmt.Sprintf("call-%d", r.seq), done: make(chan callResult, 1)}
	ctx, cancel := context.WithCancel(context.Background())
	c.cancel = cancel
	if failSend {
		r.tr.failNext(1)
	}
	go func() {
		var res callResult
		defer func() {
			if p := recover(); p != nil {
				res.panicV = p
			}
			c.done <- res
		}()
		res.rpcErr = r.rc.CallRPC(ctx, &res.result, "verif_echo", c.token)
	}()
	if failSend {
		res, ok := r.waitCall(c, "the transport refused to send its request")
		if ok && res.rpcErr == nil {
			r.fail("error-path", "call %s returned no error although its request could not be sent", c.token)
		}
		r.noStrayFrames("a failed send")
		return
	}
	if r.isDown {
		if r.waitBlocked(r.limboCount()+1, "call "+c.token) {
			r.limbo = append(r.limbo, c)
			r.class("ws:call-started-while-down")
		}
		return
	}
	select {
	case b := <-r.tr.out:
		f, err := parseFrame(b)
		if err != nil || f.Method != "verif_echo" || paramString(f) != c.token {
			r.fail("request-shape", "CallRPC(verif_echo, %s) sent %s (%v)", c.token, firstLine(string(b)), err)
			r.dead = true
			return
		}
		if r.idInUse(f.ID) {
			r.fail("request-ids-distinct", "call %s was sent with id %s which is still outstanding", c.token, f.ID)
		}
		c.id = f.ID
		r.calls = append(r.calls, c)
	case res := <-c.done:
		r.fail("reply-pairing", "call %s returned (result %q error %v) before its request was sent", c.token, res.result, res.rpcErr)
	case <-time.After(liveness):
		r.stuck("call %s sent nothing within %s", c.token, liveness)
	}
}

func (r *wsRun) opReply(a, b int) {
	if len(r.calls) == 0 || r.isDown {
		return
	}
	if a < 0 {
		a = -a
	}
	c := r.calls[a%len(r.calls)]
	var msg string
	switch b % 3 {
	case 0:
		msg = fmt.Sprintf(`{"jsonrpc":"2.0","id":%q,"result":"res-%s"}`, c.id, c.token)
	case 1:
		msg = fmt.Sprintf(`{"jsonrpc":"2.0","id":%q,"error":{"code":-32000,"message":"err-%s"}}`, c.id, c.token)
	default:
		msg = fmt.Sprintf(`{"jsonrpc":"2.0","id":%q,"result":null}`, c.id)
	}
	if len(r.calls) > 1 && a%len(r.calls) != 0 {
		r.class("ws:reply-out-of-order")
	}
	if !r.deliverSync(msg) {
		return
	}
	r.removeCall(c)
	r.stale = append(r.stale, c.id)
	res, ok := r.waitCall(c, "the reply to its request was delivered")
	if !ok {
		return
	}
	switch b % 3 {
	case 0:
		if res.rpcErr != nil || res.result != "res-"+c.token {
			r.fail("reply-pairing", "call %s (id %s): reply carried result res-%s, caller got result %q error %v", c.token, c.id, c.token, res.result, res.rpcErr)
		}
	case 1:
		if res.rpcErr == nil || res.rpcErr.Message != "err-"+c.token {
			r.fail("reply-pairing", "call %s (id %s): reply carried error err-%s, caller got result %q error %v", c.token, c.id, c.token, res.result, res.rpcErr)
		}
	default:
		if res.rpcErr != nil || res.result != "" {
			r.fail("reply-pairing", "call %s (id %s): reply carried a null result, caller got result %q error %v", c.token, c.id, res.result, res.rpcErr)
		}
	}
}

func (r *wsRun) opStale(a, b int) {
	if r.isDown {
		return
	}
	if a < 0 {
		a = -a
	}
	idJSON := ""
	choices := len(r.stale) + 5
	switch k := a % choices; {
	case k < len(r.stale):
		idJSON = fmt.Sprintf("%q", r.stale[k])
		r.class("ws:duplicate-or-stale-reply")
	case k == len(r.stale):
		idJSON = `"999999999"`
	case k == len(r.stale)+1:
		idJSON = `12`
	case k == len(r.stale)+2:
		idJSON = `null`
	case k == len(r.stale)+3:
		idJSON = "" // absent
	default:
		if !r.deliverSync(`{"nonsense":true,`) {
			return
		}
		return
	}
	idField := ""
	if idJSON != "" {
		idField = `"id":` + idJSON + `,`
	}
	var msg string
	switch b % 3 {
	case 0:
		msg = fmt.Sprintf(`{"jsonrpc":"2.0",%s"result":"stale-%d"}`, idField, a)
	case 1:
		msg = fmt.Sprintf(`{"jsonrpc":"2.0",%s"error":{"code":-32001,"message":"stale-%d"}}`, idField, a)
	default:
		// looks like a subscription confirmation: the server believes a subscription with this id exists
		free := r.freeServerID(a)
		if free == "" {
			return
		}
		r.serverLive[free] = true
		msg = fmt.Sprintf(`{"jsonrpc":"2.0",%s"result":%q}`, idField, free)
	}
	r.deliverSync(msg)
}

func (r *wsRun) freeServerID(pref int) string {
	if pref < 0 {
		pref = -pref
	}
	for i := 0; i < len(serverIDs); i++ {
		id := serverIDs[(pref+i)%len(serverIDs)]
		if !r.serverLive[id] {
			return id
		}
	}
	return ""
}

func (r *wsRun) opSub(failSend bool) {
	r.seq++
	s := &wsSub{n: len(r.subs), token: fmt.Sprintf("sub-%d", r.seq), subDone: make(chan subResult, 1)}
	ctx, cancel := context.WithCancel(context.Background())
	s.cancel = cancel
	if failSend {
		r.tr.failNext(1)
	}
	go func() {
		var res subResult
		defer func() {
			if p := recover(); p != nil {
				res.panicV = p
			}
			s.subDone <- res
		}()
		res.s, res.rpcErr = r.rc.Subscribe(ctx, s.token)
	}()
	if failSend {
		select {
		case res := <-s.subDone:
			if res.rpcErr == nil {
				r.fail("error-path", "Subscribe %s returned no error although its request could not be sent", s.token)
			}
		case <-time.After(liveness):
			r.stuck("Subscribe %s did not return within %s after the transport refused to send", s.token, liveness)
		}
		s.state = stGone
		r.subs = append(r.subs, s)
		r.noStrayFrames("a failed send")
		return
	}
	if r.isDown {
		if r.waitBlocked(r.limboCount()+1, "Subscribe "+s.token) {
			s.state = stLimbo
			r.subs = append(r.subs, s)
			r.class("ws:subscribe-started-while-down")
		}
		return
	}
	select {
	case b := <-r.tr.out:
		f, err := parseFrame(b)
		if err != nil || f.Method != "eth_subscribe" || paramString(f) != s.token {
			r.fail("request-shape", "Subscribe(%s) sent %s (%v)", s.token, firstLine(string(b)), err)
			r.dead = true
			return
		}
		if r.idInUse(f.ID) {
			r.fail("request-ids-distinct", "subscribe %s was sent with id %s which is still outstanding", s.token, f.ID)
		}
		s.reqID = f.ID
		s.state = stPending1
		r.subs = append(r.subs, s)
	case res := <-s.subDone:
		r.fail("subscribe-pairing", "Subscribe %s returned (%v) before its request was sent", s.token, res.rpcErr)
	case <-time.After(liveness):
		r.stuck("Subscribe %s sent nothing within %s", s.token, liveness)
	}
}

func (r *wsRun) waitSubscribe(s *wsSub, why string) (subResult, bool) {
	select {
	case res := <-s.subDone:
		if res.panicV != nil {
			r.fail("no-panic", "Subscribe %s panicked: %v", s.token, res.panicV)
		}
		return res, true
	case <-time.After(liveness):
		r.stuck("Subscribe %s did not return within %s after %s", s.token, liveness, why)
		return subResult{}, false
	}
}

func (r *wsRun) opConfirm(a, b int) {
	s := pickSub(r.subs, a, stPending1, stRepending)
	if s == nil || r.isDown {
		return
	}
	id := r.freeServerID(b)
	if id == "" {
		return
	}
	if !r.deliverSync(fmt.Sprintf(`{"jsonrpc":"2.0","id":%q,"result":%q}`, s.reqID, id)) {
		return
	}
	r.stale = append(r.stale, s.reqID)
	first := s.state == stPending1
	s.state, s.serverID, s.reqID = stActive, id, ""
	r.owner[id] = s
	r.serverLive[id] = true
	if first {
		res, ok := r.waitSubscribe(s, "its request was confirmed")
		if !ok {
			return
		}
		if res.rpcErr != nil || res.s == nil {
			r.fail("subscribe-pairing", "Subscribe %s was confirmed with server id %s but returned (%v, %v)", s.token, id, res.s, res.rpcErr)
			if res.s == nil {
				s.state = stGone
				delete(r.owner, id)
				return
			}
		}
		s.handle = res.s
	}
}

func (r *wsRun) opReject(a, b int) {
	s := pickSub(r.subs, a, stPending1, stRepending)
	if s == nil || r.isDown {
		return
	}
	var msg string
	switch b % 3 {
	case 0:
		msg = fmt.Sprintf(`{"jsonrpc":"2.0","id":%q,"error":{"code":-32002,"message":"rej-%s"}}`, s.reqID, s.token)
	case 1:
		msg = fmt.Sprintf(`{"jsonrpc":"2.0","id":%q,"result":""}`, s.reqID)
	default:
		msg = fmt.Sprintf(`{"jsonrpc":"2.0","id":%q,"result":{"not":"a string"}}`, s.reqID)
	}
	if !r.deliverSync(msg) {
		return
	}
	r.stale = append(r.stale, s.reqID)
	s.reqID = ""
	if s.state == stRepending {
		s.state = stInactive // nobody to tell; stays configured
		return
	}
	res, ok := r.waitSubscribe(s, "its request was rejected")
	if !ok {
		return
	}
	if res.rpcErr == nil {
		r.fail("subscribe-pairing", "Subscribe %s was rejected by the server but returned no error", s.token)
	} else if b%3 == 0 && res.rpcErr.Message != "rej-"+s.token {
		r.fail("subscribe-pairing", "Subscribe %s: rejection carried rej-%s, caller got %q", s.token, s.token, res.rpcErr.Message)
	}
	s.handle = res.s
	s.state = stRejected
	if res.s == nil {
		s.state = stGone
	}
}

// opNotify delivers an eth_subscription frame and observes, without any timing, who
// consumes it: either exactly one subscription's channel yields it, or the receive loop
// comes back for the next frame (the barrier) having dropped it.
// loopBlockedOnSubscriber reports whether the receive loop sits in the select that hands a
// notification to a subscriber (observed from the goroutine dump, i.e. without synchronizing).
func loopBlockedOnSubscriber() bool {
	for _, g := range strings.Split(allStacks(), "\n\n") {
		if strings.Contains(g, "rpcbackend.(*wsRPCClient).handleSubscriptionNotification") {
			if i := strings.IndexByte(g, '\n'); i > 0 && strings.Contains(g[:i], "[select") {
				return true
			}
		}
	}
	return false
}

// opHold: a notification for a live id whose subscriber does not read yet.
func (r *wsRun) opHold(a int) {
	if r.isDown || r.held != nil || len(r.owner) == 0 {
		return
	}
	if a < 0 {
		a = -a
	}
	var ids []string
	for _, id := range sortedKeys(r.owner) {
		if !r.owner[id].ctxDead {
			ids = append(ids, id)
		}
	}
	if len(ids) == 0 {
		return
	}
	id := ids[a%len(ids)]
	s := r.owner[id]
	r.seq++
	payload := fmt.Sprintf(`{"n":%d,"for":%q,"held":true}`, r.seq, id)
	if !r.deliverRaw(fmt.Sprintf(`{"jsonrpc":"2.0","method":"eth_subscription","params":{"subscription":%q,"result":%s}}`, id, payload)) {
		return
	}
	// Only go on when the loop really waits for the subscriber: what happens when an
	// Unsubscribe overtakes a notification *inside* the loop is deliberately not asserted.
	// A client whose loop does NOT wait for its subscribers (a queue and a forwarder per subscription, say) takes
	// the next frame instead: nothing can be held then, and the notification is judged like any other. That the
	// loop blocks on a slow consumer is how /repo works today, not something C18 states.
	deadline := time.Now().Add(liveness)
	for !loopBlockedOnSubscriber() {
		select {
		case r.tr.recv <- []byte("#verif-barrier"):
			r.class("ws:slow-consumer-does-not-hold-the-loop(asynchronous dispatch)")
			r.collectNotification(id, payload, s, true)
			return
		case <-time.After(200 * time.Microsecond):
		}
		if time.Now().After(deadline) {
			r.stuck("a notification for live server id %s (owner %s) was not offered to its subscriber within %s", id, s.token, liveness)
			return
		}
	}
	r.held = &heldNotif{s: s, id: id, payload: payload}
	r.class("ws:slow-consumer(held-notification)")
}

func (r *wsRun) opDown() {
	if r.isDown {
		return
	}
	r.tr.down()
	r.isDown = true
	r.class("ws:down-period")
}

func (r *wsRun) opNotify(a, b int) {
	if r.isDown {
		return
	}
	if a < 0 {
		a = -a
	}
	ids := append(append([]string{}, serverIDs...), "0xdead")
	switch b {
	case 1:
		if ids = sortedKeys(r.owner); len(ids) == 0 {
			return
		}
	case 2:
		ids = nil
		for i := len(r.orphans) - 1; i >= 0; i-- {
			ids = append(ids, r.orphans[i])
		}
		if len(ids) == 0 {
			return
		}
	}
	r.opNotifyID(ids[a%len(ids)])
}

func (r *wsRun) isOrphan(id string) bool {
	for _, o := range r.orphans {
		if o == id {
			return true
		}
	}
	return false
}

func (r *wsRun) opNotifyID(id string) {
	r.seq++
	payload := fmt.Sprintf(`{"n":%d,"for":%q}`, r.seq, id)
	want := r.owner[id]
	switch {
	case want != nil:
		r.class("ws:notify-live-id")
	case r.serverLive[id] && r.isOrphan(id):
		r.class("ws:notify-id-confirmed-late-for-a-cancelled-subscribe")
		r.class("ws:notify-id-without-client-owner")
	case r.serverLive[id]:
		r.class("ws:notify-id-without-client-owner")
	default:
		r.class("ws:notify-stale-or-unknown-id")
	}
	if !r.deliver(fmt.Sprintf(`{"jsonrpc":"2.0","method":"eth_subscription","params":{"subscription":%q,"result":%s}}`, id, payload)) {
		return
	}
	r.collectNotification(id, payload, want, false)
}

// asyncGrace is how long a notification that the loop has dealt with (it took the next frame) may still be on its
// way to the subscriber that owns its id, for clients that dispatch asynchronously. On /repo the loop itself hands
// the notification over, so this wait only ever happens there when the notification was really dropped.
const asyncGrace = 5 * time.Second

// collectNotification watches what becomes of one notification frame the client has taken: who receives it, until
// the receive loop is back at its receive (it takes the inert barrier frame; barrierPassed = it has already) and -
// if the owner has not got it by then - for asyncGrace longer.
func (r *wsRun) collectNotification(id, payload string, want *wsSub, barrierPassed bool) {
	var got *wsSub
	var gotN *rpcbackend.RPCSubscriptionNotification
	var never chan []byte
	timeout := time.After(liveness)
	for {
		if barrierPassed && (got != nil || want == nil || want.ctxDead) {
			break
		}
		cases := []reflect.SelectCase{
			{Dir: reflect.SelectSend, Chan: reflect.ValueOf(r.tr.recv), Send: reflect.ValueOf([]byte("#verif-barrier"))},
			{Dir: reflect.SelectRecv, Chan: reflect.ValueOf(timeout)},
		}
		if barrierPassed {
			cases[0] = reflect.SelectCase{Dir: reflect.SelectRecv, Chan: reflect.ValueOf(never)}
		}
		var who []*wsSub
		for _, s := range r.subs {
			if s.handle != nil && !s.chClosed {
				cases = append(cases, reflect.SelectCase{Dir: reflect.SelectRecv, Chan: reflect.ValueOf(s.handle.Notifications())})
				who = append(who, s)
			}
		}
		i, v, ok := reflect.Select(cases)
		if i == 0 {
			// the loop is back at its receive: the frame has been dealt with (handed over, dropped - or queued)
			barrierPassed = true
			timeout = time.After(asyncGrace)
			continue
		}
		if i == 1 {
			if !barrierPassed {
				r.stuck("a notification for %s was neither consumed nor dropped within %s", id, liveness)
				return
			}
			break // nothing arrived after the loop had moved on: dropped
		}
		s := who[i-2]
		if !ok {
			r.fail("notification-routing", "the notification channel of %s (%s) is closed although Unsubscribe has not returned successfully", s.token, s.state)
			s.chClosed = true
			continue
		}
		if got != nil {
			r.fail("notification-routing", "one notification for %s was delivered twice (%s and %s)", id, got.token, s.token)
		}
		if barrierPassed {
			r.class("ws:notification-arrived-after-the-loop-had-moved-on(asynchronous dispatch)")
		}
		got = s
		gotN, _ = v.Interface().(*rpcbackend.RPCSubscriptionNotification)
	}
	switch {
	case want == nil && got != nil:
		r.fail("notification-routing", "notification for server id %s reached %s (%s) although no subscription owns that id now", id, got.token, got.state)
	case want != nil && got == nil && want.ctxDead:
		r.class("ws:notification-for-subscription-with-dead-context-dropped")
	case want != nil && got == nil:
		r.fail("notification-routing", "notification for server id %s owned by %s was dropped", id, want.token)
	case want != nil && got != want:
		r.fail("notification-routing", "notification for server id %s owned by %s reached %s", id, want.token, got.token)
	case want != nil:
		if gotN == nil || gotN.CurrentSubID != id || gotN.Result == nil || !jsonEq(gotN.Result.String(), payload) {
			r.fail("notification-routing", "notification for %s arrived altered: %+v", id, gotN)
		}
	}
}

func (r *wsRun) opUnsub(a int) {
	s := pickSub(r.subs, a, stActive, stRepending, stInactive, stRejected)
	if s == nil || s.handle == nil {
		return
	}
	if r.held != nil && r.held.s == s {
		// what happens when an Unsubscribe overtakes a notification that the receive loop is still
		// handing to the subscriber is deliberately not asserted: let the subscriber take it first
		if !r.consumeHeld() {
			return
		}
	}
	s.unsubDone = make(chan *rpcbackend.RPCError, 1)
	ctx, cancel := context.WithCancel(context.Background())
	prevCancel := s.cancel
	s.cancel = func() { cancel(); prevCancel() }
	go func() {
		defer func() {
			if p := recover(); p != nil {
				s.unsubDone <- &rpcbackend.RPCError{Message: fmt.Sprintf("PANIC: %v", p)}
			}
		}()
		s.unsubDone <- s.handle.Unsubscribe(ctx)
	}()
	wasActive := s.state == stActive
	if r.isDown && wasActive {
		if r.waitBlocked(r.limboCount()+1, "Unsubscribe of "+s.token) {
			delete(r.owner, s.serverID)
			s.state, s.limboID = stLimboUnsub, s.serverID
			r.class("ws:unsubscribe-started-while-down")
		}
		return
	}
	select {
	case b := <-r.tr.out:
		f, err := parseFrame(b)
		if err != nil || f.Method != "eth_unsubscribe" {
			r.fail("request-shape", "Unsubscribe(%s) sent %s (%v)", s.token, firstLine(string(b)), err)
			r.dead = true
			return
		}
		if !wasActive {
			r.fail("unsubscribe", "Unsubscribe of %s (%s, owns no server id) sent %s", s.token, s.state, firstLine(string(b)))
		} else if paramString(f) != s.serverID {
			r.fail("unsubscribe", "Unsubscribe of %s (server id %s) sent %s", s.token, s.serverID, firstLine(string(b)))
		}
		if r.idInUse(f.ID) {
			r.fail("request-ids-distinct", "unsubscribe of %s was sent with id %s which is still outstanding", s.token, f.ID)
		}
		delete(r.owner, s.serverID) // from here on nothing may reach it
		if s.reqID != "" {
			r.stale = append(r.stale, s.reqID)
		}
		s.state, s.unsubID, s.reqID = stUnsubscribing, f.ID, ""
		r.class("ws:unsubscribe-active")
	case e := <-s.unsubDone:
		if wasActive {
			r.fail("unsubscribe", "Unsubscribe of %s returned (%v) without asking the server to drop server id %s", s.token, e, s.serverID)
			delete(r.owner, s.serverID)
		} else if e != nil {
			r.fail("unsubscribe", "Unsubscribe of %s (%s) failed: %v", s.token, s.state, e)
		}
		if e == nil {
			s.chClosed = true
		}
		if s.reqID != "" {
			r.stale = append(r.stale, s.reqID)
		}
		s.state, s.reqID = stGone, ""
		r.class("ws:unsubscribe-not-active")
	case <-time.After(liveness):
		r.stuck("Unsubscribe of %s neither returned nor sent a request within %s", s.token, liveness)
	}
}

func (r *wsRun) waitUnsub(s *wsSub, why string) (*rpcbackend.RPCError, bool) {
	select {
	case e := <-s.unsubDone:
		return e, true
	case <-time.After(liveness):
		r.stuck("Unsubscribe of %s did not return within %s after %s", s.token, liveness, why)
		return nil, false
	}
}

func (r *wsRun) opUnsubReply(a, b int) {
	s := pickSub(r.subs, a, stUnsubscribing)
	if s == nil || r.isDown {
		return
	}
	var msg string
	switch b % 3 {
	case 0:
		msg = fmt.Sprintf(`{"jsonrpc":"2.0","id":%q,"result":true}`, s.unsubID)
	case 1:
		msg = fmt.Sprintf(`{"jsonrpc":"2.0","id":%q,"result":false}`, s.unsubID)
	default:
		msg = fmt.Sprintf(`{"jsonrpc":"2.0","id":%q,"error":{"code":-32003,"message":"unsub-%s"}}`, s.unsubID, s.token)
	}
	if !r.deliverSync(msg) {
		return
	}
	r.stale = append(r.stale, s.unsubID)
	e, ok := r.waitUnsub(s, "the server answered")
	if !ok {
		return
	}
	if b%3 == 2 {
		if e == nil || e.Message != "unsub-"+s.token {
			r.fail("reply-pairing", "Unsubscribe of %s: server answered error unsub-%s, caller got %v", s.token, s.token, e)
		}
	} else {
		if e != nil {
			r.fail("reply-pairing", "Unsubscribe of %s: server answered a result, caller got error %v", s.token, e)
		} else {
			s.chClosed = true
		}
		delete(r.serverLive, s.serverID)
	}
	s.state = stGone
}

func (r *wsRun) opCancelCall(a int) {
	all := append(append([]*wsCall{}, r.calls...), r.limbo...)
	if len(all) == 0 {
		return
	}
	if a < 0 {
		a = -a
	}
	c := all[a%len(all)]
	c.cancel()
	r.removeCall(c)
	for i, x := range r.limbo {
		if x == c {
			r.limbo = append(r.limbo[:i], r.limbo[i+1:]...)
			break
		}
	}
	if c.id != "" {
		r.stale = append(r.stale, c.id)
	}
	res, ok := r.waitCall(c, "its context was cancelled")
	if ok && res.rpcErr == nil {
		r.fail("error-path", "call %s returned no error after its context was cancelled (result %q)", c.token, res.result)
	}
}

// opCancelReply: the context of an outstanding call is cancelled and the reply to its request is handed to the
// receive loop back to back - neither is waited for, so the caller finds both (or the reply lands in its slot just
// after it gave up).  Its own reply and the context error are both legitimate outcomes.
func (r *wsRun) opCancelReply(a, b int) {
	if len(r.calls) == 0 || r.isDown {
		return
	}
	if a < 0 {
		a = -a
	}
	if b < 0 {
		b = -b
	}
	c := r.calls[a%len(r.calls)]
	kind := (b / 3) % 3
	var msg string
	switch kind {
	case 0:
		msg = fmt.Sprintf(`{"jsonrpc":"2.0","id":%q,"result":"res-%s"}`, c.id, c.token)
	case 1:
		msg = fmt.Sprintf(`{"jsonrpc":"2.0","id":%q,"error":{"code":-32000,"message":"err-%s"}}`, c.id, c.token)
	default:
		msg = fmt.Sprintf(`{"jsonrpc":"2.0","id":%q,"result":null}`, c.id)
	}
	if r.held != nil && !r.consumeHeld() { // the loop must be free to take the reply at once
		return
	}
	switch b % 3 {
	case 0:
		c.cancel()
		if !r.deliverRaw(msg) {
			return
		}
		r.class("ws:cancel-then-reply-at-once")
	case 1:
		if !r.deliverRaw(msg) {
			return
		}
		c.cancel()
		r.class("ws:reply-then-cancel-at-once")
	default:
		if !r.deliverRaw(msg) || !r.deliverRaw("#verif-barrier") {
			return
		}
		c.cancel()
		r.class("ws:reply-in-the-callers-slot-then-cancel-at-once")
	}
	r.removeCall(c)
	r.stale = append(r.stale, c.id)
	res, ok := r.waitCall(c, "its context was cancelled and the reply to its request was delivered")
	if !ok || !r.barrier() {
		return
	}
	own := false
	switch kind {
	case 0:
		own = res.rpcErr == nil && res.result == "res-"+c.token
	case 1:
		own = res.rpcErr != nil && res.rpcErr.Message == "err-"+c.token
	default:
		own = res.rpcErr == nil && res.result == ""
	}
	switch {
	case own:
		r.class("ws:cancel+reply-at-once:caller-got-its-reply")
	case res.rpcErr != nil && !strings.HasPrefix(res.rpcErr.Message, "err-") && !strings.HasPrefix(res.rpcErr.Message, "stale-") && !strings.HasPrefix(res.rpcErr.Message, "late-"):
		r.class("ws:cancel+reply-at-once:caller-got-context-error")
	default:
		r.fail("reply-pairing", "call %s (id %s) was cancelled while the reply to its request (kind %d) arrived: it returned neither that reply nor an error of its own: result %q error %v", c.token, c.id, kind, res.result, res.rpcErr)
	}
}

// opUnsubCancelReply: the same for an Unsubscribe that waits for the answer to its eth_unsubscribe.
func (r *wsRun) opUnsubCancelReply(a, b int) {
	s := pickSub(r.subs, a, stUnsubscribing)
	if s == nil || r.isDown {
		return
	}
	if b < 0 {
		b = -b
	}
	kind := (b / 3) % 3
	var msg string
	switch kind {
	case 0:
		msg = fmt.Sprintf(`{"jsonrpc":"2.0","id":%q,"result":true}`, s.unsubID)
	case 1:
		msg = fmt.Sprintf(`{"jsonrpc":"2.0","id":%q,"result":false}`, s.unsubID)
	default:
		msg = fmt.Sprintf(`{"jsonrpc":"2.0","id":%q,"error":{"code":-32003,"message":"unsub-%s"}}`, s.unsubID, s.token)
	}
	if r.held != nil && !r.consumeHeld() {
		return
	}
	switch b % 3 {
	case 0:
		s.cancel()
		if !r.deliverRaw(msg) {
			return
		}
	case 1:
		if !r.deliverRaw(msg) {
			return
		}
		s.cancel()
	default:
		if !r.deliverRaw(msg) || !r.deliverRaw("#verif-barrier") {
			return
		}
		s.cancel()
	}
	r.class("ws:unsubscribe-cancelled-as-its-reply-arrives")
	r.stale = append(r.stale, s.unsubID)
	e, ok := r.waitUnsub(s, "its context was cancelled and the server's answer was delivered")
	if !ok || !r.barrier() {
		return
	}
	switch {
	case e == nil && kind == 2:
		r.fail("reply-pairing", "Unsubscribe of %s: the server answered error unsub-%s while the context was cancelled, the caller got no error at all", s.token, s.token)
	case e == nil:
		s.chClosed = true
	case strings.HasPrefix(e.Message, "unsub-") && (kind != 2 || e.Message != "unsub-"+s.token),
		strings.HasPrefix(e.Message, "err-"), strings.HasPrefix(e.Message, "stale-"), strings.HasPrefix(e.Message, "late-"):
		r.fail("reply-pairing", "Unsubscribe of %s was cancelled while the server's answer (kind %d) arrived: it returned an error that belongs to another request: %v", s.token, kind, e)
	}
	if kind != 2 {
		delete(r.serverLive, s.serverID) // the server has dropped it
	}
	s.state = stGone
}

// opLateReply: a reply, shaped like a genuine one, for the id of a call that finished a moment ago.
func (r *wsRun) opLateReply(a, b int) {
	if r.isDown || len(r.stale) == 0 {
		return
	}
	if a < 0 {
		a = -a
	}
	if b < 0 {
		b = -b
	}
	recent := tail(r.stale, 4)
	id := recent[len(recent)-1-a%len(recent)]
	r.seq++
	var msg string
	switch b % 3 {
	case 0:
		msg = fmt.Sprintf(`{"jsonrpc":"2.0","id":%q,"result":"late-%d"}`, id, r.seq)
	case 1:
		msg = fmt.Sprintf(`{"jsonrpc":"2.0","id":%q,"error":{"code":-32004,"message":"late-%d"}}`, id, r.seq)
	default:
		msg = fmt.Sprintf(`{"jsonrpc":"2.0","id":%q,"result":null}`, id)
	}
	if len(r.calls) > 0 {
		r.class("ws:late-reply-for-finished-call-while-others-outstanding")
	} else {
		r.class("ws:late-reply-for-finished-call")
	}
	r.deliverSync(msg)
}

func (r *wsRun) opCancelSub(a, b int) {
	s := pickSub(r.subs, a, stPending1, stLimbo)
	if s == nil {
		return
	}
	if b%2 == 1 || b%2 == -1 { // the one started most recently
		for _, x := range r.subs {
			if x.state == stPending1 || x.state == stLimbo {
				s = x
			}
		}
	}
	if s.state == stLimbo {
		r.class("ws:subscribe-cancelled-before-its-request-was-sent")
	} else {
		r.class("ws:subscribe-cancelled-while-pending")
	}
	s.cancel()
	res, ok := r.waitSubscribe(s, "its context was cancelled")
	if ok && res.rpcErr == nil {
		r.fail("error-path", "Subscribe %s returned no error after its context was cancelled", s.token)
	}
	if s.reqID != "" {
		r.stale = append(r.stale, s.reqID)
		r.cancelled = append(r.cancelled, s.reqID) // the server may still answer it
	}
	s.state, s.reqID = stGone, ""
}

// opCancelSubConfirm: the context of a pending Subscribe is cancelled and the server's answer to its request is handed to
// the receive loop back to back - neither is waited for.  The Subscribe may win its answer or give up; both are legitimate.
func (r *wsRun) opCancelSubConfirm(a, b int) {
	var pend []*wsSub
	for _, s := range r.subs {
		if s.state == stPending1 {
			pend = append(pend, s)
		}
	}
	if len(pend) == 0 || r.isDown {
		return
	}
	if a < 0 {
		a = -a
	}
	if b < 0 {
		b = -b
	}
	s := pend[len(pend)-1-a%len(pend)]
	reject := (b/3)%4 == 3
	var msg, id string
	if reject {
		msg = fmt.Sprintf(`{"jsonrpc":"2.0","id":%q,"error":{"code":-32002,"message":"rej-%s"}}`, s.reqID, s.token)
	} else {
		if id = r.freeServerID(b / 12); id == "" {
			return
		}
		msg = fmt.Sprintf(`{"jsonrpc":"2.0","id":%q,"result":%q}`, s.reqID, id)
	}
	if r.held != nil && !r.consumeHeld() { // the loop must be free to take the answer at once
		return
	}
	switch b % 3 {
	case 0:
		s.cancel()
		if !r.deliverRaw(msg) {
			return
		}
	case 1:
		if !r.deliverRaw(msg) {
			return
		}
		s.cancel()
	default:
		if !r.deliverRaw(msg) || !r.deliverRaw("#verif-barrier") {
			return
		}
		s.cancel()
	}
	r.class("ws:subscribe-cancelled-as-its-answer-arrives")
	r.stale = append(r.stale, s.reqID)
	s.reqID = ""
	s.ctxDead = true
	if id != "" {
		r.serverLive[id] = true // the server has set it up, whatever the caller makes of the answer
	}
	res, ok := r.waitSubscribe(s, "its context was cancelled and the server's answer was delivered")
	if !ok || !r.barrier() {
		s.state = stGone
		return
	}
	foreign := res.rpcErr != nil && (strings.HasPrefix(res.rpcErr.Message, "rej-") && res.rpcErr.Message != "rej-"+s.token ||
		strings.HasPrefix(res.rpcErr.Message, "err-") || strings.HasPrefix(res.rpcErr.Message, "stale-") || strings.HasPrefix(res.rpcErr.Message, "late-") || strings.HasPrefix(res.rpcErr.Message, "unsub-"))
	if foreign || (!reject && res.rpcErr != nil && strings.HasPrefix(res.rpcErr.Message, "rej-")) {
		r.fail("subscribe-pairing", "Subscribe %s was cancelled while the server's answer arrived: it returned an error that belongs to another request: %v", s.token, res.rpcErr)
	}
	switch {
	case reject:
		if res.rpcErr == nil {
			r.fail("subscribe-pairing", "Subscribe %s was rejected by the server while its context was cancelled, yet it returned no error", s.token)
		}
		s.handle, s.state = res.s, stRejected
		if res.s == nil {
			s.state = stGone
		}
	case res.rpcErr == nil && res.s != nil:
		// it got its confirmation and owns the id
		s.handle, s.state, s.serverID = res.s, stActive, id
		r.owner[id] = s
		r.class("ws:cancel+answer-at-once:subscribe-returned-its-subscription")
	case res.rpcErr != nil && res.s == nil:
		// it gave up: the id is nobody's
		s.state = stGone
		r.orphans = append(r.orphans, id)
		r.class("ws:cancel+answer-at-once:subscribe-returned-context-error")
	default:
		r.fail("subscribe-pairing", "Subscribe %s, cancelled while its confirmation arrived, returned (%v, %v): neither its subscription nor an error", s.token, res.s, res.rpcErr)
		s.state = stGone
	}
}

// opLateConfirm: the server answers the request of a Subscribe that gave up (context cancelled) before the answer came.
// Nobody is waiting; after a confirmation the server holds a subscription that no subscription of the client owns.
func (r *wsRun) opLateConfirm(a, b int) {
	if r.isDown || len(r.cancelled) == 0 {
		return
	}
	if a < 0 {
		a = -a
	}
	if b < 0 {
		b = -b
	}
	i := len(r.cancelled) - 1 - a%len(r.cancelled)
	reqID := r.cancelled[i]
	var msg, id string
	if b%4 == 3 {
		msg = fmt.Sprintf(`{"jsonrpc":"2.0","id":%q,"error":{"code":-32002,"message":"rej-late"}}`, reqID)
		r.class("ws:cancelled-subscribe-rejected-late")
	} else {
		if id = r.freeServerID(b / 4); id == "" {
			return
		}
		msg = fmt.Sprintf(`{"jsonrpc":"2.0","id":%q,"result":%q}`, reqID, id)
		r.class("ws:cancelled-subscribe-confirmed-late")
	}
	r.cancelled = append(r.cancelled[:i], r.cancelled[i+1:]...)
	if id != "" {
		r.serverLive[id] = true
		r.orphans = append(r.orphans, id)
	}
	if len(r.calls) > 0 {
		r.class("ws:cancelled-subscribe-answered-late-while-calls-outstanding")
	}
	r.deliverSync(msg)
}

func (r *wsRun) opReconnect(failAt, variant int) {
	if failAt < 0 {
		failAt = 0
	}
	limboN := r.limboCount()
	if limboN > 0 {
		failAt = 0 // keep the resolution of requests in limbo simple
	}
	outstanding := len(r.calls)
	configured := 0
	for _, s := range r.subs {
		switch s.state {
		case stPending1, stActive, stRepending, stInactive, stLimbo:
			configured++
		case stUnsubscribing:
			outstanding++
		}
	}
	if outstanding > 0 && configured > 0 {
		r.nt = true
		r.class("ws:reconnect-with-outstanding-call-and-configured-sub")
	}
	if failAt > 0 {
		r.class("ws:reconnect-callback-send-fails")
	}
	if r.held != nil {
		r.class("ws:reconnect-while-notification-held")
	}
	// requests that were blocked in Send while the connection was down go out on the new
	// connection, before or after the callback runs (the real transport starts its sender
	// before it invokes the callback, so both orders occur)
	orig := map[string]frame{}
	collectOriginals := func() bool {
		for i := 0; i < limboN; i++ {
			select {
			case b := <-r.tr.out:
				f, err := parseFrame(b)
				if err != nil {
					r.fail("request-shape", "a request that had been waiting for a connection was sent as %s (%v)", firstLine(string(b)), err)
					continue
				}
				orig[f.Method+"|"+paramString(f)] = f
			case <-time.After(liveness):
				r.stuck("a request that had been waiting for a connection was not sent within %s after the connection came back", liveness)
				return false
			}
		}
		return true
	}
	var gate chan struct{}
	if r.isDown {
		gate = r.tr.up()
		r.isDown = false
		if variant%2 == 0 && gate != nil {
			close(gate)
			gate = nil
			if !collectOriginals() {
				return
			}
			r.class("ws:limbo-requests-sent-before-callback")
		}
	}
	for attempt := 0; attempt < 3 && !r.dead; attempt++ {
		// the old connection is gone: its server ids and request ids mean nothing any more
		for id := range r.owner {
			delete(r.owner, id)
		}
		for id := range r.serverLive {
			delete(r.serverLive, id)
		}
		if attempt == 0 && failAt > 0 {
			r.tr.failNext(failAt)
		}
		lo, hi := configuredCount(r.subs), configuredCount(r.subs)+maybeCount(r.subs)
		var err error
		done := make(chan struct{})
		go func() {
			defer close(done)
			defer func() {
				if p := recover(); p != nil {
					err = fmt.Errorf("PANIC: %v", p)
				}
			}()
			err = r.reconnect(context.Background(), r.tr)
		}()
		select {
		case <-done:
		case <-time.After(liveness):
			r.stuck("the after-connect callback did not return within %s", liveness)
			return
		}
		r.tr.failNext(0)
		if err != nil && strings.HasPrefix(err.Error(), "PANIC") {
			r.fail("no-panic", "after-connect callback: %v", err)
		}
		// frames sent by the callback
		seen := map[string]int{}
		var frames []frame
	drain:
		for {
			select {
			case b := <-r.tr.out:
				f, perr := parseFrame(b)
				if perr != nil || f.Method != "eth_subscribe" {
					r.fail("resubscribe", "after-connect callback sent %s (%v)", firstLine(string(b)), perr)
					continue
				}
				seen[paramString(f)]++
				frames = append(frames, f)
			default:
				break drain
			}
		}
		if gate != nil {
			close(gate)
			gate = nil
			if !collectOriginals() {
				return
			}
			r.class("ws:limbo-requests-sent-after-callback")
		}
		// every call outstanding on the old connection completes with an error
		for _, c := range append([]*wsCall{}, r.calls...) {
			r.removeCall(c)
			r.stale = append(r.stale, c.id)
			res, ok := r.waitCall(c, "the connection was re-established")
			if !ok {
				return
			}
			if res.rpcErr == nil {
				r.fail("reconnect-fails-outstanding-calls", "call %s was outstanding on the old connection but returned result %q without error after the reconnect", c.token, res.result)
			}
		}
		for _, s := range r.subs {
			if s.state == stUnsubscribing {
				e, ok := r.waitUnsub(s, "the connection was re-established")
				if !ok {
					return
				}
				if e == nil {
					s.chClosed = true
				}
				r.stale = append(r.stale, s.unsubID)
				s.state = stGone
			}
		}
		// each configured subscription is re-requested exactly once on the new connection
		failed := err != nil
		inject := attempt == 0 && failAt > 0
		if failed && !(inject && failAt <= hi) {
			r.fail("resubscribe", "after-connect callback failed although no send failed: %v", err)
		}
		if !failed && inject && failAt <= lo {
			r.fail("resubscribe", "after-connect callback returned no error although its send number %d failed", failAt)
		}
		for _, s := range r.subs {
			n := seen[s.token]
			delete(seen, s.token)
			if s.reqID != "" {
				r.stale = append(r.stale, s.reqID)
				s.reqID = ""
			}
			s.serverID = ""
			switch s.state {
			case stPending1, stActive, stRepending, stInactive:
				if n > 1 || (n == 0 && !failed) {
					r.fail("resubscribe", "configured subscription %s (%s) was re-requested %d times on the new connection", s.token, s.state, n)
				}
			case stLimbo:
				// its first request goes out on the new connection as well: 0 or 1 from the callback
				if n > 1 {
					r.fail("resubscribe", "subscription %s (requested while the connection was down) was re-requested %d times by the callback", s.token, n)
				}
				s.state = stPending1
				if f, ok := orig["eth_subscribe|"+s.token]; ok {
					s.reqID = f.ID // overwritten below when the callback re-requested it
				} else if n == 0 {
					r.fail("resubscribe", "subscription %s (requested while the connection was down) was not requested on the new connection", s.token)
				}
			case stRejected:
				if n > 1 {
					r.fail("resubscribe", "subscription %s was re-requested %d times on the new connection", s.token, n)
				}
				if n == 1 {
					s.state = stInactive // the client treats it as configured: follow it
				}
			default:
				if n > 0 {
					r.fail("resubscribe", "subscription %s (%s) is not configured any more but was re-requested %d times", s.token, s.state, n)
				}
			}
			if n >= 1 {
				for _, f := range frames {
					if paramString(f) == s.token {
						s.reqID = f.ID
					}
				}
				if s.state != stPending1 {
					s.state = stRepending
				}
			} else if s.state == stActive || s.state == stRepending {
				s.state = stInactive
			}
		}
		for tok, n := range seen {
			r.fail("resubscribe", "after-connect callback re-requested unknown subscription %q %d times", tok, n)
		}
		ids := map[string]bool{}
		for _, f := range frames {
			if ids[f.ID] {
				r.fail("request-ids-distinct", "two re-subscribe requests share id %s", f.ID)
			}
			ids[f.ID] = true
		}
		if !failed {
			break
		}
		// the real transport reconnects again after a failed callback
	}
	if r.dead || limboN == 0 {
		return
	}
	// ---- requests that were in limbo: whatever the client decided for them, once the reply to
	// the request that did go out has been processed they must be finished, with their own reply or an error
	for _, c := range r.limbo {
		f, ok := orig["verif_echo|"+c.token]
		if !ok {
			r.fail("request-shape", "call %s had been waiting for a connection but its request was never sent", c.token)
			continue
		}
		c.id = f.ID
		if !r.deliverSync(fmt.Sprintf(`{"jsonrpc":"2.0","id":%q,"result":"res-%s"}`, c.id, c.token)) {
			return
		}
		r.stale = append(r.stale, c.id)
		res, ok := r.waitCall(c, "the connection was re-established and the reply to its request was delivered")
		if !ok {
			return
		}
		if res.rpcErr == nil && res.result != "res-"+c.token {
			r.fail("reply-pairing", "call %s (sent after the reconnect with id %s) returned result %q", c.token, c.id, res.result)
		}
	}
	r.limbo = nil
	for _, s := range r.subs {
		if s.state != stLimboUnsub {
			continue
		}
		s.state = stGone
		f, ok := orig["eth_unsubscribe|"+s.limboID]
		if !ok {
			r.fail("request-shape", "Unsubscribe of %s had been waiting for a connection but its request was never sent", s.token)
			continue
		}
		if !r.deliverSync(fmt.Sprintf(`{"jsonrpc":"2.0","id":%q,"result":true}`, f.ID)) {
			return
		}
		r.stale = append(r.stale, f.ID)
		e, ok := r.waitUnsub(s, "the connection was re-established")
		if !ok {
			return
		}
		if e == nil {
			s.chClosed = true
		}
	}
}

func configuredCount(subs []*wsSub) int {
	n := 0
	for _, s := range subs {
		switch s.state {
		case stPending1, stActive, stRepending, stInactive:
			n++
		}
	}
	return n
}

func maybeCount(subs []*wsSub) int {
	n := 0
	for _, s := range subs {
		if s.state == stRejected {
			n++
		}
	}
	return n
}

// ---- interpreter

type wsInfo struct {
	nt      bool
	classes []string
}

func runWS(c WSCase) (vs []evid.Violation, info wsInfo) {
	r := &wsRun{tr: newFakeWS(), owner: map[string]*wsSub{}, serverLive: map[string]bool{}, classes: map[string]bool{}}
	ctx, cancelAll := context.WithCancel(context.Background())
	if c.P > 0 {
		prev := runtime.GOMAXPROCS(c.P)
		defer runtime.GOMAXPROCS(prev)
	}
	r.rc, r.reconnect = rpcbackend.NewWSRPCClientWithTransport(ctx, &wsclient.WSConfig{}, r.tr)
	defer func() {
		// end of the connection: the receive loop exits when the transport closes its channel
		cancelAll()
		for _, cl := range r.calls {
			cl.cancel()
		}
		for _, s := range r.subs {
			if s.cancel != nil {
				s.cancel()
			}
		}
		close(r.tr.closed)
		if !r.dead {
			close(r.tr.recv)
		}
	}()
	// the real transport runs the callback once for the initial connection
	if err := r.reconnect(ctx, r.tr); err != nil {
		return []evid.Violation{evid.V("resubscribe", "after-connect callback failed on the initial connection: %v", err)}, info
	}
	for _, st := range c.Steps {
		if r.dead || len(r.vs) > 0 {
			break
		}
		r.trace = append(r.trace, fmt.Sprintf("%s(%d,%d)", st.Op, st.A, st.B))
		switch st.Op {
		case "call":
			r.opCall(st.A == 1)
		case "reply":
			r.opReply(st.A, st.B)
		case "stale":
			r.opStale(st.A, st.B)
		case "sub":
			r.opSub(st.A == 1)
		case "confirm":
			r.opConfirm(st.A, st.B)
		case "reject":
			r.opReject(st.A, st.B)
		case "notify":
			r.opNotify(st.A, st.B)
		case "unsub":
			r.opUnsub(st.A)
		case "unsubreply":
			r.opUnsubReply(st.A, st.B)
		case "cancelcall":
			r.opCancelCall(st.A)
		case "cancelsub":
			r.opCancelSub(st.A, st.B)
		case "lateconfirm":
			r.opLateConfirm(st.A, st.B)
		case "cancelsubconfirm":
			r.opCancelSubConfirm(st.A, st.B)
		case "cancelreply":
			r.opCancelReply(st.A, st.B)
		case "unsubcancelreply":
			r.opUnsubCancelReply(st.A, st.B)
		case "latereply":
			r.opLateReply(st.A, st.B)
		case "reconnect":
			r.opReconnect(st.A, st.B)
		case "hold":
			r.opHold(st.A)
		case "consume":
			if r.held != nil {
				r.consumeHeld()
			}
		case "down":
			r.opDown()
		}
		if !r.dead {
			r.noStrayFrames(st.Op)
			r.checkQuiet()
		}
	}
	// ---- wind down: everything still outstanding must be completable
	if !r.dead && len(r.vs) == 0 {
		r.trace = append(r.trace, "finish")
		if r.isDown {
			r.opReconnect(0, 0)
		}
		if r.held != nil && !r.dead {
			r.consumeHeld()
		}
		for len(r.calls) > 0 && !r.dead {
			r.opReply(len(r.calls)-1, 0)
		}
		for !r.dead {
			if pickSub(r.subs, 0, stPending1, stRepending) == nil || r.freeServerID(0) == "" {
				break
			}
			r.opConfirm(0, 0)
		}
		for _, id := range sortedKeys(r.owner) {
			if r.dead {
				break
			}
			r.opNotifyID(id)
		}
		// ids the server confirmed for Subscribe calls that had given up: still nobody's, and the loop still runs
		for _, id := range r.orphans {
			if !r.dead && r.serverLive[id] && r.owner[id] == nil {
				r.opNotifyID(id)
			}
		}
		for !r.dead && pickSub(r.subs, 0, stUnsubscribing) != nil {
			r.opUnsubReply(0, 0)
		}
		for !r.dead && len(r.vs) == 0 {
			s := pickSub(r.subs, 0, stActive, stRepending, stInactive, stRejected)
			if s == nil || s.handle == nil {
				break
			}
			r.opUnsub(0)
			if s.state == stUnsubscribing {
				r.opUnsubReply(0, 0)
			}
		}
		if !r.dead && len(r.vs) == 0 {
			left := 0
			for _, s := range r.subs {
				if s.state != stGone {
					left++ // first-time pending Subscribe calls that could not be confirmed (no free server id)
				}
			}
			if n := len(r.rc.Subscriptions()); n != left {
				r.fail("configured-subscriptions", "after unsubscribing everything Subscriptions() still lists %d (model: %d)", n, left)
			}
		}
	}
	for k := range r.classes {
		info.classes = append(info.classes, k)
	}
	sort.Strings(info.classes)
	info.nt = r.nt
	return r.vs, info
}

func sortedKeys(m map[string]*wsSub) []string {
	var l []string
	for k := range m {
		l = append(l, k)
	}
	sort.Strings(l)
	return l
}

// memo lets the rapid property run the interpreter once, learn the dynamic class
// labels, and hand the verdict to the recorder (whose judge would otherwise run it again).
var wsMemo struct {
	key string
	vs  []evid.Violation
	ok  bool
}

func caseKey(c interface{}) string {
	b, _ := json.Marshal(c)
	return string(b)
}

func judgeWS(c WSCase) []evid.Violation {
	if wsMemo.ok && wsMemo.key == caseKey(c) {
		wsMemo.ok = false
		return wsMemo.vs
	}
	return withRaceWatch("ws", c, func() []evid.Violation { vs, _ := runWS(c); return vs })
}

func judgeWSInfo(c WSCase) (vs []evid.Violation, info wsInfo) {
	vs = withRaceWatch("ws", c, func() (out []evid.Violation) {
		defer func() {
			if p := recover(); p != nil {
				out = append(out, evid.V("no-panic", "panic: %v", p))
			}
		}()
		out, info = runWS(c)
		return out
	})
	wsMemo.key, wsMemo.vs, wsMemo.ok = caseKey(c), vs, true
	return vs, info
}

// ---- generator

var wsOps = []string{
	"call", "call", "call", "call", "call",
	"reply", "reply", "reply", "reply",
	"sub", "sub", "sub",
	"confirm", "confirm", "confirm",
	"notify", "notify", "notify", "notify",
	"reconnect", "reconnect", "reconnect",
	"unsub", "unsub",
	"cancelreply", "cancelreply", "latereply", "unsubcancelreply",
	"motif:cancelreply", "motif:cancelreply", "motif:unsubcancelreply",
	"motif:cancelsub", "motif:cancelsub", "motif:cancelsub", "lateconfirm", "notify:orphan", "notify:live", "cancelsubconfirm",
	"unsubreply", "unsubreply",
	"stale", "stale",
	"reject", "cancelcall", "cancelsub",
	"hold", "hold", "hold", "consume", "down",
}

func genWSStep(rt *rapid.T, op string) WSStep {
	st := WSStep{Op: op}
	switch st.Op {
	case "notify:live", "notify:orphan":
		st = WSStep{Op: "notify", A: rapid.IntRange(0, 3).Draw(rt, "a"), B: map[string]int{"notify:live": 1, "notify:orphan": 2}[op]}
	case "lateconfirm":
		st.A = rapid.IntRange(0, 2).Draw(rt, "a")
		st.B = rapid.IntRange(0, 19).Draw(rt, "b")
	case "cancelsubconfirm":
		st.A = rapid.IntRange(0, 2).Draw(rt, "a")
		st.B = rapid.IntRange(0, 59).Draw(rt, "b")
	case "cancelsub":
		st.A = rapid.IntRange(0, 7).Draw(rt, "a")
		st.B = rapid.IntRange(0, 1).Draw(rt, "b")
	case "call", "sub":
		if rapid.IntRange(0, 11).Draw(rt, "sendfail") == 11 {
			st.A = 1
		}
	case "reconnect":
		st.A = rapid.SampledFrom([]int{0, 0, 0, 1, 2, 3}).Draw(rt, "failAt")
		st.B = rapid.IntRange(0, 1).Draw(rt, "limboOrder")
	case "consume", "down":
	case "cancelcall", "unsub", "notify":
		st.A = rapid.IntRange(0, 7).Draw(rt, "a")
	case "cancelreply", "unsubcancelreply":
		st.A = rapid.IntRange(0, 7).Draw(rt, "a")
		st.B = rapid.IntRange(0, 8).Draw(rt, "b")
	default:
		st.A = rapid.IntRange(0, 7).Draw(rt, "a")
		st.B = rapid.IntRange(0, 5).Draw(rt, "b")
	}
	return st
}

// wsChunkGen yields one step, or a motif: a few steps that set a situation up and follow it through.
//
//	motif:cancelreply       1..3 calls; one of them is cancelled as its reply arrives (both pending at once); perhaps a
//	                        late reply for a finished call; then 1..3 times: a new call, perhaps another late reply, the
//	                        answer to some outstanding call - each of which must carry the reply to its own request
//	motif:unsubcancelreply  subscribe, confirm, unsubscribe, the Unsubscribe cancelled as the server's answer arrives, then calls
//	motif:cancelsub         a Subscribe is cancelled while it is pending - after its request went out, or (one time in four)
//	                        while the connection is down, before its request could be sent - perhaps beside a live subscription
//	                        and an outstanding call (one time in three the server's answer arrives as the context is cancelled:
//	                        cancelsubconfirm); the server answers the abandoned request late (confirmation, rejection, or
//	                        never) and sends notifications for the id it confirmed; in between and afterwards calls with their
//	                        replies, new subscriptions with notifications of their own, a reconnect, more notifications for the
//	                        abandoned id
var wsChunkGen = rapid.Custom(func(rt *rapid.T) []WSStep {
	op := rapid.SampledFrom(wsOps).Draw(rt, "op")
	switch op {
	case "motif:cancelreply":
		var l []WSStep
		for i, n := 0, rapid.IntRange(1, 3).Draw(rt, "calls"); i < n; i++ {
			l = append(l, WSStep{Op: "call"})
		}
		l = append(l, genWSStep(rt, "cancelreply"))
		if rapid.Bool().Draw(rt, "late") {
			l = append(l, genWSStep(rt, "latereply"))
		}
		for i, n := 0, rapid.IntRange(1, 3).Draw(rt, "after"); i < n; i++ {
			l = append(l, WSStep{Op: "call"})
			switch rapid.IntRange(0, 3).Draw(rt, "between") {
			case 0:
				l = append(l, genWSStep(rt, "latereply"))
			case 1:
				l = append(l, genWSStep(rt, "cancelreply"), WSStep{Op: "call"})
			}
			l = append(l, genWSStep(rt, "reply"))
		}
		return l
	case "motif:cancelsub":
		var l []WSStep
		if rapid.Bool().Draw(rt, "beside-live") {
			l = append(l, WSStep{Op: "sub"}, genWSStep(rt, "confirm"))
		}
		if rapid.Bool().Draw(rt, "beside-call") {
			l = append(l, WSStep{Op: "call"})
		}
		unsent := rapid.IntRange(0, 3).Draw(rt, "unsent") == 2
		if unsent {
			l = append(l, WSStep{Op: "down"})
		}
		l = append(l, WSStep{Op: "sub"})
		if rapid.IntRange(0, 2).Draw(rt, "second") == 1 { // two abandoned requests, answered in either order
			l = append(l, WSStep{Op: "sub"}, WSStep{Op: "cancelsub", B: 1})
		}
		if !unsent && rapid.IntRange(0, 2).Draw(rt, "at-once") == 1 {
			// the cancellation and the server's answer at once: the Subscribe wins its answer or gives up
			st := genWSStep(rt, "cancelsubconfirm")
			st.A = 0
			l = append(l, st)
		} else {
			l = append(l, WSStep{Op: "cancelsub", B: 1})
		}
		if unsent {
			l = append(l, genWSStep(rt, "reconnect"))
		}
		mid := func(tag string) {
			switch rapid.IntRange(0, 5).Draw(rt, tag) {
			case 0:
				l = append(l, WSStep{Op: "call"})
			case 1:
				l = append(l, WSStep{Op: "call"}, genWSStep(rt, "reply"))
			case 2:
				l = append(l, genWSStep(rt, "notify:live"))
			}
		}
		mid("before-answer")
		for i, n := 0, rapid.IntRange(0, 2).Draw(rt, "answers"); i < n; i++ {
			l = append(l, genWSStep(rt, "lateconfirm"))
		}
		for i, n := 0, rapid.IntRange(1, 3).Draw(rt, "events"); i < n; i++ {
			l = append(l, genWSStep(rt, "notify:orphan"))
			mid("between-events")
		}
		for i, n := 0, rapid.IntRange(1, 3).Draw(rt, "after"); i < n; i++ {
			switch rapid.IntRange(0, 4).Draw(rt, "then") {
			case 0, 1:
				l = append(l, WSStep{Op: "call"}, genWSStep(rt, "reply"))
			case 2:
				l = append(l, WSStep{Op: "sub"}, genWSStep(rt, "confirm"), genWSStep(rt, "notify:live"), genWSStep(rt, "notify:orphan"))
			case 3:
				l = append(l, genWSStep(rt, "reconnect"), genWSStep(rt, "notify:orphan"), WSStep{Op: "call"}, genWSStep(rt, "reply"))
			default:
				l = append(l, genWSStep(rt, "lateconfirm"), genWSStep(rt, "notify:orphan"), genWSStep(rt, "unsub"), genWSStep(rt, "unsubreply"))
			}
		}
		return l
	case "motif:unsubcancelreply":
		l := []WSStep{{Op: "sub"}, genWSStep(rt, "confirm"), genWSStep(rt, "unsub"), genWSStep(rt, "unsubcancelreply")}
		for i, n := 0, rapid.IntRange(1, 2).Draw(rt, "after"); i < n; i++ {
			l = append(l, WSStep{Op: "call"}, genWSStep(rt, "reply"))
		}
		return l
	}
	return []WSStep{genWSStep(rt, op)}
})

func genWS(rt *rapid.T) WSCase {
	// a slice generator (not a counted loop) so that shrinking can delete steps anywhere
	minLen := rapid.SampledFrom([]int{4, 8, 16, 16, 30, 30, 45}).Draw(rt, "minSteps")
	c := WSCase{P: rapid.SampledFrom([]int{0, 0, 1, 1, 2, 4}).Draw(rt, "gomaxprocs")}
	for _, ch := range rapid.SliceOfN(wsChunkGen, minLen, 60).Draw(rt, "steps") {
		c.Steps = append(c.Steps, ch...)
	}
	if len(c.Steps) > 80 {
		c.Steps = c.Steps[:80]
	}
	return c
}

func classifyWS(c WSCase) (bool, []string) {
	vs, info := judgeWSInfo(c)
	_ = vs
	cl := append([]string{}, info.classes...)
	switch n := len(c.Steps); {
	case n <= 15:
		cl = append(cl, "ws:steps<=15")
	case n <= 35:
		cl = append(cl, "ws:steps=16..35")
	default:
		cl = append(cl, "ws:steps=36..80")
	}
	cl = append(cl, fmt.Sprintf("ws:gomaxprocs=%d", c.P))
	return info.nt, cl
}
