// Package c18 decides property C18 (the RPC clients pair each reply with its
// request under concurrency and reconnects).
//
//   - http_test.go   HTTP client: generated rounds of 1..64 concurrent callers against a
//     scripted backend that holds every request and releases them in a generated order.
//   - ws_test.go     WebSocket client, deterministic: a generated event sequence is
//     interpreted against the real client built around a harness-owned transport (the
//     verif-tagged hook rpcbackend.NewWSRPCClientWithTransport), with an explicit model
//     of outstanding calls, subscriptions and server-id ownership.
//   - sock_test.go   WebSocket client over real sockets (thorough tier): a gorilla server
//     inside the harness that drops connections at generated points.
//
// The test binary is built with -race; reports with a frame in pkg/rpcbackend are
// picked up in-process (so that the failing case is the replay file) and by the driver.
package c18

import (
	"bytes"
	"encoding/json"
	"fmt"
	"os"
	"path/filepath"
	"runtime"
	"strconv"
	"strings"
	"sync/atomic"
	"testing"
	"time"

	"github.com/sirupsen/logrus"
	"pgregory.net/rapid"

	"verifharness/evid"
)

const rule = "HTTP: round with >= 2x limit concurrent callers (limit > 0) whose generated release order is not arrival order; " +
	"WS (deterministic): sequence with a reconnect while >= 1 call is outstanding and >= 1 subscription is configured; " +
	"WS (socket): run with >= 1 dropped connection while calls are outstanding and >= 1 subscription configured; distinct by hash of the case"

const (
	raceFilter = "pkg/rpcbackend"
	liveness   = 30 * time.Second
)

// note counts a dynamic class label in the evidence (set by TestCheck).
var note = func(label string) {}

func outDir() string { return os.Getenv("VERIF_OUT") }

func shard() string {
	if s := os.Getenv("VERIF_SHARD"); s != "" {
		return s
	}
	return "0"
}

func writeHistory(name string, v interface{}) {
	d := outDir()
	if d == "" {
		return
	}
	b, err := json.Marshal(v)
	if err != nil {
		return
	}
	_ = os.WriteFile(filepath.Join(d, name), b, 0o644)
}

// ---- race log (GORACE log_path=<p> makes the runtime write reports to <p>.<pid>)

func raceLogPath() string {
	for _, f := range strings.Fields(os.Getenv("GORACE")) {
		if strings.HasPrefix(f, "log_path=") {
			p := strings.TrimPrefix(f, "log_path=")
			if p == "stderr" || p == "stdout" || p == "" {
				return ""
			}
			return p + "." + strconv.Itoa(os.Getpid())
		}
	}
	return ""
}

func raceMark() int64 {
	p := raceLogPath()
	if p == "" {
		return 0
	}
	st, err := os.Stat(p)
	if err != nil {
		return 0
	}
	return st.Size()
}

func raceSince(mark int64) []string {
	p := raceLogPath()
	if p == "" {
		return nil
	}
	b, err := os.ReadFile(p)
	if err != nil || int64(len(b)) <= mark {
		return nil
	}
	var out []string
	for _, block := range strings.Split(string(b[mark:]), "==================") {
		if strings.Contains(block, "DATA RACE") && strings.Contains(block, raceFilter) {
			out = append(out, strings.TrimSpace(block))
		}
	}
	return out
}

var raceSaved atomic.Int32

// withRaceWatch runs judge and turns race reports written meanwhile into a violation;
// the case (with what was observed) is saved as history-<shard>*.json.
func withRaceWatch(kind string, c interface{}, judge func() []evid.Violation) (vs []evid.Violation) {
	type hist struct {
		Kind    string           `json:"kind"`
		Case    interface{}      `json:"case"`
		Race    string           `json:"race_report,omitempty"`
		Verdict []evid.Violation `json:"violations,omitempty"`
	}
	h := &hist{Kind: kind, Case: c}
	name := fmt.Sprintf("history-%s.json", shard())
	writeHistory(name, h)
	mark := raceMark()
	defer func() {
		if reps := raceSince(mark); len(reps) > 0 {
			h.Race = reps[0]
			vs = append(vs, evid.V("no-data-race", "race detector report with a frame in %s\n%d report(s) during this case:\n%s", raceFilter, len(reps), reps[0]))
			if n := raceSaved.Add(1); n <= 3 {
				h.Verdict = vs
				writeHistory(fmt.Sprintf("history-%s-race%d.json", shard(), n), h)
			}
		}
		h.Verdict = vs
		writeHistory(name, h)
	}()
	return judge()
}

func dumpGoroutines(tag string) string {
	buf := make([]byte, 1<<20)
	for {
		n := runtime.Stack(buf, true)
		if n < len(buf) {
			buf = buf[:n]
			break
		}
		buf = make([]byte, 2*len(buf))
	}
	if d := outDir(); d != "" {
		p := filepath.Join(d, fmt.Sprintf("goroutines-%s-%s.txt", shard(), tag))
		_ = os.WriteFile(p, buf, 0o644)
		return p
	}
	return ""
}

func firstLine(s string) string {
	if i := strings.IndexByte(s, '\n'); i >= 0 {
		s = s[:i]
	}
	if len(s) > 200 {
		s = s[:200]
	}
	return s
}

// jsonEq compares two JSON texts structurally (numbers as written).
func jsonEq(a, b string) bool {
	var x, y interface{}
	da := json.NewDecoder(bytes.NewReader([]byte(a)))
	da.UseNumber()
	db := json.NewDecoder(bytes.NewReader([]byte(b)))
	db.UseNumber()
	if da.Decode(&x) != nil || db.Decode(&y) != nil {
		return a == b
	}
	ja, _ := json.Marshal(x)
	jb, _ := json.Marshal(y)
	return bytes.Equal(ja, jb)
}

type discard struct{}

func (discard) Write(p []byte) (int, error) { return len(p), nil }

func setup() {
	// the clients log under a global lock: that would add happens-before edges between
	// otherwise unrelated goroutines (hiding races) and produce megabytes of output
	logrus.SetLevel(logrus.PanicLevel)
	logrus.SetOutput(discard{})
}

func TestCheck(t *testing.T) {
	rec := evid.Start("C18", rule)
	defer rec.Finish()
	setup()
	note = rec.Class
	rec.Assume("HTTP: the scripted backend answers with JSON objects only (other bodies are not asserted); in-flight = requests that reached the backend and were not yet released by the script")
	rec.Assume("WS deterministic part: the harness owns the transport (hook NewWSRPCClientWithTransport, build tag verif) and is the only source of events; every schedule of the generated events is exact, but preemption inside one library function (e.g. notification delivery racing Unsubscribe inside the receive loop) is not explored and not asserted")
	rec.Assume("WS deterministic part, cancellation racing a reply: a call (or Unsubscribe) whose context is cancelled while the reply to its request is handed over - neither waited for, both orders, also under GOMAXPROCS 1/2/4 - may return its own reply or the context error; nothing else, and every later call must still receive exactly the reply to its own request")
	rec.Assume("WS deterministic part, Subscribe cancelled while pending: the Subscribe returns an error and owns nothing. The server may have processed the request all the same: its late answer (confirmation with a server id, or rejection) and the notifications it then sends for that id are delivered like any other frame; judged with the ordinary invariants only - such a notification reaches no subscription (no Subscribe returned successfully for that id), the receive loop goes on taking frames, every later call / Subscribe / Unsubscribe gets exactly its own reply, a reconnect re-requests only the configured subscriptions. Whether the client keeps an internal entry for the abandoned request is not asserted; the Subscribe is also cancelled while the connection is down, before its request could be sent (no answer can come then); and as the server's answer is handed over (neither waited for, three orders, GOMAXPROCS 1/2/4): the Subscribe may return its subscription - which then owns the server id - or the context error - then the id is nobody's; nothing else. A subscription whose Subscribe context is dead is not waited for by the client when its reader is slow: a notification for it may be dropped (not asserted either way) but must never reach another subscription")
	rec.Assume("WS socket part: the Go scheduler/kernel own the interleaving; oracle is order-insensitive; calls or Subscribe calls that overlap a down period may either fail or succeed; the real client is never closed (closing a reconnecting firefly-common wsclient is itself racy outside pkg/rpcbackend)")
	rec.Assume("liveness (completes instead of hanging) is a 30 s bound on an otherwise idle process; trusted base: Go race detector, net/http, gorilla/websocket, resty")
	kHTTP := evid.NewKind(rec, "http", judgeHTTP)
	kWS := evid.NewKind(rec, "ws", judgeWS)
	kSock := evid.NewKind(rec, "sock", judgeSock)
	rec.Corpus(t)
	rec.Rapid(t, "http", rec.N(400, 1000), func(rt *rapid.T) {
		c := genHTTP(rt)
		nt, cl := classifyHTTP(c)
		kHTTP.Check(rt, c, nt, cl...)
	})
	rec.Rapid(t, "ws", rec.N(1200, 5000), func(rt *rapid.T) {
		c := genWS(rt)
		nt, cl := classifyWS(c)
		kWS.Check(rt, c, nt, cl...)
	})
	if rec.Thorough() {
		rec.Rapid(t, "sock", rec.N(0, 200), func(rt *rapid.T) {
			c := genSock(rt)
			nt, cl := classifySock(c)
			kSock.Check(rt, c, nt, cl...)
		})
	}
}

func TestReplay(t *testing.T) {
	rec := evid.Start("C18", rule)
	setup()
	evid.NewKind(rec, "http", judgeHTTP)
	evid.NewKind(rec, "ws", judgeWS)
	evid.NewKind(rec, "sock", judgeSock)
	rec.Replay(t)
}
