package c18

import (
	"context"
	"encoding/json"
	"fmt"
	"io"
	"net/http"
	"net/http/httptest"
	"sort"
	"sync"
	"time"

	"github.com/go-resty/resty/v2"
	"github.com/hyperledger/firefly-common/pkg/fftypes"
	"github.com/hyperledger/firefly-signer/pkg/rpcbackend"
	"pgregory.net/rapid"

	"verifharness/evid"
)

// HTTPCaller is one concurrent caller of a round.
//
//	ID     raw JSON of the caller's own request id ("" = no id at all)
//	Call   use CallRPC instead of SyncRequest
//	Reply  ok | null | rpcerr | httperr | drop | cancel  (what the backend does once the script releases the request;
//	       cancel = the caller's context is cancelled while the request is held by the backend)
//	Echo   same | wrong | dup | absent | number          (which id the backend puts into its reply)
//	CancelQueued  cancel the caller's context if it is still waiting for a concurrency slot when all slots are taken
type HTTPCaller struct {
	ID           string `json:"id"`
	Call         bool   `json:"call,omitempty"`
	Reply        string `json:"reply"`
	Echo         string `json:"echo"`
	Status       int    `json:"status,omitempty"`
	CancelQueued bool   `json:"cancel_queued,omitempty"`
}

// HTTPCase: Limit 0 = unlimited. Order[k] selects (modulo the number of held requests,
// sorted by caller index) which held request the backend script releases k-th.
type HTTPCase struct {
	Limit   int          `json:"limit"`
	Callers []HTTPCaller `json:"callers"`
	Order   []int        `json:"order"`
}

type heldReq struct {
	caller  int
	id      string // raw JSON id as received
	release chan struct{}
	echo    string // decided at release time
	plan    HTTPCaller
}

type scriptedBackend struct {
	mu        sync.Mutex
	held      map[int]*heldReq
	max       int
	ids       []string
	arrivals  map[int]int
	malformed []string
	changed   chan struct{}
}

func (b *scriptedBackend) signal() {
	select {
	case b.changed <- struct{}{}:
	default:
	}
}

func (b *scriptedBackend) ServeHTTP(w http.ResponseWriter, r *http.Request) {
	body, _ := io.ReadAll(r.Body)
	var req struct {
		JSONRPC string            `json:"jsonrpc"`
		ID      json.RawMessage   `json:"id"`
		Method  string            `json:"method"`
		Params  []json.RawMessage `json:"params"`
	}
	caller := -1
	if err := json.Unmarshal(body, &req); err == nil && len(req.Params) == 1 {
		var tok string
		if json.Unmarshal(req.Params[0], &tok) == nil {
			_, _ = fmt.Sscanf(tok, "tok-%d", &caller)
		}
	}
	h := &heldReq{caller: caller, id: string(req.ID), release: make(chan struct{})}
	b.mu.Lock()
	if caller < 0 || req.JSONRPC != "2.0" || req.Method != "verif_echo" {
		b.malformed = append(b.malformed, string(body))
	}
	b.ids = append(b.ids, h.id)
	b.arrivals[caller]++
	b.held[caller] = h
	if len(b.held) > b.max {
		b.max = len(b.held)
	}
	b.mu.Unlock()
	b.signal()
	select {
	case <-h.release:
	case <-r.Context().Done():
		return
	}
	tok := fmt.Sprintf("tok-%d", caller)
	idField := ""
	if h.echo != "" {
		idField = `"id":` + h.echo + `,`
	}
	w.Header().Set("Content-Type", "application/json")
	switch h.plan.Reply {
	case "ok":
		w.WriteHeader(200)
		fmt.Fprintf(w, `{"jsonrpc":"2.0",%s"result":"res-%s"}`, idField, tok)
	case "null":
		w.WriteHeader(200)
		fmt.Fprintf(w, `{"jsonrpc":"2.0",%s"result":null}`, idField)
	case "rpcerr":
		w.WriteHeader(200)
		fmt.Fprintf(w, `{"jsonrpc":"2.0",%s"error":{"code":-32000,"message":"err-%s"}}`, idField, tok)
	case "httperr":
		st := h.plan.Status
		if st < 400 || st > 599 {
			st = 500
		}
		w.WriteHeader(st)
		fmt.Fprintf(w, `{"jsonrpc":"2.0",%s"error":{"code":-32000,"message":"err-%s"}}`, idField, tok)
	default: // drop: close the connection without an answer
		if hj, ok := w.(http.Hijacker); ok {
			if conn, _, err := hj.Hijack(); err == nil {
				_ = conn.Close()
			}
		}
	}
}

type httpResult struct {
	res    *rpcbackend.RPCResponse
	err    error
	rpcErr *rpcbackend.RPCError
	result string
	panicV interface{}
}

func judgeHTTP(c HTTPCase) []evid.Violation {
	return withRaceWatch("http", c, func() []evid.Violation { return runHTTP(c) })
}

func runHTTP(c HTTPCase) (vs []evid.Violation) {
	n := len(c.Callers)
	if n == 0 || n > 64 || c.Limit < 0 {
		return []evid.Violation{evid.V("harness", "bad case shape")}
	}
	be := &scriptedBackend{held: map[int]*heldReq{}, arrivals: map[int]int{}, changed: make(chan struct{}, 1)}
	srv := httptest.NewServer(be)
	hc := resty.New().SetBaseURL(srv.URL)
	defer func() {
		be.mu.Lock()
		for _, h := range be.held {
			close(h.release)
		}
		be.held = map[int]*heldReq{}
		be.mu.Unlock()
		hc.GetClient().CloseIdleConnections()
		srv.CloseClientConnections()
		srv.Close()
	}()
	client := rpcbackend.NewRPCClientWithOption(hc, rpcbackend.RPCClientOptions{MaxConcurrentRequest: int64(c.Limit)})

	ctxs := make([]context.Context, n)
	cancels := make([]context.CancelFunc, n)
	results := make([]chan httpResult, n)
	for i := range c.Callers {
		ctxs[i], cancels[i] = context.WithCancel(context.Background())
		results[i] = make(chan httpResult, 1)
	}
	defer func() {
		for _, cf := range cancels {
			cf()
		}
	}()
	start := make(chan struct{})
	for i, cl := range c.Callers {
		go func(i int, cl HTTPCaller) {
			var r httpResult
			defer func() {
				if p := recover(); p != nil {
					r.panicV = p
				}
				results[i] <- r
			}()
			<-start
			tok := fmt.Sprintf("tok-%d", i)
			if cl.Call {
				r.rpcErr = client.CallRPC(ctxs[i], &r.result, "verif_echo", tok)
				return
			}
			req := &rpcbackend.RPCRequest{Method: "verif_echo", Params: []*fftypes.JSONAny{fftypes.JSONAnyPtr(`"` + tok + `"`)}}
			if cl.ID != "" {
				req.ID = fftypes.JSONAnyPtr(cl.ID)
			}
			r.res, r.err = client.SyncRequest(ctxs[i], req)
		}(i, cl)
	}
	close(start)

	remaining := map[int]bool{}
	for i := range c.Callers {
		remaining[i] = true
	}
	waitResult := func(i int, why string) (httpResult, bool) {
		select {
		case r := <-results[i]:
			return r, true
		case <-time.After(liveness):
			p := dumpGoroutines("stuck")
			vs = append(vs, evid.V("liveness", "a caller did not return within %s\ncaller %d, after %s; goroutine dump: %s", liveness, i, why, p))
			return httpResult{}, false
		}
	}
	check := func(i int, r httpResult, outcome string) {
		cl := c.Callers[i]
		tok := fmt.Sprintf("tok-%d", i)
		if r.panicV != nil {
			vs = append(vs, evid.V("no-panic", "a caller panicked\ncaller %d (%s): %v", i, outcome, r.panicV))
			return
		}
		if cl.Call {
			switch outcome {
			case "ok":
				if r.rpcErr != nil || r.result != "res-"+tok {
					vs = append(vs, evid.V("reply-pairing", "a CallRPC caller did not get the result the backend sent for its request\ncaller %d: want result res-%s, got result %q error %v", i, tok, r.result, r.rpcErr))
				}
			case "null":
				if r.rpcErr != nil || r.result != "" {
					vs = append(vs, evid.V("reply-pairing", "a CallRPC caller did not get the null result the backend sent for its request\ncaller %d: got result %q error %v", i, r.result, r.rpcErr))
				}
			case "rpcerr", "httperr":
				if r.rpcErr == nil || r.rpcErr.Message != "err-"+tok {
					vs = append(vs, evid.V("reply-pairing", "a CallRPC caller did not get the error the backend sent for its request\ncaller %d: want error err-%s, got result %q error %v", i, tok, r.result, r.rpcErr))
				}
			default:
				if r.rpcErr == nil {
					vs = append(vs, evid.V("error-path", "a CallRPC caller got no error although its request failed\ncaller %d (%s): result %q", i, outcome, r.result))
				}
			}
			return
		}
		if r.res == nil {
			vs = append(vs, evid.V("response-populated", "SyncRequest returned a nil RPCResponse\ncaller %d (%s): err=%v", i, outcome, r.err))
			return
		}
		gotID := ""
		if r.res.ID != nil {
			gotID = r.res.ID.String()
		}
		if (cl.ID == "") != (r.res.ID == nil) || (cl.ID != "" && !jsonEq(cl.ID, gotID)) {
			vs = append(vs, evid.V("original-id", "SyncRequest returned a response whose id is not the caller's own original id\ncaller %d (%s, backend echoed id '%s'): response id %q, the caller's own id was %q", i, outcome, cl.Echo, gotID, cl.ID))
		}
		switch outcome {
		case "ok":
			if r.err != nil || r.res.Result == nil || r.res.Result.String() != `"res-`+tok+`"` || r.res.Error != nil {
				vs = append(vs, evid.V("reply-pairing", "a SyncRequest caller did not get the result the backend sent for its request\ncaller %d: want result \"res-%s\", got result %v error %v / %v", i, tok, r.res.Result, r.res.Error, r.err))
			}
		case "null":
			if r.err != nil || r.res.Result == nil || r.res.Result.String() != "null" {
				vs = append(vs, evid.V("reply-pairing", "a SyncRequest caller did not get the null result the backend sent for its request\ncaller %d: got result %v error %v", i, r.res.Result, r.err))
			}
		case "rpcerr", "httperr":
			if r.err == nil || r.res.Error == nil || r.res.Error.Message != "err-"+tok {
				vs = append(vs, evid.V("reply-pairing", "a SyncRequest caller did not get the error the backend sent for its request\ncaller %d (%s): want error err-%s, got error %v / %v", i, outcome, tok, r.res.Error, r.err))
			}
		default:
			if r.err == nil || r.res.Error == nil {
				vs = append(vs, evid.V("error-path", "a SyncRequest caller whose request failed did not get an error together with a populated error response\ncaller %d (%s): got %v / %v", i, outcome, r.res.Error, r.err))
			}
		}
	}
	heldSorted := func() []int {
		var l []int
		for k := range be.held {
			l = append(l, k)
		}
		sort.Ints(l)
		return l
	}

	lastID := ""
	step := 0
	for len(remaining) > 0 {
		target := len(remaining)
		if c.Limit > 0 && c.Limit < target {
			target = c.Limit
		}
		// wait until the backend holds `target` requests
		deadline := time.Now().Add(liveness)
		for {
			be.mu.Lock()
			nHeld := len(be.held)
			be.mu.Unlock()
			if nHeld >= target {
				break
			}
			left := time.Until(deadline)
			if left <= 0 {
				p := dumpGoroutines("stuck")
				return append(vs, evid.V("liveness", "fewer requests than expected reached the backend within %s\nonly %d of %d (limit %d, %d callers not finished); goroutine dump: %s", liveness, nHeld, target, c.Limit, len(remaining), p))
			}
			select {
			case <-be.changed:
			case <-time.After(left):
			}
		}
		be.mu.Lock()
		over := c.Limit > 0 && be.max > c.Limit
		maxSeen := be.max
		be.mu.Unlock()
		if over {
			return append(vs, evid.V("in-flight-bound", "more requests were outstanding at the backend at once than the limit %d\nobserved %d", c.Limit, maxSeen))
		}
		// every slot is taken: callers that have not reached the backend are queued (or about to queue)
		if c.Limit > 0 {
			be.mu.Lock()
			var queued []int
			for i := range remaining {
				if _, isHeld := be.held[i]; !isHeld && c.Callers[i].CancelQueued {
					queued = append(queued, i)
				}
			}
			be.mu.Unlock()
			sort.Ints(queued)
			for _, i := range queued {
				cancels[i]()
				r, ok := waitResult(i, "its context was cancelled while it was queued for a concurrency slot")
				if !ok {
					return vs
				}
				check(i, r, "cancelled-while-queued")
				delete(remaining, i)
				note("dyn:http-cancelled-while-queued")
			}
			if len(remaining) == 0 {
				break
			}
		}
		be.mu.Lock()
		hl := heldSorted()
		if len(hl) == 0 {
			be.mu.Unlock()
			continue
		}
		pick := 0
		if step < len(c.Order) {
			pick = c.Order[step]
		}
		if pick < 0 {
			pick = -pick
		}
		step++
		i := hl[pick%len(hl)]
		h := be.held[i]
		delete(be.held, i) // released = no longer outstanding at the backend
		be.mu.Unlock()
		if i < 0 || i >= n {
			return append(vs, evid.V("request-shape", "backend received a request that carries no caller token"))
		}
		if !remaining[i] {
			close(h.release)
			return append(vs, evid.V("in-flight-bound", "a request reached the backend although its caller had already returned (cancelled while every concurrency slot was taken)\ncaller %d", i))
		}
		h.plan = c.Callers[i]
		switch h.plan.Echo {
		case "same":
			h.echo = h.id
		case "wrong":
			h.echo = `"987654321"`
		case "dup":
			h.echo = lastID
			if h.echo == "" {
				h.echo = `"000000001"`
			}
		case "number":
			h.echo = `7`
		default:
			h.echo = ""
		}
		lastID = h.id
		outcome := h.plan.Reply
		if outcome == "cancel" {
			cancels[i]()
		} else {
			close(h.release)
		}
		r, ok := waitResult(i, "the backend script released its request ("+outcome+")")
		if !ok {
			return vs
		}
		check(i, r, outcome)
		delete(remaining, i)
		if len(vs) > 6 {
			return vs
		}
	}

	be.mu.Lock()
	defer be.mu.Unlock()
	if c.Limit > 0 && be.max > c.Limit {
		vs = append(vs, evid.V("in-flight-bound", "more requests were outstanding at the backend at once than the limit %d\nobserved %d", c.Limit, be.max))
	}
	seen := map[string]bool{}
	for _, id := range be.ids {
		if seen[id] {
			vs = append(vs, evid.V("backend-ids-unique", "a backend request id was used twice\nid %s (%d requests)", id, len(be.ids)))
			break
		}
		seen[id] = true
		var s string
		if json.Unmarshal([]byte(id), &s) != nil && id != "" {
			// ids are allocated by the client; any JSON scalar is acceptable, uniqueness is what matters
			continue
		}
	}
	for i, k := range be.arrivals {
		if k > 1 {
			vs = append(vs, evid.V("one-request-per-call", "one call produced several backend requests\ncaller %d: %d", i, k))
		}
	}
	if len(be.malformed) > 0 {
		vs = append(vs, evid.V("request-shape", "backend received a malformed request: %s", firstLine(be.malformed[0])))
	}
	return vs
}

// ---- generator

var callerIDs = []string{`1`, `1`, `2`, `"a"`, `"000000001"`, `"000000002"`, `null`, ``, `123456789012345678901234567890`, `"x y"`, `-5`, `"1"`}

func callerGen(limited bool) *rapid.Generator[HTTPCaller] {
	return rapid.Custom(func(rt *rapid.T) HTTPCaller {
		cl := HTTPCaller{
			ID:    rapid.SampledFrom(callerIDs).Draw(rt, "id"),
			Call:  rapid.IntRange(0, 4).Draw(rt, "call") == 4,
			Reply: rapid.SampledFrom([]string{"ok", "ok", "ok", "null", "rpcerr", "rpcerr", "httperr", "httperr", "drop", "cancel"}).Draw(rt, "reply"),
			Echo:  rapid.SampledFrom([]string{"same", "wrong", "dup", "absent", "number"}).Draw(rt, "echo"),
		}
		if cl.Reply == "httperr" {
			cl.Status = rapid.SampledFrom([]int{500, 503, 400, 404, 429}).Draw(rt, "status")
		}
		if limited {
			cl.CancelQueued = rapid.IntRange(0, 5).Draw(rt, "cancelQueued") == 5
		}
		return cl
	})
}

func genHTTP(rt *rapid.T) HTTPCase {
	c := HTTPCase{Limit: rapid.SampledFrom([]int{0, 1, 1, 2, 2, 3, 4, 5, 8}).Draw(rt, "limit")}
	n := rapid.SampledFrom([]int{1, 2, 3, 4, 6, 8, 8, 12, 16, 16, 24, 32, 64}).Draw(rt, "callers")
	if c.Limit > 0 && rapid.Bool().Draw(rt, "twiceLimit") && n < 2*c.Limit {
		n = 2*c.Limit + rapid.IntRange(0, 4).Draw(rt, "extra")
	}
	// slice generators (not counted loops) so that shrinking can delete callers; n is only the upper bound
	c.Callers = rapid.SliceOfN(callerGen(c.Limit > 0), 1, n).Draw(rt, "callers")
	if len(c.Callers) < n && rapid.IntRange(0, 9).Draw(rt, "fill") > 0 {
		c.Callers = append(c.Callers, rapid.SliceOfN(callerGen(c.Limit > 0), n-len(c.Callers), n-len(c.Callers)).Draw(rt, "more")...)
	}
	c.Order = rapid.SliceOfN(rapid.IntRange(0, 63), 0, len(c.Callers)).Draw(rt, "order")
	return c
}

func classifyHTTP(c HTTPCase) (bool, []string) {
	var cl []string
	switch {
	case c.Limit == 0:
		cl = append(cl, "http:limit=unlimited")
	case c.Limit == 1:
		cl = append(cl, "http:limit=1")
	default:
		cl = append(cl, "http:limit=2..8")
	}
	n := len(c.Callers)
	switch {
	case n <= 4:
		cl = append(cl, "http:callers=1..4")
	case n <= 16:
		cl = append(cl, "http:callers=5..16")
	default:
		cl = append(cl, "http:callers=17..64")
	}
	nonFIFO := false
	for _, o := range c.Order {
		if o != 0 {
			nonFIFO = true
		}
	}
	seen := map[string]bool{}
	for _, k := range c.Callers {
		if !seen["r:"+k.Reply] {
			seen["r:"+k.Reply] = true
			cl = append(cl, "http:reply="+k.Reply)
		}
		if !seen["e:"+k.Echo] {
			seen["e:"+k.Echo] = true
			cl = append(cl, "http:echo="+k.Echo)
		}
		if k.CancelQueued && !seen["cq"] {
			seen["cq"] = true
			cl = append(cl, "http:cancel-queued-planned")
		}
		if k.Call && !seen["call"] {
			seen["call"] = true
			cl = append(cl, "http:CallRPC")
		}
	}
	nt := c.Limit > 0 && n >= 2*c.Limit && nonFIFO
	if nt {
		cl = append(cl, "http:>=2x-limit,non-FIFO")
	}
	return nt, cl
}
