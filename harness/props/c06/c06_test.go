// Package c06 decides property C06 (RLP codec) by generated-input search against
// the independent Yellow-Paper implementation in ref/rlpref.
package c06

import (
	"bytes"
	"encoding/hex"
	"fmt"
	"math/big"
	"testing"

	"github.com/hyperledger/firefly-signer/pkg/ethtypes"
	"github.com/hyperledger/firefly-signer/pkg/rlp"
	"pgregory.net/rapid"

	"verifharness/evid"
	"verifharness/gen"
	"verifharness/ref/rlpref"
)

const rule = "encode side: generated tree containing a nested list or a string >= 56 bytes or a list payload on a 55/56/255/256/65535/65536 boundary; " +
	"decode side: input whose first byte is >= 0x80 (a length prefix is interpreted) and that is accepted, or rejected for a length reason; distinct by hash of the case"

// Node is the JSON form of a tree case: a list, a literal string (hex) or a
// deterministic fill of Len bytes (for strings too long to spell out).
type Node struct {
	IsList bool   `json:"list,omitempty"`
	Items  []Node `json:"items,omitempty"`
	Hex    string `json:"hex,omitempty"`
	Fill   *Fill  `json:"fill,omitempty"`
}

type Fill struct {
	Len  int    `json:"len"`
	Seed uint32 `json:"seed"`
}

func (f Fill) bytes() []byte {
	out := make([]byte, f.Len)
	x := f.Seed | 1
	for i := range out {
		x ^= x << 13
		x ^= x >> 17
		x ^= x << 5
		out[i] = byte(x)
	}
	return out
}

func (n Node) item() rlpref.Item {
	if n.IsList {
		l := rlpref.L()
		for _, c := range n.Items {
			l.List = append(l.List, c.item())
		}
		return l
	}
	if n.Fill != nil {
		return rlpref.S(n.Fill.bytes())
	}
	b, _ := hex.DecodeString(n.Hex)
	return rlpref.S(b)
}

func toLib(it rlpref.Item) rlp.Element {
	if it.IsList {
		l := rlp.List{}
		for _, c := range it.List {
			l = append(l, toLib(c))
		}
		return l
	}
	return rlp.Data(it.Str)
}

// strTotal is the number of string bytes in the tree.
func strTotal(it rlpref.Item) int {
	if !it.IsList {
		return len(it.Str)
	}
	n := 0
	for _, c := range it.List {
		n += strTotal(c)
	}
	return n
}

// toLibArena builds the library tree with EVERY string a sub-slice of one shared
// buffer, laid out in order, so that each string has the following ones inside its
// spare capacity - the way a caller that slices fields out of a received message
// holds them. An encoder that appends to (or pads in place) a caller's slice
// corrupts the siblings and the buffer.
func toLibArena(it rlpref.Item, arena *[]byte) rlp.Element {
	if it.IsList {
		l := rlp.List{}
		for _, c := range it.List {
			l = append(l, toLibArena(c, arena))
		}
		return l
	}
	off := len(*arena)
	*arena = append(*arena, it.Str...)
	return rlp.Data((*arena)[off : off+len(it.Str)])
}

func fromLib(e rlp.Element) (rlpref.Item, error) {
	switch v := e.(type) {
	case rlp.Data:
		if v.IsList() {
			return rlpref.Item{}, fmt.Errorf("Data reports IsList")
		}
		return rlpref.S([]byte(v)), nil
	case rlp.List:
		if !v.IsList() {
			return rlpref.Item{}, fmt.Errorf("List reports !IsList")
		}
		l := rlpref.L()
		for _, c := range v {
			ci, err := fromLib(c)
			if err != nil {
				return rlpref.Item{}, err
			}
			l.List = append(l.List, ci)
		}
		return l, nil
	case nil:
		return rlpref.Item{}, fmt.Errorf("nil element")
	default:
		return rlpref.Item{}, fmt.Errorf("unexpected element type %T", e)
	}
}

// ---- kind "tree": encode == reference; decode(encode ++ suffix) == tree at the right position

type TreeCase struct {
	Tree   Node   `json:"tree"`
	Suffix string `json:"suffix"`
}

func judgeTree(c TreeCase) (vs []evid.Violation) {
	it := c.Tree.item()
	suffix, _ := hex.DecodeString(c.Suffix)
	want := rlpref.Encode(it)
	got := toLib(it).Encode()
	if !bytes.Equal(got, want) {
		return append(vs, evid.V("encode-canonical", "Encode differs from Yellow-Paper RLP: got %s want %s", short(got), short(want)))
	}
	// caller-owned memory: strings carved from one buffer; the buffer must not be written to,
	// and encoding the same tree twice must give the same bytes
	arena := make([]byte, 0, strTotal(it)+64)
	shared := toLibArena(it, &arena)
	snapshot := append([]byte{}, arena[:cap(arena)]...)
	got1 := shared.Encode()
	got2 := shared.Encode()
	if !bytes.Equal(got1, want) {
		vs = append(vs, evid.V("encode-canonical-shared-buffer", "Encode of a tree whose strings share one buffer differs from Yellow-Paper RLP: got %s want %s", short(got1), short(want)))
	}
	if !bytes.Equal(got1, got2) {
		vs = append(vs, evid.V("encode-repeatable", "encoding the same tree twice gives different bytes: %s then %s", short(got1), short(got2)))
	}
	if !bytes.Equal(arena[:cap(arena)], snapshot) {
		vs = append(vs, evid.V("caller-memory-unmodified", "Encode wrote into the caller's buffer (strings and their spare capacity): before %s after %s", short(snapshot), short(arena[:cap(arena)])))
	}
	in := append(append([]byte{}, got...), suffix...)
	inSnapshot := append([]byte{}, in...)
	e, pos, err := rlp.Decode(in)
	if err != nil {
		return append(vs, evid.V("decode-own-output", "Decode of own encoding (+%d suffix bytes) failed: %v", len(suffix), err))
	}
	if pos != len(got) {
		vs = append(vs, evid.V("decode-position", "position %d, want %d (suffix %d bytes)", pos, len(got), len(suffix)))
	}
	back, cerr := fromLib(e)
	if cerr != nil {
		return append(vs, evid.V("decode-shape", "%v", cerr))
	}
	if !rlpref.Equal(back, it) {
		vs = append(vs, evid.V("decode-roundtrip", "decoded tree differs from the encoded one: re-encoded %s want %s", short(rlpref.Encode(back)), short(want)))
	}
	if !bytes.Equal(in, inSnapshot) {
		vs = append(vs, evid.V("decode-input-unmodified", "Decode modified its input"))
	}
	// Not asserted: that the result is independent of the input buffer of the SAME call (a zero-copy view is a
	// legitimate design and the statement speaks of the value returned); see DESIGN.md 7.4.
	// results are the caller's to modify: scribble over every string of the decoded element and over
	// the bytes Encode() returned, then decode the same input once more - same tree as the first time
	reenc := e.Encode()
	scribbleElement(e)
	for i := range reenc {
		reenc[i] ^= 0xff
	}
	e3, pos3, err3 := rlp.Decode(inSnapshot)
	if err3 != nil || pos3 != len(got) {
		vs = append(vs, evid.V("decode-independent-of-earlier-results", "after the caller modified an earlier result in place, decoding the same input gives pos=%d err=%v", pos3, err3))
	} else if back3, cerr3 := fromLib(e3); cerr3 != nil || !rlpref.Equal(back3, it) {
		vs = append(vs, evid.V("decode-independent-of-earlier-results", "after the caller modified an earlier result in place, decoding the same input gives a different tree: re-encoded %s want %s", short(rlpref.Encode(back3)), short(want)))
	}
	return vs
}

func scribbleElement(e rlp.Element) {
	switch v := e.(type) {
	case rlp.Data:
		for i := range v {
			v[i] ^= 0xff
		}
	case rlp.List:
		for _, c := range v {
			scribbleElement(c)
		}
	}
}

func short(b []byte) string {
	if len(b) > 48 {
		return fmt.Sprintf("%x…(%d bytes)", b[:48], len(b))
	}
	return fmt.Sprintf("%x", b)
}

// ---- kind "bytes": arbitrary decoder input

type BytesCase struct {
	Input string `json:"input"`
}

// judgeBytes returns the violations plus a classification used for the evidence.
func judgeRaw(in []byte) (vs []evid.Violation, accepted bool, lengthReject bool) {
	refItem, refN, refErr := rlpref.Decode(in, true)
	var e rlp.Element
	var pos int
	var err error
	if pv := evid.Guard("decode-no-panic", func() { e, pos, err = rlp.Decode(in) }); pv != nil {
		return []evid.Violation{*pv}, false, false
	}
	if err != nil {
		if refErr == nil {
			vs = append(vs, evid.V("accept-canonical", "canonical input (strict reference consumes %d bytes) rejected: %v", refN, err))
		}
		_, _, lenientErr := rlpref.Decode(in, false)
		return vs, false, lenientErr != nil
	}
	if len(in) == 0 {
		return nil, false, false // documented (nil, 0, nil); not asserted
	}
	if pos < 0 || pos > len(in) {
		return append(vs, evid.V("position-in-bounds", "position %d outside input of %d bytes", pos, len(in))), true, false
	}
	if e == nil {
		return append(vs, evid.V("element-non-nil", "nil element with nil error on non-empty input")), true, false
	}
	got, cerr := fromLib(e)
	if cerr != nil {
		return append(vs, evid.V("decode-shape", "%v", cerr)), true, false
	}
	if refErr == nil {
		if !rlpref.Equal(got, refItem) {
			vs = append(vs, evid.V("agree-with-strict", "tree differs from strict decoder: lib re-encodes to %s, reference to %s", short(rlpref.Encode(got)), short(rlpref.Encode(refItem))))
		}
		if pos != refN {
			vs = append(vs, evid.V("agree-with-strict-position", "position %d, strict decoder consumed %d", pos, refN))
		}
	}
	// stability: re-encode and re-decode
	var re []byte
	var e2 rlp.Element
	var pos2 int
	var err2 error
	if pv := evid.Guard("reencode-no-panic", func() { re = e.Encode(); e2, pos2, err2 = rlp.Decode(re) }); pv != nil {
		return append(vs, *pv), true, false
	}
	if err2 != nil {
		return append(vs, evid.V("redecode", "re-encoding %s of an accepted element is rejected: %v", short(re), err2)), true, false
	}
	if pos2 != len(re) {
		vs = append(vs, evid.V("redecode-position", "re-decode position %d want %d", pos2, len(re)))
	}
	got2, cerr2 := fromLib(e2)
	if cerr2 != nil || !rlpref.Equal(got2, got) {
		vs = append(vs, evid.V("redecode-stable", "re-decoded element differs from the first decode"))
	}
	if !bytes.Equal(re, rlpref.Encode(got)) {
		vs = append(vs, evid.V("reencode-canonical", "re-encoding of a decoded element is not canonical: %s", short(re)))
	}
	return vs, true, false
}

func judgeBytes(c BytesCase) []evid.Violation {
	in, err := hex.DecodeString(c.Input)
	if err != nil {
		return []evid.Violation{evid.V("harness", "bad case hex: %v", err)}
	}
	vs, _, _ := judgeRaw(in)
	return vs
}

// ---- kind "scalar": WrapInt/Int and WrapAddress/Address round trips

type ScalarCase struct {
	Int  string `json:"int"`  // decimal
	Addr string `json:"addr"` // 40 hex
}

func judgeScalar(c ScalarCase) (vs []evid.Violation) {
	i, _ := new(big.Int).SetString(c.Int, 10)
	d := rlp.WrapInt(i)
	if !bytes.Equal([]byte(d), i.Bytes()) {
		vs = append(vs, evid.V("wrapint-minimal", "WrapInt(%s) = %x, want minimal big-endian %x", c.Int, []byte(d), i.Bytes()))
	}
	enc := d.Encode()
	if want := rlpref.Encode(rlpref.Int(i)); !bytes.Equal(enc, want) {
		vs = append(vs, evid.V("wrapint-encode", "got %x want %x", enc, want))
	}
	e, _, err := rlp.Decode(enc)
	if err != nil {
		return append(vs, evid.V("wrapint-decode", "%v", err))
	}
	if back := e.ToData().Int(); back == nil || back.Cmp(i) != 0 {
		vs = append(vs, evid.V("int-roundtrip", "Int() after round trip = %v want %s", back, c.Int))
	}
	ab, _ := hex.DecodeString(c.Addr)
	var a ethtypes.Address0xHex
	copy(a[:], ab)
	ad := rlp.WrapAddress(&a)
	if !bytes.Equal([]byte(ad), ab) {
		vs = append(vs, evid.V("wrapaddress", "WrapAddress = %x want %x", []byte(ad), ab))
	}
	e, _, err = rlp.Decode(ad.Encode())
	if err != nil {
		return append(vs, evid.V("wrapaddress-decode", "%v", err))
	}
	if back := e.ToData().Address(); back == nil || !bytes.Equal(back[:], ab) {
		vs = append(vs, evid.V("address-roundtrip", "Address() after round trip = %v want %x", back, ab))
	}
	return vs
}

// ---- generators

func strNode(rt *rapid.T, label string, maxLen int) Node {
	n := gen.Len(rt, label+".len", maxLen)
	if n > 300 {
		return Node{Fill: &Fill{Len: n, Seed: rapid.Uint32().Draw(rt, label+".seed")}}
	}
	return Node{Hex: gen.HexBytes(rt, label, n)}
}

func strOfLen(rt *rapid.T, label string, n int) Node {
	if n > 300 {
		return Node{Fill: &Fill{Len: n, Seed: rapid.Uint32().Draw(rt, label+".seed")}}
	}
	b := gen.Bytes(rt, label, n)
	if n == 1 && b[0] < 0x80 {
		b[0] |= 0x80 // keep the encoded size n+1 that the caller planned for
	}
	return Node{Hex: hex.EncodeToString(b)}
}

// fillerFor returns string nodes whose encodings add up to exactly r bytes.
func fillerFor(rt *rapid.T, label string, r int) []Node {
	var out []Node
	for r > 0 {
		var f int
		switch {
		case r-1 <= 55:
			f = r - 1
		case r-2 >= 56 && r-2 <= 255:
			f = r - 2
		case r-3 >= 256 && r-3 <= 65535:
			f = r - 3
		case r-4 >= 65536:
			f = r - 4
		default:
			// r is 57, 258 or 65539: unreachable with one string; peel one empty string (1 byte)
			out = append(out, Node{Hex: ""})
			r--
			continue
		}
		out = append(out, strOfLen(rt, fmt.Sprintf("%s.f%d", label, len(out)), f))
		r = 0
	}
	return out
}

var payloadTargets = []int{0, 1, 54, 55, 56, 57, 255, 256, 257, 258, 65535, 65536}

func genTree(rt *rapid.T, label string, depth int, maxStr int) Node {
	kind := rapid.IntRange(0, 9).Draw(rt, label+".kind")
	if depth <= 0 || kind < 4 {
		return strNode(rt, label+".s", maxStr)
	}
	if kind < 6 {
		// list whose payload lands exactly on a threshold
		target := rapid.SampledFrom(payloadTargets).Draw(rt, label+".target")
		if target > maxStr {
			target = 56
		}
		n := Node{IsList: true}
		used := 0
		k := rapid.IntRange(0, 3).Draw(rt, label+".pre")
		for i := 0; i < k; i++ {
			c := genTree(rt, fmt.Sprintf("%s.p%d", label, i), depth-1, 40)
			l := rlpref.EncodedLen(c.item())
			if used+l > target {
				break
			}
			n.Items = append(n.Items, c)
			used += l
		}
		n.Items = append(n.Items, fillerFor(rt, label+".fill", target-used)...)
		return n
	}
	n := Node{IsList: true}
	if kind == 9 && rapid.IntRange(0, 3).Draw(rt, label+".wide") == 0 {
		// WIDE list: many siblings, most of them lists themselves (counts around powers of two)
		k := rapid.SampledFrom([]int{31, 32, 33, 63, 64, 65, 100, 127, 128, 129, 255, 256, 257, 300}).Draw(rt, label+".width")
		shape := rapid.IntRange(0, 2).Draw(rt, label+".wshape")
		for i := 0; i < k; i++ {
			switch {
			case shape == 0 || (shape == 2 && i%2 == 0):
				n.Items = append(n.Items, Node{IsList: true})
			case shape == 1:
				n.Items = append(n.Items, Node{IsList: true, Items: []Node{{Hex: "01"}}})
			default:
				n.Items = append(n.Items, Node{Hex: "7f"})
			}
		}
		return n
	}
	k := rapid.IntRange(0, 5).Draw(rt, label+".n")
	for i := 0; i < k; i++ {
		n.Items = append(n.Items, genTree(rt, fmt.Sprintf("%s.%d", label, i), depth-1, maxStr))
	}
	return n
}

func maxWidth(it rlpref.Item) int {
	if !it.IsList {
		return 0
	}
	w := len(it.List)
	for _, c := range it.List {
		if x := maxWidth(c); x > w {
			w = x
		}
	}
	return w
}

func treeStats(it rlpref.Item) (nested bool, longStr bool, boundary bool) {
	if !it.IsList {
		return false, len(it.Str) >= 56, false
	}
	pl := 0
	for _, c := range it.List {
		pl += rlpref.EncodedLen(c)
		n, l, b := treeStats(c)
		if c.IsList || n {
			nested = true
		}
		longStr = longStr || l
		boundary = boundary || b
	}
	for _, t := range []int{55, 56, 255, 256, 65535, 65536} {
		if pl == t {
			boundary = true
		}
	}
	return
}

// mutate derives a decoder input from a valid encoding.
func mutate(rt *rapid.T, enc []byte) ([]byte, string) {
	out := append([]byte{}, enc...)
	op := rapid.IntRange(0, 8).Draw(rt, "mut.op")
	switch op {
	case 0: // truncate
		if len(out) > 0 {
			out = out[:rapid.IntRange(0, len(out)-1).Draw(rt, "mut.cut")]
		}
		return out, "truncate"
	case 1: // first byte +-1
		if len(out) > 0 {
			out[0] += byte(rapid.SampledFrom([]int{1, 255, 2, 254}).Draw(rt, "mut.d"))
		}
		return out, "prefix+-"
	case 2: // any byte replaced
		if len(out) > 0 {
			i := rapid.IntRange(0, min(len(out)-1, 12)).Draw(rt, "mut.i")
			out[i] = gen.ByteBiased().Draw(rt, "mut.b")
		}
		return out, "byte-replace"
	case 3: // re-wrap payload in a non-canonical long form with k length bytes (leading zeros)
		it, _, err := rlpref.Decode(enc, true)
		if err != nil {
			return out, "none"
		}
		var payload []byte
		base := byte(0xb7)
		if it.IsList {
			base = 0xf7
			for _, c := range it.List {
				payload = append(payload, rlpref.Encode(c)...)
			}
		} else {
			payload = it.Str
		}
		k := rapid.IntRange(1, 8).Draw(rt, "mut.lol")
		lb := make([]byte, k)
		n := len(payload)
		for i := k - 1; i >= 0 && n > 0; i-- {
			lb[i] = byte(n)
			n >>= 8
		}
		if n > 0 {
			return out, "none"
		}
		return append(append([]byte{base + byte(k)}, lb...), payload...), "noncanonical-long-form"
	case 4: // huge announced length
		k := rapid.IntRange(1, 8).Draw(rt, "mut.lol")
		lb := rapid.SliceOfN(gen.ByteBiased(), k, k).Draw(rt, "mut.len")
		base := rapid.SampledFrom([]byte{0xb7, 0xf7}).Draw(rt, "mut.base")
		return append(append([]byte{base + byte(k)}, lb...), out...), "announced-length"
	case 5: // 0x81 b (b < 0x80): non-canonical single
		return []byte{0x81, byte(rapid.IntRange(0, 0x7f).Draw(rt, "mut.single"))}, "noncanonical-single"
	case 6: // extend
		n := rapid.IntRange(1, 40).Draw(rt, "mut.ext")
		return append(out, gen.Bytes(rt, "mut.extb", n)...), "extend"
	case 7: // length byte inside
		if len(out) > 2 {
			i := rapid.IntRange(1, min(len(out)-1, 9)).Draw(rt, "mut.i")
			out[i] += byte(rapid.SampledFrom([]int{1, 255}).Draw(rt, "mut.d"))
		}
		return out, "inner+-"
	default: // wrap in a list with wrong length
		d := rapid.IntRange(-2, 2).Draw(rt, "mut.dl")
		l := len(out) + d
		if l < 0 || l > 55 {
			return out, "none"
		}
		return append([]byte{0xc0 + byte(l)}, out...), "list-len+-"
	}
}

func TestCheck(t *testing.T) {
	rec := evid.Start("C06", rule)
	defer rec.Finish()
	rec.Assume("reference: ref/rlpref (Yellow Paper appendix B, written independently of pkg/rlp)")
	rec.Assume("rejection of non-canonical encodings is not asserted (the property permits leniency); Decode of the empty input is not asserted")
	kTree := evid.NewKind(rec, "tree", judgeTree)
	cpool := evid.NewPool(rec, "concurrent", judgeTree, 64)
	kBytes := evid.NewKind(rec, "bytes", judgeBytes)
	kScalar := evid.NewKind(rec, "scalar", judgeScalar)
	rec.Corpus(t)

	// exhaustive sweep over short decoder inputs
	maxLen := 2
	if rec.Thorough() {
		maxLen = 3
	}
	t.Run("exhaustive", func(t *testing.T) {
		var n, nt int64
		buf := make([]byte, 0, 3)
		var sweep func(prefix []byte, remaining int)
		visit := func(in []byte) {
			vs, accepted, lenRej := judgeRaw(in)
			n++
			if len(in) > 0 && in[0] >= 0x80 && (accepted || lenRej) {
				nt++
			}
			if len(vs) > 0 {
				kBytes.Fail(t, BytesCase{Input: hex.EncodeToString(in)}, vs)
			}
		}
		sweep = func(prefix []byte, remaining int) {
			visit(prefix)
			if remaining == 0 {
				return
			}
			for b := 0; b < 256; b++ {
				sweep(append(prefix, byte(b)), remaining-1)
			}
		}
		if rec.Shards > 1 && maxLen == 3 {
			// shard by first byte
			if rec.Shard == 0 {
				visit([]byte{})
			}
			for b := rec.Shard; b < 256; b += rec.Shards {
				sweep(append(buf[:0], byte(b)), maxLen-1)
			}
		} else {
			sweep(buf, maxLen)
		}
		s := BytesCase{Input: "b800"}
		kBytes.Bulk(n, nt, true, fmt.Sprintf("exhaustive<=%dB", maxLen), &s)
	})

	maxStr := 70000
	rec.Rapid(t, "tree", rec.N(4000, 40000), func(rt *rapid.T) {
		ms := maxStr
		if rec.Thorough() && rapid.IntRange(0, 199).Draw(rt, "huge") == 0 {
			ms = 1 << 24
		}
		tree := genTree(rt, "t", 8, ms)
		if ms == 1<<24 && !tree.IsList {
			tree = Node{Fill: &Fill{Len: rapid.SampledFrom([]int{1<<24 - 1, 1 << 24, 1<<24 + 1, 1 << 20}).Draw(rt, "hugeLen"), Seed: 7}}
		}
		suffixLen := rapid.IntRange(0, 6).Draw(rt, "suffixLen")
		c := TreeCase{Tree: tree, Suffix: gen.HexBytes(rt, "suffix", suffixLen)}
		it := tree.item()
		nested, long, boundary := treeStats(it)
		var cl []string
		if nested {
			cl = append(cl, "tree:nested-list")
		}
		if long {
			cl = append(cl, "tree:string>=56B")
		}
		if boundary {
			cl = append(cl, "tree:list-payload-on-threshold")
		}
		if suffixLen > 0 {
			cl = append(cl, "tree:with-suffix")
		}
		if rlpref.Depth(it) >= 4 {
			cl = append(cl, "tree:depth>=4")
		}
		if maxWidth(it) >= 64 {
			cl = append(cl, "tree:list-with>=64-children")
		}
		cpool.Offer(c)
		kTree.Check(rt, c, nested || long || boundary, cl...)
	})

	rec.Rapid(t, "mutants", rec.N(20000, 60000), func(rt *rapid.T) {
		tree := genTree(rt, "t", 4, 400)
		enc := rlpref.Encode(tree.item())
		in, op := mutate(rt, enc)
		if len(in) > 1<<20 {
			in = in[:1<<20]
		}
		vs, accepted, lenRej := judgeRaw(in)
		_ = vs
		cl := []string{"mutant:" + op}
		if accepted {
			cl = append(cl, "bytes:accepted")
		} else {
			cl = append(cl, "bytes:rejected")
		}
		nt := len(in) > 0 && in[0] >= 0x80 && (accepted || lenRej)
		kBytes.Check(rt, BytesCase{Input: hex.EncodeToString(in)}, nt, cl...)
	})

	// a LIST with a child string on the 4-byte-length boundary (2^24) followed by a sibling; also nested once
	t.Run("list-with-2^24-child", func(t *testing.T) {
		if rec.Shard != 0 {
			return
		}
		for _, l := range []int{1<<24 - 1, 1 << 24, 1<<24 + 1} {
			big := Node{Fill: &Fill{Len: l, Seed: uint32(l)}}
			for _, tree := range []Node{
				{IsList: true, Items: []Node{big, {Hex: "6162"}}},
				{IsList: true, Items: []Node{{Hex: "01"}, {IsList: true, Items: []Node{big}}, {Hex: "7f"}}},
			} {
				kTree.Must(t, TreeCase{Tree: tree, Suffix: "c0"}, true, "tree:list-with-child>=2^24B")
			}
		}
	})

	// decoder inputs up to 1 MiB: mutants of encodings whose strings are tens to hundreds of KiB long
	rec.Rapid(t, "mutants-large", rec.N(40, 600), func(rt *rapid.T) {
		n := rapid.IntRange(1, 3).Draw(rt, "strings")
		tree := Node{IsList: true}
		for i := 0; i < n; i++ {
			l := rapid.SampledFrom([]int{65535, 65536, 65537, 100000, 1 << 18, 1<<19 - 1, 1 << 19}).Draw(rt, "len")
			tree.Items = append(tree.Items, Node{Fill: &Fill{Len: l, Seed: rapid.Uint32().Draw(rt, "seed")}})
			if rapid.Bool().Draw(rt, "nest") {
				tree = Node{IsList: true, Items: []Node{tree}}
			}
		}
		enc := rlpref.Encode(tree.item())
		in, op := mutate(rt, enc)
		if len(in) > 1<<20 {
			in = in[:1<<20]
		}
		_, accepted, lenRej := judgeRaw(in)
		nt := len(in) > 0 && in[0] >= 0x80 && (accepted || lenRej)
		cl := []string{"mutant-large:" + op, "bytes:>=64KiB"}
		kBytes.Check(rt, BytesCase{Input: hex.EncodeToString(in)}, nt, cl...)
	})

	rec.Rapid(t, "random-bytes", rec.N(5000, 40000), func(rt *rapid.T) {
		n := gen.Len(rt, "len", 300)
		in := gen.Bytes(rt, "in", n)
		if n > 0 && rapid.Bool().Draw(rt, "forcePrefix") {
			in[0] = rapid.SampledFrom([]byte{0xb8, 0xb9, 0xba, 0xbf, 0xf8, 0xf9, 0xff, 0xc1, 0xf7, 0xb7, 0x81}).Draw(rt, "prefix")
		}
		_, accepted, lenRej := judgeRaw(in)
		nt := len(in) > 0 && in[0] >= 0x80 && (accepted || lenRej)
		kBytes.Check(rt, BytesCase{Input: hex.EncodeToString(in)}, nt, "bytes:random")
	})

	rec.Rapid(t, "scalar", rec.N(2000, 20000), func(rt *rapid.T) {
		i := gen.Uint(rt, "i", 256)
		a := gen.Bytes(rt, "a", 20)
		kScalar.Check(rt, ScalarCase{Int: i.String(), Addr: hex.EncodeToString(a)}, i.BitLen() > 64 || a[0] == 0, "scalar")
	})
	cpool.Run(t, 8, 3, 16)
}

func TestReplay(t *testing.T) {
	rec := evid.Start("C06", rule)
	evid.NewKind(rec, "tree", judgeTree)
	evid.NewPool(rec, "concurrent", judgeTree, 0)
	evid.NewKind(rec, "bytes", judgeBytes)
	evid.NewKind(rec, "scalar", judgeScalar)
	rec.Replay(t)
}

// FuzzDecode is the coverage-guided target (thorough tier only): raw bytes into
// the same oracle as kind "bytes".
func FuzzDecode(f *testing.F) {
	for _, s := range []string{"", "80", "c0", "b838", "f838", "b90100", "bf0000000000000001", "ff7fffffffffffffff", "c3c2c1c0", "8180", "b800"} {
		b, _ := hex.DecodeString(s)
		f.Add(b)
	}
	rec := evid.Start("C06", rule)
	k := evid.NewKind(rec, "bytes", judgeBytes)
	f.Fuzz(func(t *testing.T, in []byte) {
		if len(in) > 1<<20 {
			return
		}
		vs, _, _ := judgeRaw(in)
		if len(vs) > 0 {
			k.Fail(t, BytesCase{Input: hex.EncodeToString(in)}, vs)
		}
	})
}
