// Package c09 decides property C09 (the proxy signs eth_sendTransaction for `from`
// and relays everything else unchanged) against the REAL ffsigner binary: every
// rapid case is one HTTP exchange with a long-lived process whose backend is a
// scripted JSON-RPC server inside the harness.
//
// Oracle (independent of the code under test): the request is built from the case
// by the harness itself; every call that reaches the backend is correlated by a
// token planted in params / tx data / tx `to`; raw transactions are decoded with
// ref/rlpref (strict) and the signer is recovered with ref/secp over the EIP-155 /
// EIP-1559 preimage under the configured or discovered chain id; responses are
// validated and compared number-preservingly with ref/jsonrpc.
package c09

import (
	"bytes"
	"encoding/hex"
	"encoding/json"
	"errors"
	"fmt"
	"math/big"
	"os"
	"sort"
	"strings"
	"testing"
	"time"

	"pgregory.net/rapid"

	"verifharness/evid"
	"verifharness/gen"
	"verifharness/proc"
	"verifharness/ref/jsonrpc"
	"verifharness/ref/rlpref"
	"verifharness/ref/secp"
)

const rule = "exchange that is a batch with >= 2 members containing at least one failing member (backend error / HTTP error / connection close / unknown or malformed from / failed nonce lookup) or at least one signing request, " +
	"or whose held backend calls are released in an order different from request order, or that runs against a process whose chain id was discovered with net_version; or a session (a history of exchanges against a process started for it) in which the same from is named in two or more exchanges " +
	"or an exchange follows a body whose answer is not judged, or the wallet directory of the (listening) process gains a file between two exchanges; distinct by hash of the whole case (requests + backend script + wallet changes)"

// ---------------------------------------------------------------------------
// Case

// Chain selects the process configuration.
type Chain struct {
	Configured *string `json:"configured,omitempty"`  // decimal chain id written to backend.chainId
	NetVersion string  `json:"net_version,omitempty"` // discovered: JSON text the backend answers net_version with
}

// Tx is the transaction object of an eth_sendTransaction member.  Numeric members
// and `from` are literal JSON texts (nil = member absent).
type Tx struct {
	From        json.RawMessage `json:"from,omitempty"`
	To          string          `json:"to,omitempty"` // 40 hex digits; "" = absent (contract creation)
	ToIsToken   bool            `json:"to_is_token,omitempty"`
	Nonce       json.RawMessage `json:"nonce,omitempty"`
	Gas         json.RawMessage `json:"gas,omitempty"`
	GasPrice    json.RawMessage `json:"gasPrice,omitempty"`
	MaxPriority json.RawMessage `json:"maxPriorityFeePerGas,omitempty"`
	MaxFee      json.RawMessage `json:"maxFeePerGas,omitempty"`
	Value       json.RawMessage `json:"value,omitempty"`
	DataAbsent  bool            `json:"data_absent,omitempty"`
	DataToken   bool            `json:"data_token,omitempty"` // data starts with the correlation token
	DataLen     int             `json:"data_len,omitempty"`   // further bytes (deterministic fill)
	DataSeed    uint32          `json:"data_seed,omitempty"`
}

// Member is one request of the exchange.
type Member struct {
	Kind       string            `json:"kind"` // "pass" | "sendtx" | "accounts"
	ID         json.RawMessage   `json:"id"`
	Method     string            `json:"method,omitempty"`      // pass
	Params     []json.RawMessage `json:"params,omitempty"`      // pass: the elements next to the token
	ParamsForm string            `json:"params_form,omitempty"` // "" = array | "absent" | "empty" (token moves into the method name)
	TokenPos   int               `json:"token_pos,omitempty"`
	TokenDeep  bool              `json:"token_deep,omitempty"` // token nested as {"t":[token]} instead of a plain string
	Tx         *Tx               `json:"tx,omitempty"`
	Reply      proc.Reply        `json:"reply"` // what the backend answers to the forwarded call
	Rank       int               `json:"rank"`  // release rank of the forwarded call
}

// NonceScript is the backend's answer to eth_getTransactionCount(addr,"pending").
type NonceScript struct {
	Addr  string     `json:"addr"` // 40 lower-case hex digits
	Reply proc.Reply `json:"reply"`
}

// ExchangeCase is one HTTP exchange: a request (single or batch) plus the backend script.
type ExchangeCase struct {
	Chain   Chain         `json:"chain"`
	Batch   bool          `json:"batch"`
	Salt    uint32        `json:"salt"`
	Members []Member      `json:"members"`
	Nonces  []NonceScript `json:"nonces,omitempty"`
}

// nonceOther is what the backend reports for any block tag other than "pending";
// generated pending nonces never take this value.
const nonceOther = "0xfeedface"

var (
	pool *proc.Pool
	rec  *evid.Recorder
)

func (c ExchangeCase) token(i int) string { return proc.Token(uint64(c.Salt)<<16 | uint64(i)) }

func fill(n int, seed uint32) []byte {
	out := make([]byte, n)
	x := seed | 1
	for i := range out {
		x ^= x << 13
		x ^= x >> 17
		x ^= x << 5
		out[i] = byte(x)
	}
	return out
}

// ---------------------------------------------------------------------------
// the harness's own reading of the case

func parseNumLit(raw json.RawMessage) (*big.Int, error) {
	if len(raw) == 0 {
		return nil, nil
	}
	s := string(raw)
	if s[0] == '"' {
		var str string
		if err := json.Unmarshal(raw, &str); err != nil {
			return nil, err
		}
		s = str
	}
	v := new(big.Int)
	if strings.HasPrefix(s, "0x") {
		if _, ok := v.SetString(s[2:], 16); !ok {
			return nil, fmt.Errorf("bad hex literal %q", s)
		}
		return v, nil
	}
	for _, ch := range s {
		if ch < '0' || ch > '9' {
			return nil, fmt.Errorf("bad decimal literal %q", s)
		}
	}
	if _, ok := v.SetString(s, 10); !ok {
		return nil, fmt.Errorf("bad decimal literal %q", s)
	}
	return v, nil
}

type fromClass int

const (
	fromAbsent fromClass = iota
	fromMalformed
	fromUnknown
	fromKnown
	// fromUnusable: the address is listed by the wallet (a file is named for it) but the file
	// holds another account's key, is not a key file, or has no usable password (proc.Decoy)
	fromUnusable
)

// decoys are the wallet entries that are listed but must never sign; like the keys they
// are the same in every process the pool starts.
var decoys = proc.Decoys(proc.Keys(3))

// walletView is what the wallet of a process contains at one moment, as the harness knows
// it from the files it wrote itself: the accounts that can sign, and the entries that are
// listed (a file is named for the address) but must never sign.
type walletView struct {
	keys   []proc.WalletKey
	decoys []proc.Decoy
}

// baseView is the wallet every process starts with.
func baseView(keys []proc.WalletKey) walletView { return walletView{keys: keys, decoys: decoys} }

func (w walletView) decoyOf(addr [20]byte) *proc.Decoy {
	for i := range w.decoys {
		if w.decoys[i].Address == addr {
			return &w.decoys[i]
		}
	}
	return nil
}

func (w walletView) keyOf(addr [20]byte) *proc.WalletKey {
	for i := range w.keys {
		if w.keys[i].Address == addr {
			return &w.keys[i]
		}
	}
	return nil
}

// listed is the address set eth_accounts has to report (sorted, 40 lower-case hex digits each).
func (w walletView) listed() []string {
	out := make([]string, 0, len(w.keys)+len(w.decoys))
	for _, k := range w.keys {
		out = append(out, k.AddrHex)
	}
	for _, d := range w.decoys { // a file is named for them: they are part of the wallet's address set
		out = append(out, d.AddrHex)
	}
	sort.Strings(out)
	return out
}

func classifyFrom(raw json.RawMessage, w walletView) (fromClass, [20]byte) {
	var addr [20]byte
	if len(raw) == 0 {
		return fromAbsent, addr
	}
	var s string
	if err := json.Unmarshal(raw, &s); err != nil || string(bytes.TrimSpace(raw)) == "null" {
		return fromMalformed, addr
	}
	h := strings.TrimPrefix(s, "0x")
	b, err := hex.DecodeString(h)
	if err != nil || len(b) != 20 {
		return fromMalformed, addr
	}
	copy(addr[:], b)
	if w.keyOf(addr) != nil {
		return fromKnown, addr
	}
	if w.decoyOf(addr) != nil {
		return fromUnusable, addr
	}
	return fromUnknown, addr
}

func (c ExchangeCase) txData(i int) []byte {
	tx := c.Members[i].Tx
	var d []byte
	if tx.DataToken {
		d = append(d, c.token(i)...)
	}
	return append(d, fill(tx.DataLen, tx.DataSeed)...)
}

func (c ExchangeCase) txTo(i int) []byte {
	tx := c.Members[i].Tx
	if tx.ToIsToken {
		return []byte(c.token(i))
	}
	if tx.To == "" {
		return nil
	}
	b, _ := hex.DecodeString(tx.To)
	return b
}

func jstr(s string) string {
	var sb bytes.Buffer
	enc := json.NewEncoder(&sb)
	enc.SetEscapeHTML(false)
	_ = enc.Encode(s)
	return strings.TrimSuffix(sb.String(), "\n")
}

func (c ExchangeCase) memberMethod(i int) string {
	m := c.Members[i]
	switch m.Kind {
	case "accounts":
		return "eth_accounts"
	case "sendtx":
		return "eth_sendTransaction"
	}
	if m.ParamsForm != "" {
		return m.Method + "_" + c.token(i)
	}
	return m.Method
}

// memberParams returns the params elements the harness sends for a pass member.
func (c ExchangeCase) memberParams(i int) []json.RawMessage {
	m := c.Members[i]
	if m.ParamsForm != "" {
		return nil
	}
	tok := json.RawMessage(jstr(c.token(i)))
	if m.TokenDeep {
		tok = json.RawMessage(`{"t":[` + jstr(c.token(i)) + `]}`)
	}
	pos := m.TokenPos
	if pos < 0 {
		pos = 0
	}
	if pos > len(m.Params) {
		pos = len(m.Params)
	}
	out := make([]json.RawMessage, 0, len(m.Params)+1)
	out = append(out, m.Params[:pos]...)
	out = append(out, tok)
	out = append(out, m.Params[pos:]...)
	return out
}

func (c ExchangeCase) memberJSON(i int) []byte {
	m := c.Members[i]
	var sb bytes.Buffer
	sb.WriteString(`{"jsonrpc":"2.0","id":`)
	sb.Write(m.ID)
	sb.WriteString(`,"method":`)
	sb.WriteString(jstr(c.memberMethod(i)))
	switch m.Kind {
	case "sendtx":
		sb.WriteString(`,"params":[{`)
		first := true
		put := func(name string, raw []byte) {
			if raw == nil {
				return
			}
			if !first {
				sb.WriteByte(',')
			}
			first = false
			sb.WriteString(jstr(name))
			sb.WriteByte(':')
			sb.Write(raw)
		}
		tx := m.Tx
		if len(tx.From) > 0 {
			put("from", tx.From)
		}
		if to := c.txTo(i); to != nil {
			put("to", []byte(`"0x`+hex.EncodeToString(to)+`"`))
		}
		put("nonce", tx.Nonce)
		put("gas", tx.Gas)
		put("gasPrice", tx.GasPrice)
		put("maxPriorityFeePerGas", tx.MaxPriority)
		put("maxFeePerGas", tx.MaxFee)
		put("value", tx.Value)
		if !tx.DataAbsent {
			put("data", []byte(`"0x`+hex.EncodeToString(c.txData(i))+`"`))
		}
		sb.WriteString(`}]`)
	default:
		switch m.ParamsForm {
		case "absent":
		case "empty":
			sb.WriteString(`,"params":[]`)
		default:
			sb.WriteString(`,"params":[`)
			for k, p := range c.memberParams(i) {
				if k > 0 {
					sb.WriteByte(',')
				}
				sb.Write(p)
			}
			sb.WriteString(`]`)
		}
	}
	sb.WriteString(`}`)
	return sb.Bytes()
}

func (c ExchangeCase) body() []byte {
	if !c.Batch {
		return c.memberJSON(0)
	}
	var sb bytes.Buffer
	sb.WriteByte('[')
	for i := range c.Members {
		if i > 0 {
			sb.WriteByte(',')
		}
		sb.Write(c.memberJSON(i))
	}
	sb.WriteByte(']')
	return sb.Bytes()
}

// chainID resolves the chain id the process must sign with, from the case alone.
func (c ExchangeCase) chainID() (*big.Int, error) {
	if c.Chain.Configured != nil {
		v, ok := new(big.Int).SetString(*c.Chain.Configured, 10)
		if !ok || v.Sign() < 0 || !v.IsInt64() {
			return nil, fmt.Errorf("bad configured chain id %q", *c.Chain.Configured)
		}
		return v, nil
	}
	v, err := parseNumLit(json.RawMessage(c.Chain.NetVersion))
	if err != nil || v == nil {
		return nil, fmt.Errorf("bad net_version %q: %v", c.Chain.NetVersion, err)
	}
	return v, nil
}

// plan is what the harness expects of one member.
type plan struct {
	class       fromClass
	from        [20]byte
	submit      bool     // a forwarded call with the member's token is expected (exactly one)
	nonce       *big.Int // expected nonce of the signed transaction
	lookupFails bool
}

func (c ExchangeCase) nonceReply(addr [20]byte) proc.Reply {
	key := hex.EncodeToString(addr[:])
	for _, n := range c.Nonces {
		if n.Addr == key {
			return n.Reply
		}
	}
	return proc.ResultReply(`"0x0"`)
}

func (c ExchangeCase) plans(w walletView) ([]plan, error) {
	out := make([]plan, len(c.Members))
	for i, m := range c.Members {
		switch m.Kind {
		case "pass":
			out[i].submit = true
		case "accounts":
		case "sendtx":
			if m.Tx == nil {
				return nil, fmt.Errorf("member %d: sendtx without tx", i)
			}
			if !m.Tx.ToIsToken && !m.Tx.DataToken {
				return nil, fmt.Errorf("member %d: transaction carries no correlation token", i)
			}
			cl, addr := classifyFrom(m.Tx.From, w)
			out[i].class, out[i].from = cl, addr
			if cl != fromKnown {
				continue
			}
			n, err := parseNumLit(m.Tx.Nonce)
			if err != nil {
				return nil, fmt.Errorf("member %d: %v", i, err)
			}
			if n != nil {
				out[i].nonce, out[i].submit = n, true
				continue
			}
			rp := c.nonceReply(addr)
			if rp.Kind != "result" {
				out[i].lookupFails = true
				continue
			}
			rn, err := parseNumLit(rp.Result)
			if err != nil || rn == nil {
				return nil, fmt.Errorf("member %d: scripted nonce %s: %v", i, rp.Result, err)
			}
			out[i].nonce, out[i].submit = rn, true
		default:
			return nil, fmt.Errorf("member %d: unknown kind %q", i, m.Kind)
		}
	}
	return out, nil
}

// ---------------------------------------------------------------------------
// decoding what reached the backend

type signedTx struct {
	typ                       int // 0 legacy, 2 EIP-1559
	nonce, gas, value         *big.Int
	gasPrice, maxPrio, maxFee *big.Int
	to, data                  []byte
	signer                    [20]byte
}

func rlpInt(it rlpref.Item, name string) (*big.Int, error) {
	if it.IsList {
		return nil, fmt.Errorf("%s is a list", name)
	}
	if len(it.Str) > 0 && it.Str[0] == 0 {
		return nil, fmt.Errorf("%s has a leading zero byte (%x)", name, it.Str)
	}
	return new(big.Int).SetBytes(it.Str), nil
}

// decodeSigned reads a signed raw transaction per the Yellow Paper / EIP-155 /
// EIP-2718 / EIP-1559 and recovers its signer under chainID.
func decodeSigned(raw []byte, chainID *big.Int) (*signedTx, error) {
	if len(raw) == 0 {
		return nil, errors.New("empty payload")
	}
	tx := &signedTx{}
	body := raw
	if raw[0] == 0x02 {
		tx.typ = 2
		body = raw[1:]
	} else if raw[0] < 0xc0 {
		return nil, fmt.Errorf("unsupported transaction type byte %#x", raw[0])
	}
	it, n, err := rlpref.Decode(body, true)
	if err != nil {
		return nil, fmt.Errorf("RLP: %v", err)
	}
	if n != len(body) {
		return nil, fmt.Errorf("RLP: %d trailing bytes", len(body)-n)
	}
	if !it.IsList {
		return nil, errors.New("RLP: not a list")
	}
	var fields []rlpref.Item
	var preimage []byte
	var parity uint
	var r, s *big.Int
	ints := func(idx []int, names []string) ([]*big.Int, error) {
		out := make([]*big.Int, len(idx))
		for k, ix := range idx {
			v, err := rlpInt(it.List[ix], names[k])
			if err != nil {
				return nil, err
			}
			out[k] = v
		}
		return out, nil
	}
	if tx.typ == 2 {
		if len(it.List) != 12 {
			return nil, fmt.Errorf("EIP-1559 payload has %d elements, want 12", len(it.List))
		}
		vs, err := ints([]int{0, 1, 2, 3, 4, 6, 9, 10, 11}, []string{"chainId", "nonce", "maxPriorityFeePerGas", "maxFeePerGas", "gas", "value", "yParity", "r", "s"})
		if err != nil {
			return nil, err
		}
		if vs[0].Cmp(chainID) != 0 {
			return nil, fmt.Errorf("chain id in payload is %s, the process signs for %s", vs[0], chainID)
		}
		tx.nonce, tx.maxPrio, tx.maxFee, tx.gas, tx.value = vs[1], vs[2], vs[3], vs[4], vs[5]
		if !it.List[8].IsList || len(it.List[8].List) != 0 {
			return nil, errors.New("access list is not an empty list")
		}
		if vs[6].BitLen() > 1 {
			return nil, fmt.Errorf("yParity %s is not 0 or 1", vs[6])
		}
		parity, r, s = uint(vs[6].Uint64()), vs[7], vs[8]
		fields = it.List[:9]
		preimage = append([]byte{0x02}, rlpref.Encode(rlpref.L(fields...))...)
		if it.List[5].IsList || it.List[7].IsList {
			return nil, errors.New("to/data is a list")
		}
		tx.to, tx.data = it.List[5].Str, it.List[7].Str
	} else {
		if len(it.List) != 9 {
			return nil, fmt.Errorf("legacy payload has %d elements, want 9", len(it.List))
		}
		vs, err := ints([]int{0, 1, 2, 4, 6, 7, 8}, []string{"nonce", "gasPrice", "gas", "value", "v", "r", "s"})
		if err != nil {
			return nil, err
		}
		tx.nonce, tx.gasPrice, tx.gas, tx.value = vs[0], vs[1], vs[2], vs[3]
		// EIP-155: v = chainId*2 + 35 + parity
		base := new(big.Int).Add(new(big.Int).Lsh(chainID, 1), big.NewInt(35))
		p := new(big.Int).Sub(vs[4], base)
		if p.Sign() < 0 || p.BitLen() > 1 {
			return nil, fmt.Errorf("v = %s is not 2*%s+35+{0,1} (EIP-155 under the process's chain id)", vs[4], chainID)
		}
		parity, r, s = uint(p.Uint64()), vs[5], vs[6]
		if it.List[3].IsList || it.List[5].IsList {
			return nil, errors.New("to/data is a list")
		}
		tx.to, tx.data = it.List[3].Str, it.List[5].Str
		fields = append(append([]rlpref.Item{}, it.List[:6]...), rlpref.Int(chainID), rlpref.Int(new(big.Int)), rlpref.Int(new(big.Int)))
		preimage = rlpref.Encode(rlpref.L(fields...))
	}
	if len(tx.to) != 0 && len(tx.to) != 20 {
		return nil, fmt.Errorf("to has %d bytes", len(tx.to))
	}
	if r.Sign() == 0 || s.Sign() == 0 || r.Cmp(secp.N) >= 0 || s.Cmp(secp.N) >= 0 {
		return nil, errors.New("signature r/s out of range")
	}
	addr, ok := secp.RecoverAddress(secp.Keccak256(preimage), r, s, parity)
	if !ok {
		return nil, errors.New("signature does not recover to any key")
	}
	tx.signer = addr
	return tx, nil
}

func short(b []byte) string {
	if len(b) > 60 {
		return fmt.Sprintf("%s…(%d bytes)", b[:60], len(b))
	}
	return string(b)
}

func bigOrZero(raw json.RawMessage) *big.Int {
	v, _ := parseNumLit(raw)
	if v == nil {
		return new(big.Int)
	}
	return v
}

// ---------------------------------------------------------------------------
// the judge

func instanceFor(c ExchangeCase) (*proc.Instance, *big.Int, error) {
	chain, err := c.chainID()
	if err != nil {
		return nil, nil, err
	}
	if pool == nil {
		return nil, nil, errors.New("process pool not initialised")
	}
	if c.Chain.Configured != nil {
		v := chain.Int64()
		in, err := pool.Get("configured:"+*c.Chain.Configured, &v, nil)
		return in, chain, err
	}
	in, err := pool.Get("discovered:"+c.Chain.NetVersion, nil, json.RawMessage(c.Chain.NetVersion))
	return in, chain, err
}

func judgeExchange(c ExchangeCase) (vs []evid.Violation) {
	if len(c.Members) == 0 || (!c.Batch && len(c.Members) != 1) {
		return []evid.Violation{evid.V("harness", "case has %d members (batch=%v)", len(c.Members), c.Batch)}
	}
	in, chain, err := instanceFor(c)
	if err != nil {
		if errors.Is(err, proc.ErrBinary) {
			fmt.Fprintf(os.Stderr, "INFRASTRUCTURE: %v\n", err)
			os.Exit(2)
		}
		if iv := infraStart(err); iv != nil {
			return []evid.Violation{*iv}
		}
		return []evid.Violation{evid.V("process-starts", "the ffsigner process for chain config %+v does not come up: %v", c.Chain, err)}
	}
	vs, _ = runExchange(in, baseView(in.Keys), chain, c)
	return vs
}

// runExchange performs one exchange against a running instance and judges it against the
// wallet content w.  usable is false when the instance cannot be used any more (it crashed
// or hangs; it was dropped).
func runExchange(in *proc.Instance, w walletView, chain *big.Int, c ExchangeCase) (vs []evid.Violation, usable bool) {
	plans, run, vs, usable := performExchange(in, w, c)
	if run == nil {
		return vs, usable
	}
	vs = append(vs, judgeCalls(c, plans, run.calls, chain, w)...)
	vs = append(vs, judgeResponse(c, plans, w, run.body)...)
	return vs, true
}

// exchangeRun is what one exchange produced: the calls the backend saw and the response body.
type exchangeRun struct {
	calls []proc.Call
	body  []byte
}

// performExchange installs the backend script of c, posts the request and collects what
// happened.  run is nil when there is nothing to judge (vs then says why).
func performExchange(in *proc.Instance, w walletView, c ExchangeCase) (plans []plan, run *exchangeRun, vs []evid.Violation, usable bool) {
	if len(in.Decoys) != len(decoys) {
		return nil, nil, []evid.Violation{evid.V("harness", "the instance has %d decoy entries, the oracle knows %d", len(in.Decoys), len(decoys))}, true
	}
	plans, err := c.plans(w)
	if err != nil {
		return nil, nil, []evid.Violation{evid.V("harness", "%v", err)}, true
	}

	// backend script
	sc := &proc.Script{
		ByToken:      map[string]proc.Reply{},
		Rank:         map[string]int{},
		Nonce:        map[string]proc.Reply{},
		NonceDefault: proc.ResultReply(`"0x0"`),
		NonceOther:   proc.ResultReply(`"` + nonceOther + `"`),
		Default:      proc.ResultReply(`"verif-default"`),
		BarrierWait:  5 * time.Second,
	}
	for _, n := range c.Nonces {
		sc.Nonce[n.Addr] = n.Reply
	}
	for i, m := range c.Members {
		if m.Kind == "accounts" {
			continue
		}
		sc.ByToken[c.token(i)] = m.Reply
		if plans[i].submit {
			sc.Rank[c.token(i)] = m.Rank
		}
	}
	in.Backend.Install(sc)
	body := c.body()
	res, perr := in.Signer.Post(body, 60*time.Second)
	calls, barrierTimedOut := in.Backend.Finish()
	if barrierTimedOut && rec != nil {
		rec.Class("harness:barrier-timed-out")
	}

	if !in.Signer.Alive() || (perr != nil && in.Signer.WaitExit(750*time.Millisecond)) {
		vs = append(vs, evid.V("process-survives", "the ffsigner process died during the exchange (request %s): %s", short(body), in.Signer.ExitInfo(2500)))
		pool.NoteCrash()
		pool.Drop(in)
		return plans, nil, vs, false
	}
	if perr != nil {
		// no usable answer although the process lives: start from a fresh process next time
		pool.Drop(in)
		return plans, nil, append(vs, evid.V("response", "no complete HTTP response within 60 s: %v", perr)), false
	}
	return plans, &exchangeRun{calls: calls, body: res.Body}, vs, true
}

func sameChain(a, b Chain) bool {
	if a.NetVersion != b.NetVersion || (a.Configured == nil) != (b.Configured == nil) {
		return false
	}
	return a.Configured == nil || *a.Configured == *b.Configured
}

// ---------------------------------------------------------------------------
// wallets that change while the process runs (sessions with the file-system listener)

// WalletAdd is one file (pair) the harness puts into the wallet directory of the running
// process.  Everything is derived from Kind and N, so that the case is plain data.
type WalletAdd struct {
	// "key": key file + password file of a new signing account (proc.ExtraKey(N));
	// "decoy:<kind>": an entry that is listed but must never sign (proc.ExtraDecoy(kind, N));
	// "ignored": a file no naming rule of the wallet matches (never listed)
	Kind string `json:"kind"`
	N    int    `json:"n"`
	// InPlace: created under its final name and written there (default: written under a
	// temporary name and renamed).  KeyFirst: the key file is placed before its password file.
	// Either way both files are complete before the harness sends the next request.
	InPlace  bool `json:"in_place,omitempty"`
	KeyFirst bool `json:"key_first,omitempty"`
}

func (a WalletAdd) how() string {
	if a.InPlace {
		return proc.PlaceInPlace
	}
	return proc.PlaceRename
}

func (a WalletAdd) String() string {
	base := proc.Keys(3)
	switch {
	case a.Kind == "key":
		return "the key file and password file of 0x" + proc.ExtraKey(a.N).AddrHex
	case strings.HasPrefix(a.Kind, "decoy:"):
		if d, err := proc.ExtraDecoy(strings.TrimPrefix(a.Kind, "decoy:"), a.N, base); err == nil {
			return fmt.Sprintf("a file named for 0x%s that cannot sign for it (%s)", d.AddrHex, d.Kind)
		}
	case a.Kind == "ignored":
		name, _ := ignoredFile(a.N)
		return "a file the wallet's naming rule does not match (" + name + ")"
	}
	return fmt.Sprintf("%s #%d", a.Kind, a.N)
}

// ignoredFile names a file that is no wallet entry under the configured naming rule
// (<40 hex digits>.key.json): never listed, never a signing account.
func ignoredFile(n int) (name string, content []byte) {
	k := proc.ExtraKey(100000 + n)
	switch n % 4 {
	case 0:
		return k.AddrHex + ".key.json.bak", []byte("{}\n")
	case 1:
		return k.AddrHex + ".pwd", []byte(k.Password + "\n") // a password file without a key file
	case 2:
		return fmt.Sprintf("notes-%d.txt", n), []byte("not a key\n")
	default:
		return k.AddrHex[:39] + ".key.json", []byte("{}\n") // not an address
	}
}

// with returns the wallet content after a was added (w itself is not modified).
func (w walletView) with(a WalletAdd) (walletView, error) {
	out := walletView{keys: append([]proc.WalletKey{}, w.keys...), decoys: append([]proc.Decoy{}, w.decoys...)}
	switch {
	case a.Kind == "key":
		k := proc.ExtraKey(a.N)
		if out.keyOf(k.Address) == nil {
			out.keys = append(out.keys, k)
		}
	case strings.HasPrefix(a.Kind, "decoy:"):
		d, err := proc.ExtraDecoy(strings.TrimPrefix(a.Kind, "decoy:"), a.N, proc.Keys(3))
		if err != nil {
			return w, err
		}
		if out.decoyOf(d.Address) == nil {
			out.decoys = append(out.decoys, d)
		}
	case a.Kind == "ignored":
	default:
		return w, fmt.Errorf("unknown wallet change %q", a.Kind)
	}
	return out, nil
}

// viewAt is the wallet content the exchange of step si is judged against: the start-up
// content plus everything the steps 0..si added.
func (sc SessionCase) viewAt(keys []proc.WalletKey, si int) (walletView, error) {
	w := baseView(keys)
	for i := 0; i <= si && i < len(sc.Steps); i++ {
		for _, a := range sc.Steps[i].Wallet {
			var err error
			if w, err = w.with(a); err != nil {
				return w, err
			}
		}
	}
	return w, nil
}

func applyWalletAdd(dir string, a WalletAdd) error {
	switch {
	case a.Kind == "key":
		return proc.AddKey(dir, proc.ExtraKey(a.N), a.N, a.how(), !a.KeyFirst, ".key.json", ".pwd")
	case strings.HasPrefix(a.Kind, "decoy:"):
		base := proc.Keys(3)
		d, err := proc.ExtraDecoy(strings.TrimPrefix(a.Kind, "decoy:"), a.N, base)
		if err != nil {
			return err
		}
		return proc.AddDecoy(dir, base, d, a.how(), !a.KeyFirst, ".key.json", ".pwd")
	case a.Kind == "ignored":
		name, content := ignoredFile(a.N)
		return proc.PlaceFile(dir, name, content, a.how())
	}
	return fmt.Errorf("unknown wallet change %q", a.Kind)
}

// Bounds of the wait after a change of the wallet directory.  The listener is asynchronous:
// that it has not delivered YET is no violation until settleBound is over.  Once the process
// has demonstrably taken a new key in (it signed with it), the address is one of the
// wallet's addresses beyond doubt, and eth_accounts asked after that has settleGrace left
// to say so; likewise, once eth_accounts lists every new address, the new signing accounts
// (whose files were complete before anything was asked) have settleGrace left to sign.
const (
	settleBound = 30 * time.Second
	settleGrace = 5 * time.Second
)

// askAccounts asks eth_accounts once.  ok is false when the answer is not a list of addresses.
func askAccounts(in *proc.Instance, n int) (got []string, raw string, ok bool, perr error) {
	in.Backend.Install(&proc.Script{Default: proc.ResultReply(`"verif-unjudged"`), NonceDefault: proc.ResultReply(`"0x0"`), NonceOther: proc.ResultReply(`"` + nonceOther + `"`)})
	res, perr := in.Signer.Post([]byte(fmt.Sprintf(`{"jsonrpc":"2.0","id":"verif-settle-%d","method":"eth_accounts","params":[]}`, n)), 60*time.Second)
	in.Backend.Finish()
	if perr != nil {
		return nil, "", false, perr
	}
	v, err := jsonrpc.Parse(res.Body)
	if err != nil {
		return nil, short(res.Body), false, nil
	}
	r, err := jsonrpc.CheckResponse(v)
	if err != nil || r.IsError {
		return nil, short(res.Body), false, nil
	}
	arr, isArr := r.Result.([]interface{})
	if !isArr {
		return nil, short(res.Body), false, nil
	}
	for _, e := range arr {
		s, isStr := e.(string)
		if !isStr || !strings.HasPrefix(s, "0x") || len(s) != 42 {
			return nil, short(res.Body), false, nil
		}
		got = append(got, strings.ToLower(s[2:]))
	}
	sort.Strings(got)
	return got, jsonrpc.Render(r.Result), true, nil
}

// probeTx is a one-member exchange asking for a signature from addr (nonce supplied, so no
// look-up traffic), with its own correlation token.
func probeTx(chain Chain, addr string, attempt int) ExchangeCase {
	return ExchangeCase{Chain: chain, Salt: 0xfff00000 | uint32(attempt&0xfffff), Members: []Member{{
		Kind: "sendtx", ID: json.RawMessage(fmt.Sprintf(`"verif-probe-%d"`, attempt)),
		Tx:    &Tx{From: json.RawMessage(`"0x` + addr + `"`), Nonce: json.RawMessage(fmt.Sprintf(`"0x%x"`, attempt)), Gas: json.RawMessage(`"0x5208"`), GasPrice: json.RawMessage(`"0x1"`), DataToken: true, DataLen: 4, DataSeed: uint32(attempt)},
		Reply: proc.ResultReply(fmt.Sprintf(`"0x%064x"`, attempt)),
	}}}
}

// settle waits - polling, within settleBound - until the running process has taken in what
// the harness added to its wallet directory: eth_accounts must list exactly the addresses of
// w (the content after the change), and eth_sendTransaction from every added signing account
// must be signed by that account.  The verdict does not depend on which of the two the process
// picks up first, nor on how long the listener takes within the bound.
func settle(in *proc.Instance, chain *big.Int, cfg Chain, w walletView, added []WalletAdd, what string) (vs []evid.Violation, usable bool) {
	want := w.listed()
	wantSet := map[string]bool{}
	for _, a := range want {
		wantSet[a] = true
	}
	var pending []proc.WalletKey // added signing accounts that have not signed yet
	for _, a := range added {
		if a.Kind == "key" {
			k := proc.ExtraKey(a.N)
			dup := false
			for _, p := range pending {
				dup = dup || p.Address == k.Address
			}
			if !dup {
				pending = append(pending, k)
			}
		}
	}
	died := func(during string) ([]evid.Violation, bool) {
		vs = append(vs, evid.V("process-survives", "the ffsigner process died %s after the wallet directory gained %s: %s", during, what, in.Signer.ExitInfo(2500)))
		pool.NoteCrash()
		pool.Drop(in)
		return vs, false
	}
	start := time.Now()
	var signedAt, listedAt time.Time
	lastList, lastRefusal := "", map[string]string{}
	listedOK := false
	for attempt := 1; ; attempt++ {
		// (1) who can sign by now?
		still := pending[:0:0]
		for _, k := range pending {
			ex := probeTx(cfg, k.AddrHex, attempt)
			plans, run, pvs, ok := performExchange(in, w, ex)
			if !ok {
				return append(vs, pvs...), false
			}
			if run == nil {
				return append(vs, pvs...), true
			}
			reached := false
			for _, cl := range run.calls {
				reached = reached || cl.Token == ex.token(0)
			}
			if !reached {
				if v, err := jsonrpc.Parse(run.body); err == nil {
					if r, err := jsonrpc.CheckResponse(v); err == nil && r.IsError {
						// refused: the process does not know the key (yet)
						lastRefusal[k.AddrHex] = fmt.Sprintf("error{code:%s,message:%q}", r.Code, r.Message)
						still = append(still, k)
						continue
					}
				}
			}
			// something was submitted or answered: judge it like any other exchange
			jv := append(judgeCalls(ex, plans, run.calls, chain, w), judgeResponse(ex, plans, w, run.body)...)
			for i := range jv {
				jv[i].Detail = fmt.Sprintf("after the wallet directory gained %s: %s", what, jv[i].Detail)
			}
			vs = append(vs, jv...)
			if signedAt.IsZero() {
				signedAt = time.Now()
			}
		}
		pending = still
		// (2) what does eth_accounts say - asked after the signing requests above were answered
		got, raw, ok, perr := askAccounts(in, attempt)
		if !in.Signer.Alive() || (perr != nil && in.Signer.WaitExit(750*time.Millisecond)) {
			return died("on eth_accounts")
		}
		if perr != nil {
			pool.Drop(in)
			return append(vs, evid.V("response", "no complete HTTP response to eth_accounts within 60 s: %v", perr)), false
		}
		lastList = raw
		if !ok {
			return append(vs, evid.V("accounts", "after the wallet directory gained %s: eth_accounts answered %s", what, raw)), true
		}
		for _, a := range got {
			if !wantSet[a] {
				// no waiting makes this right: the address never was in the wallet
				return append(vs, evid.V("accounts", "after the wallet directory gained %s: eth_accounts = %s lists 0x%s, the wallet holds %v", what, raw, a, want)), true
			}
		}
		listedOK = strings.Join(got, ",") == strings.Join(want, ",")
		if listedOK && listedAt.IsZero() {
			listedAt = time.Now()
		}
		if listedOK && len(pending) == 0 {
			if rec != nil {
				switch d := time.Since(start); {
				case d < 100*time.Millisecond:
					rec.Class("session:wallet-change-taken-in<100ms")
				case d < time.Second:
					rec.Class("session:wallet-change-taken-in<1s")
				default:
					rec.Class("session:wallet-change-taken-in>=1s")
				}
			}
			return vs, true
		}
		if len(vs) > 0 {
			return vs, true // a wrong signature / answer was seen: no point in waiting
		}
		now := time.Now()
		if now.Sub(start) > settleBound ||
			(!listedOK && len(pending) == 0 && !signedAt.IsZero() && now.Sub(signedAt) > settleGrace) ||
			(listedOK && len(pending) > 0 && now.Sub(listedAt) > settleGrace) {
			break
		}
		switch {
		case attempt < 10:
			time.Sleep(10 * time.Millisecond)
		case attempt < 40:
			time.Sleep(50 * time.Millisecond)
		default:
			time.Sleep(250 * time.Millisecond)
		}
	}
	waited := time.Since(start).Round(100 * time.Millisecond)
	if !listedOK {
		signing := "no signing account was added"
		if !signedAt.IsZero() {
			signing = fmt.Sprintf("the process has been signing with the new key(s) for %s", time.Since(signedAt).Round(100*time.Millisecond))
		}
		vs = append(vs, evid.V("accounts-follow-wallet", "%s after the wallet directory gained %s eth_accounts still answers %s; the wallet holds %v (%s)", waited, what, lastList, want, signing))
	}
	for _, k := range pending {
		vs = append(vs, evid.V("new-key-signs", "%s after the wallet directory gained %s (eth_accounts lists the wallet's addresses: %v) eth_sendTransaction from 0x%s is still refused with %s", waited, what, listedOK, k.AddrHex, lastRefusal[k.AddrHex]))
	}
	return vs, true
}

func judgeSession(sc SessionCase) (vs []evid.Violation) {
	if len(sc.Steps) == 0 {
		return []evid.Violation{evid.V("harness", "session without exchanges")}
	}
	probe := ExchangeCase{Chain: sc.Chain}
	chain, err := probe.chainID()
	if err != nil {
		return []evid.Violation{evid.V("harness", "%v", err)}
	}
	if pool == nil {
		return []evid.Violation{evid.V("harness", "process pool not initialised")}
	}
	for si, st := range sc.Steps {
		if len(st.Wallet) > 0 && !sc.Listener {
			return []evid.Violation{evid.V("harness", "step %d changes the wallet directory but the session's process does not listen to it", si)}
		}
		if _, err := sc.viewAt(proc.Keys(3), si); err != nil {
			return []evid.Violation{evid.V("harness", "step %d: %v", si, err)}
		}
	}
	var in *proc.Instance
	if sc.Chain.Configured != nil {
		v := chain.Int64()
		in, err = pool.FreshListener(&v, nil, sc.Listener)
	} else {
		in, err = pool.FreshListener(nil, json.RawMessage(sc.Chain.NetVersion), sc.Listener)
	}
	if err != nil {
		if errors.Is(err, proc.ErrBinary) {
			fmt.Fprintf(os.Stderr, "INFRASTRUCTURE: %v\n", err)
			os.Exit(2)
		}
		if iv := infraStart(err); iv != nil {
			return []evid.Violation{*iv}
		}
		return []evid.Violation{evid.V("process-starts", "the ffsigner process for chain config %+v (file-system listener: %v) does not come up: %v", sc.Chain, sc.Listener, err)}
	}
	live := true
	defer func() {
		if live {
			pool.Drop(in)
		}
	}()
	for si, st := range sc.Steps {
		if len(st.Ex.Members) == 0 || (!st.Ex.Batch && len(st.Ex.Members) != 1) {
			return append(vs, evid.V("harness", "exchange %d has %d members (batch=%v)", si, len(st.Ex.Members), st.Ex.Batch))
		}
		if !sameChain(st.Ex.Chain, sc.Chain) {
			return append(vs, evid.V("harness", "exchange %d names another chain configuration than the session", si))
		}
		w, _ := sc.viewAt(in.Keys, si)
		if len(st.Wallet) > 0 {
			var names []string
			for _, a := range st.Wallet {
				if err := applyWalletAdd(in.WalletDir, a); err != nil {
					return append(vs, evid.V("harness", "step %d: writing into the wallet directory: %v", si, err))
				}
				names = append(names, a.String())
			}
			v, usable := settle(in, chain, sc.Chain, w, st.Wallet, strings.Join(names, " and "))
			for k := range v {
				v[k].Detail = fmt.Sprintf("before exchange %d of the session: %s", si, v[k].Detail)
			}
			vs = append(vs, v...)
			if !usable {
				live = false
				return vs
			}
			if len(v) > 0 {
				return vs // the exchanges that follow would only repeat it
			}
		}
		for _, b := range st.Before {
			in.Backend.Install(&proc.Script{Default: proc.ResultReply(`"verif-unjudged"`), NonceDefault: proc.ResultReply(`"0x0"`), NonceOther: proc.ResultReply(`"` + nonceOther + `"`)})
			_, perr := in.Signer.Post([]byte(b), 60*time.Second)
			in.Backend.Finish()
			if !in.Signer.Alive() || (perr != nil && in.Signer.WaitExit(750*time.Millisecond)) {
				// the death of the process on such a body is C16's verdict; nothing to judge here
				if rec != nil {
					rec.Class("session:process-died-on-unjudged-body(no verdict here)")
				}
				live = false
				pool.Drop(in)
				return vs
			}
		}
		v, usable := runExchange(in, w, chain, st.Ex)
		for k := range v {
			v[k].Detail = fmt.Sprintf("exchange %d of the session: %s", si, v[k].Detail)
		}
		vs = append(vs, v...)
		if !usable {
			live = false
			return vs
		}
		if len(vs) >= 6 {
			break
		}
	}
	return vs
}

// infraStart recognises start-up failures that cannot be the fault of the code under test:
// every retry lost the race for a TCP port, or the kernel has no inotify instance left for
// the wallet's file-system listener.  Such a case is not judged.
func infraStart(err error) *evid.Violation {
	if errors.Is(err, proc.ErrListenerLimit) {
		v := evid.Infra("no inotify instance could be had for the ffsigner process's file-system listener: %v", err)
		return &v
	}
	if strings.Contains(err.Error(), "address already in use") || strings.Contains(err.Error(), "no free loopback port") {
		v := evid.Infra("no TCP port could be won for the ffsigner process: %v", err)
		return &v
	}
	return nil
}

func judgeCalls(c ExchangeCase, plans []plan, calls []proc.Call, chain *big.Int, w walletView) (vs []evid.Violation) {
	byToken := map[string][]proc.Call{}
	for _, cl := range calls {
		if cl.Malformed != "" {
			vs = append(vs, evid.V("backend-call-wellformed", "backend received a body that is not a JSON-RPC request (%s): %s", cl.Malformed, short(cl.Raw)))
			continue
		}
		if cl.Token == "" {
			switch cl.Method {
			case "eth_sendRawTransaction", "eth_sendTransaction":
				vs = append(vs, evid.V("nothing-else-submitted", "backend received %s that matches no request of the exchange: %s", cl.Method, short(cl.Raw)))
			}
			continue
		}
		byToken[cl.Token] = append(byToken[cl.Token], cl)
	}
	for i, m := range c.Members {
		if m.Kind == "accounts" {
			continue
		}
		got := byToken[c.token(i)]
		switch m.Kind {
		case "pass":
			if len(got) != 1 {
				vs = append(vs, evid.V("pass-through-once", "member %d (%s): %d calls reached the backend, want exactly 1", i, c.memberMethod(i), len(got)))
				continue
			}
			cl := got[0]
			if cl.Method != c.memberMethod(i) {
				vs = append(vs, evid.V("pass-through-method", "member %d: backend saw method %q, request said %q", i, cl.Method, c.memberMethod(i)))
			}
			want := []interface{}{}
			for _, p := range c.memberParams(i) {
				v, err := jsonrpc.Parse(p)
				if err != nil {
					return append(vs, evid.V("harness", "member %d: bad param text %s: %v", i, p, err))
				}
				want = append(want, v)
			}
			var gotv interface{} = []interface{}{}
			if cl.HasParams {
				v, err := jsonrpc.Parse(cl.Params)
				if err != nil {
					vs = append(vs, evid.V("pass-through-params", "member %d: forwarded params do not parse: %v", i, err))
					continue
				}
				if v != nil { // params:null is read as "no parameters"
					gotv = v
				}
			}
			if !jsonrpc.Equal(gotv, want) {
				vs = append(vs, evid.V("pass-through-params", "member %d (%s): backend saw params %s, request said %s", i, cl.Method, jsonrpc.Render(gotv), jsonrpc.Render(want)))
			}
		case "sendtx":
			p := plans[i]
			if !p.submit {
				if len(got) != 0 {
					why := map[fromClass]string{fromAbsent: "from is absent", fromMalformed: "from is malformed", fromUnknown: "from is not in the wallet", fromKnown: "the nonce lookup failed"}[p.class]
					if d := w.decoyOf(p.from); p.class == fromUnusable && d != nil {
						why = fmt.Sprintf("the wallet's file for from (0x%s) cannot sign for it (%s)", d.AddrHex, d.Kind)
					}
					vs = append(vs, evid.V("nothing-submitted", "member %d: %s, yet %d call(s) (%s) reached the backend%s", i, why, len(got), got[0].Method, whoSigned(got[0], chain)))
				}
				continue
			}
			if len(got) != 1 {
				vs = append(vs, evid.V("submitted-once", "member %d: %d calls for this transaction reached the backend, want exactly 1 eth_sendRawTransaction", i, len(got)))
				continue
			}
			vs = append(vs, judgeSigned(c, i, p, got[0], chain)...)
		}
	}
	return vs
}

// whoSigned names the signer of a forwarded raw transaction (for messages only).
func whoSigned(cl proc.Call, chain *big.Int) string {
	if cl.Method != "eth_sendRawTransaction" {
		return ""
	}
	var ps []string
	if json.Unmarshal(cl.Params, &ps) != nil || len(ps) != 1 || !strings.HasPrefix(ps[0], "0x") {
		return ""
	}
	raw, err := hex.DecodeString(ps[0][2:])
	if err != nil {
		return ""
	}
	tx, err := decodeSigned(raw, chain)
	if err != nil {
		return ""
	}
	return fmt.Sprintf(": a transaction signed by 0x%x", tx.signer)
}

func judgeSigned(c ExchangeCase, i int, p plan, cl proc.Call, chain *big.Int) (vs []evid.Violation) {
	if cl.Method != "eth_sendRawTransaction" {
		return append(vs, evid.V("submitted-as-raw", "member %d: forwarded as %q, want eth_sendRawTransaction", i, cl.Method))
	}
	var ps []json.RawMessage
	if err := json.Unmarshal(cl.Params, &ps); err != nil || len(ps) != 1 {
		return append(vs, evid.V("raw-params", "member %d: eth_sendRawTransaction params %s, want one hex string", i, short(cl.Params)))
	}
	var hx string
	if err := json.Unmarshal(ps[0], &hx); err != nil || !strings.HasPrefix(hx, "0x") {
		return append(vs, evid.V("raw-params", "member %d: raw transaction parameter is not a 0x hex string: %s", i, short(ps[0])))
	}
	raw, err := hex.DecodeString(hx[2:])
	if err != nil {
		return append(vs, evid.V("raw-params", "member %d: raw transaction is not hex: %v", i, err))
	}
	tx, err := decodeSigned(raw, chain)
	if err != nil {
		return append(vs, evid.V("raw-decodes", "member %d: signed payload %x…: %v", i, raw[:min(len(raw), 24)], err))
	}
	if tx.signer != p.from {
		vs = append(vs, evid.V("recovers-to-from", "member %d: payload recovers to 0x%x under chain id %s, requested from is 0x%x", i, tx.signer, chain, p.from))
	}
	req := c.Members[i].Tx
	if tx.nonce.Cmp(p.nonce) != 0 {
		src := "supplied"
		if len(req.Nonce) == 0 {
			src = "backend-reported pending"
		}
		vs = append(vs, evid.V("nonce", "member %d: signed nonce %s, %s nonce is %s", i, tx.nonce, src, p.nonce))
	}
	cmp := func(name string, got *big.Int, raw json.RawMessage) {
		if want := bigOrZero(raw); got.Cmp(want) != 0 {
			vs = append(vs, evid.V("field-"+name, "member %d: signed %s = %s, requested %s", i, name, got, want))
		}
	}
	cmp("gas", tx.gas, req.Gas)
	cmp("value", tx.value, req.Value)
	want1559 := bigOrZero(req.MaxPriority).Sign() > 0 || bigOrZero(req.MaxFee).Sign() > 0
	switch {
	case want1559 && tx.typ != 2:
		vs = append(vs, evid.V("field-fees", "member %d: request carries EIP-1559 fee fields but the payload is a legacy transaction", i))
	case !want1559 && len(req.GasPrice) > 0 && tx.typ != 0:
		vs = append(vs, evid.V("field-fees", "member %d: request carries gasPrice but the payload has type %d", i, tx.typ))
	case tx.typ == 2:
		cmp("maxPriorityFeePerGas", tx.maxPrio, req.MaxPriority)
		cmp("maxFeePerGas", tx.maxFee, req.MaxFee)
	default:
		cmp("gasPrice", tx.gasPrice, req.GasPrice)
	}
	if !bytes.Equal(tx.to, c.txTo(i)) {
		vs = append(vs, evid.V("field-to", "member %d: signed to = %x, requested %x", i, tx.to, c.txTo(i)))
	}
	wantData := []byte{}
	if !req.DataAbsent {
		wantData = c.txData(i)
	}
	if !bytes.Equal(tx.data, wantData) {
		vs = append(vs, evid.V("field-data", "member %d: signed data (%d bytes) differs from the requested data (%d bytes)", i, len(tx.data), len(wantData)))
	}
	return vs
}

func judgeResponse(c ExchangeCase, plans []plan, w walletView, body []byte) (vs []evid.Violation) {
	v, err := jsonrpc.Parse(body)
	if err != nil {
		return append(vs, evid.V("response-json", "response body is not one JSON value (%v): %q", err, short(body)))
	}
	var rs []*jsonrpc.Response
	if c.Batch {
		rs, err = jsonrpc.CheckBatch(v, len(c.Members))
		if err != nil {
			return append(vs, evid.V("batch-response-shape", "%v; body %s", err, short(body)))
		}
	} else {
		r, err := jsonrpc.CheckResponse(v)
		if err != nil {
			return append(vs, evid.V("response-shape", "%v; body %s", err, short(body)))
		}
		rs = []*jsonrpc.Response{r}
	}
	for i, m := range c.Members {
		r := rs[i]
		wantID, err := jsonrpc.Parse(m.ID)
		if err != nil {
			return append(vs, evid.V("harness", "member %d: bad id text %s", i, m.ID))
		}
		if !jsonrpc.Equal(r.ID, wantID) {
			vs = append(vs, evid.V("id-echo", "position %d: response id %s, request id %s", i, jsonrpc.Render(r.ID), jsonrpc.Render(wantID)))
		}
		describe := func() string {
			if r.IsError {
				return fmt.Sprintf("error{code:%s,message:%q}", r.Code, r.Message)
			}
			return "result " + jsonrpc.Render(r.Result)
		}
		needMessage := true
		wantErr := func(why string) {
			if !r.IsError {
				vs = append(vs, evid.V("error-expected", "position %d: %s, but the response carries %s", i, why, describe()))
			} else if r.Message == "" && needMessage {
				vs = append(vs, evid.V("error-message", "position %d: %s; the error object has an empty message (code %s)", i, why, r.Code))
			}
		}
		if m.Kind == "accounts" {
			if r.IsError {
				vs = append(vs, evid.V("accounts", "position %d: eth_accounts answered with %s", i, describe()))
				continue
			}
			arr, ok := r.Result.([]interface{})
			if !ok {
				vs = append(vs, evid.V("accounts", "position %d: eth_accounts result is %s", i, jsonrpc.Render(r.Result)))
				continue
			}
			var got []string
			bad := false
			for _, e := range arr {
				s, ok := e.(string)
				if !ok || !strings.HasPrefix(s, "0x") || len(s) != 42 {
					bad = true
					break
				}
				got = append(got, strings.ToLower(s[2:]))
			}
			want := w.listed()
			sort.Strings(got)
			if bad || strings.Join(got, ",") != strings.Join(want, ",") {
				vs = append(vs, evid.V("accounts", "position %d: eth_accounts = %s, the wallet holds %v", i, jsonrpc.Render(r.Result), want))
			}
			continue
		}
		p := plans[i]
		if m.Kind == "sendtx" && !p.submit {
			switch {
			case p.class == fromAbsent:
				wantErr("eth_sendTransaction without from")
			case p.class == fromMalformed:
				wantErr("eth_sendTransaction with a malformed from")
			case p.class == fromUnknown:
				wantErr("eth_sendTransaction from an address that is not in the wallet")
			case p.class == fromUnusable:
				// with no nonce in the request the pending nonce is looked up first; a backend
				// error object whose own message is empty may be relayed as it is
				if nr := c.nonceReply(p.from); len(m.Tx.Nonce) == 0 && nr.Kind == "rpcerror" && nr.Message == "" {
					needMessage = false
				}
				wantErr("eth_sendTransaction from an address whose wallet file cannot sign for it (" + w.decoyOf(p.from).Kind + ")")
			default:
				// a backend error object whose own message is empty may be relayed as it is
				if nr := c.nonceReply(p.from); nr.Kind == "rpcerror" && nr.Message == "" {
					needMessage = false
				}
				wantErr("the nonce lookup for eth_sendTransaction failed")
			}
			continue
		}
		switch m.Reply.Kind {
		case "result":
			wantRes, err := jsonrpc.Parse(m.Reply.Result)
			if err != nil {
				return append(vs, evid.V("harness", "member %d: bad scripted result %s", i, m.Reply.Result))
			}
			if r.IsError || !jsonrpc.Equal(r.Result, wantRes) {
				vs = append(vs, evid.V("result-relayed", "position %d: backend answered result %s, the response carries %s", i, jsonrpc.Render(wantRes), describe()))
			}
		case "rpcerror":
			if !r.IsError || r.CodeInt == nil || r.CodeInt.Cmp(big.NewInt(m.Reply.Code)) != 0 || r.Message != m.Reply.Message {
				vs = append(vs, evid.V("error-relayed", "position %d: backend answered error{code:%d,message:%q} (HTTP %d), the response carries %s", i, m.Reply.Code, m.Reply.Message, m.Reply.Status, describe()))
			}
		case "httperror":
			wantErr(fmt.Sprintf("backend answered HTTP %d with %s body", m.Reply.Status, m.Reply.BodyKind))
		case "close":
			wantErr("backend closed the connection")
		default:
			return append(vs, evid.V("harness", "member %d: unknown reply kind %q", i, m.Reply.Kind))
		}
	}
	return vs
}

// ---------------------------------------------------------------------------
// generators

var chainMenu = func() []Chain {
	s := func(x string) *string { return &x }
	return []Chain{
		{Configured: s("0")}, {Configured: s("1")}, {Configured: s("1337")}, {Configured: s("2147483648")}, {Configured: s("9007199254740992")},
		{NetVersion: `"1"`}, {NetVersion: `"1337"`}, {NetVersion: `"0x539"`}, {NetVersion: `"2147483648"`}, {NetVersion: `"0x20000000000000"`},
	}
}()

var specialStrings = []string{"", "a", "0x", "1", "null", "é", "日本語", "😀", "<tag>&amp;", "\"quoted\"", "back\\slash", "line\nbreak", "tab\t", "\u0000", "  ", "pending", "latest",
	"eth_sendTransaction", "0x00000000000000000000000000000000000000ff", strings.Repeat("x", 300)}

func genString(rt *rapid.T, label string) string {
	if rapid.IntRange(0, 2).Draw(rt, label+".mode") == 0 {
		return rapid.SampledFrom(specialStrings).Draw(rt, label+".special")
	}
	return rapid.StringN(0, 24, -1).Draw(rt, label)
}

// jsonString renders a string as JSON text, in one of three spellings.
func jsonString(rt *rapid.T, label, s string) string {
	switch rapid.IntRange(0, 3).Draw(rt, label+".spell") {
	case 0: // everything non-ASCII escaped
		var sb strings.Builder
		sb.WriteByte('"')
		for _, r := range s {
			switch {
			case r == '"' || r == '\\':
				sb.WriteByte('\\')
				sb.WriteRune(r)
			case r < 0x20 || r > 0x7e:
				if r > 0xffff {
					r -= 0x10000
					fmt.Fprintf(&sb, `\u%04x\u%04x`, 0xd800+(r>>10), 0xdc00+(r&0x3ff))
				} else {
					fmt.Fprintf(&sb, `\u%04x`, r)
				}
			default:
				sb.WriteRune(r)
			}
		}
		sb.WriteByte('"')
		return sb.String()
	case 1: // Go default (HTML-escaped)
		b, _ := json.Marshal(s)
		return string(b)
	default:
		return jstr(s)
	}
}

var numberMenu = []string{"0", "-0", "1", "-1", "1.5", "-2.25", "1e10", "1E-2", "1e+2", "0.1", "1.0", "123456789012345678901234567890", "-9223372036854775809",
	"18446744073709551615", "18446744073709551616", "18446744073709551617", "9007199254740993", "3.141592653589793238462643383279", "1e400", "0.000000000000000000000000000001"}

func genNumber(rt *rapid.T, label string) string {
	if rapid.Bool().Draw(rt, label+".menu") {
		return rapid.SampledFrom(numberMenu).Draw(rt, label+".n")
	}
	return fmt.Sprintf("%d", rapid.Int64().Draw(rt, label+".i"))
}

// genJSON draws an arbitrary JSON text.
func genJSON(rt *rapid.T, label string, depth int) string {
	k := rapid.IntRange(0, 9).Draw(rt, label+".kind")
	if depth <= 0 && k >= 7 {
		k = 4
	}
	switch k {
	case 0:
		return "null"
	case 1:
		return rapid.SampledFrom([]string{"true", "false"}).Draw(rt, label+".b")
	case 2, 3:
		return genNumber(rt, label)
	case 4, 5, 6:
		return jsonString(rt, label, genString(rt, label+".s"))
	case 7, 8:
		n := rapid.IntRange(0, 4).Draw(rt, label+".len")
		parts := make([]string, n)
		for i := range parts {
			parts[i] = genJSON(rt, fmt.Sprintf("%s.%d", label, i), depth-1)
		}
		return "[" + strings.Join(parts, ",") + "]"
	default:
		n := rapid.IntRange(0, 4).Draw(rt, label+".len")
		seen := map[string]bool{}
		var parts []string
		for i := 0; i < n; i++ {
			key := rapid.SampledFrom([]string{"a", "b", "id", "result", "error", "jsonrpc", "method", "", "ключ", "from", "data"}).Draw(rt, fmt.Sprintf("%s.k%d", label, i))
			if seen[key] {
				continue
			}
			seen[key] = true
			parts = append(parts, jstr(key)+":"+genJSON(rt, fmt.Sprintf("%s.v%d", label, i), depth-1))
		}
		return "{" + strings.Join(parts, ",") + "}"
	}
}

// idStringTexts are JSON texts of string ids, spelled by hand (valid JSON each).
var idStringTexts = []string{`"say \"hi\""`, `"\""`, `"\\"`, `"\\\""`, `"a\\"`, `"\\\\"`, `"tab\there"`, `"nl\nhere"`, `"\b\f\n\r\t"`, `"\/path\/x"`, `"\u0041"`, `"\u00e9"`, `"\u00E9"`, `"\u0022quoted\u0022"`,
	`"\u005c"`, `"\u0000"`, `"\u001f"`, `"\ud83d\ude00"`, `"\u2028\u2029"`, "\"\x7f\"", `"{\"id\":1}"`, `"[1,2]"`, `"null"`, `"1"`, `"id\":2,\"x\":\""`, `" "`, `"é"`, `"\\u0041"`}

func genID(rt *rapid.T, label string, i int) (string, string) {
	switch rapid.IntRange(0, 9).Draw(rt, label+".kind") {
	case 0, 1, 2:
		return fmt.Sprintf("%d", rapid.IntRange(0, 100000).Draw(rt, label+".small")), "id:small-int"
	case 3:
		return fmt.Sprintf("-%d", rapid.IntRange(1, 1<<40).Draw(rt, label+".neg")), "id:negative"
	case 4:
		base := rapid.SampledFrom([]string{"18446744073709551616", "18446744073709551617", "340282366920938463463374607431768211456", "9007199254740993", "1000000000000000000000000000000", "9223372036854775808"}).Draw(rt, label+".big")
		v, _ := new(big.Int).SetString(base, 10)
		v.Add(v, big.NewInt(int64(rapid.IntRange(0, 1000).Draw(rt, label+".off"))))
		return v.String(), "id:big-int"
	case 5:
		// odd but valid spellings of numbers (RFC 8259 grammar)
		return rapid.SampledFrom([]string{"1.5", "0.1", "-2.25", "1e2", "1E+2", "1.0", "12345678901234567890.5", "-0", "-0.0", "0e0", "0E-0", "1E2", "1e-2", "100e-2", "0.5e1", "1e+0", "-1E+2",
			"1.000000000000000000000001", "1e30", "0.0", "10.0e0"}).Draw(rt, label+".frac"), "id:fraction-or-exponent"
	case 6:
		// strings whose JSON text needs care when it is copied: escaped quotes, backslashes, every
		// short escape, \u escapes in both hex cases (also for characters that need none), DEL, U+2028
		return rapid.SampledFrom(idStringTexts).Draw(rt, label+".text"), "id:string"
	case 7:
		return jsonString(rt, label, fmt.Sprintf("%s-%d", genString(rt, label+".s"), i)), "id:string"
	default:
		return jsonString(rt, label, genString(rt, label+".s")), "id:string"
	}
}

func numLit(rt *rapid.T, label string, v *big.Int) json.RawMessage {
	switch rapid.IntRange(0, 5).Draw(rt, label+".fmt") {
	case 0:
		return json.RawMessage(v.String()) // JSON number
	case 1:
		return json.RawMessage(`"` + v.String() + `"`) // decimal string
	default:
		return json.RawMessage(`"0x` + v.Text(16) + `"`)
	}
}

func eip55(addr [20]byte) string {
	h := hex.EncodeToString(addr[:])
	d := secp.Keccak256([]byte(h))
	out := []byte(h)
	for i, ch := range out {
		if ch >= 'a' && ch <= 'f' {
			nib := d[i/2] >> 4
			if i%2 == 1 {
				nib = d[i/2] & 0xf
			}
			if nib >= 8 {
				out[i] = ch - 32
			}
		}
	}
	return "0x" + string(out)
}

var methodMenu = []string{"eth_call", "eth_getBalance", "eth_estimateGas", "eth_getTransactionCount", "eth_sendRawTransaction", "eth_chainId", "net_version", "eth_getLogs",
	"eth_blockNumber", "web3_sha3", "debug_traceTransaction", "метод", "eth_取引", "x", "eth_sendTransactions", "ETH_ACCOUNTS", "eth_accounts ", "rpc.discover", "a/b"}

func genReply(rt *rapid.T, label string, tok string, forTx bool) (proc.Reply, string) {
	switch k := rapid.IntRange(0, 19).Draw(rt, label+".kind"); {
	case k < 11:
		var res string
		switch rapid.IntRange(0, 3).Draw(rt, label+".shape") {
		case 0:
			res = genJSON(rt, label+".res", 3)
		case 1:
			res = `{"tok":` + jstr(tok) + `,"v":` + genJSON(rt, label+".res", 2) + `}`
		case 2:
			res = `"0x` + hex.EncodeToString(secp.Keccak256([]byte(tok))) + `"`
		default:
			res = `[` + jstr(tok) + `,` + genNumber(rt, label+".num") + `]`
		}
		return proc.Reply{Kind: "result", Result: json.RawMessage(res)}, "reply:result"
	case k < 14:
		codes := []int64{-32000, -32603, -32601, -32602, -32700, -32600, 3, 1, -1, 2147483648, -9223372036854775808, 9223372036854775807, 429}
		code := rapid.SampledFrom(codes).Draw(rt, label+".code")
		if rapid.IntRange(0, 3).Draw(rt, label+".rnd") == 0 {
			code = rapid.Int64().Filter(func(x int64) bool { return x != 0 }).Draw(rt, label+".codernd")
		}
		msg := genString(rt, label+".msg")
		if msg == "" && rapid.IntRange(0, 3).Draw(rt, label+".emptymsg") != 0 {
			msg = "execution reverted"
		}
		rp := proc.Reply{Kind: "rpcerror", Code: code, Message: msg}
		if rapid.Bool().Draw(rt, label+".data") {
			rp.Data = json.RawMessage(genJSON(rt, label+".errdata", 2))
		}
		cl := "reply:rpcerror-http200"
		if rapid.IntRange(0, 2).Draw(rt, label+".st") == 0 {
			rp.Status = rapid.SampledFrom([]int{400, 404, 500, 502, 503}).Draw(rt, label+".status")
			cl = "reply:rpcerror-http4xx5xx"
		}
		return rp, cl
	case k < 18:
		rp := proc.Reply{Kind: "httperror", Status: rapid.SampledFrom([]int{400, 401, 403, 404, 413, 429, 500, 502, 503, 504}).Draw(rt, label+".status")}
		switch rapid.IntRange(0, 2).Draw(rt, label+".body") {
		case 0:
			rp.BodyKind = "empty"
		case 1:
			rp.BodyKind = "text"
			rp.Body = rapid.SampledFrom([]string{"Bad Gateway", "upstream connect error or disconnect/reset before headers", "<html><body>503</body></html>", "x", "rate limited\n"}).Draw(rt, label+".text")
		default:
			rp.BodyKind = "json"
			rp.Body = rapid.SampledFrom([]string{`{"message":"rate limited"}`, `{"error":"unauthorized"}`, `{}`, `[1,2]`, `"forbidden"`, `{"error":{"reason":"quota"}}`, `{"code":429,"msg":"slow down"}`, `17`}).Draw(rt, label+".json")
		}
		return rp, "reply:httperror-" + rp.BodyKind
	default:
		return proc.Reply{Kind: "close"}, "reply:connection-close"
	}
}

func genNonceReply(rt *rapid.T, label string) proc.Reply {
	if rapid.IntRange(0, 3).Draw(rt, label+".fail") == 0 {
		rp, _ := genReply(rt, label+".failure", "nonce", false)
		if rp.Kind == "result" {
			rp = proc.Reply{Kind: "rpcerror", Code: -32000, Message: "nonce unavailable"}
		}
		return rp
	}
	v := gen.Uint(rt, label+".nonce", 64)
	if "0x"+v.Text(16) == nonceOther {
		v.Add(v, big.NewInt(1))
	}
	return proc.ResultReply(`"0x` + v.Text(16) + `"`)
}

// spellAddr writes an address in one of the accepted spellings.
func spellAddr(rt *rapid.T, label string, addr [20]byte) json.RawMessage {
	h := hex.EncodeToString(addr[:])
	switch rapid.IntRange(0, 2).Draw(rt, label+".fromfmt") {
	case 0:
		return json.RawMessage(jstr("0x" + h))
	case 1:
		return json.RawMessage(jstr("0x" + strings.ToUpper(h)))
	default:
		return json.RawMessage(jstr(eip55(addr)))
	}
}

// genTx draws a transaction object.  cast (may be nil) is a short list of `from` values
// of the history the transaction belongs to: most members of a history reuse them, so
// that the same `from` is asked for again and again (F1).
func genTx(rt *rapid.T, label string, w walletView, maxData int, cast []json.RawMessage) (*Tx, []string) {
	keys, decoys := w.keys, w.decoys
	tx := &Tx{}
	var cl []string
	k := rapid.IntRange(0, 19).Draw(rt, label+".from")
	if len(cast) > 0 && rapid.IntRange(0, 9).Draw(rt, label+".fromcast") < 8 {
		k = -1
	}
	switch {
	case k < 0:
		tx.From = rapid.SampledFrom(cast).Draw(rt, label+".cast")
	case k < 11:
		key := keys[rapid.IntRange(0, len(keys)-1).Draw(rt, label+".key")]
		tx.From = spellAddr(rt, label, key.Address)
		cl = append(cl, "sendtx:from-known")
	case k < 14:
		// listed by the wallet, but its file is mis-filed / unreadable / without password
		d := decoys[rapid.IntRange(0, len(decoys)-1).Draw(rt, label+".decoy")]
		tx.From = spellAddr(rt, label, d.Address)
		cl = append(cl, "sendtx:from-unusable")
	case k < 16:
		b := gen.Bytes(rt, label+".unknown", 20)
		tx.From = json.RawMessage(`"0x` + hex.EncodeToString(b) + `"`)
		cl = append(cl, "sendtx:from-unknown")
	case k < 19:
		tx.From = json.RawMessage(rapid.SampledFrom([]string{`"0x1234"`, `"not hex"`, `""`, `"0x"`, `"0x` + strings.Repeat("ab", 21) + `"`, `"0x` + strings.Repeat("ab", 19) + `"`,
			`"0x` + strings.Repeat("zz", 20) + `"`, `5`, `{}`, `[]`, `null`, `true`, `"` + keys[0].AddrHex[:39] + `"`}).Draw(rt, label+".malformed"))
		cl = append(cl, "sendtx:from-malformed")
	default:
		cl = append(cl, "sendtx:from-absent")
	}
	if rapid.IntRange(0, 2).Draw(rt, label+".hasnonce") > 0 {
		tx.Nonce = numLit(rt, label+".nonce", gen.Uint(rt, label+".noncev", 64))
		cl = append(cl, "sendtx:nonce-supplied")
	} else {
		cl = append(cl, "sendtx:nonce-absent")
	}
	if rapid.IntRange(0, 5).Draw(rt, label+".hasgas") > 0 {
		tx.Gas = numLit(rt, label+".gas", gen.Uint(rt, label+".gasv", 64))
	}
	if rapid.IntRange(0, 3).Draw(rt, label+".hasvalue") > 0 {
		tx.Value = numLit(rt, label+".value", gen.Uint(rt, label+".valuev", 256))
	}
	switch rapid.IntRange(0, 5).Draw(rt, label+".fees") {
	case 0:
		cl = append(cl, "sendtx:no-fee-fields")
	case 1, 2:
		tx.GasPrice = numLit(rt, label+".gasprice", gen.Uint(rt, label+".gaspricev", 256))
		cl = append(cl, "sendtx:legacy-gasPrice")
	default:
		prio, fee := gen.Uint(rt, label+".priov", 256), gen.Uint(rt, label+".feev", 256)
		which := rapid.IntRange(0, 3).Draw(rt, label+".which1559")
		if which != 1 {
			tx.MaxFee = numLit(rt, label+".fee", fee)
		}
		if which != 2 {
			tx.MaxPriority = numLit(rt, label+".prio", prio)
		}
		if bigOrZero(tx.MaxFee).Sign() == 0 && bigOrZero(tx.MaxPriority).Sign() == 0 {
			tx.MaxFee = json.RawMessage(`"0x1"`) // an all-zero 1559 request is indistinguishable from a legacy one: not generated
		}
		cl = append(cl, "sendtx:eip1559-fees")
	}
	hasTo := rapid.IntRange(0, 3).Draw(rt, label+".hasto") > 0
	dataLen := gen.Len(rt, label+".datalen", maxData)
	switch {
	case !hasTo:
		tx.DataToken = true
		cl = append(cl, "sendtx:contract-creation")
	case rapid.Bool().Draw(rt, label+".tokenInTo"):
		tx.ToIsToken = true
		if dataLen == 0 && rapid.Bool().Draw(rt, label+".nodata") {
			tx.DataAbsent = true
			cl = append(cl, "sendtx:data-absent")
		}
	default:
		switch rapid.IntRange(0, 5).Draw(rt, label+".toShape") {
		case 0: // the zero address is an address, not "no destination"
			tx.To = strings.Repeat("00", 20)
			cl = append(cl, "sendtx:to-zero-address")
		case 1:
			tx.To = strings.Repeat("00", 19) + hex.EncodeToString([]byte{rapid.Byte().Draw(rt, label+".toLast")})
			cl = append(cl, "sendtx:to-leading-zeros")
		default:
			tx.To = gen.HexBytes(rt, label+".to", 20)
		}
		tx.DataToken = true
	}
	if !tx.DataAbsent {
		tx.DataLen = dataLen
		tx.DataSeed = rapid.Uint32().Draw(rt, label+".dataseed")
		switch {
		case dataLen >= 65535:
			cl = append(cl, "sendtx:data>=64KiB-1")
		case dataLen >= 1023:
			cl = append(cl, "sendtx:data>=1KiB")
		}
	}
	return tx, cl
}

// genMember draws one request with its backend reply.  Nothing in it depends on the
// member's position, so that rapid can shrink a failing batch by deleting members.
func genMember(rt *rapid.T, w walletView, maxData int, fifo bool, cast []json.RawMessage) Member {
	label := "m"
	m := Member{}
	if !fifo {
		m.Rank = rapid.IntRange(0, 63).Draw(rt, label+".rank")
	}
	id, _ := genID(rt, label+".id", rapid.IntRange(0, 99).Draw(rt, label+".idsuffix"))
	m.ID = json.RawMessage(id)
	k := rapid.IntRange(0, 9).Draw(rt, label+".kind")
	if cast != nil && k >= 2 && k < 4 {
		k = 4 // a history is mostly about signing requests
	}
	switch {
	case k < 4:
		m.Kind = "pass"
		m.Method = rapid.SampledFrom(methodMenu).Draw(rt, label+".method")
		if rapid.IntRange(0, 4).Draw(rt, label+".ownmethod") == 0 {
			m.Method = genString(rt, label+".methodname")
		}
		switch m.Method {
		case "", "eth_sendTransaction", "eth_accounts", "personal_accounts": // handled by the proxy itself / not a method name
			m.Method += "m"
		}
		switch rapid.IntRange(0, 7).Draw(rt, label+".pform") {
		case 0:
			m.ParamsForm = "absent"
		case 1:
			m.ParamsForm = "empty"
		default:
			np := rapid.IntRange(0, 4).Draw(rt, label+".np")
			for p := 0; p < np; p++ {
				m.Params = append(m.Params, json.RawMessage(genJSON(rt, fmt.Sprintf("%s.p%d", label, p), 3)))
			}
			m.TokenPos = rapid.IntRange(0, np).Draw(rt, label+".tokpos")
			m.TokenDeep = rapid.IntRange(0, 3).Draw(rt, label+".tokdeep") == 0
		}
	case k < 9:
		m.Kind = "sendtx"
		m.Tx, _ = genTx(rt, label+".tx", w, maxData, cast)
	default:
		m.Kind = "accounts"
		if rapid.Bool().Draw(rt, label+".noparams") {
			m.ParamsForm = "absent"
		} else {
			m.ParamsForm = "empty"
		}
	}
	if m.Kind != "accounts" {
		// the reply may name the member through a drawn tag (the real token depends on the position)
		tag := fmt.Sprintf("tag-%d", rapid.IntRange(0, 1<<30).Draw(rt, label+".replytag"))
		m.Reply, _ = genReply(rt, label+".reply", tag, m.Kind == "sendtx")
	}
	return m
}

func genExchange(rt *rapid.T, w walletView, thorough bool) ExchangeCase {
	c := ExchangeCase{Chain: rapid.SampledFrom(chainMenu).Draw(rt, "chain"), Salt: rapid.Uint32().Draw(rt, "salt")}
	lo, hi := 1, 1
	switch k := rapid.IntRange(0, 19).Draw(rt, "shape"); {
	case k < 5:
	case k < 7:
		c.Batch = true
	case k < 14:
		c.Batch, lo, hi = true, 2, 5
	case k < 18:
		c.Batch, lo, hi = true, 6, 20
	default:
		c.Batch, lo, hi = true, 21, 64
	}
	fillExchange(rt, &c, w, lo, hi, nil)
	return c
}

// genStorm draws a batch of 24..48 members nearly all of which are signing requests for the
// wallet's own accounts with 2..16 KiB of data each: the proxy works on the members of a batch
// concurrently, so many signatures (hashing included) are under way at the same moment, for the
// same and for different accounts.  Whatever the signing path shares between requests - a
// hasher, a buffer, a cached signer - is then used from several goroutines at once (F3).  The
// case is an ordinary exchange and is judged by the same oracle: every payload that reaches
// the backend must recover to its own from, with its own fields.
func genStorm(rt *rapid.T, w walletView) ExchangeCase {
	c := ExchangeCase{Chain: rapid.SampledFrom(chainMenu).Draw(rt, "chain"), Salt: rapid.Uint32().Draw(rt, "salt"), Batch: true}
	fifo := rapid.Bool().Draw(rt, "fifo")
	c.Members = rapid.SliceOfN(rapid.Custom(func(rt *rapid.T) Member {
		if rapid.IntRange(0, 9).Draw(rt, "other") == 9 {
			return genMember(rt, w, 2000, fifo, nil)
		}
		from := spellAddr(rt, "from", w.keys[rapid.IntRange(0, len(w.keys)-1).Draw(rt, "key")].Address)
		m := genSendTxFrom(rt, "storm", w, from)
		if !m.Tx.DataAbsent {
			m.Tx.DataLen = rapid.IntRange(2048, 16384).Draw(rt, "datalen")
		}
		if len(m.Tx.Nonce) == 0 && rapid.IntRange(0, 3).Draw(rt, "givenonce") > 0 {
			m.Tx.Nonce = numLit(rt, "nonce", gen.Uint(rt, "noncev", 64)) // no look-up before the signature
		}
		if !fifo {
			m.Rank = rapid.IntRange(0, 63).Draw(rt, "rank")
		}
		return m
	}), 24, 48).Draw(rt, "members")
	fillNonces(rt, &c, w)
	return c
}

// fillExchange draws the members and the nonce script of an exchange whose chain, salt
// and shape are set; w is the wallet content the exchange will meet.
func fillExchange(rt *rapid.T, c *ExchangeCase, w walletView, lo, hi int, cast []json.RawMessage) {
	maxData := 70000
	if hi > 20 || cast != nil {
		maxData = 2000
	}
	fifo := rapid.IntRange(0, 3).Draw(rt, "fifo") == 0
	c.Members = rapid.SliceOfN(rapid.Custom(func(rt *rapid.T) Member { return genMember(rt, w, maxData, fifo, cast) }), lo, hi).Draw(rt, "members")
	if c.Batch && len(c.Members) > 1 {
		// now and then two members share an id (alignment must then come from the position alone)
		for i := 1; i < len(c.Members); i++ {
			if rapid.IntRange(0, 11).Draw(rt, "dupid") == 0 {
				c.Members[i].ID = c.Members[i-1].ID
			}
		}
	}
	fillNonces(rt, c, w)
}

// fillNonces draws the nonce script for the members of c as they are now.
func fillNonces(rt *rapid.T, c *ExchangeCase, w walletView) {
	c.Nonces = nil
	used := map[string]bool{}
	for _, m := range c.Members {
		if m.Kind == "sendtx" {
			// the pending nonce is looked up for every well-formed from that comes without a nonce
			if cls, addr := classifyFrom(m.Tx.From, w); (cls == fromKnown || cls == fromUnusable) && len(m.Tx.Nonce) == 0 {
				used[hex.EncodeToString(addr[:])] = true
			}
		}
	}
	addrs := make([]string, 0, len(used))
	for a := range used {
		addrs = append(addrs, a)
	}
	sort.Strings(addrs)
	for _, a := range addrs {
		c.Nonces = append(c.Nonces, NonceScript{Addr: a, Reply: genNonceReply(rt, "nonce."+a[:6])})
	}
}

// noiseMenu: bodies a session may post between its exchanges.  Their answers are not judged
// here (unprocessable bodies belong to C16); what is judged is the NEXT well-formed exchange,
// which must not inherit anything - id, method, params, a signed payload, a lock - from them.
func noiseMenu(keys []proc.WalletKey) []string {
	k0 := keys[0].Addr0x()
	return []string{
		`{"jsonrpc":"2.0","id":"stale-id","method":"stale_method","params":["stale-param",{"k":[1,2]}]}`,
		`{"jsonrpc":"2.0","id":31337,"method":"eth_sendTransaction","params":[{"from":"` + k0 + `","nonce":"0x7","gas":"0x5208","to":"0x00000000000000000000000000000000000000dd","data":"0x5354414c45"}]}`,
		`{"jsonrpc":"2.0","id":31338,"method":"eth_sendTransaction","params":[{"from":"` + decoys[0].Addr0x() + `","nonce":"0x7","gas":"0x5208","data":"0x5354414c45"}]}`,
		`{"id":5,"method":"stale_method","params":{"a":1}}`,
		`{"jsonrpc":"2.0","id":6,"method":"eth_sendTransaction","params":[{"from":"0x1234"}]}`,
		`{"jsonrpc":"2.0","id":6,"method":"eth_sendTransaction","params":[{"from":"` + k0 + `","gas":true}]}`,
		`{"jsonrpc":"2.0","method":"no_id"}`, `{}`, `null`, `[]`, `[null]`, `{"id":1}`, `not json`, ``, `[{"id":8,"method":"stale_batch_member","params":["s"]},7]`,
	}
}

// Step is one exchange of a session, preceded by bodies whose answers are not judged.
type Step struct {
	// Wallet: files put into the wallet directory before anything else of the step (sessions
	// with Listener only).  The harness then waits until the process has taken them in
	// (settle) and judges this and all later exchanges against the enlarged wallet.
	Wallet []WalletAdd  `json:"wallet,omitempty"`
	Before []string     `json:"before,omitempty"`
	Ex     ExchangeCase `json:"ex"`
}

// SessionCase is a HISTORY: several exchanges, one after the other, against a process that
// is started for this case alone (so the case replays from the same state).  Every exchange
// is judged exactly like a lone exchange: what the proxy does for a request must not depend
// on what it was asked before (a cache filled by an earlier refusal, a pooled request
// object, a lock left behind by a request that could not be processed).
type SessionCase struct {
	Chain Chain `json:"chain"`
	// Listener: the process runs with the wallet's file-system listener switched on, so the
	// wallet is the CURRENT content of its directory, which the steps enlarge.
	Listener bool   `json:"listener,omitempty"`
	Steps    []Step `json:"steps"`
}

func genWalletAdd(rt *rapid.T, label string) WalletAdd {
	a := WalletAdd{N: rapid.IntRange(0, 9).Draw(rt, label+".n")}
	switch k := rapid.IntRange(0, 9).Draw(rt, label+".kind"); {
	case k < 6:
		a.Kind = "key"
	case k < 9:
		a.Kind = "decoy:" + rapid.SampledFrom(proc.DecoyKinds).Draw(rt, label+".decoy")
	default:
		a.Kind = "ignored"
	}
	a.InPlace = rapid.Bool().Draw(rt, label+".inplace")
	a.KeyFirst = rapid.Bool().Draw(rt, label+".keyfirst")
	return a
}

// genSendTxFrom draws a signing request that names from.
func genSendTxFrom(rt *rapid.T, label string, w walletView, from json.RawMessage) Member {
	id, _ := genID(rt, label+".id", rapid.IntRange(0, 99).Draw(rt, label+".idsuffix"))
	m := Member{Kind: "sendtx", ID: json.RawMessage(id)}
	m.Tx, _ = genTx(rt, label+".tx", w, 2000, []json.RawMessage{from})
	m.Tx.From = from
	m.Reply, _ = genReply(rt, label+".reply", fmt.Sprintf("tag-%d", rapid.IntRange(0, 1<<30).Draw(rt, label+".replytag")), true)
	return m
}

func genSession(rt *rapid.T, keys []proc.WalletKey) SessionCase {
	sc := SessionCase{Chain: rapid.SampledFrom(chainMenu).Draw(rt, "chain")}
	n := rapid.IntRange(2, 6).Draw(rt, "steps")
	// two sessions in five run against a process that LISTENS to its wallet directory, and
	// enlarge the wallet while it runs: one to three additions, none before the first exchange
	adds := make([][]WalletAdd, n)
	if sc.Listener = rapid.IntRange(0, 4).Draw(rt, "listener") < 2; sc.Listener {
		for j, na := 0, rapid.IntRange(1, 3).Draw(rt, "adds"); j < na; j++ {
			at := rapid.IntRange(1, n-1).Draw(rt, fmt.Sprintf("add%d.step", j))
			adds[at] = append(adds[at], genWalletAdd(rt, fmt.Sprintf("add%d", j)))
		}
	}
	// the cast: one to three `from` values that keep coming back, drawn from everything a
	// from can be - signing accounts, wallet entries that cannot sign, strangers - and the
	// addresses the session is going to add: they are strangers until their file is there
	var cast []json.RawMessage
	for i, n := 0, rapid.IntRange(1, 3).Draw(rt, "castSize"); i < n; i++ {
		label := fmt.Sprintf("cast%d", i)
		switch k := rapid.IntRange(0, 9).Draw(rt, label+".kind"); {
		case k < 4:
			cast = append(cast, spellAddr(rt, label, keys[rapid.IntRange(0, len(keys)-1).Draw(rt, label+".key")].Address))
		case k < 9:
			cast = append(cast, spellAddr(rt, label, decoys[rapid.IntRange(0, len(decoys)-1).Draw(rt, label+".decoy")].Address))
		default:
			cast = append(cast, json.RawMessage(`"0x`+hex.EncodeToString(gen.Bytes(rt, label+".unknown", 20))+`"`))
		}
	}
	for si := range adds {
		for j, a := range adds[si] {
			label := fmt.Sprintf("castadd%d.%d", si, j)
			if grown, err := baseView(keys).with(a); err == nil && rapid.IntRange(0, 4).Draw(rt, label+".in") > 0 {
				switch {
				case len(grown.keys) > len(keys):
					cast = append(cast, spellAddr(rt, label, grown.keys[len(keys)].Address))
				case len(grown.decoys) > len(decoys):
					cast = append(cast, spellAddr(rt, label, grown.decoys[len(decoys)].Address))
				}
			}
		}
	}
	noise := noiseMenu(keys)
	accountsMember := func(label string) Member {
		id, _ := genID(rt, label+".id", rapid.IntRange(0, 99).Draw(rt, label+".idsuffix"))
		m := Member{Kind: "accounts", ID: json.RawMessage(id), ParamsForm: "empty"}
		if rapid.Bool().Draw(rt, label+".noparams") {
			m.ParamsForm = "absent"
		}
		return m
	}
	for i := 0; i < n; i++ {
		st := Step{Wallet: adds[i], Ex: ExchangeCase{Chain: sc.Chain, Salt: rapid.Uint32().Draw(rt, "salt")}}
		sc.Steps = append(sc.Steps, st)
		w, _ := sc.viewAt(keys, i)
		if rapid.IntRange(0, 2).Draw(rt, "noisy") == 0 {
			st.Before = rapid.SliceOfN(rapid.SampledFrom(noise), 1, 2).Draw(rt, "before")
		}
		lo, hi := 1, 1
		if rapid.IntRange(0, 2).Draw(rt, "batch") == 0 {
			st.Ex.Batch, lo, hi = true, 1, 4
		}
		fillExchange(rt, &st.Ex, w, lo, hi, cast)
		if sc.Listener && (i == 0 || len(st.Wallet) > 0) {
			// eth_accounts is asked before the first change and after every change; after a
			// new signing account arrived it is, three times in four, asked to sign at once
			var extra []Member
			hasAccounts := false
			for _, m := range st.Ex.Members {
				hasAccounts = hasAccounts || m.Kind == "accounts"
			}
			if !hasAccounts {
				extra = append(extra, accountsMember(fmt.Sprintf("acc%d", i)))
			}
			for j, a := range st.Wallet {
				label := fmt.Sprintf("newkey%d.%d", i, j)
				if a.Kind != "key" || rapid.IntRange(0, 3).Draw(rt, label+".use") == 0 {
					continue
				}
				from := spellAddr(rt, label, proc.ExtraKey(a.N).Address)
				extra = append(extra, genSendTxFrom(rt, label, w, from))
			}
			if i == 0 {
				// and half of the accounts that will arrive later are asked to sign now, as strangers
				for sj := range adds {
					for j, a := range adds[sj] {
						label := fmt.Sprintf("early%d.%d", sj, j)
						if a.Kind != "key" || rapid.Bool().Draw(rt, label+".skip") {
							continue
						}
						from := spellAddr(rt, label, proc.ExtraKey(a.N).Address)
						extra = append(extra, genSendTxFrom(rt, label, w, from))
					}
				}
			}
			if len(extra) > 0 {
				st.Ex.Batch = true
				for _, m := range extra {
					pos := rapid.IntRange(0, len(st.Ex.Members)).Draw(rt, "extrapos")
					st.Ex.Members = append(st.Ex.Members[:pos], append([]Member{m}, st.Ex.Members[pos:]...)...)
				}
				fillNonces(rt, &st.Ex, w)
			}
		}
		sc.Steps[i] = st
	}
	return sc
}

// sessionClasses labels a session and evaluates the non-trivial rule on it: some `from`
// is asked for in at least two different exchanges, an exchange follows an unjudged body,
// or the wallet directory gains a file while the process runs.
func sessionClasses(sc SessionCase, keys []proc.WalletKey) (bool, []string) {
	cl := map[string]bool{}
	seenIn := map[string]map[int]bool{}
	noisy, grows := false, false
	accountsAt := []int{}
	firstAdd := -1
	addedKeyAt := map[string]int{}
	for si, st := range sc.Steps {
		w, err := sc.viewAt(keys, si)
		if err != nil {
			return false, []string{"session:malformed"}
		}
		if len(st.Before) > 0 {
			noisy = true
		}
		for _, a := range st.Wallet {
			grows = true
			if firstAdd < 0 {
				firstAdd = si
			}
			cl["session:wallet-gains:"+a.Kind] = true
			if a.InPlace {
				cl["session:wallet-file-written-in-place"] = true
			} else {
				cl["session:wallet-file-renamed-into-place"] = true
			}
			if a.Kind == "key" {
				if _, seen := addedKeyAt[proc.ExtraKey(a.N).AddrHex]; !seen {
					addedKeyAt[proc.ExtraKey(a.N).AddrHex] = si
				}
				if a.KeyFirst {
					cl["session:wallet-gains:key-file-before-password-file"] = true
				} else {
					cl["session:wallet-gains:password-file-before-key-file"] = true
				}
			}
		}
		for _, x := range classesOf(st.Ex, w) {
			if strings.HasPrefix(x, "sendtx:from-") || strings.HasPrefix(x, "member:") {
				cl[x] = true
			}
		}
		for _, m := range st.Ex.Members {
			if m.Kind == "accounts" {
				accountsAt = append(accountsAt, si)
			}
			if m.Kind != "sendtx" {
				continue
			}
			cls, addr := classifyFrom(m.Tx.From, w)
			if cls != fromKnown && cls != fromUnusable && cls != fromUnknown {
				continue
			}
			key := hex.EncodeToString(addr[:])
			if at, ok := addedKeyAt[key]; ok && si >= at {
				cl["session:signing-request-for-an-account-added-while-running"] = true
			}
			if seenIn[key] == nil {
				seenIn[key] = map[int]bool{}
			}
			seenIn[key][si] = true
			if len(seenIn[key]) >= 2 {
				name := map[fromClass]string{fromKnown: "signing-account", fromUnknown: "unknown-address", fromUnusable: "unusable-wallet-entry"}[cls]
				if d := w.decoyOf(addr); d != nil {
					name += "(" + d.Kind + ")"
				}
				cl["session:same-from-in-several-exchanges:"+name] = true
			}
		}
	}
	// an address that was refused as a stranger and is asked again after its key file arrived
	for key, at := range addedKeyAt {
		before, after := false, false
		for si := range seenIn[key] {
			before = before || si < at
			after = after || si >= at
		}
		if before && after {
			cl["session:from-asked-before-and-after-its-key-file-arrived"] = true
		}
	}
	if firstAdd >= 0 {
		before, after := false, false
		for _, si := range accountsAt {
			before = before || si < firstAdd
			after = after || si >= firstAdd
		}
		if before && after {
			cl["session:eth_accounts-before-and-after-the-wallet-changed"] = true
		}
	}
	if sc.Listener {
		cl["session:process-listens-to-wallet-directory"] = true
	} else {
		cl["session:fixed-wallet"] = true
	}
	if noisy {
		cl["session:exchange-after-unjudged-body"] = true
	}
	nt := false
	out := []string{fmt.Sprintf("session:exchanges=%d", len(sc.Steps))}
	for k := range cl {
		if strings.HasPrefix(k, "session:same-from") {
			nt = true
		}
		out = append(out, k)
	}
	sort.Strings(out)
	return nt || noisy || grows, out
}

// classesOf labels a case for the evidence histogram (computed from the case, not from the draws).
func classesOf(c ExchangeCase, w walletView) []string {
	cl := map[string]bool{}
	switch n := len(c.Members); {
	case !c.Batch:
		cl["shape:single"] = true
	case n == 1:
		cl["shape:batch-of-1"] = true
	case n <= 5:
		cl["shape:batch-2..5"] = true
	case n <= 20:
		cl["shape:batch-6..20"] = true
	default:
		cl["shape:batch-21..64"] = true
	}
	ids := map[string]bool{}
	fromSeen := map[string]int{}
	for _, m := range c.Members {
		id := string(m.ID)
		if ids[id] {
			cl["id:duplicate-in-batch"] = true
		}
		ids[id] = true
		switch {
		case strings.HasPrefix(id, `"`):
			cl["id:string"] = true
			if strings.Contains(id, `\"`) || strings.Contains(id, `\u0022`) {
				cl["id:string-with-escaped-quote"] = true
			}
			if strings.Contains(id, `\\`) {
				cl["id:string-with-backslash"] = true
			}
			if strings.Contains(id, `\u`) {
				cl["id:string-with-\\u-escape"] = true
			}
		case strings.ContainsAny(id, ".eE"):
			cl["id:fraction-or-exponent"] = true
		case strings.HasPrefix(id, "-"):
			cl["id:negative"] = true
		case len(id) > 15:
			cl["id:big-int"] = true
		default:
			cl["id:small-int"] = true
		}
		switch m.Kind {
		case "accounts":
			cl["member:eth_accounts"] = true
			continue
		case "pass":
			cl["member:pass-through"] = true
			switch m.ParamsForm {
			case "absent":
				cl["pass:params-absent"] = true
			case "empty":
				cl["pass:params-empty"] = true
			default:
				cl["pass:params-array"] = true
			}
		case "sendtx":
			cl["member:eth_sendTransaction"] = true
			tx := m.Tx
			cls, faddr := classifyFrom(tx.From, w)
			cl["sendtx:from-"+map[fromClass]string{fromAbsent: "absent", fromMalformed: "malformed", fromUnknown: "unknown", fromKnown: "known", fromUnusable: "unusable"}[cls]] = true
			if d := w.decoyOf(faddr); cls == fromUnusable && d != nil {
				cl["sendtx:from-unusable:"+d.Kind] = true
			}
			fromSeen[hex.EncodeToString(faddr[:])]++
			if cls >= fromUnknown && fromSeen[hex.EncodeToString(faddr[:])] == 2 {
				cl["sendtx:same-from-twice-in-one-batch"] = true
			}
			if len(tx.Nonce) > 0 {
				cl["sendtx:nonce-supplied"] = true
			} else {
				cl["sendtx:nonce-absent"] = true
			}
			switch {
			case len(tx.MaxFee) > 0 || len(tx.MaxPriority) > 0:
				cl["sendtx:eip1559-fees"] = true
			case len(tx.GasPrice) > 0:
				cl["sendtx:legacy-gasPrice"] = true
			default:
				cl["sendtx:no-fee-fields"] = true
			}
			if !tx.ToIsToken && tx.To == "" {
				cl["sendtx:contract-creation"] = true
			}
			switch {
			case tx.DataAbsent:
				cl["sendtx:data-absent"] = true
			case tx.DataLen >= 65535:
				cl["sendtx:data>=64KiB-1"] = true
			case tx.DataLen >= 1023:
				cl["sendtx:data>=1KiB"] = true
			}
		}
		switch m.Reply.Kind {
		case "result":
			cl["reply:result"] = true
		case "rpcerror":
			if m.Reply.Status == 0 {
				cl["reply:rpcerror-http200"] = true
			} else {
				cl["reply:rpcerror-http4xx5xx"] = true
			}
		case "httperror":
			cl["reply:httperror-"+m.Reply.BodyKind] = true
		case "close":
			cl["reply:connection-close"] = true
		}
	}
	out := make([]string, 0, len(cl))
	for k := range cl {
		out = append(out, k)
	}
	sort.Strings(out)
	return out
}

// nonTrivial evaluates the stated rule on a case, and adds outcome classes.
func nonTrivial(c ExchangeCase, w walletView) (bool, []string) {
	plans, err := c.plans(w)
	if err != nil {
		return false, nil
	}
	var cl []string
	failing, signing := false, false
	var heldRanks []int
	for i, m := range c.Members {
		if plans[i].submit {
			heldRanks = append(heldRanks, m.Rank)
		}
		switch m.Kind {
		case "sendtx":
			signing = true
			if !plans[i].submit {
				failing = true
				if plans[i].lookupFails {
					cl = append(cl, "outcome:nonce-lookup-fails")
				} else {
					cl = append(cl, "outcome:not-submitted")
				}
			} else {
				cl = append(cl, "outcome:signed-and-submitted")
				if len(m.Tx.Nonce) == 0 {
					cl = append(cl, "outcome:nonce-from-backend")
				}
				if m.Reply.Kind != "result" {
					failing = true
				}
			}
		case "pass":
			if m.Reply.Kind != "result" {
				failing = true
			}
		}
	}
	nonFIFO := !sort.IntsAreSorted(heldRanks)
	if nonFIFO {
		cl = append(cl, "release:non-fifo")
	}
	discovered := c.Chain.Configured == nil
	if discovered {
		cl = append(cl, "chain:discovered:"+strings.Trim(c.Chain.NetVersion, `"`))
	} else {
		cl = append(cl, "chain:configured:"+*c.Chain.Configured)
	}
	if c.Batch && len(c.Members) >= 2 && failing {
		cl = append(cl, "batch-with-failure")
	}
	seen := map[string]bool{}
	var uniq []string
	for _, x := range cl {
		if !seen[x] {
			seen[x] = true
			uniq = append(uniq, x)
		}
	}
	return (c.Batch && len(c.Members) >= 2 && (failing || signing)) || nonFIFO || discovered, uniq
}

// ---------------------------------------------------------------------------
// entry points

func setup(t *testing.T) {
	if _, err := proc.BinaryPath(); err != nil {
		t.Fatalf("infrastructure: %v", err)
	}
	pool = proc.NewPool(t.TempDir())
	t.Cleanup(func() {
		pool.Close()
		pool = nil
	})
}

func TestCheck(t *testing.T) {
	rec = evid.Start("C09", rule)
	defer rec.Finish()
	setup(t)
	rec.Assume("real ffsigner binary built from the tree under test; wallet of 3 keys in cheap-KDF Keystore-V3 files plus 5 entries that are listed (a file is named for the address) but must never sign: another wallet account's key file stored under the address's name, a foreign key under it, a file that is no key file, a wrong password file, no password file; scripted HTTP JSON-RPC backend inside the harness")
	rec.Assume("histories: exchanges share long-lived processes (what an earlier case left behind must not matter), and the kind session runs 2..6 exchanges that keep naming the same from values against a process started for the case alone; every exchange is judged by the same history-free oracle; bodies posted between the exchanges of a session (unprocessable ones included) are not judged here")
	rec.Assume("changing wallets: two sessions in five run against a process whose file-system listener is ON (fresh, short-lived processes only - one inotify instance each -, stopped before the next starts) and put 1..3 files into its wallet directory between exchanges: key file + password file of a new signing account, a file named for an address that cannot sign for it (the five decoy kinds), a file the naming rule does not match; renamed into place or written in place, key file or password file first, always complete before the next request is sent. After each change the harness polls (bound 30 s; the listener is asynchronous, so 'not yet' is no violation before the bound; once the process has signed with a new key eth_accounts has 5 s left, and once it lists the new addresses signing has 5 s left) until eth_accounts lists exactly start-up content + additions and eth_sendTransaction from every new signing account is signed by it; an address that never was in the wallet is a violation at once. eth_accounts is asked before the first change and after every change; the exchanges that follow are judged by the same oracle against the enlarged wallet, and addresses about to be added are asked for beforehand as well (strangers: refused, nothing submitted)")
	rec.Assume("not asserted for changing wallets: removal or replacement of key files, directories named like key files, the order of the eth_accounts list, how fast the listener is (only the 30 s liveness bound)")
	rec.Assume("oracle: ref/rlpref strict decode + ref/secp recovery over the EIP-155 / EIP-1559 preimage; ref/jsonrpc response validation and number-preserving comparison")
	rec.Assume("not asserted: HTTP status codes; backend bodies that are not JSON-RPC objects with HTTP 200 (bare null etc.); backend error objects with code 0; the count and block tag of auxiliary eth_getTransactionCount calls (only the signed nonce is judged); personal_accounts")
	rec.Assume("concurrent signing: besides the mixed batches, 30 (thorough: 200 per shard) batches of 24..48 members are nearly all signing requests for the wallet's accounts with 2..16 KiB of data, so that many signatures are computed at the same moment; which interleavings occur is up to the scheduler (sampled, not enumerated)")
	rec.Assume("completion orders of concurrent batch members are sampled through the backend's release barrier (generated permutation), not enumerated; a barrier time-out changes no verdict")
	kEx := evid.NewKind(rec, "exchange", judgeExchange)
	kSess := evid.NewKind(rec, "session", judgeSession)
	rec.Corpus(t)
	keys := proc.Keys(3)
	rec.Rapid(t, "session", rec.N(60, 400), func(rt *rapid.T) {
		sc := genSession(rt, keys)
		nt, cl := sessionClasses(sc, keys)
		kSess.Check(rt, sc, nt, cl...)
	})
	rec.Rapid(t, "exchange", rec.N(600, 3000), func(rt *rapid.T) {
		c := genExchange(rt, baseView(keys), rec.Thorough())
		nt, more := nonTrivial(c, baseView(keys))
		kEx.Check(rt, c, nt, append(classesOf(c, baseView(keys)), more...)...)
	})
	// many signatures under way at once (same judge, same kind)
	rec.Rapid(t, "storm", rec.N(30, 200), func(rt *rapid.T) {
		c := genStorm(rt, baseView(keys))
		nt, more := nonTrivial(c, baseView(keys))
		kEx.Check(rt, c, nt, append(append(classesOf(c, baseView(keys)), more...), "shape:signing-storm(24..48 members, 2..16 KiB each)")...)
	})
	if pool != nil {
		rec.Extra("processes_started", pool.Stats.Started)
		rec.Extra("processes_crashed", pool.Stats.Crashed)
	}
}

func TestReplay(t *testing.T) {
	rec = evid.Start("C09", rule)
	setup(t)
	evid.NewKind(rec, "exchange", judgeExchange)
	evid.NewKind(rec, "session", judgeSession)
	rec.Replay(t)
}
