package c08

// Stateful generator: rapid's Repeat drives a small state machine that knows the
// directory built so far (through the same reference model the judge uses, without a
// disk) and appends actions to the case.  The finished case is judged once.

import (
	"encoding/hex"
	"flag"
	"fmt"
	"strconv"
	"strings"

	"pgregory.net/rapid"

	"verifharness/ref/secp"
)

var pool []string

func init() {
	for i := 0; i < 10; i++ {
		pool = append(pool, hex.EncodeToString(secp.Keccak256([]byte(fmt.Sprintf("c08 pool key %d", i)))))
	}
	// addresses of unusual shape (file names are derived from the address text by prefix/suffix
	// trimming, so leading '0' digits, a leading "00" and a trailing '0' matter): found by search
	want := map[string]int{"lead0": 3, "lead00": 1, "trail0": 2}
	for i := 0; len(want) > 0 && i < 20000; i++ {
		k := secp.Keccak256([]byte(fmt.Sprintf("c08 shaped key %d", i)))
		a := addrOfKey(hex.EncodeToString(k))
		a = strings.TrimPrefix(a, "0x")
		var hit string
		switch {
		case strings.HasPrefix(a, "00") && want["lead00"] > 0:
			hit = "lead00"
		case strings.HasPrefix(a, "0") && !strings.HasPrefix(a, "00") && want["lead0"] > 0:
			hit = "lead0"
		case strings.HasSuffix(a, "0") && want["trail0"] > 0:
			hit = "trail0"
		}
		if hit != "" {
			pool = append(pool, hex.EncodeToString(k))
			if want[hit]--; want[hit] == 0 {
				delete(want, hit)
			}
		}
	}
}

func setSteps(n int) { _ = flag.Set("rapid.steps", strconv.Itoa(n)) }

const maxActs = 16

var allExts = []string{".key.json", ".json", ".toml", ".yaml", ".yml", ".key", ".tml"}

// unif draws an (almost exactly) uniform integer in [0,n). rapid's own integer
// generators are deliberately biased towards small values, which would skew every
// percentage below; fair bits are not biased.
func unif(rt *rapid.T, n int, label string) int {
	x := 0
	for _, b := range rapid.SliceOfN(rapid.Bool(), 12, 12).Draw(rt, label) {
		x <<= 1
		if b {
			x |= 1
		}
	}
	return x * n >> 12
}

func pct(rt *rapid.T, p int, label string) bool { return unif(rt, 100, label) < p }

func pick(rt *rapid.T, label string, from []string) string { return from[unif(rt, len(from), label)] }

func weighted(rt *rapid.T, label string, pairs ...interface{}) string {
	total := 0
	for i := 1; i < len(pairs); i += 2 {
		total += pairs[i].(int)
	}
	x := unif(rt, total, label)
	for i := 0; i < len(pairs); i += 2 {
		x -= pairs[i+1].(int)
		if x < 0 {
			return pairs[i].(string)
		}
	}
	return pairs[0].(string)
}

func genCfg(rt *rapid.T) Cfg {
	c := Cfg{}
	c.Naming = weighted(rt, "naming", "ext", 5, "re-anchored", 2, "re-unanchored", 2, "re-geth", 1)
	primary := weighted(rt, "primaryKind", "direct", 5, fmtTOML, 2, fmtYAML, 2, fmtJSON, 2)
	auto := pct(rt, 35, "autoFormat")
	if c.Naming == "re-geth" {
		auto = false // geth-style names carry no extension: "auto (from extension)" is not asserted there
	}
	switch primary {
	case "direct":
		if auto {
			c.Format = "auto"
			c.Ext = pick(rt, "ext", []string{".key.json", ".key", ".keystore"})
		} else {
			c.Format = pick(rt, "format", []string{"none", "", "filename"})
			c.Ext = pick(rt, "ext", allExts)
		}
	default:
		if auto {
			c.Format = "auto"
			c.Ext = rapid.SampledFrom(map[string][]string{fmtTOML: {".toml", ".tml"}, fmtYAML: {".yaml", ".yml"}, fmtJSON: {".json"}}[primary]).Draw(rt, "ext")
		} else {
			c.Format = primary
			c.Ext = pick(rt, "ext", allExts)
		}
	}
	switch c.Naming {
	case "re-anchored":
		c.RePrefix = pick(rt, "rePrefix", []string{"", "key-", "ks_"})
		c.ReSuffix = c.Ext
		if !auto && pct(rt, 20, "noSuffix") {
			c.ReSuffix = ""
		}
	case "re-unanchored":
		c.ReSuffix = c.Ext
	}
	c.With0x = pct(rt, 40, "with0x")
	c.Style = pick(rt, "style", []string{"flat", "nested"})
	if primary != "direct" {
		c.NoKeyProp = pct(rt, 3, "noKeyProp")
		c.NoPwProp = pct(rt, 10, "noPwProp")
	}
	c.PwDir = pct(rt, 35, "pwDir")
	c.PwExt = pick(rt, "pwExt", []string{".pwd", ".password", ".pw.txt"})
	if c.PwDir && pct(rt, 8, "emptyPwExt") {
		c.PwExt = ""
	}
	c.Trim = rapid.Bool().Draw(rt, "trim")
	c.Default = pct(rt, 60, "default")
	c.Listener = pct(rt, 35, "listener")
	c.Cache = rapid.IntRange(1, 10).Draw(rt, "cache")
	c.ViaSection = pct(rt, 40, "viaSection")
	return c
}

type slot struct {
	key     int    // index into Case.Keys
	addr    string // address owned by that key
	pre     string // literal before the address in this slot's canonical file name
	post    string // literal after it
	kind    string
	keyPath string // metadata formats: where this slot's key file lives
	pwPath  string // where this slot's per-key password file lives
}

func (s *slot) name() string { return s.pre + s.addr + s.post }

type gstate struct {
	c        *Case // configuration, keys and initial layout of THIS wallet
	w        int   // 0 = the first wallet, 1 = the twin
	acts     *[]Action
	m        *model
	slots    []*slot
	dflt     string
	near     map[string]bool
	phantoms []string
	lastReq  []string
	via      string // how the files of the mutation being emitted reach their names
}

// add appends an action for this wallet to the (shared, interleaved) action sequence.
func (g *gstate) add(a Action) {
	a.W = g.w
	*g.acts = append(*g.acts, a)
}

func (g *gstate) full() bool { return len(*g.acts) >= maxActs }

func (g *gstate) exists(p string) bool { return g.m.vfs[p] != nil }
func (g *gstate) isRegular(p string) bool {
	f := g.m.vfs[p]
	return f != nil && !f.Dir && f.Link == ""
}

// emit adds files to the initial layout (acts == false) or as write actions.
func (g *gstate) emit(files []File, acts bool) {
	for _, f := range files {
		if err := g.m.write(f, false); err != nil {
			continue // outside the modelled behaviour: not generated
		}
		if name := strings.TrimPrefix(f.Path, "w/"); name != f.Path && !strings.Contains(name, "/") {
			if v, a := matchName(g.c.Cfg, name); v != vNo {
				known := false
				for _, s := range g.slots {
					known = known || s.addr == a
				}
				if !known {
					g.phantoms = append(g.phantoms, a)
				}
			}
		}
		if acts {
			ff := f
			if !ff.Dir && ff.Link == "" {
				ff.Via = g.via
			}
			g.add(Action{Op: "write", File: &ff})
		} else {
			g.c.Files = append(g.c.Files, f)
		}
	}
}

func (g *gstate) canonicalParts(rt *rapid.T, addr string) (pre, post string) {
	cfg := g.c.Cfg
	switch cfg.Naming {
	case "ext":
		if cfg.With0x {
			pre = "0x"
		}
		return pre, cfg.Ext
	case "re-anchored":
		pre = cfg.RePrefix
		if pct(rt, 30, "name0x") {
			pre += "0x"
		}
		return pre, cfg.ReSuffix
	case "re-unanchored":
		return pick(rt, "junk", []string{"", "", "k-", "0x", "UTC--z--"}), cfg.ReSuffix
	default:
		return "UTC--2024-05-0" + strconv.Itoa(rapid.IntRange(1, 9).Draw(rt, "day")) + "T10-00-00.000Z--", ""
	}
}

func nearMissName(rt *rapid.T, pre, addr, post string) string {
	flip := pre + "0x"
	if strings.HasSuffix(pre, "0x") {
		flip = strings.TrimSuffix(pre, "0x")
	}
	switch weighted(rt, "nearMiss", "noext", 4, "39", 2, "41a", 2, "41b", 1, "extra", 2, "double", 1, "middle", 3, "wrongext", 1,
		"flip0x", 2, "upper", 1, "nonhex", 1, "prefixed", 1, "space", 1, "nodot", 1, "0X", 1) {
	case "noext":
		return pre + addr
	case "39":
		return pre + addr[:39] + post
	case "41a":
		return pre + addr + "a" + post
	case "41b":
		return pre + "0" + addr + post
	case "extra":
		return pre + addr + post + ".bak"
	case "double":
		return pre + addr + post + post
	case "middle":
		return pre + addr[:20] + post + addr[20:]
	case "wrongext":
		return pre + addr + ".txt"
	case "flip0x":
		return flip + addr + post
	case "upper":
		return pre + strings.ToUpper(addr) + post
	case "nonhex":
		return pre + addr[:39] + "g" + post
	case "prefixed":
		return "x" + pre + addr + post
	case "space":
		return pre + addr + post + " "
	case "nodot":
		return pre + addr + strings.TrimPrefix(post, ".")
	default:
		return strings.ToUpper(flip) + addr + post
	}
}

// contents of a per-key password file that is present but holds no visible character
var blankContents = []string{"", "", "\n", "\n", " ", "\r\n", "\t \n", "   ", "\n\n"}

var garbage = []string{"", "{}", "not a key file", `{"version":3}`, `{"id":"6c3a26f2-1b40-4b0a-9d4b-6a2d3a4c1c11","version":3,"crypto":{"kdf":"scrypt"}}`, "= = =", "[", "\x00\x01\x02"}

// pwPlan picks how the password for a key file is provided. It returns the mode, the
// content of the per-key password file (if any) and the password to encrypt with.
func (g *gstate) pwPlan(rt *rapid.T, meta bool, pwPath string) (mode, content, password string) {
	cfg := g.c.Cfg
	base := pick(rt, "pwBase", []string{"s3cret", "pass word", "p@ss/w0rd!", "correct horse battery", "päss", "x"}) +
		"-" + strconv.Itoa(rapid.IntRange(0, 3).Draw(rt, "pwN"))
	noprop := 0
	if meta {
		noprop = 8
	}
	mode = weighted(rt, "pwMode", "perkey", 32, "padded", 20, "blank", 12, "absent", 12, "dangling", 8, "dir", 6, "wrong", 8, "noprop", noprop)
	if (mode == "absent" || mode == "dir") && g.exists(pwPath) {
		mode = "perkey" // something is already at that path: overwrite it rather than pretend it is absent
	}
	if mode == "dir" && g.isRegular(pwPath) {
		mode = "perkey"
	}
	switch mode {
	case "perkey":
		return mode, base, base
	case "blank":
		// The per-key password file is PRESENT but empty or white space only.  Documented
		// reading (config.md: passwordTrimSpace "trim leading/trailing whitespace (such as a
		// newline) from the password when loaded from file"; defaultPasswordFile is used "if one
		// is not specified individually for the key"): with trimming the password is the EMPTY
		// password, without trimming it is the file content byte for byte (a file holding "\n"
		// is the password "\n") - in neither case is the default password file consulted.
		content = pick(rt, "blankContent", blankContents)
		usable, other := content, strings.TrimSpace(content)
		if cfg.Trim {
			usable, other = other, content
		}
		if usable == other {
			other = g.dflt // the tempting wrong answer: the default password
		}
		if pct(rt, 15, "blankWrongWay") {
			return mode, content, other
		}
		return mode, content, usable
	case "padded":
		pre := pick(rt, "padPre", []string{"", "", " ", "\t"})
		post := pick(rt, "padPost", []string{"\n", "\n", "\r\n", " \n", "  "})
		content = pre + base + post
		usable, other := content, base
		if cfg.Trim {
			usable, other = base, content
		}
		if pct(rt, 15, "padWrongWay") {
			return mode, content, other
		}
		return mode, content, usable
	case "wrong":
		return mode, "not-" + base, base
	default:
		if cfg.Default && pct(rt, 85, "useDefault") {
			return mode, "", g.dflt
		}
		return mode, "", base
	}
}

// slotFiles renders the files for one address under the given kind: support files
// first, the primary file last.
func (g *gstate) slotFiles(rt *rapid.T, s *slot, kind string) []File {
	cfg := g.c.Cfg
	f := cfg.effFormat()
	var out []File
	if kind == "absent" {
		return nil
	}
	name := s.name()
	if kind == "nearmiss" {
		name = nearMissName(rt, s.pre, s.addr, s.post)
		if v, _ := matchName(cfg, name); v == vNo {
			g.near[name] = true
		}
	}
	primary := "w/" + name
	if kind == "subdir" {
		if g.isRegular(primary) {
			return nil
		}
		out = append(out, File{Path: primary, Dir: true})
		if pct(rt, 50, "subdirChild") {
			out = append(out, File{Path: primary + "/" + name, V3: &V3Spec{Key: s.key, Pw: "x", KDF: kdfSc}})
		}
		return out
	}
	if g.exists(primary) && g.m.vfs[primary].Dir && kind == "nearmiss" {
		return nil
	}
	if f == fmtNone {
		s.pwPath = cfg.pwPathFor(s.addr)
	} else if s.pwPath == "" {
		s.pwPath = pick(rt, "metaPwPath", []string{"k/" + s.addr + ".pw", "p/" + s.addr + ".txt", "w/" + s.addr + ".secret"})
		s.keyPath = pick(rt, "metaKeyPath", []string{"k/" + s.addr + ".json", "w/" + s.addr + ".keyfile"})
	}
	keyIdx := s.key
	var other *slot
	if kind == "wrongkey" {
		cands := []int{}
		for i := range g.c.Keys {
			if i != s.key {
				cands = append(cands, i)
			}
		}
		keyIdx = rapid.SampledFrom(cands).Draw(rt, "otherKey")
		for _, o := range g.slots {
			if o.key == keyIdx {
				other = o
			}
		}
	}
	// metadata pointing straight at another slot's genuine key + password files
	if kind == "wrongkey" && f != fmtNone && other != nil && g.isRegular(other.keyPath) && pct(rt, 50, "pointAtOther") {
		return append(out, File{Path: primary, Meta: &MetaSpec{Fmt: f, Key: other.keyPath, Pw: other.pwPath}})
	}
	mode, content, password := g.pwPlan(rt, f != fmtNone, s.pwPath)
	switch mode {
	case "perkey", "padded", "wrong", "blank":
		c := content
		out = append(out, File{Path: s.pwPath, Text: &c})
	case "dangling":
		out = append(out, File{Path: s.pwPath, Link: "nowhere/" + s.addr})
	case "dir":
		out = append(out, File{Path: s.pwPath, Dir: true})
	}
	kdf := kdfSc
	if kind == "pbkdf2" || pct(rt, 10, "pbkdf2Too") {
		kdf = kdfPb
	}
	v3 := &V3Spec{Key: keyIdx, Pw: password, KDF: kdf}
	if keyIdx != s.key && pct(rt, 50, "lyingAddressField") {
		v3.Claim = s.addr
	}
	if f == fmtNone {
		if kind == "garbage" {
			t := pick(rt, "garbage", garbage)
			return append(out, File{Path: primary, Text: &t})
		}
		return append(out, File{Path: primary, V3: v3})
	}
	meta := &MetaSpec{Fmt: f, Key: s.keyPath, Pw: s.pwPath}
	if mode == "noprop" {
		meta.Pw = ""
	}
	if kind == "garbage" {
		t := pick(rt, "garbage", garbage)
		switch weighted(rt, "garbageWhere", "primary", 3, "keyfile", 3, "nokeyprop", 1, "altstyle", 1, "otherfmt", 1) {
		case "primary":
			return append(out, File{Path: s.keyPath, V3: v3}, File{Path: primary, Text: &t})
		case "keyfile":
			return append(out, File{Path: s.keyPath, Text: &t}, File{Path: primary, Meta: meta})
		case "nokeyprop":
			meta.Key = ""
		case "altstyle":
			meta.Alt = true
		default:
			meta.Fmt = map[string]string{fmtTOML: fmtJSON, fmtJSON: fmtTOML, fmtYAML: fmtTOML}[f]
		}
	}
	return append(out, File{Path: s.keyPath, V3: v3}, File{Path: primary, Meta: meta})
}

func genTx(rt *rapid.T) *TxSpec {
	small := func(l string) string {
		return strconv.FormatUint(rapid.SampledFrom([]uint64{0, 1, 127, 128, 21000, 1 << 32, 1<<63 - 1}).Draw(rt, l), 10)
	}
	t := &TxSpec{Nonce: small("nonce"), Gas: small("gas"), Value: small("value"), GasPrice: "0", MaxPrio: "0", MaxFee: "0"}
	t.ChainID = rapid.SampledFrom([]int64{1, 1, 5, 127, 128, 1337, 2022, 1 << 31, 1<<40 + 1}).Draw(rt, "chainId")
	if pct(rt, 40, "eip1559") {
		t.MaxFee = strconv.Itoa(rapid.IntRange(1, 1000).Draw(rt, "maxFee"))
		t.MaxPrio = strconv.Itoa(rapid.IntRange(0, 1000).Draw(rt, "maxPrio"))
	} else {
		t.GasPrice = strconv.Itoa(rapid.IntRange(0, 1000).Draw(rt, "gasPrice"))
	}
	if pct(rt, 70, "hasTo") {
		t.To = hex.EncodeToString(rapid.SliceOfN(rapid.Byte(), 20, 20).Draw(rt, "to"))
	}
	t.Data = hex.EncodeToString(rapid.SliceOfN(rapid.Byte(), 0, 6).Draw(rt, "data"))
	return t
}

func (g *gstate) target(rt *rapid.T) string {
	switch weighted(rt, "target", "slot", 78, "again", 12, "phantom", 7, "random", 3) {
	case "again":
		if len(g.lastReq) > 0 {
			return rapid.SampledFrom(g.lastReq).Draw(rt, "again")
		}
	case "phantom":
		if len(g.phantoms) > 0 {
			return rapid.SampledFrom(g.phantoms).Draw(rt, "phantom")
		}
	case "random":
		return hex.EncodeToString(rapid.SliceOfN(rapid.Byte(), 20, 20).Draw(rt, "randomAddr"))
	}
	return g.slots[unif(rt, len(g.slots), "slot")].addr
}

func (g *gstate) request(rt *rapid.T) {
	if g.full() {
		return
	}
	g.requestFor(rt, g.target(rt))
}

func (g *gstate) requestFor(rt *rapid.T, addr string) {
	a := Action{Addr: addr}
	switch weighted(rt, "reqOp", "sign", 5, "typed", 2, "walletfile", 3) {
	case "sign":
		a.Op = "sign"
		a.From = weighted(rt, "fromStyle", "0x", 6, "plain", 2, "upper", 2)
		a.Tx = genTx(rt)
	case "typed":
		a.Op = "typed"
		a.Typed = rapid.IntRange(0, 8).Draw(rt, "typed")
	default:
		a.Op = "walletfile"
	}
	g.add(a)
	g.lastReq = append(g.lastReq, addr)
}

func (g *gstate) mutate(rt *rapid.T) {
	if g.full() {
		return
	}
	g.via = weighted(rt, "via", "", 6, "rename", 4)
	cfg := g.c.Cfg
	dw := 0
	if cfg.Default {
		dw = 2
	}
	switch weighted(rt, "mutation", "rebuild", 8, "default", dw, "extra", 3, "password", 3) {
	case "rebuild":
		s := g.slots[unif(rt, len(g.slots), "slot")]
		var fresh []*slot // addresses that have no primary file yet: adding one is the "add a file" action
		for _, o := range g.slots {
			if !g.isRegular("w/" + o.name()) {
				fresh = append(fresh, o)
			}
		}
		if len(fresh) > 0 && pct(rt, 55, "preferNewFile") {
			s = fresh[unif(rt, len(fresh), "freshSlot")]
		}
		var kind string
		noticed := 4
		if g.isRegular("w/" + s.name()) {
			kind = weighted(rt, "newKind", "correct", 5, "wrongkey", 4, "garbage", 2, "pbkdf2", 1)
		} else {
			kind = weighted(rt, "newKind", "correct", 7, "wrongkey", 4, "garbage", 1, "pbkdf2", 1, "nearmiss", 2, "subdir", 1)
			noticed = 10
		}
		g.emit(g.slotFiles(rt, s, kind), true)
		s.kind = kind
		// follow up on the changed slot: through the listener (wait, then ask) or a refresh, or
		// straight away (stale list / cached key)
		switch weighted(rt, "followUp", "none", 3, "noticed", noticed, "direct", 2) {
		case "noticed":
			if cfg.Listener && pct(rt, 70, "viaListener") {
				g.add(Action{Op: "settle"})
			} else {
				g.add(Action{Op: "refresh"})
			}
			g.requestFor(rt, s.addr)
		case "direct":
			g.requestFor(rt, s.addr)
		}
	case "default":
		d := g.dflt
		if pct(rt, 50, "changeDefault") {
			d = pick(rt, "otherDefault", []string{"other-default", "other-default", "", "\n"})
		}
		g.emit([]File{{Path: "default.pw", Text: &d}}, true)
	case "extra":
		s := g.slots[unif(rt, len(g.slots), "slot")]
		g.emit(g.extraFile(rt, s), true)
	default:
		s := g.slots[unif(rt, len(g.slots), "slot")]
		if s.pwPath == "" || (g.exists(s.pwPath) && g.m.vfs[s.pwPath].Dir) {
			return
		}
		t := pick(rt, "newPw", []string{"changed", "s3cret-0", "pass word-1\n", g.dflt, "", "\n", " \t"})
		g.emit([]File{{Path: s.pwPath, Text: &t}}, true)
	}
}

// extraFile is an unrelated or near-miss file next to the others (with usable content,
// so that a wallet that wrongly picks it up could even sign with it).
func (g *gstate) extraFile(rt *rapid.T, s *slot) []File {
	var name string
	if pct(rt, 25, "unrelated") {
		name = pick(rt, "unrelatedName", []string{"README.md", ".DS_Store", "notes.txt", "keystore", s.addr[:8] + ".key.json"})
	} else if pct(rt, 20, "bareAddrExt") {
		// the bare address plus the configured primary extension: an account under the extension rule,
		// but NOT when a regex is configured as well (the regex takes precedence) and does not match it
		bare := strings.TrimPrefix(s.addr, "0x")
		if pct(rt, 30, "bare0x") {
			bare = "0x" + bare
		}
		name = bare + g.c.Cfg.Ext
	} else {
		name = nearMissName(rt, s.pre, s.addr, s.post)
	}
	p := "w/" + name
	if g.exists(p) {
		return nil
	}
	if v, _ := matchName(g.c.Cfg, name); v == vNo {
		g.near[name] = true
	}
	if g.c.Cfg.effFormat() != fmtNone && g.isRegular(s.keyPath) {
		return []File{{Path: p, Meta: &MetaSpec{Fmt: g.c.Cfg.effFormat(), Key: s.keyPath, Pw: s.pwPath}}}
	}
	pw := "x"
	if c, ok := g.m.content(g.c.Cfg.pwPathFor(s.addr)); ok {
		pw = strings.TrimSpace(string(c))
	}
	return []File{{Path: p, V3: &V3Spec{Key: s.key, Pw: pw, KDF: kdfSc}}}
}

// populate draws the slots of one wallet and its initial layout.
func (g *gstate) populate(rt *rapid.T, n int) {
	c := g.c
	g.m = newModel(c, "/ROOT")
	// the default password file may itself be empty / white space only (the empty password, or - trimming off - "\n" verbatim)
	g.dflt = weighted(rt, "defaultPw", "dflt-pass 1", 8, "default", 4, "dflt-pass 1\n", 4, "", 2, "\n", 1, " ", 1)
	if c.Cfg.Default && pct(rt, 92, "defaultPresent") {
		d := g.dflt
		g.emit([]File{{Path: "default.pw", Text: &d}}, false)
	}
	for i := 0; i < n; i++ {
		s := &slot{key: i, addr: addrOfKey(c.Keys[i])}
		s.pre, s.post = g.canonicalParts(rt, s.addr)
		g.slots = append(g.slots, s)
	}
	for _, s := range g.slots {
		s.kind = weighted(rt, "kind", "correct", 34, "wrongkey", 22, "garbage", 8, "pbkdf2", 8, "nearmiss", 14, "subdir", 6, "absent", 8)
		g.emit(g.slotFiles(rt, s, s.kind), false)
		extraPct := 15
		if g.c.Cfg.Naming != "ext" {
			extraPct = 30
		}
		if pct(rt, extraPct, "extra") {
			g.emit(g.extraFile(rt, s), false)
		}
	}
}

// genCase draws a configuration, a directory and (through rapid's state machine) a
// sequence of actions.  The second result is the set of generated near-miss names.
// One case in four has a twin: a second wallet built from the same Config variable.
func genCase(rt *rapid.T) (Case, map[string]bool) {
	c := &Case{Cfg: genCfg(rt)}
	var acts []Action
	g := &gstate{c: c, acts: &acts, near: map[string]bool{}}
	n := 2 + unif(rt, 5, "addresses")
	idx := make([]int, len(pool))
	for i := range idx {
		idx[i] = i
	}
	perm := rapid.Permutation(idx).Draw(rt, "keys")
	for i := 0; i < n; i++ {
		c.Keys = append(c.Keys, pool[perm[i]])
	}
	if pct(rt, 30, "foreignKey") {
		c.Keys = append(c.Keys, pool[perm[n]]) // a key that owns no slot
	}
	g.populate(rt, n)
	gs := []*gstate{g}
	// F2, caller-owned memory: what the caller does with its Config variable afterwards
	c.Scribble = weighted(rt, "scribbleBeforeInit", "", 85, "zero", 6, "decoy", 9)
	if pct(rt, 25, "twin") {
		// the twin serves the SAME addresses from its own directory under its own configuration
		tc := &Case{Cfg: genCfg(rt), Keys: c.Keys}
		g2 := &gstate{c: tc, w: 1, acts: &acts, near: g.near}
		g2.populate(rt, n)
		gs = append(gs, g2)
		c.Twin = &Twin{LateInit: pct(rt, 40, "lateInit")}
	}
	// one state-machine action whose kind is drawn with explicit weights (rapid picks
	// among several actions with a bias towards the first names)
	step := func(rt *rapid.T) {
		g := gs[0]
		if len(gs) > 1 {
			g = gs[unif(rt, 2, "wallet")]
		}
		settle := 0
		if g.c.Cfg.Listener {
			settle = 8
		}
		switch op := weighted(rt, "step", "request", 50, "accounts", 14, "refresh", 10, "mutate", 18, "settle", settle, "scribble", 4); op {
		case "request":
			g.request(rt)
		case "mutate":
			g.mutate(rt)
		case "scribble":
			if !g.full() {
				acts = append(acts, Action{Op: op, Mode: pick(rt, "scribbleMode", []string{"zero", "decoy"})})
			}
		default:
			if !g.full() {
				g.add(Action{Op: op})
			}
		}
	}
	actions := map[string]func(*rapid.T){"step": step}
	rt.Repeat(actions)
	for _, g := range gs {
		if pct(rt, 60, "finalAccounts") {
			g.add(Action{Op: "accounts"})
		}
	}
	c.Acts = acts
	if c.Twin != nil {
		c.Twin.Cfg, c.Twin.Files = gs[1].c.Cfg, gs[1].c.Files
	}
	return *c, g.near
}
