// Package c08 decides property C08 (the filesystem wallet only signs with the key that
// owns the requested address) by stateful generated-input search.
//
// A case is pure data: a wallet configuration, the private keys in play, an initial
// directory layout and a sequence of actions (requests, refreshes, file writes).  The
// judge materialises the layout in a fresh temporary directory, drives the real
// fswallet and compares with
//
//   - an independent cryptographic oracle (ref/rlpref + ref/secp): every successful
//     signature / wallet file must recover to exactly the requested address, and
//   - a reference model of the documented naming / metadata / password rules, written
//     from config.md, with three-valued verdicts so that documented-as-unspecified
//     regions are never asserted.
package c08

import (
	"context"
	"encoding/hex"
	"encoding/json"
	"fmt"
	"io"
	"math/big"
	"os"
	"path/filepath"
	"regexp"
	"sort"
	"strconv"
	"strings"
	"sync"
	"testing"
	"time"

	"github.com/hyperledger/firefly-common/pkg/config"
	"github.com/hyperledger/firefly-signer/pkg/eip712"
	"github.com/hyperledger/firefly-signer/pkg/ethsigner"
	"github.com/hyperledger/firefly-signer/pkg/ethtypes"
	"github.com/hyperledger/firefly-signer/pkg/fswallet"
	"github.com/hyperledger/firefly-signer/pkg/keystorev3"
	"github.com/sirupsen/logrus"
	"pgregory.net/rapid"

	"verifharness/evid"
	"verifharness/ref/rlpref"
	"verifharness/ref/secp"
)

const rule = "an action sequence that contains (a) a request for an address whose matching file (or the key file its metadata names) holds ANOTHER address's key behind a usable password, or " +
	"(b) a second request for an address whose first request had to succeed (cached path), or (c) a near-miss file name in the wallet directory that the naming rule must reject, observed by GetAccounts; " +
	"distinct by hash of the whole case (configuration + layout + actions)"

// ---------------------------------------------------------------------------------------
// case data
// ---------------------------------------------------------------------------------------

// Cfg is the symbolic wallet configuration. Paths are implied by the fixed layout under
// the per-case root: w/ wallet directory, p/ password directory, k/ files referenced by
// metadata, default.pw default password file.
type Cfg struct {
	Naming    string `json:"naming"`             // ext | re-anchored | re-unanchored | re-geth
	Ext       string `json:"ext"`                // filenames.primaryExt
	RePrefix  string `json:"rePrefix,omitempty"` // literal prefix inside the regex templates
	ReSuffix  string `json:"reSuffix,omitempty"` // literal suffix inside the regex templates
	With0x    bool   `json:"with0x"`
	Format    string `json:"format"`    // metadata.format as configured
	Style     string `json:"style"`     // flat | nested : shape of the metadata documents and of the two go-templates
	NoKeyProp bool   `json:"noKeyProp"` // metadata.keyFileProperty left unset
	NoPwProp  bool   `json:"noPwProp"`  // metadata.passwordFileProperty left unset
	PwExt     string `json:"pwExt"`
	PwDir     bool   `json:"pwDir"`
	Trim      bool   `json:"trim"`
	Default   bool   `json:"default"`
	Listener  bool   `json:"listener"`
	Cache     int    `json:"cache"`
	// ViaSection: the configuration goes through the documented config keys
	// (fswallet.InitConfig / ReadConfig; "auto" format and trimming left at their documented
	// defaults) instead of a Config struct literal.
	ViaSection bool `json:"viaSection,omitempty"`
}

type V3Spec struct {
	Key   int    `json:"key"`             // index into Case.Keys
	Pw    string `json:"pw"`              // password the file is encrypted with
	KDF   string `json:"kdf"`             // scrypt | pbkdf2
	Claim string `json:"claim,omitempty"` // informational "address" field; "" = the key's own address
}

type MetaSpec struct {
	Fmt string `json:"fmt"`           // toml | yaml | json
	Key string `json:"key,omitempty"` // path (relative to the root) of the key file; "" = property absent
	Pw  string `json:"pw,omitempty"`  // path of the password file; "" = property absent
	Alt bool   `json:"alt,omitempty"` // rendered in the style the configuration does NOT use
}

// File is one node of the layout; exactly one of V3/Meta/Text/Link/Dir is set.
type File struct {
	Path string    `json:"path"`
	V3   *V3Spec   `json:"v3,omitempty"`
	Meta *MetaSpec `json:"meta,omitempty"`
	Text *string   `json:"text,omitempty"`
	Link string    `json:"link,omitempty"` // symbolic link to root/<Link> (dangling when that does not exist)
	Dir  bool      `json:"dir,omitempty"`
	// Via: how a regular file reaches its name: "" written in place | "rename" written under a
	// staging name outside the wallet directory and then moved into place (atomic publish)
	Via string `json:"via,omitempty"`
}

type TxSpec struct {
	Nonce    string `json:"nonce"`
	GasPrice string `json:"gasPrice"`
	MaxPrio  string `json:"maxPrio"`
	MaxFee   string `json:"maxFee"`
	Gas      string `json:"gas"`
	Value    string `json:"value"`
	To       string `json:"to,omitempty"` // 40 hex or ""
	Data     string `json:"data"`         // hex
	ChainID  int64  `json:"chainId"`
}

type Action struct {
	Op    string  `json:"op"`             // accounts | sign | typed | walletfile | refresh | write | settle | scribble
	W     int     `json:"w,omitempty"`    // the wallet addressed: 0 = the first, 1 = the twin
	Addr  string  `json:"addr,omitempty"` // 40 lower-case hex digits
	From  string  `json:"from,omitempty"` // sign: spelling of the from field: 0x | plain | upper
	Tx    *TxSpec `json:"tx,omitempty"`
	Typed int     `json:"typed,omitempty"`
	File  *File   `json:"file,omitempty"`
	Mode  string  `json:"mode,omitempty"` // scribble: zero | decoy - what the caller does to its own Config variable
}

// Twin is a second wallet that the caller builds from THE SAME fswallet.Config variable,
// re-pointed at a second directory (root/twin/{w,p,k,default.pw}) with its own settings,
// right after the first wallet was constructed.  Both wallets are then used side by side
// (Action.W) and each is judged against the model of its own directory and configuration.
type Twin struct {
	Cfg      Cfg    `json:"cfg"`
	Files    []File `json:"files"`
	LateInit bool   `json:"lateInit,omitempty"` // the first wallet's Initialize runs only after the variable was re-pointed
}

type Case struct {
	Cfg   Cfg      `json:"cfg"`
	Keys  []string `json:"keys"`  // private keys, 32-byte hex
	Files []File   `json:"files"` // initial layout, written in order before the wallet starts
	Acts  []Action `json:"acts"`
	// Scribble: what the caller does to its Config variable between NewFilesystemWallet and
	// Initialize ("" nothing | zero | decoy); later modifications are "scribble" actions.
	Scribble string `json:"scribble,omitempty"`
	Twin     *Twin  `json:"twin,omitempty"`
}

// ---------------------------------------------------------------------------------------
// configuration semantics (reference model, from config.md)
// ---------------------------------------------------------------------------------------

const (
	fmtNone = "none"
	fmtTOML = "toml"
	fmtYAML = "yaml"
	fmtJSON = "json"
)

// effFormat resolves metadata.format: "auto" means "from the primary extension".
func (c Cfg) effFormat() string {
	f := c.Format
	if strings.ToLower(f) == "auto" {
		f = strings.TrimPrefix(c.Ext, ".")
	}
	switch f {
	case "toml", "tml":
		return fmtTOML
	case "yaml", "yml":
		return fmtYAML
	case "json":
		return fmtJSON
	}
	return fmtNone
}

func (c Cfg) regex() string {
	switch c.Naming {
	case "re-anchored":
		return "^" + regexp.QuoteMeta(c.RePrefix) + "((?:0x)?[0-9a-f]{40})" + regexp.QuoteMeta(c.ReSuffix) + "$"
	case "re-unanchored":
		return "([0-9a-f]{40})" + regexp.QuoteMeta(c.ReSuffix)
	case "re-geth":
		return "^UTC--.*--([0-9a-f]{40})$"
	}
	return ""
}

func (c Cfg) keyTemplate() string {
	if c.NoKeyProp {
		return ""
	}
	if c.Style == "nested" {
		return `{{ index .signing "key-file" }}`
	}
	return `{{ .keyFile }}`
}

func (c Cfg) pwTemplate() string {
	if c.NoPwProp {
		return ""
	}
	if c.Style == "nested" {
		return `{{ index .signing "password-file" }}`
	}
	return `{{ .passwordFile }}`
}

func (c Cfg) build(root string) *fswallet.Config {
	if c.ViaSection {
		return c.buildViaSection(root)
	}
	return c.buildStruct(root)
}

func (c Cfg) buildViaSection(root string) *fswallet.Config {
	config.RootConfigReset()
	sec := config.RootSection("fileWallet")
	fswallet.InitConfig(sec)
	sec.Set(fswallet.ConfigPath, filepath.Join(root, "w"))
	sec.Set(fswallet.ConfigSignerCacheSize, c.Cache)
	sec.Set(fswallet.ConfigDisableListener, !c.Listener)
	if re := c.regex(); re != "" {
		sec.Set(fswallet.ConfigFilenamesPrimaryMatchRegex, re)
	}
	sec.Set(fswallet.ConfigFilenamesPrimaryExt, c.Ext)
	sec.Set(fswallet.ConfigFilenamesPasswordExt, c.PwExt)
	if !c.Trim { // documented default: true
		sec.Set(fswallet.ConfigFilenamesPasswordTrimSpace, false)
	}
	if c.With0x { // documented default: unset / false
		sec.Set(fswallet.ConfigFilenamesWith0xPrefix, true)
	}
	if c.Format != "auto" { // documented default: auto
		sec.Set(fswallet.ConfigMetadataFormat, c.Format)
	}
	if t := c.keyTemplate(); t != "" {
		sec.Set(fswallet.ConfigMetadataKeyFileProperty, t)
	}
	if t := c.pwTemplate(); t != "" {
		sec.Set(fswallet.ConfigMetadataPasswordFileProperty, t)
	}
	if c.PwDir {
		sec.Set(fswallet.ConfigFilenamesPasswordPath, filepath.Join(root, "p"))
	}
	if c.Default {
		sec.Set(fswallet.ConfigDefaultPasswordFile, filepath.Join(root, "default.pw"))
	}
	return fswallet.ReadConfig(sec)
}

func (c Cfg) buildStruct(root string) *fswallet.Config {
	conf := &fswallet.Config{
		Path:            filepath.Join(root, "w"),
		SignerCacheSize: strconv.Itoa(c.Cache),
		SignerCacheTTL:  "24h",
		DisableListener: !c.Listener,
		Filenames: fswallet.FilenamesConfig{
			PrimaryMatchRegex: c.regex(),
			PrimaryExt:        c.Ext,
			PasswordExt:       c.PwExt,
			PasswordTrimSpace: c.Trim,
			With0xPrefix:      c.With0x,
		},
		Metadata: fswallet.MetadataConfig{
			Format:               c.Format,
			KeyFileProperty:      c.keyTemplate(),
			PasswordFileProperty: c.pwTemplate(),
		},
	}
	if c.PwDir {
		conf.Filenames.PasswordPath = filepath.Join(root, "p")
	}
	if c.Default {
		conf.DefaultPasswordFile = filepath.Join(root, "default.pw")
	}
	return conf
}

// pwPathFor is where the per-key password file of addr lives when no metadata is used.
func (c Cfg) pwPathFor(addr string) string {
	dir := "w"
	if c.PwDir {
		dir = "p"
	}
	n := addr
	if c.With0x {
		n = "0x" + n
	}
	return dir + "/" + n + c.PwExt
}

type verdict int

const (
	vNo     verdict = iota // the naming rule rejects the name
	vYes                   // the naming rule accepts the name
	vUnspec                // documented as unspecified / not asserted
)

func isLowerHex(s string) bool {
	for i := 0; i < len(s); i++ {
		ch := s[i]
		if !(ch >= '0' && ch <= '9' || ch >= 'a' && ch <= 'f') {
			return false
		}
	}
	return true
}

func isHex40(s string) bool { return len(s) == 40 && isLowerHex(s) }

// matchName is the independent statement of the naming rule: does a file of this name
// denote an address, and which one.  Plain string operations only (no regexp).
func matchName(c Cfg, name string) (verdict, string) {
	v, a := matchExact(c, name)
	if v == vNo {
		// upper-case letters that keep a name from matching: "all filenames must be lower
		// case" - not asserted either way
		if low := strings.ToLower(name); low != name {
			if v2, a2 := matchExact(c, low); v2 != vNo {
				return vUnspec, a2
			}
		}
	}
	return v, a
}

func matchExact(c Cfg, name string) (verdict, string) {
	switch c.Naming {
	case "ext":
		if c.Ext == "" || !strings.HasSuffix(name, c.Ext) {
			return vNo, ""
		}
		stem := name[:len(name)-len(c.Ext)]
		has0x := strings.HasPrefix(stem, "0x")
		if has0x {
			stem = stem[2:]
		}
		if !isHex40(stem) {
			return vNo, ""
		}
		if has0x != c.With0x {
			// with0xPrefix is documented for password file names only; the other spelling of
			// the primary name is not asserted either way
			return vUnspec, stem
		}
		return vYes, stem
	case "re-anchored":
		if !strings.HasPrefix(name, c.RePrefix) {
			return vNo, ""
		}
		rest := name[len(c.RePrefix):]
		if !strings.HasSuffix(rest, c.ReSuffix) {
			return vNo, ""
		}
		rest = rest[:len(rest)-len(c.ReSuffix)]
		rest = strings.TrimPrefix(rest, "0x")
		if !isHex40(rest) {
			return vNo, ""
		}
		return vYes, rest
	case "re-unanchored":
		// leftmost occurrence of 40 hex digits directly followed by the suffix
		for i := 0; i+40 <= len(name); i++ {
			if isLowerHex(name[i:i+40]) && strings.HasPrefix(name[i+40:], c.ReSuffix) {
				return vYes, name[i : i+40]
			}
		}
		return vNo, ""
	case "re-geth":
		if !strings.HasPrefix(name, "UTC--") || len(name) < 5+2+40 {
			return vNo, ""
		}
		tail := name[len(name)-42:]
		if tail[:2] != "--" || !isHex40(tail[2:]) {
			return vNo, ""
		}
		return vYes, tail[2:]
	}
	return vNo, ""
}

// ---------------------------------------------------------------------------------------
// keys
// ---------------------------------------------------------------------------------------

var (
	addrMemoMu sync.Mutex
	addrMemo   = map[string]string{}
)

// addrOfKey derives the address of a private key with the independent curve reference.
func addrOfKey(privHex string) string {
	addrMemoMu.Lock()
	defer addrMemoMu.Unlock()
	if a, ok := addrMemo[privHex]; ok {
		return a
	}
	b, err := hex.DecodeString(privHex)
	if err != nil || len(b) != 32 {
		return ""
	}
	d := new(big.Int).SetBytes(b)
	if !secp.ValidScalar(d) {
		return ""
	}
	a20 := secp.AddressOfKey(d)
	a := hex.EncodeToString(a20[:])
	addrMemo[privHex] = a
	return a
}

// ---------------------------------------------------------------------------------------
// reference model of the directory
// ---------------------------------------------------------------------------------------

type model struct {
	cfg   Cfg
	keys  []string
	addrs []string // address of keys[i]
	root  string
	vfs   map[string]*File
	known map[string]int // names in w/ seen by a scan: 1 = as a symbolic link only, 2 = as a regular file
	// addresses the wallet itself has listed in an earlier GetAccounts answer of this run: it
	// then holds a file for them (how the listener-discovered files enter the availability clause)
	observed map[string]bool
	v3mem    map[string][]byte
	staged   int
}

func newModel(c *Case, root string) *model {
	m := &model{cfg: c.Cfg, keys: c.Keys, root: root, vfs: map[string]*File{}, known: map[string]int{}, observed: map[string]bool{}, v3mem: map[string][]byte{}}
	for _, k := range c.Keys {
		m.addrs = append(m.addrs, addrOfKey(k))
	}
	m.vfs["w"] = &File{Path: "w", Dir: true}
	return m
}

func (m *model) abs(p string) string { return filepath.Join(m.root, filepath.FromSlash(p)) }

func renderMeta(c Cfg, root string, s *MetaSpec) []byte {
	nested := c.Style == "nested"
	if s.Alt {
		nested = !nested
	}
	kName, pName := "keyFile", "passwordFile"
	if nested {
		kName, pName = "key-file", "password-file"
	}
	type kv struct{ k, v string }
	var props []kv
	if s.Key != "" {
		props = append(props, kv{kName, filepath.Join(root, filepath.FromSlash(s.Key))})
	}
	if s.Pw != "" {
		props = append(props, kv{pName, filepath.Join(root, filepath.FromSlash(s.Pw))})
	}
	var b strings.Builder
	switch s.Fmt {
	case fmtTOML:
		b.WriteString("title = \"c08 metadata\"\n")
		if nested {
			b.WriteString("\n[signing]\n")
		}
		for _, p := range props {
			fmt.Fprintf(&b, "%s = %s\n", p.k, strconv.Quote(p.v))
		}
	case fmtYAML:
		b.WriteString("title: \"c08 metadata\"\n")
		indent := ""
		if nested {
			b.WriteString("signing:\n")
			indent = "  "
			if len(props) == 0 {
				b.Reset()
				b.WriteString("title: \"c08 metadata\"\nsigning: {}\n")
			}
		}
		for _, p := range props {
			fmt.Fprintf(&b, "%s%s: %s\n", indent, p.k, strconv.Quote(p.v))
		}
	default:
		inner := map[string]interface{}{}
		for _, p := range props {
			inner[p.k] = p.v
		}
		doc := map[string]interface{}{"title": "c08 metadata"}
		if nested {
			doc["signing"] = inner
		} else {
			for k, v := range inner {
				doc[k] = v
			}
		}
		j, _ := json.Marshal(doc)
		b.Write(j)
	}
	return []byte(b.String())
}

func (m *model) render(f *File) []byte {
	switch {
	case f.V3 != nil:
		key := fmt.Sprintf("%d|%s|%s|%s", f.V3.Key, f.V3.KDF, f.V3.Claim, f.V3.Pw)
		if b, ok := m.v3mem[key]; ok {
			return b
		}
		if f.V3.Key < 0 || f.V3.Key >= len(m.keys) {
			return []byte("bad key index")
		}
		priv, _ := hex.DecodeString(m.keys[f.V3.Key])
		claim := f.V3.Claim
		if claim == "" {
			claim = m.addrs[f.V3.Key]
		}
		b := writeV3(priv, f.V3.Pw, f.V3.KDF, claim)
		m.v3mem[key] = b
		return b
	case f.Meta != nil:
		return renderMeta(m.cfg, m.root, f.Meta)
	case f.Text != nil:
		return []byte(*f.Text)
	}
	return nil
}

// write applies one file to the model and (when disk is set) to the real directory.
func (m *model) write(f File, disk bool) error {
	p := f.Path
	if p == "" || strings.HasPrefix(p, "/") || strings.Contains(p, "..") {
		return fmt.Errorf("bad path %q", p)
	}
	parts := strings.Split(p, "/")
	for i := 1; i < len(parts); i++ {
		par := strings.Join(parts[:i], "/")
		if old := m.vfs[par]; old == nil {
			m.vfs[par] = &File{Path: par, Dir: true}
		} else if !old.Dir {
			return fmt.Errorf("parent %q of %q is not a directory", par, p)
		}
	}
	old := m.vfs[p]
	if old != nil && !old.Dir && f.Dir {
		return fmt.Errorf("replacing file %q by a directory is outside the modelled behaviour", p)
	}
	if old != nil && old.Dir && !f.Dir {
		for k := range m.vfs {
			if strings.HasPrefix(k, p+"/") {
				delete(m.vfs, k)
			}
		}
		if disk {
			if err := os.RemoveAll(m.abs(p)); err != nil {
				return err
			}
		}
	}
	if old != nil && !old.Dir && (old.Link != "" || f.Link != "") && disk {
		_ = os.Remove(m.abs(p))
	}
	ff := f
	m.vfs[p] = &ff
	if !disk {
		return nil
	}
	if err := os.MkdirAll(filepath.Dir(m.abs(p)), 0o755); err != nil {
		return err
	}
	switch {
	case f.Dir:
		return os.MkdirAll(m.abs(p), 0o755)
	case f.Link != "":
		return os.Symlink(m.abs(f.Link), m.abs(p))
	default:
		if f.Via == "rename" {
			m.staged++
			tmp := filepath.Join(m.root, fmt.Sprintf("staged-%d", m.staged))
			if err := os.WriteFile(tmp, m.render(&ff), 0o644); err != nil {
				return err
			}
			return os.Rename(tmp, m.abs(p))
		}
		return os.WriteFile(m.abs(p), m.render(&ff), 0o644)
	}
}

// lookup follows symbolic links.
func (m *model) lookup(p string, depth int) *File {
	f := m.vfs[p]
	if f == nil || depth > 4 {
		return nil
	}
	if f.Link != "" {
		return m.lookup(f.Link, depth+1)
	}
	return f
}

// content is what reading the path yields; ok=false when it cannot be read as a file.
func (m *model) content(p string) ([]byte, bool) {
	f := m.lookup(p, 0)
	if f == nil || f.Dir {
		return nil, false
	}
	return m.render(f), true
}

type entry struct {
	name    string
	v       verdict
	addr    string
	regular bool
}

// entries lists the non-directory names in the wallet directory that the naming rule
// accepts or leaves unspecified.
func (m *model) entries() []entry {
	var out []entry
	for p, f := range m.vfs {
		if !strings.HasPrefix(p, "w/") {
			continue
		}
		name := p[2:]
		if strings.Contains(name, "/") || f.Dir {
			continue
		}
		v, a := matchName(m.cfg, name)
		if v == vNo {
			continue
		}
		reg := f.Link == ""
		if !reg {
			v = vUnspec // a symbolic link with a matching name: not asserted
		}
		out = append(out, entry{name, v, a, reg})
	}
	sort.Slice(out, func(i, j int) bool { return out[i].name < out[j].name })
	return out
}

// snapshot records what a full scan (Initialize / Refresh) of the directory sees.
func (m *model) snapshot() {
	for p, f := range m.vfs {
		if !strings.HasPrefix(p, "w/") || strings.Contains(p[2:], "/") || f.Dir {
			continue
		}
		if f.Link == "" {
			m.known[p[2:]] = 2
		} else if m.known[p[2:]] < 1 {
			m.known[p[2:]] = 1
		}
	}
}

// accountBounds: every address in lower must be listed, nothing outside upper may be.
func (m *model) accountBounds() (lower, upper map[string]bool) {
	lower, upper = map[string]bool{}, map[string]bool{}
	for _, e := range m.entries() {
		k := m.known[e.name]
		if e.v == vYes && e.regular && k == 2 {
			lower[e.addr] = true
		}
		if k > 0 || m.cfg.Listener {
			upper[e.addr] = true
		}
	}
	return
}

type resolution struct {
	key    int    // index of the key the file chain leads to (-1: none)
	usable bool   // a password that opens that key file is found by the documented lookup
	src    string // which password source decided
}

// resolve follows the documented lookup from a primary file to key material + password.
func (m *model) resolve(primary string, addr string) resolution {
	no := resolution{key: -1}
	node := m.lookup(primary, 0)
	if node == nil || node.Dir {
		return no
	}
	var keyNode *File
	pwPath := ""
	src := "per-key-file"
	if f := m.cfg.effFormat(); f == fmtNone {
		keyNode = node
		pwPath = m.cfg.pwPathFor(addr)
	} else {
		if node.Meta == nil || node.Meta.Fmt != f || node.Meta.Alt || m.cfg.NoKeyProp || node.Meta.Key == "" {
			return no
		}
		keyNode = m.lookup(node.Meta.Key, 0)
		src = "metadata-ref"
		if !m.cfg.NoPwProp && node.Meta.Pw != "" {
			pwPath = node.Meta.Pw
		} else {
			src = "no-password-property"
		}
	}
	if keyNode == nil || keyNode.V3 == nil || keyNode.V3.Key < 0 || keyNode.V3.Key >= len(m.keys) {
		return no
	}
	r := resolution{key: keyNode.V3.Key}
	want := keyNode.V3.Pw
	if pwPath != "" {
		if content, ok := m.content(pwPath); ok {
			// A per-key password file that is present and readable IS the key's password source,
			// whatever it holds: with trimming its content minus leading/trailing white space
			// (possibly the empty password), without trimming its content byte for byte (a file
			// holding "\n" is the password "\n").  The default file is for keys that have no
			// per-key password file (config.md: "if one is not specified individually for the key").
			pw := string(content)
			if strings.TrimSpace(pw) == "" {
				src += "(empty or white-space-only file)"
			}
			if m.cfg.Trim {
				if t := strings.TrimSpace(pw); t != pw {
					pw = t
					src += "+trimmed"
				}
			}
			r.usable = pw == want
			r.src = src
			return r
		}
		switch f := m.vfs[pwPath]; {
		case f == nil:
			src = "default(per-key absent)"
		case f.Dir:
			src = "default(per-key is a directory)"
		default:
			src = "default(per-key dangling link)"
		}
	} else {
		src = "default(" + src + ")"
	}
	r.src = src
	if !m.cfg.Default {
		return r
	}
	content, ok := m.content("default.pw")
	if !ok {
		return r
	}
	pw := string(content)
	if m.cfg.Trim && strings.TrimSpace(pw) != pw {
		// whether passwordTrimSpace covers the default file is not asserted
		return r
	}
	if strings.TrimSpace(pw) == "" {
		r.src += "(empty or white-space-only default file)"
	}
	r.usable = pw == want
	return r
}

type expectation struct {
	must     bool   // the request must succeed
	src      string // password source behind the claim
	wrongKey bool   // a known candidate file leads to ANOTHER address's key with a usable password
	cands    int
}

func (m *model) expect(addr string) expectation {
	var ex expectation
	anchor := false
	all := true
	for _, e := range m.entries() {
		if e.addr != addr {
			continue
		}
		ex.cands++
		r := m.resolve("w/"+e.name, addr)
		good := r.key >= 0 && r.usable && m.addrs[r.key] == addr
		if !good {
			all = false
		}
		if r.key >= 0 && r.usable && m.addrs[r.key] != addr && (m.known[e.name] > 0 || m.cfg.Listener) {
			ex.wrongKey = true
		}
		if e.v == vYes && e.regular && (m.known[e.name] == 2 || m.observed[addr]) {
			anchor = true
			if good {
				ex.src = r.src
				if m.known[e.name] != 2 {
					ex.src += " [file noticed by the listener]"
				}
			}
		}
	}
	ex.must = anchor && all
	return ex
}

// ---------------------------------------------------------------------------------------
// cryptographic oracle
// ---------------------------------------------------------------------------------------

func itemInt(it rlpref.Item) *big.Int { return new(big.Int).SetBytes(it.Str) }

// recoverTx decodes a signed transaction with the independent RLP reference, rebuilds
// the signing pre-image from its own fields and recovers the signer.
func recoverTx(out []byte, chainID int64) (string, error) {
	if len(out) == 0 {
		return "", fmt.Errorf("empty output")
	}
	var hash []byte
	var r, s *big.Int
	var parity *big.Int
	switch {
	case out[0] >= 0xc0: // legacy, EIP-155
		it, n, err := rlpref.Decode(out, true)
		if err != nil || n != len(out) {
			return "", fmt.Errorf("not canonical RLP (consumed %d of %d): %v", n, len(out), err)
		}
		if !it.IsList || len(it.List) != 9 {
			return "", fmt.Errorf("legacy transaction is not a 9-element list")
		}
		for _, e := range it.List {
			if e.IsList {
				return "", fmt.Errorf("legacy transaction has a list element")
			}
		}
		pre := rlpref.L(append(append([]rlpref.Item{}, it.List[:6]...), rlpref.Int(big.NewInt(chainID)), rlpref.S(nil), rlpref.S(nil))...)
		hash = secp.Keccak256(rlpref.Encode(pre))
		v := itemInt(it.List[6])
		parity = new(big.Int).Sub(v, big.NewInt(35))
		parity.Sub(parity, new(big.Int).Mul(big.NewInt(2), big.NewInt(chainID)))
		r, s = itemInt(it.List[7]), itemInt(it.List[8])
	case out[0] == 0x02: // EIP-1559
		it, n, err := rlpref.Decode(out[1:], true)
		if err != nil || n != len(out)-1 {
			return "", fmt.Errorf("not canonical RLP after the type byte: %v", err)
		}
		if !it.IsList || len(it.List) != 12 {
			return "", fmt.Errorf("EIP-1559 transaction is not a 12-element list")
		}
		for i, e := range it.List {
			if e.IsList != (i == 8) {
				return "", fmt.Errorf("EIP-1559 transaction element %d has the wrong shape", i)
			}
		}
		if itemInt(it.List[0]).Cmp(big.NewInt(chainID)) != 0 {
			return "", fmt.Errorf("chain id %s in the output, %d requested", itemInt(it.List[0]), chainID)
		}
		hash = secp.Keccak256([]byte{0x02}, rlpref.Encode(rlpref.L(it.List[:9]...)))
		parity = itemInt(it.List[9])
		r, s = itemInt(it.List[10]), itemInt(it.List[11])
	default:
		return "", fmt.Errorf("unrecognised transaction envelope (first byte %#x)", out[0])
	}
	if !parity.IsUint64() || parity.Uint64() > 1 {
		return "", fmt.Errorf("signature V does not encode a y-parity for chain %d (parity value %s)", chainID, parity)
	}
	a, ok := secp.RecoverAddress(hash, r, s, uint(parity.Uint64()))
	if !ok {
		return "", fmt.Errorf("signature does not recover to any key")
	}
	return hex.EncodeToString(a[:]), nil
}

func recoverRSV(hash, r, s []byte, v int64) (string, error) {
	if len(hash) != 32 {
		return "", fmt.Errorf("hash of %d bytes", len(hash))
	}
	if v != 27 && v != 28 {
		return "", fmt.Errorf("V = %d, want 27 or 28", v)
	}
	a, ok := secp.RecoverAddress(hash, new(big.Int).SetBytes(r), new(big.Int).SetBytes(s), uint(v-27))
	if !ok {
		return "", fmt.Errorf("signature does not recover to any key")
	}
	return hex.EncodeToString(a[:]), nil
}

// ---------------------------------------------------------------------------------------
// judge
// ---------------------------------------------------------------------------------------

var (
	tmpBase string         // set from t.TempDir() by the entry points
	statRec *evid.Recorder // outcome histogram (labels only, no verdicts)
)

func note(label string) {
	if statRec != nil {
		statRec.Class(label)
	}
}

func quietLogs() {
	logrus.SetOutput(io.Discard)
	logrus.SetLevel(logrus.PanicLevel)
}

func dec(s string) *big.Int {
	i, ok := new(big.Int).SetString(s, 10)
	if !ok {
		return new(big.Int)
	}
	return i
}

func (t *TxSpec) build(from string) *ethsigner.Transaction {
	tx := &ethsigner.Transaction{
		From:     json.RawMessage(from),
		Nonce:    ethtypes.NewHexInteger(dec(t.Nonce)),
		GasLimit: ethtypes.NewHexInteger(dec(t.Gas)),
		Value:    ethtypes.NewHexInteger(dec(t.Value)),
	}
	if dec(t.GasPrice).Sign() > 0 {
		tx.GasPrice = ethtypes.NewHexInteger(dec(t.GasPrice))
	}
	if dec(t.MaxPrio).Sign() > 0 {
		tx.MaxPriorityFeePerGas = ethtypes.NewHexInteger(dec(t.MaxPrio))
	}
	if dec(t.MaxFee).Sign() > 0 {
		tx.MaxFeePerGas = ethtypes.NewHexInteger(dec(t.MaxFee))
	}
	if t.To != "" {
		if b, err := hex.DecodeString(t.To); err == nil && len(b) == 20 {
			var a ethtypes.Address0xHex
			copy(a[:], b)
			tx.To = &a
		}
	}
	if d, err := hex.DecodeString(t.Data); err == nil {
		tx.Data = d
	}
	return tx
}

func typedPayload(variant int) *eip712.TypedData {
	switch variant % 3 {
	case 1:
		return &eip712.TypedData{
			PrimaryType: eip712.EIP712Domain,
			Types: eip712.TypeSet{eip712.EIP712Domain: eip712.Type{
				{Name: "name", Type: "string"}, {Name: "chainId", Type: "uint256"},
			}},
			Domain: map[string]interface{}{"name": "c08", "chainId": strconv.Itoa(variant)},
		}
	case 2:
		return &eip712.TypedData{
			PrimaryType: "Note",
			Types: eip712.TypeSet{
				eip712.EIP712Domain: eip712.Type{{Name: "name", Type: "string"}},
				"Note":              eip712.Type{{Name: "text", Type: "string"}, {Name: "n", Type: "uint256"}},
			},
			Domain:  map[string]interface{}{"name": "c08"},
			Message: map[string]interface{}{"text": "hello", "n": strconv.Itoa(variant)},
		}
	}
	return &eip712.TypedData{PrimaryType: eip712.EIP712Domain}
}

func fromJSON(addr, style string) string {
	switch style {
	case "plain":
		return `"` + addr + `"`
	case "upper":
		return `"0x` + strings.ToUpper(addr) + `"`
	}
	return `"0x` + addr + `"`
}

func sortedKeys(m map[string]bool) []string {
	out := make([]string, 0, len(m))
	for k := range m {
		out = append(out, k)
	}
	sort.Strings(out)
	return out
}

// run is one wallet under test together with the reference model of ITS directory.
type run struct {
	tag      string // "" for the first wallet, "twin " for the second one built from the same Config variable
	w        fswallet.Wallet
	m        *model
	own      fswallet.Config // the configuration this wallet was constructed from (the harness's private copy)
	okBefore map[string]bool
}

// scribble is what a caller may do with ITS OWN Config variable once NewFilesystemWallet has
// returned: the wallet must have taken what it needs (F2: inputs are not retained).
func scribble(conf *fswallet.Config, mode, root string) {
	if mode == "zero" {
		*conf = fswallet.Config{}
		return
	}
	decoy := filepath.Join(root, "decoy") // an existing, empty directory
	conf.Path = decoy
	conf.DefaultPasswordFile = filepath.Join(decoy, "default.pw")
	conf.SignerCacheSize, conf.SignerCacheTTL = "0", "1ns"
	conf.DisableListener = !conf.DisableListener
	conf.Filenames = fswallet.FilenamesConfig{
		PrimaryMatchRegex: "^(never)$", PrimaryExt: ".decoy", PasswordExt: ".nopw", PasswordPath: decoy,
		PasswordTrimSpace: !conf.Filenames.PasswordTrimSpace, With0xPrefix: !conf.Filenames.With0xPrefix,
	}
	f := "json"
	if conf.Metadata.Format == "json" {
		f = "toml"
	}
	conf.Metadata = fswallet.MetadataConfig{Format: f, KeyFileProperty: "{{ .decoyKey }}", PasswordFileProperty: "{{ .decoyPassword }}"}
}

func confDiff(a, b fswallet.Config) string {
	ja, _ := json.Marshal(a)
	jb, _ := json.Marshal(b)
	return fmt.Sprintf("%s -> %s", ja, jb)
}

// start runs Initialize (with the inotify-exhaustion fallback) and takes the model's first scan.
func (r *run) start(ctx context.Context) []evid.Violation {
	err := r.w.Initialize(ctx)
	for try := 0; err != nil && r.m.cfg.Listener && try < 20; try++ {
		// the only thing that can fail here is the OS refusing another inotify instance while
		// other checks run: infrastructure, not the property
		_ = r.w.Close()
		time.Sleep(100 * time.Millisecond)
		cc := r.own
		r.w, _ = fswallet.NewFilesystemWallet(ctx, &cc)
		err = r.w.Initialize(ctx)
	}
	if err != nil && r.m.cfg.Listener {
		note("infra:listener-unavailable(case run without listener)")
		_ = r.w.Close()
		r.m.cfg.Listener = false
		cc := r.own
		cc.DisableListener = true
		r.w, _ = fswallet.NewFilesystemWallet(ctx, &cc)
		err = r.w.Initialize(ctx)
	}
	if err != nil {
		return []evid.Violation{evid.V("exactness", "%sInitialize fails on a readable wallet directory: %v", r.tag, err)}
	}
	r.m.snapshot()
	return nil
}

func judgeWallet(c Case) (vs []evid.Violation) {
	if tmpBase == "" {
		tmpBase = os.TempDir()
	}
	root, err := os.MkdirTemp(tmpBase, "c08-")
	if err != nil {
		panic(fmt.Sprintf("harness: %v", err))
	}
	defer os.RemoveAll(root)
	for i, k := range c.Keys {
		if addrOfKey(k) == "" {
			return []evid.Violation{evid.V("harness", "key %d is not a valid private key", i)}
		}
	}
	lay := func(m *model, files []File) error {
		for _, d := range []string{"w", "decoy"} {
			if err := os.MkdirAll(m.abs(d), 0o755); err != nil {
				panic(fmt.Sprintf("harness: %v", err))
			}
		}
		for _, f := range files {
			if err := m.write(f, true); err != nil {
				return err
			}
		}
		return nil
	}
	ctx := context.Background()
	m := newModel(&c, root)
	if err := lay(m, c.Files); err != nil {
		return []evid.Violation{evid.V("harness", "layout: %v", err)}
	}

	// ONE caller-owned Config variable for everything that follows.  The wallet may read it
	// during NewFilesystemWallet; it must neither write to it nor keep using it afterwards
	// (the caller re-points it for its next wallet, or lets it go out of scope).
	conf := c.Cfg.build(root)
	last := *conf // what the caller last stored in its variable
	callerVar := func(when string) {
		if *conf != last {
			vs = append(vs, evid.V("caller-config", "%s: the wallet wrote to the caller's Config: %s", when, confDiff(last, *conf)))
			last = *conf
		}
	}
	w, err := fswallet.NewFilesystemWallet(ctx, conf)
	if err != nil {
		return []evid.Violation{evid.V("availability", "a valid configuration is rejected: %v", err)}
	}
	runs := []*run{{w: w, m: m, own: last, okBefore: map[string]bool{}}}
	defer func() {
		for _, r := range runs {
			_ = r.w.Close()
		}
	}()
	callerVar("NewFilesystemWallet")
	if c.Scribble != "" {
		scribble(conf, c.Scribble, root)
		last = *conf
	}
	if c.Twin == nil || !c.Twin.LateInit {
		if v := runs[0].start(ctx); v != nil {
			return append(vs, v...)
		}
		callerVar("Initialize")
	}
	if c.Twin != nil {
		root2 := filepath.Join(root, "twin")
		m2 := newModel(&Case{Cfg: c.Twin.Cfg, Keys: c.Keys}, root2)
		if err := lay(m2, c.Twin.Files); err != nil {
			return append(vs, evid.V("harness", "twin layout: %v", err))
		}
		*conf = *c.Twin.Cfg.build(root2) // the same variable, re-pointed at the second directory
		last = *conf
		w2, err := fswallet.NewFilesystemWallet(ctx, conf)
		if err != nil {
			return append(vs, evid.V("availability", "twin: a valid configuration is rejected: %v", err))
		}
		runs = append(runs, &run{tag: "twin ", w: w2, m: m2, own: last, okBefore: map[string]bool{}})
		callerVar("NewFilesystemWallet (twin)")
		if c.Twin.LateInit {
			if v := runs[0].start(ctx); v != nil {
				return append(vs, v...)
			}
		}
		if v := runs[1].start(ctx); v != nil {
			return append(vs, v...)
		}
		callerVar("Initialize (twin)")
	}

	for i, a := range c.Acts {
		if a.Op == "scribble" {
			scribble(conf, a.Mode, root)
			last = *conf
			continue
		}
		if a.W < 0 || a.W >= len(runs) {
			return append(vs, evid.V("harness", "action %d: no wallet %d", i, a.W))
		}
		v, fatal := runs[a.W].act(ctx, i, a)
		vs = append(vs, v...)
		if fatal {
			return vs
		}
		callerVar(fmt.Sprintf("action %d (%s)", i, a.Op))
		if len(vs) >= 4 {
			break
		}
	}
	return vs
}

// act performs one action on the run's wallet and judges it against the run's model.
func (r *run) act(ctx context.Context, i int, a Action) (vs []evid.Violation, fatal bool) {
	w, m, okBefore := r.w, r.m, r.okBefore
	defer func() {
		if r.tag != "" {
			for k := range vs {
				vs[k].Detail = r.tag + vs[k].Detail
			}
		}
	}()
	switch a.Op {
	case "accounts":
		vs = append(vs, checkAccounts(ctx, w, m, i)...)
	case "refresh":
		if err := w.Refresh(ctx); err != nil {
			vs = append(vs, evid.V("exactness", "action %d: Refresh fails on a readable wallet directory: %v", i, err))
		} else {
			m.snapshot()
		}
	case "write":
		if a.File == nil {
			return append(vs, evid.V("harness", "action %d: write without file", i)), true
		}
		if err := m.write(*a.File, true); err != nil {
			return append(vs, evid.V("harness", "action %d: %v", i, err)), true
		}
	case "settle":
		// give the listener a moment so that later requests exercise the notification path; no verdict
		deadline := time.Now().Add(300 * time.Millisecond)
		for {
			lower, _ := m.accountBoundsIfScanned()
			got, _ := w.GetAccounts(ctx)
			have := map[string]bool{}
			for _, g := range got {
				if g != nil {
					have[hex.EncodeToString(g[:])] = true
					m.observed[hex.EncodeToString(g[:])] = true
				}
			}
			missing := false
			for a := range lower {
				if !have[a] {
					missing = true
				}
			}
			if !missing || time.Now().After(deadline) || !m.cfg.Listener {
				if missing {
					note("settle:listener-still-pending-after-300ms")
				} else {
					note("settle:all-present-files-listed")
				}
				break
			}
			time.Sleep(time.Millisecond)
		}
	case "sign", "typed", "walletfile":
		if !isHex40(a.Addr) {
			return append(vs, evid.V("harness", "action %d: bad address %q", i, a.Addr)), true
		}
		ex := m.expect(a.Addr)
		var ab [20]byte
		b, _ := hex.DecodeString(a.Addr)
		copy(ab[:], b)
		var reqErr error
		var signer string // who the result is bound to, by the independent oracle
		var oracleErr error
		switch a.Op {
		case "sign":
			tx := a.Tx
			if tx == nil {
				tx = &TxSpec{ChainID: 1}
			}
			var out []byte
			// caller-owned memory: from and data are handed over as sub-slices of one buffer with
			// spare capacity behind them; the call must leave the whole buffer as it was
			req := tx.build(fromJSON(a.Addr, a.From))
			arena := make([]byte, 0, len(req.From)+len(req.Data)+64)
			arena = append(append(arena, req.From...), req.Data...)
			nf, nd := len(req.From), len(req.Data)
			arena = arena[:cap(arena)]
			for k := nf + nd; k < len(arena); k++ {
				arena[k] = 0xa5
			}
			req.From, req.Data = json.RawMessage(arena[:nf:nf]), arena[nf:nf+nd]
			before := append([]byte(nil), arena...)
			out, reqErr = w.Sign(ctx, req, tx.ChainID)
			if string(before) != string(arena) {
				vs = append(vs, evid.V("caller-memory", "action %d: Sign wrote into the caller's from/data buffer (or behind it): %x -> %x", i, before, arena))
			}
			if reqErr == nil {
				signer, oracleErr = recoverTx(out, tx.ChainID)
				// the result belongs to the caller: scribbling over it must not disturb any later result
				for k := range out {
					out[k] = 0xff
				}
			}
			for k := range arena {
				arena[k] = 0x5a // ... and neither must re-using the request buffer
			}
		case "typed":
			var res *ethsigner.EIP712Result
			res, reqErr = w.SignTypedDataV4(ctx, ethtypes.Address0xHex(ab), typedPayload(a.Typed))
			if reqErr == nil {
				if res == nil {
					oracleErr = fmt.Errorf("nil result without error")
					break
				}
				signer, oracleErr = recoverRSV(res.Hash, res.R, res.S, res.V.BigInt().Int64())
				if oracleErr == nil {
					if len(res.SignatureRSV) != 65 {
						oracleErr = fmt.Errorf("compact signature of %d bytes", len(res.SignatureRSV))
					} else if s2, e2 := recoverRSV(res.Hash, res.SignatureRSV[0:32], res.SignatureRSV[32:64], int64(res.SignatureRSV[64])); e2 != nil || s2 != signer {
						oracleErr = fmt.Errorf("compact signature recovers to %q (%v), V/R/S fields to %s", s2, e2, signer)
					}
				}
				// the result belongs to the caller: scribbling over it must not disturb any later result
				for _, b := range [][]byte{res.Hash, res.SignatureRSV, res.R, res.S} {
					for k := range b {
						b[k] = 0xff
					}
				}
			}
		case "walletfile":
			var wf keystorev3.WalletFile
			wf, reqErr = w.GetWalletFile(ctx, ethtypes.Address0xHex(ab))
			if reqErr == nil {
				if wf == nil || wf.KeyPair() == nil {
					oracleErr = fmt.Errorf("nil wallet file / key pair without error")
					break
				}
				priv := wf.PrivateKey()
				signer = addrOfKey(hex.EncodeToString(priv))
				if signer == "" {
					oracleErr = fmt.Errorf("wallet file holds %d bytes that are not a valid private key", len(priv))
				} else if claimed := hex.EncodeToString(wf.KeyPair().Address[:]); claimed != signer {
					oracleErr = fmt.Errorf("KeyPair().Address %s is not the address of the private key held (%s)", claimed, signer)
				}
			}
		}
		switch {
		case reqErr != nil:
			note("outcome:" + a.Op + ":refused")
			if ex.must {
				vs = append(vs, evid.V("availability", "action %d: %s for 0x%s fails although its key file and a usable password (%s) are present: %v", i, a.Op, a.Addr, ex.src, reqErr))
			}
		case oracleErr != nil:
			vs = append(vs, evid.V("safety", "action %d: %s for 0x%s succeeded but the result cannot be tied to a signer: %v", i, a.Op, a.Addr, oracleErr))
		case signer != a.Addr:
			vs = append(vs, evid.V("safety", "action %d: %s for 0x%s succeeded with the key of 0x%s (earlier success for this address: %v)", i, a.Op, a.Addr, signer, okBefore[a.Addr]))
		default:
			if okBefore[a.Addr] {
				note("outcome:" + a.Op + ":ok-again(cached or reloaded)")
			} else {
				note("outcome:" + a.Op + ":ok")
			}
			okBefore[a.Addr] = true
		}
		if ex.must {
			note("claim:must-succeed via " + ex.src)
		}
	default:
		return append(vs, evid.V("harness", "action %d: unknown op %q", i, a.Op)), true
	}
	return vs, false
}

// accountBoundsIfScanned is what the list would have to contain if every present file had
// been noticed (used only to decide when "settle" may stop waiting).
func (m *model) accountBoundsIfScanned() (lower, upper map[string]bool) {
	lower, upper = map[string]bool{}, map[string]bool{}
	for _, e := range m.entries() {
		if e.v == vYes && e.regular {
			lower[e.addr] = true
		}
		upper[e.addr] = true
	}
	return
}

func checkAccounts(ctx context.Context, w fswallet.Wallet, m *model, i int) (vs []evid.Violation) {
	got, err := w.GetAccounts(ctx)
	if err != nil {
		return []evid.Violation{evid.V("exactness", "action %d: GetAccounts fails: %v", i, err)}
	}
	lower, upper := m.accountBounds()
	seen := map[string]bool{}
	for _, g := range got {
		if g == nil {
			vs = append(vs, evid.V("exactness", "action %d: nil entry in the account list", i))
			continue
		}
		a := hex.EncodeToString(g[:])
		m.observed[a] = true
		if seen[a] {
			vs = append(vs, evid.V("exactness", "action %d: 0x%s is listed twice", i, a))
		}
		seen[a] = true
		if !upper[a] {
			vs = append(vs, evid.V("exactness", "action %d: 0x%s is listed but no file name in the wallet directory matches the naming rule for it (names: %s)", i, a, strings.Join(m.names(), " | ")))
		}
	}
	for _, a := range sortedKeys(lower) {
		if !seen[a] {
			vs = append(vs, evid.V("exactness", "action %d: 0x%s has a matching file that was present at the last scan but is not listed (names: %s)", i, a, strings.Join(m.names(), " | ")))
		}
	}
	if len(lower) == len(upper) {
		note("accounts:exact-set-asserted")
	} else {
		note("accounts:bounds-asserted(unspecified names or pending listener)")
	}
	return vs
}

func (m *model) names() []string {
	var out []string
	for p, f := range m.vfs {
		if strings.HasPrefix(p, "w/") && !strings.Contains(p[2:], "/") {
			n := p[2:]
			if f.Dir {
				n += "/"
			}
			out = append(out, n)
		}
	}
	sort.Strings(out)
	return out
}

// analyze runs the model alone over the case (no wallet, no disk) and returns the class
// labels and whether the case satisfies the non-trivial rule.
func analyze(c Case, nearMissNames map[string]bool) (classes []string, nontrivial bool) {
	ms := []*model{newModel(&c, "/ROOT")}
	for _, f := range c.Files {
		_ = ms[0].write(f, false)
	}
	if c.Twin != nil {
		m2 := newModel(&Case{Cfg: c.Twin.Cfg, Keys: c.Keys}, "/ROOT/twin")
		for _, f := range c.Twin.Files {
			_ = m2.write(f, false)
		}
		ms = append(ms, m2)
	}
	set := map[string]bool{}
	mustBefore := []map[string]bool{{}, {}}
	for _, m := range ms {
		m.snapshot()
	}
	nearMissVisible := func(m *model) bool {
		for p := range m.vfs {
			if strings.HasPrefix(p, "w/") && nearMissNames[p[2:]] {
				if v, _ := matchName(m.cfg, p[2:]); v == vNo && !m.vfs[p].Dir {
					return true
				}
			}
		}
		return false
	}
	scribbled := c.Scribble != ""
	if scribbled {
		set["caller:Config variable modified before Initialize ("+c.Scribble+")"] = true
	}
	for _, a := range c.Acts {
		if a.Op == "scribble" {
			set["caller:Config variable modified between actions ("+a.Mode+")"] = true
			scribbled = true
			continue
		}
		if a.W < 0 || a.W >= len(ms) {
			continue
		}
		m := ms[a.W]
		switch a.Op {
		case "refresh":
			m.snapshot()
			set["act:refresh"] = true
		case "write":
			_ = m.write(*a.File, false)
			set["act:write"] = true
			if a.File.Via == "rename" {
				set["act:write(file moved into place by rename)"] = true
			}
		case "accounts":
			set["act:accounts"] = true
			if nearMissVisible(m) {
				set["nt:accounts-with-near-miss-name"] = true
				nontrivial = true
			}
		case "settle":
			set["act:settle"] = true
		case "sign", "typed", "walletfile":
			set["act:"+a.Op] = true
			if a.Op == "sign" && a.Tx != nil && (dec(a.Tx.MaxFee).Sign() > 0 || dec(a.Tx.MaxPrio).Sign() > 0) {
				set["act:sign-eip1559"] = true
			}
			ex := m.expect(a.Addr)
			if ex.cands == 0 {
				set["req:address-without-file"] = true
			}
			if ex.wrongKey {
				set["nt:request-for-file-holding-other-key"] = true
				nontrivial = true
			}
			if ex.must {
				set["req:must-succeed"] = true
				if strings.Contains(ex.src, "white-space-only") {
					set["req:must-succeed-with-empty-or-white-space-only-password-file"] = true
				}
				if scribbled || (c.Twin != nil && a.W == 0) {
					set["req:must-succeed-after-caller-changed-its-Config-variable"] = true
				}
				if mustBefore[a.W][a.Addr] {
					set["nt:repeat-request(cached path)"] = true
					nontrivial = true
				}
				mustBefore[a.W][a.Addr] = true
			}
		}
	}
	if c.Twin != nil {
		set["caller:two-wallets-from-one-Config-variable"] = true
		if c.Twin.LateInit {
			set["caller:first-wallet-initialized-after-re-pointing"] = true
		}
	}
	for _, m := range ms {
		cfg := m.cfg
		set["naming:"+cfg.Naming] = true
		set["format:"+cfg.effFormat()+"(configured "+strconv.Quote(cfg.Format)+")"] = true
		set["listener:"+strconv.FormatBool(cfg.Listener)] = true
		set["config-via-documented-keys:"+strconv.FormatBool(cfg.ViaSection)] = true
		set["trim:"+strconv.FormatBool(cfg.Trim)] = true
		set["with0x:"+strconv.FormatBool(cfg.With0x)] = true
		set["pwdir:"+strconv.FormatBool(cfg.PwDir)] = true
		set["default-password:"+strconv.FormatBool(cfg.Default)] = true
	}
	return sortedKeys(set), nontrivial
}

// ---------------------------------------------------------------------------------------
// entry points
// ---------------------------------------------------------------------------------------

func selfTest(t *testing.T) {
	// the package's own V3 writer must produce files that both its own reader and the
	// library open with the right password and refuse with a wrong one; and the key pool
	// must consist of valid keys.  (Sanity anchor for the harness, not deciding evidence.)
	for _, pw := range []string{"", "\n", " \t"} {
		// empty and white-space-only passwords are passwords like any other
		priv, _ := hex.DecodeString(pool[0])
		for _, kdf := range []string{kdfSc, kdfPb} {
			f := writeV3(priv, pw, kdf, addrOfKey(pool[0]))
			if wf, err := keystorev3.ReadWalletFile(f, []byte(pw)); err != nil || hex.EncodeToString(wf.PrivateKey()) != pool[0] {
				t.Fatalf("library cannot read the harness's %s file encrypted with the password %q: %v", kdf, pw, err)
			}
			if _, err := keystorev3.ReadWalletFile(f, []byte(pw+"x")); err == nil {
				t.Fatalf("library opens the harness's %s file (password %q) with another password", kdf, pw)
			}
		}
	}
	for i, k := range pool {
		if addrOfKey(k) == "" {
			t.Fatalf("pool key %d invalid", i)
		}
		priv, _ := hex.DecodeString(k)
		for _, kdf := range []string{kdfSc, kdfPb} {
			f := writeV3(priv, "pass word\n", kdf, addrOfKey(k))
			back, err := readV3(f, "pass word\n")
			if err != nil || hex.EncodeToString(back) != k {
				t.Fatalf("own reader: %v", err)
			}
			if _, err := readV3(f, "pass word"); err == nil {
				t.Fatalf("own reader accepted a wrong password")
			}
			wf, err := keystorev3.ReadWalletFile(f, []byte("pass word\n"))
			if err != nil {
				t.Fatalf("library cannot read the harness's %s file: %v", kdf, err)
			}
			if hex.EncodeToString(wf.PrivateKey()) != k {
				t.Fatalf("library decrypts the harness's %s file to a different key", kdf)
			}
			if i > 1 {
				break
			}
		}
	}
	// naming-rule model vs. the regular expressions handed to the library (stdlib regexp)
	for _, c := range []Cfg{
		{Naming: "re-anchored", RePrefix: "key-", ReSuffix: ".key.json"},
		{Naming: "re-anchored"},
		{Naming: "re-unanchored", ReSuffix: ".toml"},
		{Naming: "re-geth"},
	} {
		re := regexp.MustCompile(c.regex())
		a := addrOfKey(pool[0])
		for _, pre := range []string{"", "0x", "key-", "key-0x", "UTC--x--", "UTC----", "UTC--", "ab", "x"} {
			for _, mid := range []string{a, a[:39], a + "a", "0" + a, a[:20] + ".toml" + a[20:]} {
				for _, post := range []string{"", ".key.json", ".toml", ".toml.bak", ".key.json.key.json", "toml"} {
					name := pre + mid + post
					v, addr := matchName(c, name)
					sm := re.FindStringSubmatch(name)
					if (sm != nil) != (v == vYes) || (sm != nil && strings.TrimPrefix(sm[1], "0x") != addr) {
						t.Fatalf("naming model disagrees with regexp %s on %q: model %v %q, regexp %v", c.regex(), name, v, addr, sm)
					}
				}
			}
		}
	}
}

func TestCheck(t *testing.T) {
	quietLogs()
	rec := evid.Start("C08", rule)
	defer rec.Finish()
	statRec = rec
	tmpBase = t.TempDir()
	rec.Assume("signer recovery: ref/rlpref (Yellow-Paper RLP, strict decoder) + ref/secp (own secp256k1 over math/big, keccak primitive from x/crypto); key files written by this package's own V3 writer (scrypt N=2 / PBKDF2-HMAC-SHA256 c=2)")
	rec.Assume("naming / metadata / password lookup model written from config.md; metadata paths are absolute; a per-key password file that is present and readable is the key's password source even when it is empty or white space only " +
		"(trimming on: the empty password; trimming off: the content byte for byte, e.g. \"\\n\") - the default password file is only for keys without a per-key file")
	rec.Assume("caller-owned memory: the fswallet.Config handed to NewFilesystemWallet belongs to the caller - it is compared with a snapshot after construction, Initialize and every action, and the caller overwrites / re-points it afterwards " +
		"(zeroed, pointed at an empty decoy directory with other extensions and metadata settings, or re-used to build a second wallet over a second directory); every wallet is judged against the configuration it was constructed from")
	rec.Assume("not asserted: upper-case hex in file names; primary file spelled with the 0x-prefix form the configuration does not use (extension mode); empty extension without regex; which of several files for one address backs it; " +
		"symbolic links as primary files; whether passwordTrimSpace applies to the default password file; fallback to the default password when a per-key password file exists but is wrong; " +
		"how fast the listener notices a new file (only that the list stays within the matching names)")
	k := evid.NewKind(rec, "wallet", judgeWallet)
	t.Run("selftest", selfTest)
	if t.Failed() {
		t.Fatalf("harness self test failed")
	}
	rec.Corpus(t)
	setSteps(10)
	rec.Rapid(t, "wallet", rec.N(400, 6000), func(rt *rapid.T) {
		c, near := genCase(rt)
		classes, nt := analyze(c, near)
		k.Check(rt, c, nt, classes...)
	})
}

func TestReplay(t *testing.T) {
	quietLogs()
	tmpBase = t.TempDir()
	rec := evid.Start("C08", rule)
	evid.NewKind(rec, "wallet", judgeWallet)
	rec.Replay(t)
}
