package c08

// Minimal Web3 Secret Storage V3 writer (and reader, for its own sanity test) owned by
// this package.  Written from the Web3 Secret Storage definition:
//
//	DK         = KDF(password, salt)                      (32 bytes)
//	ciphertext = AES-128-CTR(key = DK[0:16], iv, secret)
//	mac        = keccak256(DK[16:32] || ciphertext)
//
// KDFs: scrypt (golang.org/x/crypto/scrypt primitive, N=2 r=1 p=1 so that a file costs
// microseconds) and PBKDF2-HMAC-SHA256 (own implementation over crypto/hmac, c=2).
// Salt, IV and the UUID are derived deterministically from the inputs: no randomness.

import (
	"crypto/aes"
	"crypto/cipher"
	"crypto/hmac"
	"crypto/sha256"
	"encoding/binary"
	"encoding/hex"
	"encoding/json"
	"fmt"

	"golang.org/x/crypto/scrypt"

	"verifharness/ref/secp"
)

const (
	scryptN  = 2
	scryptR  = 1
	scryptP  = 1
	pbkdf2C  = 2
	v3DKLen  = 32
	kdfSc    = "scrypt"
	kdfPb    = "pbkdf2"
	prfSHA2  = "hmac-sha256"
	aesCTR   = "aes-128-ctr"
	v3Versio = 3
)

// pbkdf2SHA256 is RFC 8018 PBKDF2 with HMAC-SHA256.
func pbkdf2SHA256(password, salt []byte, c, dkLen int) []byte {
	prf := hmac.New(sha256.New, password)
	hLen := prf.Size()
	var out []byte
	for block := uint32(1); len(out) < dkLen; block++ {
		prf.Reset()
		prf.Write(salt)
		var be [4]byte
		binary.BigEndian.PutUint32(be[:], block)
		prf.Write(be[:])
		u := prf.Sum(nil)
		t := append([]byte{}, u...)
		for i := 1; i < c; i++ {
			prf.Reset()
			prf.Write(u)
			u = prf.Sum(nil)
			for j := 0; j < hLen; j++ {
				t[j] ^= u[j]
			}
		}
		out = append(out, t...)
	}
	return out[:dkLen]
}

func deriveKey(kdf string, password, salt []byte) ([]byte, error) {
	switch kdf {
	case kdfPb:
		return pbkdf2SHA256(password, salt, pbkdf2C, v3DKLen), nil
	default:
		return scrypt.Key(password, salt, scryptN, scryptR, scryptP, v3DKLen)
	}
}

func aesCTRXor(key, iv, in []byte) []byte {
	block, err := aes.NewCipher(key)
	if err != nil {
		panic(err)
	}
	out := make([]byte, len(in))
	cipher.NewCTR(block, iv).XORKeyStream(out, in)
	return out
}

// writeV3 renders a V3 key file holding priv, encrypted with password.
// claim is the value of the informational "address" field (no 0x).
func writeV3(priv []byte, password string, kdf string, claim string) []byte {
	seed := secp.Keccak256([]byte("c08-v3"), priv, []byte{0}, []byte(password), []byte{0}, []byte(kdf), []byte{0}, []byte(claim))
	salt := secp.Keccak256([]byte("salt"), seed)
	iv := secp.Keccak256([]byte("iv"), seed)[:16]
	id := secp.Keccak256([]byte("uuid"), seed)[:16]
	id[6] = (id[6] & 0x0f) | 0x40
	id[8] = (id[8] & 0x3f) | 0x80
	uuid := fmt.Sprintf("%x-%x-%x-%x-%x", id[0:4], id[4:6], id[6:8], id[8:10], id[10:16])

	dk, err := deriveKey(kdf, []byte(password), salt)
	if err != nil {
		panic(err)
	}
	ct := aesCTRXor(dk[0:16], iv, priv)
	mac := secp.Keccak256(dk[16:32], ct)

	var kdfparams map[string]interface{}
	if kdf == kdfPb {
		kdfparams = map[string]interface{}{"c": pbkdf2C, "dklen": v3DKLen, "prf": prfSHA2, "salt": hex.EncodeToString(salt)}
	} else {
		kdf = kdfSc
		kdfparams = map[string]interface{}{"n": scryptN, "r": scryptR, "p": scryptP, "dklen": v3DKLen, "salt": hex.EncodeToString(salt)}
	}
	doc := map[string]interface{}{
		"address": claim,
		"id":      uuid,
		"version": v3Versio,
		"crypto": map[string]interface{}{
			"cipher":       aesCTR,
			"ciphertext":   hex.EncodeToString(ct),
			"cipherparams": map[string]interface{}{"iv": hex.EncodeToString(iv)},
			"kdf":          kdf,
			"kdfparams":    kdfparams,
			"mac":          hex.EncodeToString(mac),
		},
	}
	b, err := json.MarshalIndent(doc, "", "  ")
	if err != nil {
		panic(err)
	}
	return b
}

// readV3 is the inverse of writeV3, used only by the writer's own sanity test.
func readV3(file []byte, password string) ([]byte, error) {
	var doc struct {
		Version int `json:"version"`
		Crypto  struct {
			Cipher       string `json:"cipher"`
			CipherText   string `json:"ciphertext"`
			CipherParams struct {
				IV string `json:"iv"`
			} `json:"cipherparams"`
			KDF       string `json:"kdf"`
			KDFParams struct {
				Salt string `json:"salt"`
			} `json:"kdfparams"`
			MAC string `json:"mac"`
		} `json:"crypto"`
	}
	if err := json.Unmarshal(file, &doc); err != nil {
		return nil, err
	}
	salt, _ := hex.DecodeString(doc.Crypto.KDFParams.Salt)
	iv, _ := hex.DecodeString(doc.Crypto.CipherParams.IV)
	ct, _ := hex.DecodeString(doc.Crypto.CipherText)
	dk, err := deriveKey(doc.Crypto.KDF, []byte(password), salt)
	if err != nil {
		return nil, err
	}
	if hex.EncodeToString(secp.Keccak256(dk[16:32], ct)) != doc.Crypto.MAC {
		return nil, fmt.Errorf("mac mismatch")
	}
	return aesCTRXor(dk[0:16], iv, ct), nil
}
