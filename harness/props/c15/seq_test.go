package c15

import (
	"bytes"
	"crypto/sha256"
	"encoding/hex"
	"encoding/json"
	"errors"
	"fmt"
	"strings"

	"github.com/hyperledger/firefly-signer/pkg/keystorev3"
	"pgregory.net/rapid"

	"verifharness/evid"
	"verifharness/gen"
	"verifharness/ref/v3ref"
)

// ---------------------------------------------------------------------------------------------
// kind "seq": a HISTORY of reads in one process.  The members of a sequence are related: files
// that share salt and password but declare different cost parameters (each genuine, i.e. with
// the MAC of its own parameters), copies whose cost parameters were altered while the MAC was
// left alone, the same files read with near-miss passwords (white space, CR, LF, NUL at an
// edge), files written with such a password, and unrelated files in between.
//
// Oracle per step: the verdict of the strict independent reader for THAT file and THAT
// password alone - a key the library returns must be the key that reader derives (so a file it
// rejects must not yield a key, whatever was read before), and a file in the plain standard
// profile (v3ref.PlainProfile) that the reader decrypts must be read by the library too, with
// the same key: what was read earlier must not change either verdict.
// Oracle over the history: every wallet handed back stays what it was (key, id, metadata)
// after later reads, after the caller's buffers were scribbled over and after other results
// were modified in place; the caller's file and password bytes (and the spare capacity behind
// them) are never written to.
// ---------------------------------------------------------------------------------------------

type SeqStep struct {
	File     string `json:"file"`     // JSON text of the document
	Password string `json:"password"` // hex
}

type SeqCase struct {
	Steps []SeqStep `json:"steps"`
}

const guardLen = 48

type keptWallet struct {
	step int
	w    keystorev3.WalletFile
	key  []byte // snapshot taken right after the call
	id   string
	meta string // canonical JSON of Metadata() right after the call
}

func metaText(w keystorev3.WalletFile) string {
	b, err := json.Marshal(w.Metadata())
	if err != nil {
		return "!unmarshalable: " + err.Error()
	}
	return string(b)
}

func judgeSeq(c SeqCase) (vs []evid.Violation) {
	type input struct{ file, pw []byte }
	ins := make([]input, len(c.Steps))
	total := 0
	for i, st := range c.Steps {
		pw, err := hex.DecodeString(st.Password)
		if err != nil {
			return []evid.Violation{evid.V("harness", "bad case: %v", err)}
		}
		ins[i] = input{[]byte(st.File), pw}
		if reason := overCap(ins[i].file); reason != "" {
			return []evid.Violation{evid.V("harness", "step %d is over the cost cap (%s)", i, reason)}
		}
		total += len(ins[i].file) + len(pw) + 2*guardLen
	}
	// caller-owned memory: every input is a sub-slice of ONE buffer, followed by spare capacity
	arena := bytes.Repeat([]byte{0xA5}, total)
	type span struct{ file, pw []byte }
	spans := make([]span, len(ins))
	off := 0
	for i, in := range ins {
		spans[i].file = arena[off : off+len(in.file)]
		copy(spans[i].file, in.file)
		off += len(in.file) + guardLen
		spans[i].pw = arena[off : off+len(in.pw)]
		copy(spans[i].pw, in.pw)
		off += len(in.pw) + guardLen
	}
	snapshot := append([]byte{}, arena...)

	var kept []keptWallet
	for i, in := range ins {
		ref, rerr := v3ref.ReadOpts(in.file, in.pw, v3ref.Options{Limits: &refLimits})
		var w keystorev3.WalletFile
		var err error
		if pv := evid.Guard("no-panic", func() { w, err = keystorev3.ReadWalletFile(spans[i].file, spans[i].pw) }); pv != nil {
			pv.Detail = fmt.Sprintf("step %d: %s", i, pv.Detail)
			return append(vs, *pv)
		}
		if !bytes.Equal(arena, snapshot) {
			return append(vs, evid.V("inputs-not-modified", "step %d: ReadWalletFile wrote to the caller's file/password bytes or to the spare capacity behind them", i))
		}
		var key []byte
		if !isNilWallet(w) {
			if pv := evid.Guard("no-panic", func() { key = w.PrivateKey() }); pv != nil {
				return append(vs, *pv)
			}
		}
		if err != nil {
			if len(key) > 0 {
				vs = append(vs, evid.V("no-key-on-error", "step %d: error %q together with a wallet exposing a %d-byte key", i, err, len(key)))
			}
			if rerr == nil && v3ref.PlainProfile(in.file) {
				vs = append(vs, evid.V("verdict-independent-of-history", "step %d of %d: the independent reader decrypts this standard file with this password (read alone it has to be accepted), the library fails after the earlier reads of the sequence: %v", i, len(ins), err))
			}
			continue
		}
		if isNilWallet(w) {
			vs = append(vs, evid.V("result-shape", "step %d: nil wallet with nil error", i))
			continue
		}
		switch {
		case rerr == nil:
			if !bytes.Equal(ref.Secret, key) {
				vs = append(vs, evid.V("key-agrees", "step %d: library returns the key %x, the independent reader derives %x from the same file and password", i, key, ref.Secret))
				continue
			}
		case errors.Is(rerr, v3ref.ErrUnspecified):
			continue
		case errors.Is(rerr, v3ref.ErrCost):
			vs = append(vs, evid.V("harness", "step %d: reference refuses the cost of a case the cap admitted: %v", i, rerr))
			continue
		default:
			if cipherFindingOpen {
				k2, err2 := v3ref.ReadOpts(in.file, in.pw, v3ref.Options{Limits: &refLimits, IgnoreCipherName: true})
				if (err2 == nil && bytes.Equal(k2.Secret, key)) || errors.Is(err2, v3ref.ErrUnspecified) {
					continue
				}
			}
			vs = append(vs, evid.V("key-only-if-valid", "step %d of %d: library returns a %d-byte key with no error; the strict independent V3 reader rejects the same file and password read alone: %v", i, len(ins), len(key), rerr))
			continue
		}
		kw := keptWallet{step: i, w: w, key: append([]byte{}, key...)}
		if pv := evid.Guard("no-panic", func() {
			if id := w.GetID(); id != nil {
				kw.id = id.String()
			}
			kw.meta = metaText(w)
		}); pv != nil {
			return append(vs, *pv)
		}
		if ref.HasID && v3ref.IsCanonicalUUID(ref.ID) && kw.id != ref.ID {
			vs = append(vs, evid.V("result-id", "step %d: GetID() = %q, the file says %q", i, kw.id, ref.ID))
		}
		kept = append(kept, kw)
	}
	if len(vs) > 0 {
		return vs
	}

	// the caller re-uses its buffers
	for i := range arena {
		arena[i] ^= 0xFF
	}
	stable := func(when string, skip int) {
		for j, k := range kept {
			if j == skip {
				continue
			}
			if pv := evid.Guard("no-panic", func() {
				if now := k.w.PrivateKey(); !bytes.Equal(now, k.key) {
					vs = append(vs, evid.V("result-stable", "the key read at step %d was %x right after the call and is %x %s", k.step, k.key, now, when))
				}
				if id := k.w.GetID(); id == nil || id.String() != k.id {
					vs = append(vs, evid.V("result-stable", "the id read at step %d was %s right after the call and is %v %s", k.step, k.id, id, when))
				}
				if now := metaText(k.w); now != k.meta {
					vs = append(vs, evid.V("result-stable", "the metadata read at step %d was %s right after the call and is %s %s", k.step, k.meta, now, when))
				}
			}); pv != nil {
				vs = append(vs, *pv)
			}
		}
	}
	stable("after the later reads and after the caller overwrote its file and password buffers", -1)
	if len(vs) > 0 {
		return vs
	}
	// results do not share storage with one another: modify one in place, the others stay
	for j, k := range kept {
		if pv := evid.Guard("no-panic", func() {
			b := k.w.PrivateKey()
			for x := range b {
				b[x] ^= 0x5A
			}
			md := k.w.Metadata()
			for name := range md {
				delete(md, name)
			}
			if md != nil {
				md["scribble"] = j
			}
		}); pv != nil {
			return append(vs, *pv)
		}
		stable(fmt.Sprintf("after the result of step %d was modified in place", k.step), j)
		if len(vs) > 0 {
			return vs
		}
		// put the snapshot back so that later comparisons of this entry are skipped only once
		kept[j].key = append([]byte{}, k.w.PrivateKey()...)
		kept[j].meta = metaText(k.w)
	}
	return vs
}

// ---- generators ---------------------------------------------------------------------------------

// white space, CR, LF, NUL, NBSP, ideographic space, VT, FF, NEL, BOM
var pwEdges = []string{" ", "\t", "\n", "\r\n", "\r", "\n\n", "\x00", "\u00a0", "\u3000", "\v", "\f", "\u0085", "\ufeff", "  ", " \n"}
var pwMulti = []string{"\u00e9", "e\u0301", "\u00fc", "\u00df", "\u0131", "\u03a9", "\u2126", "\u0436", "\u6f22", "\U0001F600", "\u200d", "\u20ac"}

// genPassword draws the password bytes a file is written with: empty, raw bytes, ASCII,
// multi-byte UTF-8; a third of them with white space / CR / LF / NUL at an edge.
func genPassword(rt *rapid.T, l string) ([]byte, string) {
	var core []byte
	class := "pw:bytes"
	switch rapid.IntRange(0, 5).Draw(rt, l+".class") {
	case 0:
		core = gen.Bytes(rt, l+".bytes", rapid.IntRange(0, 12).Draw(rt, l+".len"))
	case 1:
		class = "pw:empty"
	case 2, 3:
		class = "pw:ascii"
		n := rapid.IntRange(1, 16).Draw(rt, l+".n")
		for i := 0; i < n; i++ {
			core = append(core, byte(rapid.IntRange(0x21, 0x7e).Draw(rt, l+".c")))
		}
	default:
		class = "pw:multibyte"
		n := rapid.IntRange(1, 6).Draw(rt, l+".n")
		for i := 0; i < n; i++ {
			if rapid.Bool().Draw(rt, l+".m?") {
				core = append(core, rapid.SampledFrom(pwMulti).Draw(rt, l+".m")...)
			} else {
				core = append(core, byte(rapid.IntRange(0x21, 0x7e).Draw(rt, l+".c")))
			}
		}
	}
	switch rapid.IntRange(0, 8).Draw(rt, l+".edge") {
	case 0:
		return append([]byte(rapid.SampledFrom(pwEdges).Draw(rt, l+".lead")), core...), "pw:edge-leading"
	case 1:
		return append(core, rapid.SampledFrom(pwEdges).Draw(rt, l+".trail")...), "pw:edge-trailing"
	case 2:
		out := append([]byte(rapid.SampledFrom(pwEdges).Draw(rt, l+".lead")), core...)
		return append(out, rapid.SampledFrom(pwEdges).Draw(rt, l+".trail")...), "pw:edge-both"
	}
	return core, class
}

// genPasswordVariant draws a password that differs from pw in its bytes (near misses at the
// edges first). Whether it is another password for a V3 reader is for the reference to say.
func genPasswordVariant(rt *rapid.T, l string, pw []byte) ([]byte, string) {
	type cand struct {
		b   []byte
		how string
	}
	var cands []cand
	add := func(b []byte, how string) {
		if bytes.Equal(b, pw) {
			return
		}
		cands = append(cands, cand{append([]byte{}, b...), how})
	}
	for _, e := range pwEdges {
		add(append(append([]byte{}, pw...), e...), "append-edge")
	}
	for _, e := range pwEdges[:6] {
		add(append([]byte(e), pw...), "prepend-edge")
	}
	add(bytes.TrimRight(pw, "\r\n"), "trim-crlf")
	add(bytes.TrimRight(pw, " \t\r\n"), "trim-right")
	add(bytes.TrimLeft(pw, " \t\r\n"), "trim-left")
	add(bytes.TrimSpace(pw), "trim-space")
	add(bytes.TrimRight(pw, "\x00"), "trim-nul")
	if len(pw) > 0 {
		add(pw[:len(pw)-1], "drop-last")
		add(pw[1:], "drop-first")
		add(nil, "empty")
		add(bytes.ToUpper(pw), "upper")
		add(append(append([]byte{}, pw...), pw...), "doubled")
	}
	add(append(append([]byte{}, pw...), 'x'), "append-x")
	cd := cands[rapid.IntRange(0, len(cands)-1).Draw(rt, l+".variant")]
	return cd.b, cd.how
}

type costSet struct{ n, r, p, c int }

// genSeq draws a family of related files and a sequence of reads over it.  Everything is
// drawn first; salts, IVs and ids are then DERIVED from a digest of all drawn values, so
// that two different cases (in particular two shrink candidates of one failure) never
// share a salt: state a faulty library keeps per salt/password cannot leak from one case
// into another, and a saved failing case fails again when it is replayed on its own.
func genSeq(rt *rapid.T) (SeqCase, bool, []string) {
	kdf, otherKDF := v3ref.KDFScrypt, v3ref.KDFPBKDF2
	if rapid.IntRange(0, 2).Draw(rt, "seq.kdf") == 0 {
		kdf, otherKDF = otherKDF, kdf
	}
	pw, pwClass := genPassword(rt, "seq.pw")
	saltLen := rapid.SampledFrom([]int{32, 16, 8, 20}).Draw(rt, "seq.saltLen")
	secLen := 32
	if rapid.IntRange(0, 4).Draw(rt, "seq.custom") == 0 {
		secLen = rapid.IntRange(1, 64).Draw(rt, "seq.secretLen")
	}
	secret := gen.Bytes(rt, "seq.secret", secLen)
	drawCost := func(l string) costSet {
		return costSet{n: 1 << rapid.IntRange(1, 8).Draw(rt, l+".nExp"), r: rapid.SampledFrom([]int{1, 8, 2, 4}).Draw(rt, l+".r"),
			p: rapid.SampledFrom([]int{1, 2}).Draw(rt, l+".p"), c: rapid.IntRange(1, 64).Draw(rt, l+".c")}
	}
	nsets := rapid.IntRange(2, 3).Draw(rt, "seq.nsets")
	var sets []costSet
	for len(sets) < nsets {
		cs := drawCost(fmt.Sprintf("seq.cost%d", len(sets)))
		for _, o := range sets {
			if (kdf == v3ref.KDFScrypt && o.n == cs.n && o.r == cs.r && o.p == cs.p) || (kdf == v3ref.KDFPBKDF2 && o.c == cs.c) {
				cs.n, cs.c = cs.n*2, cs.c+64+len(sets)
			}
		}
		sets = append(sets, cs)
	}
	// one parameter of the first genuine file changed to a neighbouring / invalid value
	oddField, oddValue := "c", int64(0)
	if kdf == v3ref.KDFScrypt {
		n := int64(sets[0].n)
		switch rapid.IntRange(0, 2).Draw(rt, "seq.odd.field") {
		case 0:
			oddField, oddValue = "n", rapid.SampledFrom([]int64{n - 1, n + 1, 1000, 3, 0, 1, n * 2, n / 2, -n}).Draw(rt, "seq.odd.n")
		case 1:
			oddField, oddValue = "r", rapid.SampledFrom([]int64{0, int64(sets[0].r) + 1, -1, 16}).Draw(rt, "seq.odd.r")
		default:
			oddField, oddValue = "p", rapid.SampledFrom([]int64{0, int64(sets[0].p) + 1, -1, 3}).Draw(rt, "seq.odd.p")
		}
	} else {
		oddValue = rapid.SampledFrom([]int64{int64(sets[0].c) + 1, int64(sets[0].c) * 2, 4096, 1000}).Draw(rt, "seq.odd.c")
	}
	v1, how1 := genPasswordVariant(rt, "seq.v1", pw)
	v2, _ := genPasswordVariant(rt, "seq.v2", pw)
	pw2, _ := genPassword(rt, "seq.pw2")
	extras := rapid.SliceOfN(rapid.Bool(), 16, 16).Draw(rt, "seq.extras")
	// the sequence, as indexes into the pool built below (its layout depends on nsets only)
	poolLen := nsets*nsets + 6
	n := rapid.IntRange(2, 8).Draw(rt, "seq.len")
	picks := make([]int, n)
	for i := range picks {
		switch rapid.IntRange(0, 9).Draw(rt, fmt.Sprintf("seq.pick%d.how", i)) {
		case 0, 1, 2: // a genuine file of the family
			picks[i] = nsets * rapid.IntRange(0, nsets-1).Draw(rt, fmt.Sprintf("seq.pick%d.g", i))
		case 3: // an earlier member again
			if i > 0 {
				picks[i] = picks[rapid.IntRange(0, i-1).Draw(rt, fmt.Sprintf("seq.pick%d.again", i))]
				break
			}
			fallthrough
		default:
			picks[i] = rapid.IntRange(0, poolLen-1).Draw(rt, fmt.Sprintf("seq.pick%d", i))
		}
	}

	digest := sha256.Sum256([]byte(fmt.Sprintf("%s|%x|%d|%x|%v|%s=%d|%x|%x|%x|%v|%v", kdf, pw, saltLen, secret, sets, oddField, oddValue, v1, v2, pw2, extras, picks)))
	derive := func(label string, n int) []byte {
		var out []byte
		for ctr := 0; len(out) < n; ctr++ {
			h := sha256.Sum256(append(append([]byte{byte(ctr)}, digest[:]...), label...))
			out = append(out, h[:]...)
		}
		return out[:n]
	}
	salt := derive("salt", saltLen)
	nbuilt := 0
	build := func(kdf string, cs costSet, password, salt, secret []byte) tree {
		l := fmt.Sprint("file", nbuilt)
		id := derive(l+".id", 16)
		doc, err := v3ref.Build(v3ref.Spec{KDF: kdf, N: cs.n, R: cs.r, P: cs.p, C: cs.c, Salt: salt, IV: derive(l+".iv", 16), Secret: secret, Password: password,
			ID: fmt.Sprintf("%x-%x-%x-%x-%x", id[0:4], id[4:6], id[6:8], id[8:10], id[10:16])})
		if err != nil {
			rt.Fatalf("harness: reference writer: %v", err)
		}
		if extras[nbuilt%len(extras)] {
			doc["name"] = "key " + l
		}
		nbuilt++
		return doc
	}
	text := func(doc tree) string {
		b, err := json.Marshal(doc)
		if err != nil {
			rt.Fatalf("harness: %v", err)
		}
		return string(b)
	}

	type member struct {
		st   SeqStep
		role string
	}
	var pool []member
	addStep := func(file string, password []byte, role string) {
		pool = append(pool, member{SeqStep{File: file, Password: hex.EncodeToString(password)}, role})
	}
	for i, cs := range sets {
		// the genuine file of this cost set, then copies declaring the other sets' parameters under its MAC
		addStep(text(build(kdf, cs, pw, salt, secret)), pw, "genuine")
		for j, other := range sets {
			if j == i {
				continue
			}
			doc := build(kdf, cs, pw, salt, secret)
			kp := sub(sub(doc, "crypto"), "kdfparams")
			if kdf == v3ref.KDFScrypt {
				kp["n"], kp["r"], kp["p"] = int64(other.n), int64(other.r), int64(other.p)
			} else {
				kp["c"] = int64(other.c)
			}
			addStep(text(doc), pw, "altered-cost")
		}
	}
	{
		doc := build(kdf, sets[0], pw, salt, secret)
		sub(sub(doc, "crypto"), "kdfparams")[oddField] = oddValue
		addStep(text(doc), pw, "altered-cost")
	}
	// near-miss passwords on a genuine file, and a genuine file written with a near miss
	addStep(pool[0].st.File, v1, "pw-variant-read")
	addStep(text(build(kdf, sets[0], v2, salt, secret)), v2, "pw-variant-written")
	addStep(pool[len(pool)-1].st.File, pw, "pw-variant-read")
	// the other KDF over the same salt and password, and an unrelated file
	addStep(text(build(otherKDF, sets[0], pw, salt, secret)), pw, "genuine-other-kdf")
	addStep(text(build(kdf, sets[0], pw2, derive("salt2", 16), derive("secret2", 32))), pw2, "unrelated")
	if len(pool) != poolLen {
		rt.Fatalf("harness: pool of %d members, expected %d", len(pool), poolLen)
	}

	var c SeqCase
	var roles []string
	for _, pk := range picks {
		c.Steps = append(c.Steps, pool[pk].st)
		roles = append(roles, pool[pk].role)
	}
	cl := []string{"seq:" + kdf, "seq:" + pwClass}
	seenG, seenA, ga, ag, variant, repeat := false, false, false, false, false, false
	for i, r := range roles {
		switch r {
		case "genuine":
			seenG = true
			if seenA {
				ag = true
			}
		case "altered-cost":
			seenA = true
			if seenG {
				ga = true
			}
		case "pw-variant-read", "pw-variant-written":
			variant = true
		}
		for j := 0; j < i; j++ {
			if c.Steps[j] == c.Steps[i] {
				repeat = true
			}
		}
	}
	add := func(b bool, label string) {
		if b {
			cl = append(cl, label)
		}
	}
	add(ga, "seq:genuine-then-altered-cost")
	add(ag, "seq:altered-cost-then-genuine")
	add(variant, "seq:password-variant")
	add(variant && strings.Contains(how1, "edge"), "seq:password-variant-edge")
	add(repeat, "seq:same-input-repeated")
	return c, ga || ag || variant, cl
}
