// Package c15 decides property C15 (reading a keystore file is total and never
// yields a key a strict V3 implementation would not derive) by generated-input
// search: structure-aware mutants of valid files whose MAC is recomputed by the
// harness, arbitrary bytes, and a native fuzz target; oracle = the strict
// independent reader ref/v3ref.
package c15

import (
	"bytes"
	"encoding/hex"
	"encoding/json"
	"errors"
	"flag"
	"fmt"
	"math"
	"os"
	"path/filepath"
	"reflect"
	"strconv"
	"strings"
	"testing"
	"unicode/utf8"

	"github.com/hyperledger/firefly-signer/pkg/keystorev3"
	"pgregory.net/rapid"

	"verifharness/evid"
	"verifharness/gen"
	"verifharness/ref/v3ref"
)

const rule = "a case is non-trivial when the MAC stored in the (mutated) document is valid for the case's password under the document's own, leniently read, KDF parameters and ciphertext " +
	"(the harness recomputes the MAC after mutating), so that the library gets past the MAC comparison and the malformed field is what decides the outcome; " +
	"a history (kind seq) is non-trivial when it reads a genuine file and a copy with altered cost parameters of the same salt/password family (either order) or uses a near-miss password; every concurrent batch; distinct by hash of the case JSON"

const cipherKey = "cipher-unchecked"

// cipherFindingOpen is set by Probe in every entry point: true only while the open known
// finding "cipher-unchecked" is listed AND still reproduces.  Then a key the library
// returns for a file whose only defect is the cipher name is not reported (it is counted
// as excluded) and the generator does not mutate the cipher name.
var cipherFindingOpen bool

// ---- the case ------------------------------------------------------------------------------------

type FileCase struct {
	File     string `json:"file,omitempty"`    // the document, when it is valid UTF-8
	FileHex  string `json:"fileHex,omitempty"` // otherwise
	Password string `json:"password"`          // hex
	// Risky: judge although a cost parameter exceeds the cap (the dklen = 2^31 family named by the
	// property). Only the generator and the corpus set it; the worker declares such a case before judging.
	Risky bool `json:"risky,omitempty"`
}

func newCase(file, pw []byte, risky bool) FileCase {
	c := FileCase{Password: hex.EncodeToString(pw), Risky: risky}
	if utf8.Valid(file) {
		c.File = string(file)
	} else {
		c.FileHex = hex.EncodeToString(file)
	}
	return c
}

func (c FileCase) bytes() (file, pw []byte, err error) {
	if pw, err = hex.DecodeString(c.Password); err != nil {
		return nil, nil, err
	}
	if c.FileHex != "" {
		file, err = hex.DecodeString(c.FileHex)
		return file, pw, err
	}
	return []byte(c.File), pw, nil
}

// ---- cost classification with mirror structs (same JSON tags and Go types as the library) ----------

// caps: the property quantifies over files whose KDF stays affordable
const (
	capScryptMem = 64 << 20 // 128*N*r bytes
	capScryptOps = 1 << 20  // N*r*p
	capPBKDF2    = 1 << 17  // c * ceil(dklen/32)
	capDKLen     = 1 << 20
	maxFile      = 64 << 10
)

var refLimits = v3ref.Limits{ScryptMem: capScryptMem, ScryptOps: capScryptOps, PBKDF2Work: capPBKDF2, DKLen: capDKLen}

type mirrorKDF struct {
	Crypto struct {
		KDF string `json:"kdf"`
	} `json:"crypto"`
}

type mirrorScrypt struct {
	Crypto struct {
		KDFParams struct {
			DKLen int `json:"dklen"`
			N     int `json:"n"`
			P     int `json:"p"`
			R     int `json:"r"`
		} `json:"kdfparams"`
	} `json:"crypto"`
}

type mirrorPBKDF2 struct {
	Crypto struct {
		KDFParams struct {
			DKLen int `json:"dklen"`
			C     int `json:"c"`
		} `json:"kdfparams"`
	} `json:"crypto"`
}

// overCap returns a non-empty reason when the parameters the library would hand to its
// KDF exceed the cap.  The mirrors have the library's member names and Go types, so a
// decoding error here is a decoding error there (no KDF runs), and the numbers seen
// here are the numbers seen there.  It errs on the side of "over the cap".
func overCap(file []byte) string {
	if len(file) > maxFile {
		return "file-size"
	}
	var k mirrorKDF
	if json.Unmarshal(file, &k) != nil {
		return ""
	}
	dklenOver := ""
	switch k.Crypto.KDF {
	case "scrypt":
		var m mirrorScrypt
		if json.Unmarshal(file, &m) != nil {
			return ""
		}
		p := m.Crypto.KDFParams
		if p.DKLen > capDKLen {
			dklenOver = "dklen"
		}
		if p.N <= 1 || p.N&(p.N-1) != 0 || p.R <= 0 || p.P <= 0 {
			return dklenOver // otherwise rejected (or, unrepaired, crashing) before any work is done
		}
		n, r, pp := float64(p.N), float64(p.R), float64(p.P)
		if r*pp >= 1<<30 || 128*n*r >= math.Pow(2, 64) {
			return dklenOver // the scrypt parameter check rejects these outright
		}
		if 128*n*r > capScryptMem || 128*r*pp > capScryptMem || n*r*pp > capScryptOps {
			return "scrypt-cost"
		}
	case "pbkdf2":
		var m mirrorPBKDF2
		if json.Unmarshal(file, &m) != nil {
			return ""
		}
		p := m.Crypto.KDFParams
		if p.DKLen > capDKLen {
			dklenOver = "dklen"
		}
		if p.C > capPBKDF2 {
			return "pbkdf2-cost"
		}
		if p.C > 1 && p.DKLen > 0 && dklenOver == "" && float64(p.C)*math.Ceil(float64(p.DKLen)/32) > capPBKDF2 {
			return "pbkdf2-cost"
		}
	}
	return dklenOver
}

// ---- the judge -------------------------------------------------------------------------------------

type outcome struct {
	skipped    string // over-cap reason (no verdict)
	libKey     bool   // library returned a key (nil error)
	refKey     bool   // strict reference returned the same key
	unspec     bool   // reference gives no verdict (PBKDF2 c <= 0)
	cipherOnly bool   // key returned, the only thing the strict reader objects to is the cipher name (open known finding)
	panicked   bool
}

func isNilWallet(w keystorev3.WalletFile) bool {
	if w == nil {
		return true
	}
	rv := reflect.ValueOf(w)
	return rv.Kind() == reflect.Ptr && rv.IsNil()
}

func judgeRaw(file, pw []byte, risky bool) (vs []evid.Violation, o outcome) {
	if reason := overCap(file); reason != "" && !risky {
		o.skipped = reason
		return nil, o
	}
	var w keystorev3.WalletFile
	var err error
	if pv := evid.Guard("no-panic", func() { w, err = keystorev3.ReadWalletFile(file, pw) }); pv != nil {
		o.panicked = true
		return []evid.Violation{*pv}, o
	}
	var key []byte
	if !isNilWallet(w) {
		if pv := evid.Guard("no-panic", func() { key = w.PrivateKey() }); pv != nil {
			o.panicked = true
			return []evid.Violation{*pv}, o
		}
	}
	if err != nil {
		if len(key) > 0 {
			vs = append(vs, evid.V("no-key-on-error", "ReadWalletFile returned the error %q together with a wallet exposing a %d-byte key", err, len(key)))
		}
		return vs, o
	}
	if isNilWallet(w) {
		return append(vs, evid.V("result-shape", "nil wallet with nil error")), o
	}
	o.libKey = true
	k, rerr := v3ref.ReadOpts(file, pw, v3ref.Options{Limits: &refLimits})
	switch {
	case rerr == nil:
		if !bytes.Equal(k.Secret, key) {
			vs = append(vs, evid.V("key-agrees", "library returns the key %x, the independent reader derives %x from the same file and password", key, k.Secret))
		} else {
			o.refKey = true
		}
	case errors.Is(rerr, v3ref.ErrUnspecified):
		o.unspec = true
	case errors.Is(rerr, v3ref.ErrCost) && !risky:
		vs = append(vs, evid.V("harness", "reference refuses the cost of a case the cap admitted: %v", rerr))
	default:
		if cipherFindingOpen {
			// open known finding: no verdict where the cipher name is the strict reader's only objection
			// (with the name ignored it derives the same key, or the file lies in the unspecified c <= 0 region)
			k2, err2 := v3ref.ReadOpts(file, pw, v3ref.Options{Limits: &refLimits, IgnoreCipherName: true})
			if (err2 == nil && bytes.Equal(k2.Secret, key)) || errors.Is(err2, v3ref.ErrUnspecified) {
				o.cipherOnly = true
				return vs, o
			}
		}
		vs = append(vs, evid.V("key-only-if-valid", "library returns a %d-byte key with no error; the strict independent V3 reader rejects the same file and password: %v", len(key), rerr))
	}
	return vs, o
}

func judgeFile(c FileCase) []evid.Violation {
	file, pw, err := c.bytes()
	if err != nil {
		return []evid.Violation{evid.V("harness", "bad case: %v", err)}
	}
	vs, _ := judgeRaw(file, pw, c.Risky)
	return vs
}

// ---- lenient reading of a (mutated) generic document, for MAC recomputation --------------------------

type tree = map[string]interface{}

func sub(m tree, key string) tree {
	if m == nil {
		return nil
	}
	t, _ := m[key].(tree)
	return t
}

func lenientInt(v interface{}) (int64, bool) {
	switch x := v.(type) {
	case int:
		return int64(x), true
	case int64:
		return x, true
	case float64:
		if x == math.Trunc(x) && math.Abs(x) < 1<<53 {
			return int64(x), true
		}
	case json.Number:
		return lenientInt(json.RawMessage(x))
	case json.RawMessage:
		if i, err := strconv.ParseInt(string(x), 10, 64); err == nil {
			return i, true
		}
		if f, err := strconv.ParseFloat(string(x), 64); err == nil {
			return lenientInt(f)
		}
	}
	return 0, false
}

func lenientHex(v interface{}) ([]byte, bool) {
	switch x := v.(type) {
	case nil:
		return []byte{}, true
	case string:
		b, err := v3ref.DecodeHex(x)
		return b, err == nil
	}
	return nil, false
}

// deriveLenient derives the 32 leading bytes of the key the document's parameters denote
// for pw, reading the parameters as generously as possible (base supplies what the
// document no longer says).  ok is false when nothing can be derived affordably.
func deriveLenient(doc tree, pw []byte, baseKDF string) (dk []byte, ok bool) {
	crypto := sub(doc, "crypto")
	params := sub(crypto, "kdfparams")
	if params == nil {
		return nil, false
	}
	kdf, _ := crypto["kdf"].(string)
	if kdf != v3ref.KDFScrypt && kdf != v3ref.KDFPBKDF2 {
		kdf = baseKDF
	}
	salt, ok := lenientHex(params["salt"])
	if !ok {
		return nil, false
	}
	lim := refLimits
	var err error
	if kdf == v3ref.KDFScrypt {
		n, ok1 := lenientInt(params["n"])
		r, ok2 := lenientInt(params["r"])
		p, ok3 := lenientInt(params["p"])
		if !ok1 || !ok2 || !ok3 {
			return nil, false
		}
		dk, err = v3ref.DeriveScrypt(pw, salt, n, r, p, 32, &lim)
	} else {
		c, ok1 := lenientInt(params["c"])
		if !ok1 {
			return nil, false
		}
		if c < 1 {
			c = 1 // what the common primitive does with c <= 0
		}
		dk, err = v3ref.DerivePBKDF2(pw, salt, c, 32, &lim)
	}
	return dk, err == nil
}

// macState reports whether the document's MAC is valid for pw (lenient reading).
func macValid(doc tree, pw []byte, baseKDF string) bool {
	crypto := sub(doc, "crypto")
	if crypto == nil {
		return false
	}
	ct, ok := lenientHex(crypto["ciphertext"])
	if !ok {
		return false
	}
	mac, ok := lenientHex(crypto["mac"])
	if !ok || len(mac) != 32 {
		return false
	}
	dk, ok := deriveLenient(doc, pw, baseKDF)
	return ok && bytes.Equal(v3ref.MAC(dk, ct), mac)
}

func recomputeMAC(doc tree, pw []byte, baseKDF string) bool {
	crypto := sub(doc, "crypto")
	if crypto == nil {
		return false
	}
	ct, ok := lenientHex(crypto["ciphertext"])
	if !ok {
		return false
	}
	dk, ok := deriveLenient(doc, pw, baseKDF)
	if !ok {
		return false
	}
	crypto["mac"] = hex.EncodeToString(v3ref.MAC(dk, ct))
	return true
}

// ---- generators -----------------------------------------------------------------------------------------

func raw(s string) json.RawMessage { return json.RawMessage(s) }

type base struct {
	doc    tree
	kdf    string
	pw     []byte
	secret []byte
}

func genBase(rt *rapid.T) base {
	s := v3ref.Spec{DKLen: 32}
	if rapid.Bool().Draw(rt, "base.scrypt") {
		s.KDF = v3ref.KDFScrypt
		s.N = 1 << rapid.IntRange(1, 6).Draw(rt, "base.nExp")
		s.R = rapid.SampledFrom([]int{1, 8, 2}).Draw(rt, "base.r")
		s.P = rapid.SampledFrom([]int{1, 2}).Draw(rt, "base.p")
	} else {
		s.KDF = v3ref.KDFPBKDF2
		s.C = rapid.IntRange(1, 64).Draw(rt, "base.c")
	}
	secLen := 32
	if rapid.IntRange(0, 4).Draw(rt, "base.custom") == 0 {
		secLen = rapid.IntRange(1, 64).Draw(rt, "base.secretLen")
	}
	s.Secret = gen.Bytes(rt, "base.secret", secLen)
	if rapid.Bool().Draw(rt, "base.pwRaw") {
		s.Password = gen.Bytes(rt, "base.pw", rapid.IntRange(0, 12).Draw(rt, "base.pwLen"))
	} else {
		// empty / ASCII / multi-byte, a third with white space, CR, LF or NUL at an edge
		s.Password, _ = genPassword(rt, "base.pwText")
	}
	s.Salt = gen.Bytes(rt, "base.salt", rapid.SampledFrom([]int{32, 16, 8, 1}).Draw(rt, "base.saltLen"))
	s.IV = gen.Bytes(rt, "base.iv", 16)
	id := gen.Bytes(rt, "base.id", 16)
	s.ID = fmt.Sprintf("%x-%x-%x-%x-%x", id[0:4], id[4:6], id[6:8], id[8:10], id[10:16])
	if rapid.Bool().Draw(rt, "base.address") {
		s.Address = hex.EncodeToString(gen.Bytes(rt, "base.addr", 20))
	}
	doc, err := v3ref.Build(s)
	if err != nil {
		rt.Fatalf("harness: reference writer: %v", err)
	}
	return base{doc: doc, kdf: s.KDF, pw: s.Password, secret: s.Secret}
}

var wrongTypes = []interface{}{true, false, 0, 1, "x", "", []interface{}{}, tree{}, []interface{}{"aes-128-ctr"}, tree{"iv": "00"}, 1.5, "32", raw("-0")}

// freshValue deep-copies the containers of a table value.
func freshValue(v interface{}) interface{} {
	switch t := v.(type) {
	case tree:
		c := tree{}
		for k, e := range t {
			c[k] = freshValue(e)
		}
		return c
	case []interface{}:
		c := make([]interface{}, len(t))
		for i, e := range t {
			c[i] = freshValue(e)
		}
		return c
	}
	return v
}

type field struct {
	path []string // containers from the root
	key  string
	kind string
}

// fieldsOf lists the members in two groups: those the property is about (parameters that
// feed slice arithmetic, cipher constructors and the KDF) and the structural rest.
func fieldsOf(kdf string) (core, rest []field) {
	kp := []string{"crypto", "kdfparams"}
	core = []field{
		{[]string{"crypto", "cipherparams"}, "iv", "iv"}, {kp, "dklen", "dklen"},
	}
	if kdf == v3ref.KDFScrypt {
		core = append(core, field{kp, "r", "rp"}, field{kp, "p", "rp"}, field{kp, "n", "n"})
	} else {
		core = append(core, field{kp, "c", "c"}, field{kp, "prf", "prf"})
	}
	core = append(core, field{[]string{"crypto"}, "cipher", "cipher"}, field{[]string{"crypto"}, "kdf", "kdf"},
		field{kp, "salt", "salt"}, field{[]string{"crypto"}, "ciphertext", "ciphertext"}, field{[]string{"crypto"}, "mac", "mac"})
	rest = []field{
		{[]string{"crypto"}, "cipherparams", "object"}, {[]string{"crypto"}, "kdfparams", "object"}, {nil, "crypto", "object"},
		{nil, "version", "version"}, {nil, "id", "id"}, {nil, "address", "other"},
	}
	return core, rest
}

func container(doc tree, path []string) tree {
	m := doc
	for _, p := range path {
		m = sub(m, p)
	}
	return m
}

var hugeInts = []json.RawMessage{raw("2147483647"), raw("2147483649"), raw("4294967298"), raw("4294967297"), raw("9007199254740993"),
	raw("4611686018427387904"), raw("9223372036854775807"), raw("-9223372036854775808"), raw("9223372036854775808"), raw("18446744073709551616"),
	raw("18446744073709551617"), raw("1e30"), raw("-2147483648"), raw("1000000000000000000")}

// mutateField applies one mutation to f and returns a label. risky is set for dklen = 2^31.
func mutateField(rt *rapid.T, l string, doc tree, b base, f field, allowRisky bool) (label string, risky bool) {
	m := container(doc, f.path)
	if m == nil {
		return "none", false
	}
	switch rapid.IntRange(0, 9).Draw(rt, l+".how") {
	case 0:
		delete(m, f.key)
		return "missing:" + f.kind, false
	case 1:
		m[f.key] = nil
		return "null:" + f.kind, false
	case 2:
		// a fresh copy: the table holds maps and slices, and a document must never share (or, after a
		// later mutation, contain itself through) a container that lives in a package-level table
		m[f.key] = freshValue(rapid.SampledFrom(wrongTypes).Draw(rt, l+".wrongType"))
		return "wrong-type:" + f.kind, false
	case 3: // same member under a different letter case (and the original removed)
		v, ok := m[f.key]
		if !ok {
			return "none", false
		}
		delete(m, f.key)
		alt := strings.ToUpper(f.key)
		if rapid.Bool().Draw(rt, l+".title") {
			alt = strings.ToUpper(f.key[:1]) + f.key[1:]
		}
		m[alt] = v
		return "key-case:" + f.kind, false
	}
	hexOf := func(n int) string { return gen.HexBytes(rt, l+".bytes", n) }
	badHex := func(orig string) string {
		switch rapid.IntRange(0, 4).Draw(rt, l+".badhex") {
		case 0:
			return orig + "0" // odd length
		case 1:
			return "zz" + orig
		case 2:
			return "0x" + orig
		case 3:
			return strings.ToUpper(orig)
		default:
			return " " + orig
		}
	}
	cur, _ := m[f.key].(string)
	switch f.kind {
	case "id":
		m[f.key] = rapid.SampledFrom([]interface{}{"", "not-a-uuid", strings.ToUpper(cur), strings.ReplaceAll(cur, "-", ""), "urn:uuid:" + cur, "{" + cur + "}", strings.Repeat("z", 36), cur + "0", 7}).Draw(rt, l+".id")
	case "version":
		m[f.key] = rapid.SampledFrom([]interface{}{0, 1, 2, 4, -3, raw("3.0"), raw("3e0"), "3", 3.5, raw("4294967299"), raw("18446744073709551619"), raw("-0"), 30, 33}).Draw(rt, l+".version")
	case "cipher":
		m[f.key] = rapid.SampledFrom([]interface{}{"aes-256-cbc", "aes-128-cbc", "aes-256-ctr", "AES-128-CTR", "aes-128-ctr ", " aes-128-ctr", "", "es-128-ctr", "aes128ctr", "none", "aes-128-ctr\x00"}).Draw(rt, l+".cipher")
	case "ciphertext":
		switch rapid.IntRange(0, 3).Draw(rt, l+".ct") {
		case 0:
			m[f.key] = ""
		case 1:
			m[f.key] = hexOf(rapid.SampledFrom([]int{1, 15, 16, 17, 31, 33, 64, 100}).Draw(rt, l+".ctLen"))
		case 2:
			m[f.key] = badHex(cur)
		default:
			if len(cur) >= 2 {
				m[f.key] = cur[:len(cur)-2]
			}
		}
	case "iv":
		if rapid.IntRange(0, 4).Draw(rt, l+".ivBad") == 0 {
			m[f.key] = badHex(cur)
		} else {
			m[f.key] = hexOf(rapid.IntRange(0, 32).Draw(rt, l+".ivLen"))
		}
	case "kdf":
		other := v3ref.KDFPBKDF2
		if b.kdf == v3ref.KDFPBKDF2 {
			other = v3ref.KDFScrypt
		}
		m[f.key] = rapid.SampledFrom([]interface{}{"SCRYPT", "Scrypt", "PBKDF2", "bcrypt", "argon2id", "", "scrypt ", other, other, "pbkdf2-sha256", "scrypt\x00"}).Draw(rt, l+".kdf")
	case "mac":
		switch rapid.IntRange(0, 2).Draw(rt, l+".mac") {
		case 0:
			m[f.key] = hexOf(rapid.SampledFrom([]int{0, 1, 16, 31, 33, 64}).Draw(rt, l+".macLen"))
		case 1:
			m[f.key] = badHex(cur)
		default:
			m[f.key] = hexOf(32)
		}
		return "mac-replaced", false
	case "salt":
		switch rapid.IntRange(0, 2).Draw(rt, l+".salt") {
		case 0:
			m[f.key] = ""
		case 1:
			m[f.key] = hexOf(rapid.SampledFrom([]int{1, 7, 16, 33, 64, 200}).Draw(rt, l+".saltLen"))
		default:
			m[f.key] = badHex(cur)
		}
	case "prf":
		m[f.key] = rapid.SampledFrom([]interface{}{"hmac-sha512", "hmac-sha1", "HMAC-SHA256", "hmac-sha256 ", "", "sha256", "hmac-sha256\x00", "hmac-sha3-256"}).Draw(rt, l+".prf")
	case "dklen":
		choices := []interface{}{-1, 0, 16, 31, 33, 64, 1, 48, 1000, -32, 15, 17, 24, raw("32.0"), raw("3.2e1"), raw("-9223372036854775808"), raw("9223372036854775808"), 65536, 1 << 20}
		if allowRisky {
			choices = append(choices, raw("2147483648"), raw("2147483648"), raw("2147483648"))
		}
		v := rapid.SampledFrom(choices).Draw(rt, l+".dklen")
		m[f.key] = v
		if r, ok := v.(json.RawMessage); ok && string(r) == "2147483648" {
			return "dklen=2^31", true
		}
		if i, ok := lenientInt(v); ok {
			switch {
			case i < 0:
				return "dklen<0", false
			case i < 32:
				return "dklen<32", false
			case i > 32:
				return "dklen>32", false
			}
		}
		return "dklen:other", false
	case "n":
		n, _ := lenientInt(m[f.key])
		switch rapid.IntRange(0, 3).Draw(rt, l+".n") {
		case 0:
			m[f.key] = rapid.SampledFrom([]interface{}{0, 1, -1, -n, raw("-0"), raw("4.0"), "4"}).Draw(rt, l+".nSmall")
			return "n<=1", false
		case 1:
			m[f.key] = rapid.SampledFrom([]int64{3, 5, 6, 7, n + 1, n - 1, 3 * n, 1000, 1023, 1025, 65535, 100000}).Draw(rt, l+".nOdd")
			if v := m[f.key].(int64); v > 1 && v&(v-1) == 0 || v <= 1 {
				return "n:other", false
			}
			return "n-not-power-of-two", false
		case 2:
			m[f.key] = int64(1) << uint(rapid.IntRange(1, 14).Draw(rt, l+".nExp"))
			return "n-other-power-of-two", false
		default:
			m[f.key] = rapid.SampledFrom(hugeInts).Draw(rt, l+".nHuge")
			return "n-huge", false
		}
	case "rp":
		v, _ := lenientInt(m[f.key])
		switch rapid.IntRange(0, 2).Draw(rt, l+".rp") {
		case 0:
			m[f.key] = rapid.SampledFrom([]interface{}{0, 0, raw("-0"), raw("0.0")}).Draw(rt, l+".zero")
			return f.key + "=0", false
		case 1:
			m[f.key] = rapid.SampledFrom([]int64{-1, -v, v + 1, v - 1, 2 * v, 3, 16}).Draw(rt, l+".small")
			if x := m[f.key].(int64); x == 0 {
				return f.key + "=0", false
			} else if x < 0 {
				return f.key + "<0", false
			}
			return f.key + ":other-valid", false
		default:
			m[f.key] = rapid.SampledFrom(append([]json.RawMessage{raw("1073741824"), raw("2147483648"), raw("4294967296")}, hugeInts...)).Draw(rt, l+".huge")
			return f.key + "-huge", false
		}
	case "c":
		c, _ := lenientInt(m[f.key])
		switch rapid.IntRange(0, 3).Draw(rt, l+".c") {
		case 0: // not asserted beyond "no panic"
			m[f.key] = rapid.SampledFrom([]interface{}{0, -1, -c, raw("-9223372036854775808")}).Draw(rt, l+".cNonPos")
			return "c<=0", false
		case 1:
			m[f.key] = rapid.SampledFrom([]int64{1, c + 1, c - 1, 2 * c, 4096, 1000}).Draw(rt, l+".cValid")
			if m[f.key].(int64) <= 0 {
				return "c<=0", false
			}
			return "c:other-valid", false
		case 2:
			m[f.key] = rapid.SampledFrom([]interface{}{raw("1.0"), raw("1e0"), "1", raw("9223372036854775808"), raw("18446744073709551617"), raw("1.5")}).Draw(rt, l+".cSyntax")
			return "c:number-syntax", false
		default:
			m[f.key] = rapid.SampledFrom([]interface{}{"1", true, []interface{}{1}}).Draw(rt, l+".cType")
			return "wrong-type:c", false
		}
	default: // object-valued members and others
		m[f.key] = rapid.SampledFrom([]interface{}{tree{}, []interface{}{}, "x", 0, tree{"x": 1}}).Draw(rt, l+".obj")
		return "emptied:" + f.key, false
	}
	return "value:" + f.kind, false
}

var cheapCost = map[string]int{"n": 4, "r": 1, "p": 1, "c": 2, "dklen": 32}

// repairCosts puts cheap values back into every cost member, whatever its letter case or place.
func repairCosts(v interface{}) {
	switch x := v.(type) {
	case tree:
		for k, e := range x {
			if cheap, ok := cheapCost[strings.ToLower(k)]; ok {
				x[k] = cheap
			} else {
				repairCosts(e)
			}
		}
	case []interface{}:
		for _, e := range x {
			repairCosts(e)
		}
	}
}

type mutant struct {
	c        FileCase
	labels   []string
	macValid bool
}

func genMutant(rt *rapid.T, rec *evid.Recorder, allowRisky bool) mutant {
	b := genBase(rt)
	core, rest := fieldsOf(b.kdf)
	n := rapid.SampledFrom([]int{1, 1, 1, 2, 2, 3}).Draw(rt, "mut.count")
	var labels []string
	// one case in seven reads the file with a near miss of its password (white space, CR, LF, NUL at an edge,
	// trimmed, ...) while the MAC stays the one of the password the file was written with; two thirds of
	// those leave the document itself intact, so that the password alone decides
	variantPw := rapid.IntRange(0, 6).Draw(rt, "mut.pwVariant") == 0
	if variantPw && rapid.IntRange(0, 2).Draw(rt, "mut.pwVariantOnly") > 0 {
		n = 0
	}
	risky := false
	for i := 0; i < n; i++ {
		l := fmt.Sprintf("mut.%d", i)
		var f field
		if rapid.IntRange(0, 3).Draw(rt, l+".group") < 3 {
			f = core[rapid.IntRange(0, len(core)-1).Draw(rt, l+".core")]
		} else {
			f = rest[rapid.IntRange(0, len(rest)-1).Draw(rt, l+".rest")]
		}
		if f.kind == "cipher" && cipherFindingOpen {
			// open known finding: the region is excluded by construction
			rec.Excluded(cipherKey)
			labels = append(labels, "mutant:excluded-cipher")
			continue
		}
		lab, r := mutateField(rt, l, b.doc, b, f, allowRisky && !risky)
		risky = risky || r
		labels = append(labels, "mutant:"+lab)
	}
	pw := b.pw
	if variantPw {
		var how string
		pw, how = genPasswordVariant(rt, "mut.variant", b.pw)
		labels = append(labels, "mutant:password-variant:"+how)
		if n == 0 {
			labels = append(labels, "mutant:password-variant-only")
		}
	} else if rapid.IntRange(0, 19).Draw(rt, "mut.otherPw") == 7 {
		pw = append(append([]byte{}, pw...), 'x')
		labels = append(labels, "mutant:other-password")
	}
	if variantPw {
		// the MAC of the writer's password over the mutated document (where derivable)
		if n > 0 && recomputeMAC(b.doc, b.pw, b.kdf) {
			labels = append(labels, "mac:recomputed-for-written-password")
		} else {
			labels = append(labels, "mac:left-as-is")
		}
	} else if rapid.IntRange(0, 9).Draw(rt, "mut.recompute") < 8 {
		if recomputeMAC(b.doc, pw, b.kdf) {
			labels = append(labels, "mac:recomputed")
		} else {
			labels = append(labels, "mac:not-derivable")
		}
	} else {
		labels = append(labels, "mac:left-as-is")
	}
	file, err := json.Marshal(b.doc)
	if err != nil {
		rt.Fatalf("harness: marshal mutant: %v", err)
	}
	if reason := overCap(file); reason != "" && !(risky && reason == "dklen") {
		// repair by construction: put the cheap cost parameters back (a combination of mutations drifted over the cap)
		labels = append(labels, "mutant:cost-repaired")
		repairCosts(b.doc)
		risky = false
		if variantPw {
			recomputeMAC(b.doc, b.pw, b.kdf)
		} else {
			recomputeMAC(b.doc, pw, b.kdf)
		}
		file, _ = json.Marshal(b.doc)
		if reason := overCap(file); reason != "" {
			rt.Fatalf("harness: mutant still over the cap (%s) after repair: %s", reason, file)
		}
	}
	mv := macValid(b.doc, pw, b.kdf)
	if mv {
		labels = append(labels, "mac:valid")
	} else {
		labels = append(labels, "mac:invalid")
	}
	return mutant{c: newCase(file, pw, risky), labels: labels, macValid: mv}
}

func genJSONText(rt *rapid.T, l string, depth int) string {
	max := 7
	if depth <= 0 {
		max = 4
	}
	switch rapid.IntRange(0, max).Draw(rt, l+".k") {
	case 0:
		return "null"
	case 1:
		return rapid.SampledFrom([]string{"true", "false"}).Draw(rt, l+".b")
	case 2:
		return rapid.SampledFrom([]string{"0", "3", "-1", "32", "1e400", "3.0", "18446744073709551616", "0.1"}).Draw(rt, l+".n")
	case 3, 4:
		b, _ := json.Marshal(rapid.SampledFrom([]string{"", "scrypt", "pbkdf2", "aes-128-ctr", "hmac-sha256", "00", "zz", "3", "0x", "\u0000"}).Draw(rt, l+".s"))
		return string(b)
	case 5:
		n := rapid.IntRange(0, 3).Draw(rt, l+".an")
		parts := make([]string, n)
		for i := range parts {
			parts[i] = genJSONText(rt, fmt.Sprintf("%s.%d", l, i), depth-1)
		}
		return "[" + strings.Join(parts, ",") + "]"
	default:
		n := rapid.IntRange(0, 5).Draw(rt, l+".on")
		parts := make([]string, n)
		for i := range parts {
			k := rapid.SampledFrom([]string{"id", "version", "crypto", "cipher", "ciphertext", "cipherparams", "iv", "kdf", "kdfparams", "mac", "dklen", "n", "r", "p", "c", "prf", "salt", "Crypto", "x"}).Draw(rt, fmt.Sprintf("%s.k%d", l, i))
			parts[i] = fmt.Sprintf("%q:%s", k, genJSONText(rt, fmt.Sprintf("%s.%d", l, i), depth-1))
		}
		return "{" + strings.Join(parts, ",") + "}"
	}
}

// genArbitrary draws byte strings that are not built field by field.
func genArbitrary(rt *rapid.T) (FileCase, []string, bool) {
	b := genBase(rt)
	valid, _ := json.Marshal(b.doc)
	pw := b.pw
	var file []byte
	var label string
	switch rapid.IntRange(0, 9).Draw(rt, "arb.kind") {
	case 0:
		file = gen.Bytes(rt, "arb.bytes", gen.Len(rt, "arb.len", 300))
		label = "bytes:random"
	case 1:
		file = []byte(genJSONText(rt, "arb.json", 4))
		label = "bytes:random-json"
	case 2, 3: // a few byte substitutions in a valid document
		file = append([]byte{}, valid...)
		k := rapid.IntRange(1, 3).Draw(rt, "arb.flips")
		for i := 0; i < k; i++ {
			pos := rapid.IntRange(0, len(file)-1).Draw(rt, fmt.Sprintf("arb.pos%d", i))
			file[pos] = rapid.SampledFrom([]byte{'0', '1', 'f', 'g', '"', '}', '{', ',', ':', ' ', '-', 'e', '.', 0x00, 0xff, 'A'}).Draw(rt, fmt.Sprintf("arb.val%d", i))
		}
		label = "bytes:substituted"
	case 4:
		file = valid[:rapid.IntRange(0, len(valid)-1).Draw(rt, "arb.cut")]
		label = "bytes:truncated"
	case 5: // insertion / deletion
		pos := rapid.IntRange(0, len(valid)-1).Draw(rt, "arb.pos")
		if rapid.Bool().Draw(rt, "arb.del") {
			file = append(append([]byte{}, valid[:pos]...), valid[pos+1:]...)
		} else {
			ins := rapid.SampledFrom([]string{"0", "00", "-", "\"", ",", " ", "\n", "null", "{}", "[", "\\u0000", "\xef\xbb\xbf"}).Draw(rt, "arb.ins")
			file = append(append(append([]byte{}, valid[:pos]...), ins...), valid[pos:]...)
		}
		label = "bytes:insert-delete"
	case 6: // surrounded
		pre := rapid.SampledFrom([]string{"", " ", "\n\t", "\xef\xbb\xbf", "[", "{\"x\":", strings.Repeat(" ", 5000)}).Draw(rt, "arb.pre")
		post := rapid.SampledFrom([]string{"", " ", "\n", "x", "{}", "]", "}", string(valid), "\x00"}).Draw(rt, "arb.post")
		file = []byte(pre + string(valid) + post)
		label = "bytes:surrounded"
	case 7: // duplicate members: a second crypto / kdfparams / top-level member appended
		extra := rapid.SampledFrom([]string{`"crypto":{}`, `"crypto":null`, `"crypto":{"cipher":"aes-256-cbc"}`, `"crypto":{"cipherparams":{"iv":"00"}}`, `"crypto":{"kdfparams":{"dklen":16}}`,
			`"crypto":{"kdfparams":{"r":0}}`, `"crypto":{"kdfparams":null}`, `"version":4`, `"VERSION":3`, `"id":null`, `"crypto":{"mac":null}`, `"crypto":{"ciphertext":null}`, `"crypto":{"kdf":null}`}).Draw(rt, "arb.dup")
		file = append(append(append([]byte{}, valid[:len(valid)-1]...), ','), []byte(extra+"}")...)
		label = "bytes:duplicate-member"
	case 8: // deep nesting / padding up to the 16 KiB the property names
		switch rapid.IntRange(0, 2).Draw(rt, "arb.big") {
		case 0:
			d := rapid.SampledFrom([]int{100, 5000, 8000}).Draw(rt, "arb.depth")
			file = []byte(strings.Repeat("[", d) + strings.Repeat("]", d))
		case 1:
			d := rapid.SampledFrom([]int{100, 2000}).Draw(rt, "arb.depth")
			file = []byte(strings.Repeat(`{"crypto":`, d) + "1" + strings.Repeat("}", d))
		default:
			file = append(append(append([]byte{}, valid[:len(valid)-1]...), []byte(`,"pad":"`+strings.Repeat("a", 16000-len(valid))+`"`)...), '}')
		}
		label = "bytes:deep-or-large"
	default:
		file = rapid.SampledFrom([][]byte{nil, []byte("null"), []byte("{}"), []byte("[]"), []byte("3"), []byte(`""`), []byte(`{"id":null}`), []byte(`{"version":3}`),
			[]byte(`{"id":"6a2175e5-e553-4e25-ad1b-569a3bb0c3fd","version":3}`), []byte(`{"id":"6a2175e5-e553-4e25-ad1b-569a3bb0c3fd","version":3,"crypto":{"kdf":"scrypt"}}`),
			[]byte(`{"id":"6a2175e5-e553-4e25-ad1b-569a3bb0c3fd","version":3,"crypto":{"kdf":"pbkdf2"}}`), []byte(`{"id":"6a2175e5-e553-4e25-ad1b-569a3bb0c3fd","version":3,"crypto":{"kdf":"pbkdf2","kdfparams":{"prf":"hmac-sha256"}}}`),
			[]byte(`{"id":"6a2175e5-e553-4e25-ad1b-569a3bb0c3fd","version":3,"crypto":{"kdf":"scrypt","kdfparams":{"n":2,"r":1,"p":1,"dklen":32}}}`)}).Draw(rt, "arb.const")
		label = "bytes:constant"
	}
	var doc tree
	mv := false
	if json.Unmarshal(file, &doc) == nil && doc != nil && overCap(file) == "" {
		mv = macValid(doc, pw, b.kdf)
	}
	labels := []string{label}
	if mv {
		labels = append(labels, "mac:valid")
	}
	return newCase(file, pw, false), labels, mv
}

// ---- entry points -------------------------------------------------------------------------------------------

// probeCase: a correct scrypt file (password "pw", secret "secret") that declares aes-256-cbc.
func probeCase() FileCase {
	doc, err := v3ref.Build(v3ref.Spec{KDF: v3ref.KDFScrypt, N: 2, R: 1, P: 1, Salt: []byte("saltsaltsaltsalt"), IV: []byte("0123456789abcdef"),
		Secret: bytes.Repeat([]byte{0x42}, 32), Password: []byte("pw"), ID: "6a2175e5-e553-4e25-ad1b-569a3bb0c3fd"})
	if err != nil {
		panic(err)
	}
	sub(doc, "crypto")["cipher"] = "aes-256-cbc"
	b, _ := json.Marshal(doc)
	return newCase(b, []byte("pw"), false)
}

// namedRisky: the dklen = 2^31 files the property names, one per KDF, MAC valid for "pw".
func namedRisky() []FileCase {
	var out []FileCase
	for _, kdf := range []string{v3ref.KDFPBKDF2, v3ref.KDFScrypt} {
		doc, err := v3ref.Build(v3ref.Spec{KDF: kdf, N: 2, R: 1, P: 1, C: 1, Salt: []byte("saltsaltsaltsalt"), IV: []byte("0123456789abcdef"),
			Secret: bytes.Repeat([]byte{0x42}, 32), Password: []byte("pw"), ID: "6a2175e5-e553-4e25-ad1b-569a3bb0c3fd"})
		if err != nil {
			panic(err)
		}
		sub(sub(doc, "crypto"), "kdfparams")["dklen"] = int64(1) << 31
		b, _ := json.Marshal(doc)
		out = append(out, newCase(b, []byte("pw"), true))
	}
	return out
}

func setup(rec *evid.Recorder) *evid.Kind[FileCase] {
	k := evid.NewKind(rec, "file", judgeFile)
	cipherFindingOpen = false
	cipherFindingOpen = k.Probe(cipherKey, probeCase(), "ReadWalletFile never checks crypto.cipher: a file declaring \"aes-256-cbc\" with a valid MAC is decrypted as AES-128-CTR and a key is returned")
	return k
}

// more holds the kinds added for histories and concurrent callers (registered in TestReplay too).
type more struct {
	kSeq     *evid.Kind[SeqCase]
	poolFile *evid.Pool[FileCase]
	poolSeq  *evid.Pool[SeqCase]
}

func setupMore(rec *evid.Recorder, poolMax int) more {
	return more{
		kSeq:     evid.NewKind(rec, "seq", judgeSeq),
		poolFile: evid.NewPool(rec, "concurrent", judgeFile, poolMax),
		poolSeq:  evid.NewPool(rec, "concurrent-seq", judgeSeq, poolMax/2),
	}
}

// declare writes the case a worker is about to judge when it is in a risky class, so that a
// worker death (address-space limit) is attributable; the returned function removes the file.
func declare(rec *evid.Recorder, c FileCase) func() {
	dir := os.Getenv("VERIF_OUT")
	if dir == "" {
		return func() {}
	}
	p := filepath.Join(dir, fmt.Sprintf("current-%d.json", rec.Shard))
	rawCase, _ := json.Marshal(c)
	b, _ := json.MarshalIndent(evid.ReplayFile{Property: "C15", Kind: "file", Case: rawCase, Note: "the worker died (or was killed) while judging this declared-risky case"}, "", " ")
	_ = os.WriteFile(p, b, 0o644)
	// truncate, never remove: the recorder holds this file open
	return func() { _ = os.Truncate(p, 0) }
}

func check(rt *rapid.T, rec *evid.Recorder, k *evid.Kind[FileCase], c FileCase, nt bool, labels []string) {
	file, pw, _ := c.bytes()
	if c.Risky {
		defer declare(rec, c)()
		k.Check(rt, c, nt, append(labels, "risky:declared")...)
		return
	}
	_, o := judgeRaw(file, pw, c.Risky) // classification only; Check judges (and records) the case itself
	switch {
	case o.skipped != "":
		labels = append(labels, "outcome:skipped-over-cap")
	case o.panicked:
		labels = append(labels, "outcome:panic")
	case o.cipherOnly:
		rec.Excluded(cipherKey)
		labels = append(labels, "outcome:key-despite-cipher-name(known)")
	case o.unspec:
		labels = append(labels, "outcome:key,reference-unspecified(c<=0)")
	case o.libKey && o.refKey:
		labels = append(labels, "outcome:key-agreed")
	case o.libKey:
		labels = append(labels, "outcome:key-disputed")
	default:
		labels = append(labels, "outcome:error")
	}
	k.Check(rt, c, nt, labels...)
}

func TestCheck(t *testing.T) {
	rec := evid.Start("C15", rule)
	defer rec.Finish()
	// the worker runs under an address-space limit; rapid's shrinker remembers every attempt it made (about 2 KB
	// per attempt at ~50,000 attempts a second for this generator), so the default 30 s of shrinking can exhaust it
	if os.Getenv("VERIF_SHRINKTIME") == "" && flag.Lookup("rapid.shrinktime") != nil {
		_ = flag.Set("rapid.shrinktime", "8s")
	}
	rec.Assume("reference: ref/v3ref strict reader (version 3, aes-128-ctr, 16-byte IV, scrypt/pbkdf2-hmac-sha256, parameter ranges, MAC), lenient only in syntax the specification leaves open (0x/upper-case hex, integral numbers written 32.0, empty salt/ciphertext, dklen > 32); JSON layer (member matching, duplicates, null) is encoding/json for both sides")
	rec.Assume("not asserted: PBKDF2 c <= 0 (only 'no panic'); files whose cost parameters exceed the cap (scrypt 128*N*r > 64 MiB or N*r*p > 2^20, PBKDF2 c*blocks > 2^17, dklen > 2^20) are skipped and counted, except the dklen = 2^31 cases the property names, which are declared risky and run under the address-space limit")
	rec.Assume("an error result is always acceptable here (that valid files are read is C07); an error together with an exposed key is not")
	rec.Assume("kind seq (histories): members are files of the independent writer in the plain standard profile (same salt and password under different cost parameters, near-miss passwords) and copies whose cost parameters were altered under an unchanged MAC; for those both verdicts of the independent reader are definite, so each read must give that verdict whatever was read before - a standard file the reader decrypts must be read (the one place where this check demands acceptance), a file it rejects must not yield a key")
	k := setup(rec)
	m := setupMore(rec, 64)
	rec.Corpus(t)

	if rec.Shard == 0 {
		t.Run("named-risky", func(t *testing.T) {
			for _, c := range namedRisky() {
				done := declare(rec, c)
				k.Must(t, c, true, "risky:declared", "mutant:dklen=2^31", "mac:valid")
				done()
			}
		})
	}

	riskyBudget := 2 // dklen = 2^31 costs ~2 GiB and tens of seconds per evaluation on a tree that derives before it validates
	rec.Rapid(t, "mutants", rec.N(4000, 30000), func(rt *rapid.T) {
		mu := genMutant(rt, rec, riskyBudget > 0)
		if mu.c.Risky {
			riskyBudget--
		}
		check(rt, rec, k, mu.c, mu.macValid, mu.labels)
		if !mu.c.Risky && mu.macValid {
			m.poolFile.Offer(mu.c)
		}
	})

	rec.Rapid(t, "arbitrary", rec.N(1500, 15000), func(rt *rapid.T) {
		c, labels, nt := genArbitrary(rt)
		check(rt, rec, k, c, nt, labels)
	})

	// histories: related files read one after the other in this process
	rec.Rapid(t, "seq", rec.N(1200, 10000), func(rt *rapid.T) {
		c, nt, cl := genSeq(rt)
		m.kSeq.Check(rt, c, nt, cl...)
		if nt {
			m.poolSeq.Offer(c)
		}
	})

	// the same judges from several goroutines at once (state shared between calls)
	m.poolFile.Run(t, 4, 3, 16)
	m.poolSeq.Run(t, 4, 2, 8)
}

func TestReplay(t *testing.T) {
	rec := evid.Start("C15", rule)
	setup(rec)
	setupMore(rec, 0)
	// a declared-risky case is declared again, so that a worker death during the replay is attributed to it
	if b, err := os.ReadFile(os.Getenv("VERIF_REPLAY")); err == nil {
		var rf evid.ReplayFile
		var c FileCase
		if json.Unmarshal(b, &rf) == nil && json.Unmarshal(rf.Case, &c) == nil && c.Risky {
			defer declare(rec, c)()
		}
	}
	rec.Replay(t)
}

// FuzzRead is the coverage-guided target (thorough tier): file bytes and password into the
// same oracle. Inputs whose cost parameters exceed the cap are skipped and counted.
func FuzzRead(f *testing.F) {
	seedDoc := func(s v3ref.Spec) []byte {
		s.Salt, s.IV, s.Secret, s.Password, s.ID = []byte("saltsaltsaltsalt"), []byte("0123456789abcdef"), bytes.Repeat([]byte{0x42}, 32), []byte("pw"), "6a2175e5-e553-4e25-ad1b-569a3bb0c3fd"
		b, err := v3ref.Write(s)
		if err != nil {
			panic(err)
		}
		return b
	}
	f.Add(seedDoc(v3ref.Spec{KDF: v3ref.KDFScrypt, N: 2, R: 1, P: 1}), []byte("pw"))
	f.Add(seedDoc(v3ref.Spec{KDF: v3ref.KDFScrypt, N: 16, R: 8, P: 2}), []byte("pw"))
	f.Add(seedDoc(v3ref.Spec{KDF: v3ref.KDFPBKDF2, C: 1}), []byte("pw"))
	f.Add(seedDoc(v3ref.Spec{KDF: v3ref.KDFPBKDF2, C: 37}), []byte("pw"))
	for _, s := range []string{"", "null", "{}", "[]", `{"id":"6a2175e5-e553-4e25-ad1b-569a3bb0c3fd","version":3,"crypto":{"kdf":"scrypt","kdfparams":{"n":2,"r":1,"p":1,"dklen":32}}}`,
		`{"id":"6a2175e5-e553-4e25-ad1b-569a3bb0c3fd","version":3,"crypto":{"kdf":"pbkdf2","kdfparams":{"prf":"hmac-sha256","c":1,"dklen":32}}}`} {
		f.Add([]byte(s), []byte(""))
	}
	rec := evid.Start("C15", rule)
	k := setup(rec)
	var execs, skipped, keys int64
	statPath := filepath.Join(os.Getenv("VERIF_OUT"), fmt.Sprintf("fuzz-FuzzRead-%d.json", os.Getpid()))
	f.Fuzz(func(t *testing.T, file []byte, pw []byte) {
		execs++
		if len(file) > 16<<10 || len(pw) > 1<<10 {
			return
		}
		vs, o := judgeRaw(file, pw, false)
		if o.skipped != "" {
			skipped++
		}
		if o.libKey {
			keys++
		}
		if execs&0x3ff == 0 && os.Getenv("VERIF_OUT") != "" {
			_ = os.WriteFile(statPath, []byte(fmt.Sprintf(`{"execs":%d,"skipped_over_cap":%d,"keys_returned":%d}`, execs, skipped, keys)), 0o644)
		}
		if len(vs) > 0 {
			k.Fail(t, newCase(file, pw, false), vs)
		}
	})
}
