package c15

import (
	"encoding/json"
	"os"
	"testing"

	"verifharness/evid"
	"verifharness/ref/v3ref"
)

func TestZZGenCorpus(t *testing.T) {
	if os.Getenv("KS_GEN") == "" {
		t.Skip()
	}
	mk := func(name, note string, kdf string, risky bool, mut func(doc tree)) {
		s := v3ref.Spec{KDF: kdf, N: 2, R: 1, P: 1, C: 2, Salt: []byte("saltsaltsaltsalt"), IV: []byte("0123456789abcdef"),
			Secret: []byte("0123456789abcdef0123456789abcdef"), Password: []byte("pw"), ID: "6a2175e5-e553-4e25-ad1b-569a3bb0c3fd"}
		doc, err := v3ref.Build(s)
		if err != nil {
			t.Fatal(err)
		}
		mut(doc)
		file, _ := json.Marshal(doc)
		c := newCase(file, []byte("pw"), risky)
		raw, _ := json.Marshal(c)
		b, _ := json.MarshalIndent(evid.ReplayFile{Property: "C15", Kind: "file", Case: raw, Note: note}, "", " ")
		if err := os.WriteFile("/verif/corpus/C15/"+name+".json", append(b, '\n'), 0o644); err != nil {
			t.Fatal(err)
		}
	}
	kp := func(doc tree) tree { return sub(sub(doc, "crypto"), "kdfparams") }
	mk("iv-length-2", "valid MAC, 2-byte IV: cipher.NewCTR panicked (IV length must equal block size) before fix C15-iv-length", "scrypt", false, func(d tree) {
		sub(sub(d, "crypto"), "cipherparams")["iv"] = "0102"
	})
	mk("iv-missing", "valid MAC, no cipherparams.iv: cipher.NewCTR panicked before fix C15-iv-length", "pbkdf2", false, func(d tree) {
		delete(sub(sub(d, "crypto"), "cipherparams"), "iv")
	})
	mk("scrypt-r-zero", "scrypt r = 0: integer divide by zero inside scrypt.Key before fix C15-kdf-param-validation", "scrypt", false, func(d tree) { kp(d)["r"] = 0 })
	mk("scrypt-p-zero", "scrypt p = 0: integer divide by zero inside scrypt.Key before fix C15-kdf-param-validation", "scrypt", false, func(d tree) { kp(d)["p"] = 0 })
	mk("dklen-negative-scrypt", "scrypt dklen = -1: slice bounds out of range [:-1] in the key derivation before fix C15-kdf-param-validation", "scrypt", false, func(d tree) { kp(d)["dklen"] = -1 })
	mk("dklen-negative-pbkdf2", "pbkdf2 dklen = -1: slice bounds out of range [:-1] in the key derivation before fix C15-kdf-param-validation", "pbkdf2", false, func(d tree) { kp(d)["dklen"] = -1 })
	mk("dklen-2pow31", "dklen = 2^31 (named by the property): before fix C15-kdf-param-validation 2 GiB were derived before the length was rejected; must be an error, quickly", "pbkdf2", true, func(d tree) { kp(d)["dklen"] = 1 << 31 })
	mk("cipher-aes-256-cbc", "open known finding cipher-unchecked: declared cipher aes-256-cbc, valid MAC; a key is returned (passes only while the finding is listed as open, or once the cipher name is checked)", "scrypt", false, func(d tree) {
		sub(d, "crypto")["cipher"] = "aes-256-cbc"
	})
}
