// Package c03 decides property C03 (ABI decode inverts encode; JSON output denotes the same
// value in every serializer mode and parses back to the same bytes) by generated-input
// search.  The encoding handed to the decoder comes from the independent encoder
// ref/abiref, the decoded tree is compared with the generated value, and the JSON produced
// by every serializer combination is read back by a harness-side interpreter that knows
// only the type tree and the documented meaning of each serializer option.
package c03

import (
	"bytes"
	"encoding/base64"
	"encoding/json"
	"fmt"
	"math/big"
	"strings"
	"testing"

	"github.com/hyperledger/firefly-signer/pkg/abi"
	"pgregory.net/rapid"

	"verifharness/evid"
	"verifharness/gen/abigen"
	"verifharness/ref/abiref"
	"verifharness/ref/numref"
)

const rule = "the type tree contains a dynamic type below the top-level parameters, or some integer lies within 2 of +-2^53 " +
	"(the number-if-fits switch-over), or a tuple is partially named; distinct by hash of the case (type, value, serializer combinations)"

// DecodeCase is one (type, value) pair with the serializer combinations to fan out to.
type DecodeCase struct {
	Params string          `json:"params"` // abiref declaration of the parameter list
	Value  json.RawMessage `json:"value"`  // abiref.ValueJSON of the arguments
	Combos []int           `json:"combos"` // serializer combinations, see combo
	Fn     string          `json:"fn,omitempty"`
}

// combo decodes a combination index 0..143 = ((mode*4 + ints)*3 + bytes)*4 + addr.
type combo struct{ mode, ints, bytes, addr int }

const nCombos = 3 * 4 * 3 * 4

var (
	modeNames = []string{"object", "flat-array", "self-describing"}
	intNames  = []string{"base10-string", "0x-hex", "json-number", "number-if-fits"}
	byteNames = []string{"hex", "0x-hex", "base64"}
	addrNames = []string{"none", "0x", "plain", "checksum"}
)

func comboOf(i int) combo {
	c := combo{}
	c.addr = i % 4
	i /= 4
	c.bytes = i % 3
	i /= 3
	c.ints = i % 4
	i /= 4
	c.mode = i % 3
	return c
}

func (c combo) index() int { return ((c.mode*4+c.ints)*3+c.bytes)*4 + c.addr }

func (c combo) String() string {
	return fmt.Sprintf("mode=%s int=%s bytes=%s addr=%s", modeNames[c.mode], intNames[c.ints], byteNames[c.bytes], addrNames[c.addr])
}

func (c combo) serializer() *abi.Serializer {
	s := abi.NewSerializer()
	s.SetFormattingMode([]abi.FormattingMode{abi.FormatAsObjects, abi.FormatAsFlatArrays, abi.FormatAsSelfDescribingArrays}[c.mode])
	s.SetIntSerializer([]abi.IntSerializer{abi.Base10StringIntSerializer, abi.HexIntSerializer0xPrefix, abi.JSONNumberIntSerializer, abi.NumberIfFitsOrBase10StringIntSerializer}[c.ints])
	s.SetByteSerializer([]abi.ByteSerializer{abi.HexByteSerializer, abi.HexByteSerializer0xPrefix, abi.Base64ByteSerializer}[c.bytes])
	if c.addr > 0 {
		s.SetAddressSerializer([]abi.AddressSerializer{nil, abi.HexAddrSerializer0xPrefix, abi.HexAddrSerializerPlain, abi.ChecksumAddrSerializer}[c.addr])
	}
	return s
}

// ---- (i) the decoded tree equals the value

func sameTree(t *abiref.Type, v abiref.Value, cv *abi.ComponentValue, path string) error {
	if cv == nil {
		return fmt.Errorf("%s: nil component value", path)
	}
	if cv.Component == nil {
		return fmt.Errorf("%s: nil component", path)
	}
	wantCT := abi.ElementaryComponent
	switch t.Kind {
	case abiref.Array:
		wantCT = abi.FixedArrayComponent
	case abiref.Slice:
		wantCT = abi.DynamicArrayComponent
	case abiref.Tuple:
		wantCT = abi.TupleComponent
	}
	if cv.Component.ComponentType() != wantCT {
		return fmt.Errorf("%s: component type %d, want %d for %s", path, cv.Component.ComponentType(), wantCT, t.Canonical())
	}
	bigInt := func() (*big.Int, error) {
		i, ok := cv.Value.(*big.Int)
		if !ok || i == nil {
			return nil, fmt.Errorf("%s: value of Go type %T, want *big.Int for %s", path, cv.Value, t.Canonical())
		}
		return i, nil
	}
	switch t.Kind {
	case abiref.Uint, abiref.Int:
		i, err := bigInt()
		if err != nil {
			return err
		}
		if i.Cmp(v.Int) != 0 {
			return fmt.Errorf("%s: decoded %s, want %s (%s)", path, i, v.Int, t.Canonical())
		}
	case abiref.Address:
		i, err := bigInt()
		if err != nil {
			return err
		}
		if i.Cmp(new(big.Int).SetBytes(v.Bytes)) != 0 {
			return fmt.Errorf("%s: decoded address %x, want %x", path, i, v.Bytes)
		}
	case abiref.Bool:
		i, err := bigInt()
		if err != nil {
			return err
		}
		want := int64(0)
		if v.Bool {
			want = 1
		}
		if !i.IsInt64() || i.Int64() != want {
			return fmt.Errorf("%s: decoded bool %s, want %d", path, i, want)
		}
	case abiref.FixedBytes, abiref.Function, abiref.Bytes:
		b, ok := cv.Value.([]byte)
		if !ok {
			return fmt.Errorf("%s: value of Go type %T, want []byte for %s", path, cv.Value, t.Canonical())
		}
		if !bytes.Equal(b, v.Bytes) {
			return fmt.Errorf("%s: decoded %d bytes %s, want %d bytes %s", path, len(b), short(b), len(v.Bytes), short(v.Bytes))
		}
	case abiref.String:
		s, ok := cv.Value.(string)
		if !ok {
			return fmt.Errorf("%s: value of Go type %T, want string", path, cv.Value)
		}
		if s != v.Str {
			return fmt.Errorf("%s: decoded string %q, want %q", path, clip(s), clip(v.Str))
		}
	case abiref.Array, abiref.Slice:
		if len(cv.Children) != len(v.Elems) {
			return fmt.Errorf("%s: decoded %d elements, want %d (%s)", path, len(cv.Children), len(v.Elems), t.Canonical())
		}
		for i := range v.Elems {
			if err := sameTree(t.Elem, v.Elems[i], cv.Children[i], fmt.Sprintf("%s[%d]", path, i)); err != nil {
				return err
			}
		}
	case abiref.Tuple:
		if len(cv.Children) != len(t.Members) {
			return fmt.Errorf("%s: decoded %d members, want %d (%s)", path, len(cv.Children), len(t.Members), t.Canonical())
		}
		for i := range t.Members {
			if err := sameTree(t.Members[i].Type, v.Elems[i], cv.Children[i], fmt.Sprintf("%s.%d", path, i)); err != nil {
				return err
			}
		}
	default:
		return fmt.Errorf("%s: type %s is outside the identity claim", path, t.Canonical())
	}
	return nil
}

func short(b []byte) string {
	if len(b) > 48 {
		return fmt.Sprintf("%x…", b[:48])
	}
	return fmt.Sprintf("%x", b)
}

func clip(s string) string {
	if len(s) > 80 {
		return s[:80] + "…"
	}
	return s
}

// ---- (ii) what value does a piece of serializer output denote

var maxSafe = new(big.Int).Sub(new(big.Int).Lsh(big.NewInt(1), 53), big.NewInt(1)) // 2^53-1

type outReader struct {
	c combo
}

func (o outReader) readBytes(j interface{}, path string, n int) ([]byte, error) {
	s, ok := j.(string)
	if !ok {
		return nil, fmt.Errorf("%s: bytes rendered as JSON %T, want string", path, j)
	}
	var b []byte
	switch o.c.bytes {
	case 0, 1:
		var prefixed bool
		var cl numref.HexClass
		b, prefixed, cl = numref.ParseHexBytes(s)
		if cl != numref.HexValid {
			return nil, fmt.Errorf("%s: %q is not hex", path, clip(s))
		}
		if prefixed != (o.c.bytes == 1) {
			return nil, fmt.Errorf("%s: %q: 0x prefix presence does not match the %s byte serializer", path, clip(s), byteNames[o.c.bytes])
		}
	default:
		var err error
		b, err = base64.StdEncoding.Strict().DecodeString(s)
		if err != nil {
			return nil, fmt.Errorf("%s: %q is not standard base64: %v", path, clip(s), err)
		}
	}
	if n >= 0 && len(b) != n {
		return nil, fmt.Errorf("%s: %d bytes rendered, want %d", path, len(b), n)
	}
	return b, nil
}

func (o outReader) readInt(j interface{}, path string) (*big.Int, error) {
	decString := func(s string) (*big.Int, error) {
		d := numref.Classify(s)
		if d.Class != numref.Integer || d.Form != numref.FormDecimal {
			return nil, fmt.Errorf("%s: %q is not a base-10 integer string", path, clip(s))
		}
		return d.Value, nil
	}
	number := func(n json.Number) (*big.Int, error) {
		d := numref.Classify(string(n))
		if d.Class != numref.Integer || d.Form == numref.FormHex || d.Huge {
			return nil, fmt.Errorf("%s: JSON number %s does not denote an integer", path, clip(string(n)))
		}
		return d.Value, nil
	}
	switch o.c.ints {
	case 0:
		s, ok := j.(string)
		if !ok {
			return nil, fmt.Errorf("%s: integer rendered as JSON %T, want base-10 string", path, j)
		}
		return decString(s)
	case 1:
		s, ok := j.(string)
		if !ok {
			return nil, fmt.Errorf("%s: integer rendered as JSON %T, want 0x hex string", path, j)
		}
		d := numref.Classify(s)
		if d.Class != numref.Integer || d.Form != numref.FormHex {
			return nil, fmt.Errorf("%s: %q is not a [-]0x hex integer", path, clip(s))
		}
		return d.Value, nil
	case 2:
		n, ok := j.(json.Number)
		if !ok {
			return nil, fmt.Errorf("%s: integer rendered as JSON %T, want number", path, j)
		}
		return number(n)
	default:
		switch x := j.(type) {
		case json.Number:
			i, err := number(x)
			if err != nil {
				return nil, err
			}
			if new(big.Int).Abs(i).Cmp(maxSafe) > 0 {
				return nil, fmt.Errorf("%s: number-if-fits emitted the JSON number %s although |value| > 2^53-1", path, x)
			}
			return i, nil
		case string:
			i, err := decString(x)
			if err != nil {
				return nil, err
			}
			if new(big.Int).Abs(i).Cmp(maxSafe) <= 0 {
				return nil, fmt.Errorf("%s: number-if-fits emitted the string %q although |value| <= 2^53-1", path, x)
			}
			return i, nil
		}
		return nil, fmt.Errorf("%s: integer rendered as JSON %T", path, j)
	}
}

func (o outReader) read(t *abiref.Type, j interface{}, path string) (abiref.Value, error) {
	switch t.Kind {
	case abiref.Uint, abiref.Int:
		i, err := o.readInt(j, path)
		return abiref.IntV(i), err
	case abiref.Bool:
		b, ok := j.(bool)
		if !ok {
			return abiref.Value{}, fmt.Errorf("%s: bool rendered as JSON %T", path, j)
		}
		return abiref.BoolV(b), nil
	case abiref.Address:
		if o.c.addr == 0 {
			b, err := o.readBytes(j, path, 20)
			return abiref.BytesV(b), err
		}
		s, ok := j.(string)
		if !ok {
			return abiref.Value{}, fmt.Errorf("%s: address rendered as JSON %T", path, j)
		}
		b, prefixed, cl := numref.ParseHexBytes(s)
		if cl != numref.HexValid || len(b) != 20 {
			return abiref.Value{}, fmt.Errorf("%s: %q is not a 20 byte hex address", path, clip(s))
		}
		switch o.c.addr {
		case 1:
			if !prefixed {
				return abiref.Value{}, fmt.Errorf("%s: %q lacks the 0x prefix", path, s)
			}
		case 2:
			if prefixed {
				return abiref.Value{}, fmt.Errorf("%s: %q has a 0x prefix in plain mode", path, s)
			}
		case 3:
			if want := numref.EIP55(b); s != want {
				return abiref.Value{}, fmt.Errorf("%s: %q is not the EIP-55 form %q", path, s, want)
			}
		}
		return abiref.BytesV(b), nil
	case abiref.FixedBytes:
		b, err := o.readBytes(j, path, t.M)
		return abiref.BytesV(b), err
	case abiref.Function:
		b, err := o.readBytes(j, path, 24)
		return abiref.BytesV(b), err
	case abiref.Bytes:
		b, err := o.readBytes(j, path, -1)
		return abiref.BytesV(b), err
	case abiref.String:
		s, ok := j.(string)
		if !ok {
			return abiref.Value{}, fmt.Errorf("%s: string rendered as JSON %T", path, j)
		}
		return abiref.StrV(s), nil
	case abiref.Array, abiref.Slice:
		l, ok := j.([]interface{})
		if !ok {
			return abiref.Value{}, fmt.Errorf("%s: array rendered as JSON %T", path, j)
		}
		if t.Kind == abiref.Array && len(l) != t.Len {
			return abiref.Value{}, fmt.Errorf("%s: %d elements rendered for %s", path, len(l), t.Canonical())
		}
		out := abiref.Value{Elems: make([]abiref.Value, len(l))}
		for i := range l {
			var err error
			if out.Elems[i], err = o.read(t.Elem, l[i], fmt.Sprintf("%s[%d]", path, i)); err != nil {
				return out, err
			}
		}
		return out, nil
	case abiref.Tuple:
		out := abiref.Value{Elems: make([]abiref.Value, len(t.Members))}
		switch o.c.mode {
		case 0:
			m, ok := j.(map[string]interface{})
			if !ok {
				return out, fmt.Errorf("%s: tuple rendered as JSON %T in object mode", path, j)
			}
			if len(m) != len(t.Members) {
				return out, fmt.Errorf("%s: object with %d keys for %d members", path, len(m), len(t.Members))
			}
			for i := range t.Members {
				key := abigen.MemberKey(t, i)
				x, ok := m[key]
				if !ok {
					return out, fmt.Errorf("%s: no key %q (member %d of %s) in object with keys %v", path, key, i, t.Decl(), keysOf(m))
				}
				var err error
				if out.Elems[i], err = o.read(t.Members[i].Type, x, path+"."+key); err != nil {
					return out, err
				}
			}
		case 1:
			l, ok := j.([]interface{})
			if !ok {
				return out, fmt.Errorf("%s: tuple rendered as JSON %T in flat-array mode", path, j)
			}
			if len(l) != len(t.Members) {
				return out, fmt.Errorf("%s: %d entries for %d members", path, len(l), len(t.Members))
			}
			for i := range t.Members {
				var err error
				if out.Elems[i], err = o.read(t.Members[i].Type, l[i], fmt.Sprintf("%s.%d", path, i)); err != nil {
					return out, err
				}
			}
		default:
			l, ok := j.([]interface{})
			if !ok {
				return out, fmt.Errorf("%s: tuple rendered as JSON %T in self-describing mode", path, j)
			}
			if len(l) != len(t.Members) {
				return out, fmt.Errorf("%s: %d entries for %d members", path, len(l), len(t.Members))
			}
			for i := range t.Members {
				m, ok := l[i].(map[string]interface{})
				if !ok || len(m) != 3 {
					return out, fmt.Errorf("%s.%d: entry is not a {name,type,value} object: %v", path, i, l[i])
				}
				if n, _ := m["name"].(string); n != abigen.MemberKey(t, i) || m["name"] == nil {
					return out, fmt.Errorf("%s.%d: name %v, want %q", path, i, m["name"], abigen.MemberKey(t, i))
				}
				if ty, _ := m["type"].(string); ty != t.Members[i].Type.Canonical() {
					return out, fmt.Errorf("%s.%d: type %v, want %q", path, i, m["type"], t.Members[i].Type.Canonical())
				}
				x, ok := m["value"]
				if !ok {
					return out, fmt.Errorf("%s.%d: no value", path, i)
				}
				var err error
				if out.Elems[i], err = o.read(t.Members[i].Type, x, fmt.Sprintf("%s.%d", path, i)); err != nil {
					return out, err
				}
			}
		}
		return out, nil
	}
	return abiref.Value{}, fmt.Errorf("%s: type %s is outside the claim", path, t.Canonical())
}

func keysOf(m map[string]interface{}) []string {
	var ks []string
	for k := range m {
		ks = append(ks, k)
	}
	for i := 1; i < len(ks); i++ {
		for j := i; j > 0 && ks[j] < ks[j-1]; j-- {
			ks[j], ks[j-1] = ks[j-1], ks[j]
		}
	}
	return ks
}

// firstDifference locates where two values of type t differ.
func firstDifference(t *abiref.Type, a, b abiref.Value, path string) string {
	switch t.Kind {
	case abiref.Array, abiref.Slice:
		if len(a.Elems) != len(b.Elems) {
			return fmt.Sprintf("%s: %d vs %d elements", path, len(a.Elems), len(b.Elems))
		}
		for i := range a.Elems {
			if !abiref.Equal(t.Elem, a.Elems[i], b.Elems[i]) {
				return firstDifference(t.Elem, a.Elems[i], b.Elems[i], fmt.Sprintf("%s[%d]", path, i))
			}
		}
	case abiref.Tuple:
		for i := range t.Members {
			if i < len(a.Elems) && i < len(b.Elems) && !abiref.Equal(t.Members[i].Type, a.Elems[i], b.Elems[i]) {
				return firstDifference(t.Members[i].Type, a.Elems[i], b.Elems[i], fmt.Sprintf("%s.%d", path, i))
			}
		}
	}
	return fmt.Sprintf("%s (%s): rendered %s, want %s", path, t.Canonical(), clip(string(abiref.ValueJSON(t, a))), clip(string(abiref.ValueJSON(t, b))))
}

// ---- preconditions of the claim

func distinctKeys(t *abiref.Type) bool {
	ok := true
	t.Walk(func(x *abiref.Type, _ int) {
		if x.Kind != abiref.Tuple {
			return
		}
		seen := map[string]bool{}
		for i := range x.Members {
			k := abigen.MemberKey(x, i)
			if seen[k] {
				ok = false
			}
			seen[k] = true
		}
	})
	return ok
}

func hasFixedPoint(t *abiref.Type) bool {
	r := false
	t.Walk(func(x *abiref.Type, _ int) {
		if x.IsFixedPoint() {
			r = true
		}
	})
	return r
}

func parseCase(c DecodeCase) (*abiref.Type, abiref.Value, abi.ParameterArray, error) {
	t, err := abiref.ParseDecl(c.Params)
	if err != nil {
		return nil, abiref.Value{}, nil, err
	}
	if t.Kind != abiref.Tuple {
		return nil, abiref.Value{}, nil, fmt.Errorf("params must be a tuple")
	}
	v, err := abiref.ValueFromJSON(t, c.Value)
	if err != nil {
		return nil, abiref.Value{}, nil, err
	}
	if err := abiref.Check(t, v); err != nil {
		return nil, abiref.Value{}, nil, err
	}
	var pa abi.ParameterArray
	if err := json.Unmarshal(abigen.ParamsJSON(t, false), &pa); err != nil {
		return nil, abiref.Value{}, nil, err
	}
	return t, v, pa, nil
}

// checkOutput judges one piece of serializer output: it is well-formed JSON, denotes the value v
// under the documented meaning of the combination cb, and (object / flat modes with hex
// renderings) parses back through pa to the bytes data.
func checkOutput(t *abiref.Type, v abiref.Value, pa abi.ParameterArray, data []byte, cb combo, out []byte, api string) (vs []evid.Violation) {
	dec := json.NewDecoder(bytes.NewReader(out))
	dec.UseNumber()
	var j interface{}
	if err := dec.Decode(&j); err != nil {
		return append(vs, evid.V("serialized-json-well-formed", "%s [%s]: %v in %s", api, cb, err, clip(string(out))))
	}
	if !json.Valid(out) {
		return append(vs, evid.V("serialized-json-well-formed", "%s [%s]: text after the JSON value in %s", api, cb, clip(string(out))))
	}
	got, err := outReader{cb}.read(t, j, "")
	if err != nil {
		clause := "serialized-json-denotes-value"
		if strings.Contains(err.Error(), "number-if-fits") {
			clause = "number-if-fits-threshold"
		}
		return append(vs, evid.V(clause, "%s [%s]: %v", api, cb, err))
	}
	if !abiref.Equal(t, got, v) {
		return append(vs, evid.V("serialized-json-denotes-value", "%s [%s]: %s", api, cb, firstDifference(t, got, v, "")))
	}
	// (iii) object / flat modes with hex renderings parse back to the same bytes
	if cb.mode <= 1 && cb.bytes <= 1 {
		var re []byte
		var perr error
		if pv := evid.Guard("no-panic", func() {
			var cv3 *abi.ComponentValue
			if cv3, perr = pa.ParseJSON(out); perr == nil {
				re, perr = cv3.EncodeABIData()
			}
		}); pv != nil {
			return append(vs, *pv)
		}
		if perr != nil {
			vs = append(vs, evid.V("parse-serialized-reencodes", "[%s]: ParseJSON/EncodeABIData of the serializer's own output failed: %v; output %s", cb, perr, clip(string(out))))
		} else if !bytes.Equal(re, data) {
			vs = append(vs, evid.V("parse-serialized-reencodes", "[%s]: re-encoding the parsed output gives different bytes (%d vs %d); output %s", cb, len(re), len(data), clip(string(out))))
		}
	}
	return vs
}

func judgeDecode(c DecodeCase) (vs []evid.Violation) {
	t, v, pa, err := parseCase(c)
	if err != nil {
		return []evid.Violation{evid.V("harness", "bad case: %v", err)}
	}
	if t.HasZeroSizeArrayElem() || hasFixedPoint(t) || !distinctKeys(t) || !abiref.ValidUTF8(t, v) {
		return nil // outside the quantifier of the identity / denotation claim
	}
	data, _, err := abiref.Enc(t, v)
	if err != nil {
		return []evid.Violation{evid.V("harness", "reference encoder: %v", err)}
	}

	// (i) decode inverts the specification encoding
	var cv *abi.ComponentValue
	if pv := evid.Guard("no-panic", func() { cv, err = pa.DecodeABIData(data, 0) }); pv != nil {
		return append(vs, *pv)
	}
	if err != nil {
		return append(vs, evid.V("decode-accepts-spec-encoding", "DecodeABIData rejected the specification encoding (%d bytes) of a value of %s: %v", len(data), t.Canonical(), err))
	}
	if err := sameTree(t, v, cv, ""); err != nil {
		return append(vs, evid.V("decode-inverts-encode", "DecodeABIData: %v", err))
	}
	if c.Fn != "" {
		_, _, pa2, _ := parseCase(c)
		entry := &abi.Entry{Type: abi.Function, Name: c.Fn, Inputs: pa2}
		call := append(abiref.Selector(abiref.Signature(c.Fn, t)), data...)
		var cv2 *abi.ComponentValue
		if pv := evid.Guard("no-panic", func() { cv2, err = entry.DecodeCallData(call) }); pv != nil {
			return append(vs, *pv)
		}
		if err != nil {
			vs = append(vs, evid.V("decode-accepts-spec-encoding", "DecodeCallData rejected selector||encoding for %s: %v", abiref.Signature(c.Fn, t), err))
		} else if err := sameTree(t, v, cv2, ""); err != nil {
			vs = append(vs, evid.V("decode-inverts-encode", "DecodeCallData: %v", err))
		}
	}

	// (ii)-(iv) every serializer combination
	check := func(cb combo, out []byte, api string) {
		vs = append(vs, checkOutput(t, v, pa, data, cb, out, api)...)
	}
	var out []byte
	if pv := evid.Guard("no-panic", func() { out, err = cv.JSON() }); pv != nil {
		return append(vs, *pv)
	}
	if err != nil {
		vs = append(vs, evid.V("serialize-succeeds", "ComponentValue.JSON: %v", err))
	} else {
		check(comboOf(0), out, "ComponentValue.JSON")
	}
	for _, ci := range c.Combos {
		if ci < 0 || ci >= nCombos {
			continue
		}
		cb := comboOf(ci)
		if pv := evid.Guard("no-panic", func() { out, err = cb.serializer().SerializeJSON(cv) }); pv != nil {
			vs = append(vs, *pv)
			continue
		}
		if err != nil {
			vs = append(vs, evid.V("serialize-succeeds", "SerializeJSON [%s]: %v", cb, err))
			continue
		}
		check(cb, out, "SerializeJSON")
		if len(vs) >= 4 {
			break
		}
	}
	return vs
}

// ---- generation

var two53 = new(big.Int).Lsh(big.NewInt(1), 53)

func nearTwo53(i *big.Int) bool {
	d := new(big.Int).Sub(new(big.Int).Abs(i), two53)
	return d.Abs(d).Cmp(big.NewInt(2)) <= 0
}

func caseClasses(t *abiref.Type, v abiref.Value) (nt bool, cl []string) {
	seen := map[string]bool{}
	add := func(s string) {
		if !seen[s] {
			seen[s] = true
			cl = append(cl, s)
		}
	}
	nested, partial := false, false
	maxDepth := 0
	var walkT func(x *abiref.Type, depth, underArray int, inFixedArray bool)
	walkT = func(x *abiref.Type, depth, underArray int, inFixedArray bool) {
		if depth > maxDepth {
			maxDepth = depth
		}
		if depth >= 2 && x.IsDynamic() {
			nested = true
		}
		switch x.Kind {
		case abiref.Tuple:
			named, unnamed := 0, 0
			for _, m := range x.Members {
				if m.Name == "" {
					unnamed++
				} else {
					named++
				}
			}
			if named > 0 && unnamed > 0 {
				partial = true
			}
			if unnamed > 0 {
				add("names:unnamed-member")
			}
			if depth > 0 && len(x.Members) == 0 {
				add("shape:empty-tuple-member")
			}
			if inFixedArray {
				if x.IsDynamic() {
					add("shape:fixed-array-of-dynamic-tuple")
				} else {
					add("shape:fixed-array-of-static-tuple")
				}
			}
			for _, m := range x.Members {
				walkT(m.Type, depth+1, 0, false)
			}
		case abiref.Array:
			if x.Elem.IsDynamic() {
				add("shape:fixed-array-of-dynamic")
			}
			if underArray > 0 && x.Base().IsDynamic() {
				add("shape:array-of-array-of-dynamic")
			}
			walkT(x.Elem, depth+1, underArray+1, true)
		case abiref.Slice:
			if x.Elem.IsDynamic() {
				add("shape:dynamic-array-of-dynamic")
			}
			if underArray > 0 && x.Base().IsDynamic() {
				add("shape:array-of-array-of-dynamic")
			}
			walkT(x.Elem, depth+1, underArray+1, false)
		}
	}
	walkT(t, 0, 0, false)
	near := false
	var walkV func(x *abiref.Type, v abiref.Value)
	walkV = func(x *abiref.Type, v abiref.Value) {
		switch x.Kind {
		case abiref.Uint, abiref.Int:
			if nearTwo53(v.Int) {
				near = true
			}
			lo, hi := x.Range()
			if v.Int.Cmp(hi) == 0 || (x.Kind == abiref.Int && v.Int.Cmp(lo) == 0) {
				add("value:integer-at-range-boundary")
			}
			if v.Int.Sign() < 0 {
				add("value:negative-integer")
			}
		case abiref.Bytes:
			if len(v.Bytes) == 0 {
				add("value:empty-dynamic")
			} else if len(v.Bytes) > 32 {
				add("value:dynamic>32B")
			}
		case abiref.String:
			if len(v.Str) == 0 {
				add("value:empty-dynamic")
			} else if len(v.Str) > 32 {
				add("value:dynamic>32B")
			}
			if len(v.Str) != len([]rune(v.Str)) {
				add("value:multi-byte-utf8")
			}
		case abiref.Address:
			add("value:address")
		case abiref.Array, abiref.Slice:
			if x.Kind == abiref.Slice && len(v.Elems) == 0 {
				add("value:empty-dynamic-array")
			}
			for i := range v.Elems {
				walkV(x.Elem, v.Elems[i])
			}
		case abiref.Tuple:
			for i := range v.Elems {
				walkV(x.Members[i].Type, v.Elems[i])
			}
		}
	}
	walkV(t, v)
	if nested {
		add("type:nested-dynamic")
	}
	if partial {
		add("names:partially-named-tuple")
	}
	if near {
		add("value:integer-within-2-of-2^53")
	}
	if maxDepth >= 4 {
		add("type:depth>=4")
	}
	if len(t.Members) == 0 {
		add("type:no-parameters")
	}
	return nested || near || partial, cl
}

func comboClasses(combos []int) []string {
	seen := map[string]bool{}
	var cl []string
	for _, ci := range combos {
		cb := comboOf(ci)
		for _, s := range []string{"mode:" + modeNames[cb.mode], "int-serializer:" + intNames[cb.ints], "byte-serializer:" + byteNames[cb.bytes], "address-serializer:" + addrNames[cb.addr]} {
			if !seen[s] {
				seen[s] = true
				cl = append(cl, s)
			}
		}
	}
	return cl
}

var allCombos = func() []int {
	a := make([]int, nCombos)
	for i := range a {
		a[i] = i
	}
	return a
}()

func TestCheck(t *testing.T) {
	rec := evid.Start("C03", rule)
	defer rec.Finish()
	rec.Assume("the encoding handed to the decoder is produced by ref/abiref (independent of pkg/abi, anchored to the specification's examples); numeric and hex text is read with ref/numref; EIP-55 from ref/numref")
	rec.Assume("outside the claim: fixed-point types, zero-length fixed arrays / zero-size array elements, tuple member names that collide with default index names, strings that are not valid UTF-8, float serializers")
	rec.Assume("number-if-fits is read as: JSON number iff |i| <= 2^53-1 (the JavaScript safe-integer range), else base-10 string")
	kDec := evid.NewKind(rec, "decode", judgeDecode)
	cpool := evid.NewPool(rec, "concurrent", judgeDecode, 64)
	kHist := evid.NewKind(rec, "history", judgeHistory)
	kShared := evid.NewKind(rec, "shared", judgeShared).DeclareEach()
	rec.Assume("caller-owned memory: the bytes to decode are handed over inside a larger caller-owned receive buffer that is re-used for the next message; the decoder must not write to it and the returned tree must not refer to it; results of one Serializer must survive later calls on the same Serializer (one Serializer per goroutine: concurrent use of a single Serializer is not asserted)")
	rec.Corpus(t)

	t.Run("exhaustive-integer-boundaries", func(t *testing.T) { sweep(t, rec, kDec) })

	perCase := 8
	rec.Rapid(t, "decode", rec.N(8000, 25000), func(rt *rapid.T) {
		depth := rapid.SampledFrom([]int{0, 1, 2, 2, 3, 3, 3}).Draw(rt, "depth")
		ty := abigen.Params(rt, "t", depth, abigen.Opts{NoFixedPoint: true})
		v := abigen.Value(rt, "v", ty)
		c := DecodeCase{Params: ty.Decl(), Value: abiref.ValueJSON(ty, v)}
		if rec.Thorough() {
			c.Combos = allCombos
		} else {
			// 8 of the 144 combinations, spread evenly over all four dimensions: an arithmetic
			// progression with a stride coprime to 144
			start := rapid.IntRange(0, nCombos-1).Draw(rt, "comboStart")
			stride := rapid.SampledFrom([]int{5, 7, 11, 13, 17, 19, 23, 25, 29, 31, 35, 37, 41, 43, 47, 49, 53, 55, 59, 61, 65, 67, 71}).Draw(rt, "comboStride")
			for i := 0; i < perCase; i++ {
				c.Combos = append(c.Combos, (start+i*stride)%nCombos)
			}
		}
		if rapid.Bool().Draw(rt, "callData") {
			c.Fn = rapid.SampledFrom([]string{"f", "transfer", "$_x1", "safeTransferFrom"}).Draw(rt, "fn")
		}
		nt, cl := caseClasses(ty, v)
		cl = append(cl, comboClasses(c.Combos)...)
		cpool.Offer(c)
		kDec.Check(rt, c, nt, cl...)
	})
	cpool.Run(t, 8, 3, 16)
	rec.Rapid(t, "history", rec.N(2500, 15000), func(rt *rapid.T) {
		c, nt, cl := genHistory(rt)
		kHist.Check(rt, c, nt, cl...)
	})
	rec.Rapid(t, "shared", rec.N(30, 60), func(rt *rapid.T) {
		c, nt, cl := genShared(rt)
		kShared.Check(rt, c, nt, cl...)
	})
}

// sweep: every integer type x boundary values (range ends, 0, +-1, +-(2^53-2 … 2^53+2)) decoded
// and serialized with every (mode, integer serializer) pair.
func sweep(t *testing.T, rec *evid.Recorder, k *evid.Kind[DecodeCase]) {
	var combos []int
	for m := 0; m < 3; m++ {
		for is := 0; is < 4; is++ {
			combos = append(combos, combo{mode: m, ints: is, bytes: (m + is) % 3, addr: 0}.index())
		}
	}
	var n, nt int64
	var sample *DecodeCase
	idx := 0
	for _, kind := range []abiref.Kind{abiref.Uint, abiref.Int} {
		for m := 8; m <= 256; m += 8 {
			idx++
			if rec.Shards > 1 && idx%rec.Shards != rec.Shard {
				continue
			}
			ty := &abiref.Type{Kind: kind, M: m}
			named := abiref.TupleOf(abiref.Member{Name: "v", Type: ty})
			unnamed := abiref.TupleOf(abiref.Member{Type: ty}, abiref.Member{Type: abiref.SliceT(ty)})
			lo, hi := ty.Range()
			vals := []*big.Int{lo, hi, big.NewInt(0), big.NewInt(1), big.NewInt(-1), new(big.Int).Add(lo, big.NewInt(1)), new(big.Int).Sub(hi, big.NewInt(1))}
			for d := int64(-2); d <= 2; d++ {
				x := new(big.Int).Add(two53, big.NewInt(d))
				vals = append(vals, x, new(big.Int).Neg(x))
			}
			for _, v := range vals {
				if v.Cmp(lo) < 0 || v.Cmp(hi) > 0 {
					continue
				}
				for _, c := range []DecodeCase{
					{Params: named.Decl(), Value: abiref.ValueJSON(named, abiref.ListV(abiref.IntV(v))), Combos: combos, Fn: "f"},
					{Params: unnamed.Decl(), Value: abiref.ValueJSON(unnamed, abiref.ListV(abiref.IntV(v), abiref.ListV(abiref.IntV(v), abiref.IntV(hi)))), Combos: combos},
				} {
					vs := judgeDecode(c)
					n++
					if nearTwo53(v) {
						nt++
					}
					if sample == nil && nearTwo53(v) {
						cc := c
						sample = &cc
					}
					if len(vs) > 0 {
						k.Fail(t, c, vs)
					}
				}
			}
		}
	}
	k.Bulk(n, nt, true, "exhaustive:64-int-types x boundary values x (mode, int serializer)", sample)
}

func TestReplay(t *testing.T) {
	rec := evid.Start("C03", rule)
	evid.NewKind(rec, "decode", judgeDecode)
	evid.NewPool(rec, "concurrent", judgeDecode, 0)
	evid.NewKind(rec, "history", judgeHistory)
	evid.NewKind(rec, "shared", judgeShared)
	rec.Replay(t)
}
