package c03

// Sequence kinds of C03.
//
//	history (F1/F2) a sequence of messages (type, value) is decoded out of ONE caller-owned receive
//	        buffer that is re-used for every message, and serialised with ONE Serializer. Every
//	        value tree, every []byte returned by SerializeJSON and every SerializeInterface result
//	        is kept; after the last message each of them is judged again against the value it came
//	        from (and against the snapshot taken when it was returned). Then earlier results are
//	        written into and later ones must be unaffected, and the decoder must not have written to
//	        the receive buffer or handed out values that refer to it.
//	shared  (F3) several goroutines, released together, perform the FIRST decodes (and
//	        serialisations) with ONE freshly validated definition of a large type whose dynamic-ness
//	        is only discovered deep inside; every goroutine's tree must equal the value.

import (
	"bytes"
	"encoding/json"
	"fmt"
	"math/big"
	"sync"

	"github.com/hyperledger/firefly-signer/pkg/abi"
	"pgregory.net/rapid"

	"verifharness/evid"
	"verifharness/gen/abigen"
	"verifharness/gen/abigen/abilib"
	"verifharness/ref/abiref"
)

// Msg is one message of a history.
type Msg struct {
	Params string          `json:"params"`
	Value  json.RawMessage `json:"value"`
	Fn     string          `json:"fn,omitempty"` // decode through Entry.DecodeCallData (selector in front)
}

// HistoryCase is a sequence of messages through one receive buffer and one serializer.
type HistoryCase struct {
	Msgs   []Msg `json:"msgs"`
	Combo  int   `json:"combo"`
	Pretty bool  `json:"pretty,omitempty"`
}

type keptMsg struct {
	i      int
	t      *abiref.Type
	v      abiref.Value
	pa     abi.ParameterArray
	data   []byte // the specification encoding (without selector)
	cv     *abi.ComponentValue
	out    []byte // SerializeJSON result, as returned
	snap   []byte // copy taken right after the call
	iface  interface{}
	isnap  []byte // JSON of iface right after the call
	jsn    []byte // ComponentValue.JSON result
	jsnap  []byte
	inside bool // inside the identity / denotation claim
}

func scribbleBytes(b []byte) {
	for i := range b {
		b[i] ^= 0xFF
	}
	_ = append(b, 0xEE, 0xEE, 0xEE)
}

// scribbleTree writes into everything mutable a decoded tree hands out.
func scribbleTree(cv *abi.ComponentValue) {
	if cv == nil {
		return
	}
	switch x := cv.Value.(type) {
	case []byte:
		scribbleBytes(x)
	case *big.Int:
		if x != nil {
			x.SetInt64(-7)
		}
	}
	for _, ch := range cv.Children {
		scribbleTree(ch)
	}
}

// scribbleIface overwrites what a SerializeInterface result lets the caller reach.
func scribbleIface(v interface{}) {
	switch x := v.(type) {
	case map[string]interface{}:
		for k, e := range x {
			scribbleIface(e)
			x[k] = "overwritten"
		}
	case []interface{}:
		for i, e := range x {
			scribbleIface(e)
			x[i] = "overwritten"
		}
	}
}

func judgeHistory(c HistoryCase) (vs []evid.Violation) {
	if c.Combo < 0 || c.Combo >= nCombos || len(c.Msgs) == 0 {
		return []evid.Violation{evid.V("harness", "bad case")}
	}
	cb := comboOf(c.Combo)
	ser := cb.serializer().SetPretty(c.Pretty)
	// the receive buffer: as large as the largest message
	var kept []*keptMsg
	max := 0
	var wires [][]byte
	for i, m := range c.Msgs {
		t, v, pa, err := parseCase(DecodeCase{Params: m.Params, Value: m.Value})
		if err != nil {
			return []evid.Violation{evid.V("harness", "bad message %d: %v", i, err)}
		}
		k := &keptMsg{i: i, t: t, v: v, pa: pa}
		k.inside = !(t.HasZeroSizeArrayElem() || hasFixedPoint(t) || !distinctKeys(t) || !abiref.ValidUTF8(t, v))
		if !k.inside {
			return nil // outside the quantifier
		}
		if k.data, _, err = abiref.Enc(t, v); err != nil {
			return []evid.Violation{evid.V("harness", "reference encoder: %v", err)}
		}
		wire := k.data
		if m.Fn != "" {
			wire = append(abiref.Selector(abiref.Signature(m.Fn, t)), k.data...)
		}
		if len(wire) > max {
			max = len(wire)
		}
		wires = append(wires, wire)
		kept = append(kept, k)
	}
	// Every message arrives in a buffer of its own: that a tree is independent of the input buffer of the same
	// call is not asserted (a decoder handing out views of its input returns exactly the value, which is what
	// C03 states; DESIGN.md 7.4), so the buffers stay untouched for as long as the trees are looked at.
	rxs := make([]*abilib.Owned, len(kept))
	_ = max
	at := func(k *keptMsg) string {
		return fmt.Sprintf("message %d of %d (%s)", k.i, len(kept), clip(c.Msgs[k.i].Params))
	}
	for i, k := range kept {
		rx := abilib.NewOwned(wires[i])
		rxs[i] = rx
		in := rx.Bytes()
		var err error
		if pv := evid.Guard("no-panic", func() {
			if fn := c.Msgs[i].Fn; fn != "" {
				entry := &abi.Entry{Type: abi.Function, Name: fn, Inputs: k.pa}
				k.cv, err = entry.DecodeCallData(in)
			} else {
				k.cv, err = k.pa.DecodeABIData(in, 0)
			}
		}); pv != nil {
			return append(vs, *pv)
		}
		if !rx.Unchanged() {
			return append(vs, evid.V("input-not-written", "%s: the decoder wrote to the caller's receive buffer (or to the memory around it)", at(k)))
		}
		if err != nil {
			return append(vs, evid.V("decode-accepts-spec-encoding", "%s: the specification encoding was rejected: %v", at(k), err))
		}
		if err := sameTree(k.t, k.v, k.cv, ""); err != nil {
			return append(vs, evid.V("decode-inverts-encode", "%s: %v", at(k), err))
		}
		// one serializer for the whole history
		var ierr, jerr error
		if pv := evid.Guard("no-panic", func() {
			k.out, err = ser.SerializeJSON(k.cv)
			k.iface, ierr = ser.SerializeInterface(k.cv)
			k.jsn, jerr = k.cv.JSON()
		}); pv != nil {
			return append(vs, *pv)
		}
		if err != nil || ierr != nil || jerr != nil {
			return append(vs, evid.V("serialize-succeeds", "%s [%s]: SerializeJSON %v, SerializeInterface %v, JSON %v", at(k), cb, err, ierr, jerr))
		}
		k.snap = append([]byte{}, k.out...)
		k.jsnap = append([]byte{}, k.jsn...)
		if k.isnap, err = json.Marshal(k.iface); err != nil {
			return append(vs, evid.V("serialize-succeeds", "%s [%s]: the SerializeInterface result does not marshal: %v", at(k), cb, err))
		}
		if v := checkOutput(k.t, k.v, k.pa, k.data, cb, k.out, "SerializeJSON"); len(v) > 0 {
			return append(vs, v...)
		}
	}

	// F1: everything handed out earlier is still what it was, and still right
	for _, k := range kept {
		if err := sameTree(k.t, k.v, k.cv, ""); err != nil {
			vs = append(vs, evid.V("result-stable", "%s: the value tree decoded earlier changed after later calls: %v", at(k), err))
			continue
		}
		if !bytes.Equal(k.out, k.snap) {
			vs = append(vs, evid.V("result-stable", "%s [%s]: the []byte returned by SerializeJSON changed after later calls on the same Serializer: was %s, is now %s", at(k), cb, clip(string(k.snap)), clip(string(k.out))))
			continue
		}
		if !bytes.Equal(k.jsn, k.jsnap) {
			vs = append(vs, evid.V("result-stable", "%s: the []byte returned by ComponentValue.JSON changed after later calls", at(k)))
			continue
		}
		if now, err := json.Marshal(k.iface); err != nil || !bytes.Equal(now, k.isnap) {
			vs = append(vs, evid.V("result-stable", "%s [%s]: the SerializeInterface result changed after later calls: was %s, is now %s (%v)", at(k), cb, clip(string(k.isnap)), clip(string(now)), err))
			continue
		}
		for _, v := range checkOutput(k.t, k.v, k.pa, k.data, cb, k.out, "SerializeJSON (re-judged after the later calls)") {
			vs = append(vs, v)
		}
		for _, v := range checkOutput(k.t, k.v, k.pa, k.data, cb, k.isnap, "SerializeInterface") {
			vs = append(vs, v)
		}
		// the tree still encodes to the message it came from
		var enc []byte
		var err error
		if pv := evid.Guard("no-panic", func() { enc, err = k.cv.EncodeABIData() }); pv != nil {
			vs = append(vs, *pv)
		} else if err != nil || !bytes.Equal(enc, k.data) {
			vs = append(vs, evid.V("result-stable", "%s: the tree decoded earlier no longer encodes to its message (%v)", at(k), err))
		}
	}
	if len(vs) > 0 {
		return vs
	}
	// F1: write into the first results; the later ones, and a repeat of the first calls, are unaffected
	k0 := kept[0]
	scribbleBytes(k0.out)
	scribbleBytes(k0.jsn)
	scribbleIface(k0.iface)
	for _, k := range kept[1:] {
		now, _ := json.Marshal(k.iface)
		if !bytes.Equal(k.out, k.snap) || !bytes.Equal(k.jsn, k.jsnap) || !bytes.Equal(now, k.isnap) {
			return append(vs, evid.V("result-not-shared", "%s [%s]: writing into the results returned for message 0 changed the results returned for this one", at(k), cb))
		}
	}
	var out2, jsn2 []byte
	var iface2 interface{}
	var err error
	if pv := evid.Guard("no-panic", func() {
		out2, err = ser.SerializeJSON(k0.cv)
		iface2, _ = ser.SerializeInterface(k0.cv)
		jsn2, _ = k0.cv.JSON()
	}); pv != nil {
		return append(vs, *pv)
	}
	i2, _ := json.Marshal(iface2)
	if err != nil || !bytes.Equal(out2, k0.snap) || !bytes.Equal(jsn2, k0.jsnap) || !bytes.Equal(i2, k0.isnap) {
		return append(vs, evid.V("result-not-shared", "%s [%s]: after the caller wrote into the earlier results, serialising the same tree again gives %s, first time %s (%v)", at(k0), cb, clip(string(out2)), clip(string(k0.snap)), err))
	}
	// F1/F2: write into the first tree (its []byte and *big.Int values are the caller's now); the receive
	// buffer and the other trees are unaffected, and decoding the first message again is still right
	scribbleTree(k0.cv)
	for _, k := range kept[1:] {
		if err := sameTree(k.t, k.v, k.cv, ""); err != nil {
			return append(vs, evid.V("result-not-shared", "%s: writing into the tree decoded for message 0 changed this tree: %v", at(k), err))
		}
	}
	var again *abi.ComponentValue
	if pv := evid.Guard("no-panic", func() { again, err = k0.pa.DecodeABIData(append([]byte{}, k0.data...), 0) }); pv != nil {
		return append(vs, *pv)
	}
	if err != nil {
		return append(vs, evid.V("result-not-shared", "%s: decoding the same message again failed: %v", at(k0), err))
	}
	if err := sameTree(k0.t, k0.v, again, ""); err != nil {
		vs = append(vs, evid.V("result-not-shared", "%s: after the caller wrote into the first tree, decoding the same message again gives another value: %v", at(k0), err))
	}
	return vs
}

// ---------------------------------------------------------------- shared

// SharedCase: Workers goroutines decode the encoding of Value with ONE freshly validated
// definition, Rounds times (a fresh definition each round).
type SharedCase struct {
	Params  string          `json:"params"`
	Value   json.RawMessage `json:"value"`
	Fn      string          `json:"fn,omitempty"`
	Combo   int             `json:"combo"`
	Workers int             `json:"workers"`
	Rounds  int             `json:"rounds"`
}

func judgeShared(c SharedCase) (vs []evid.Violation) {
	dc := DecodeCase{Params: c.Params, Value: c.Value, Fn: c.Fn}
	t, v, _, err := parseCase(dc)
	if err != nil {
		return []evid.Violation{evid.V("harness", "bad case: %v", err)}
	}
	if t.HasZeroSizeArrayElem() || hasFixedPoint(t) || !distinctKeys(t) || !abiref.ValidUTF8(t, v) || c.Combo < 0 || c.Combo >= nCombos {
		return nil
	}
	data, _, err := abiref.Enc(t, v)
	if err != nil {
		return []evid.Violation{evid.V("harness", "reference encoder: %v", err)}
	}
	wire := data
	if c.Fn != "" {
		wire = append(abiref.Selector(abiref.Signature(c.Fn, t)), data...)
	}
	cb := comboOf(c.Combo)
	one := func(pa abi.ParameterArray, entry *abi.Entry, ser *abi.Serializer, full bool) *evid.Violation {
		var cv *abi.ComponentValue
		var err error
		in := append([]byte{}, wire...)
		if pv := evid.Guard("no-panic", func() {
			if entry != nil {
				cv, err = entry.DecodeCallData(in)
			} else {
				cv, err = pa.DecodeABIData(in, 0)
			}
		}); pv != nil {
			return pv
		}
		if err != nil {
			return ptr(evid.V("decode-accepts-spec-encoding", "the specification encoding (%d bytes) was rejected: %v", len(wire), err))
		}
		if err := sameTree(t, v, cv, ""); err != nil {
			return ptr(evid.V("decode-inverts-encode", "%v", err))
		}
		if !full {
			return nil
		}
		var out []byte
		if pv := evid.Guard("no-panic", func() { out, err = ser.SerializeJSON(cv) }); pv != nil {
			return pv
		}
		if err != nil {
			return ptr(evid.V("serialize-succeeds", "SerializeJSON [%s]: %v", cb, err))
		}
		if x := checkOutput(t, v, pa, data, cb, out, "SerializeJSON"); len(x) > 0 {
			return &x[0]
		}
		return nil
	}
	fresh := func() (abi.ParameterArray, *abi.Entry, error) {
		_, _, pa, err := parseCase(dc)
		if err != nil {
			return nil, nil, err
		}
		for _, p := range pa {
			if err := p.Validate(); err != nil {
				return nil, nil, err
			}
		}
		var entry *abi.Entry
		if c.Fn != "" {
			entry = &abi.Entry{Type: abi.Function, Name: c.Fn, Inputs: pa}
		}
		return pa, entry, nil
	}
	pa, entry, err := fresh()
	if err != nil {
		return []evid.Violation{evid.V("decode-accepts-spec-encoding", "the library refuses the definition: %v", err)}
	}
	if x := one(pa, entry, cb.serializer(), true); x != nil {
		x.Clause = "sequential:" + x.Clause
		return append(vs, *x)
	}
	workers := c.Workers
	if workers < 2 {
		workers = 2
	}
	var mu sync.Mutex
	for round := 0; round < c.Rounds && len(vs) == 0; round++ {
		pa, entry, err := fresh()
		if err != nil {
			return []evid.Violation{evid.V("harness", "%v", err)}
		}
		bar := abilib.NewBarrier(workers)
		var wg sync.WaitGroup
		for w := 0; w < workers; w++ {
			wg.Add(1)
			go func(w int) {
				defer wg.Done()
				ser := cb.serializer() // a Serializer is not documented as safe for concurrent use: one each
				bar.Wait()
				// the FIRST decode of every goroutine is the one that counts; a second one, with the
				// serialisation clauses, follows on the now used definition
				x := one(pa, entry, ser, false)
				if x == nil && w%2 == 0 {
					x = one(pa, entry, ser, true)
				}
				if x != nil {
					mu.Lock()
					vs = append(vs, evid.V("shared-definition:"+x.Clause, "round %d: %d goroutines decode with ONE freshly validated definition of %s; the encoding decodes correctly on its own but not here: %s", round, workers, clip(c.Params), x.Detail))
					mu.Unlock()
				}
			}(w)
		}
		wg.Wait()
	}
	if len(vs) > 1 {
		vs = vs[:1]
	}
	return vs
}

func ptr(v evid.Violation) *evid.Violation { return &v }

// ---------------------------------------------------------------- generation

func hasBytesLike(t *abiref.Type) bool {
	r := false
	t.Walk(func(x *abiref.Type, _ int) {
		switch x.Kind {
		case abiref.Bytes, abiref.FixedBytes, abiref.Function:
			r = true
		}
	})
	return r
}

func genHistory(rt *rapid.T) (HistoryCase, bool, []string) {
	c := HistoryCase{Combo: rapid.IntRange(0, nCombos-1).Draw(rt, "combo"), Pretty: rapid.IntRange(0, 3).Draw(rt, "pretty") == 0}
	n := rapid.IntRange(2, 5).Draw(rt, "msgs")
	var ty *abiref.Type
	bytesLike, dyn := false, false
	var cl []string
	seen := map[string]bool{}
	add := func(s string) {
		if !seen[s] {
			seen[s] = true
			cl = append(cl, s)
		}
	}
	for i := 0; i < n; i++ {
		l := fmt.Sprintf("m%d", i)
		// related messages: mostly the same type with another value (shorter and longer), sometimes another type
		if ty == nil || rapid.IntRange(0, 3).Draw(rt, l+".newtype") == 0 {
			depth := rapid.SampledFrom([]int{0, 1, 2, 2, 3}).Draw(rt, l+".depth")
			ty = abigen.Params(rt, l+".t", depth, abigen.Opts{NoFixedPoint: true})
			if i > 0 {
				add("history:type-changes")
			}
		} else {
			add("history:same-type-again")
		}
		if hasBytesLike(ty) {
			bytesLike = true
		}
		if ty.IsDynamic() {
			dyn = true
		}
		var m Msg
		if i > 0 && rapid.IntRange(0, 5).Draw(rt, l+".repeat") == 0 {
			m = c.Msgs[rapid.IntRange(0, i-1).Draw(rt, l+".of")]
			add("history:repeated-message")
		} else {
			v := abigen.Value(rt, l+".v", ty)
			m = Msg{Params: ty.Decl(), Value: abiref.ValueJSON(ty, v)}
			if rapid.IntRange(0, 3).Draw(rt, l+".callData") == 0 {
				m.Fn = rapid.SampledFrom([]string{"f", "transfer", "$_x1"}).Draw(rt, l+".fn")
			}
		}
		c.Msgs = append(c.Msgs, m)
	}
	add(fmt.Sprintf("msgs:%d", n))
	if bytesLike {
		add("history:has-bytes-values")
	}
	if c.Pretty {
		add("serializer:pretty")
	}
	return c, bytesLike || dyn, append(cl, comboClasses([]int{c.Combo})...)
}

func genShared(rt *rapid.T) (SharedCase, bool, []string) {
	var ty *abiref.Type
	var v abiref.Value
	cl := []string{}
	wide := rapid.IntRange(0, 3).Draw(rt, "wide") > 0
	if wide {
		ty = abigen.Wide(rt, "w", 300, 1500)
		v = abigen.PatternValue(ty, rapid.Uint64().Draw(rt, "salt"))
		cl = append(cl, "shape:wide-late-dynamic")
	} else {
		ty = abigen.Params(rt, "t", 3, abigen.Opts{NoFixedPoint: true, Budget: 40, NoEmptyTuple: true})
		v = abigen.Value(rt, "v", ty)
	}
	c := SharedCase{Params: ty.Decl(), Value: abiref.ValueJSON(ty, v), Combo: rapid.IntRange(0, nCombos-1).Draw(rt, "combo"),
		Workers: rapid.SampledFrom([]int{4, 8, 8, 16}).Draw(rt, "workers"), Rounds: rapid.IntRange(10, 30).Draw(rt, "rounds")}
	if rapid.IntRange(0, 2).Draw(rt, "callData") == 0 {
		c.Fn = "f"
	}
	nt, shape := caseClasses(ty, v)
	return c, nt || wide, append(append(cl, shape...), fmt.Sprintf("workers:%d", c.Workers))
}
