// Package c05 decides property C05: secp256k1 sign/recover consistency under every
// V convention, against the independent math/big curve implementation ref/secp.
package c05

import (
	"bytes"
	"context"
	"encoding/hex"
	"fmt"
	"math/big"
	"testing"

	"github.com/hyperledger/firefly-signer/pkg/secp256k1"
	"pgregory.net/rapid"

	"verifharness/evid"
	"verifharness/gen"
	"verifharness/ref/secp"
)

const rule = "a (key, message, chain id, V candidates, tamper) case is non-trivial when the key or R or S has a leading zero byte, or chain id >= 2^31 (every case additionally tries a structured set of V candidates >= 256, which is therefore not part of the rule); histories and concurrent batches always count; V sweeps: every V in [0,2^17] for a (key, chain id) pair, each V that reaches curve arithmetic counted as non-trivial; distinct by hash of the case JSON"

type Case struct {
	KeyTrim bool     `json:"keyTrim,omitempty"` // hand the key over without its leading zero bytes (minimal big-endian form)
	Key     string   `json:"key"`               // 32-byte hex
	Msg     string   `json:"msg"`               // hex; the digest itself when Direct
	Direct  bool     `json:"direct"`            // SignDirect/RecoverDirect instead of Sign/Recover
	ChainID int64    `json:"chainId"`           // chain id supplied to recovery
	Vs      []string `json:"vs"`                // V candidates (decimal) tried with the genuine R,S
	FlipBit int      `json:"flipBit"`           // bit flipped in R (0..255) / S (256..511) for the tamper clause
	MsgFlip int      `json:"msgFlip"`           // bit of the message flipped for the other-message clause (-1: append a byte)
}

// Open known finding "v-compact-byte-alias": a single-byte V equal to the low 8 bits
// of 35+2*chainId+parity (only distinct from the genuine value when that is >= 256,
// i.e. chain id >= 111) is accepted, because the 65-byte compact form truncates V
// to one byte and the repository's own TestGeneratedKeyRoundTrip requires such a
// signature to recover. Set by Probe in the entry points; when set, exactly those
// V values are skipped (and counted).
var excludeCompactAlias bool
var theRec *evid.Recorder

const compactAliasKey = "v-compact-byte-alias"

func isCompactAlias(v *big.Int, chainID int64, parity uint) bool {
	full := 35 + 2*chainID + int64(parity)
	return full >= 256 && v.IsInt64() && v.Int64() >= 0 && v.Int64() <= 255 && v.Int64() == full&0xff
}

type signed struct {
	kp      *secp256k1.KeyPair
	sig     *secp256k1.SignatureData
	hash    []byte
	msg     []byte
	refAddr [20]byte
	parity  uint
}

func recoverWith(c Case, msg []byte, r, s, v *big.Int) (addr []byte, err error) {
	sd := &secp256k1.SignatureData{V: new(big.Int).Set(v), R: new(big.Int).Set(r), S: new(big.Int).Set(s)}
	if c.Direct {
		a, e := sd.RecoverDirect(msg, c.ChainID)
		if e != nil {
			return nil, e
		}
		return a[:], nil
	}
	a, e := sd.Recover(msg, c.ChainID)
	if e != nil {
		return nil, e
	}
	return a[:], nil
}

func signCase(c Case) (*signed, []evid.Violation) {
	var vs []evid.Violation
	keyBytes, _ := hex.DecodeString(c.Key)
	msg, _ := hex.DecodeString(c.Msg)
	d := new(big.Int).SetBytes(keyBytes)
	if c.KeyTrim {
		keyBytes = d.Bytes() // the same scalar, spelled without leading zero bytes
	}
	kp := secp256k1.KeyPairFromBytes(keyBytes)
	if pk := kp.PrivateKeyBytes(); new(big.Int).SetBytes(pk).Cmp(d) != 0 || len(pk) != 32 {
		vs = append(vs, evid.V("private-key-bytes", "PrivateKeyBytes() = %x for the scalar %x", pk, d))
	}
	px, py := secp.PubKey(d)
	refAddr := secp.Address(px, py)
	if !bytes.Equal(kp.Address[:], refAddr[:]) {
		vs = append(vs, evid.V("address-derivation", "KeyPair.Address %x, last 20 bytes of keccak256(uncompressed public key) %x", kp.Address[:], refAddr[:]))
	}
	if pb := kp.PublicKeyBytes(); len(pb) != 64 || new(big.Int).SetBytes(pb[:32]).Cmp(px) != 0 || new(big.Int).SetBytes(pb[32:]).Cmp(py) != 0 {
		vs = append(vs, evid.V("public-key", "PublicKeyBytes %x differs from d*G", pb))
	}
	var sig *secp256k1.SignatureData
	var err error
	hash := msg
	if c.Direct {
		sig, err = kp.SignDirect(msg)
	} else {
		sig, err = kp.Sign(msg)
		hash = secp.Keccak256(msg)
	}
	if err != nil {
		return nil, append(vs, evid.V("sign-succeeds", "%v", err))
	}
	if sig.V.Cmp(big.NewInt(27)) != 0 && sig.V.Cmp(big.NewInt(28)) != 0 {
		return nil, append(vs, evid.V("v-27-28", "V=%s", sig.V))
	}
	if !secp.ValidScalar(sig.R) || !secp.ValidScalar(sig.S) {
		return nil, append(vs, evid.V("rs-range", "r=%x s=%x", sig.R, sig.S))
	}
	if !secp.LowS(sig.S) {
		vs = append(vs, evid.V("low-s", "s=%x", sig.S))
	}
	if !secp.Verify(hash, sig.R, sig.S, px, py) {
		vs = append(vs, evid.V("verifies", "signature does not verify against the key (reference ECDSA verification)"))
	}
	parity := uint(sig.V.Int64() - 27)
	if rx, ry, ok := secp.Recover(hash, sig.R, sig.S, parity); !ok || rx.Cmp(px) != 0 || ry.Cmp(py) != 0 {
		vs = append(vs, evid.V("parity", "V=%s does not carry the parity under which the reference recovers the key", sig.V))
	}
	return &signed{kp: kp, sig: sig, hash: hash, msg: msg, refAddr: refAddr, parity: parity}, vs
}

func validVs(c Case, parity uint) []*big.Int {
	e := new(big.Int).Mul(big.NewInt(c.ChainID), big.NewInt(2))
	e.Add(e, big.NewInt(35+int64(parity)))
	return []*big.Int{big.NewInt(27 + int64(parity)), big.NewInt(int64(parity)), e}
}

func judge(c Case) (vs []evid.Violation) {
	sg, vs := signCase(c)
	if sg == nil {
		return vs
	}
	sig := sg.sig
	valid := validVs(c, sg.parity)
	// the three conventions must recover exactly the signer
	for i, v := range valid {
		a, err := recoverWith(c, sg.msg, sig.R, sig.S, v)
		if err != nil || !bytes.Equal(a, sg.refAddr[:]) {
			vs = append(vs, evid.V("recover-valid-v", "convention %d (V=%s, chain %d): got %x err=%v, want %x", i, v, c.ChainID, a, err, sg.refAddr[:]))
		}
	}
	// every other V must not
	for _, vstr := range c.Vs {
		v, ok := new(big.Int).SetString(vstr, 10)
		if !ok {
			continue
		}
		isValid := false
		for _, w := range valid {
			if w.Cmp(v) == 0 {
				isValid = true
			}
		}
		if isValid {
			continue
		}
		if excludeCompactAlias && isCompactAlias(v, c.ChainID, sg.parity) {
			theRec.Excluded(compactAliasKey)
			continue
		}
		var a []byte
		var err error
		if pv := evid.Guard("recover-no-panic", func() { a, err = recoverWith(c, sg.msg, sig.R, sig.S, v) }); pv != nil {
			vs = append(vs, *pv)
			continue
		}
		if err == nil && bytes.Equal(a, sg.refAddr[:]) {
			vs = append(vs, evid.V("other-v-rejected", "V=%s (chain id %d, genuine parity %d) recovers the signer's address; only %s, %s and %s may", v, c.ChainID, sg.parity, valid[0], valid[1], valid[2]))
		}
	}
	// a different message never recovers the signer
	other := append([]byte{}, sg.msg...)
	if c.MsgFlip < 0 || len(other) == 0 || c.Direct && false {
		if c.Direct {
			other[0] ^= 1
		} else {
			other = append(other, 0x00)
		}
	} else {
		i := c.MsgFlip % (len(other) * 8)
		other[i/8] ^= 1 << uint(i%8)
	}
	if a, err := recoverWith(c, other, sig.R, sig.S, sig.V); err == nil && bytes.Equal(a, sg.refAddr[:]) {
		vs = append(vs, evid.V("other-message", "recovery over a different message returns the signer"))
	}
	// altered R or S with V unchanged never recovers the signer
	type alt struct {
		name string
		r, s *big.Int
	}
	bit := uint(c.FlipBit % 256)
	one := big.NewInt(1)
	two256 := new(big.Int).Lsh(one, 256)
	alts := []alt{
		// values that agree with the genuine one in their low 256 bits (an implementation that narrows to 32 bytes)
		{"R+2^256", new(big.Int).Add(sig.R, two256), sig.S},
		{"S+2^256", sig.R, new(big.Int).Add(sig.S, two256)},
		{"R+n", new(big.Int).Add(sig.R, secp.N), sig.S},
		{"S+n", sig.R, new(big.Int).Add(sig.S, secp.N)},
		{"R+1", new(big.Int).Add(sig.R, one), sig.S},
		{"R-1", new(big.Int).Sub(sig.R, one), sig.S},
		{"S+1", sig.R, new(big.Int).Add(sig.S, one)},
		{"S-1", sig.R, new(big.Int).Sub(sig.S, one)},
		{"n-S", sig.R, new(big.Int).Sub(secp.N, sig.S)},
		{"swap", sig.S, sig.R},
	}
	if c.FlipBit%512 < 256 {
		alts = append(alts, alt{fmt.Sprintf("R^bit%d", bit), new(big.Int).Xor(sig.R, new(big.Int).Lsh(one, bit)), sig.S})
	} else {
		alts = append(alts, alt{fmt.Sprintf("S^bit%d", bit), sig.R, new(big.Int).Xor(sig.S, new(big.Int).Lsh(one, bit))})
	}
	for _, al := range alts {
		if al.r.Cmp(sig.R) == 0 && al.s.Cmp(sig.S) == 0 {
			continue
		}
		if al.r.Sign() < 0 || al.s.Sign() < 0 {
			continue
		}
		var a []byte
		var err error
		if pv := evid.Guard("recover-no-panic", func() { a, err = recoverWith(c, sg.msg, al.r, al.s, sig.V) }); pv != nil {
			vs = append(vs, *pv)
			continue
		}
		if err == nil && bytes.Equal(a, sg.refAddr[:]) {
			vs = append(vs, evid.V("altered-rs", "%s with V unchanged still recovers the signer", al.name))
		}
	}
	// compact form
	compact := sig.CompactRSV()
	want := make([]byte, 65)
	sig.R.FillBytes(want[0:32])
	sig.S.FillBytes(want[32:64])
	want[64] = byte(sig.V.Int64())
	if !bytes.Equal(compact, want) {
		vs = append(vs, evid.V("compact-layout", "CompactRSV %x, want R(32)||S(32)||V(1) %x", compact, want))
	}
	back, err := secp256k1.DecodeCompactRSV(context.Background(), compact)
	if err != nil || back.R.Cmp(sig.R) != 0 || back.S.Cmp(sig.S) != 0 || back.V.Cmp(sig.V) != 0 {
		vs = append(vs, evid.V("compact-roundtrip", "DecodeCompactRSV(CompactRSV()) differs (err=%v)", err))
	}
	// the compact form after the V convention was changed: 65 bytes R||S||(V mod 256) that decode again
	for _, conv := range []string{"eip155", "eip2930"} {
		cs := &secp256k1.SignatureData{V: new(big.Int).Set(sig.V), R: new(big.Int).Set(sig.R), S: new(big.Int).Set(sig.S)}
		if conv == "eip155" {
			cs.UpdateEIP155(c.ChainID)
			if cs.V.Cmp(valid[2]) != 0 {
				vs = append(vs, evid.V("update-eip155", "UpdateEIP155(%d) gives V=%s, want %s", c.ChainID, cs.V, valid[2]))
			}
		} else {
			cs.UpdateEIP2930()
			if cs.V.Cmp(valid[1]) != 0 {
				vs = append(vs, evid.V("update-eip2930", "UpdateEIP2930 gives V=%s, want %s", cs.V, valid[1]))
			}
		}
		cb := cs.CompactRSV()
		wantC := make([]byte, 65)
		sig.R.FillBytes(wantC[0:32])
		sig.S.FillBytes(wantC[32:64])
		wantC[64] = byte(new(big.Int).And(cs.V, big.NewInt(0xff)).Int64())
		if !bytes.Equal(cb, wantC) {
			vs = append(vs, evid.V("compact-layout-"+conv, "CompactRSV %x, want R(32)||S(32)||low byte of V %x", cb, wantC))
		}
		dec, derr := secp256k1.DecodeCompactRSV(context.Background(), cb)
		if derr != nil {
			vs = append(vs, evid.V("compact-roundtrip-"+conv, "DecodeCompactRSV rejects the compact form of a valid signature (V=%s, byte %d): %v", cs.V, cb[64], derr))
		} else if dec.R.Cmp(sig.R) != 0 || dec.S.Cmp(sig.S) != 0 || dec.V.Cmp(big.NewInt(int64(cb[64]))) != 0 {
			vs = append(vs, evid.V("compact-roundtrip-"+conv, "DecodeCompactRSV(CompactRSV()) differs: V=%s R=%x S=%x", dec.V, dec.R, dec.S))
		}
	}
	// Other lengths: C05 speaks of the 65-byte form only. That 0, 64 or 66 bytes are refused was asserted here at
	// first and raised an alarm on a change that also accepts the 64-byte EIP-2098 form (benign/C05-b5); withdrawn.
	// What stays is that the call returns.
	for _, l := range []int{0, 64, 66} {
		if pv := evid.Guard("compact-length", func() { _, _ = secp256k1.DecodeCompactRSV(context.Background(), make([]byte, l)) }); pv != nil {
			pv.Detail = fmt.Sprintf("DecodeCompactRSV of %d bytes: %s", l, pv.Detail)
			vs = append(vs, *pv)
		}
	}
	return vs
}

// ---- kind "history": a sequence of signings; results handed out earlier are scribbled over
// in place (the API returns pointers to big.Int), later signatures must be unaffected, and
// every earlier signature must still be what it was right after its call.

type SeqCase struct {
	Steps []Case `json:"steps"`
}

func judgeSeq(c SeqCase) (vs []evid.Violation) {
	type kept struct {
		sig  *secp256k1.SignatureData
		snap string
	}
	snapOf := func(s *secp256k1.SignatureData) string { return fmt.Sprintf("V=%s R=%x S=%x", s.V, s.R, s.S) }
	var keep []kept
	for i, st := range c.Steps {
		sg, jv := signCase(st) // full validity of this signature (V in {27,28}, ranges, low-S, verifies, parity)
		if len(jv) > 0 {
			return append(vs, evid.V("history:"+jv[0].Clause, "step %d (after %d earlier signings, the even ones scribbled over): %s", i, i, jv[0].Detail))
		}
		if sg == nil {
			return vs
		}
		keep = append(keep, kept{sig: sg.sig, snap: snapOf(sg.sig)})
		if i%2 == 0 {
			// the caller tries other values in place on the result it was given
			sg.sig.V.SetInt64(29 + int64(i))
			sg.sig.R.SetInt64(1)
			sg.sig.S.Add(sg.sig.S, big.NewInt(1))
			keep[len(keep)-1].snap = snapOf(sg.sig)
		}
	}
	for i, k := range keep {
		if snapOf(k.sig) != k.snap {
			vs = append(vs, evid.V("result-stable-across-calls", "the signature returned by step %d reads %s after later signings, it was %s", i, snapOf(k.sig), k.snap))
		}
	}
	// determinism across the history: every step once more
	for i, st := range c.Steps {
		if _, jv := signCase(st); len(jv) > 0 {
			vs = append(vs, evid.V("history-end:"+jv[0].Clause, "step %d signed again at the end: %s", i, jv[0].Detail))
		}
	}
	return vs
}

// ---- kind "vsweep": every V in [Lo, Hi) for one (key, chain id) pair

type SweepCase struct {
	Key     string `json:"key"`
	ChainID int64  `json:"chainId"`
	Lo      int64  `json:"lo"`
	Hi      int64  `json:"hi"`
}

func judgeSweep(c SweepCase) (vs []evid.Violation) {
	vs, _ = sweep(c)
	return vs
}

func sweep(c SweepCase) (vs []evid.Violation, reachedCurve int64) {
	cc := Case{Key: c.Key, Msg: hex.EncodeToString([]byte("v sweep")), ChainID: c.ChainID}
	sg, vs := signCase(cc)
	if sg == nil {
		return vs, 0
	}
	valid := validVs(cc, sg.parity)
	isValid := func(v int64) bool {
		for _, w := range valid {
			if w.IsInt64() && w.Int64() == v {
				return true
			}
		}
		return false
	}
	sd := &secp256k1.SignatureData{V: new(big.Int), R: sg.sig.R, S: sg.sig.S}
	for v := c.Lo; v < c.Hi; v++ {
		sd.V.SetInt64(v)
		if excludeCompactAlias && isCompactAlias(sd.V, c.ChainID, sg.parity) {
			theRec.Excluded(compactAliasKey)
			continue
		}
		a, err := sd.Recover(sg.msg, c.ChainID)
		if err == nil {
			reachedCurve++
		}
		got := err == nil && bytes.Equal(a[:], sg.refAddr[:])
		if got != isValid(v) {
			if got {
				vs = append(vs, evid.V("other-v-rejected", "V=%d (chain id %d, genuine parity %d) recovers the signer's address", v, c.ChainID, sg.parity))
			} else {
				vs = append(vs, evid.V("recover-valid-v", "V=%d (chain id %d) does not recover the signer: err=%v", v, c.ChainID, err))
			}
			if len(vs) > 4 {
				return vs, reachedCurve
			}
		}
	}
	return vs, reachedCurve
}

// ---- generators

var nMinus1 = new(big.Int).Sub(secp.N, big.NewInt(1))

func genKey(rt *rapid.T) string {
	mode := rapid.IntRange(0, 9).Draw(rt, "key.mode")
	var d *big.Int
	switch {
	case mode == 0:
		d = rapid.SampledFrom([]*big.Int{big.NewInt(0), big.NewInt(1), new(big.Int).Sub(secp.N, big.NewInt(2)), new(big.Int).Sub(secp.N, big.NewInt(3)), new(big.Int).Set(secp.HalfN)}).Draw(rt, "key.special")
	case mode <= 3:
		nb := rapid.IntRange(1, 31).Draw(rt, "key.nbytes")
		d = new(big.Int).SetBytes(rapid.SliceOfN(rapid.Byte(), nb, nb).Draw(rt, "key.bytes"))
	default:
		d = new(big.Int).SetBytes(rapid.SliceOfN(rapid.Byte(), 32, 32).Draw(rt, "key.bytes32"))
	}
	d = new(big.Int).Mod(d, nMinus1)
	d.Add(d, big.NewInt(1))
	b := make([]byte, 32)
	d.FillBytes(b)
	return hex.EncodeToString(b)
}

func genChainID(rt *rapid.T) int64 {
	switch rapid.IntRange(0, 3).Draw(rt, "chain.mode") {
	case 0:
		return rapid.SampledFrom([]int64{0, 1, 2, 109, 110, 111, 1337, 1<<31 - 1, 1 << 31, 1 << 32, 1<<53 - 1, 1 << 53}).Draw(rt, "chain.special")
	case 1:
		return int64(rapid.IntRange(0, 400).Draw(rt, "chain.small"))
	default:
		return rapid.Int64Range(0, 1<<53).Draw(rt, "chain.any")
	}
}

func genVs(rt *rapid.T, chainID int64) []string {
	var out []string
	add := func(v *big.Int) {
		if v.Sign() >= 0 {
			out = append(out, v.String())
		}
	}
	e := new(big.Int).Mul(big.NewInt(chainID), big.NewInt(2))
	e.Add(e, big.NewInt(35))
	// neighbours of every accepted value and of its images under +-256k and +-2^64
	for _, base := range []*big.Int{big.NewInt(0), big.NewInt(27), e} {
		for d := int64(-2); d <= 3; d++ {
			b := new(big.Int).Add(base, big.NewInt(d))
			add(b)
			k := int64(rapid.IntRange(1, 300).Draw(rt, "v.k"))
			add(new(big.Int).Add(b, big.NewInt(256*k)))
			add(new(big.Int).Sub(b, big.NewInt(256*k)))
		}
		for p := int64(0); p <= 1; p++ {
			b := new(big.Int).Add(base, big.NewInt(p))
			add(new(big.Int).Add(b, gen.Pow2(32)))
			add(new(big.Int).Add(b, gen.Pow2(63)))
			add(new(big.Int).Add(b, gen.Pow2(64)))
			add(new(big.Int).Add(b, gen.Pow2(65)))
			add(new(big.Int).Add(b, gen.Pow2(128)))
		}
	}
	// other chain ids
	for i := 0; i < 4; i++ {
		oc := genChainID(rt)
		for p := int64(0); p <= 1; p++ {
			v := new(big.Int).Mul(big.NewInt(oc), big.NewInt(2))
			add(v.Add(v, big.NewInt(35+p)))
		}
	}
	add(new(big.Int).Sub(gen.Pow2(63), big.NewInt(1)))
	add(new(big.Int).Sub(gen.Pow2(64), big.NewInt(1)))
	n := rapid.IntRange(0, 12).Draw(rt, "v.nrand")
	for i := 0; i < n; i++ {
		add(big.NewInt(int64(rapid.IntRange(0, 1<<17).Draw(rt, "v.rand"))))
	}
	return out
}

// grind perturbs the message until the signature has a short R or S, so that the
// left-padding paths are exercised on purpose rather than once in 128 cases.
func grind(c *Case) {
	keyBytes, _ := hex.DecodeString(c.Key)
	kp := secp256k1.KeyPairFromBytes(keyBytes)
	msg, _ := hex.DecodeString(c.Msg)
	if len(msg) < 2 {
		if c.Direct {
			return
		}
		msg = append(msg, 0, 0)
	}
	for i := 0; i < 1200; i++ {
		msg[len(msg)-1] = byte(i)
		msg[len(msg)-2] = byte(i >> 8)
		var sig *secp256k1.SignatureData
		var err error
		if c.Direct {
			sig, err = kp.SignDirect(msg)
		} else {
			sig, err = kp.Sign(msg)
		}
		if err != nil {
			return
		}
		if len(sig.R.Bytes()) < 32 || len(sig.S.Bytes()) < 32 {
			c.Msg = hex.EncodeToString(msg)
			return
		}
	}
}

func classify(c Case) (bool, []string) {
	var cl []string
	nt := false
	keyBytes, _ := hex.DecodeString(c.Key)
	msg, _ := hex.DecodeString(c.Msg)
	kp := secp256k1.KeyPairFromBytes(keyBytes)
	var sig *secp256k1.SignatureData
	if c.Direct {
		sig, _ = kp.SignDirect(msg)
		cl = append(cl, "entry:direct")
	} else {
		sig, _ = kp.Sign(msg)
		cl = append(cl, "entry:hashing")
	}
	if keyBytes[0] == 0 {
		cl = append(cl, "key:leading-zero")
		nt = true
	}
	if c.KeyTrim {
		cl = append(cl, "key:minimal-length-bytes")
	}
	if sig != nil && (len(sig.R.Bytes()) < 32 || len(sig.S.Bytes()) < 32) {
		cl = append(cl, "R-or-S<32B")
		nt = true
	}
	if c.ChainID >= 1<<31 {
		cl = append(cl, "chain>=2^31")
		nt = true
	}
	for _, v := range c.Vs {
		if len(v) > 3 || (len(v) == 3 && v >= "256") {
			cl = append(cl, "V-candidates>=256") // every generated case has them: a label, not part of the rule
			break
		}
	}
	if len(msg) == 0 {
		cl = append(cl, "msg:empty")
	}
	if len(msg) >= 1024 {
		cl = append(cl, "msg>=1KiB")
	}
	return nt, cl
}

func TestCheck(t *testing.T) {
	rec := evid.Start("C05", rule)
	defer rec.Finish()
	rec.Assume("oracle: ref/secp (math/big secp256k1: public key, ECDSA verify, public-key recovery, keccak address), independent of btcec")
	rec.Assume("'an altered signature / other V never recovers the signer' holds up to negligible probability; only the x=r recovery candidate is modelled")
	k := evid.NewKind(rec, "signrecover", judge)
	ks := evid.NewKind(rec, "vsweep", judgeSweep)
	setupKnown(rec, k)
	rec.Corpus(t)

	kpar := evid.NewKind(rec, "concurrent", evid.ParallelJudge(judge))
	var pool []Case
	rec.Rapid(t, "signrecover", rec.N(1200, 6000), func(rt *rapid.T) {
		c := Case{Key: genKey(rt), Direct: rapid.Bool().Draw(rt, "direct"), ChainID: genChainID(rt)}
		c.KeyTrim = c.Key[:2] == "00" && rapid.Bool().Draw(rt, "keyTrim")
		if c.Direct {
			c.Msg = gen.HexBytes(rt, "digest", 32)
			if rapid.IntRange(0, 5).Draw(rt, "digest.special") == 0 {
				// every 32-byte string is a digest: zero, all ones, and the neighbours of the curve order n and the field prime p
				sp := []*big.Int{big.NewInt(0), big.NewInt(1), new(big.Int).Sub(gen.Pow2(256), big.NewInt(1)),
					new(big.Int).Sub(secp.N, big.NewInt(1)), new(big.Int).Set(secp.N), new(big.Int).Add(secp.N, big.NewInt(1)),
					new(big.Int).Sub(secp.P, big.NewInt(1)), new(big.Int).Set(secp.P), new(big.Int).Add(secp.P, big.NewInt(1)), new(big.Int).Set(secp.HalfN)}
				b := make([]byte, 32)
				rapid.SampledFrom(sp).Draw(rt, "digest.value").FillBytes(b)
				c.Msg = hex.EncodeToString(b)
			}
		} else {
			c.Msg = gen.HexBytes(rt, "msg", gen.Len(rt, "msg.len", 4096))
		}
		if rapid.IntRange(0, 4).Draw(rt, "grind") == 0 {
			grind(&c)
		}
		c.Vs = genVs(rt, c.ChainID)
		c.FlipBit = rapid.IntRange(0, 511).Draw(rt, "flipBit")
		c.MsgFlip = rapid.IntRange(-1, 4096*8).Draw(rt, "msgFlip")
		nt, cl := classify(c)
		if len(pool) < 96 && len(c.Msg) >= 2048 {
			pool = append(pool, c)
		}
		k.Check(rt, c, nt, cl...)
	})

	kSeq := evid.NewKind(rec, "history", judgeSeq)
	rec.Rapid(t, "history", rec.N(300, 3000), func(rt *rapid.T) {
		n := rapid.IntRange(2, 6).Draw(rt, "steps")
		var sc SeqCase
		for i := 0; i < n; i++ {
			c := Case{Key: genKey(rt), Direct: rapid.Bool().Draw(rt, "direct"), ChainID: genChainID(rt)}
			if c.Direct {
				c.Msg = gen.HexBytes(rt, "digest", 32)
			} else {
				c.Msg = gen.HexBytes(rt, "msg", gen.Len(rt, "msg.len", 256))
			}
			sc.Steps = append(sc.Steps, c)
		}
		kSeq.Check(rt, sc, true, "history")
	})

	// the same cases from many goroutines at once: verdicts must not depend on concurrent callers
	t.Run("concurrent", func(t *testing.T) {
		for lo := 0; lo+8 <= len(pool); lo += 24 {
			hi := lo + 24
			if hi > len(pool) {
				hi = len(pool)
			}
			kpar.Must(t, evid.Batch[Case]{Cases: pool[lo:hi], Workers: 8, Rounds: 4}, true, "concurrent-batch")
		}
	})

	// exhaustive V sweeps
	t.Run("vsweep", func(t *testing.T) {
		pairs := 4
		if rec.Thorough() {
			pairs = 64
		}
		keys := []string{
			"0000000000000000000000000000000000000000000000000000000000000001",
			"fffffffffffffffffffffffffffffffebaaedce6af48a03bbfd25e8cd0364140",
			"00000000000000000000000000000000000000000000000000000000deadbeef",
			"4646464646464646464646464646464646464646464646464646464646464646",
		}
		chains := []int64{0, 1, 110, 111, 1337, 32000, 65500, 65519, 65520, 1 << 31, 1 << 53, 46, 47, 127, 128, 255}
		for i := 0; i < pairs; i++ {
			if i%rec.Shards != rec.Shard {
				continue
			}
			c := SweepCase{Key: keys[i%len(keys)], ChainID: chains[(i/len(keys)+i)%len(chains)], Lo: 0, Hi: 1<<17 + 1}
			vs, reached := sweep(c)
			ks.Bulk(c.Hi-c.Lo, reached, true, "vsweep:V in [0,2^17]", &c)
			if len(vs) > 0 {
				ks.Fail(t, c, vs)
			}
		}
	})
}

// setupKnown judges the probe of the open finding (if it is still listed and still
// fails, the region is excluded and KNOWN-FINDING is printed).
func setupKnown(rec *evid.Recorder, k *evid.Kind[Case]) {
	theRec = rec
	excludeCompactAlias = false
	probe := Case{Key: "0000000000000000000000000000000000000000000000000000000000000001", Msg: "01", ChainID: 1001,
		Vs: []string{"245", "246"}, FlipBit: 1, MsgFlip: 0}
	excludeCompactAlias = k.Probe(compactAliasKey, probe,
		"secp256k1 Recover(chainId=1001) accepts the single-byte V 245/246 (= low 8 bits of 35+2*1001+parity) and returns the signer; pinned by the repository's own TestGeneratedKeyRoundTrip (compact R||S||V carries one byte of V)")
}

func TestReplay(t *testing.T) {
	rec := evid.Start("C05", rule)
	k := evid.NewKind(rec, "signrecover", judge)
	setupKnown(rec, k)
	_ = k
	evid.NewKind(rec, "vsweep", judgeSweep)
	evid.NewKind(rec, "concurrent", evid.ParallelJudge(judge))
	evid.NewKind(rec, "history", judgeSeq)
	rec.Replay(t)
}
