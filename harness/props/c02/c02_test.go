// Package c02 decides property C02 (ABI encoding equals the Solidity ABI specification;
// numeric inputs are encoded exactly or rejected) by generated-input search against the
// independent encoder ref/abiref and the independent numeric-text semantics ref/numref.
//
// A case is (parameter list, mode json|go, one external rendering of the arguments).  The
// judge interprets the rendering itself with the reference semantics and derives one of
// three obligations: the input denotes an in-range value and MUST be accepted with bytes
// equal to abiref.Enc; it MUST be rejected (integer out of range, wrong fixed-array or tuple
// arity, non-integral text / JSON number for an integer type); or it MAY be rejected but, if
// accepted, must be encoded exactly (integral numbers spelled with a fraction or exponent,
// float64 values of magnitude >= 2^63).  Histories on long-lived objects (in-place edit +
// re-validation, kept results, caller-owned buffers, one shared definition under concurrency) are
// judged by the sequence kinds in seq_test.go.
package c02

import (
	"bytes"
	"encoding/json"
	"fmt"
	"math"
	"math/big"
	"strconv"
	"strings"
	"testing"

	"github.com/hyperledger/firefly-signer/pkg/abi"
	"pgregory.net/rapid"

	"verifharness/evid"
	"verifharness/gen/abigen"
	"verifharness/ref/abiref"
	"verifharness/ref/numref"
)

const rule = "the type tree contains a dynamic type below the top-level parameters, or an integer input lies on a range boundary " +
	"(min, max, min-1, max+1, -1 for unsigned) of its declared width, or some leaf uses a non-default representation " +
	"(0x hex string, JSON number, fraction/exponent spelling, Go sized integer, float64, *big.Float, []byte, object-form tuple); distinct by hash of the case"

// EncodeCase is one input to the encoder.
type EncodeCase struct {
	Params        string     `json:"params"`                  // abiref declaration of the parameter list, e.g. "(uint8 a,(string,bytes3)[2] b)"
	InternalTypes bool       `json:"internalTypes,omitempty"` // emit internalType in the ABI JSON
	Mode          string     `json:"mode"`                    // "json": EncodeABIDataJSON(text) | "go": EncodeABIDataValues(value)
	Input         abigen.Ext `json:"input"`                   // the external rendering of the arguments
	Fn            string     `json:"fn,omitempty"`            // when set, Entry.EncodeCallData{JSON,Values} is judged as well
}

// ---- reference interpretation of an external rendering

type verdict int

const (
	vAccept verdict = iota // denotes an in-range value: must be accepted, bytes == reference
	vMay                   // may be rejected; if accepted the bytes must equal the reference
	vReject                // must be rejected
	vUnspec                // outside the property (nothing asserted)
)

func (v verdict) String() string {
	return [...]string{"must-accept", "exact-or-rejected", "must-reject", "unspecified"}[v]
}

type interpretation struct {
	v      verdict
	val    abiref.Value
	reason string // for vReject / vMay / vUnspec
	// evidence flags
	boundary bool
	nonDef   bool
	classes  map[string]bool
}

func (r *interpretation) class(s string) {
	if r.classes == nil {
		r.classes = map[string]bool{}
	}
	r.classes[s] = true
}

// worse merges the verdict of a child into the running verdict of the whole input.
func (r *interpretation) merge(v verdict, reason string) {
	rank := func(x verdict) int {
		switch x {
		case vUnspec:
			return 3
		case vReject:
			return 2
		case vMay:
			return 1
		}
		return 0
	}
	if rank(v) > rank(r.v) {
		r.v, r.reason = v, reason
	}
}

var two63 = new(big.Int).Lsh(big.NewInt(1), 63)

func isBoundary(t *abiref.Type, i *big.Int) bool {
	lo, hi := t.Range()
	for _, b := range []*big.Int{hi, new(big.Int).Add(hi, big.NewInt(1)), new(big.Int).Sub(lo, big.NewInt(1))} {
		if i.Cmp(b) == 0 {
			return true
		}
	}
	return t.Kind == abiref.Int && i.Cmp(lo) == 0
}

// integer leaf: which integer does e denote for an integer type, and what is owed.
func interpInteger(r *interpretation, t *abiref.Type, e abigen.Ext, path string) abiref.Value {
	lo, hi := t.Range()
	inRange := func(i *big.Int) bool { return i.Cmp(lo) >= 0 && i.Cmp(hi) <= 0 }
	exact := func(i *big.Int, ifIn verdict, what string) abiref.Value {
		if isBoundary(t, i) {
			r.boundary = true
			r.class("value:range-boundary")
		}
		if !inRange(i) {
			r.class("input:integer-out-of-range")
			r.merge(vReject, fmt.Sprintf("%s: %s given as %s is outside the range of %s", path, i, what, t.Canonical()))
			return abiref.Value{}
		}
		if ifIn != vAccept {
			r.merge(ifIn, fmt.Sprintf("%s: %s given as %s", path, i, what))
		}
		return abiref.IntV(i)
	}
	switch e.K {
	case "str", "num":
		d := numref.Classify(e.S)
		if e.K == "num" && !(d.IsJSONNumber()) {
			r.merge(vUnspec, path+": not a JSON number token")
			return abiref.Value{}
		}
		switch d.Class {
		case numref.Integer:
			if d.Huge {
				r.class("input:integer-out-of-range")
				r.merge(vReject, path+": huge integer")
				return abiref.Value{}
			}
			switch d.Form {
			case numref.FormDecimal:
				if e.K == "num" {
					r.nonDef = true
					r.class("rep:json-number")
				} else {
					r.class("rep:decimal-string")
				}
				return exact(d.Value, vAccept, "decimal text")
			case numref.FormHex:
				r.nonDef = true
				if d.Neg {
					r.class("rep:-0x-hex-string")
				} else {
					r.class("rep:0x-hex-string")
				}
				return exact(d.Value, vAccept, "hex text")
			default:
				r.nonDef = true
				r.class("rep:integral-fraction/exponent-spelling")
				return exact(d.Value, vMay, "fraction/exponent spelling "+strconv.Quote(e.S))
			}
		case numref.NotInteger:
			r.nonDef = true
			r.class("input:non-integral-text")
			if d.Digits > 77 {
				r.class("input:non-integral-text>77-digits")
			}
			r.merge(vReject, fmt.Sprintf("%s: non-integral text %s for %s", path, strconv.Quote(clip(e.S)), t.Canonical()))
			return abiref.Value{}
		default:
			r.merge(vUnspec, path+": "+d.Reason)
			return abiref.Value{}
		}
	case "bigint":
		r.class("rep:go-big.Int")
		i, _ := new(big.Int).SetString(e.S, 10)
		return exact(i, vAccept, "*big.Int")
	case "float64":
		r.nonDef = true
		f, err := strconv.ParseFloat(e.S, 64)
		if err != nil || math.IsNaN(f) || math.IsInf(f, 0) {
			r.merge(vUnspec, path+": non-finite float64")
			return abiref.Value{}
		}
		i, acc := new(big.Float).SetFloat64(f).Int(nil)
		if acc != big.Exact {
			r.merge(vUnspec, path+": non-integral float64 Go value (not asserted)")
			return abiref.Value{}
		}
		if new(big.Int).Abs(i).Cmp(two63) >= 0 {
			r.class("rep:go-float64>=2^63")
			return exact(i, vMay, "float64")
		}
		r.class("rep:go-float64")
		return exact(i, vAccept, "float64")
	default:
		if glo, ghi, ok := abigen.GoIntRange(e.K); ok {
			r.nonDef = true
			r.class("rep:go-sized-int")
			i, _ := new(big.Int).SetString(e.S, 10)
			if i == nil || i.Cmp(glo) < 0 || i.Cmp(ghi) > 0 {
				r.merge(vUnspec, path+": sized int literal does not fit its Go type")
				return abiref.Value{}
			}
			if e.K == "uint64" && i.Cmp(two63) >= 0 {
				r.class("rep:go-uint64>=2^63")
			}
			return exact(i, vAccept, e.K)
		}
	}
	r.merge(vUnspec, fmt.Sprintf("%s: representation %q for an integer type", path, e.K))
	return abiref.Value{}
}

func clip(s string) string {
	if len(s) > 100 {
		return s[:60] + "…" + s[len(s)-30:]
	}
	return s
}

// fixed-point leaf: decimal literal with at most N fractional digits (text / JSON number),
// or an exactly representable binary float, or an integer.
func interpFixedPoint(r *interpretation, t *abiref.Type, e abigen.Ext, path string) abiref.Value {
	r.class("type:fixed-point")
	var rat *big.Rat
	switch e.K {
	case "str", "num":
		d := numref.Classify(e.S)
		if d.HasExp || d.Form == numref.FormHex || (d.Class != numref.Integer && d.Class != numref.NotInteger) || d.Huge || d.Tiny {
			r.merge(vUnspec, path+": not a plain decimal literal")
			return abiref.Value{}
		}
		if k := strings.IndexByte(e.S, '.'); k >= 0 && len(e.S)-k-1 > t.N {
			r.merge(vUnspec, path+": more fractional digits than the type has")
			return abiref.Value{}
		}
		rat = new(big.Rat).SetFrac(d.Num, d.Den)
		if e.K == "num" {
			r.nonDef = true
			r.class("rep:json-number")
		}
	case "bigfloat", "float64":
		r.nonDef = true
		r.class("rep:go-" + e.K)
		var ok bool
		if e.K == "float64" {
			f, err := strconv.ParseFloat(e.S, 64)
			if err != nil || math.IsNaN(f) || math.IsInf(f, 0) {
				r.merge(vUnspec, path+": non-finite float64")
				return abiref.Value{}
			}
			rat, ok = new(big.Rat).SetFloat64(f), true
		} else {
			rat, ok = new(big.Rat).SetString(e.S)
		}
		if !ok {
			r.merge(vUnspec, path+": bad float")
			return abiref.Value{}
		}
	case "bigint":
		r.class("rep:go-big.Int")
		i, _ := new(big.Int).SetString(e.S, 10)
		rat = new(big.Rat).SetInt(i)
	default:
		if glo, ghi, ok := abigen.GoIntRange(e.K); ok {
			r.nonDef = true
			r.class("rep:go-sized-int")
			i, _ := new(big.Int).SetString(e.S, 10)
			if i == nil || i.Cmp(glo) < 0 || i.Cmp(ghi) > 0 {
				r.merge(vUnspec, path+": sized int literal does not fit its Go type")
				return abiref.Value{}
			}
			rat = new(big.Rat).SetInt(i)
		} else {
			r.merge(vUnspec, fmt.Sprintf("%s: representation %q for a fixed-point type", path, e.K))
			return abiref.Value{}
		}
	}
	scaled := new(big.Rat).Mul(rat, new(big.Rat).SetInt(abiref.Pow10(t.N)))
	if !scaled.IsInt() {
		r.merge(vUnspec, path+": value has more than N fractional decimal digits")
		return abiref.Value{}
	}
	s := scaled.Num()
	if s.Sign() < 0 {
		r.class("value:negative-fixed-point")
	}
	lo, hi := t.Range()
	if isBoundary(t, s) {
		r.boundary = true
		r.class("value:range-boundary")
	}
	if s.Cmp(lo) < 0 || s.Cmp(hi) > 0 {
		r.class("input:fixed-point-out-of-range")
		r.merge(vReject, fmt.Sprintf("%s: %s is outside the range of %s", path, clip(e.S), t.Canonical()))
		return abiref.Value{}
	}
	return abiref.IntV(s)
}

func interpBytes(r *interpretation, e abigen.Ext, want int, path string) abiref.Value {
	var b []byte
	switch e.K {
	case "str":
		var cl numref.HexClass
		b, _, cl = numref.ParseHexBytes(e.S)
		if cl != numref.HexValid {
			r.merge(vUnspec, path+": not a hex string")
			return abiref.Value{}
		}
		if !strings.HasPrefix(e.S, "0x") {
			r.class("rep:hex-without-0x")
		}
	case "bytes":
		r.nonDef = true
		r.class("rep:go-[]byte")
		var cl numref.HexClass
		b, _, cl = numref.ParseHexBytes(e.S)
		if cl != numref.HexValid {
			r.merge(vUnspec, path+": bad case")
			return abiref.Value{}
		}
	default:
		r.merge(vUnspec, fmt.Sprintf("%s: representation %q for a byte type", path, e.K))
		return abiref.Value{}
	}
	if want >= 0 && len(b) != want {
		r.merge(vUnspec, fmt.Sprintf("%s: %d bytes given for a %d byte type (outside the quantifier)", path, len(b), want))
		return abiref.Value{}
	}
	if want < 0 {
		if len(b) == 0 {
			r.class("value:empty-dynamic")
		} else if len(b) > 32 {
			r.class("value:dynamic>32B")
		}
	}
	return abiref.BytesV(b)
}

func interp(r *interpretation, t *abiref.Type, e abigen.Ext, path string) abiref.Value {
	switch t.Kind {
	case abiref.Uint, abiref.Int:
		return interpInteger(r, t, e, path)
	case abiref.Fixed, abiref.Ufixed:
		return interpFixedPoint(r, t, e, path)
	case abiref.Bool:
		switch {
		case e.K == "bool" && (e.S == "true" || e.S == "false"):
			return abiref.BoolV(e.S == "true")
		case e.K == "str" && (e.S == "true" || e.S == "false"):
			r.class("rep:bool-as-string")
			return abiref.BoolV(e.S == "true")
		}
		r.merge(vUnspec, path+": not a boolean spelling")
		return abiref.Value{}
	case abiref.Address:
		return interpBytes(r, e, 20, path)
	case abiref.FixedBytes:
		return interpBytes(r, e, t.M, path)
	case abiref.Function:
		return interpBytes(r, e, 24, path)
	case abiref.Bytes:
		return interpBytes(r, e, -1, path)
	case abiref.String:
		if e.K != "str" {
			r.merge(vUnspec, path+": not a string")
			return abiref.Value{}
		}
		if e.S == "" {
			r.class("value:empty-dynamic")
		} else if len(e.S) > 32 {
			r.class("value:dynamic>32B")
		}
		if len(e.S) != len([]rune(e.S)) {
			r.class("value:multi-byte-utf8")
		}
		return abiref.StrV(e.S)
	case abiref.Array, abiref.Slice:
		switch e.K {
		case "list":
		case "strs", "bigints":
			r.nonDef = true
			r.class("rep:go-typed-slice")
		default:
			r.merge(vUnspec, path+": not a list")
			return abiref.Value{}
		}
		if t.Kind == abiref.Array && len(e.L) != t.Len {
			r.class("input:fixed-array-arity")
			r.merge(vReject, fmt.Sprintf("%s: %d elements for %s", path, len(e.L), t.Canonical()))
			return abiref.Value{}
		}
		out := abiref.Value{Elems: make([]abiref.Value, len(e.L))}
		for i := range e.L {
			out.Elems[i] = interp(r, t.Elem, e.L[i], fmt.Sprintf("%s[%d]", path, i))
		}
		return out
	case abiref.Tuple:
		out := abiref.Value{Elems: make([]abiref.Value, len(t.Members))}
		switch e.K {
		case "list":
			if len(e.L) != len(t.Members) {
				r.class("input:tuple-arity")
				r.merge(vReject, fmt.Sprintf("%s: %d values for the %d members of %s", path, len(e.L), len(t.Members), t.Canonical()))
				return abiref.Value{}
			}
			for i := range e.L {
				out.Elems[i] = interp(r, t.Members[i].Type, e.L[i], fmt.Sprintf("%s.%d", path, i))
			}
			return out
		case "obj":
			r.nonDef = true
			r.class("rep:tuple-as-object")
			byKey := map[string]int{}
			for i, k := range e.Keys {
				if _, dup := byKey[k]; dup {
					r.merge(vUnspec, path+": duplicate key")
					return abiref.Value{}
				}
				byKey[k] = i
			}
			used := 0
			for i := range t.Members {
				key := abigen.MemberKey(t, i)
				if t.Members[i].Name == "" {
					r.class("rep:unnamed-member-by-index-key")
				}
				j, ok := byKey[key]
				if !ok {
					r.class("input:tuple-arity")
					r.merge(vReject, fmt.Sprintf("%s: no value for member %q of %s", path, key, t.Canonical()))
					return abiref.Value{}
				}
				used++
				out.Elems[i] = interp(r, t.Members[i].Type, e.L[j], path+"."+key)
			}
			if used != len(e.Keys) {
				r.merge(vUnspec, path+": additional keys (not asserted)")
			}
			return out
		}
		r.merge(vUnspec, path+": not a list or object")
		return abiref.Value{}
	}
	r.merge(vUnspec, path+": unknown type")
	return abiref.Value{}
}

// interpret is the reference reading of a whole input.
func interpret(t *abiref.Type, e abigen.Ext) *interpretation {
	r := &interpretation{}
	r.val = interp(r, t, e, "")
	return r
}

func parseParams(c EncodeCase) (*abiref.Type, abi.ParameterArray, error) {
	t, err := abiref.ParseDecl(c.Params)
	if err != nil {
		return nil, nil, err
	}
	if t.Kind != abiref.Tuple {
		return nil, nil, fmt.Errorf("params must be a tuple")
	}
	var pa abi.ParameterArray
	if err := json.Unmarshal(abigen.ParamsJSON(t, c.InternalTypes), &pa); err != nil {
		return nil, nil, err
	}
	return t, pa, nil
}

func firstDiff(got, want []byte) string {
	if len(got) != len(want) {
		return fmt.Sprintf("length %d, want %d; got %s want %s", len(got), len(want), short(got), short(want))
	}
	for i := 0; i+32 <= len(got); i += 32 {
		if !bytes.Equal(got[i:i+32], want[i:i+32]) {
			return fmt.Sprintf("word %d (byte %d): got %x want %x", i/32, i, got[i:i+32], want[i:i+32])
		}
	}
	return "differs in trailing partial word"
}

func short(b []byte) string {
	if len(b) > 96 {
		return fmt.Sprintf("%x…(%d bytes)", b[:96], len(b))
	}
	return fmt.Sprintf("%x", b)
}

func judgeEncode(c EncodeCase) (vs []evid.Violation) {
	t, pa, err := parseParams(c)
	if err != nil {
		return []evid.Violation{evid.V("harness", "bad case: %v", err)}
	}
	var entry *abi.Entry
	if c.Fn != "" {
		_, pa2, _ := parseParams(c) // a fresh, unvalidated parameter array
		entry = &abi.Entry{Type: abi.Function, Name: c.Fn, Inputs: pa2}
	}
	return judgeEncodeWith(c, t, pa, entry)
}

// owed is what the reference says about one input: the verdict and, unless it must be
// rejected, the bytes of the specification encoding.
type owed struct {
	r    *interpretation
	want []byte
}

func reference(t *abiref.Type, in abigen.Ext) (*owed, error) {
	o := &owed{r: interpret(t, in)}
	if o.r.v == vUnspec || o.r.v == vReject {
		return o, nil
	}
	var err error
	if o.want, _, err = abiref.Enc(t, o.r.val); err != nil {
		return nil, fmt.Errorf("reference could not encode an accepted value: %v", err)
	}
	return o, nil
}

// settle compares one answer of the library with what is owed.
func (o *owed) settle(api string, got []byte, err error, want []byte) *evid.Violation {
	var v evid.Violation
	switch o.r.v {
	case vAccept:
		if err != nil {
			v = evid.V("accept-valid", "%s rejected a well-formed in-range input: %v", api, err)
		} else if !bytes.Equal(got, want) {
			v = evid.V("encoding-equals-spec", "%s: %s", api, firstDiff(got, want))
		} else {
			return nil
		}
	case vMay:
		if err == nil && !bytes.Equal(got, want) {
			v = evid.V("exact-or-rejected", "%s accepted the input (%s) but did not encode the value it denotes: %s", api, o.r.reason, firstDiff(got, want))
		} else {
			return nil
		}
	case vReject:
		if err == nil {
			v = evid.V("reject-invalid", "%s accepted an input that must be rejected (%s); encoded %s", api, o.r.reason, short(got))
		} else {
			return nil
		}
	default:
		return nil
	}
	return &v
}

// judgeEncodeWith judges one input against the library definition objects it is given (fresh
// ones for the "encode" kind; long-lived, shared or re-validated ones for the sequence kinds).
func judgeEncodeWith(c EncodeCase, t *abiref.Type, pa abi.ParameterArray, entry *abi.Entry) (vs []evid.Violation) {
	if t.HasZeroSizeArrayElem() {
		return nil // outside the quantifier
	}
	o, err := reference(t, c.Input)
	if err != nil {
		return []evid.Violation{evid.V("harness", "%v", err)}
	}
	r, want := o.r, o.want
	if r.v == vUnspec {
		return nil
	}
	var txt []byte
	var goVal interface{}
	if c.Mode == "json" {
		if txt, err = c.Input.JSON(); err != nil {
			return []evid.Violation{evid.V("harness", "bad case: %v", err)}
		}
	} else {
		goVal = c.Input.Go()
	}
	check := func(api string, got []byte, err error, want []byte) {
		if v := o.settle(api, got, err, want); v != nil {
			vs = append(vs, *v)
		}
	}
	var got []byte
	api := "EncodeABIDataJSON"
	if pv := evid.Guard("no-panic", func() {
		if c.Mode == "json" {
			got, err = pa.EncodeABIDataJSON(txt)
		} else {
			api = "EncodeABIDataValues"
			got, err = pa.EncodeABIDataValues(goVal)
		}
	}); pv != nil {
		return append(vs, *pv)
	}
	check(api, got, err, want)
	if entry != nil {
		var want2 []byte
		if r.v != vReject {
			want2 = append(abiref.Selector(abiref.Signature(entry.Name, t)), want...)
		}
		api2 := "EncodeCallDataJSON"
		if pv := evid.Guard("no-panic", func() {
			if c.Mode == "json" {
				got, err = entry.EncodeCallDataJSON(txt)
			} else {
				api2 = "EncodeCallDataValues"
				got, err = entry.EncodeCallDataValues(goVal)
			}
		}); pv != nil {
			return append(vs, *pv)
		}
		if err == nil && r.v != vReject && len(got) >= 4 && !bytes.Equal(got[:4], want2[:4]) {
			vs = append(vs, evid.V("call-data-selector", "%s: selector %x, want %x for %s", api2, got[:4], want2[:4], abiref.Signature(entry.Name, t)))
		} else {
			if len(got) >= 4 && len(want2) >= 4 {
				got, want2 = got[4:], want2[4:]
			}
			check(api2, got, err, want2)
		}
	}
	return vs
}

// ---- generation

type site struct {
	t *abiref.Type
	e *abigen.Ext
}

// untype turns typed Go slices into plain lists so that any element can be replaced.
func untype(e *abigen.Ext) {
	if e.K == "strs" || e.K == "bigints" {
		e.K = "list"
	}
	for i := range e.L {
		untype(&e.L[i])
	}
}

func collectSites(t *abiref.Type, e *abigen.Ext, out *[]site) {
	switch t.Kind {
	case abiref.Uint, abiref.Int, abiref.Fixed, abiref.Ufixed:
		*out = append(*out, site{t, e})
	case abiref.Array:
		if e.K == "list" {
			*out = append(*out, site{t, e})
		}
		fallthrough
	case abiref.Slice:
		if e.K == "list" {
			for i := range e.L {
				collectSites(t.Elem, &e.L[i], out)
			}
		}
	case abiref.Tuple:
		*out = append(*out, site{t, e})
		if e.K == "list" && len(e.L) == len(t.Members) {
			for i := range e.L {
				collectSites(t.Members[i].Type, &e.L[i], out)
			}
		} else if e.K == "obj" {
			for i := range t.Members {
				key := abigen.MemberKey(t, i)
				for j := range e.Keys {
					if e.Keys[j] == key {
						collectSites(t.Members[i].Type, &e.L[j], out)
					}
				}
			}
		}
	}
}

func copyExt(e abigen.Ext) abigen.Ext {
	c := e
	c.L = make([]abigen.Ext, len(e.L))
	for i := range e.L {
		c.L[i] = copyExt(e.L[i])
	}
	c.Keys = append([]string(nil), e.Keys...)
	return c
}

var bigOne = big.NewInt(1)

// nonIntegralText spells an integer plus a non-zero fraction: ".5", a tiny fraction after
// many zeros (beyond any fixed float precision), or a mantissa with a negative exponent.
func nonIntegralText(rt *rapid.T, i *big.Int) string {
	dec := i.String()
	switch rapid.IntRange(0, 4).Draw(rt, "frac.form") {
	case 0:
		return dec + "." + rapid.SampledFrom([]string{"5", "25", "1", "9", "000001", "999999"}).Draw(rt, "frac.digits")
	case 1, 2:
		zeros := rapid.SampledFrom([]int{0, 1, 15, 16, 17, 30, 60, 76, 77, 78, 79, 80, 100, 150, 300}).Draw(rt, "frac.zeros")
		return dec + "." + strings.Repeat("0", zeros) + strconv.Itoa(rapid.IntRange(1, 9).Draw(rt, "frac.last"))
	case 3:
		// d.ddd…e-k with a non-zero last digit
		last := strconv.Itoa(rapid.IntRange(1, 9).Draw(rt, "frac.last"))
		if i.Sign() == 0 {
			dec = "" // "05e-1" would be a leading-zero spelling
		}
		return dec + last + "e-" + strconv.Itoa(rapid.IntRange(1, 3).Draw(rt, "frac.exp"))
	default:
		return dec + ".5e0"
	}
}

// mutate applies one invalidating (or boundary-crossing) edit to the rendering.
func mutate(rt *rapid.T, t *abiref.Type, e *abigen.Ext, goMode bool, noNegFixed bool) string {
	untype(e)
	var sites []site
	collectSites(t, e, &sites)
	// pick the category of edit first (so that rare site kinds are not drowned by tuples), then the site
	cat := func(x site) int {
		switch {
		case x.t.IsInteger():
			return 0
		case x.t.IsFixedPoint():
			return 1
		case x.t.Kind == abiref.Array:
			return 2
		}
		return 3
	}
	byCat := map[int][]site{}
	for _, x := range sites {
		byCat[cat(x)] = append(byCat[cat(x)], x)
	}
	var cats []int
	for _, c := range []int{0, 0, 0, 1, 2, 2, 3} { // weights: integers 3, fixed-point 1, arrays 2, tuples 1
		if len(byCat[c]) > 0 {
			cats = append(cats, c)
		}
	}
	pool := byCat[rapid.SampledFrom(cats).Draw(rt, "mut.category")] // the root tuple is always a site
	s := pool[rapid.IntRange(0, len(pool)-1).Draw(rt, "mut.site")]
	switch {
	case s.t.IsInteger():
		lo, hi := s.t.Range()
		switch rapid.IntRange(0, 5).Draw(rt, "mut.intkind") {
		case 0, 1, 2:
			// out-of-range neighbour or far value
			far := new(big.Int).Lsh(bigOne, uint(rapid.SampledFrom([]int{8, 63, 64, 255, 256, 257, 300}).Draw(rt, "mut.farbits")))
			cands := []*big.Int{
				new(big.Int).Add(hi, bigOne), new(big.Int).Sub(lo, bigOne),
				new(big.Int).Add(hi, far), new(big.Int).Sub(lo, far),
				new(big.Int).Lsh(bigOne, uint(s.t.M)), new(big.Int).Neg(new(big.Int).Lsh(bigOne, uint(s.t.M))),
			}
			*s.e = abigen.DrawInt(rt, "mut.rep", rapid.SampledFrom(cands).Draw(rt, "mut.value"), goMode)
			return "out-of-range-integer"
		default:
			// non-integral text or JSON number
			base := abigen.IntInRange(rt, "mut.base", lo, hi)
			txt := nonIntegralText(rt, base)
			if rapid.Bool().Draw(rt, "mut.asNumber") {
				*s.e = abigen.Num(txt)
			} else {
				*s.e = abigen.Str(txt)
			}
			return "non-integral-text"
		}
	case s.t.IsFixedPoint():
		lo, hi := s.t.Range()
		v := new(big.Int).Add(hi, bigOne)
		if !(noNegFixed && s.t.Kind == abiref.Fixed) && rapid.Bool().Draw(rt, "mut.below") {
			v = new(big.Int).Sub(lo, bigOne)
		}
		*s.e = abigen.DrawDecimal(rt, "mut.rep", v, s.t.N, goMode)
		return "out-of-range-fixed-point"
	case s.t.Kind == abiref.Array:
		if rapid.Bool().Draw(rt, "mut.drop") {
			s.e.L = s.e.L[:len(s.e.L)-1]
		} else {
			s.e.L = append(s.e.L, copyExt(s.e.L[len(s.e.L)-1]))
		}
		return "fixed-array-arity"
	default: // tuple
		if s.e.K == "obj" {
			if len(s.e.L) == 0 {
				return "none"
			}
			i := rapid.IntRange(0, len(s.e.L)-1).Draw(rt, "mut.key")
			s.e.L = append(s.e.L[:i], s.e.L[i+1:]...)
			s.e.Keys = append(s.e.Keys[:i], s.e.Keys[i+1:]...)
			return "tuple-missing-key"
		}
		if len(s.e.L) > 0 && rapid.Bool().Draw(rt, "mut.drop") {
			s.e.L = s.e.L[:len(s.e.L)-1]
		} else if len(s.e.L) > 0 {
			s.e.L = append(s.e.L, copyExt(s.e.L[len(s.e.L)-1]))
		} else {
			s.e.L = append(s.e.L, abigen.Str("0"))
		}
		return "tuple-arity"
	}
}

// flipNegativeFixed makes every negative fixed<M>x<N> value non-negative (used while the
// known finding fixed-negative-abs is open). It reports whether anything changed.
func flipNegativeFixed(t *abiref.Type, v *abiref.Value) bool {
	changed := false
	switch t.Kind {
	case abiref.Fixed:
		if v.Int.Sign() < 0 {
			_, hi := t.Range()
			n := new(big.Int).Neg(v.Int)
			if n.Cmp(hi) > 0 {
				n = hi
			}
			v.Int = n
			changed = true
		}
	case abiref.Array, abiref.Slice:
		for i := range v.Elems {
			changed = flipNegativeFixed(t.Elem, &v.Elems[i]) || changed
		}
	case abiref.Tuple:
		for i := range v.Elems {
			changed = flipNegativeFixed(t.Members[i].Type, &v.Elems[i]) || changed
		}
	}
	return changed
}

func shapeClasses(t *abiref.Type) (nestedDynamic bool, cl []string) {
	seen := map[string]bool{}
	add := func(s string) {
		if !seen[s] {
			seen[s] = true
			cl = append(cl, s)
		}
	}
	maxDepth := 0
	var walk func(x *abiref.Type, depth int, underFixedArrayInTuple, underArray int)
	walk = func(x *abiref.Type, depth int, ufat, underArray int) {
		if depth > maxDepth {
			maxDepth = depth
		}
		if depth >= 2 && x.IsDynamic() {
			nestedDynamic = true
		}
		switch x.Kind {
		case abiref.Tuple:
			if depth > 0 && x.IsDynamic() && ufat > 0 {
				add("shape:dynamic-tuple-in-fixed-array-in-tuple")
			}
			if depth > 0 && !x.IsDynamic() && underArray > 0 {
				add("shape:static-tuple-in-array")
			}
			if depth > 0 && len(x.Members) == 0 {
				add("shape:empty-tuple-member")
			}
			named, unnamed := 0, 0
			for _, m := range x.Members {
				if m.Name == "" {
					unnamed++
				} else {
					named++
				}
			}
			if named > 0 && unnamed > 0 {
				add("shape:partially-named-tuple")
			}
			for _, m := range x.Members {
				walk(m.Type, depth+1, 0, 0)
			}
		case abiref.Array:
			if x.Elem.IsDynamic() {
				add("shape:fixed-array-of-dynamic")
			}
			if underArray > 0 && x.Base().IsDynamic() {
				add("shape:array-of-array-of-dynamic")
			}
			walk(x.Elem, depth+1, 1, underArray+1)
		case abiref.Slice:
			if underArray > 0 && x.Base().IsDynamic() {
				add("shape:array-of-array-of-dynamic")
			}
			if x.Elem.IsDynamic() {
				add("shape:dynamic-array-of-dynamic")
			}
			walk(x.Elem, depth+1, 0, underArray+1)
		}
	}
	walk(t, 0, 0, 0)
	if nestedDynamic {
		add("type:nested-dynamic")
	}
	if maxDepth >= 4 {
		add("type:depth>=4")
	}
	if len(t.Members) == 0 {
		add("type:no-parameters")
	}
	return
}

func caseClasses(c EncodeCase, t *abiref.Type, r *interpretation) (bool, []string) {
	nested, cl := shapeClasses(t)
	cl = append(cl, "mode:"+c.Mode, "verdict:"+r.v.String())
	for k := range r.classes {
		cl = append(cl, k)
	}
	// deterministic order for the evidence
	sortStrings(cl)
	return (nested || r.boundary || r.nonDef) && r.v != vUnspec, cl
}

func sortStrings(s []string) {
	for i := 1; i < len(s); i++ {
		for j := i; j > 0 && s[j] < s[j-1]; j-- {
			s[j], s[j-1] = s[j-1], s[j]
		}
	}
}

const probeKeyNegFixed = "fixed-negative-abs"

func TestCheck(t *testing.T) {
	rec := evid.Start("C02", rule)
	defer rec.Finish()
	rec.Assume("reference: ref/abiref (Solidity ABI head/tail encoding, written independently of pkg/abi, anchored to the specification's examples) and ref/numref (exact numeric text semantics)")
	rec.Assume("not asserted: decimal text with leading zeros, 0b/0o prefixes, '_' separators, leading '+', surrounding white space; non-integral float64/*big.Float Go values for integer types; " +
		"zero-length fixed arrays and zero-size elements inside arrays; bytes<M>/address values of another length than declared; extra keys in object-form tuples; fixed-point literals with more than N fractional digits or an exponent")
	rec.Assume("integral numbers spelled with a fraction or exponent (\"1.0\", \"12e3\") and float64 values of magnitude >= 2^63 may be rejected, but if accepted must be encoded exactly")
	kEnc := evid.NewKind(rec, "encode", judgeEncode)
	cpool := evid.NewPool(rec, "concurrent", judgeEncode, 64)
	kReval := evid.NewKind(rec, "revalidate", judgeReval)
	kHist := evid.NewKind(rec, "history", judgeHistory)
	kShared := evid.NewKind(rec, "shared", judgeShared).DeclareEach()
	rec.Assume("sequence kinds: a definition edited in place is validated again before it is used (the documented contract); value trees returned by ParseExternalData may refer to the caller's Go values (not asserted), every other result must be independent of caller-owned memory and of later calls")
	rec.Corpus(t)

	noNegFixed := kEnc.Probe(probeKeyNegFixed,
		EncodeCase{Params: "(fixed128x18 f)", Mode: "json", Input: abigen.List([]abigen.Ext{abigen.Str("-1.5")})},
		"negative fixed<M>x<N> input is encoded as its absolute value (encodeFixed takes Abs; pinned by TestEncodeUnsignedFloatNegativeOk), e.g. fixed128x18 \"-1.5\" encodes as +1.5")

	t.Run("exhaustive-integer-boundaries", func(t *testing.T) { sweep(t, rec, kEnc) })

	rec.Rapid(t, "encode", rec.N(12000, 300000), func(rt *rapid.T) {
		depth := rapid.SampledFrom([]int{0, 1, 2, 2, 3, 3, 3}).Draw(rt, "depth")
		ty := abigen.Params(rt, "t", depth, abigen.Opts{})
		v := abigen.Value(rt, "v", ty)
		if noNegFixed && flipNegativeFixed(ty, &v) {
			rec.Excluded(probeKeyNegFixed)
		}
		goMode := rapid.Bool().Draw(rt, "goMode")
		var ext abigen.Ext
		mode := "json"
		if goMode {
			mode = "go"
			ext = abigen.DrawGo(rt, "x", ty, v)
		} else {
			ext = abigen.DrawJSON(rt, "x", ty, v)
		}
		mut := "none"
		if rapid.IntRange(0, 9).Draw(rt, "mutate") >= 6 {
			mut = mutate(rt, ty, &ext, goMode, noNegFixed)
		}
		c := EncodeCase{Params: ty.Decl(), InternalTypes: rapid.Bool().Draw(rt, "internalTypes"), Mode: mode, Input: ext}
		if rapid.Bool().Draw(rt, "callData") {
			c.Fn = rapid.SampledFrom([]string{"f", "transfer", "$_x1", "safeTransferFrom"}).Draw(rt, "fn")
		}
		r := interpret(ty, ext)
		if mut == "none" && (r.v != vAccept && r.v != vMay || (r.v != vUnspec && !abiref.Equal(ty, r.val, v))) {
			rt.Fatalf("harness: the reference reading of an unmutated rendering is %s (%s) or a different value", r.v, r.reason)
		}
		nt, cl := caseClasses(c, ty, r)
		cl = append(cl, "mutation:"+mut)
		if r.v == vUnspec {
			why := r.reason
			if i := strings.LastIndex(why, ": "); i >= 0 {
				why = why[i+2:]
			}
			cl = append(cl, "unspecified:"+why)
		}
		if c.Fn != "" {
			cl = append(cl, "api:EncodeCallData")
		}
		cpool.Offer(c)
		kEnc.Check(rt, c, nt, cl...)
	})
	cpool.Run(t, 8, 3, 16)

	rec.Rapid(t, "revalidate", rec.N(2500, 20000), func(rt *rapid.T) {
		c, nested, cl := genReval(rt, rec, noNegFixed)
		kReval.Check(rt, c, nested, cl...)
	})
	rec.Rapid(t, "history", rec.N(2500, 20000), func(rt *rapid.T) {
		c, nt, cl := genHistory(rt, rec, noNegFixed)
		kHist.Check(rt, c, nt, cl...)
	})
	rec.Rapid(t, "shared", rec.N(40, 100), func(rt *rapid.T) {
		c, nt, cl := genShared(rt, rec, noNegFixed)
		kShared.Check(rt, c, nt, cl...)
	})
}

// sweep enumerates, for each of the 64 integer types, the values {min-1, min, -1, 0, 1, max,
// max+1} in every textual and Go representation that can carry them.
func sweep(t *testing.T, rec *evid.Recorder, k *evid.Kind[EncodeCase]) {
	var n, nt int64
	var sample *EncodeCase
	idx := 0
	for _, kind := range []abiref.Kind{abiref.Uint, abiref.Int} {
		for m := 8; m <= 256; m += 8 {
			idx++
			if rec.Shards > 1 && idx%rec.Shards != rec.Shard {
				continue
			}
			ty := &abiref.Type{Kind: kind, M: m}
			params := abiref.TupleOf(abiref.Member{Name: "v", Type: ty})
			lo, hi := ty.Range()
			vals := []*big.Int{new(big.Int).Sub(lo, bigOne), lo, big.NewInt(-1), big.NewInt(0), big.NewInt(1), hi, new(big.Int).Add(hi, bigOne)}
			for _, v := range vals {
				dec := v.String()
				type rep struct {
					mode string
					e    abigen.Ext
				}
				reps := []rep{
					{"json", abigen.Str(dec)},
					{"json", abigen.Str(abigen.HexText(v))},
					{"json", abigen.Str(strings.Replace(strings.ToUpper(abigen.HexText(v)), "0X", "0x", 1))},
					{"json", abigen.Num(dec)},
					{"json", abigen.Str(dec + ".0")},
					{"json", abigen.Num(dec + ".0")},
					{"json", abigen.Num(dec + "e0")},
					{"json", abigen.Num(dec + "0e-1")},
					{"json", abigen.Str(dec + ".5")},
					{"json", abigen.Num(dec + ".5")},
					{"json", abigen.Num(dec + "5e-1")},
					{"json", abigen.Str(dec + "." + strings.Repeat("0", 90) + "1")},
					{"json", abigen.Num(dec + "." + strings.Repeat("0", 90) + "1")},
					{"go", abigen.Scalar("bigint", dec)},
					{"go", abigen.Str(dec)},
					{"go", abigen.Str(abigen.HexText(v))},
					{"go", abigen.Num(dec)},
					{"go", abigen.Num(dec + ".5")},
				}
				for _, gk := range abigen.GoIntKinds {
					glo, ghi, _ := abigen.GoIntRange(gk)
					if v.Cmp(glo) >= 0 && v.Cmp(ghi) <= 0 {
						reps = append(reps, rep{"go", abigen.Scalar(gk, dec)})
					}
				}
				if abigen.FitsFloat64(v) {
					reps = append(reps, rep{"go", abigen.Scalar("float64", abigen.Float64Text(v))})
				}
				for _, rp := range reps {
					c := EncodeCase{Params: params.Decl(), Mode: rp.mode, Input: abigen.List([]abigen.Ext{rp.e}), Fn: "f"}
					vs := judgeEncode(c)
					n++
					if r := interpret(params, c.Input); r.v != vUnspec {
						nt++ // every swept value except 0/1 is on a boundary or non-default; counted as an enumeration
					}
					if sample == nil && kind == abiref.Int && v.Cmp(hi) == 0 {
						cc := c
						sample = &cc
					}
					if len(vs) > 0 {
						k.Fail(t, c, vs)
					}
				}
			}
		}
	}
	k.Bulk(n, nt, true, "exhaustive:64-int-types x 7 boundary values x representations", sample)
}

func TestReplay(t *testing.T) {
	rec := evid.Start("C02", rule)
	evid.NewKind(rec, "encode", judgeEncode)
	evid.NewPool(rec, "concurrent", judgeEncode, 0)
	evid.NewKind(rec, "revalidate", judgeReval)
	evid.NewKind(rec, "history", judgeHistory)
	evid.NewKind(rec, "shared", judgeShared)
	rec.Replay(t)
}
